(* C05/Proofs6.v -- the comparator's own tie tests (Spec.nearest_determined, Spec.nodupZ_b on the model's amplitudes)
   are sufficient: wherever Corr.v demands equality with the model run under one particular oracle, the model's
   record is the same for EVERY oracle that returns a sorting permutation.  Also: whether the model returns at all,
   and best_channel, never depend on the oracle (pairwise distinct positions). *)
From Coq Require Import ZArith List Bool Arith Lia Permutation.
From PV Require Import C05.Model C05.Spec C05.Proofs C05.Proofs2 C05.Proofs5.
Import ListNotations.
Open Scope Z_scope.

Lemma nodupZ_b_sound l : nodupZ_b l = true -> NoDup l.
Proof.
  induction l as [|x r IH]; cbn [nodupZ_b]; [constructor|]. rewrite andb_true_iff, negb_true_iff.
  intros [H1 H2]. constructor; [|now apply IH]. intros Hin.
  assert (existsb (Z.eqb x) r = true) by (apply existsb_exists; exists x; split; [assumption|apply Z.eqb_refl]).
  congruence.
Qed.

(* ---- np.unique / np.intersect1d depend only on the SETS of their arguments --------------------------------- *)
Lemma ssorted_tail x l : ssorted (x :: l) -> ssorted l.
Proof. intros H. inversion H; subst; [constructor|assumption]. Qed.

Lemma ssorted_unique l1 : forall l2, ssorted l1 -> ssorted l2 -> (forall x, In x l1 <-> In x l2) -> l1 = l2.
Proof.
  induction l1 as [|x r IH]; intros [|y s] H1 H2 Hin.
  - reflexivity.
  - exfalso. apply (Hin y). now left.
  - exfalso. apply (Hin x). now left.
  - pose proof (ssorted_lt x r H1) as Hx. pose proof (ssorted_lt y s H2) as Hy.
    assert (x = y).
    { destruct (proj1 (Hin x) (or_introl eq_refl)) as [E|Hxs]; [congruence|].
      destruct (proj2 (Hin y) (or_introl eq_refl)) as [E|Hyr]; [congruence|].
      specialize (Hx y Hyr). specialize (Hy x Hxs). lia. }
    subst y. f_equal. apply IH.
    + now apply ssorted_tail in H1.
    + now apply ssorted_tail in H2.
    + intros z. split; intros Hz.
      * destruct (proj1 (Hin z) (or_intror Hz)) as [E|H]; [|assumption]. subst z. specialize (Hx x Hz). lia.
      * destruct (proj2 (Hin z) (or_intror Hz)) as [E|H]; [|assumption]. subst z. specialize (Hy x Hz). lia.
Qed.

Lemma usort_ext a a' : (forall x, In x a <-> In x a') -> usort a = usort a'.
Proof. intros H. apply ssorted_unique; try apply usort_sorted. intros x. now rewrite !usort_In. Qed.

Lemma memb_ext x b b' : (forall y, In y b <-> In y b') -> memb x b = memb x b'.
Proof.
  intros H. destruct (memb x b) eqn:E1, (memb x b') eqn:E2; try reflexivity.
  - apply memb_In in E1. apply H in E1. apply memb_In in E1. congruence.
  - apply memb_In in E2. apply H in E2. apply memb_In in E2. congruence.
Qed.

Lemma intersect1d_ext a a' b b' : (forall x, In x a <-> In x a') -> (forall x, In x b <-> In x b') ->
  intersect1d a b = intersect1d a' b'.
Proof.
  intros Ha Hb. unfold intersect1d. rewrite (usort_ext a a' Ha). apply filter_ext_in. intros x _. now apply memb_ext.
Qed.

Lemma perm_usort a b : Permutation a b -> usort a = usort b.
Proof. intros H. apply usort_ext. intros x. split; apply Permutation_in; [assumption|now apply Permutation_sym]. Qed.

(* ---- a determined neighbourhood: when no distance tie straddles the boundary, the set of the n nearest channels
   is unique -------------------------------------------------------------------------------------------------- *)
Lemma nearest_len P b n N : Nearest P b n N ->
  0 < (if n =? 0 then Z.of_nat (length P) else Z.min n (Z.of_nat (length P))) ->
  Z.of_nat (length N) = (if n =? 0 then Z.of_nat (length P) else Z.min n (Z.of_nat (length P))).
Proof.
  intros (_ & _ & Hl & _) Hk. rewrite Hl. destruct (n =? 0) eqn:E; [reflexivity|]. lia.
Qed.

Lemma nearest_determined_set P b n : nearest_determined P b n = true ->
  exists U, forall N, Nearest P b n N -> forall c, In c N <-> In c U.
Proof.
  unfold nearest_determined. set (all := seq 0 (length P)). set (dist := chan_dist P b).
  set (k := if n =? 0 then Z.of_nat (length P) else Z.min n (Z.of_nat (length P))).
  rewrite orb_true_iff. intros [Hk|Hex].
  - apply Z.eqb_eq in Hk. exists all. intros N (Hnd & Hlt & Hlen & _) c.
    assert (HlenN : length N = length P).
    { rewrite Hlen. unfold k in Hk. destruct (n =? 0); [reflexivity|]. lia. }
    assert (Hincl : incl N all) by (intros x Hx; apply in_seq; specialize (Hlt x Hx); lia).
    assert (Hincl2 : incl all N).
    { apply (NoDup_length_incl Hnd); [unfold all; rewrite seq_length; lia|exact Hincl]. }
    split; [apply Hincl|apply Hincl2].
  - apply existsb_exists in Hex. destruct Hex as (cs & Hcs & Hcnt). apply Z.eqb_eq in Hcnt.
    unfold countb in Hcnt.
    set (U := filter (fun a => dist a <=? dist cs) all) in *.
    exists U. intros N HN c.
    assert (Hkpos : 0 < k).
    { rewrite <- Hcnt. assert (Hin : In cs U) by (apply filter_In; split; [assumption|apply Z.leb_le; lia]).
      destruct U; [contradiction|cbn [length]; lia]. }
    pose proof (nearest_len P b n N HN Hkpos) as HlenN. fold k in HlenN.
    destruct HN as (Hnd & Hlt & _ & Hfar).
    assert (HUnd : NoDup U) by (apply NoDup_filter, seq_NoDup).
    assert (Hle : forall a, In a N -> dist a <= dist cs).
    { intros a Ha. destruct (Z.le_gt_cases (dist a) (dist cs)) as [|Hgt]; [assumption|]. exfalso.
      assert (Hincl : incl U N).
      { intros x Hx. apply filter_In in Hx. destruct Hx as [Hx1 Hx2]. apply in_seq in Hx1. apply Z.leb_le in Hx2.
        destruct (in_dec Nat.eq_dec x N) as [|Hnot]; [assumption|]. exfalso.
        specialize (Hfar a x Ha ltac:(lia) Hnot). change (dist a <= dist x) in Hfar. lia. }
      assert (Hincl2 : incl N U) by (apply (NoDup_length_incl HUnd); [lia|exact Hincl]).
      specialize (Hincl2 a Ha). apply filter_In in Hincl2. destruct Hincl2 as [_ H2]. apply Z.leb_le in H2. lia. }
    assert (HNU : incl N U).
    { intros a Ha. apply filter_In. split; [apply in_seq; specialize (Hlt a Ha); lia|apply Z.leb_le; now apply Hle]. }
    assert (HUN : incl U N) by (apply (NoDup_length_incl Hnd); [lia|exact HNU]).
    split; [apply HNU|apply HUN].
Qed.

Theorem nearest_unique P b n N1 N2 :
  nearest_determined P b n = true -> Nearest P b n N1 -> Nearest P b n N2 -> forall c, In c N1 <-> In c N2.
Proof.
  intros Hd H1 H2 c. destruct (nearest_determined_set P b n Hd) as (U & HU).
  rewrite (HU N1 H1 c), (HU N2 H2 c). tauto.
Qed.

(* the reordering of _find_best_channels is a permutation of the candidate channels, whatever the oracle *)
Lemma reorder_perm (a : list Z -> list nat) (A : Argsort_ok a) (amp : list Z) (ids : list nat) :
  Permutation (map (fun k => nth k ids 0%nat) (rev (a (map (fun c => nth c amp 0) ids)))) ids.
Proof.
  apply gather_perm.
  assert (Hk : length (map (fun c => nth c amp 0) ids) = length ids) by apply map_length.
  rewrite <- Hk. now apply rev_as_perm.
Qed.

Section Two.
Variables a1 a2 : list Z -> list nat.
Hypothesis A1 : Argsort_ok a1.
Hypothesis A2 : Argsort_ok a2.

Lemma closest_two P bc n c1 : NoDup P -> 0 <= n -> closest a1 P bc n = Some c1 ->
  exists c2, closest a2 P bc n = Some c2 /\
    (nearest_determined P bc n = true -> forall x, In x c1 <-> In x c2).
Proof.
  intros HP Hn H1.
  assert (Hbc : (bc < length P)%nat).
  { unfold closest in H1. destruct (nth_error P bc) eqn:E; [|discriminate]. apply nth_error_Some. congruence. }
  destruct (closest_defined a2 A2 P bc n HP Hbc Hn) as (c2 & H2). exists c2. split; [assumption|].
  intros Hdet. apply (nearest_unique P bc n); try assumption.
  - exact (proj1 (closest_nearest a1 A1 P bc n c1 Hn H1)).
  - exact (proj1 (closest_nearest a2 A2 P bc n c2 Hn H2)).
Qed.

Lemma find_best_two P shanks n amp t b1 : NoDup P -> 0 <= n ->
  find_best_channels a1 P shanks n amp t = Some b1 ->
  exists b2, find_best_channels a2 P shanks n amp t = Some b2 /\ b_best b2 = b_best b1 /\
    (nearest_determined P (b_best b1) n = true ->
       Permutation (b_channels b2) (b_channels b1) /\
       (NoDup (map (fun c => nth c amp 0) (b_channels b1)) -> b2 = b1)).
Proof.
  intros HP Hn. unfold find_best_channels. destruct amp as [|a0 ar] eqn:Eamp; [discriminate|]. rewrite <- Eamp.
  clear Eamp a0 ar.
  set (bc := argmax_first amp).
  destruct (closest a1 P bc n) as [c1|] eqn:Ec1; [|discriminate].
  destruct (closest_two P bc n c1 HP Hn Ec1) as (c2 & Ec2 & Hset). rewrite Ec2.
  set (peak := filter (fun c => tp t * nth bc amp 0 <=? tq t * nth c amp 0) (seq 0 (length amp))).
  set (on_shank := filter (fun c => nth c shanks 0 =? nth bc shanks 0) (seq 0 (length shanks))).
  set (ids1 := intersect1d peak (intersect1d c1 on_shank)).
  set (ids2 := intersect1d peak (intersect1d c2 on_shank)).
  pose proof (reorder_perm a1 A1 amp ids1) as P1. pose proof (reorder_perm a2 A2 amp ids2) as P2.
  destruct (memb bc (map (fun k => nth k ids1 0%nat) (rev (a1 (map (fun c => nth c amp 0) ids1))))) eqn:Em1; [|discriminate].
  intros H; injection H as <-. cbn [b_best b_channels].
  assert (Hbc1 : In bc ids1) by (apply (Permutation_in _ P1); now apply memb_In).
  assert (Hbc2 : In bc ids2).
  { unfold ids1 in Hbc1. unfold ids2. rewrite !intersect1d_In in *.
    destruct Hbc1 as (Hp & _ & Hs). repeat split; try assumption.
    exact (proj2 (closest_nearest a2 A2 P bc n c2 Hn Ec2)). }
  assert (Em2 : memb bc (map (fun k => nth k ids2 0%nat) (rev (a2 (map (fun c => nth c amp 0) ids2)))) = true).
  { apply memb_In. apply (Permutation_in _ (Permutation_sym P2)). exact Hbc2. }
  rewrite Em2. eexists. split; [reflexivity|]. cbn [b_best b_channels]. split; [reflexivity|].
  intros Hdet. specialize (Hset Hdet).
  assert (Eids : ids2 = ids1).
  { unfold ids1, ids2. apply intersect1d_ext; [intros x; tauto|]. intros x. rewrite !intersect1d_In, (Hset x). tauto. }
  clearbody ids2. subst ids2.
  split.
  - eapply Permutation_trans; [exact P2|apply Permutation_sym; exact P1].
  - intros Hnd.
    assert (Hk : NoDup (map (fun c => nth c amp 0) ids1)).
    { eapply Permutation_NoDup; [|exact Hnd]. apply Permutation_map. exact P1. }
    rewrite (argsort_unique a2 a1 _ A2 A1 Hk). reflexivity.
Qed.

(* dense path.  Whatever the oracle, the model returns or raises alike and best_channel is the same; with an explicit
   list the whole record is the same; without one, the SET of listed channels is the same when the neighbourhood is
   determined, and the whole record when moreover the listed amplitudes are pairwise distinct: exactly the
   case analysis of Corr.judge_dense, code 1. *)
Theorem dense_tie_test_sufficient d r m : NoDup (d_pos d) -> 0 <= d_nclosest d ->
  get_template_dense a1 d r = Some m ->
  exists m2, get_template_dense a2 d r = Some m2 /\ t_best m2 = t_best m /\
    match r_chans r with
    | Some _ => m2 = m
    | None => nearest_determined (d_pos d) (t_best m) (d_nclosest d) = true ->
              usort (t_channels m2) = usort (t_channels m) /\
              (nodupZ_b (t_amplitude m) = true -> m2 = m)
    end.
Proof.
  intros HP Hn. unfold get_template_dense. destruct (dense_full d r) as [T|]; [|discriminate].
  destruct (negb _); [discriminate|].
  set (t := match r_thr r with Some t => t | None => d_thr d end).
  destruct (find_best_channels a1 (d_pos d) (d_shanks d) (d_nclosest d) (map ptp T) t) as [b1|] eqn:E1; [|discriminate].
  destruct (find_best_two _ _ _ _ _ _ HP Hn E1) as (b2 & E2 & Hb & Hdet). rewrite E2.
  destruct (r_chans r) as [l|].
  - destruct (forallb _ l); [|discriminate]. intros H; injection H as <-. eexists. split; [reflexivity|].
    cbn [t_best]. rewrite Hb. split; reflexivity.
  - intros H; injection H as <-. eexists. split; [reflexivity|]. cbn [t_best t_channels t_amplitude]. split; [assumption|].
    intros Hd. destruct (Hdet Hd) as [Hperm Heq]. split.
    + now apply perm_usort.
    + intros Hnd. apply nodupZ_b_sound in Hnd. rewrite Heq; [reflexivity|].
      rewrite map_map in Hnd.
      replace (map (fun c => nth c (map ptp T) 0) (b_channels b1))
        with (map (fun x => ptp (nth x T [])) (b_channels b1)); [exact Hnd|].
      apply map_ext. intros c. symmetry. apply nth_map_ptp.
Qed.

(* sparse path: the model returns or raises alike; best_channel and the set of listed channels are the same for every
   oracle, and the whole record when the model's amplitudes are pairwise distinct (Corr.judge_sparse, code 1) *)
Theorem sparse_tie_test_sufficient d table r m :
  get_template_sparse a1 d table r = Some m ->
  exists m2, get_template_sparse a2 d table r = Some m2 /\ t_best m2 = t_best m /\
    usort (t_channels m2) = usort (t_channels m) /\
    (nodupZ_b (t_amplitude m) = true -> m2 = m).
Proof.
  intros H.
  destruct (nth_error (d_templates d) (r_tid r)) as [cols|] eqn:E1;
    [|unfold get_template_sparse in H; rewrite E1 in H; discriminate].
  destruct (nth_error table (r_tid r)) as [chans|] eqn:E2;
    [|unfold get_template_sparse in H; rewrite E1, E2 in H; discriminate].
  destruct (sparse_unfold a1 d table r m cols chans E1 E2 H) as (Hlen & Hne & Hok & ->).
  assert (Hkept : kept_positions cols chans <> []).
  { intros E. apply Hne. rewrite E. reflexivity. }
  destruct (sparse_defined a2 d table r cols chans E1 E2 Hlen Hok Hkept) as (m2 & H2).
  exists m2. split; [exact H2|].
  destruct (sparse_unfold a2 d table r m2 cols chans E1 E2 H2) as (_ & _ & _ & ->).
  cbn [t_best t_channels t_amplitude].
  set (kept := kept_positions cols chans) in *.
  set (ids := map (chan_at chans) kept).
  set (template := map (sparse_col (d_wmi d) (d_scale d) cols chans (r_unwhiten r)) kept).
  set (amp := map ptp template) in *.
  assert (Hal : length amp = length ids) by (unfold amp, template, ids; now rewrite !map_length).
  assert (Hp : forall a, Argsort_ok a -> Permutation (gather ids 0%nat (rev (a amp))) ids).
  { intros a A. unfold gather. apply gather_perm. rewrite <- Hal. now apply rev_as_perm. }
  split; [reflexivity|]. split.
  - apply perm_usort. eapply Permutation_trans; [apply (Hp a2 A2)|apply Permutation_sym, (Hp a1 A1)].
  - intros Hnd. apply nodupZ_b_sound in Hnd.
    assert (Hk : NoDup amp).
    { assert (Hg : Permutation (gather amp 0 (rev (a1 amp))) amp) by (unfold gather; apply gather_perm; now apply rev_as_perm).
      apply (Permutation_NoDup Hg Hnd). }
    rewrite (argsort_unique a2 a1 _ A2 A1 Hk). reflexivity.
Qed.
End Two.

(* whether the model raises does not depend on the oracle *)
Theorem dense_raises_oracle_independent a1 a2 d r :
  Argsort_ok a1 -> Argsort_ok a2 -> NoDup (d_pos d) -> 0 <= d_nclosest d ->
  get_template_dense a1 d r = None -> get_template_dense a2 d r = None.
Proof.
  intros A1 A2 HP Hn H. destruct (get_template_dense a2 d r) as [m|] eqn:E; [|reflexivity].
  destruct (dense_tie_test_sufficient a2 a1 A2 A1 d r m HP Hn E) as (m2 & H2 & _). congruence.
Qed.
Theorem sparse_raises_oracle_independent a1 a2 d table r :
  Argsort_ok a1 -> Argsort_ok a2 ->
  get_template_sparse a1 d table r = None -> get_template_sparse a2 d table r = None.
Proof.
  intros A1 A2 H. destruct (get_template_sparse a2 d table r) as [m|] eqn:E; [|reflexivity].
  destruct (sparse_tie_test_sufficient a2 a1 A2 A1 d table r m E) as (m2 & H2 & _). congruence.
Qed.
