(* C05/Proofs.v -- basic lemmas (max, argmax, unique sort, argsort oracle) and the dense-storage theorems. *)
From Coq Require Import ZArith List Bool Arith Lia Permutation.
From PV Require Import C05.Model C05.Spec.
Import ListNotations.
Open Scope Z_scope.

(* ---- list equality checkers ------------------------------------------------------------------------------ *)
Lemma zl_eqb_eq a b : zl_eqb a b = true <-> a = b.
Proof.
  revert b; induction a as [|x a IH]; intros [|y b]; cbn [zl_eqb]; split; try discriminate; try reflexivity.
  - rewrite andb_true_iff, Z.eqb_eq, IH. intros [-> ->]; reflexivity.
  - intros H; injection H as -> ->. rewrite Z.eqb_refl. cbn. now apply IH.
Qed.
Lemma nl_eqb_eq a b : nl_eqb a b = true <-> a = b.
Proof.
  revert b; induction a as [|x a IH]; intros [|y b]; cbn [nl_eqb]; split; try discriminate; try reflexivity.
  - rewrite andb_true_iff, Nat.eqb_eq, IH. intros [-> ->]; reflexivity.
  - intros H; injection H as -> ->. rewrite Nat.eqb_refl. cbn. now apply IH.
Qed.
Lemma zll_eqb_eq a b : zll_eqb a b = true <-> a = b.
Proof.
  revert b; induction a as [|x a IH]; intros [|y b]; cbn [zll_eqb]; split; try discriminate; try reflexivity.
  - rewrite andb_true_iff, zl_eqb_eq, IH. intros [-> ->]; reflexivity.
  - intros H; injection H as -> ->. rewrite andb_true_iff, zl_eqb_eq, IH. auto.
Qed.

Lemma memb_In x l : memb x l = true <-> In x l.
Proof.
  unfold memb. rewrite existsb_exists. split.
  - intros (y & Hy & E). apply Nat.eqb_eq in E. now subst.
  - intros H. exists x. split; [assumption|apply Nat.eqb_refl].
Qed.

(* ---- max / min / ptp / argmax ---------------------------------------------------------------------------- *)
Lemma fold_max_ge x r : x <= fold_right Z.max x r /\ forall y, In y r -> y <= fold_right Z.max x r.
Proof.
  induction r as [|z r [IH1 IH2]]; cbn [fold_right In]; split; try lia; try tauto.
  intros y [<-|H]; [lia|]. specialize (IH2 y H). lia.
Qed.
Lemma fold_min_le x r : fold_right Z.min x r <= x /\ forall y, In y r -> fold_right Z.min x r <= y.
Proof.
  induction r as [|z r [IH1 IH2]]; cbn [fold_right In]; split; try lia; try tauto.
  intros y [<-|H]; [lia|]. specialize (IH2 y H). lia.
Qed.
Lemma lmax_ge l x : In x l -> x <= lmax l.
Proof.
  destruct l as [|y r]; [intros []|]. cbn [lmax]. destruct (fold_max_ge y r) as [H1 H2].
  intros [<-|H]; [assumption|now apply H2].
Qed.
Lemma ptp_nonneg col : 0 <= ptp col.
Proof.
  unfold ptp. destruct col as [|x r]; cbn [lmax lmin]; [lia|].
  pose proof (proj1 (fold_max_ge x r)). pose proof (proj1 (fold_min_le x r)). lia.
Qed.

Lemma argmax_from_spec r : forall i bi bv,
  let k := argmax_from r i bi bv in
  (k = bi /\ forall x, In x r -> x <= bv) \/
  (exists j, k = (i + j)%nat /\ (j < length r)%nat /\ bv < nth j r 0 /\ forall x, In x r -> x <= nth j r 0).
Proof.
  induction r as [|x r IH]; intros i bi bv; cbn [argmax_from].
  - left. split; [reflexivity|intros ? []].
  - destruct (bv <? x) eqn:E.
    + right. destruct (IH (S i) i x) as [[Hk Hle]|(j & Hk & Hj & Hlt & Hle)].
      * exists 0%nat. cbn [nth length In]. repeat split; try lia.
        intros y [<-|Hy]; [lia|now apply Hle].
      * exists (S j). cbn [nth length In]. repeat split; try lia.
        intros y [<-|Hy]; [lia|now apply Hle].
    + destruct (IH (S i) bi bv) as [[Hk Hle]|(j & Hk & Hj & Hlt & Hle)].
      * left. split; [assumption|]. intros y [<-|Hy]; [lia|now apply Hle].
      * right. exists (S j). cbn [nth length In]. repeat split; try lia.
        intros y [<-|Hy]; [lia|now apply Hle].
Qed.

Lemma argmax_first_spec l : l <> [] ->
  (argmax_first l < length l)%nat /\ forall x, In x l -> x <= nth (argmax_first l) l 0.
Proof.
  destruct l as [|x r]; [congruence|]. intros _. cbn [argmax_first length].
  destruct (argmax_from_spec r 1 0 x) as [[Hk Hle]|(j & Hk & Hj & Hlt & Hle)].
  - rewrite Hk. cbn [nth]. split; [lia|]. intros y [<-|Hy]; [lia|now apply Hle].
  - rewrite Hk. change (nth (1 + j) (x :: r) 0) with (nth j r 0). split; [lia|].
    intros y [<-|Hy]; [lia|now apply Hle].
Qed.

Lemma argmax_first_nth l i : (i < length l)%nat -> nth i l 0 <= nth (argmax_first l) l 0.
Proof.
  intros Hi. apply argmax_first_spec; [destruct l; cbn in *; [lia|congruence]|]. now apply nth_In.
Qed.

(* ---- unique sort, intersect1d ----------------------------------------------------------------------------- *)
Inductive ssorted : list nat -> Prop :=
| ss_nil : ssorted []
| ss_one x : ssorted [x]
| ss_cons x y r : (x < y)%nat -> ssorted (y :: r) -> ssorted (x :: y :: r).

Lemma uinsert_In x l y : In y (uinsert x l) <-> y = x \/ In y l.
Proof.
  induction l as [|z r IH]; cbn [uinsert In]; [intuition|].
  destruct (x <? z)%nat eqn:E1; [cbn [In]; intuition|].
  destruct (x =? z)%nat eqn:E2.
  - apply Nat.eqb_eq in E2. subst. cbn [In]. intuition.
  - cbn [In]. rewrite IH. intuition.
Qed.
Lemma uinsert_sorted x l : ssorted l -> ssorted (uinsert x l).
Proof.
  induction 1 as [|y|y z r Hyz Hs IH]; cbn [uinsert].
  - constructor.
  - destruct (x <? y)%nat eqn:E1; [constructor; [apply Nat.ltb_lt in E1; lia|constructor]|].
    destruct (x =? y)%nat eqn:E2; [constructor|].
    apply Nat.ltb_ge in E1. apply Nat.eqb_neq in E2. constructor; [lia|constructor].
  - destruct (x <? y)%nat eqn:E1; [constructor; [apply Nat.ltb_lt in E1; lia|now constructor]|].
    destruct (x =? y)%nat eqn:E2; [now constructor|].
    apply Nat.ltb_ge in E1. apply Nat.eqb_neq in E2.
    cbn [uinsert] in IH. destruct (x <? z)%nat eqn:E3.
    + constructor; [lia|]. exact IH.
    + destruct (x =? z)%nat eqn:E4; constructor; try lia; exact IH.
Qed.
Lemma ssorted_lt x l : ssorted (x :: l) -> forall y, In y l -> (x < y)%nat.
Proof.
  revert x; induction l as [|z r IH]; intros x H y; [intros []|].
  inversion H; subst. intros [<-|Hy]; [assumption|]. specialize (IH z H4 y Hy). lia.
Qed.
Lemma ssorted_NoDup l : ssorted l -> NoDup l.
Proof.
  induction l as [|x r IH]; intros H; [constructor|]. constructor.
  - intros Hin. pose proof (ssorted_lt x r H x Hin). lia.
  - apply IH. inversion H; subst; [constructor|assumption].
Qed.
Lemma usort_sorted l : ssorted (usort l).
Proof. induction l as [|x r IH]; cbn [usort fold_right]; [constructor|now apply uinsert_sorted]. Qed.
Lemma usort_In l y : In y (usort l) <-> In y l.
Proof.
  induction l as [|x r IH]; cbn [usort fold_right In]; [tauto|].
  change (fold_right uinsert [] r) with (usort r). rewrite uinsert_In, IH. intuition.
Qed.
Lemma intersect1d_In a b x : In x (intersect1d a b) <-> In x a /\ In x b.
Proof. unfold intersect1d. now rewrite filter_In, usort_In, memb_In. Qed.
Lemma NoDup_filter {A} (f : A -> bool) l : NoDup l -> NoDup (filter f l).
Proof.
  induction 1 as [|x r Hx Hn IH]; cbn [filter]; [constructor|].
  destruct (f x); [constructor; [rewrite filter_In; tauto|assumption]|assumption].
Qed.
Lemma intersect1d_NoDup a b : NoDup (intersect1d a b).
Proof. unfold intersect1d. apply NoDup_filter, ssorted_NoDup, usort_sorted. Qed.

Lemma nth_map_lt {A B} (f : A -> B) (l : list A) dA dB i : (i < length l)%nat -> nth i (map f l) dB = f (nth i l dA).
Proof. intros H. rewrite (nth_indep _ dB (f dA)) by (now rewrite map_length). apply map_nth. Qed.

(* ---- gathering through a permutation of the positions ------------------------------------------------------ *)
Lemma map_nth_seq {A} (l : list A) d : map (fun k => nth k l d) (seq 0 (length l)) = l.
Proof.
  induction l as [|x r IH]; [reflexivity|]. cbn [length seq map nth]. f_equal.
  rewrite <- seq_shift, map_map. exact IH.
Qed.
Lemma gather_perm {A} (l : list A) d p : Permutation p (seq 0 (length l)) -> Permutation (map (fun k => nth k l d) p) l.
Proof.
  intros H. eapply Permutation_trans; [apply Permutation_map, H|]. rewrite map_nth_seq. apply Permutation_refl.
Qed.
Lemma perm_seq_lt p n k : Permutation p (seq 0 n) -> In k p -> (k < n)%nat.
Proof. intros H Hk. apply (Permutation_in _ H), in_seq in Hk. lia. Qed.
Lemma perm_seq_len p n : Permutation p (seq 0 n) -> length p = n.
Proof. intros H. rewrite (Permutation_length H). apply seq_length. Qed.
(* gathering a mapped list = mapping the gathered list *)
Lemma gather_map {A B} (f : A -> B) (l : list A) dA dB p :
  (forall k, In k p -> (k < length l)%nat) ->
  map (fun k => nth k (map f l) dB) p = map f (map (fun k => nth k l dA) p).
Proof.
  intros H. rewrite map_map. apply map_ext_in. intros k Hk. apply nth_map_lt. auto.
Qed.

(* ---- order ------------------------------------------------------------------------------------------------ *)
Lemma nonincreasing_idx l :
  (forall i j, (i <= j < length l)%nat -> nth j l 0 <= nth i l 0) -> nonincreasing l.
Proof.
  induction l as [|x r IH]; intros H; [exact I|]. cbn [nonincreasing]. destruct r as [|y r']; [exact I|]. split.
  - apply (H 0%nat 1%nat). cbn [length]. lia.
  - apply IH. intros i j Hij. apply (H (S i) (S j)). cbn [length] in *. lia.
Qed.
Lemma nonincreasing_hd l x a : nonincreasing (x :: l) -> In a (x :: l) -> a <= x.
Proof.
  revert x; induction l as [|y r IH]; intros x H [<-|Hin]; try lia; [destruct Hin|].
  cbn [nonincreasing] in H. destruct H as [Hyx Hr]. specialize (IH y Hr Hin). lia.
Qed.
Lemma nonincreasing_b_spec l : nonincreasing_b l = true <-> nonincreasing l.
Proof.
  induction l as [|x r IH]; [cbn; tauto|]. cbn [nonincreasing_b nonincreasing]. destruct r as [|y r']; [tauto|].
  rewrite andb_true_iff, IH, Z.leb_le. tauto.
Qed.

Section Oracle.
Variable argsort : list Z -> list nat.
Hypothesis AS : Argsort_ok argsort.

Lemma as_perm l : Permutation (argsort l) (seq 0 (length l)).
Proof. apply AS. Qed.
Lemma as_len l : length (argsort l) = length l.
Proof. apply perm_seq_len, as_perm. Qed.
Lemma as_lt l k : In k (argsort l) -> (k < length l)%nat.
Proof. apply perm_seq_lt, as_perm. Qed.
Lemma as_sorted l i j : (i <= j < length l)%nat ->
  nth (nth i (argsort l) 0%nat) l 0 <= nth (nth j (argsort l) 0%nat) l 0.
Proof. apply AS. Qed.
Lemma as_NoDup l : NoDup (argsort l).
Proof. apply (Permutation_NoDup (Permutation_sym (as_perm l))), seq_NoDup. Qed.
Lemma rev_as_perm l : Permutation (rev (argsort l)) (seq 0 (length l)).
Proof. eapply Permutation_trans; [apply Permutation_sym, Permutation_rev|apply as_perm]. Qed.

(* the keys gathered in reversed argsort order are non-increasing *)
Lemma rev_as_nonincreasing l : nonincreasing (map (fun k => nth k l 0) (rev (argsort l))).
Proof.
  apply nonincreasing_idx. rewrite map_length, rev_length, as_len. intros i j Hij.
  rewrite !(nth_map_lt _ _ 0%nat) by (rewrite rev_length, as_len; lia).
  rewrite !rev_nth by (rewrite as_len; lia). rewrite as_len.
  apply as_sorted. lia.
Qed.

(* ---- get_closest_channels -------------------------------------------------------------------------------- *)
Lemma firstn_In_nth {A} (l : list A) n x d : In x (firstn n l) -> exists i, (i < n)%nat /\ (i < length l)%nat /\ nth i l d = x.
Proof.
  revert n; induction l as [|y r IH]; intros [|n]; cbn [firstn In]; try tauto.
  intros [<-|H].
  - exists 0%nat. cbn [length nth]. repeat split; lia.
  - destruct (IH n H) as (i & H1 & H2 & H3). exists (S i). cbn [length nth]. repeat split; try lia. assumption.
Qed.
Lemma nth_In_firstn {A} (l : list A) n i d : (i < n)%nat -> (i < length l)%nat -> In (nth i l d) (firstn n l).
Proof.
  revert n i; induction l as [|y r IH]; intros [|n] [|i]; cbn [firstn In length nth]; try lia; try tauto.
  intros H1 H2. right. apply IH; lia.
Qed.
Lemma NoDup_firstn {A} (l : list A) n : NoDup l -> NoDup (firstn n l).
Proof.
  revert n; induction l as [|y r IH]; intros [|n] H; cbn [firstn]; try constructor.
  - inversion H; subst. intros Hin. destruct (firstn_In_nth r n y y Hin) as (i & _ & Hi & E).
    apply H2. rewrite <- E. now apply nth_In.
  - inversion H; subst. now apply IH.
Qed.

Lemma dist2_nonneg a b : 0 <= dist2 a b.
Proof.
  unfold dist2. pose proof (Z.square_nonneg (px a - px b)). pose proof (Z.square_nonneg (py a - py b)). lia.
Qed.
Lemma sq_zero u : u * u = 0 -> u = 0.
Proof. intros H. apply Z.mul_eq_0 in H. tauto. Qed.
Lemma dist2_zero a b : dist2 a b = 0 -> a = b.
Proof.
  unfold dist2. destruct a as [x y], b as [x' y']. cbn [px py]. intros H.
  pose proof (Z.square_nonneg (x - x')). pose proof (Z.square_nonneg (y - y')).
  assert (x - x' = 0) by (apply sq_zero; lia). assert (y - y' = 0) by (apply sq_zero; lia). f_equal; lia.
Qed.

Lemma closest_nearest P bc n out : 0 <= n -> closest argsort P bc n = Some out ->
  Nearest P bc n out /\ In bc out.
Proof.
  unfold closest. intros Hn. destruct (nth_error P bc) as [p0|] eqn:Ep; [|discriminate].
  assert (Hbc : (bc < length P)%nat) by (apply nth_error_Some; congruence).
  assert (Hp0 : nth bc P (mkpos 0 0) = p0) by (now apply nth_error_nth).
  set (d := map (fun p => dist2 p p0) P).
  assert (Hd : length d = length P) by (unfold d; apply map_length).
  assert (Hdn : forall c, (c < length P)%nat -> nth c d 0 = chan_dist P bc c).
  { intros c Hc. unfold d, chan_dist. rewrite Hp0. now apply (nth_map_lt (fun p => dist2 p p0)). }
  set (perm := argsort d).
  set (o := if n =? 0 then perm else firstn (Z.to_nat n) perm).
  destruct o as [|x r] eqn:Eo; [discriminate|]. destruct (Nat.eqb x bc) eqn:Ex; [|discriminate].
  intros H; injection H as <-. apply Nat.eqb_eq in Ex. subst x. rewrite <- Eo. split; [|rewrite Eo; now left].
  assert (Hperm : Permutation perm (seq 0 (length P))) by (rewrite <- Hd; apply as_perm).
  assert (Hlen : length perm = length P) by (now apply perm_seq_len).
  assert (Hnd : NoDup perm) by apply as_NoDup.
  unfold Nearest. destruct (n =? 0) eqn:En; subst o.
  - repeat split; try assumption.
    + intros c Hc. now apply (perm_seq_lt perm _ c Hperm).
    + intros a c _ Hc Hnot. exfalso. apply Hnot. apply (Permutation_in _ (Permutation_sym Hperm)), in_seq. lia.
  - repeat split.
    + now apply NoDup_firstn.
    + intros c Hc. destruct (firstn_In_nth _ _ _ 0%nat Hc) as (i & _ & Hi & <-).
      apply (perm_seq_lt perm _ _ Hperm). now apply nth_In.
    + rewrite firstn_length, Hlen. reflexivity.
    + intros a c Ha Hc Hnot.
      destruct (firstn_In_nth _ _ _ 0%nat Ha) as (i & Hi1 & Hi2 & <-).
      assert (Hcin : In c perm) by (apply (Permutation_in _ (Permutation_sym Hperm)), in_seq; lia).
      destruct (In_nth _ _ 0%nat Hcin) as (j & Hj & <-).
      assert (Hge : (Z.to_nat n <= j)%nat).
      { destruct (Nat.lt_ge_cases j (Z.to_nat n)) as [Hlt|]; [|assumption].
        exfalso. apply Hnot. now apply nth_In_firstn. }
      rewrite <- !Hdn.
      * apply as_sorted. lia.
      * apply (perm_seq_lt perm _ _ Hperm). now apply nth_In.
      * apply (perm_seq_lt perm _ _ Hperm). now apply nth_In.
Qed.

(* with pairwise distinct positions the assertion out[0] == channel_index cannot fail *)
Lemma closest_defined P bc n : NoDup P -> (bc < length P)%nat -> 0 <= n ->
  exists out, closest argsort P bc n = Some out.
Proof.
  intros HP Hbc Hn. unfold closest.
  destruct (nth_error P bc) as [p0|] eqn:Ep; [|apply nth_error_None in Ep; lia].
  assert (Hp0 : nth bc P (mkpos 0 0) = p0) by (now apply nth_error_nth).
  set (d := map (fun p => dist2 p p0) P).
  assert (Hd : length d = length P) by (unfold d; apply map_length).
  assert (Hdn : forall c, (c < length P)%nat -> nth c d 0 = dist2 (nth c P (mkpos 0 0)) p0).
  { intros c Hc. unfold d. now apply (nth_map_lt (fun p => dist2 p p0)). }
  set (perm := argsort d).
  assert (Hperm : Permutation perm (seq 0 (length P))) by (rewrite <- Hd; apply as_perm).
  assert (Hlen : length perm = length P) by (now apply perm_seq_len).
  (* the first element of the sorting permutation is bc *)
  assert (H0 : nth 0 perm 0%nat = bc).
  { assert (Hin : In bc perm) by (apply (Permutation_in _ (Permutation_sym Hperm)), in_seq; lia).
    destruct (In_nth _ _ 0%nat Hin) as (j & Hj & Ej).
    assert (Hk : (nth 0 perm 0 < length P)%nat) by (apply (perm_seq_lt perm _ _ Hperm), nth_In; lia).
    pose proof (as_sorted d 0 j ltac:(lia)) as Hs. fold perm in Hs. rewrite Ej in Hs.
    rewrite (Hdn bc Hbc), Hp0 in Hs. rewrite (Hdn _ Hk) in Hs.
    assert (Hz : dist2 p0 p0 = 0) by (unfold dist2; lia).
    pose proof (dist2_nonneg (nth (nth 0 perm 0%nat) P (mkpos 0 0)) p0).
    assert (E : nth (nth 0 perm 0%nat) P (mkpos 0 0) = p0) by (apply dist2_zero; lia).
    rewrite <- Hp0 in E. apply (NoDup_nth P (mkpos 0 0)) in E; auto. }
  destruct perm as [|x r] eqn:Eperm; [cbn [length] in Hlen; lia|]. cbn [nth] in H0. subst x.
  destruct (n =? 0) eqn:En.
  - rewrite Nat.eqb_refl. eauto.
  - assert (Z.to_nat n = S (Z.to_nat n - 1)) as -> by (apply Z.eqb_neq in En; lia).
    cbn [firstn]. rewrite Nat.eqb_refl. eauto.
Qed.

(* ---- _find_best_channels --------------------------------------------------------------------------------- *)
Lemma nth_map_ptp T c : nth c (map ptp T) 0 = amp_of T c.
Proof. unfold amp_of. change 0 with (ptp []) at 1. apply map_nth. Qed.

Lemma find_best_spec P shanks n T t b :
  0 <= n -> length shanks = length P -> length T = length P ->
  find_best_channels argsort P shanks n (map ptp T) t = Some b ->
  Peak T (b_best b) /\
  Dense_channels P shanks n t T (b_best b) (b_channels b) /\
  NoDup (b_channels b) /\ In (b_best b) (b_channels b) /\
  nonincreasing (map (amp_of T) (b_channels b)) /\
  (forall c, In c (b_channels b) -> (c < length T)%nat).
Proof.
  intros Hn Hsh HT. unfold find_best_channels.
  destruct (map ptp T) as [|a0 ar] eqn:Eamp; [discriminate|]. rewrite <- Eamp.
  set (amp := map ptp T). set (bc := argmax_first amp).
  assert (Hamp_len : length amp = length T) by apply map_length.
  assert (Hne : amp <> []) by (unfold amp; rewrite Eamp; discriminate).
  destruct (closest argsort P bc n) as [close|] eqn:Ec; [|discriminate].
  destruct (closest_nearest P bc n close Hn Ec) as [Hnear Hbcin].
  set (peak := filter (fun c => tp t * nth bc amp 0 <=? tq t * nth c amp 0) (seq 0 (length amp))).
  set (on_shank := filter (fun c => nth c shanks 0 =? nth bc shanks 0) (seq 0 (length shanks))).
  set (ids := intersect1d peak (intersect1d close on_shank)).
  set (keys := map (fun c => nth c amp 0) ids).
  set (order := rev (argsort keys)).
  set (ids' := map (fun k => nth k ids 0%nat) order).
  destruct (memb bc ids') eqn:Em; [|discriminate]. intros H; injection H as <-. cbn [b_best b_channels].
  assert (Hklen : length keys = length ids) by apply map_length.
  assert (Hoperm : Permutation order (seq 0 (length ids))) by (rewrite <- Hklen; apply rev_as_perm).
  assert (Hperm : Permutation ids' ids) by (now apply gather_perm).
  assert (HIn : forall c, In c ids' <-> In c ids).
  { intros c; split; apply Permutation_in; [assumption|now apply Permutation_sym]. }
  assert (Hids : forall c, In c ids <->
            In c close /\ nth c shanks 0 = nth bc shanks 0 /\ tp t * amp_of T bc <= tq t * amp_of T c).
  { intros c. unfold ids. rewrite !intersect1d_In. unfold peak, on_shank.
    rewrite !filter_In, !in_seq, Z.leb_le, Z.eqb_eq. unfold amp. rewrite !nth_map_ptp.
    destruct Hnear as (_ & Hlt & _). split; [tauto|]. intros (H1 & H2 & H3).
    specialize (Hlt c H1). rewrite map_length. repeat split; try assumption; lia. }
  assert (Hbc : (bc < length T)%nat) by (rewrite <- Hamp_len; now apply argmax_first_spec).
  repeat split.
  - exact Hbc.
  - intros c Hc. rewrite <- !nth_map_ptp. apply argmax_first_nth. now rewrite map_length.
  - exists close. split; [assumption|]. intros c. now rewrite HIn, Hids.
  - apply (Permutation_NoDup (Permutation_sym Hperm)), intersect1d_NoDup.
  - now apply memb_In.
  - (* amplitudes of the reordered channels are the keys in reversed argsort order *)
    assert (E : map (amp_of T) ids' = map (fun k => nth k keys 0) order).
    { unfold ids', keys. rewrite map_map. apply map_ext_in. intros k Hk.
      assert (Hk' : (k < length ids)%nat) by (now apply (perm_seq_lt order _ k Hoperm)).
      rewrite (nth_map_lt _ _ 0%nat) by exact Hk'. unfold amp. now rewrite nth_map_ptp. }
    rewrite E. apply rev_as_nonincreasing.
  - intros c Hc. apply HIn, Hids in Hc. destruct Hc as (Hc & _). destruct Hnear as (_ & Hlt & _).
    rewrite HT. now apply Hlt.
Qed.

(* the model's amplitude vector of _find_best_channels is the amplitude of its channels *)
Lemma find_best_amplitude P shanks n amp t b :
  find_best_channels argsort P shanks n amp t = Some b ->
  b_amplitude b = map (fun c => nth c amp 0) (b_channels b).
Proof.
  unfold find_best_channels. destruct amp as [|a0 ar]; [discriminate|].
  destruct (closest argsort P _ n); [|discriminate].
  match goal with |- (if ?c then _ else _) = _ -> _ => destruct c end; [|discriminate].
  intros H; injection H as <-. reflexivity.
Qed.

(* ---- unwhitening is the matrix product ------------------------------------------------------------------ *)
Lemma dotZ_seq (cols : list (list Z)) (W : list (list Z)) s j :
  length cols = length W ->
  dotZ (map (fun col => nth s col 0) cols) (wcol W (seq 0 (length W)) j) =
  zsum (map (fun i => nth s (nth i cols []) 0 * nth j (nth i W []) 0) (seq 0 (length W))).
Proof.
  intros Hlen. unfold dotZ, wcol, zsum. f_equal.
  rewrite <- (map_nth_seq cols []) at 1. rewrite Hlen, map_map.
  generalize (seq 0 (length W)). intros l. induction l as [|i l IH]; [reflexivity|].
  cbn [map combine fst snd]. now rewrite IH.
Qed.

Lemma unwhiten_dense_spec W sc cols U : unwhiten_dense W sc cols = Some U ->
  length cols = length W /\ Unwhitened W sc cols U.
Proof.
  unfold unwhiten_dense. destruct (Nat.eqb (length cols) (length W)) eqn:E; [|discriminate].
  apply Nat.eqb_eq in E. intros H; injection H as <-. split; [assumption|]. unfold Unwhitened.
  rewrite map_length, seq_length. split; [reflexivity|]. intros j Hj.
  rewrite (nth_map_lt _ _ 0%nat) by (rewrite seq_length; exact Hj).
  rewrite seq_nth by exact Hj. cbn [Nat.add]. unfold ucol.
  rewrite map_length, seq_length. split; [reflexivity|]. intros s Hs.
  rewrite (nth_map_lt _ _ 0%nat) by (rewrite seq_length; exact Hs).
  rewrite seq_nth by exact Hs. cbn [Nat.add]. f_equal. now apply dotZ_seq.
Qed.

Lemma dense_full_spec d r T : dense_full d r = Some T -> Full_template d r T.
Proof.
  unfold dense_full, Full_template. destruct (nth_error (d_templates d) (r_tid r)) as [cols|]; [|discriminate].
  intros H. exists cols. split; [reflexivity|]. destruct (r_unwhiten r).
  - now apply unwhiten_dense_spec.
  - now injection H as <-.
Qed.

(* ---- _get_template_dense --------------------------------------------------------------------------------- *)
Definition req_thr (d : dataset) (r : request) : thr := match r_thr r with Some t => t | None => d_thr d end.

Lemma aligned_gather T ids b : (forall c, In c ids -> (c < length T)%nat) ->
  Aligned T (mkrec (map (fun c => nth c T []) ids) (map ptp (map (fun c => nth c T []) ids)) b ids).
Proof.
  intros H. unfold Aligned. cbn [t_template t_amplitude t_channels]. rewrite !map_length.
  repeat split; intros.
  - apply H. now apply nth_In.
  - now apply (nth_map_lt (fun c => nth c T [])).
  - change 0 with (ptp []) at 1. apply map_nth.
Qed.

Theorem dense_spec d r rec :
  0 <= d_nclosest d -> get_template_dense argsort d r = Some rec ->
  exists T, Full_template d r T /\ length T = length (d_pos d) /\ Aligned T rec /\ Peak T (t_best rec) /\
    match r_chans r with
    | None => Dense_channels (d_pos d) (d_shanks d) (d_nclosest d) (req_thr d r) T (t_best rec) (t_channels rec) /\
              Sorted_rec T rec
    | Some l => t_channels rec = map Z.to_nat l /\ Forall (fun c => 0 <= c < Z.of_nat (length (d_pos d))) l
    end.
Proof.
  intros Hn. unfold get_template_dense. destruct (dense_full d r) as [T|] eqn:ET; [|discriminate].
  destruct (Nat.eqb (length T) (length (d_pos d)) && Nat.eqb (length (d_shanks d)) (length (d_pos d))) eqn:Ewf;
    cbn [negb]; [|discriminate].
  apply andb_true_iff in Ewf. destruct Ewf as [HT Hsh]. apply Nat.eqb_eq in HT, Hsh.
  fold (req_thr d r).
  destruct (find_best_channels argsort (d_pos d) (d_shanks d) (d_nclosest d) (map ptp T) (req_thr d r)) as [b|] eqn:Eb;
    [|discriminate].
  destruct (find_best_spec _ _ _ _ _ _ Hn Hsh HT Eb) as (Hpeak & Hch & Hnd & Hbin & Hni & Hlt).
  intros Hrec. exists T. split; [now apply dense_full_spec|]. split; [assumption|]. revert Hrec.
  destruct (r_chans r) as [l|].
  - destruct (forallb (chan_ok (length (d_pos d))) l) eqn:El; [|discriminate].
    intros Hrec; injection Hrec as <-. cbn [t_best t_channels].
    assert (HF : Forall (fun c => 0 <= c < Z.of_nat (length (d_pos d))) l).
    { apply Forall_forall. intros c Hc. rewrite forallb_forall in El. specialize (El c Hc).
      unfold chan_ok in El. lia. }
    split; [|split; [exact Hpeak|split; [reflexivity|exact HF]]].
    apply aligned_gather. intros c Hc. apply in_map_iff in Hc. destruct Hc as (z & <- & Hz).
    rewrite Forall_forall in HF. specialize (HF z Hz). lia.
  - intros Hrec; injection Hrec as <-. cbn [t_best t_channels].
    split; [now apply aligned_gather|]. split; [exact Hpeak|]. split; [exact Hch|].
    unfold Sorted_rec. cbn [t_best t_channels t_amplitude t_template].
    split; [exact Hnd|]. split; [rewrite map_map; exact Hni|]. split; [exact Hbin|]. split; [exact Hpeak|].
    intros c0 Hc0.
    (* the first listed channel has the maximal amplitude *)
    destruct (b_channels b) as [|c1 rest] eqn:Ech; [discriminate|]. injection Hc0 as <-.
    cbn [map] in Hni. pose proof (nonincreasing_hd _ _ (amp_of T (b_best b)) Hni) as Hle.
    specialize (Hle ltac:(change (In (amp_of T (b_best b)) (map (amp_of T) (c1 :: rest))); now apply in_map)).
    destruct Hpeak as [_ Hmax]. specialize (Hmax c1 (Hlt c1 (or_introl eq_refl))). lia.
Qed.

(* the guard under which _get_template_dense returns *)
Theorem dense_defined d r cols :
  nth_error (d_templates d) (r_tid r) = Some cols ->
  length cols = length (d_pos d) -> length (d_wmi d) = length (d_pos d) -> length (d_shanks d) = length (d_pos d) ->
  NoDup (d_pos d) -> (0 < length (d_pos d))%nat -> 0 <= d_nclosest d ->
  0 <= tp (req_thr d r) <= tq (req_thr d r) ->
  match r_chans r with Some l => Forall (fun c => 0 <= c < Z.of_nat (length (d_pos d))) l | None => True end ->
  exists rec, get_template_dense argsort d r = Some rec.
Proof.
  intros Ecols Hc HW Hsh HP Hpos Hn Hthr Hl. unfold get_template_dense, dense_full. rewrite Ecols.
  assert (ET : exists T, (if r_unwhiten r then unwhiten_dense (d_wmi d) (d_scale d) cols else Some cols) = Some T /\
                         length T = length (d_pos d)).
  { destruct (r_unwhiten r).
    - unfold unwhiten_dense. rewrite Hc, HW, Nat.eqb_refl. eexists. split; [reflexivity|].
      now rewrite map_length, seq_length.
    - eauto. }
  destruct ET as (T & -> & HT). rewrite HT, Hsh, !Nat.eqb_refl. cbn [andb negb].
  fold (req_thr d r). set (t := req_thr d r) in *.
  assert (Eb : exists b, find_best_channels argsort (d_pos d) (d_shanks d) (d_nclosest d) (map ptp T) t = Some b).
  { unfold find_best_channels. destruct (map ptp T) as [|a0 ar] eqn:Eamp.
    { apply (f_equal (@length Z)) in Eamp. rewrite map_length in Eamp. cbn in Eamp. lia. }
    rewrite <- Eamp. set (amp := map ptp T). set (bc := argmax_first amp).
    assert (Hamp_len : length amp = length T) by apply map_length.
    assert (Hne : amp <> []) by (unfold amp; rewrite Eamp; discriminate).
    assert (Hbc : (bc < length (d_pos d))%nat) by (rewrite <- HT, <- Hamp_len; now apply argmax_first_spec).
    destruct (closest_defined (d_pos d) bc (d_nclosest d) HP Hbc Hn) as (close & Ec). rewrite Ec.
    destruct (closest_nearest _ _ _ _ Hn Ec) as [_ Hbcin].
    match goal with |- exists b, (if memb bc ?l then _ else _) = _ => assert (Hin : In bc l) end.
    { set (keys := map (fun c => nth c amp 0) (intersect1d _ _)).
      match goal with |- In bc (map _ (rev (argsort ?k))) => set (K := k) end.
      match goal with |- In bc (map (fun k => nth k ?i 0%nat) _) => set (ids := i) end.
      assert (Hklen : length K = length ids) by apply map_length.
      assert (Hperm : Permutation (map (fun k => nth k ids 0%nat) (rev (argsort K))) ids).
      { apply gather_perm. rewrite <- Hklen. apply rev_as_perm. }
      apply (Permutation_in _ (Permutation_sym Hperm)). unfold ids.
      rewrite !intersect1d_In, !filter_In, !in_seq, Z.leb_le, Z.eqb_eq.
      assert (H1 : (0 <= bc < 0 + length amp)%nat) by (rewrite Hamp_len, HT; lia).
      assert (H2 : tp t * nth bc amp 0 <= tq t * nth bc amp 0).
      { unfold amp. rewrite nth_map_ptp. pose proof (ptp_nonneg (nth bc T [])). unfold amp_of. nia. }
      assert (H3 : (0 <= bc < 0 + length (d_shanks d))%nat) by (rewrite Hsh; lia).
      tauto. }
    apply memb_In in Hin. rewrite Hin. eauto. }
  destruct Eb as (b & ->).
  destruct (r_chans r) as [l|]; [|eauto].
  assert (forallb (chan_ok (length (d_pos d))) l = true) as ->; [|eauto].
  apply forallb_forall. intros c Hcin. rewrite Forall_forall in Hl. specialize (Hl c Hcin). unfold chan_ok. lia.
Qed.
End Oracle.

(* ---- checkers ------------------------------------------------------------------------------------------------ *)
Lemma aligned_b_sound T r : aligned_b T r = true -> Aligned T r.
Proof.
  unfold aligned_b, Aligned. rewrite !andb_true_iff, !Nat.eqb_eq, forallb_forall.
  intros [[H1 H2] H3]. repeat split; try assumption.
  all: specialize (H3 j); rewrite in_seq in H3; specialize (H3 ltac:(lia));
    rewrite !andb_true_iff, Nat.ltb_lt, zl_eqb_eq, Z.eqb_eq in H3; tauto.
Qed.

Lemma nodup_b_spec l : nodup_b l = true -> NoDup l.
Proof.
  induction l as [|x r IH]; cbn [nodup_b]; [constructor|]. rewrite andb_true_iff, negb_true_iff.
  intros [H1 H2]. constructor; [|now apply IH]. intros Hin. apply memb_In in Hin. congruence.
Qed.
Lemma peak_b_sound T b : peak_b T b = true -> Peak T b.
Proof.
  unfold peak_b, Peak. rewrite andb_true_iff, Nat.ltb_lt, forallb_forall. intros [H1 H2]. split; [assumption|].
  intros c Hc. apply Z.leb_le, H2, in_seq. lia.
Qed.
Lemma sorted_b_sound T r : sorted_b T r = true -> Sorted_rec T r.
Proof.
  unfold sorted_b, Sorted_rec. rewrite !andb_true_iff. intros [[[[H1 H2] H3] H4] H5].
  repeat split.
  - now apply nodup_b_spec.
  - now apply nonincreasing_b_spec.
  - now apply memb_In.
  - now apply peak_b_sound.
  - now apply peak_b_sound.
  - intros c0 Hc0. destruct (t_channels r) as [|c1 rest]; [discriminate|]. injection Hc0 as <-.
    now apply Z.eqb_eq.
Qed.
