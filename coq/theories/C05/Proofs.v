(* C05/Proofs.v -- lemmas and main proofs. *)
From Coq Require Import ZArith List Bool Arith Lia Permutation.
From PV Require Import C05.Model C05.Spec.
Import ListNotations.
Open Scope Z_scope.

Lemma zl_eqb_eq a b : zl_eqb a b = true <-> a = b.
Proof.
  revert b; induction a as [|x a IH]; intros [|y b]; cbn [zl_eqb]; split; try discriminate; try reflexivity.
  - rewrite andb_true_iff, Z.eqb_eq, IH. intros [-> ->]; reflexivity.
  - intros H; injection H as -> ->. rewrite Z.eqb_refl. cbn. now apply IH.
Qed.

Lemma aligned_b_sound T r : aligned_b T r = true -> Aligned T r.
Proof.
  unfold aligned_b, Aligned. rewrite !andb_true_iff, !Nat.eqb_eq, forallb_forall.
  intros [[H1 H2] H3]. repeat split; try assumption.
  all: specialize (H3 j); rewrite in_seq in H3; specialize (H3 ltac:(lia));
    rewrite !andb_true_iff, Nat.ltb_lt, zl_eqb_eq, Z.eqb_eq in H3; tauto.
Qed.
