(* C05/Proofs7.v -- get_cluster_channels (the template with the most spikes, smallest id under ties), the accessors,
   and the model's error exits (where phylib raises): explicit ids out of range, template id out of range, sparse rows
   without a kept column / with a mismatching or out-of-range column table, thresholds above 1, clusters without spikes. *)
From Coq Require Import ZArith List Bool Arith Lia Permutation.
From PV Require Import C05.Model C05.Spec C05.Proofs C05.Proofs2.
Import ListNotations.
Open Scope Z_scope.

(* ---- np.argmax returns the FIRST maximal position ------------------------------------------------------------ *)
Lemma argmax_from_first r : forall i bi bv,
  let k := argmax_from r i bi bv in
  (k = bi /\ forall x, In x r -> x <= bv) \/
  (exists j, k = (i + j)%nat /\ (j < length r)%nat /\ bv < nth j r 0 /\
             forall j', (j' < j)%nat -> nth j' r 0 < nth j r 0).
Proof.
  induction r as [|x r IH]; intros i bi bv; cbn [argmax_from].
  - left. split; [reflexivity|intros ? []].
  - destruct (bv <? x) eqn:E.
    + right. destruct (IH (S i) i x) as [[Hk Hle]|(j & Hk & Hj & Hlt & Hfirst)].
      * exists 0%nat. cbn [nth length]. repeat split; try lia.
      * exists (S j). cbn [length]. change (nth (S j) (x :: r) 0) with (nth j r 0). repeat split; try lia.
        intros [|j'] Hj'; cbn [nth]; [lia|]. apply Hfirst. lia.
    + destruct (IH (S i) bi bv) as [[Hk Hle]|(j & Hk & Hj & Hlt & Hfirst)].
      * left. split; [assumption|]. intros y [<-|Hy]; [lia|now apply Hle].
      * right. exists (S j). cbn [length]. change (nth (S j) (x :: r) 0) with (nth j r 0). repeat split; try lia.
        intros [|j'] Hj'; cbn [nth]; [lia|]. apply Hfirst. lia.
Qed.

Lemma argmax_first_first l i : (i < argmax_first l)%nat -> nth i l 0 < nth (argmax_first l) l 0.
Proof.
  destruct l as [|x r]; [cbn; lia|]. cbn [argmax_first].
  destruct (argmax_from_first r 1 0 x) as [[Hk _]|(j & Hk & Hj & Hlt & Hfirst)]; rewrite Hk; [lia|].
  intros Hi. change (nth (1 + j) (x :: r) 0) with (nth j r 0).
  destruct i as [|i']; cbn [nth]; [exact Hlt|]. apply Hfirst. lia.
Qed.

Lemma ssorted_nth_le l : ssorted l -> forall i j, (i <= j < length l)%nat -> (nth i l 0 <= nth j l 0)%nat.
Proof.
  induction l as [|x r IH]; intros Hs i j Hij; [cbn in Hij; lia|].
  destruct j as [|j']; [assert (i = 0%nat) by lia; subst; lia|].
  destruct i as [|i'].
  - cbn [nth]. cbn [length] in Hij. assert (Hin : In (nth j' r 0%nat) r) by (apply nth_In; lia).
    pose proof (ssorted_lt x r Hs _ Hin). lia.
  - cbn [nth]. apply IH; [inversion Hs; subst; [constructor|assumption]|]. cbn [length] in Hij. lia.
Qed.

Lemma count_nat_nonneg x l : 0 <= count_nat x l.
Proof. unfold count_nat. lia. Qed.
Lemma count_nat_pos x l : 0 < count_nat x l <-> In x l.
Proof.
  unfold count_nat. split.
  - intros H. destruct (filter (Nat.eqb x) l) as [|y f] eqn:E; [cbn in H; lia|].
    assert (Hy : In y (filter (Nat.eqb x) l)) by (rewrite E; now left).
    apply filter_In in Hy. destruct Hy as [Hy E']. apply Nat.eqb_eq in E'. now subst.
  - intros H. assert (Hx : In x (filter (Nat.eqb x) l)) by (apply filter_In; split; [assumption|apply Nat.eqb_refl]).
    destruct (filter (Nat.eqb x) l); [contradiction|cbn [length]; lia].
Qed.

(* ---- _get_template_from_spikes ------------------------------------------------------------------------------- *)
Theorem main_template_spec st sc cid tid : main_template st sc cid = Some tid -> Main_template st sc cid tid.
Proof.
  unfold main_template, Main_template. fold (cluster_templates st sc cid). set (sel := cluster_templates st sc cid).
  destruct sel as [|s0 sr] eqn:Esel; [discriminate|]. rewrite <- Esel. intros H; injection H as <-.
  set (u := usort sel). set (counts := map (fun x => count_nat x sel) u). set (k := argmax_first counts).
  assert (Hu : u <> []).
  { intros E. assert (Hin : In s0 u) by (apply usort_In; rewrite Esel; now left). rewrite E in Hin. contradiction. }
  assert (Hcl : length counts = length u) by apply map_length.
  assert (Hcne : counts <> []) by (intros E; apply Hu; destruct u; [reflexivity|discriminate]).
  destruct (argmax_first_spec counts Hcne) as [Hk Hmax]. fold k in Hk, Hmax.
  assert (Hku : (k < length u)%nat) by lia.
  assert (Hnth : forall i, (i < length u)%nat -> nth i counts 0 = count_nat (nth i u 0%nat) sel).
  { intros i Hi. unfold counts. now apply (nth_map_lt (fun x => count_nat x sel)). }
  assert (Hidx : forall t, In t sel -> exists i, (i < length u)%nat /\ nth i u 0%nat = t).
  { intros t Ht. apply usort_In in Ht. now apply In_nth. }
  assert (Htid : In (nth k u 0%nat) sel) by (apply usort_In, nth_In; exact Hku).
  split; [exact Htid|]. split.
  - intros t. rewrite <- (Hnth k Hku).
    destruct (Z.le_gt_cases (count_nat t sel) 0) as [Hz|Hpos].
    + pose proof (proj2 (count_nat_pos _ _) Htid) as Hp. rewrite <- (Hnth k Hku) in Hp. lia.
    + apply count_nat_pos in Hpos. destruct (Hidx t Hpos) as (i & Hi & <-). rewrite <- (Hnth i Hi).
      apply Hmax, nth_In. lia.
  - intros t Heq.
    assert (Ht : In t sel) by (apply count_nat_pos; rewrite Heq; now apply count_nat_pos).
    destruct (Hidx t Ht) as (i & Hi & <-).
    destruct (Nat.lt_ge_cases i k) as [Hlt|Hge].
    + pose proof (argmax_first_first counts i Hlt) as Hs. fold k in Hs. rewrite (Hnth i Hi), (Hnth k Hku) in Hs. lia.
    + apply ssorted_nth_le; [apply usort_sorted|]. fold u. lia.
Qed.

Lemma Main_template_unique st sc cid t1 t2 : Main_template st sc cid t1 -> Main_template st sc cid t2 -> t1 = t2.
Proof.
  intros (_ & M1 & F1) (_ & M2 & F2). pose proof (M1 t2). pose proof (M2 t1).
  assert (E : count_nat t2 (cluster_templates st sc cid) = count_nat t1 (cluster_templates st sc cid)) by lia.
  pose proof (F1 t2 E). pose proof (F2 t1 (eq_sym E)). lia.
Qed.

Theorem main_template_none st sc cid : main_template st sc cid = None <-> cluster_templates st sc cid = [].
Proof.
  unfold main_template. fold (cluster_templates st sc cid). destruct (cluster_templates st sc cid); split; congruence.
Qed.

Theorem main_template_complete st sc cid tid : Main_template st sc cid tid -> main_template st sc cid = Some tid.
Proof.
  intros H. destruct (main_template st sc cid) as [t|] eqn:E.
  - f_equal. apply (Main_template_unique st sc cid); [now apply main_template_spec|assumption].
  - apply main_template_none in E. destruct H as (Hin & _). rewrite E in Hin. contradiction.
Qed.

(* get_cluster_channels = the channel list of get_template (class threshold, no explicit list, unwhitened) of the
   cluster's main template; it raises exactly when the cluster has no spike or get_template raises *)
Theorem cluster_channels_spec argsort d st sc cid chans :
  get_cluster_channels argsort d st sc cid = Some chans <->
  exists tid rec, Main_template st sc cid tid /\ get_template argsort d (default_request tid) = Some rec /\
                  chans = t_channels rec.
Proof.
  unfold get_cluster_channels, get_template_channels. split.
  - destruct (main_template st sc cid) as [tid|] eqn:E; [|discriminate].
    destruct (get_template argsort d (default_request tid)) as [rec|] eqn:Er; [|discriminate].
    cbn [option_map]. intros H; injection H as <-. exists tid, rec. split; [now apply main_template_spec|]. now split.
  - intros (tid & rec & HM & Hr & ->). rewrite (main_template_complete _ _ _ _ HM), Hr. reflexivity.
Qed.

Theorem template_accessors_spec argsort d tid :
  get_template_channels argsort d tid = option_map t_channels (get_template argsort d (mkreq tid None None true)) /\
  get_template_waveforms argsort d tid = option_map t_template (get_template argsort d (mkreq tid None None true)).
Proof. split; reflexivity. Qed.

(* ---- error exits ------------------------------------------------------------------------------------------------ *)
(* dense: an explicit id outside [0, n_channels) (IndexError in template[:, channel_ids]; phylib itself lets NumPy wrap
   ids in [-n_channels, 0), which is outside the regime: a negative number is not a channel) *)
Theorem dense_explicit_exit argsort d r l :
  r_chans r = Some l -> ~ Forall (fun c => 0 <= c < Z.of_nat (length (d_pos d))) l ->
  get_template_dense argsort d r = None.
Proof.
  intros Hr Hnot. unfold get_template_dense. destruct (dense_full d r); [|reflexivity]. destruct (negb _); [reflexivity|].
  destruct (find_best_channels _ _ _ _ _ _); [|reflexivity]. rewrite Hr.
  destruct (forallb (chan_ok (length (d_pos d))) l) eqn:E; [|reflexivity].
  exfalso. apply Hnot. apply Forall_forall. intros c Hc. rewrite forallb_forall in E. specialize (E c Hc).
  unfold chan_ok in E. lia.
Qed.

(* a template id past the last template (IndexError) *)
Theorem template_id_exit argsort d r : nth_error (d_templates d) (r_tid r) = None -> get_template argsort d r = None.
Proof.
  intros H. unfold get_template, get_template_sparse, get_template_dense, dense_full. rewrite H.
  destruct (d_cols d); reflexivity.
Qed.

(* dense: a threshold fraction above 1 on a template with signal: the peak channel itself does not reach it
   (assert best_channel in channel_ids) *)
Theorem dense_threshold_exit argsort (AS : Argsort_ok argsort) d r T c :
  dense_full d r = Some T -> (c < length T)%nat -> 0 < amp_of T c ->
  0 < tq (req_thr d r) < tp (req_thr d r) ->
  get_template_dense argsort d r = None.
Proof.
  intros ET Hc Hamp Hthr. unfold get_template_dense. rewrite ET. destruct (negb _); [reflexivity|].
  fold (req_thr d r). set (t := req_thr d r) in *.
  assert (Eb : find_best_channels argsort (d_pos d) (d_shanks d) (d_nclosest d) (map ptp T) t = None); [|now rewrite Eb].
  unfold find_best_channels. destruct (map ptp T) as [|a0 ar] eqn:Eamp; [reflexivity|]. rewrite <- Eamp.
  set (amp := map ptp T). set (bc := argmax_first amp).
  destruct (closest argsort (d_pos d) bc (d_nclosest d)) as [close|]; [|reflexivity].
  match goal with |- (if memb bc ?l then _ else _) = _ => destruct (memb bc l) eqn:Em end; [|reflexivity].
  exfalso. apply memb_In in Em.
  match type of Em with In bc (map _ (rev (argsort (map _ ?i)))) => set (ids := i) in * end.
  assert (Hklen : length (map (fun c => nth c amp 0) ids) = length ids) by apply map_length.
  assert (Hperm : Permutation (map (fun k => nth k ids 0%nat) (rev (argsort (map (fun c => nth c amp 0) ids)))) ids).
  { apply gather_perm. rewrite <- Hklen. now apply rev_as_perm. }
  apply (Permutation_in _ Hperm) in Em. unfold ids in Em. apply intersect1d_In in Em. destruct Em as [Em _].
  apply filter_In in Em. destruct Em as [_ Em]. apply Z.leb_le in Em.
  assert (Hmax : nth c amp 0 <= nth bc amp 0) by (apply argmax_first_nth; unfold amp; now rewrite map_length).
  unfold amp in Hmax at 1. rewrite nth_map_ptp in Hmax. nia.
Qed.

(* sparse: get_template returns iff the row of the column table matches the stored columns, every kept entry is a
   channel, and at least one column is kept (otherwise: argmax of an empty sequence / IndexError) *)
Theorem sparse_defined_iff argsort d table r cols chans :
  nth_error (d_templates d) (r_tid r) = Some cols -> nth_error table (r_tid r) = Some chans ->
  ((exists rec, get_template_sparse argsort d table r = Some rec) <->
   length cols = length chans /\
   (forall i, In i (kept_positions cols chans) -> 0 <= nth i chans 0 < Z.of_nat (length (d_pos d))) /\
   kept_positions cols chans <> []).
Proof.
  intros E1 E2. split.
  - intros (rec & H). destruct (sparse_unfold argsort d table r rec cols chans E1 E2 H) as (Hlen & Hne & Hok & _).
    split; [exact Hlen|]. split; [exact Hok|]. intros E. apply Hne. rewrite E. reflexivity.
  - intros (Hlen & Hok & Hne). now apply (sparse_defined argsort d table r cols chans).
Qed.

(* a cluster without spikes (argmax of an empty sequence) *)
Theorem cluster_without_spikes_exit argsort d st sc cid :
  cluster_templates st sc cid = [] -> get_cluster_channels argsort d st sc cid = None.
Proof.
  intros H. unfold get_cluster_channels. now rewrite (proj2 (main_template_none st sc cid) H).
Qed.
