(* C05/Proofs9.v -- the exact outcome of the dense path on loaded-state shapes: get_template returns a record iff the
   peak amplitude reaches the threshold fraction of itself (always when the fraction is in [0, 1]; never for a fraction
   above 1 on a template with signal) and every explicit id is a channel.  Otherwise phylib raises. *)
From Coq Require Import ZArith List Bool Arith Lia Permutation.
From PV Require Import C05.Model C05.Spec C05.Proofs C05.Proofs3.
Import ListNotations.
Open Scope Z_scope.

Section Oracle.
Variable argsort : list Z -> list nat.
Hypothesis AS : Argsort_ok argsort.

Lemma find_best_best P shanks n amp t b :
  find_best_channels argsort P shanks n amp t = Some b -> b_best b = argmax_first amp.
Proof.
  unfold find_best_channels. destruct amp as [|a0 ar]; [discriminate|].
  destruct (closest argsort P _ n); [|discriminate].
  match goal with |- (if ?c then _ else _) = _ -> _ => destruct c end; [|discriminate].
  intros H; injection H as <-. reflexivity.
Qed.

Lemma find_best_defined_iff P shanks n T t :
  NoDup P -> length T = length P -> length shanks = length P -> (0 < length P)%nat -> 0 <= n ->
  ((exists b, find_best_channels argsort P shanks n (map ptp T) t = Some b) <->
   tp t * amp_of T (argmax_first (map ptp T)) <= tq t * amp_of T (argmax_first (map ptp T))).
Proof.
  intros HP HT Hsh Hpos Hn. split.
  - intros (b & Eb). destruct (find_best_spec argsort AS P shanks n T t b Hn Hsh HT Eb) as (_ & (N & _ & Hch) & _ & Hin & _).
    apply Hch in Hin. pose proof (find_best_best _ _ _ _ _ _ Eb) as Hb. rewrite Hb in Hin. tauto.
  - intros Hthr. unfold find_best_channels. destruct (map ptp T) as [|a0 ar] eqn:Eamp.
    { apply (f_equal (@length Z)) in Eamp. rewrite map_length in Eamp. cbn in Eamp. lia. }
    rewrite <- Eamp in *. set (amp := map ptp T) in *. set (bc := argmax_first amp) in *.
    assert (Hamp_len : length amp = length T) by apply map_length.
    assert (Hne : amp <> []) by (rewrite Eamp; discriminate).
    assert (Hbc : (bc < length P)%nat) by (rewrite <- HT, <- Hamp_len; now apply argmax_first_spec).
    destruct (closest_defined argsort AS P bc n HP Hbc Hn) as (close & Ec). rewrite Ec.
    destruct (closest_nearest argsort AS _ _ _ _ Hn Ec) as [_ Hbcin].
    match goal with |- exists b, (if memb bc ?l then _ else _) = _ => assert (Hin : In bc l) end.
    { set (keys := map (fun c => nth c amp 0) (intersect1d _ _)).
      match goal with |- In bc (map _ (rev (argsort ?k))) => set (K := k) end.
      match goal with |- In bc (map (fun k => nth k ?i 0%nat) _) => set (ids := i) end.
      assert (Hklen : length K = length ids) by apply map_length.
      assert (Hperm : Permutation (map (fun k => nth k ids 0%nat) (rev (argsort K))) ids).
      { apply gather_perm. rewrite <- Hklen. now apply rev_as_perm. }
      apply (Permutation_in _ (Permutation_sym Hperm)). unfold ids.
      rewrite !intersect1d_In, !filter_In, !in_seq, Z.leb_le, Z.eqb_eq.
      assert (H1 : (0 <= bc < 0 + length amp)%nat) by (rewrite Hamp_len, HT; lia).
      assert (H2 : tp t * nth bc amp 0 <= tq t * nth bc amp 0) by (unfold amp; now rewrite nth_map_ptp).
      assert (H3 : (0 <= bc < 0 + length shanks)%nat) by (rewrite Hsh; lia).
      tauto. }
    apply memb_In in Hin. rewrite Hin. eauto.
Qed.

Theorem dense_defined_iff d r cols :
  nth_error (d_templates d) (r_tid r) = Some cols ->
  length cols = length (d_pos d) -> length (d_wmi d) = length (d_pos d) -> length (d_shanks d) = length (d_pos d) ->
  NoDup (d_pos d) -> (0 < length (d_pos d))%nat -> 0 <= d_nclosest d ->
  ((exists rec, get_template_dense argsort d r = Some rec) <->
   (forall T b, Full_template d r T -> Peak T b ->
                tp (req_thr d r) * amp_of T b <= tq (req_thr d r) * amp_of T b) /\
   match r_chans r with Some l => Forall (fun c => 0 <= c < Z.of_nat (length (d_pos d))) l | None => True end).
Proof.
  intros Ecols Hc HW Hsh HP Hpos Hn.
  assert (ET : exists T, dense_full d r = Some T /\ length T = length (d_pos d)).
  { unfold dense_full. rewrite Ecols. destruct (r_unwhiten r).
    - unfold unwhiten_dense. rewrite Hc, HW, Nat.eqb_refl. eexists. split; [reflexivity|].
      now rewrite map_length, seq_length.
    - eauto. }
  destruct ET as (T & ET & HT).
  assert (HTne : map ptp T <> []).
  { intros E. apply (f_equal (@length Z)) in E. rewrite map_length in E. cbn in E. lia. }
  assert (Hpk : Peak T (argmax_first (map ptp T))).
  { destruct (argmax_first_spec (map ptp T) HTne) as [H1 H2]. rewrite map_length in H1. split; [exact H1|].
    intros c Hc'. rewrite <- !nth_map_ptp. apply argmax_first_nth. now rewrite map_length. }
  assert (Hpeq : forall T' b, Full_template d r T' -> Peak T' b -> T' = T /\ amp_of T b = amp_of T (argmax_first (map ptp T))).
  { intros T' b HF' HPk. assert (T' = T) by (apply (Full_template_unique d r); [assumption|now apply dense_full_spec]).
    subst T'. split; [reflexivity|]. destruct HPk as [Hb1 Hb2]. destruct Hpk as [Ha1 Ha2].
    specialize (Hb2 _ Ha1). specialize (Ha2 _ Hb1). lia. }
  unfold get_template_dense. rewrite ET, HT, Hsh, !Nat.eqb_refl. cbn [andb negb]. fold (req_thr d r).
  pose proof (find_best_defined_iff (d_pos d) (d_shanks d) (d_nclosest d) T (req_thr d r) HP HT Hsh Hpos Hn) as Hiff.
  split.
  - intros (rec & H).
    destruct (find_best_channels argsort (d_pos d) (d_shanks d) (d_nclosest d) (map ptp T) (req_thr d r)) as [b|] eqn:Eb;
      [|discriminate].
    split.
    + intros T' b' HF' HPk. destruct (Hpeq T' b' HF' HPk) as [-> ->]. apply Hiff. eauto.
    + destruct (r_chans r) as [l|]; [|exact I]. destruct (forallb (chan_ok (length (d_pos d))) l) eqn:El; [|discriminate].
      apply Forall_forall. intros c Hcin. rewrite forallb_forall in El. specialize (El c Hcin). unfold chan_ok in El. lia.
  - intros [Hthr Hl].
    destruct (proj2 Hiff (Hthr T _ (dense_full_spec d r T ET) Hpk)) as (b & ->).
    destruct (r_chans r) as [l|]; [|eauto].
    assert (forallb (chan_ok (length (d_pos d))) l = true) as ->; [|eauto].
    apply forallb_forall. intros c Hcin. rewrite Forall_forall in Hl. specialize (Hl c Hcin). unfold chan_ok. lia.
Qed.
End Oracle.
