(* C05/Model.v -- executable model of TemplateModel.get_template (phylib/io/model.py, repaired code of
   branch fix-c05): _find_best_channels, get_closest_channels, _unwhiten, _get_template_dense,
   _get_template_sparse, the dispatch, and the accessors get_template_channels / get_template_waveforms /
   get_cluster_channels.  No proofs here.

   Representation.  A template is the list of its COLUMNS (one per stored channel, each a list of
   n_samples values): the transpose of NumPy's (n_samples, n_channels_loc) array.  Values are exact
   integers (exact regime of DESIGN.md section 4; the threshold fraction is p/q).  Channel ids are nat,
   entries of the sparse column table are Z (they contain -1).
   np.argsort (default kind, NOT stable) is an oracle: a Section variable of which the proofs assume only
   that it returns a sorting permutation.  Where NumPy/phylib raise, the model returns None. *)
From Coq Require Import ZArith List Bool Arith.
Import ListNotations.
Open Scope Z_scope.

Definition lmax (l : list Z) : Z := match l with [] => 0 | x :: r => fold_right Z.max x r end.
Definition lmin (l : list Z) : Z := match l with [] => 0 | x :: r => fold_right Z.min x r end.
(* template.max(axis=0) - template.min(axis=0), one column *)
Definition ptp (col : list Z) : Z := lmax col - lmin col.
(* np.abs(template_w).max(axis=0), one column *)
Definition absmax (col : list Z) : Z := lmax (map Z.abs col).

(* np.argmax: index of the first maximal element *)
Fixpoint argmax_from (l : list Z) (i bi : nat) (bv : Z) : nat :=
  match l with
  | [] => bi
  | x :: r => if bv <? x then argmax_from r (S i) i x else argmax_from r (S i) bi bv
  end.
Definition argmax_first (l : list Z) : nat := match l with [] => 0%nat | x :: r => argmax_from r 1 0 x end.

Record pos := mkpos { px : Z; py : Z }.
Definition dist2 (a b : pos) : Z := (px a - px b) * (px a - px b) + (py a - py b) * (py a - py b).

(* np.unique on naturals: strictly increasing list of the distinct elements *)
Fixpoint uinsert (x : nat) (l : list nat) : list nat :=
  match l with
  | [] => [x]
  | y :: r => if (x <? y)%nat then x :: l else if (x =? y)%nat then l else y :: uinsert x r
  end.
Definition usort (l : list nat) : list nat := fold_right uinsert [] l.
Definition memb (x : nat) (l : list nat) : bool := existsb (Nat.eqb x) l.
(* np.intersect1d: sorted distinct common elements *)
Definition intersect1d (a b : list nat) : list nat := filter (fun x => memb x b) (usort a).

(* threshold fraction p/q, q > 0 *)
Record thr := mkthr { tp : Z; tq : Z }.
Record best := mkbest { b_channels : list nat; b_amplitude : list Z; b_best : nat }.

(* column j of mat[np.ix_(rows, .)] *)
Definition wcol (W : list (list Z)) (rows : list nat) (j : nat) : list Z :=
  map (fun i => nth j (nth i W []) 0) rows.
Definition dotZ (a b : list Z) : Z := fold_right Z.add 0 (map (fun xy => fst xy * snd xy) (combine a b)).
(* one column of np.dot(x, mat) * template_scaling: out[s] = (sum_i x[s, i] * w[i]) * scale *)
Definition ucol (cols : list (list Z)) (w : list Z) (ns : nat) (scale : Z) : list Z :=
  map (fun s => dotZ (map (fun col => nth s col 0) cols) w * scale) (seq 0 ns).
Definition n_samples (cols : list (list Z)) : nat := match cols with c :: _ => length c | [] => 0%nat end.

Record dataset := mkds {
  d_templates : list (list (list Z));       (* sparse_templates.data[k], as columns *)
  d_cols : option (list (list Z));          (* sparse_templates.cols (template_ind.npy), one row per template *)
  d_wmi : list (list Z);                    (* self.wmi, rows *)
  d_scale : Z;                              (* getattr(self, 'template_scaling', 1.0) *)
  d_pos : list pos;                         (* channel_positions *)
  d_shanks : list Z;                        (* channel_shanks *)
  d_nclosest : Z;                           (* n_closest_channels (class attribute, 12) *)
  d_thr : thr                               (* amplitude_threshold (class attribute, 0) *)
}.
Record request := mkreq {
  r_tid : nat; r_chans : option (list Z); r_thr : option thr; r_unwhiten : bool }.
Record trec := mkrec {
  t_template : list (list Z);               (* columns *)
  t_amplitude : list Z; t_best : nat; t_channels : list nat }.

Section Model.
Variable argsort : list Z -> list nat.

(* get_closest_channels(channel_positions, channel_index, n) *)
Definition closest (P : list pos) (bc : nat) (n : Z) : option (list nat) :=
  match nth_error P bc with
  | None => None                                                   (* IndexError *)
  | Some p0 =>
      let d := map (fun p => dist2 p p0) P in
      let out := argsort d in
      let out := if n =? 0 then out else firstn (Z.to_nat n) out in        (* if n: out = out[:n] *)
      match out with
      | x :: _ => if Nat.eqb x bc then Some out else None               (* assert out[0] == channel_index *)
      | [] => None
      end
  end.

(* _find_best_channels(template, amplitude_threshold) on the per-channel amplitudes *)
Definition find_best_channels (P : list pos) (shanks : list Z) (nclosest : Z) (amp : list Z) (t : thr)
  : option best :=
  match amp with
  | [] => None                                                           (* argmax of an empty sequence *)
  | _ =>
      let nc := length amp in
      let bc := argmax_first amp in
      let maxamp := nth bc amp 0 in
      (* np.nonzero(amplitude >= amplitude_threshold * max_amp)[0] *)
      let peak := filter (fun c => tp t * maxamp <=? tq t * nth c amp 0) (seq 0 nc) in
      match closest P bc nclosest with
      | None => None
      | Some close =>
          let shank := nth bc shanks 0 in
          let on_shank := filter (fun c => nth c shanks 0 =? shank) (seq 0 (length shanks)) in
          let close := intersect1d close on_shank in
          let ids := intersect1d peak close in
          (* order = np.argsort(amplitude[channel_ids])[::-1] *)
          let order := rev (argsort (map (fun c => nth c amp 0) ids)) in
          let ids' := map (fun k => nth k ids 0%nat) order in
          let amp' := map (fun c => nth c amp 0) ids' in                 (* repaired: amplitude[channel_ids] *)
          if memb bc ids' then Some (mkbest ids' amp' bc) else None      (* assert best_channel in channel_ids *)
      end
  end.

(* _unwhiten(x): np.dot(x, wmi) * template_scaling, all channels *)
Definition unwhiten_dense (W : list (list Z)) (scale : Z) (cols : list (list Z)) : option (list (list Z)) :=
  if Nat.eqb (length cols) (length W)                                    (* assert x.shape[1] == mat.shape[0] *)
  then Some (map (fun j => ucol cols (wcol W (seq 0 (length W)) j) (n_samples cols) scale) (seq 0 (length W)))
  else None.

(* the (optionally unwhitened) dense template, all channels *)
Definition dense_full (d : dataset) (r : request) : option (list (list Z)) :=
  match nth_error (d_templates d) (r_tid r) with
  | None => None
  | Some cols => if r_unwhiten r then unwhiten_dense (d_wmi d) (d_scale d) cols else Some cols
  end.

Definition chan_ok (nc : nat) (c : Z) : bool := (0 <=? c) && (c <? Z.of_nat nc).

Definition get_template_dense (d : dataset) (r : request) : option trec :=
  match dense_full d r with
  | None => None
  | Some T =>
      let nc := length (d_pos d) in
      if negb (Nat.eqb (length T) nc && Nat.eqb (length (d_shanks d)) nc) then None else
      let amp := map ptp T in
      let t := match r_thr r with Some t => t | None => d_thr d end in
      match find_best_channels (d_pos d) (d_shanks d) (d_nclosest d) amp t with
      | None => None
      | Some b =>
          match (match r_chans r with
                 | None => Some (b_channels b)
                 | Some l => if forallb (chan_ok nc) l then Some (map Z.to_nat l) else None   (* IndexError *)
                 end) with
          | None => None
          | Some ids =>
              let template := map (fun c => nth c T []) ids in           (* template[:, channel_ids] *)
              Some (mkrec template (map ptp template) (b_best b) ids)    (* repaired: amplitude of these columns *)
          end
      end
  end.

Definition get_template_sparse (d : dataset) (table : list (list Z)) (r : request) : option trec :=
  match nth_error (d_templates d) (r_tid r), nth_error table (r_tid r) with
  | Some cols, Some chans =>
      let nc := length (d_pos d) in
      if negb (Nat.eqb (length cols) (length chans)) then None else
      match cols with [] => None | _ =>
      let m := lmax (map absmax cols) in                                 (* template_max.max() *)
      let pairs := combine cols chans in
      (* has_signal = template_max > template_max.max() * 1e-6 *)
      let s1 := filter (fun cc => m <? 1000000 * absmax (fst cc)) pairs in
      (* used = channel_ids != -1 *)
      let s2 := filter (fun cc => negb (snd cc =? -1)) s1 in
      let kcols := map fst s2 in
      if negb (forallb (chan_ok nc) (map snd s2)) then None else          (* astype(uint32) wrap / IndexError in ix_ *)
      let ids := map (fun cc => Z.to_nat (snd cc)) s2 in
      let template :=
        if r_unwhiten r
        then map (fun cj => ucol kcols (wcol (d_wmi d) ids cj) (n_samples cols) (d_scale d)) ids   (* wmi[np.ix_(ids, ids)] *)
        else kcols in
      let amp := map ptp template in
      match amp with
      | [] => None                                                       (* argmax of an empty sequence *)
      | _ =>
          let bc := nth (argmax_first amp) ids 0%nat in
          let order := rev (argsort amp) in                              (* np.argsort(amplitude)[::-1] *)
          Some (mkrec (map (fun k => nth k template []) order)
                      (map (fun k => nth k amp 0) order)                 (* repaired: amplitude[channels_reordered] *)
                      bc
                      (map (fun k => nth k ids 0%nat) order))
      end end
  | _, _ => None
  end.

(* get_template: sparse storage iff the column table exists *)
Definition get_template (d : dataset) (r : request) : option trec :=
  match d_cols d with
  | Some table => get_template_sparse d table r
  | None => get_template_dense d r
  end.

Definition default_request (tid : nat) : request := mkreq tid None None true.
Definition get_template_channels (d : dataset) (tid : nat) : option (list nat) :=
  option_map t_channels (get_template d (default_request tid)).
Definition get_template_waveforms (d : dataset) (tid : nat) : option (list (list Z)) :=
  option_map t_template (get_template d (default_request tid)).

(* _get_template_from_spikes: the template with the most spikes among the cluster's spikes
   (np.unique(return_counts=True) then np.argmax: smallest id among the most frequent) *)
Definition count_nat (x : nat) (l : list nat) : Z := Z.of_nat (length (filter (Nat.eqb x) l)).
Definition main_template (st : list nat) (sc : list Z) (cid : Z) : option nat :=
  let sel := map fst (filter (fun p => snd p =? cid) (combine st sc)) in
  match sel with
  | [] => None                                                           (* argmax of an empty sequence *)
  | _ => let u := usort sel in Some (nth (argmax_first (map (fun x => count_nat x sel) u)) u 0%nat)
  end.
Definition get_cluster_channels (d : dataset) (st : list nat) (sc : list Z) (cid : Z) : option (list nat) :=
  match main_template st sc cid with
  | None => None
  | Some tid => get_template_channels d tid
  end.
End Model.
