(* C05/Proofs3.v -- the argsort oracle hypothesis is satisfiable (stable insertion argsort), and the template a
   record refers to is unique. *)
From Coq Require Import ZArith List Bool Arith Lia Permutation.
From PV Require Import Base.NpSort C05.Model C05.Spec C05.Proofs.
Import ListNotations.
Open Scope Z_scope.

Lemma sortedk_idx (l : list (Z * nat)) d : sortedk l ->
  forall i j, (i <= j < length l)%nat -> fst (nth i l d) <= fst (nth j l d).
Proof.
  induction l as [|x r IH]; intros Hs i j Hij; [cbn in Hij; lia|].
  destruct i as [|i], j as [|j]; cbn [nth length] in *; try lia.
  - apply (sortedk_ge x r); [assumption|]. apply nth_In. lia.
  - apply IH; [now apply sortedk_tail in Hs|lia].
Qed.

Lemma map_snd_combine {A B} (a : list A) (b : list B) : length a = length b -> map snd (combine a b) = b.
Proof.
  revert b; induction a as [|x a IH]; intros [|y b] H; cbn in *; try congruence. f_equal. apply IH. lia.
Qed.

Theorem stable_argsort_ok : Argsort_ok stable_argsort.
Proof.
  intros l. unfold stable_argsort. set (L := combine l (seq 0 (length l))). set (S := isort L).
  assert (HL : length L = length l) by (unfold L; rewrite combine_length, seq_length; lia).
  assert (HS : length S = length l) by (unfold S; rewrite (Permutation_length (isort_perm L)); exact HL).
  split.
  - eapply Permutation_trans; [apply Permutation_map, isort_perm|].
    unfold L. rewrite map_snd_combine by (now rewrite seq_length). apply Permutation_refl.
  - intros i j Hij.
    assert (Hel : forall p, (p < length l)%nat -> nth (nth p (map snd S) 0%nat) l 0 = fst (nth p S (0, 0%nat))).
    { intros p Hp. change 0%nat with (snd (0, 0%nat)) at 1. rewrite map_nth.
      assert (Hin : In (nth p S (0, 0%nat)) L).
      { apply (Permutation_in _ (isort_perm L)). apply nth_In. change (p < length S)%nat. lia. }
      destruct (In_nth _ _ (0, 0%nat) Hin) as (k & Hk & Ek). rewrite <- Ek. unfold L.
      rewrite combine_nth by (now rewrite seq_length). cbn [fst snd].
      rewrite seq_nth by lia. reflexivity. }
    rewrite !Hel by lia. apply sortedk_idx; [apply isort_sorted|lia].
Qed.

(* ---- the (optionally unwhitened) template of a request is unique ------------------------------------------- *)
Lemma Unwhitened_unique W sc cols U U' : Unwhitened W sc cols U -> Unwhitened W sc cols U' -> U = U'.
Proof.
  intros [HL H] [HL' H']. apply (nth_ext _ _ [] []); [congruence|]. intros j Hj. rewrite HL in Hj.
  destruct (H j Hj) as [Hn Hv]. destruct (H' j Hj) as [Hn' Hv'].
  apply (nth_ext _ _ 0 0); [congruence|]. intros s Hs. rewrite Hn in Hs. now rewrite Hv, Hv'.
Qed.
Lemma Full_template_unique d r T T' : Full_template d r T -> Full_template d r T' -> T = T'.
Proof.
  intros (cols & E & H) (cols' & E' & H'). rewrite E in E'. injection E' as <-.
  destruct (r_unwhiten r); [|congruence]. destruct H as [_ H], H' as [_ H']. eapply Unwhitened_unique; eassumption.
Qed.
