(* C05/Spec.v -- the property, declaratively (independent of how get_template computes it), and the
   boolean checkers that judge an observed record.

   Reading (DESIGN.md section 8, C05).  "Decreasing" = non-increasing; "peak channel first" = the first
   listed channel has the maximal amplitude and best_channel is listed and maximal; "nearest channels"
   under distance ties = SOME set of the n nearest (every strictly closer channel in, every strictly
   farther one out); with an explicit list the columns and amplitudes follow the caller's list. *)
From Coq Require Import ZArith List Bool Arith Permutation.
From PV Require Import C05.Model.
Import ListNotations.
Open Scope Z_scope.

(* what NumPy guarantees of np.argsort (default kind): a permutation of the positions that sorts the keys *)
Definition Argsort_ok (argsort : list Z -> list nat) : Prop :=
  forall l, Permutation (argsort l) (seq 0 (length l)) /\
            forall i j, (i <= j < length l)%nat ->
                        nth (nth i (argsort l) 0%nat) l 0 <= nth (nth j (argsort l) 0%nat) l 0.

(* ---- the quantities the statement talks about ------------------------------------------------------- *)
(* peak-to-peak amplitude of channel c of a full template T (list of columns) *)
Definition amp_of (T : list (list Z)) (c : nat) : Z := ptp (nth c T []).
Definition Peak (T : list (list Z)) (b : nat) : Prop :=
  (b < length T)%nat /\ forall c, (c < length T)%nat -> amp_of T c <= amp_of T b.

(* the unwhitened template: the matrix product of the stored template with the inverse whitening matrix *)
Definition zsum (l : list Z) : Z := fold_right Z.add 0 l.
Definition Unwhitened (W : list (list Z)) (scale : Z) (cols U : list (list Z)) : Prop :=
  length U = length W /\
  forall j, (j < length W)%nat ->
    length (nth j U []) = n_samples cols /\
    forall s, (s < n_samples cols)%nat ->
      nth s (nth j U []) 0 =
      zsum (map (fun i => nth s (nth i cols []) 0 * nth j (nth i W []) 0) (seq 0 (length W))) * scale.
(* the template the record refers to *)
Definition Full_template (d : dataset) (r : request) (T : list (list Z)) : Prop :=
  exists cols, nth_error (d_templates d) (r_tid r) = Some cols /\
    if r_unwhiten r then length cols = length (d_wmi d) /\ Unwhitened (d_wmi d) (d_scale d) cols T else T = cols.

Definition chan_dist (P : list pos) (b c : nat) : Z := dist2 (nth c P (mkpos 0 0)) (nth b P (mkpos 0 0)).
(* N is a set of the n nearest channels of b (all channels when n = 0: "if n:") *)
Definition Nearest (P : list pos) (b : nat) (n : Z) (N : list nat) : Prop :=
  NoDup N /\ (forall c, In c N -> (c < length P)%nat) /\
  length N = (if n =? 0 then length P else Nat.min (Z.to_nat n) (length P)) /\
  forall a c, In a N -> (c < length P)%nat -> ~ In c N -> chan_dist P b a <= chan_dist P b c.

(* ---- the clauses ---------------------------------------------------------------------------------------- *)
(* dense storage, no explicit list: listed = nearest /\ same shank /\ amplitude reaches p/q of the peak *)
Definition Dense_channels (P : list pos) (shanks : list Z) (n : Z) (t : thr) (T : list (list Z))
           (b : nat) (ids : list nat) : Prop :=
  exists N, Nearest P b n N /\
    forall c, In c ids <->
              In c N /\ nth c shanks 0 = nth b shanks 0 /\ tp t * amp_of T b <= tq t * amp_of T c.

(* column j = template on the j-th listed channel; amplitude j = peak-to-peak of column j *)
Definition Aligned (T : list (list Z)) (r : trec) : Prop :=
  length (t_template r) = length (t_channels r) /\ length (t_amplitude r) = length (t_channels r) /\
  forall j, (j < length (t_channels r))%nat ->
    (nth j (t_channels r) 0 < length T)%nat /\
    nth j (t_template r) [] = nth (nth j (t_channels r) 0%nat) T [] /\
    nth j (t_amplitude r) 0 = ptp (nth j (t_template r) []).

Fixpoint nonincreasing (l : list Z) : Prop :=
  match l with
  | x :: r => match r with y :: _ => y <= x /\ nonincreasing r | [] => True end
  | [] => True
  end.

(* distinct channels, non-increasing amplitudes, peak channel listed, maximal, and first up to ties *)
Definition Sorted_rec (T : list (list Z)) (r : trec) : Prop :=
  NoDup (t_channels r) /\ nonincreasing (t_amplitude r) /\ In (t_best r) (t_channels r) /\
  Peak T (t_best r) /\
  forall c0, hd_error (t_channels r) = Some c0 -> amp_of T c0 = amp_of T (t_best r).

(* sparse storage *)
Definition has_signal_b (cols : list (list Z)) (i : nat) : bool :=
  lmax (map absmax cols) <? 1000000 * absmax (nth i cols []).
Definition kept_b (cols : list (list Z)) (chans : list Z) (i : nat) : bool :=
  has_signal_b cols i && negb (nth i chans 0 =? -1).
(* storage positions of the stored channels that are used (not -1) and carry signal, in storage order *)
Definition kept_positions (cols : list (list Z)) (chans : list Z) : list nat :=
  filter (kept_b cols chans) (seq 0 (length cols)).
Definition chan_at (chans : list Z) (i : nat) : nat := Z.to_nat (nth i chans 0).
(* the (optionally unwhitened, on the sub-matrix of the kept channels) column stored at position i *)
Definition sparse_col (W : list (list Z)) (scale : Z) (cols : list (list Z)) (chans : list Z) (unwhiten : bool) (i : nat) : list Z :=
  if unwhiten
  then let kept := kept_positions cols chans in
       ucol (map (fun k => nth k cols []) kept) (wcol W (map (chan_at chans) kept) (chan_at chans i)) (n_samples cols) scale
  else nth i cols [].
(* sigma: the storage positions in the order of the returned record *)
Definition Sparse_channels (cols : list (list Z)) (chans : list Z) (sigma : list nat) (r : trec) : Prop :=
  Permutation sigma (kept_positions cols chans) /\ t_channels r = map (chan_at chans) sigma.
Definition Sparse_aligned (W : list (list Z)) (scale : Z) (cols : list (list Z)) (chans : list Z) (unwhiten : bool) (sigma : list nat)
           (r : trec) : Prop :=
  t_template r = map (sparse_col W scale cols chans unwhiten) sigma /\
  t_amplitude r = map ptp (t_template r).
(* (distinct as soon as the stored, used, signal-carrying channels of the row are distinct) *)
Definition Sparse_sorted (cols : list (list Z)) (chans : list Z) (r : trec) : Prop :=
  nonincreasing (t_amplitude r) /\
  (exists j, (j < length (t_channels r))%nat /\ nth j (t_channels r) 0%nat = t_best r /\
             forall a, In a (t_amplitude r) -> a <= nth j (t_amplitude r) 0) /\
  (forall a0, hd_error (t_amplitude r) = Some a0 -> forall a, In a (t_amplitude r) -> a <= a0) /\
  (NoDup (map (chan_at chans) (kept_positions cols chans)) -> NoDup (t_channels r)).

(* ---- boolean checkers (run on observed records by Corr.v) ------------------------------------------------ *)
Fixpoint zl_eqb (a b : list Z) : bool :=
  match a, b with
  | [], [] => true
  | x :: a', y :: b' => (x =? y) && zl_eqb a' b'
  | _, _ => false
  end.
Fixpoint nl_eqb (a b : list nat) : bool :=
  match a, b with
  | [], [] => true
  | x :: a', y :: b' => Nat.eqb x y && nl_eqb a' b'
  | _, _ => false
  end.
Fixpoint zll_eqb (a b : list (list Z)) : bool :=
  match a, b with
  | [], [] => true
  | x :: a', y :: b' => zl_eqb x y && zll_eqb a' b'
  | _, _ => false
  end.
Fixpoint nodup_b (l : list nat) : bool :=
  match l with [] => true | x :: r => negb (memb x r) && nodup_b r end.
Fixpoint nonincreasing_b (l : list Z) : bool :=
  match l with
  | x :: r => match r with y :: _ => (y <=? x) && nonincreasing_b r | [] => true end
  | [] => true
  end.

Definition peak_b (T : list (list Z)) (b : nat) : bool :=
  (b <? length T)%nat && forallb (fun c => amp_of T c <=? amp_of T b) (seq 0 (length T)).

Definition aligned_b (T : list (list Z)) (r : trec) : bool :=
  Nat.eqb (length (t_template r)) (length (t_channels r)) &&
  Nat.eqb (length (t_amplitude r)) (length (t_channels r)) &&
  forallb (fun j => let c := nth j (t_channels r) 0%nat in
                    (c <? length T)%nat &&
                    zl_eqb (nth j (t_template r) []) (nth c T []) &&
                    (nth j (t_amplitude r) 0 =? ptp (nth j (t_template r) [])))
          (seq 0 (length (t_channels r))).

Definition sorted_b (T : list (list Z)) (r : trec) : bool :=
  nodup_b (t_channels r) && nonincreasing_b (t_amplitude r) && memb (t_best r) (t_channels r) &&
  peak_b T (t_best r) &&
  match t_channels r with c0 :: _ => amp_of T c0 =? amp_of T (t_best r) | [] => true end.

(* relational judgement of the listed channel set: is it N /\ F for some set N of the n nearest? *)
Definition countb (f : nat -> bool) (l : list nat) : Z := Z.of_nat (length (filter f l)).
Definition dense_channels_b (P : list pos) (shanks : list Z) (n : Z) (t : thr) (T : list (list Z))
           (b : nat) (ids : list nat) : bool :=
  let nc := length P in
  let all := seq 0 nc in
  let dist := chan_dist P b in
  let F := fun c => (nth c shanks 0 =? nth b shanks 0) && (tp t * amp_of T b <=? tq t * amp_of T c) in
  let k := if n =? 0 then Z.of_nat nc else Z.min n (Z.of_nat nc) in
  forallb (fun c => (c <? nc)%nat) ids &&
  if k =? Z.of_nat nc then forallb (fun c => Bool.eqb (memb c ids) (F c)) all
  else
    (* the boundary distance: fewer than k channels strictly closer, at least k at most that far *)
    match find (fun c => (countb (fun a => dist a <? dist c) all <? k) &&
                         (k <=? countb (fun a => dist a <=? dist c) all)) all with
    | None => Z.eqb k 0 && match ids with [] => true | _ => false end
    | Some cstar =>
        let ds := dist cstar in
        let need := k - countb (fun a => dist a <? ds) all in
        let tie := filter (fun a => dist a =? ds) all in
        let s := countb (fun a => memb a ids) tie in
        forallb (fun c => if dist c <? ds then Bool.eqb (memb c ids) (F c)
                          else if ds <? dist c then negb (memb c ids)
                          else implb (memb c ids) (F c)) all &&
        (s <=? need) && (need - s <=? countb (fun a => negb (F a)) tie)
    end.

(* sparse *)
Fixpoint index_of_nat (x : nat) (l : list nat) : option nat :=
  match l with
  | [] => None
  | y :: r => if Nat.eqb x y then Some 0%nat else option_map S (index_of_nat x r)
  end.
Fixpoint omap {A B} (f : A -> option B) (l : list A) : option (list B) :=
  match l with
  | [] => Some []
  | x :: r => match f x, omap f r with Some y, Some ys => Some (y :: ys) | _, _ => None end
  end.
(* storage position of a listed channel (stored channels other than -1 are distinct in the regime) *)
Definition position_of (chans : list Z) (kept : list nat) (c : nat) : option nat :=
  option_map (fun k => nth k kept 0%nat) (index_of_nat c (map (chan_at chans) kept)).
Definition count_occ_nat (x : nat) (l : list nat) : nat := length (filter (Nat.eqb x) l).
Definition perm_b (a b : list nat) : bool :=
  Nat.eqb (length a) (length b) && forallb (fun x => Nat.eqb (count_occ_nat x a) (count_occ_nat x b)) a.

Definition sparse_sigma (cols : list (list Z)) (chans : list Z) (r : trec) : option (list nat) :=
  omap (position_of chans (kept_positions cols chans)) (t_channels r).
Definition sparse_channels_b (cols : list (list Z)) (chans : list Z) (r : trec) : bool :=
  match sparse_sigma cols chans r with
  | Some sigma => let kept := kept_positions cols chans in
                  (* sigma is a permutation of kept: no repetition, same length, every element kept *)
                  nodup_b sigma && Nat.eqb (length sigma) (length kept) && forallb (fun i => memb i kept) sigma &&
                  nl_eqb (t_channels r) (map (chan_at chans) sigma)
  | None => false
  end.
Definition sparse_aligned_b (W : list (list Z)) (scale : Z) (cols : list (list Z)) (chans : list Z) (unwhiten : bool) (r : trec) : bool :=
  match sparse_sigma cols chans r with
  | Some sigma => zll_eqb (t_template r) (map (sparse_col W scale cols chans unwhiten) sigma) &&
                  zl_eqb (t_amplitude r) (map ptp (t_template r))
  | None => false
  end.
Definition sparse_sorted_b (r : trec) : bool :=
  nonincreasing_b (t_amplitude r) && nodup_b (t_channels r) &&
  match index_of_nat (t_best r) (t_channels r) with
  | Some j => forallb (fun a => a <=? nth j (t_amplitude r) 0) (t_amplitude r)
  | None => false
  end &&
  match t_amplitude r with a0 :: _ => forallb (fun a => a <=? a0) (t_amplitude r) | [] => true end.

(* ---- the comparator's tie tests (Corr.v code 1): where they hold, the model's record is the same for every
   argsort oracle (C05_dense_tie_test_sufficient / C05_sparse_tie_test_sufficient), so equality with the model run
   under one oracle is demanded exactly where it is justified ------------------------------------------------- *)
Fixpoint nodupZ_b (l : list Z) : bool :=
  match l with [] => true | x :: r => negb (existsb (Z.eqb x) r) && nodupZ_b r end.
(* is the set of the n nearest channels of b determined (no distance tie across the neighbourhood boundary)? *)
Definition nearest_determined (P : list pos) (b : nat) (n : Z) : bool :=
  let nc := length P in
  let all := seq 0 nc in
  let dist := chan_dist P b in
  let k := if n =? 0 then Z.of_nat nc else Z.min n (Z.of_nat nc) in
  (k =? Z.of_nat nc) ||
  existsb (fun c => countb (fun a => dist a <=? dist c) all =? k) all.

(* ---- get_cluster_channels: the template a cluster's channels are taken from ---------------------------------- *)
(* the templates (spike_templates) of the spikes of cluster cid, one entry per spike *)
Definition cluster_templates (st : list nat) (sc : list Z) (cid : Z) : list nat :=
  map fst (filter (fun p => snd p =? cid) (combine st sc)).
(* tid is the template with the most spikes among the cluster's spikes, the smallest id among equally frequent ones *)
Definition Main_template (st : list nat) (sc : list Z) (cid : Z) (tid : nat) : Prop :=
  let sel := cluster_templates st sc cid in
  In tid sel /\
  (forall t, count_nat t sel <= count_nat tid sel) /\
  (forall t, count_nat t sel = count_nat tid sel -> (tid <= t)%nat).
