(* C05/Props.v -- property theorems only. *)
From Coq Require Import ZArith List Bool Arith.
From PV Require Import C05.Model C05.Spec C05.Proofs.
Import ListNotations.
Open Scope Z_scope.

Theorem C05_aligned_checker_sound : forall T r, aligned_b T r = true -> Aligned T r.
Proof. exact aligned_b_sound. Qed.
Print Assumptions C05_aligned_checker_sound.
