(* C05/Props.v -- property theorems only.  Every theorem holds for EVERY argsort oracle that returns a sorting
   permutation (NumPy's default argsort is not stable; nothing more is assumed of it), for all templates,
   whitening inverses, geometries, shank vectors, neighbourhood sizes, thresholds and requests: no size bound.
   Templates are lists of columns; the threshold fraction is p/q (Model.v). *)
From Coq Require Import ZArith List Bool Arith Permutation.
From PV Require Import Base.NpSort C05.Model C05.Spec C05.Proofs C05.Proofs2 C05.Proofs3 C05.Proofs4 C05.Proofs5.
Import ListNotations.
Open Scope Z_scope.

(* the oracle hypothesis is satisfiable: the stable insertion argsort (used by Corr.v) is such an oracle *)
Theorem C05_argsort_oracle_exists : Argsort_ok stable_argsort.
Proof. exact stable_argsort_ok. Qed.
Print Assumptions C05_argsort_oracle_exists.

(* "the (optionally unwhitened) template" of a request is one definite matrix *)
Theorem C05_full_template_unique : forall d r T T', Full_template d r T -> Full_template d r T' -> T = T'.
Proof. exact Full_template_unique. Qed.
Print Assumptions C05_full_template_unique.

(* ---- dense storage ----------------------------------------------------------------------------------------- *)
(* Dense storage, no explicit list: best_channel is a peak channel and the listed channels are exactly those
   among a set of the n nearest channels of the peak channel, on its shank, whose amplitude reaches p/q of the peak. *)
Theorem C05_dense_channels : forall argsort, Argsort_ok argsort -> forall d r rec,
  d_cols d = None -> 0 <= d_nclosest d -> r_chans r = None -> get_template argsort d r = Some rec ->
  exists T, Full_template d r T /\ Peak T (t_best rec) /\
    Dense_channels (d_pos d) (d_shanks d) (d_nclosest d) (req_thr d r) T (t_best rec) (t_channels rec).
Proof.
  intros argsort AS d r rec Hc Hn Hr H. unfold get_template in H. rewrite Hc in H.
  destruct (dense_spec argsort AS d r rec Hn H) as (T & H1 & _ & _ & H4 & H5). rewrite Hr in H5.
  exists T. tauto.
Qed.
Print Assumptions C05_dense_channels.

(* ... or the caller's explicit list, in the caller's order *)
Theorem C05_dense_explicit : forall argsort, Argsort_ok argsort -> forall d r rec l,
  d_cols d = None -> 0 <= d_nclosest d -> r_chans r = Some l -> get_template argsort d r = Some rec ->
  t_channels rec = map Z.to_nat l /\ Forall (fun c => 0 <= c < Z.of_nat (length (d_pos d))) l.
Proof.
  intros argsort AS d r rec l Hc Hn Hr H. unfold get_template in H. rewrite Hc in H.
  destruct (dense_spec argsort AS d r rec Hn H) as (T & _ & _ & _ & _ & H5). now rewrite Hr in H5.
Qed.
Print Assumptions C05_dense_explicit.

(* Column j of the returned waveform is the (optionally unwhitened) template on the j-th listed channel and
   entry j of the amplitude vector is that column's peak-to-peak amplitude -- with or without an explicit list. *)
Theorem C05_dense_aligned : forall argsort, Argsort_ok argsort -> forall d r rec,
  d_cols d = None -> 0 <= d_nclosest d -> get_template argsort d r = Some rec ->
  exists T, Full_template d r T /\ Aligned T rec.
Proof.
  intros argsort AS d r rec Hc Hn H. unfold get_template in H. rewrite Hc in H.
  destruct (dense_spec argsort AS d r rec Hn H) as (T & H1 & _ & H3 & _). exists T. tauto.
Qed.
Print Assumptions C05_dense_aligned.

(* Distinct channels, non-increasing amplitudes, the peak channel listed, maximal over ALL channels, and the first
   listed channel has the peak amplitude. *)
Theorem C05_sorted : forall argsort, Argsort_ok argsort -> forall d r rec,
  d_cols d = None -> 0 <= d_nclosest d -> r_chans r = None -> get_template argsort d r = Some rec ->
  exists T, Full_template d r T /\ Sorted_rec T rec.
Proof.
  intros argsort AS d r rec Hc Hn Hr H. unfold get_template in H. rewrite Hc in H.
  destruct (dense_spec argsort AS d r rec Hn H) as (T & H1 & _ & _ & _ & H5). rewrite Hr in H5.
  exists T. tauto.
Qed.
Print Assumptions C05_sorted.

(* the guard under which the dense path returns a record: loaded-state shapes, pairwise distinct positions,
   threshold fraction in [0, 1], explicit ids in range *)
Theorem C05_dense_defined : forall argsort, Argsort_ok argsort -> forall d r cols,
  d_cols d = None -> nth_error (d_templates d) (r_tid r) = Some cols ->
  length cols = length (d_pos d) -> length (d_wmi d) = length (d_pos d) -> length (d_shanks d) = length (d_pos d) ->
  NoDup (d_pos d) -> (0 < length (d_pos d))%nat -> 0 <= d_nclosest d ->
  0 <= tp (req_thr d r) <= tq (req_thr d r) ->
  match r_chans r with Some l => Forall (fun c => 0 <= c < Z.of_nat (length (d_pos d))) l | None => True end ->
  exists rec, get_template argsort d r = Some rec.
Proof.
  intros argsort AS d r cols Hc. unfold get_template. rewrite Hc. now apply dense_defined.
Qed.
Print Assumptions C05_dense_defined.

(* ---- sparse storage ---------------------------------------------------------------------------------------- *)
(* With sparse storage the listed channels are the stored channels of the template's row minus unused (-1) and
   signal-free ones: sigma lists the kept storage positions in the order of the record. *)
Theorem C05_sparse_channels : forall argsort, Argsort_ok argsort -> forall d table r rec cols chans,
  d_cols d = Some table -> nth_error (d_templates d) (r_tid r) = Some cols -> nth_error table (r_tid r) = Some chans ->
  get_template argsort d r = Some rec ->
  (forall c, In c (t_channels rec) <->
             exists i, In i (kept_positions cols chans) /\ c = chan_at chans i) /\
  (forall c, In c (t_channels rec) -> (c < length (d_pos d))%nat).
Proof.
  intros argsort AS d table r rec cols chans Hc E1 E2 H. unfold get_template in H. rewrite Hc in H.
  destruct (sparse_spec argsort AS d table r rec cols chans E1 E2 H) as (_ & Hlt & sigma & [Hp Hch] & _).
  split; [|exact Hlt]. intros c. rewrite Hch, in_map_iff. split.
  - intros (i & <- & Hi). exists i. split; [now apply (Permutation_in _ Hp)|reflexivity].
  - intros (i & Hi & ->). exists i. split; [reflexivity|now apply (Permutation_in _ (Permutation_sym Hp))].
Qed.
Print Assumptions C05_sparse_channels.

(* Column j / amplitude j belong to the j-th listed channel: one permutation sigma of the kept storage positions
   gives the channel list, the columns (unwhitened on the sub-matrix of the kept channels) and the amplitudes. *)
Theorem C05_sparse_aligned : forall argsort, Argsort_ok argsort -> forall d table r rec cols chans,
  d_cols d = Some table -> nth_error (d_templates d) (r_tid r) = Some cols -> nth_error table (r_tid r) = Some chans ->
  get_template argsort d r = Some rec ->
  exists sigma, Sparse_channels cols chans sigma rec /\ Sparse_aligned (d_wmi d) (d_scale d) cols chans (r_unwhiten r) sigma rec.
Proof.
  intros argsort AS d table r rec cols chans Hc E1 E2 H. unfold get_template in H. rewrite Hc in H.
  destruct (sparse_spec argsort AS d table r rec cols chans E1 E2 H) as (_ & _ & sigma & H1 & H2 & _).
  exists sigma. tauto.
Qed.
Print Assumptions C05_sparse_aligned.

(* Non-increasing amplitudes, the peak channel listed at a position of maximal amplitude, the first amplitude maximal,
   and distinct channels whenever the kept stored channels are distinct. *)
Theorem C05_sparse_sorted : forall argsort, Argsort_ok argsort -> forall d table r rec cols chans,
  d_cols d = Some table -> nth_error (d_templates d) (r_tid r) = Some cols -> nth_error table (r_tid r) = Some chans ->
  get_template argsort d r = Some rec -> Sparse_sorted cols chans rec.
Proof.
  intros argsort AS d table r rec cols chans Hc E1 E2 H. unfold get_template in H. rewrite Hc in H.
  destruct (sparse_spec argsort AS d table r rec cols chans E1 E2 H) as (_ & _ & sigma & _ & _ & H3). exact H3.
Qed.
Print Assumptions C05_sparse_sorted.

(* the guard under which the sparse path returns: at least one kept column, kept entries valid channel ids
   (an all-zero or fully unused row makes phylib raise: argmax of an empty sequence) *)
Theorem C05_sparse_defined : forall argsort d table r cols chans,
  d_cols d = Some table -> nth_error (d_templates d) (r_tid r) = Some cols -> nth_error table (r_tid r) = Some chans ->
  length cols = length chans ->
  (forall i, In i (kept_positions cols chans) -> 0 <= nth i chans 0 < Z.of_nat (length (d_pos d))) ->
  kept_positions cols chans <> [] ->
  exists rec, get_template argsort d r = Some rec.
Proof.
  intros argsort d table r cols chans Hc. unfold get_template. rewrite Hc. now apply sparse_defined.
Qed.
Print Assumptions C05_sparse_defined.

(* ---- the boolean checkers that judge observed records imply the declarative clauses ------------------------ *)
Theorem C05_aligned_checker_sound : forall T r, aligned_b T r = true -> Aligned T r.
Proof. exact aligned_b_sound. Qed.
Print Assumptions C05_aligned_checker_sound.

Theorem C05_sorted_checker_sound : forall T r, sorted_b T r = true -> Sorted_rec T r.
Proof. exact sorted_b_sound. Qed.
Print Assumptions C05_sorted_checker_sound.

(* the relational judgement of an observed channel list under distance ties: acceptance implies that the list is
   (some set of the n nearest) /\ (same shank) /\ (reaching the threshold) *)
Theorem C05_channels_checker_sound : forall P shanks n t T b ids,
  dense_channels_b P shanks n t T b ids = true -> Dense_channels P shanks n t T b ids.
Proof. exact dense_channels_b_sound. Qed.
Print Assumptions C05_channels_checker_sound.

Theorem C05_sparse_channels_checker_sound : forall cols chans r,
  sparse_channels_b cols chans r = true ->
  exists sigma, sparse_sigma cols chans r = Some sigma /\ Sparse_channels cols chans sigma r.
Proof. exact sparse_channels_b_sound. Qed.
Print Assumptions C05_sparse_channels_checker_sound.

Theorem C05_sparse_aligned_checker_sound : forall W sc cols chans unw r,
  sparse_aligned_b W sc cols chans unw r = true ->
  exists sigma, sparse_sigma cols chans r = Some sigma /\ Sparse_aligned W sc cols chans unw sigma r.
Proof. exact sparse_aligned_b_sound. Qed.
Print Assumptions C05_sparse_aligned_checker_sound.

Theorem C05_sparse_sorted_checker_sound : forall cols chans r, sparse_sorted_b r = true -> Sparse_sorted cols chans r.
Proof. exact sparse_sorted_b_sound. Qed.
Print Assumptions C05_sparse_sorted_checker_sound.

(* ---- tie-free inputs: the record does not depend on the oracle ------------------------------------------------ *)
(* a sorting permutation of pairwise distinct keys is unique: NumPy's unstable argsort has no freedom there *)
Theorem C05_argsort_unique : forall a1 a2 l, Argsort_ok a1 -> Argsort_ok a2 -> NoDup l -> a1 l = a2 l.
Proof. exact argsort_unique. Qed.
Print Assumptions C05_argsort_unique.

(* dense storage: pairwise distinct distances from every channel and pairwise distinct channel amplitudes *)
Theorem C05_dense_oracle_independent : forall a1 a2 d r,
  Argsort_ok a1 -> Argsort_ok a2 -> d_cols d = None ->
  (forall p0, In p0 (d_pos d) -> NoDup (map (fun p => dist2 p p0) (d_pos d))) ->
  (forall T, dense_full d r = Some T -> NoDup (map ptp T)) ->
  get_template a1 d r = get_template a2 d r.
Proof. intros a1 a2 d r A1 A2 Hc. unfold get_template. rewrite Hc. now apply dense_oracle_independent. Qed.
Print Assumptions C05_dense_oracle_independent.

(* sparse storage: pairwise distinct amplitudes of the returned columns *)
Theorem C05_sparse_oracle_independent : forall a1 a2 d table r,
  Argsort_ok a1 -> Argsort_ok a2 -> d_cols d = Some table ->
  (forall rec, get_template a1 d r = Some rec -> NoDup (t_amplitude rec)) ->
  get_template a1 d r = get_template a2 d r.
Proof. intros a1 a2 d table r A1 A2 Hc. unfold get_template. rewrite Hc. now apply sparse_oracle_independent. Qed.
Print Assumptions C05_sparse_oracle_independent.

(* ---- non-vacuity: the input of the repaired defect (DESIGN.md section 9), evaluated ----------------------------- *)
Definition ex_ds (cols : option (list (list Z))) : dataset :=
  mkds [ [[0; 5; 0]; [0; 3; 0]; [0; 9; 0]; [0; 7; 0]]; [[0; 0; 1]; [0; 1; 1]; [0; 1; 1]; [0; 1; 1]] ]
       cols
       [[0; 2; 0; 0]; [1; 0; 0; 0]; [0; 0; 0; -1]; [0; 0; 4; 0]] 1
       [mkpos 0 0; mkpos 0 20; mkpos 0 40; mkpos 0 60] [0; 1; 1; 1] 2 (mkthr 0 1).

(* dense, unwhitened: amplitudes of the 4 channels are 3, 10, 28, 9; peak = channel 2; its 2 nearest channels are
   {2, 1} or {2, 3} (distance tie): the stable oracle picks 1; amplitude is aligned with [2; 1] *)
Example C05_ex_dense :
  get_template stable_argsort (ex_ds None) (mkreq 0 None None true) =
  Some (mkrec [[0; 28; 0]; [0; 10; 0]] [28; 10] 2 [2; 1]%nat).
Proof. vm_compute. reflexivity. Qed.
Example C05_ex_dense_whitened_threshold :
  get_template stable_argsort (ex_ds None) (mkreq 0 None (Some (mkthr 1 4)) false) =
  Some (mkrec [[0; 9; 0]; [0; 3; 0]] [9; 3] 2 [2; 1]%nat).
Proof. vm_compute. reflexivity. Qed.
Example C05_ex_explicit :
  get_template stable_argsort (ex_ds None) (mkreq 0 (Some [1; 0; 1]) None false) =
  Some (mkrec [[0; 3; 0]; [0; 5; 0]; [0; 3; 0]] [3; 5; 3] 2 [1; 0; 1]%nat).
Proof. vm_compute. reflexivity. Qed.
Example C05_ex_explicit_out_of_range :
  get_template stable_argsort (ex_ds None) (mkreq 0 (Some [1; 4]) None false) = None.
Proof. vm_compute. reflexivity. Qed.
Example C05_ex_dense_premises :
  d_cols (ex_ds None) = None /\ 0 <= d_nclosest (ex_ds None) /\ NoDup (d_pos (ex_ds None)).
Proof. repeat split; try (vm_compute; congruence). repeat constructor; cbn; intuition congruence. Qed.
(* sparse: row [3; 1; -1; 0] of the column table: column 2 is unused, the others are kept *)
Example C05_ex_sparse :
  get_template stable_argsort (ex_ds (Some [[3; 1; -1; 0]; [0; 1; 2; 3]])) (mkreq 0 None None false) =
  Some (mkrec [[0; 7; 0]; [0; 5; 0]; [0; 3; 0]] [7; 5; 3] 0 [0; 3; 1]%nat).
Proof. vm_compute. reflexivity. Qed.
Example C05_ex_sparse_unwhitened :
  get_template stable_argsort (ex_ds (Some [[3; 1; -1; 0]; [0; 1; 2; 3]])) (mkreq 0 None None true) =
  Some (mkrec [[0; 14; 0]; [0; 3; 0]; [0; 0; 0]] [14; 3; 0] 1 [1; 0; 3]%nat).
Proof. vm_compute. reflexivity. Qed.
Example C05_ex_sparse_kept :
  kept_positions [[0; 5; 0]; [0; 3; 0]; [0; 9; 0]; [0; 7; 0]] [3; 1; -1; 0] = [0; 1; 3]%nat.
Proof. vm_compute. reflexivity. Qed.
(* an all-zero sparse template: phylib raises, the model returns None *)
Example C05_ex_sparse_zero :
  get_template stable_argsort
    (mkds [[[0; 0]; [0; 0]]; [[1; 0]; [0; 2]]] (Some [[0; 1]; [1; 0]]) [[1; 0]; [0; 1]] 1 [mkpos 0 0; mkpos 0 20] [0; 0] 12 (mkthr 0 1))
    (mkreq 0 None None true) = None.
Proof. vm_compute. reflexivity. Qed.
(* the checker accepts both admissible neighbourhoods of channel 2 under the distance tie, and rejects a farther one *)
Example C05_ex_checker_tie :
  let T := [[0; 3; 0]; [0; 10; 0]; [0; 28; 0]; [0; 9; 0]] in
  let P := [mkpos 0 0; mkpos 0 20; mkpos 0 40; mkpos 0 60] in
  dense_channels_b P [0; 1; 1; 1] 2 (mkthr 0 1) T 2 [2; 1]%nat = true /\
  dense_channels_b P [0; 1; 1; 1] 2 (mkthr 0 1) T 2 [3; 2]%nat = true /\
  dense_channels_b P [0; 1; 1; 1] 2 (mkthr 0 1) T 2 [2; 1; 3]%nat = false /\
  dense_channels_b P [0; 1; 1; 1] 2 (mkthr 0 1) T 1 [1]%nat = true /\
  dense_channels_b P [0; 1; 1; 1] 3 (mkthr 0 1) T 1 [1; 3]%nat = false.
Proof. vm_compute. repeat split. Qed.
(* template_scaling multiplies the unwhitened template (and nothing else) *)
Example C05_ex_scaling :
  let d := mkds [ [[0; 5; 0]; [0; 3; 0]]; [[1; 0; 0]; [0; 0; 2]] ] None [[0; 2]; [1; 0]] 3
                [mkpos 0 0; mkpos 0 20] [0; 0] 12 (mkthr 0 1) in
  get_template stable_argsort d (mkreq 0 None None true) = Some (mkrec [[0; 30; 0]; [0; 9; 0]] [30; 9] 1 [1; 0]%nat) /\
  get_template stable_argsort d (mkreq 0 None None false) = Some (mkrec [[0; 5; 0]; [0; 3; 0]] [5; 3] 0 [0; 1]%nat).
Proof. vm_compute. split; reflexivity. Qed.
(* a tie-free geometry and template: the premises of C05_dense_oracle_independent hold *)
Example C05_ex_tie_free :
  let P := [mkpos 0 0; mkpos 0 23; mkpos 0 52; mkpos 0 87] in
  (forall p0, In p0 P -> NoDup (map (fun p => dist2 p p0) P)) /\
  NoDup (map ptp [[0; 5; 0]; [0; 3; 0]; [0; 9; 0]; [0; 7; 0]]).
Proof.
  split.
  - intros p0 [<-|[<-|[<-|[<-|[]]]]]; vm_compute; repeat constructor; cbn; intuition congruence.
  - vm_compute. repeat constructor; cbn; intuition congruence.
Qed.
