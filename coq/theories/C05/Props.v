(* C05/Props.v -- property theorems only.  Every theorem holds for EVERY argsort oracle that returns a sorting
   permutation (NumPy's default argsort is not stable; nothing more is assumed of it), for all templates,
   whitening inverses, geometries, shank vectors, neighbourhood sizes, thresholds and requests: no size bound.
   Templates are lists of columns; the threshold fraction is p/q (Model.v). *)
From Coq Require Import ZArith List Bool Arith Permutation.
From PV Require Import Base.NpSort C05.Model C05.Spec C05.Proofs C05.Proofs2 C05.Proofs3 C05.Proofs4 C05.Proofs5 C05.Proofs6 C05.Proofs7 C05.Proofs8 C05.Proofs9.
Import ListNotations.
Open Scope Z_scope.

(* the oracle hypothesis is satisfiable: the stable insertion argsort (used by Corr.v) is such an oracle *)
Theorem C05_argsort_oracle_exists : Argsort_ok stable_argsort.
Proof. exact stable_argsort_ok. Qed.
Print Assumptions C05_argsort_oracle_exists.

(* "the (optionally unwhitened) template" of a request is one definite matrix *)
Theorem C05_full_template_unique : forall d r T T', Full_template d r T -> Full_template d r T' -> T = T'.
Proof. exact Full_template_unique. Qed.
Print Assumptions C05_full_template_unique.

(* ---- dense storage ----------------------------------------------------------------------------------------- *)
(* Dense storage, no explicit list: best_channel is a peak channel and the listed channels are exactly those
   among a set of the n nearest channels of the peak channel, on its shank, whose amplitude reaches p/q of the peak. *)
Theorem C05_dense_channels : forall argsort, Argsort_ok argsort -> forall d r rec,
  d_cols d = None -> 0 <= d_nclosest d -> r_chans r = None -> get_template argsort d r = Some rec ->
  exists T, Full_template d r T /\ Peak T (t_best rec) /\
    Dense_channels (d_pos d) (d_shanks d) (d_nclosest d) (req_thr d r) T (t_best rec) (t_channels rec).
Proof.
  intros argsort AS d r rec Hc Hn Hr H. unfold get_template in H. rewrite Hc in H.
  destruct (dense_spec argsort AS d r rec Hn H) as (T & H1 & _ & _ & H4 & H5). rewrite Hr in H5.
  exists T. tauto.
Qed.
Print Assumptions C05_dense_channels.

(* ... or the caller's explicit list, in the caller's order *)
Theorem C05_dense_explicit : forall argsort, Argsort_ok argsort -> forall d r rec l,
  d_cols d = None -> 0 <= d_nclosest d -> r_chans r = Some l -> get_template argsort d r = Some rec ->
  t_channels rec = map Z.to_nat l /\ Forall (fun c => 0 <= c < Z.of_nat (length (d_pos d))) l.
Proof.
  intros argsort AS d r rec l Hc Hn Hr H. unfold get_template in H. rewrite Hc in H.
  destruct (dense_spec argsort AS d r rec Hn H) as (T & _ & _ & _ & _ & H5). now rewrite Hr in H5.
Qed.
Print Assumptions C05_dense_explicit.

(* Column j of the returned waveform is the (optionally unwhitened) template on the j-th listed channel and
   entry j of the amplitude vector is that column's peak-to-peak amplitude -- with or without an explicit list. *)
Theorem C05_dense_aligned : forall argsort, Argsort_ok argsort -> forall d r rec,
  d_cols d = None -> 0 <= d_nclosest d -> get_template argsort d r = Some rec ->
  exists T, Full_template d r T /\ Aligned T rec.
Proof.
  intros argsort AS d r rec Hc Hn H. unfold get_template in H. rewrite Hc in H.
  destruct (dense_spec argsort AS d r rec Hn H) as (T & H1 & _ & H3 & _). exists T. tauto.
Qed.
Print Assumptions C05_dense_aligned.

(* Distinct channels, non-increasing amplitudes, the peak channel listed, maximal over ALL channels, and the first
   listed channel has the peak amplitude. *)
Theorem C05_sorted : forall argsort, Argsort_ok argsort -> forall d r rec,
  d_cols d = None -> 0 <= d_nclosest d -> r_chans r = None -> get_template argsort d r = Some rec ->
  exists T, Full_template d r T /\ Sorted_rec T rec.
Proof.
  intros argsort AS d r rec Hc Hn Hr H. unfold get_template in H. rewrite Hc in H.
  destruct (dense_spec argsort AS d r rec Hn H) as (T & H1 & _ & _ & _ & H5). rewrite Hr in H5.
  exists T. tauto.
Qed.
Print Assumptions C05_sorted.

(* the guard under which the dense path returns a record: loaded-state shapes, pairwise distinct positions,
   threshold fraction in [0, 1], explicit ids in range *)
Theorem C05_dense_defined : forall argsort, Argsort_ok argsort -> forall d r cols,
  d_cols d = None -> nth_error (d_templates d) (r_tid r) = Some cols ->
  length cols = length (d_pos d) -> length (d_wmi d) = length (d_pos d) -> length (d_shanks d) = length (d_pos d) ->
  NoDup (d_pos d) -> (0 < length (d_pos d))%nat -> 0 <= d_nclosest d ->
  0 <= tp (req_thr d r) <= tq (req_thr d r) ->
  match r_chans r with Some l => Forall (fun c => 0 <= c < Z.of_nat (length (d_pos d))) l | None => True end ->
  exists rec, get_template argsort d r = Some rec.
Proof.
  intros argsort AS d r cols Hc. unfold get_template. rewrite Hc. now apply dense_defined.
Qed.
Print Assumptions C05_dense_defined.

(* ---- sparse storage ---------------------------------------------------------------------------------------- *)
(* With sparse storage the listed channels are the stored channels of the template's row minus unused (-1) and
   signal-free ones: sigma lists the kept storage positions in the order of the record. *)
Theorem C05_sparse_channels : forall argsort, Argsort_ok argsort -> forall d table r rec cols chans,
  d_cols d = Some table -> nth_error (d_templates d) (r_tid r) = Some cols -> nth_error table (r_tid r) = Some chans ->
  get_template argsort d r = Some rec ->
  (forall c, In c (t_channels rec) <->
             exists i, In i (kept_positions cols chans) /\ c = chan_at chans i) /\
  (forall c, In c (t_channels rec) -> (c < length (d_pos d))%nat).
Proof.
  intros argsort AS d table r rec cols chans Hc E1 E2 H. unfold get_template in H. rewrite Hc in H.
  destruct (sparse_spec argsort AS d table r rec cols chans E1 E2 H) as (_ & Hlt & sigma & [Hp Hch] & _).
  split; [|exact Hlt]. intros c. rewrite Hch, in_map_iff. split.
  - intros (i & <- & Hi). exists i. split; [now apply (Permutation_in _ Hp)|reflexivity].
  - intros (i & Hi & ->). exists i. split; [reflexivity|now apply (Permutation_in _ (Permutation_sym Hp))].
Qed.
Print Assumptions C05_sparse_channels.

(* Column j / amplitude j belong to the j-th listed channel: one permutation sigma of the kept storage positions
   gives the channel list, the columns (unwhitened on the sub-matrix of the kept channels) and the amplitudes. *)
Theorem C05_sparse_aligned : forall argsort, Argsort_ok argsort -> forall d table r rec cols chans,
  d_cols d = Some table -> nth_error (d_templates d) (r_tid r) = Some cols -> nth_error table (r_tid r) = Some chans ->
  get_template argsort d r = Some rec ->
  exists sigma, Sparse_channels cols chans sigma rec /\ Sparse_aligned (d_wmi d) (d_scale d) cols chans (r_unwhiten r) sigma rec.
Proof.
  intros argsort AS d table r rec cols chans Hc E1 E2 H. unfold get_template in H. rewrite Hc in H.
  destruct (sparse_spec argsort AS d table r rec cols chans E1 E2 H) as (_ & _ & sigma & H1 & H2 & _).
  exists sigma. tauto.
Qed.
Print Assumptions C05_sparse_aligned.

(* Non-increasing amplitudes, the peak channel listed at a position of maximal amplitude, the first amplitude maximal,
   and distinct channels whenever the kept stored channels are distinct. *)
Theorem C05_sparse_sorted : forall argsort, Argsort_ok argsort -> forall d table r rec cols chans,
  d_cols d = Some table -> nth_error (d_templates d) (r_tid r) = Some cols -> nth_error table (r_tid r) = Some chans ->
  get_template argsort d r = Some rec -> Sparse_sorted cols chans rec.
Proof.
  intros argsort AS d table r rec cols chans Hc E1 E2 H. unfold get_template in H. rewrite Hc in H.
  destruct (sparse_spec argsort AS d table r rec cols chans E1 E2 H) as (_ & _ & sigma & _ & _ & H3). exact H3.
Qed.
Print Assumptions C05_sparse_sorted.

(* the guard under which the sparse path returns: at least one kept column, kept entries valid channel ids
   (an all-zero or fully unused row makes phylib raise: argmax of an empty sequence) *)
Theorem C05_sparse_defined : forall argsort d table r cols chans,
  d_cols d = Some table -> nth_error (d_templates d) (r_tid r) = Some cols -> nth_error table (r_tid r) = Some chans ->
  length cols = length chans ->
  (forall i, In i (kept_positions cols chans) -> 0 <= nth i chans 0 < Z.of_nat (length (d_pos d))) ->
  kept_positions cols chans <> [] ->
  exists rec, get_template argsort d r = Some rec.
Proof.
  intros argsort d table r cols chans Hc. unfold get_template. rewrite Hc. now apply sparse_defined.
Qed.
Print Assumptions C05_sparse_defined.

(* ---- the boolean checkers that judge observed records imply the declarative clauses ------------------------ *)
Theorem C05_aligned_checker_sound : forall T r, aligned_b T r = true -> Aligned T r.
Proof. exact aligned_b_sound. Qed.
Print Assumptions C05_aligned_checker_sound.

Theorem C05_sorted_checker_sound : forall T r, sorted_b T r = true -> Sorted_rec T r.
Proof. exact sorted_b_sound. Qed.
Print Assumptions C05_sorted_checker_sound.

(* the relational judgement of an observed channel list under distance ties: acceptance implies that the list is
   (some set of the n nearest) /\ (same shank) /\ (reaching the threshold) *)
Theorem C05_channels_checker_sound : forall P shanks n t T b ids,
  dense_channels_b P shanks n t T b ids = true -> Dense_channels P shanks n t T b ids.
Proof. exact dense_channels_b_sound. Qed.
Print Assumptions C05_channels_checker_sound.

Theorem C05_sparse_channels_checker_sound : forall cols chans r,
  sparse_channels_b cols chans r = true ->
  exists sigma, sparse_sigma cols chans r = Some sigma /\ Sparse_channels cols chans sigma r.
Proof. exact sparse_channels_b_sound. Qed.
Print Assumptions C05_sparse_channels_checker_sound.

Theorem C05_sparse_aligned_checker_sound : forall W sc cols chans unw r,
  sparse_aligned_b W sc cols chans unw r = true ->
  exists sigma, sparse_sigma cols chans r = Some sigma /\ Sparse_aligned W sc cols chans unw sigma r.
Proof. exact sparse_aligned_b_sound. Qed.
Print Assumptions C05_sparse_aligned_checker_sound.

Theorem C05_sparse_sorted_checker_sound : forall cols chans r, sparse_sorted_b r = true -> Sparse_sorted cols chans r.
Proof. exact sparse_sorted_b_sound. Qed.
Print Assumptions C05_sparse_sorted_checker_sound.

(* ---- tie-free inputs: the record does not depend on the oracle ------------------------------------------------ *)
(* a sorting permutation of pairwise distinct keys is unique: NumPy's unstable argsort has no freedom there *)
Theorem C05_argsort_unique : forall a1 a2 l, Argsort_ok a1 -> Argsort_ok a2 -> NoDup l -> a1 l = a2 l.
Proof. exact argsort_unique. Qed.
Print Assumptions C05_argsort_unique.

(* dense storage: pairwise distinct distances from every channel and pairwise distinct channel amplitudes *)
Theorem C05_dense_oracle_independent : forall a1 a2 d r,
  Argsort_ok a1 -> Argsort_ok a2 -> d_cols d = None ->
  (forall p0, In p0 (d_pos d) -> NoDup (map (fun p => dist2 p p0) (d_pos d))) ->
  (forall T, dense_full d r = Some T -> NoDup (map ptp T)) ->
  get_template a1 d r = get_template a2 d r.
Proof. intros a1 a2 d r A1 A2 Hc. unfold get_template. rewrite Hc. now apply dense_oracle_independent. Qed.
Print Assumptions C05_dense_oracle_independent.

(* sparse storage: pairwise distinct amplitudes of the returned columns *)
Theorem C05_sparse_oracle_independent : forall a1 a2 d table r,
  Argsort_ok a1 -> Argsort_ok a2 -> d_cols d = Some table ->
  (forall rec, get_template a1 d r = Some rec -> NoDup (t_amplitude rec)) ->
  get_template a1 d r = get_template a2 d r.
Proof. intros a1 a2 d table r A1 A2 Hc. unfold get_template. rewrite Hc. now apply sparse_oracle_independent. Qed.
Print Assumptions C05_sparse_oracle_independent.

(* ---- non-vacuity: the input of the repaired defect (DESIGN.md section 9), evaluated ----------------------------- *)
Definition ex_ds (cols : option (list (list Z))) : dataset :=
  mkds [ [[0; 5; 0]; [0; 3; 0]; [0; 9; 0]; [0; 7; 0]]; [[0; 0; 1]; [0; 1; 1]; [0; 1; 1]; [0; 1; 1]] ]
       cols
       [[0; 2; 0; 0]; [1; 0; 0; 0]; [0; 0; 0; -1]; [0; 0; 4; 0]] 1
       [mkpos 0 0; mkpos 0 20; mkpos 0 40; mkpos 0 60] [0; 1; 1; 1] 2 (mkthr 0 1).

(* dense, unwhitened: amplitudes of the 4 channels are 3, 10, 28, 9; peak = channel 2; its 2 nearest channels are
   {2, 1} or {2, 3} (distance tie): the stable oracle picks 1; amplitude is aligned with [2; 1] *)
Example C05_ex_dense :
  get_template stable_argsort (ex_ds None) (mkreq 0 None None true) =
  Some (mkrec [[0; 28; 0]; [0; 10; 0]] [28; 10] 2 [2; 1]%nat).
Proof. vm_compute. reflexivity. Qed.
Example C05_ex_dense_whitened_threshold :
  get_template stable_argsort (ex_ds None) (mkreq 0 None (Some (mkthr 1 4)) false) =
  Some (mkrec [[0; 9; 0]; [0; 3; 0]] [9; 3] 2 [2; 1]%nat).
Proof. vm_compute. reflexivity. Qed.
Example C05_ex_explicit :
  get_template stable_argsort (ex_ds None) (mkreq 0 (Some [1; 0; 1]) None false) =
  Some (mkrec [[0; 3; 0]; [0; 5; 0]; [0; 3; 0]] [3; 5; 3] 2 [1; 0; 1]%nat).
Proof. vm_compute. reflexivity. Qed.
Example C05_ex_explicit_out_of_range :
  get_template stable_argsort (ex_ds None) (mkreq 0 (Some [1; 4]) None false) = None.
Proof. vm_compute. reflexivity. Qed.
Example C05_ex_dense_premises :
  d_cols (ex_ds None) = None /\ 0 <= d_nclosest (ex_ds None) /\ NoDup (d_pos (ex_ds None)).
Proof. repeat split; try (vm_compute; congruence). repeat constructor; cbn; intuition congruence. Qed.
(* sparse: row [3; 1; -1; 0] of the column table: column 2 is unused, the others are kept *)
Example C05_ex_sparse :
  get_template stable_argsort (ex_ds (Some [[3; 1; -1; 0]; [0; 1; 2; 3]])) (mkreq 0 None None false) =
  Some (mkrec [[0; 7; 0]; [0; 5; 0]; [0; 3; 0]] [7; 5; 3] 0 [0; 3; 1]%nat).
Proof. vm_compute. reflexivity. Qed.
Example C05_ex_sparse_unwhitened :
  get_template stable_argsort (ex_ds (Some [[3; 1; -1; 0]; [0; 1; 2; 3]])) (mkreq 0 None None true) =
  Some (mkrec [[0; 14; 0]; [0; 3; 0]; [0; 0; 0]] [14; 3; 0] 1 [1; 0; 3]%nat).
Proof. vm_compute. reflexivity. Qed.
Example C05_ex_sparse_kept :
  kept_positions [[0; 5; 0]; [0; 3; 0]; [0; 9; 0]; [0; 7; 0]] [3; 1; -1; 0] = [0; 1; 3]%nat.
Proof. vm_compute. reflexivity. Qed.
(* an all-zero sparse template: phylib raises, the model returns None *)
Example C05_ex_sparse_zero :
  get_template stable_argsort
    (mkds [[[0; 0]; [0; 0]]; [[1; 0]; [0; 2]]] (Some [[0; 1]; [1; 0]]) [[1; 0]; [0; 1]] 1 [mkpos 0 0; mkpos 0 20] [0; 0] 12 (mkthr 0 1))
    (mkreq 0 None None true) = None.
Proof. vm_compute. reflexivity. Qed.
(* the checker accepts both admissible neighbourhoods of channel 2 under the distance tie, and rejects a farther one *)
Example C05_ex_checker_tie :
  let T := [[0; 3; 0]; [0; 10; 0]; [0; 28; 0]; [0; 9; 0]] in
  let P := [mkpos 0 0; mkpos 0 20; mkpos 0 40; mkpos 0 60] in
  dense_channels_b P [0; 1; 1; 1] 2 (mkthr 0 1) T 2 [2; 1]%nat = true /\
  dense_channels_b P [0; 1; 1; 1] 2 (mkthr 0 1) T 2 [3; 2]%nat = true /\
  dense_channels_b P [0; 1; 1; 1] 2 (mkthr 0 1) T 2 [2; 1; 3]%nat = false /\
  dense_channels_b P [0; 1; 1; 1] 2 (mkthr 0 1) T 1 [1]%nat = true /\
  dense_channels_b P [0; 1; 1; 1] 3 (mkthr 0 1) T 1 [1; 3]%nat = false.
Proof. vm_compute. repeat split. Qed.
(* template_scaling multiplies the unwhitened template (and nothing else) *)
Example C05_ex_scaling :
  let d := mkds [ [[0; 5; 0]; [0; 3; 0]]; [[1; 0; 0]; [0; 0; 2]] ] None [[0; 2]; [1; 0]] 3
                [mkpos 0 0; mkpos 0 20] [0; 0] 12 (mkthr 0 1) in
  get_template stable_argsort d (mkreq 0 None None true) = Some (mkrec [[0; 30; 0]; [0; 9; 0]] [30; 9] 1 [1; 0]%nat) /\
  get_template stable_argsort d (mkreq 0 None None false) = Some (mkrec [[0; 5; 0]; [0; 3; 0]] [5; 3] 0 [0; 1]%nat).
Proof. vm_compute. split; reflexivity. Qed.
(* a tie-free geometry and template: the premises of C05_dense_oracle_independent hold *)
Example C05_ex_tie_free :
  let P := [mkpos 0 0; mkpos 0 23; mkpos 0 52; mkpos 0 87] in
  (forall p0, In p0 P -> NoDup (map (fun p => dist2 p p0) P)) /\
  NoDup (map ptp [[0; 5; 0]; [0; 3; 0]; [0; 9; 0]; [0; 7; 0]]).
Proof.
  split.
  - intros p0 [<-|[<-|[<-|[<-|[]]]]]; vm_compute; repeat constructor; cbn; intuition congruence.
  - vm_compute. repeat constructor; cbn; intuition congruence.
Qed.

(* ================================================================================================================ *)
(* Stage 3.                                                                                                          *)
(* ---- the comparator's tie tests are sufficient --------------------------------------------------------------------
   Corr.v demands equality with the model (run under the stable oracle) only on observables that the tests
   Spec.nearest_determined / Spec.nodupZ_b declare determined.  These theorems justify every such demand: for ANY two
   oracles that return sorting permutations the model agrees on exactly those observables. *)
(* no distance tie across the neighbourhood boundary: the set of the n nearest channels is unique *)
Theorem C05_nearest_determined_unique : forall P b n N1 N2,
  nearest_determined P b n = true -> Nearest P b n N1 -> Nearest P b n N2 -> forall c, In c N1 <-> In c N2.
Proof. exact nearest_unique. Qed.
Print Assumptions C05_nearest_determined_unique.

(* dense storage: the model returns under one oracle iff under the other, with the same best_channel; with an explicit
   list the same record; without one the same SET of channels when the neighbourhood is determined, and the same
   record when moreover the amplitudes of the model's listed channels are pairwise distinct (judge_dense, code 1) *)
Theorem C05_dense_tie_test_sufficient : forall a1 a2 d r m,
  Argsort_ok a1 -> Argsort_ok a2 -> d_cols d = None -> NoDup (d_pos d) -> 0 <= d_nclosest d ->
  get_template a1 d r = Some m ->
  exists m2, get_template a2 d r = Some m2 /\ t_best m2 = t_best m /\
    match r_chans r with
    | Some _ => m2 = m
    | None => nearest_determined (d_pos d) (t_best m) (d_nclosest d) = true ->
              usort (t_channels m2) = usort (t_channels m) /\
              (nodupZ_b (t_amplitude m) = true -> m2 = m)
    end.
Proof.
  intros a1 a2 d r m A1 A2 Hc HP Hn. unfold get_template. rewrite Hc. now apply dense_tie_test_sufficient.
Qed.
Print Assumptions C05_dense_tie_test_sufficient.

(* sparse storage: same best_channel and same set of channels for every oracle; the same record when the model's
   amplitudes are pairwise distinct (judge_sparse, code 1) *)
Theorem C05_sparse_tie_test_sufficient : forall a1 a2 d table r m,
  Argsort_ok a1 -> Argsort_ok a2 -> d_cols d = Some table -> get_template a1 d r = Some m ->
  exists m2, get_template a2 d r = Some m2 /\ t_best m2 = t_best m /\
    usort (t_channels m2) = usort (t_channels m) /\ (nodupZ_b (t_amplitude m) = true -> m2 = m).
Proof.
  intros a1 a2 d table r m A1 A2 Hc. unfold get_template. rewrite Hc. now apply sparse_tie_test_sufficient.
Qed.
Print Assumptions C05_sparse_tie_test_sufficient.

(* where the model raises (None) it does so for every oracle: an expected exception never depends on argsort *)
Theorem C05_raises_oracle_independent : forall a1 a2 d r,
  Argsort_ok a1 -> Argsort_ok a2 -> NoDup (d_pos d) -> 0 <= d_nclosest d ->
  get_template a1 d r = None -> get_template a2 d r = None.
Proof.
  intros a1 a2 d r A1 A2 HP Hn. unfold get_template. destruct (d_cols d) as [table|].
  - now apply sparse_raises_oracle_independent.
  - now apply dense_raises_oracle_independent.
Qed.
Print Assumptions C05_raises_oracle_independent.

(* ---- get_cluster_channels / get_template_channels / get_template_waveforms ------------------------------------------ *)
(* _get_template_from_spikes picks the template with the most spikes among the cluster's spikes, the smallest id
   among equally frequent ones; it exists iff the cluster has a spike *)
Theorem C05_main_template : forall st sc cid tid, main_template st sc cid = Some tid <-> Main_template st sc cid tid.
Proof. intros. split; [apply main_template_spec|apply main_template_complete]. Qed.
Print Assumptions C05_main_template.

Theorem C05_template_accessors : forall argsort d tid,
  get_template_channels argsort d tid = option_map t_channels (get_template argsort d (mkreq tid None None true)) /\
  get_template_waveforms argsort d tid = option_map t_template (get_template argsort d (mkreq tid None None true)).
Proof. exact template_accessors_spec. Qed.
Print Assumptions C05_template_accessors.

(* get_cluster_channels returns exactly the channel list of get_template (class threshold, no explicit list,
   unwhitened) of the cluster's main template, and raises exactly when there is none or get_template raises *)
Theorem C05_cluster_channels : forall argsort d st sc cid chans,
  get_cluster_channels argsort d st sc cid = Some chans <->
  exists tid rec, Main_template st sc cid tid /\ get_template argsort d (default_request tid) = Some rec /\
                  chans = t_channels rec.
Proof. exact cluster_channels_spec. Qed.
Print Assumptions C05_cluster_channels.

(* ... hence, dense: the channels of a cluster are distinct and are (some set of the n nearest of a peak channel of the
   main template's unwhitened waveform) /\ (its shank) /\ (reaching the class threshold) *)
Theorem C05_cluster_channels_dense : forall argsort, Argsort_ok argsort -> forall d st sc cid chans,
  d_cols d = None -> 0 <= d_nclosest d -> get_cluster_channels argsort d st sc cid = Some chans ->
  exists tid T b, Main_template st sc cid tid /\ Full_template d (default_request tid) T /\ Peak T b /\
    Dense_channels (d_pos d) (d_shanks d) (d_nclosest d) (d_thr d) T b chans /\ NoDup chans.
Proof.
  intros argsort AS d st sc cid chans Hc Hn H. apply cluster_channels_spec in H.
  destruct H as (tid & rec & HM & Hr & ->).
  destruct (C05_dense_channels argsort AS d (default_request tid) rec Hc Hn eq_refl Hr) as (T & HT & HP & HD).
  destruct (C05_sorted argsort AS d (default_request tid) rec Hc Hn eq_refl Hr) as (T' & _ & (Hnd & _)).
  exists tid, T, (t_best rec). split; [exact HM|]. split; [exact HT|]. split; [exact HP|]. split; [exact HD|exact Hnd].
Qed.
Print Assumptions C05_cluster_channels_dense.

(* ... sparse: they are the stored channels of the main template's row minus unused and signal-free ones *)
Theorem C05_cluster_channels_sparse : forall argsort, Argsort_ok argsort -> forall d table st sc cid chans,
  d_cols d = Some table -> get_cluster_channels argsort d st sc cid = Some chans ->
  exists tid cols chs, Main_template st sc cid tid /\
    nth_error (d_templates d) tid = Some cols /\ nth_error table tid = Some chs /\
    forall c, In c chans <-> exists i, In i (kept_positions cols chs) /\ c = chan_at chs i.
Proof.
  intros argsort AS d table st sc cid chans Hc H. apply cluster_channels_spec in H.
  destruct H as (tid & rec & HM & Hr & ->).
  destruct (nth_error (d_templates d) tid) as [cols|] eqn:E1;
    [|rewrite (template_id_exit argsort d (default_request tid) E1) in Hr; discriminate].
  destruct (nth_error table tid) as [chs|] eqn:E2.
  2:{ unfold get_template in Hr. rewrite Hc in Hr. unfold get_template_sparse in Hr.
      change (r_tid (default_request tid)) with tid in Hr. rewrite E1, E2 in Hr. discriminate. }
  exists tid, cols, chs. split; [exact HM|]. split; [exact E1|]. split; [exact E2|].
  apply (C05_sparse_channels argsort AS d table (default_request tid) rec cols chs Hc E1 E2 Hr).
Qed.
Print Assumptions C05_cluster_channels_sparse.

(* ---- error exits of the model (where phylib raises): the boundary of the regime, explicitly ------------------------- *)
(* dense: an explicit id outside [0, n_channels) -- IndexError.  (phylib lets NumPy wrap ids in [-n_channels, 0) and
   returns them verbatim; a negative number is not a channel, so such requests are outside the statement.) *)
Theorem C05_dense_explicit_exit : forall argsort d r l,
  d_cols d = None -> r_chans r = Some l -> ~ Forall (fun c => 0 <= c < Z.of_nat (length (d_pos d))) l ->
  get_template argsort d r = None.
Proof. intros argsort d r l Hc. unfold get_template. rewrite Hc. apply dense_explicit_exit. Qed.
Print Assumptions C05_dense_explicit_exit.

Theorem C05_template_id_exit : forall argsort d r,
  nth_error (d_templates d) (r_tid r) = None -> get_template argsort d r = None.
Proof. exact template_id_exit. Qed.
Print Assumptions C05_template_id_exit.

(* dense: a threshold fraction above 1 on a template with signal (assert best_channel in channel_ids) *)
Theorem C05_dense_threshold_exit : forall argsort, Argsort_ok argsort -> forall d r T c,
  d_cols d = None -> Full_template d r T -> (c < length T)%nat -> 0 < amp_of T c ->
  0 < tq (req_thr d r) < tp (req_thr d r) -> get_template argsort d r = None.
Proof.
  intros argsort AS d r T c Hc HT Hlt Hamp Hthr. unfold get_template. rewrite Hc.
  destruct (dense_full d r) as [T'|] eqn:ET.
  - assert (T' = T) by (apply (Full_template_unique d r); [now apply dense_full_spec|assumption]). subst T'.
    now apply (dense_threshold_exit argsort AS d r T c).
  - unfold get_template_dense. now rewrite ET.
Qed.
Print Assumptions C05_dense_threshold_exit.

(* dense, loaded-state shapes: get_template returns a record iff the peak amplitude reaches the threshold fraction of
   itself (always for a fraction in [0, 1]: C05_dense_defined; never above 1 on a template with signal:
   C05_dense_threshold_exit) and every explicit id is a channel; otherwise phylib raises *)
Theorem C05_dense_defined_iff : forall argsort, Argsort_ok argsort -> forall d r cols,
  d_cols d = None -> nth_error (d_templates d) (r_tid r) = Some cols ->
  length cols = length (d_pos d) -> length (d_wmi d) = length (d_pos d) -> length (d_shanks d) = length (d_pos d) ->
  NoDup (d_pos d) -> (0 < length (d_pos d))%nat -> 0 <= d_nclosest d ->
  ((exists rec, get_template argsort d r = Some rec) <->
   (forall T b, Full_template d r T -> Peak T b ->
                tp (req_thr d r) * amp_of T b <= tq (req_thr d r) * amp_of T b) /\
   match r_chans r with Some l => Forall (fun c => 0 <= c < Z.of_nat (length (d_pos d))) l | None => True end).
Proof.
  intros argsort AS d r cols Hc. unfold get_template. rewrite Hc. now apply dense_defined_iff.
Qed.
Print Assumptions C05_dense_defined_iff.

(* sparse: get_template returns iff the row matches the stored columns, the kept entries are channels and at least
   one column is kept (C05_sparse_defined is the <- direction) *)
Theorem C05_sparse_defined_iff : forall argsort d table r cols chans,
  d_cols d = Some table -> nth_error (d_templates d) (r_tid r) = Some cols -> nth_error table (r_tid r) = Some chans ->
  ((exists rec, get_template argsort d r = Some rec) <->
   length cols = length chans /\
   (forall i, In i (kept_positions cols chans) -> 0 <= nth i chans 0 < Z.of_nat (length (d_pos d))) /\
   kept_positions cols chans <> []).
Proof. intros argsort d table r cols chans Hc. unfold get_template. rewrite Hc. apply sparse_defined_iff. Qed.
Print Assumptions C05_sparse_defined_iff.

Theorem C05_cluster_without_spikes_exit : forall argsort d st sc cid,
  cluster_templates st sc cid = [] -> get_cluster_channels argsort d st sc cid = None.
Proof. exact cluster_without_spikes_exit. Qed.
Print Assumptions C05_cluster_without_spikes_exit.

(* ---- the checkers are complete: with the soundness theorems above they DECIDE the clauses ---------------------------- *)
Theorem C05_channels_checker_complete : forall P shanks n t T b ids, 0 <= n ->
  Dense_channels P shanks n t T b ids -> dense_channels_b P shanks n t T b ids = true.
Proof. exact dense_channels_b_complete. Qed.
Print Assumptions C05_channels_checker_complete.

Theorem C05_aligned_checker_complete : forall T r, Aligned T r -> aligned_b T r = true.
Proof. exact aligned_b_complete. Qed.
Print Assumptions C05_aligned_checker_complete.

Theorem C05_sorted_checker_complete : forall T r, Sorted_rec T r -> sorted_b T r = true.
Proof. exact sorted_b_complete. Qed.
Print Assumptions C05_sorted_checker_complete.

(* sparse: under the regime's "stored, used, signal-carrying channels of a row are pairwise distinct" *)
Theorem C05_sparse_checkers_complete : forall W sc cols chans unw sigma r,
  NoDup (map (chan_at chans) (kept_positions cols chans)) ->
  Sparse_channels cols chans sigma r -> Sparse_aligned W sc cols chans unw sigma r -> Sparse_sorted cols chans r ->
  sparse_channels_b cols chans r = true /\ sparse_aligned_b W sc cols chans unw r = true /\ sparse_sorted_b r = true.
Proof.
  intros W sc cols chans unw sigma r Hinj H1 H2 H3. split; [|split].
  - now apply (sparse_channels_b_complete cols chans sigma).
  - now apply (sparse_aligned_b_complete W sc cols chans unw sigma).
  - now apply (sparse_sorted_b_complete cols chans).
Qed.
Print Assumptions C05_sparse_checkers_complete.

(* ---- examples for stage 3 -------------------------------------------------------------------------------------------- *)
(* Two channels tie for the maximal amplitude (amplitudes 3, 9, 1, 9): np.argmax makes channel 1 the best_channel,
   while the reversed argsort lists channel 3 first (stable oracle; NumPy may list either).  "Peak channel first" is
   therefore read relationally (Spec.Sorted_rec: the FIRST LISTED channel has the maximal amplitude, best_channel is
   listed and maximal): both orders of the tied channels are accepted, a non-maximal first channel is not. *)
Definition tie_ds (cols : option (list (list Z))) : dataset :=
  mkds [ [[0; 3]; [0; 9]; [0; 1]; [0; 9]]; [[0; 9]; [0; 9]; [0; 3]; [0; 1]] ] cols
       [[1; 0; 0; 0]; [0; 1; 0; 0]; [0; 0; 1; 0]; [0; 0; 0; 1]] 1
       [mkpos 0 0; mkpos 0 20; mkpos 0 40; mkpos 0 60] [0; 0; 0; 0] 12 (mkthr 0 1).
Example C05_ex_peak_tie :
  get_template stable_argsort (tie_ds None) (mkreq 0 None None true) =
    Some (mkrec [[0; 9]; [0; 9]; [0; 3]; [0; 1]] [9; 9; 3; 1] 1 [3; 1; 0; 2]%nat) /\
  let T := [[0; 3]; [0; 9]; [0; 1]; [0; 9]] in
  sorted_b T (mkrec [[0; 9]; [0; 9]; [0; 3]; [0; 1]] [9; 9; 3; 1] 1 [3; 1; 0; 2]%nat) = true /\
  sorted_b T (mkrec [[0; 9]; [0; 9]; [0; 3]; [0; 1]] [9; 9; 3; 1] 1 [1; 3; 0; 2]%nat) = true /\
  sorted_b T (mkrec [[0; 3]; [0; 9]; [0; 9]; [0; 1]] [3; 9; 9; 1] 1 [0; 1; 3; 2]%nat) = false /\
  sorted_b T (mkrec [[0; 9]; [0; 3]; [0; 1]] [9; 3; 1] 1 [3; 0; 2]%nat) = false.
Proof. vm_compute. repeat split. Qed.
(* threshold 1 keeps exactly the tied channels; sparse storage shows the same disagreement (best_channel 0, first listed 1) *)
Example C05_ex_peak_tie_threshold_sparse :
  get_template stable_argsort (tie_ds None) (mkreq 1 None (Some (mkthr 1 1)) true) =
    Some (mkrec [[0; 9]; [0; 9]] [9; 9] 0 [1; 0]%nat) /\
  get_template stable_argsort (tie_ds (Some [[2; 0; 3; 1]; [0; 1; 2; 3]])) (mkreq 0 None None true) =
    Some (mkrec [[0; 9]; [0; 9]; [0; 3]; [0; 1]] [9; 9; 3; 1] 0 [1; 0; 2; 3]%nat) /\
  sparse_sorted_b (mkrec [[0; 9]; [0; 9]; [0; 3]; [0; 1]] [9; 9; 3; 1] 0 [0; 1; 2; 3]%nat) = true.
Proof. vm_compute. repeat split. Qed.
(* the tie tests: on a regular line the 2 nearest channels of an inner channel are not determined, 3 are; from the end
   channel 2 are; every size >= the number of channels is *)
Example C05_ex_tie_tests :
  let P := [mkpos 0 0; mkpos 0 20; mkpos 0 40; mkpos 0 60] in
  nearest_determined P 2 2 = false /\ nearest_determined P 2 3 = true /\ nearest_determined P 0 2 = true /\
  nearest_determined P 2 12 = true /\ nearest_determined P 2 0 = true /\
  nodupZ_b [9; 9; 3; 1] = false /\ nodupZ_b [28; 10] = true.
Proof. vm_compute. repeat split. Qed.
(* error exits: a negative id (NumPy would wrap it), an id past the last channel, a threshold above 1, a template id
   past the last template; an EMPTY explicit array is in the regime (an empty record with the peak channel) *)
Example C05_ex_error_exits :
  get_template stable_argsort (tie_ds None) (mkreq 0 (Some [-1; 0]) None true) = None /\
  get_template stable_argsort (tie_ds None) (mkreq 0 (Some [0; 4]) None true) = None /\
  get_template stable_argsort (tie_ds None) (mkreq 0 None (Some (mkthr 5 4)) true) = None /\
  get_template stable_argsort (tie_ds None) (mkreq 2 None None true) = None /\
  get_template stable_argsort (tie_ds None) (mkreq 0 (Some []) None true) = Some (mkrec [] [] 1 []).
Proof. vm_compute. repeat split. Qed.
(* a cluster whose spikes come from templates 0, 1, 2, 1, 0: templates 0 and 1 are equally frequent, the smaller id wins;
   a cluster without spikes raises *)
Example C05_ex_cluster :
  main_template [0; 1; 2; 1; 0; 2]%nat [5; 5; 5; 5; 5; 7] 5 = Some 0%nat /\
  get_cluster_channels stable_argsort (tie_ds None) [0; 1; 2; 1; 0; 2]%nat [5; 5; 5; 5; 5; 7] 5 = Some [3; 1; 0; 2]%nat /\
  get_cluster_channels stable_argsort (tie_ds None) [0; 1; 2; 1; 0; 2]%nat [5; 5; 5; 5; 5; 7] 6 = None /\
  cluster_templates [0; 1; 2; 1; 0; 2]%nat [5; 5; 5; 5; 5; 7] 6 = [].
Proof. vm_compute. repeat split. Qed.
