(* C05/Proofs2.v -- sparse storage: _get_template_sparse meets Sparse_channels / Sparse_aligned / Sparse_sorted. *)
From Coq Require Import ZArith List Bool Arith Lia Permutation.
From PV Require Import C05.Model C05.Spec C05.Proofs.
Import ListNotations.
Open Scope Z_scope.

Lemma filter_filter {A} (f g : A -> bool) l : filter f (filter g l) = filter (fun x => g x && f x) l.
Proof.
  induction l as [|x r IH]; [reflexivity|]. cbn [filter]. destruct (g x); cbn [filter andb]; [|exact IH].
  destruct (f x); now rewrite IH.
Qed.
Lemma filter_map_S (f : nat -> bool) l : filter f (map S l) = map S (filter (fun i => f (S i)) l).
Proof.
  induction l as [|x r IH]; [reflexivity|]. cbn [map filter]. destruct (f (S x)); cbn [map]; now rewrite IH.
Qed.
(* a filter, as the gathering of the selected positions *)
Lemma filter_positions {A} (g : A -> bool) (l : list A) d :
  filter g l = map (fun i => nth i l d) (filter (fun i => g (nth i l d)) (seq 0 (length l))).
Proof.
  induction l as [|x r IH]; [reflexivity|]. cbn [length seq filter nth].
  rewrite <- seq_shift, filter_map_S.
  destruct (g x); cbn [map nth]; rewrite map_map; cbn [nth]; now rewrite <- IH.
Qed.
Lemma filter_ext_in {A} (f g : A -> bool) l : (forall x, In x l -> f x = g x) -> filter f l = filter g l.
Proof.
  induction l as [|x r IH]; intros H; [reflexivity|]. cbn [filter]. rewrite (H x (or_introl eq_refl)).
  rewrite IH; [reflexivity|]. intros y Hy. apply H. now right.
Qed.

Section Oracle.
Variable argsort : list Z -> list nat.
Hypothesis AS : Argsort_ok argsort.

Definition gather {A} (l : list A) (d : A) (order : list nat) : list A := map (fun k => nth k l d) order.

(* the record _get_template_sparse returns, in terms of the kept storage positions *)
Lemma sparse_unfold d table r rec cols chans :
  nth_error (d_templates d) (r_tid r) = Some cols -> nth_error table (r_tid r) = Some chans ->
  get_template_sparse argsort d table r = Some rec ->
  let kept := kept_positions cols chans in
  let ids := map (chan_at chans) kept in
  let template := map (sparse_col (d_wmi d) (d_scale d) cols chans (r_unwhiten r)) kept in
  let amp := map ptp template in
  let order := rev (argsort amp) in
  length cols = length chans /\ amp <> [] /\
  (forall i, In i kept -> 0 <= nth i chans 0 < Z.of_nat (length (d_pos d))) /\
  rec = mkrec (gather template [] order) (gather amp 0 order) (nth (argmax_first amp) ids 0%nat) (gather ids 0%nat order).
Proof.
  intros E1 E2. unfold get_template_sparse. rewrite E1, E2.
  destruct (Nat.eqb (length cols) (length chans)) eqn:Elen; cbn [negb]; [|discriminate].
  apply Nat.eqb_eq in Elen.
  destruct cols as [|c0 cr] eqn:Ecols; [discriminate|]. rewrite <- Ecols in *.
  set (m := lmax (map absmax cols)).
  rewrite filter_filter.
  set (g := fun cc : list Z * Z => (m <? 1000000 * absmax (fst cc)) && negb (snd cc =? -1)).
  rewrite (filter_positions g (combine cols chans) ([], 0)).
  assert (Hk : filter (fun i => g (nth i (combine cols chans) ([], 0))) (seq 0 (length (combine cols chans)))
               = kept_positions cols chans).
  { unfold kept_positions. rewrite combine_length, <- Elen, Nat.min_id. apply filter_ext_in.
    intros i Hi. rewrite combine_nth by exact Elen. reflexivity. }
  rewrite Hk. set (kept := kept_positions cols chans).
  assert (Hfst : map fst (map (fun i => nth i (combine cols chans) ([], 0)) kept) = map (fun i => nth i cols []) kept).
  { rewrite map_map. apply map_ext. intros i. now rewrite combine_nth by exact Elen. }
  assert (Hsnd : map snd (map (fun i => nth i (combine cols chans) ([], 0)) kept) = map (fun i => nth i chans 0) kept).
  { rewrite map_map. apply map_ext. intros i. now rewrite combine_nth by exact Elen. }
  assert (Hids : map (fun cc : list Z * Z => Z.to_nat (snd cc)) (map (fun i => nth i (combine cols chans) ([], 0)) kept)
                 = map (chan_at chans) kept).
  { rewrite map_map. apply map_ext. intros i. now rewrite combine_nth by exact Elen. }
  rewrite Hfst, Hsnd, Hids.
  destruct (forallb (chan_ok (length (d_pos d))) (map (fun i => nth i chans 0) kept)) eqn:Eok; cbn [negb]; [|discriminate].
  set (ids := map (chan_at chans) kept).
  assert (Htpl : (if r_unwhiten r
                  then map (fun cj => ucol (map (fun i => nth i cols []) kept) (wcol (d_wmi d) ids cj) (n_samples cols) (d_scale d)) ids
                  else map (fun i => nth i cols []) kept)
                 = map (sparse_col (d_wmi d) (d_scale d) cols chans (r_unwhiten r)) kept).
  { unfold sparse_col. fold kept. destruct (r_unwhiten r); [|reflexivity]. unfold ids. now rewrite map_map. }
  rewrite Htpl. set (template := map (sparse_col (d_wmi d) (d_scale d) cols chans (r_unwhiten r)) kept).
  destruct (map ptp template) as [|a0 ar] eqn:Eamp; [discriminate|]. rewrite <- Eamp.
  intros H; injection H as <-. cbn zeta. split; [exact Elen|]. split; [rewrite Eamp; discriminate|]. split; [|reflexivity].
  intros i Hi. rewrite forallb_forall in Eok.
  specialize (Eok (nth i chans 0) (in_map (fun i => nth i chans 0) kept i Hi)). unfold chan_ok in Eok. lia.
Qed.

Theorem sparse_spec d table r rec cols chans :
  nth_error (d_templates d) (r_tid r) = Some cols -> nth_error table (r_tid r) = Some chans ->
  get_template_sparse argsort d table r = Some rec ->
  length cols = length chans /\
  (forall c, In c (t_channels rec) -> (c < length (d_pos d))%nat) /\
  exists sigma,
    Sparse_channels cols chans sigma rec /\
    Sparse_aligned (d_wmi d) (d_scale d) cols chans (r_unwhiten r) sigma rec /\
    Sparse_sorted cols chans rec.
Proof.
  intros E1 E2 H. destruct (sparse_unfold d table r rec cols chans E1 E2 H) as (Hlen & Hne & Hok & ->). clear H.
  set (kept := kept_positions cols chans) in *.
  set (ids := map (chan_at chans) kept).
  set (template := map (sparse_col (d_wmi d) (d_scale d) cols chans (r_unwhiten r)) kept).
  set (amp := map ptp template) in *.
  set (order := rev (argsort amp)).
  assert (Hamp_len : length amp = length kept) by (unfold amp, template; now rewrite !map_length).
  assert (Hoperm : Permutation order (seq 0 (length kept))) by (rewrite <- Hamp_len; now apply rev_as_perm).
  assert (Holt : forall k, In k order -> (k < length kept)%nat) by (intros k; now apply perm_seq_lt).
  set (sigma := gather kept 0%nat order).
  assert (Hsig : Permutation sigma kept) by (now apply gather_perm).
  assert (Hch : gather ids 0%nat order = map (chan_at chans) sigma).
  { unfold gather, ids. now apply gather_map. }
  assert (Htp : gather template [] order = map (sparse_col (d_wmi d) (d_scale d) cols chans (r_unwhiten r)) sigma).
  { unfold gather, template. now apply gather_map. }
  assert (Ham : gather amp 0 order = map ptp (gather template [] order)).
  { unfold gather, amp. apply gather_map. unfold template. rewrite map_length. exact Holt. }
  split; [exact Hlen|]. split.
  { cbn [t_channels]. rewrite Hch. intros c Hc. apply in_map_iff in Hc. destruct Hc as (i & <- & Hi).
    apply (Permutation_in _ Hsig) in Hi. specialize (Hok i Hi). unfold chan_at. lia. }
  exists sigma. split; [|split].
  - unfold Sparse_channels. cbn [t_channels]. split; [exact Hsig|exact Hch].
  - unfold Sparse_aligned. cbn [t_template t_amplitude]. split; [exact Htp|exact Ham].
  - unfold Sparse_sorted. cbn [t_template t_amplitude t_channels t_best].
    assert (Hni : nonincreasing (gather amp 0 order)) by (apply rev_as_nonincreasing; exact AS).
    assert (Hmax : forall a, In a (gather amp 0 order) -> a <= nth (argmax_first amp) amp 0).
    { intros a Ha. apply argmax_first_spec; [exact Hne|].
      unfold gather in Ha. apply in_map_iff in Ha. destruct Ha as (k & <- & Hk). apply nth_In.
      rewrite Hamp_len. now apply Holt. }
    split; [exact Hni|]. split; [|split].
    + (* the peak channel is listed, at a position carrying the maximal amplitude *)
      assert (Ha : (argmax_first amp < length kept)%nat) by (rewrite <- Hamp_len; now apply argmax_first_spec).
      assert (Hin : In (argmax_first amp) order) by (apply (Permutation_in _ (Permutation_sym Hoperm)), in_seq; lia).
      destruct (In_nth _ _ 0%nat Hin) as (j & Hj & Ej).
      exists j. unfold gather. rewrite !map_length. split; [exact Hj|]. split.
      * rewrite (nth_map_lt (fun k => nth k ids 0%nat) order 0%nat) by exact Hj. now rewrite Ej.
      * intros a Ha'. rewrite (nth_map_lt (fun k => nth k amp 0) order 0%nat) by exact Hj. rewrite Ej.
        now apply Hmax.
    + intros a0 Ha0 a Ha. destruct (gather amp 0 order) as [|x l] eqn:Eg; [discriminate|]. injection Ha0 as <-.
      now apply (nonincreasing_hd l).
    + intros Hnd. rewrite Hch. apply (Permutation_NoDup (Permutation_map _ (Permutation_sym Hsig))). exact Hnd.
Qed.

(* the guard under which _get_template_sparse returns *)
Theorem sparse_defined d table r cols chans :
  nth_error (d_templates d) (r_tid r) = Some cols -> nth_error table (r_tid r) = Some chans ->
  length cols = length chans ->
  (forall i, In i (kept_positions cols chans) -> 0 <= nth i chans 0 < Z.of_nat (length (d_pos d))) ->
  kept_positions cols chans <> [] ->
  exists rec, get_template_sparse argsort d table r = Some rec.
Proof.
  intros E1 E2 Elen Hok Hne. unfold get_template_sparse. rewrite E1, E2, Elen, Nat.eqb_refl. cbn [negb].
  destruct cols as [|c0 cr] eqn:Ecols; [unfold kept_positions in Hne; cbn in Hne; congruence|]. rewrite <- Ecols in *.
  set (m := lmax (map absmax cols)).
  rewrite filter_filter.
  set (g := fun cc : list Z * Z => (m <? 1000000 * absmax (fst cc)) && negb (snd cc =? -1)).
  rewrite (filter_positions g (combine cols chans) ([], 0)).
  assert (Hk : filter (fun i => g (nth i (combine cols chans) ([], 0))) (seq 0 (length (combine cols chans)))
               = kept_positions cols chans).
  { unfold kept_positions. rewrite combine_length, <- Elen, Nat.min_id. apply filter_ext_in.
    intros i Hi. rewrite combine_nth by exact Elen. reflexivity. }
  rewrite Hk. set (kept := kept_positions cols chans) in *.
  assert (Hsnd : map snd (map (fun i => nth i (combine cols chans) ([], 0)) kept) = map (fun i => nth i chans 0) kept).
  { rewrite map_map. apply map_ext. intros i. now rewrite combine_nth by exact Elen. }
  rewrite Hsnd.
  assert (forallb (chan_ok (length (d_pos d))) (map (fun i => nth i chans 0) kept) = true) as ->.
  { apply forallb_forall. intros c Hc. apply in_map_iff in Hc. destruct Hc as (i & <- & Hi).
    specialize (Hok i Hi). unfold chan_ok. lia. }
  cbn [negb].
  match goal with |- exists rec, match map ptp ?t with _ => _ end = _ => destruct (map ptp t) as [|a0 ar] eqn:Eamp end.
  - exfalso. apply (f_equal (@length Z)) in Eamp. rewrite map_length in Eamp.
    destruct (r_unwhiten r); rewrite !map_length in Eamp; destruct kept; cbn in Eamp; congruence.
  - eauto.
Qed.
End Oracle.
