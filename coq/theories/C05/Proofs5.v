(* C05/Proofs5.v -- on tie-free inputs the record does not depend on the argsort oracle: a sorting permutation of
   pairwise distinct keys is unique.  (This is what licenses comparing the implementation with the model run under
   one particular oracle when the comparator finds no ties.) *)
From Coq Require Import ZArith List Bool Arith Lia Permutation.
From PV Require Import C05.Model C05.Spec C05.Proofs.
Import ListNotations.
Open Scope Z_scope.

Fixpoint increasing (l : list Z) : Prop :=
  match l with
  | x :: r => (forall y, In y r -> x < y) /\ increasing r
  | [] => True
  end.

Lemma increasing_unique k1 : forall k2, increasing k1 -> increasing k2 -> (forall x, In x k1 <-> In x k2) -> k1 = k2.
Proof.
  induction k1 as [|x r IH]; intros [|y s] H1 H2 Hin.
  - reflexivity.
  - exfalso. apply (Hin y). now left.
  - exfalso. apply (Hin x). now left.
  - destruct H1 as [Hx Hr], H2 as [Hy Hs].
    assert (x = y).
    { destruct (proj1 (Hin x) (or_introl eq_refl)) as [E|Hxs]; [congruence|].
      destruct (proj2 (Hin y) (or_introl eq_refl)) as [E|Hyr]; [congruence|].
      specialize (Hx y Hyr). specialize (Hy x Hxs). lia. }
    subst y. f_equal. apply IH; try assumption. intros z. split; intros Hz.
    + destruct (proj1 (Hin z) (or_intror Hz)) as [E|H]; [|assumption]. subst z. specialize (Hx x Hz). lia.
    + destruct (proj2 (Hin z) (or_intror Hz)) as [E|H]; [|assumption]. subst z. specialize (Hy x Hz). lia.
Qed.

Lemma increasing_idx l : NoDup l ->
  (forall i j, (i <= j < length l)%nat -> nth i l 0 <= nth j l 0) -> increasing l.
Proof.
  induction l as [|x r IH]; intros Hnd H; [exact I|]. inversion Hnd; subst. split.
  - intros y Hy. destruct (In_nth _ _ 0 Hy) as (j & Hj & <-).
    specialize (H 0%nat (S j)). cbn [nth length] in H. specialize (H ltac:(lia)).
    assert (x <> nth j r 0) by (intros E; apply H2; rewrite E; now apply nth_In). lia.
  - apply IH; [assumption|]. intros i j Hij. apply (H (S i) (S j)). cbn [length]. lia.
Qed.

Lemma NoDup_map_on {A B} (f : A -> B) l :
  NoDup l -> (forall x y, In x l -> In y l -> f x = f y -> x = y) -> NoDup (map f l).
Proof.
  induction 1 as [|x r Hx Hn IH]; intros Hinj; cbn [map]; constructor.
  - intros Hin. apply in_map_iff in Hin. destruct Hin as (y & E & Hy).
    assert (y = x) by (apply Hinj; [now right|now left|assumption]). now subst.
  - apply IH. intros a b Ha Hb. apply Hinj; now right.
Qed.
Lemma map_inj_on {A B} (f : A -> B) l1 : forall l2,
  (forall x y, In x l1 -> In y l2 -> f x = f y -> x = y) -> map f l1 = map f l2 -> l1 = l2.
Proof.
  induction l1 as [|x r IH]; intros [|y s] Hinj E; cbn [map] in E; try discriminate; [reflexivity|].
  injection E as E1 E2. f_equal.
  - apply Hinj; [now left|now left|assumption].
  - apply IH; [|assumption]. intros a b Ha Hb. apply Hinj; now right.
Qed.

Theorem argsort_unique a1 a2 l : Argsort_ok a1 -> Argsort_ok a2 -> NoDup l -> a1 l = a2 l.
Proof.
  intros A1 A2 Hnd.
  assert (Hk : forall a, Argsort_ok a -> increasing (map (fun k => nth k l 0) (a l)) /\
                         (forall x, In x (map (fun k => nth k l 0) (a l)) <-> In x l) /\
                         (forall k, In k (a l) -> (k < length l)%nat)).
  { intros a A. pose proof (as_perm a A l) as Hp.
    assert (Hg : Permutation (map (fun k => nth k l 0) (a l)) l) by (now apply gather_perm).
    split; [|split].
    - apply increasing_idx.
      + apply (Permutation_NoDup (Permutation_sym Hg) Hnd).
      + rewrite map_length, (as_len a A). intros i j Hij.
        rewrite !(nth_map_lt (fun k => nth k l 0) (a l) 0%nat) by (rewrite (as_len a A); lia).
        now apply (as_sorted a A).
    - intros x. split; apply Permutation_in; [assumption|now apply Permutation_sym].
    - intros k. now apply (as_lt a A). }
  destruct (Hk a1 A1) as (I1 & M1 & L1). destruct (Hk a2 A2) as (I2 & M2 & L2).
  apply (map_inj_on (fun k => nth k l 0)).
  - intros x y Hx Hy E. apply (NoDup_nth l 0); auto.
  - apply increasing_unique; try assumption. intros x. now rewrite M1, M2.
Qed.

(* dense path: pairwise distinct distances from every channel and pairwise distinct channel amplitudes make the
   record independent of the oracle *)
Theorem dense_oracle_independent a1 a2 d r :
  Argsort_ok a1 -> Argsort_ok a2 ->
  (forall p0, In p0 (d_pos d) -> NoDup (map (fun p => dist2 p p0) (d_pos d))) ->
  (forall T, dense_full d r = Some T -> NoDup (map ptp T)) ->
  get_template_dense a1 d r = get_template_dense a2 d r.
Proof.
  intros A1 A2 HD HA. unfold get_template_dense. destruct (dense_full d r) as [T|] eqn:ET; [|reflexivity].
  specialize (HA T eq_refl).
  destruct (negb _); [reflexivity|].
  set (t := match r_thr r with Some t => t | None => d_thr d end).
  assert (E : find_best_channels a1 (d_pos d) (d_shanks d) (d_nclosest d) (map ptp T) t =
              find_best_channels a2 (d_pos d) (d_shanks d) (d_nclosest d) (map ptp T) t); [|now rewrite E].
  unfold find_best_channels. set (amp := map ptp T) in *. destruct amp as [|a0 ar] eqn:Eamp; [reflexivity|].
  rewrite <- Eamp in *. clear Eamp.
  assert (Ec : closest a1 (d_pos d) (argmax_first amp) (d_nclosest d) = closest a2 (d_pos d) (argmax_first amp) (d_nclosest d)).
  { unfold closest. destruct (nth_error (d_pos d) (argmax_first amp)) as [p0|] eqn:Ep; [|reflexivity].
    rewrite (argsort_unique a1 a2 _ A1 A2 (HD p0 (nth_error_In _ _ Ep))). reflexivity. }
  rewrite Ec. destruct (closest a2 (d_pos d) (argmax_first amp) (d_nclosest d)) as [close|]; [|reflexivity].
  match goal with |- context [a1 ?k] => assert (Hk : NoDup k) end.
  { apply NoDup_map_on; [apply intersect1d_NoDup|].
    intros x y Hx Hy E. apply intersect1d_In in Hx, Hy. destruct Hx as [Hx _], Hy as [Hy _].
    apply filter_In in Hx, Hy. destruct Hx as [Hx _], Hy as [Hy _]. apply in_seq in Hx, Hy.
    apply (NoDup_nth amp 0); auto; lia. }
  rewrite (argsort_unique a1 a2 _ A1 A2 Hk). reflexivity.
Qed.

(* sparse path: pairwise distinct amplitudes of the kept columns suffice *)
Theorem sparse_oracle_independent a1 a2 d table r :
  Argsort_ok a1 -> Argsort_ok a2 ->
  (forall rec, get_template_sparse a1 d table r = Some rec -> NoDup (t_amplitude rec)) ->
  get_template_sparse a1 d table r = get_template_sparse a2 d table r.
Proof.
  intros A1 A2 H. unfold get_template_sparse in *.
  destruct (nth_error (d_templates d) (r_tid r)) as [cols|]; [|reflexivity].
  destruct (nth_error table (r_tid r)) as [chans|]; [|reflexivity].
  destruct (negb (Nat.eqb (length cols) (length chans))); [reflexivity|].
  destruct cols as [|c0 cr]; [reflexivity|].
  destruct (negb _); [reflexivity|].
  match goal with |- match ?a with _ => _ end = _ => destruct a as [|x0 xr] eqn:Eamp end; [reflexivity|].
  rewrite <- Eamp in *.
  match goal with |- context [a1 ?k] => assert (Hk : NoDup k) end.
  { specialize (H _ eq_refl). cbn [t_amplitude] in H.
    match type of H with NoDup (map _ (rev (a1 ?k))) => set (K := k) in * end.
    assert (Hp : Permutation (map (fun k => nth k K 0) (rev (a1 K))) K).
    { apply gather_perm. now apply rev_as_perm. }
    apply (Permutation_NoDup Hp H). }
  rewrite (argsort_unique a1 a2 _ A1 A2 Hk). reflexivity.
Qed.
