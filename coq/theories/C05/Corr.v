(* C05/Corr.v -- comparator for get_template, evaluated by vm_compute on generated case files.
   codes: 1  observed differs from the model on a determined observable (best_channel always; the channel
             set when no distance tie straddles the neighbourhood boundary; everything when moreover the
             amplitudes of the listed channels are pairwise distinct; the loaded inverse whitening matrix)
          3  input outside the stated regime (harness bug)
          21 C05_dense_channels  listed channels <> nearest /\ shank /\ threshold (or <> the explicit list)
          22 C05_dense_aligned   a column / amplitude entry does not belong to its listed channel
          23 C05_sorted          not distinct / not non-increasing / peak channel not listed, not maximal, not first
          24 C05_sparse_channels listed channels <> stored channels minus -1 and signal-free ones
          25 C05_sparse_aligned  26 C05_sparse_sorted
          27 a derived accessor (get_template_channels / get_template_waveforms / get_cluster_channels)
             violates the clause it inherits
   The model is run with a stable argsort; NumPy's default argsort is not stable, so on inputs with ties
   the observed record is judged by the relational checkers of Spec.v only. *)
From Coq Require Import ZArith List Bool Arith.
From PV Require Export Base.NpSort C05.Model C05.Spec.
Import ListNotations.
Open Scope Z_scope.

(* RTouch op: a call of ANOTHER read-only accessor of the same model object (or the caller writing into the arrays of a
   record it was handed) placed between the requests -- the history axis.  The model is a function of the stored
   dataset and of the request alone: a touch has no observable of its own and, per check_all below, the records of the
   requests after it are judged against the SAME stored dataset as those before it. *)
Inductive reqk := RGet (r : request) | RAcc (tid : nat) | RClu (cid : Z) | RTouch (op : Z).
Inductive obs1 :=
| OTouch          (* a touch was performed (whether it returned or raised is not an observable of this property) *)
| ORec (tpl : list (list Z)) (amp : list Z) (bc : Z) (chans : list Z)
| OAcc (chans : list Z) (wave : list (list Z))
| OClu (chans : list Z)
| OBad            (* a returned value is not an integer / not a rectangular array: cannot be the model's *)
| OCrash.
Record inp := mkinp { i_ds : dataset; i_st : list nat; i_sc : list Z; i_reqs : list reqk }.
Inductive input := InGet (i : inp).
Inductive observed := ObsAll (wmi : option (list (list Z))) (l : list obs1) | ObsCrash.
Record case := { cid : Z; cin : input; cobs : observed }.

Definition sa : list Z -> list nat := stable_argsort.
Definition flag (code : Z) (ok : bool) : list Z := if ok then [] else [code].

(* ---- regime --------------------------------------------------------------------------------------------- *)
Definition absle (b : Z) (x : Z) : bool := Z.abs x <=? b.
Definition is_pow2 (q : Z) : bool := (0 <? q) && (q =? 2 ^ Z.log2 q).
Definition thr_ok (t : thr) : bool := is_pow2 (tq t) && (0 <=? tp t) && (tp t <=? 1024 * tq t).
Definition pos_eqb (a b : pos) : bool := (px a =? px b) && (py a =? py b).
Fixpoint pos_distinct (l : list pos) : bool :=
  match l with [] => true | p :: r => negb (existsb (pos_eqb p) r) && pos_distinct r end.
(* nodupZ_b and nearest_determined (the tie tests below) are defined in Spec.v: C05_*_tie_test_sufficient are about them *)
Definition rect (ncols ns : nat) (cols : list (list Z)) : bool :=
  Nat.eqb (length cols) ncols && forallb (fun c => Nat.eqb (length c) ns) cols.

Definition margin_ok (cols : list (list Z)) : bool :=
  let m := lmax (map absmax cols) in
  forallb (fun c => let a := 1000000 * absmax c in
                    (m =? 0) || (a * 1000 <? m * 999) || (m * 1001 <? a * 1000)) cols.

Definition ds_ok (d : dataset) : bool :=
  let nc := length (d_pos d) in
  (2 <=? nc)%nat && pos_distinct (d_pos d) &&
  forallb (fun p => absle (2 ^ 20) (px p) && absle (2 ^ 20) (py p)) (d_pos d) &&
  Nat.eqb (length (d_shanks d)) nc && (0 <=? d_nclosest d) && thr_ok (d_thr d) &&
  rect nc nc (d_wmi d) && forallb (forallb (absle (2 ^ 10))) (d_wmi d) && absle 64 (d_scale d) &&
  (2 <=? length (d_templates d))%nat &&
  match d_templates d with
  | (c0 :: _) :: _ =>
      let ns := length c0 in
      (2 <=? ns)%nat &&
      forallb (fun cols => forallb (fun c => Nat.eqb (length c) ns && forallb (absle (2 ^ 23)) c) cols) (d_templates d) &&
      match d_cols d with
      | None => forallb (fun cols => Nat.eqb (length cols) nc) (d_templates d)
      | Some table =>
          Nat.eqb (length table) (length (d_templates d)) &&
          forallb (fun tc => Nat.eqb (length (fst tc)) (length (snd tc)) && (2 <=? length (snd tc))%nat &&
                             forallb (fun c => (-1 <=? c) && (c <? Z.of_nat nc)) (snd tc) &&
                             nodupZ_b (filter (fun c => negb (c =? -1)) (snd tc)) &&
                             margin_ok (fst tc))
                  (combine (d_templates d) table)
      end
  | _ => false
  end.

Definition req_ok (d : dataset) (i : inp) (q : reqk) : bool :=
  let nt := length (d_templates d) in
  match q with
  | RGet r => (r_tid r <? nt)%nat &&
              match r_chans r with Some l => forallb (fun c => (0 <=? c) && (c <? 65536)) l | None => true end &&
              match r_thr r with Some t => thr_ok t | None => true end
  | RAcc tid => (tid <? nt)%nat
  | RClu _ => true
  | RTouch _ => true
  end.
Definition inp_ok (i : inp) : bool :=
  ds_ok (i_ds i) && forallb (req_ok (i_ds i) i) (i_reqs i) &&
  Nat.eqb (length (i_st i)) (length (i_sc i)) &&
  forallb (fun t => (t <? length (d_templates (i_ds i)))%nat) (i_st i).
(* every value of the returned / intermediate template is exactly representable in float32 *)
Definition small (T : list (list Z)) : bool := forallb (forallb (absle (2 ^ 24 - 1))) T.

(* ---- observed records ------------------------------------------------------------------------------------ *)
(* (bounded: a wrapped uint32 such as 4294967295 must not be turned into a unary nat) *)
Definition to_nats (l : list Z) : option (list nat) :=
  if forallb (fun c => (0 <=? c) && (c <? 65536)) l then Some (map Z.to_nat l) else None.
Definition mkobs (tpl : list (list Z)) (amp : list Z) (bc : Z) (chans : list Z) : option trec :=
  match to_nats chans with
  | Some cs => if (0 <=? bc) && (bc <? 65536) then Some (mkrec tpl amp (Z.to_nat bc) cs) else None
  | None => None
  end.
Definition rec_eqb (a b : trec) : bool :=
  zll_eqb (t_template a) (t_template b) && zl_eqb (t_amplitude a) (t_amplitude b) &&
  Nat.eqb (t_best a) (t_best b) && nl_eqb (t_channels a) (t_channels b).
Definition set_eqb (a b : trec) : bool :=
  Nat.eqb (t_best a) (t_best b) && nl_eqb (usort (t_channels a)) (usort (t_channels b)).

Definition the_thr (d : dataset) (r : request) : thr := match r_thr r with Some t => t | None => d_thr d end.

(* codes for one observed record of a dense request *)
Definition judge_dense (d : dataset) (r : request) (T : list (list Z)) (m o : trec) : list Z :=
  match r_chans r with
  | None =>
      let c21 := (t_best o <? length (d_pos d))%nat &&
                 dense_channels_b (d_pos d) (d_shanks d) (d_nclosest d) (the_thr d r) T (t_best o) (t_channels o) in
      let c22 := aligned_b T o in
      let c23 := sorted_b T o in
      let c1 := if nearest_determined (d_pos d) (t_best m) (d_nclosest d)
                then (if nodupZ_b (t_amplitude m) then rec_eqb m o else set_eqb m o)
                else Nat.eqb (t_best m) (t_best o) in
      flag 1 c1 ++ flag 21 c21 ++ flag 22 c22 ++ flag 23 c23
  | Some l =>
      let c21 := nl_eqb (t_channels o) (map Z.to_nat l) in
      let c22 := aligned_b T o in
      let c23 := peak_b T (t_best o) in
      flag 1 (rec_eqb m o) ++ flag 21 c21 ++ flag 22 c22 ++ flag 23 c23
  end.

Definition judge_sparse (d : dataset) (r : request) (cols : list (list Z)) (chans : list Z) (m o : trec) : list Z :=
  let c24 := sparse_channels_b cols chans o in
  let c25 := sparse_aligned_b (d_wmi d) (d_scale d) cols chans (r_unwhiten r) o in
  let c26 := sparse_sorted_b o in
  let c1 := if nodupZ_b (t_amplitude m) then rec_eqb m o else set_eqb m o in
  flag 1 c1 ++ flag 24 c24 ++ flag 25 c25 ++ flag 26 c26.

Definition all_clauses (d : dataset) : list Z :=
  match d_cols d with None => [1; 21; 22; 23] | Some _ => [1; 24; 25; 26] end.

(* judge the observed record o (None = crash, Some None = malformed) of request r *)
Definition judge (d : dataset) (r : request) (o : option (option trec)) : list Z :=
  let mo := get_template sa d r in
  match mo, o with
  | None, None => []                                            (* the model raises, and so does the code *)
  | Some _, None | Some _, Some None => all_clauses d
  | None, Some None => [1]
  | _, Some (Some o) =>
      (* a record where the model raises is a mismatch; its clauses are still judged against the input *)
      let m := match mo with Some m => m | None => o end in
      flag 1 (match mo with Some _ => true | None => false end) ++
      match d_cols d with
      | None =>
          match dense_full d r with
          | Some T => if small T then judge_dense d r T m o else [3]
          | None => []
          end
      | Some table =>
          match nth_error (d_templates d) (r_tid r), nth_error table (r_tid r) with
          | Some cols, Some chans => if small (t_template m) then judge_sparse d r cols chans m o else [3]
          | _, _ => []
          end
      end
  end.

Definition as27 (codes : list Z) : list Z :=
  flag 1 (negb (existsb (Z.eqb 1) codes)) ++ flag 3 (negb (existsb (Z.eqb 3) codes)) ++
  flag 27 (negb (existsb (fun c => 20 <? c) codes)).

Definition check1 (i : inp) (q : reqk) (o : obs1) : list Z :=
  let d := i_ds i in
  match q with
  | RTouch _ => match o with OTouch => [] | _ => [3] end
  | RGet r =>
      judge d r (match o with
                 | ORec tpl amp bc chans => Some (mkobs tpl amp bc chans)
                 | OCrash => None
                 | _ => Some None
                 end)
  | RAcc tid =>
      let r := default_request tid in
      as27 (judge d r (match o, get_template sa d r with
                       | OAcc chans wave, Some m => Some (mkobs wave (map ptp wave) (Z.of_nat (t_best m)) chans)
                       | OAcc _ _, None => Some None
                       | OCrash, _ => None
                       | _, _ => Some None
                       end))
  | RClu c =>
      match main_template (i_st i) (i_sc i) c with
      | None => match o with OCrash => [] | _ => [1] end
      | Some tid =>
          let r := default_request tid in
          as27 (judge d r (match o, get_template sa d r with
                           | OClu chans, Some m =>
                               match to_nats chans with
                               | Some cs =>
                                   (* rebuild the record the accessor's channel list stands for *)
                                   match d_cols d with
                                   | None => match dense_full d r with
                                             | Some T => let tpl := map (fun c => nth c T []) cs in
                                                         Some (Some (mkrec tpl (map ptp tpl) (t_best m) cs))
                                             | None => Some None
                                             end
                                   | Some table =>
                                       match nth_error (d_templates d) tid, nth_error table tid with
                                       | Some cols, Some chs =>
                                           match omap (position_of chs (kept_positions cols chs)) cs with
                                           | Some sigma => let tpl := map (sparse_col (d_wmi d) (d_scale d) cols chs true) sigma in
                                                           Some (Some (mkrec tpl (map ptp tpl) (t_best m) cs))
                                           | None => Some None
                                           end
                                       | _, _ => Some None
                                       end
                                   end
                               | None => Some None
                               end
                           | OClu _, None => Some None
                           | OCrash, _ => None
                           | _, _ => Some None
                           end))
      end
  end.

Fixpoint check_all (i : inp) (qs : list reqk) (os : list obs1) : list Z :=
  match qs, os with
  | [], [] => []
  | q :: qs', o :: os' => check1 i q o ++ check_all i qs' os'
  | _, _ => [3]
  end.

Fixpoint dedupe (l : list Z) : list Z :=
  match l with [] => [] | x :: r => if existsb (Z.eqb x) r then dedupe r else x :: dedupe r end.

Definition check (c : case) : list Z :=
  match cin c with InGet i =>
  if negb (inp_ok i) then [3] else
  match cobs c with
  | ObsCrash => all_clauses (i_ds i)
  | ObsAll wmi os =>
      dedupe (flag 1 (match wmi with Some w => zll_eqb w (d_wmi (i_ds i)) | None => false end) ++
              check_all i (i_reqs i) os)
  end end.

Definition run (cases : list case) : list (Z * Z) :=
  flat_map (fun c => map (fun code => (cid c, code)) (check c)) cases.
