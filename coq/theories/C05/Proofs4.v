(* C05/Proofs4.v -- the relational checker of the listed channel set is sound: if dense_channels_b accepts an
   observed channel list then it IS (set of the n nearest) /\ (same shank) /\ (reaches the threshold) for some
   admissible choice among equidistant channels. *)
From Coq Require Import ZArith List Bool Arith Lia Permutation.
From PV Require Import C05.Model C05.Spec C05.Proofs.
Import ListNotations.
Open Scope Z_scope.

Lemma NoDup_app_intro {A} (l1 l2 : list A) :
  NoDup l1 -> NoDup l2 -> (forall x, In x l1 -> ~ In x l2) -> NoDup (l1 ++ l2).
Proof.
  induction l1 as [|x r IH]; intros H1 H2 Hd; [exact H2|]. cbn [app]. inversion H1; subst. constructor.
  - rewrite in_app_iff. intros [H|H]; [contradiction|]. apply (Hd x); [now left|assumption].
  - apply IH; try assumption. intros y Hy. apply Hd. now right.
Qed.
Lemma firstn_incl {A} (l : list A) n x : In x (firstn n l) -> In x l.
Proof.
  revert n; induction l as [|y r IH]; intros [|n]; cbn [firstn In]; try tauto. intros [H|H]; [now left|right; eauto].
Qed.
Lemma NoDup_firstn' {A} (l : list A) n : NoDup l -> NoDup (firstn n l).
Proof.
  revert n; induction l as [|y r IH]; intros [|n] H; cbn [firstn]; try constructor; inversion H; subst.
  - intros Hin. apply firstn_incl in Hin. contradiction.
  - now apply IH.
Qed.

Theorem dense_channels_b_sound P shanks n t T b ids :
  dense_channels_b P shanks n t T b ids = true -> Dense_channels P shanks n t T b ids.
Proof.
  unfold dense_channels_b, Dense_channels. cbv zeta.
  set (nc := length P). set (all := seq 0 nc). set (dist := chan_dist P b).
  set (F := fun c => (nth c shanks 0 =? nth b shanks 0) && (tp t * amp_of T b <=? tq t * amp_of T c)).
  set (k := if n =? 0 then Z.of_nat nc else Z.min n (Z.of_nat nc)).
  assert (HF : forall c, F c = true <-> nth c shanks 0 = nth b shanks 0 /\ tp t * amp_of T b <= tq t * amp_of T c).
  { intros c. unfold F. now rewrite andb_true_iff, Z.eqb_eq, Z.leb_le. }
  assert (Hall : forall c, In c all <-> (c < nc)%nat) by (intros c; unfold all; rewrite in_seq; lia).
  rewrite andb_true_iff. intros [Hlt Hrest]. rewrite forallb_forall in Hlt.
  assert (Hids : forall c, In c ids -> In c all).
  { intros c Hc. apply Hall. specialize (Hlt c Hc). now apply Nat.ltb_lt in Hlt. }
  destruct (k =? Z.of_nat nc) eqn:Ek.
  - (* every channel is among the nearest *)
    apply Z.eqb_eq in Ek. rewrite forallb_forall in Hrest.
    assert (Hrest' : forall c, In c all -> Bool.eqb (memb c ids) (F c) = true) by exact Hrest.
    clear Hrest. rename Hrest' into Hrest. exists all. split.
    + unfold Nearest. fold nc. repeat split.
      * apply seq_NoDup.
      * intros c Hc. now apply Hall.
      * unfold all. rewrite seq_length. unfold k in Ek. destruct (n =? 0); [reflexivity|]. lia.
      * intros a c _ Hc Hnot. exfalso. apply Hnot. now apply Hall.
    + intros c. rewrite <- HF. split.
      * intros Hc. split; [now apply Hids|]. specialize (Hrest c (Hids c Hc)).
        apply memb_In in Hc. rewrite Hc in Hrest. now apply eqb_prop in Hrest.
      * intros [Hc HFc]. specialize (Hrest c Hc). rewrite HFc in Hrest.
        apply memb_In. destruct (memb c ids); [reflexivity|discriminate].
  - apply Z.eqb_neq in Ek.
    destruct (find _ all) as [cstar|] eqn:Efind.
    2:{ (* no boundary distance: impossible for a neighbourhood size in (0, nc) *)
        rewrite andb_true_iff in Hrest. destruct Hrest as [Hk0 Hnil]. apply Z.eqb_eq in Hk0.
        exfalso. unfold k in Ek, Hk0. destruct (n =? 0) eqn:En; [lia|]. apply Z.eqb_neq in En. lia. }
    apply find_some in Efind. destruct Efind as [Hcs Hb]. rewrite andb_true_iff in Hb. destruct Hb as [Hb1 Hb2].
    set (ds := dist cstar) in *.
    set (LT := filter (fun a => dist a <? ds) all).
    set (tie := filter (fun a => dist a =? ds) all).
    set (TI := filter (fun a => memb a ids) tie).
    set (TNF := filter (fun a => negb (F a)) tie).
    set (need := k - countb (fun a => dist a <? ds) all) in *.
    set (s := countb (fun a => memb a ids) tie) in *.
    rewrite !andb_true_iff in Hrest. destruct Hrest as [[Hper0 Hs1] Hs2]. rewrite forallb_forall in Hper0.
    assert (Hper : forall c, In c all ->
              (if dist c <? ds then Bool.eqb (memb c ids) (F c)
               else if ds <? dist c then negb (memb c ids) else implb (memb c ids) (F c)) = true) by exact Hper0.
    clear Hper0.
    apply Z.leb_le in Hs1, Hs2. apply Z.ltb_lt in Hb1. apply Z.leb_le in Hb2.
    assert (HLTlen : Z.of_nat (length LT) = k - need) by (unfold need, countb, LT; lia).
    assert (HTIlen : Z.of_nat (length TI) = s) by reflexivity.
    assert (HTNFlen : need - s <= Z.of_nat (length TNF)) by exact Hs2.
    assert (Hsn : s <= need) by exact Hs1.
    assert (Hlt_k : Z.of_nat (length LT) < k) by exact Hb1.
    assert (Hs0 : 0 <= s) by (unfold s, countb; lia).
    set (X := firstn (Z.to_nat (need - s)) TNF).
    assert (HXlen : Z.of_nat (length X) = need - s).
    { unfold X. rewrite firstn_length. lia. }
    assert (HinLT : forall c, In c LT <-> In c all /\ dist c < ds).
    { intros c. unfold LT. now rewrite filter_In, Z.ltb_lt. }
    assert (Hintie : forall c, In c tie <-> In c all /\ dist c = ds).
    { intros c. unfold tie. now rewrite filter_In, Z.eqb_eq. }
    assert (HinTI : forall c, In c TI <-> In c all /\ dist c = ds /\ In c ids).
    { intros c. unfold TI. rewrite filter_In, Hintie, memb_In. tauto. }
    assert (HinX : forall c, In c X -> In c all /\ dist c = ds /\ F c = false).
    { intros c Hc. apply firstn_incl in Hc. unfold TNF in Hc. rewrite filter_In, Hintie, negb_true_iff in Hc. tauto. }
    assert (HNDall : NoDup all) by apply seq_NoDup.
    exists (LT ++ TI ++ X). split.
    + unfold Nearest. fold nc. repeat split.
      * apply NoDup_app_intro; [apply NoDup_filter, HNDall| |].
        -- apply NoDup_app_intro; [apply NoDup_filter, NoDup_filter, HNDall|apply NoDup_firstn', NoDup_filter, NoDup_filter, HNDall|].
           intros x Hx Hx'. apply HinTI in Hx. apply HinX in Hx'. destruct Hx as (Hxa & _ & Hxi). destruct Hx' as (_ & _ & HFx).
           specialize (Hper x Hxa). apply memb_In in Hxi. rewrite Hxi in Hper.
           destruct (dist x <? ds); [apply eqb_prop in Hper; congruence|].
           destruct (ds <? dist x); [discriminate|]. cbn [implb] in Hper. congruence.
        -- intros x Hx Hx'. apply HinLT in Hx. rewrite in_app_iff in Hx'. destruct Hx' as [Hx'|Hx'].
           ++ apply HinTI in Hx'. lia.
           ++ apply HinX in Hx'. lia.
      * intros c Hc. rewrite !in_app_iff in Hc. apply Hall. destruct Hc as [Hc|[Hc|Hc]].
        -- now apply HinLT in Hc.
        -- now apply HinTI in Hc.
        -- now apply HinX in Hc.
      * rewrite !app_length. unfold k in *. destruct (n =? 0) eqn:En; [lia|]. lia.
      * intros a c Ha Hc Hnot. fold (dist a) (dist c).
        assert (Hale : dist a <= ds).
        { rewrite !in_app_iff in Ha. destruct Ha as [Ha|[Ha|Ha]].
          - apply HinLT in Ha. lia.
          - apply HinTI in Ha. lia.
          - apply HinX in Ha. lia. }
        destruct (Z.lt_ge_cases (dist c) ds) as [Hcl|Hcg]; [|lia].
        exfalso. apply Hnot. rewrite in_app_iff. left. apply HinLT. split; [now apply Hall|assumption].
    + intros c. rewrite <- HF, !in_app_iff. split.
      * intros Hc. pose proof (Hids c Hc) as Hca. specialize (Hper c Hca).
        pose proof (proj2 (memb_In c ids) Hc) as Hm. rewrite Hm in Hper.
        destruct (dist c <? ds) eqn:E1.
        -- apply eqb_prop in Hper. split; [left; apply HinLT; split; [assumption|now apply Z.ltb_lt]|congruence].
        -- destruct (ds <? dist c) eqn:E2; [discriminate|]. cbn [implb] in Hper.
           apply Z.ltb_ge in E1, E2. split; [right; left; apply HinTI; repeat split; try assumption; lia|assumption].
      * intros [[Hc|[Hc|Hc]] HFc].
        -- apply HinLT in Hc. destruct Hc as [Hca Hcd]. specialize (Hper c Hca).
           apply Z.ltb_lt in Hcd. rewrite Hcd, HFc in Hper. apply memb_In. destruct (memb c ids); [reflexivity|discriminate].
        -- now apply HinTI in Hc.
        -- apply HinX in Hc. destruct Hc as (_ & _ & Hc). congruence.
Qed.

(* ---- sparse checkers ------------------------------------------------------------------------------------------ *)
Lemma kept_NoDup cols chans : NoDup (kept_positions cols chans).
Proof. unfold kept_positions. apply NoDup_filter, seq_NoDup. Qed.

Theorem sparse_channels_b_sound cols chans r :
  sparse_channels_b cols chans r = true -> exists sigma, sparse_sigma cols chans r = Some sigma /\ Sparse_channels cols chans sigma r.
Proof.
  unfold sparse_channels_b. destruct (sparse_sigma cols chans r) as [sigma|]; [|discriminate].
  cbv zeta. rewrite !andb_true_iff, Nat.eqb_eq, forallb_forall, nl_eqb_eq. intros [[[H1 H2] H3] H4].
  exists sigma. split; [reflexivity|]. split; [|exact H4].
  apply NoDup_Permutation_bis.
  - now apply nodup_b_spec.
  - lia.
  - intros i Hi. apply memb_In. now apply H3.
Qed.

Theorem sparse_aligned_b_sound W sc cols chans unw r :
  sparse_aligned_b W sc cols chans unw r = true ->
  exists sigma, sparse_sigma cols chans r = Some sigma /\ Sparse_aligned W sc cols chans unw sigma r.
Proof.
  unfold sparse_aligned_b. destruct (sparse_sigma cols chans r) as [sigma|]; [|discriminate].
  rewrite andb_true_iff, zll_eqb_eq, zl_eqb_eq. intros [H1 H2]. exists sigma. split; [reflexivity|]. now split.
Qed.

Lemma index_of_nat_spec x l j : index_of_nat x l = Some j -> (j < length l)%nat /\ nth j l 0%nat = x.
Proof.
  revert j; induction l as [|y r IH]; intros j; cbn [index_of_nat]; [discriminate|].
  destruct (Nat.eqb x y) eqn:E.
  - intros H; injection H as <-. apply Nat.eqb_eq in E. cbn [length nth]. split; [lia|congruence].
  - destruct (index_of_nat x r) as [k|]; [|discriminate]. cbn [option_map]. intros H; injection H as <-.
    destruct (IH k eq_refl) as [H1 H2]. cbn [length nth]. split; [lia|assumption].
Qed.

Theorem sparse_sorted_b_sound cols chans r : sparse_sorted_b r = true -> Sparse_sorted cols chans r.
Proof.
  unfold sparse_sorted_b, Sparse_sorted. rewrite !andb_true_iff. intros [[[H1 H2] H3] H4].
  split; [now apply nonincreasing_b_spec|]. split; [|split].
  - destruct (index_of_nat (t_best r) (t_channels r)) as [j|] eqn:Ej; [|discriminate].
    destruct (index_of_nat_spec _ _ _ Ej) as [Hj1 Hj2]. exists j. repeat split; try assumption.
    intros a Ha. rewrite forallb_forall in H3. now apply Z.leb_le, H3.
  - intros a0 Ha0 a Ha. destruct (t_amplitude r) as [|x l]; [discriminate|]. injection Ha0 as <-.
    rewrite forallb_forall in H4. now apply Z.leb_le, H4.
  - intros _. now apply nodup_b_spec.
Qed.
