(* C05/Proofs8.v -- completeness of the boolean checkers: every record that satisfies a declarative clause of Spec.v is
   accepted by the corresponding checker (with Proofs.v / Proofs4.v: the checkers DECIDE the clauses).  In particular
   the relational judgement of the listed channel set accepts every admissible choice among equidistant channels. *)
From Coq Require Import ZArith List Bool Arith Lia Permutation.
From PV Require Import C05.Model C05.Spec C05.Proofs C05.Proofs4.
Import ListNotations.
Open Scope Z_scope.

Lemma nodup_b_complete l : NoDup l -> nodup_b l = true.
Proof.
  induction 1 as [|x r Hx Hn IH]; cbn [nodup_b]; [reflexivity|]. rewrite IH, andb_true_r, negb_true_iff.
  destruct (memb x r) eqn:E; [|reflexivity]. apply memb_In in E. contradiction.
Qed.
Lemma peak_b_complete T b : Peak T b -> peak_b T b = true.
Proof.
  unfold Peak, peak_b. intros [H1 H2]. rewrite andb_true_iff, Nat.ltb_lt, forallb_forall. split; [assumption|].
  intros c Hc. apply in_seq in Hc. apply Z.leb_le, H2. lia.
Qed.

Theorem aligned_b_complete T r : Aligned T r -> aligned_b T r = true.
Proof.
  unfold aligned_b, Aligned. intros (H1 & H2 & H3). rewrite !andb_true_iff, !Nat.eqb_eq, forallb_forall.
  split; [split; assumption|]. intros j Hj. apply in_seq in Hj. destruct (H3 j ltac:(lia)) as (Ha & Hb & Hc).
  rewrite !andb_true_iff, Nat.ltb_lt, zl_eqb_eq, Z.eqb_eq. tauto.
Qed.

Theorem sorted_b_complete T r : Sorted_rec T r -> sorted_b T r = true.
Proof.
  unfold Sorted_rec, sorted_b. intros (H1 & H2 & H3 & H4 & H5). rewrite !andb_true_iff.
  split; [split; [split; [split|]|]|].
  - now apply nodup_b_complete.
  - now apply nonincreasing_b_spec.
  - now apply memb_In.
  - now apply peak_b_complete.
  - destruct (t_channels r) as [|c0 rest]; [reflexivity|]. apply Z.eqb_eq. now apply H5.
Qed.

(* ---- the relational judgement of the listed channel set ---------------------------------------------------------- *)
Lemma filter_len_split {A} (f : A -> bool) l :
  length l = (length (filter f l) + length (filter (fun x => negb (f x)) l))%nat.
Proof. induction l as [|x r IH]; [reflexivity|]. cbn [filter]. destruct (f x); cbn [negb length]; lia. Qed.

Lemma max_elt (f : nat -> Z) l : l <> [] -> exists x, In x l /\ forall y, In y l -> f y <= f x.
Proof.
  induction l as [|a r IH]; [congruence|]. intros _. destruct r as [|b r'].
  - exists a. split; [now left|]. intros y [<-|[]]. lia.
  - destruct (IH ltac:(discriminate)) as (x & Hx & Hmax). destruct (Z.le_gt_cases (f a) (f x)).
    + exists x. split; [now right|]. intros y [<-|Hy]; [assumption|now apply Hmax].
    + exists a. split; [now left|]. intros y [<-|Hy]; [lia|]. specialize (Hmax y Hy). lia.
Qed.

Theorem dense_channels_b_complete P shanks n t T b ids : 0 <= n ->
  Dense_channels P shanks n t T b ids -> dense_channels_b P shanks n t T b ids = true.
Proof.
  intros Hn (N & HN & Hids). unfold dense_channels_b. cbv zeta.
  set (nc := length P). set (all := seq 0 nc). set (dist := chan_dist P b).
  set (F := fun c => (nth c shanks 0 =? nth b shanks 0) && (tp t * amp_of T b <=? tq t * amp_of T c)).
  set (k := if n =? 0 then Z.of_nat nc else Z.min n (Z.of_nat nc)).
  assert (HF : forall c, F c = true <-> nth c shanks 0 = nth b shanks 0 /\ tp t * amp_of T b <= tq t * amp_of T c).
  { intros c. unfold F. now rewrite andb_true_iff, Z.eqb_eq, Z.leb_le. }
  assert (Hall : forall c, In c all <-> (c < nc)%nat) by (intros c; unfold all; rewrite in_seq; lia).
  assert (Hids' : forall c, In c ids <-> In c N /\ F c = true).
  { intros c. rewrite HF. apply Hids. }
  destruct HN as (Hnd & Hlt & Hlen & Hfar). fold nc in Hlt, Hlen.
  assert (HNall : incl N all) by (intros x Hx; apply Hall; now apply Hlt).
  assert (Hmemb : forall c, In c N -> memb c ids = F c).
  { intros c Hc. destruct (F c) eqn:E.
    - apply memb_In, Hids'. now split.
    - destruct (memb c ids) eqn:Em; [|reflexivity]. apply memb_In, Hids' in Em. destruct Em; congruence. }
  assert (Hnmemb : forall c, ~ In c N -> memb c ids = false).
  { intros c Hc. destruct (memb c ids) eqn:Em; [|reflexivity]. apply memb_In, Hids' in Em. tauto. }
  rewrite andb_true_iff. split.
  { apply forallb_forall. intros c Hc. apply Nat.ltb_lt. apply Hids' in Hc. now apply Hlt. }
  assert (HlenN : Z.of_nat (length N) = k).
  { rewrite Hlen. unfold k. destruct (n =? 0) eqn:E; [reflexivity|]. apply Z.eqb_neq in E. lia. }
  destruct (k =? Z.of_nat nc) eqn:Ek.
  - apply Z.eqb_eq in Ek.
    assert (HallN : incl all N).
    { apply (NoDup_length_incl Hnd); [unfold all; rewrite seq_length; lia|exact HNall]. }
    apply forallb_forall. intros c Hc. apply Bool.eqb_true_iff. apply Hmemb. now apply HallN.
  - apply Z.eqb_neq in Ek.
    assert (Hkpos : 0 < k < Z.of_nat nc).
    { unfold k in *. destruct (n =? 0) eqn:E; [lia|]. apply Z.eqb_neq in E. lia. }
    set (pred := fun c => (countb (fun a => dist a <? dist c) all <? k) && (k <=? countb (fun a => dist a <=? dist c) all)).
    (* what a boundary channel knows of N *)
    assert (Hbound : forall cs, In cs all -> pred cs = true ->
               (forall a, In a all -> dist a < dist cs -> In a N) /\ (forall a, In a N -> dist a <= dist cs)).
    { intros cs Hcs Hp. unfold pred in Hp. rewrite andb_true_iff, Z.ltb_lt, Z.leb_le in Hp. destruct Hp as [Hp1 Hp2].
      unfold countb in Hp1, Hp2. split.
      - intros a Ha Hda. destruct (in_dec Nat.eq_dec a N) as [|Hnot]; [assumption|]. exfalso.
        assert (Hincl : incl N (filter (fun x => dist x <? dist cs) all)).
        { intros x Hx. apply filter_In. split; [now apply HNall|]. apply Z.ltb_lt.
          specialize (Hfar x a Hx (proj1 (Hall a) Ha) Hnot). change (dist x <= dist a) in Hfar. lia. }
        pose proof (NoDup_incl_length Hnd Hincl). lia.
      - intros a Ha. destruct (Z.le_gt_cases (dist a) (dist cs)) as [|Hgt]; [assumption|]. exfalso.
        assert (Hincl : incl (a :: filter (fun x => dist x <=? dist cs) all) N).
        { intros x [<-|Hx]; [assumption|]. apply filter_In in Hx. destruct Hx as [Hx1 Hx2]. apply Z.leb_le in Hx2.
          destruct (in_dec Nat.eq_dec x N) as [|Hnot]; [assumption|]. exfalso.
          specialize (Hfar a x Ha (proj1 (Hall x) Hx1) Hnot). change (dist a <= dist x) in Hfar. lia. }
        assert (Hnd2 : NoDup (a :: filter (fun x => dist x <=? dist cs) all)).
        { constructor; [|apply NoDup_filter, seq_NoDup]. intros Hin. apply filter_In in Hin. destruct Hin as [_ Hin].
          apply Z.leb_le in Hin. lia. }
        pose proof (NoDup_incl_length Hnd2 Hincl) as Hl. cbn [length] in Hl. lia. }
    (* a boundary channel exists: a farthest member of N *)
    assert (Hex : exists cs, In cs all /\ pred cs = true).
    { assert (HNne : N <> []) by (intros E; rewrite E in HlenN; cbn in HlenN; lia).
      destruct (max_elt dist N HNne) as (cs & Hcs & Hmax). exists cs. split; [now apply HNall|].
      unfold pred. rewrite andb_true_iff, Z.ltb_lt, Z.leb_le. unfold countb. split.
      - assert (Hincl : incl (cs :: filter (fun a => dist a <? dist cs) all) N).
        { intros x [<-|Hx]; [assumption|]. apply filter_In in Hx. destruct Hx as [Hx1 Hx2]. apply Z.ltb_lt in Hx2.
          destruct (in_dec Nat.eq_dec x N) as [|Hnot]; [assumption|]. exfalso.
          specialize (Hfar cs x Hcs (proj1 (Hall x) Hx1) Hnot). change (dist cs <= dist x) in Hfar. lia. }
        assert (Hnd2 : NoDup (cs :: filter (fun a => dist a <? dist cs) all)).
        { constructor; [|apply NoDup_filter, seq_NoDup]. intros Hin. apply filter_In in Hin. destruct Hin as [_ Hin].
          apply Z.ltb_lt in Hin. lia. }
        pose proof (NoDup_incl_length Hnd2 Hincl) as Hl. cbn [length] in Hl. lia.
      - assert (Hincl : incl N (filter (fun a => dist a <=? dist cs) all)).
        { intros x Hx. apply filter_In. split; [now apply HNall|]. apply Z.leb_le. now apply Hmax. }
        pose proof (NoDup_incl_length Hnd Hincl). lia. }
    destruct Hex as (cs0 & Hcs0 & Hp0).
    destruct (find _ all) as [cstar|] eqn:Efind.
    2:{ exfalso. pose proof (find_none _ _ Efind cs0 Hcs0) as Hno. change (pred cs0 = false) in Hno. congruence. }
    apply find_some in Efind. destruct Efind as [Hcs Hpc]. change (pred cstar = true) in Hpc.
    destruct (Hbound cstar Hcs Hpc) as [Hin_lt Hle_N].
    set (ds := dist cstar) in *.
    set (LT := filter (fun a => dist a <? ds) all).
    set (tie := filter (fun a => dist a =? ds) all).
    set (TI := filter (fun a => memb a ids) tie).
    set (TNF := filter (fun a => negb (F a)) tie).
    set (NL := filter (fun a => dist a <? ds) N).
    set (NT := filter (fun a => negb (dist a <? ds)) N).
    assert (HNsplit : length N = (length NL + length NT)%nat) by apply filter_len_split.
    assert (HNL1 : (length NL <= length LT)%nat).
    { apply NoDup_incl_length; [apply NoDup_filter, Hnd|]. intros x Hx. apply filter_In in Hx. destruct Hx as [Hx1 Hx2].
      apply filter_In. split; [now apply HNall|assumption]. }
    assert (HNL2 : (length LT <= length NL)%nat).
    { apply NoDup_incl_length; [apply NoDup_filter, seq_NoDup|]. intros x Hx. apply filter_In in Hx. destruct Hx as [Hx1 Hx2].
      apply filter_In. split; [|assumption]. apply Hin_lt; [assumption|now apply Z.ltb_lt]. }
    assert (HinNT : forall x, In x NT <-> In x N /\ dist x = ds).
    { intros x. unfold NT. rewrite filter_In, negb_true_iff, Z.ltb_ge. split.
      - intros [H1 H2]. split; [assumption|]. specialize (Hle_N x H1). lia.
      - intros [H1 H2]. split; [assumption|lia]. }
    assert (Hintie : forall x, In x tie <-> In x all /\ dist x = ds).
    { intros x. unfold tie. now rewrite filter_In, Z.eqb_eq. }
    assert (HTI : (length TI <= length NT)%nat).
    { apply NoDup_incl_length; [apply NoDup_filter, NoDup_filter, seq_NoDup|]. intros x Hx. apply filter_In in Hx.
      destruct Hx as [Hx1 Hx2]. apply Hintie in Hx1. apply memb_In, Hids' in Hx2. apply HinNT. tauto. }
    set (NTF := filter F NT). set (NTnF := filter (fun a => negb (F a)) NT).
    assert (HNTsplit : length NT = (length NTF + length NTnF)%nat) by apply filter_len_split.
    assert (HNTF : (length NTF <= length TI)%nat).
    { apply NoDup_incl_length; [apply NoDup_filter, NoDup_filter, Hnd|]. intros x Hx. apply filter_In in Hx.
      destruct Hx as [Hx1 Hx2]. apply HinNT in Hx1. destruct Hx1 as [Hx1 Hx3]. apply filter_In. split.
      - apply Hintie. split; [now apply HNall|assumption].
      - apply memb_In, Hids'. now split. }
    assert (HNTnF : (length NTnF <= length TNF)%nat).
    { apply NoDup_incl_length; [apply NoDup_filter, NoDup_filter, Hnd|]. intros x Hx. apply filter_In in Hx.
      destruct Hx as [Hx1 Hx2]. apply HinNT in Hx1. destruct Hx1 as [Hx1 Hx3]. apply filter_In. split; [|assumption].
      apply Hintie. split; [now apply HNall|assumption]. }
    rewrite !andb_true_iff. split; [split|].
    + apply forallb_forall. intros c Hc. cbv beta.
      destruct (dist c <? ds) eqn:E1.
      * apply Z.ltb_lt in E1. apply Bool.eqb_true_iff, Hmemb, Hin_lt; assumption.
      * destruct (ds <? dist c) eqn:E2.
        -- apply Z.ltb_lt in E2. rewrite Hnmemb; [reflexivity|]. intros HcN. specialize (Hle_N c HcN). lia.
        -- destruct (memb c ids) eqn:Em; [|reflexivity]. cbn [implb]. apply memb_In, Hids' in Em. tauto.
    + apply Z.leb_le. unfold countb. change (Z.of_nat (length TI) <= k - Z.of_nat (length LT)). lia.
    + apply Z.leb_le. unfold countb.
      change (k - Z.of_nat (length LT) - Z.of_nat (length TI) <= Z.of_nat (length TNF)). lia.
Qed.

(* ---- sparse checkers (the stored, used, signal-carrying channels of a row are pairwise distinct in the regime) ---- *)
Lemma index_of_map_inj (f : nat -> nat) l i : NoDup (map f l) -> In i l ->
  exists j, index_of_nat (f i) (map f l) = Some j /\ nth j l 0%nat = i.
Proof.
  induction l as [|y r IH]; intros Hnd Hin; [contradiction|]. cbn [map index_of_nat]. cbn [map] in Hnd.
  inversion Hnd as [|? ? Hny Hnr]; subst.
  destruct (Nat.eqb (f i) (f y)) eqn:E.
  - exists 0%nat. split; [reflexivity|]. cbn [nth]. apply Nat.eqb_eq in E. destruct Hin as [->|Hin]; [reflexivity|].
    exfalso. apply Hny. rewrite <- E. now apply in_map.
  - destruct Hin as [->|Hin]; [rewrite Nat.eqb_refl in E; discriminate|].
    destruct (IH Hnr Hin) as (j & Hj & Hnth). exists (S j). rewrite Hj. split; [reflexivity|exact Hnth].
Qed.

Lemma index_of_nth l : NoDup l -> forall j, (j < length l)%nat -> index_of_nat (nth j l 0%nat) l = Some j.
Proof.
  induction l as [|y r IH]; intros Hnd j Hj; [cbn in Hj; lia|]. inversion Hnd as [|? ? Hny Hnr]; subst.
  cbn [index_of_nat]. destruct j as [|j'].
  - cbn [nth]. now rewrite Nat.eqb_refl.
  - cbn [nth]. cbn [length] in Hj. destruct (Nat.eqb (nth j' r 0%nat) y) eqn:E.
    + apply Nat.eqb_eq in E. exfalso. apply Hny. rewrite <- E. apply nth_In. lia.
    + rewrite (IH Hnr j' ltac:(lia)). reflexivity.
Qed.

Lemma sparse_sigma_complete cols chans sigma r : NoDup (map (chan_at chans) (kept_positions cols chans)) ->
  Sparse_channels cols chans sigma r -> sparse_sigma cols chans r = Some sigma.
Proof.
  intros Hinj [Hp Hch]. unfold sparse_sigma. rewrite Hch.
  assert (H : forall i, In i sigma -> position_of chans (kept_positions cols chans) (chan_at chans i) = Some i).
  { intros i Hi. apply (Permutation_in _ Hp) in Hi. unfold position_of.
    destruct (index_of_map_inj (chan_at chans) _ i Hinj Hi) as (j & -> & Hn). cbn [option_map]. now rewrite Hn. }
  clear Hp Hch. induction sigma as [|i s IH]; [reflexivity|]. cbn [map omap].
  rewrite (H i (or_introl eq_refl)), IH; [reflexivity|]. intros j Hj. apply H. now right.
Qed.

Theorem sparse_channels_b_complete cols chans sigma r : NoDup (map (chan_at chans) (kept_positions cols chans)) ->
  Sparse_channels cols chans sigma r -> sparse_channels_b cols chans r = true.
Proof.
  intros Hinj HS. unfold sparse_channels_b. rewrite (sparse_sigma_complete _ _ _ _ Hinj HS). destruct HS as [Hp Hch].
  cbv zeta. rewrite !andb_true_iff. split; [split; [split|]|].
  - apply nodup_b_complete. apply (Permutation_NoDup (Permutation_sym Hp)), kept_NoDup.
  - apply Nat.eqb_eq. now apply Permutation_length.
  - apply forallb_forall. intros i Hi. apply memb_In. now apply (Permutation_in _ Hp).
  - now apply nl_eqb_eq.
Qed.

Theorem sparse_aligned_b_complete W sc cols chans unw sigma r :
  NoDup (map (chan_at chans) (kept_positions cols chans)) ->
  Sparse_channels cols chans sigma r -> Sparse_aligned W sc cols chans unw sigma r ->
  sparse_aligned_b W sc cols chans unw r = true.
Proof.
  intros Hinj HS [H1 H2]. unfold sparse_aligned_b. rewrite (sparse_sigma_complete _ _ _ _ Hinj HS).
  rewrite andb_true_iff, zll_eqb_eq, zl_eqb_eq. now split.
Qed.

Theorem sparse_sorted_b_complete cols chans r : NoDup (map (chan_at chans) (kept_positions cols chans)) ->
  Sparse_sorted cols chans r -> sparse_sorted_b r = true.
Proof.
  intros Hinj (H1 & (j & Hj & Hb & Hmax) & H3 & H4). specialize (H4 Hinj). unfold sparse_sorted_b.
  rewrite !andb_true_iff. split; [split; [split|]|].
  - now apply nonincreasing_b_spec.
  - now apply nodup_b_complete.
  - rewrite <- Hb, (index_of_nth _ H4 j Hj). apply forallb_forall. intros a Ha. apply Z.leb_le. now apply Hmax.
  - destruct (t_amplitude r) as [|a0 rest] eqn:E; [reflexivity|]. apply forallb_forall. intros a Ha.
    apply Z.leb_le. now apply (H3 a0).
Qed.
