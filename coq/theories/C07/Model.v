(* C07/Model.v -- executable model of phylib's spike-cluster index utilities.  No proofs here.
   phylib/io/array.py: _spikes_per_cluster, _spikes_in_clusters, _unique, _index_of,
                       _flatten_per_cluster, grouped_mean
   phylib/io/model.py: TemplateModel.get_cluster_spikes / get_template_spikes / get_template_counts

   Conventions.  Cluster ids, spike ids and data values are Z (no wrap-around is modelled: the
   theorems show that the only subtraction taken, np.diff of the sorted ids, is of sorted neighbours
   and hence non-negative; unsigned dtypes are exercised by the correspondence).  Positions inside an
   array are nat.  Wherever NumPy raises (IndexError, ValueError, AssertionError) the model returns
   None; no [nth _ _ default] is used anywhere. *)
From Coq Require Import ZArith List Lia Bool Arith.
From PV Require Import Base.NpSort.
Import ListNotations.
Open Scope Z_scope.

(* ---------- NumPy primitives used by the helpers ---------- *)

(* np.arange(n) *)
Definition arange (n : nat) : list Z := map Z.of_nat (seq 0 n).

Section Gen.
Context {A : Type}.

(* a[idx] for an index array of non-negative positions; None = IndexError *)
Fixpoint gather (l : list A) (idx : list nat) : option (list A) :=
  match idx with
  | [] => Some []
  | i :: r => match nth_error l i, gather l r with
              | Some x, Some t => Some (x :: t)
              | _, _ => None
              end
  end.

(* a[i] with Python's negative indexing; None = IndexError *)
Definition py_get (l : list A) (i : Z) : option A :=
  let n := Z.of_nat (length l) in
  if (0 <=? i) && (i <? n) then nth_error l (Z.to_nat i)
  else if (- n <=? i) && (i <? 0) then nth_error l (Z.to_nat (i + n))
  else None.

(* a[idx] for an integer index array with Python's negative indexing *)
Fixpoint py_gather (l : list A) (idx : list Z) : option (list A) :=
  match idx with
  | [] => Some []
  | i :: r => match py_get l i, py_gather l r with
              | Some x, Some t => Some (x :: t)
              | _, _ => None
              end
  end.

Fixpoint set_nth (l : list A) (i : nat) (v : A) : option (list A) :=
  match l, i with
  | [], _ => None
  | _ :: r, O => Some (v :: r)
  | x :: r, S k => option_map (cons x) (set_nth r k v)
  end.

(* a[i] = v with Python's negative indexing; None = IndexError *)
Definition py_set (l : list A) (i : Z) (v : A) : option (list A) :=
  let n := Z.of_nat (length l) in
  if (0 <=? i) && (i <? n) then set_nth l (Z.to_nat i) v
  else if (- n <=? i) && (i <? 0) then set_nth l (Z.to_nat (i + n)) v
  else None.

(* a[idx] = vals, performed left to right (the last write to a cell wins) *)
Fixpoint py_scatter (l : list A) (writes : list (Z * A)) : option (list A) :=
  match writes with
  | [] => Some l
  | w :: r => match py_set l (fst w) (snd w) with
              | Some l' => py_scatter l' r
              | None => None
              end
  end.

(* a[i:j] and a[i:] for 0 <= i, j *)
Definition slice_nat (l : list A) (i j : nat) : list A := firstn (j - i) (skipn i l).
Definition slice_from (l : list A) (i : nat) : list A := skipn i l.
End Gen.

(* np.nonzero(mask)[0] *)
Fixpoint nonzero_from (i : nat) (m : list bool) : list nat :=
  match m with
  | [] => []
  | b :: r => if b then i :: nonzero_from (S i) r else nonzero_from (S i) r
  end.
Definition nonzero (m : list bool) : list nat := nonzero_from 0 m.

(* np.diff(l), given the element preceding l *)
Fixpoint diff_from (prev : Z) (l : list Z) : list Z :=
  match l with [] => [] | x :: r => (x - prev) :: diff_from x r end.
(* diff = np.empty_like(l); diff[0] = 1; diff[1:] = np.diff(l) *)
Definition first_diff (l : list Z) : list Z :=
  match l with [] => [] | x :: r => 1 :: diff_from x r end.

(* t[i] += v ; None = index out of bounds *)
Fixpoint add_nth (t : list Z) (i : nat) (v : Z) : option (list Z) :=
  match t, i with
  | [], _ => None
  | x :: r, O => Some ((x + v) :: r)
  | x :: r, S k => option_map (cons x) (add_nth r k v)
  end.

(* np.add.at(t, idx, w): unbuffered, one addition per (index, weight) pair *)
Fixpoint add_at (t : list Z) (iw : list (Z * Z)) : option (list Z) :=
  match iw with
  | [] => Some t
  | p :: r => if fst p <? 0 then None else
              match add_nth t (Z.to_nat (fst p)) (snd p) with
              | Some t' => add_at t' r
              | None => None
              end
  end.

(* length of np.bincount(x, minlength=ml): max(max(x) + 1, ml), ml for empty x *)
Definition bc_len (x : list Z) (ml : Z) : Z :=
  match x with [] => Z.max 0 ml | y :: r => Z.max (fold_right Z.max y r + 1) ml end.

(* np.bincount(x, weights=w, minlength=ml); None = ValueError (negative element) *)
Definition bincount_w (x w : list Z) (ml : Z) : option (list Z) :=
  if forallb (fun v => 0 <=? v) x
  then add_at (repeat 0 (Z.to_nat (bc_len x ml))) (combine x w)
  else None.
Definition bincount (x : list Z) (ml : Z) : option (list Z) :=
  bincount_w x (repeat 1 (length x)) ml.

(* np.sort and np.unique of an integer array *)
Definition np_sort (l : list Z) : list Z := map fst (isort (map (fun x => (x, tt)) l)).
Fixpoint dedup_sorted (l : list Z) : list Z :=
  match l with
  | [] => []
  | x :: r => match r with
              | [] => [x]
              | y :: _ => if x =? y then dedup_sorted r else x :: dedup_sorted r
              end
  end.
Definition np_unique (l : list Z) : list Z := dedup_sorted (np_sort l).

(* np.isin(x, cl) for one element *)
Definition isin (cl : list Z) (x : Z) : bool := existsb (Z.eqb x) cl.

(* ---------- _spikes_per_cluster ---------- *)
Record group := mkg { g_key : Z; g_ids : list Z }.

(* d[k] = v on an insertion-ordered dict *)
Fixpoint dict_set (d : list group) (k : Z) (v : list Z) : list group :=
  match d with
  | [] => [mkg k v]
  | e :: r => if g_key e =? k then mkg k v :: r else e :: dict_set r k v
  end.

(* {clusters[i]: abs[idx[i]:idx[i+1]] for i in range(len(clusters) - 1)} followed by
   d[clusters[-1]] = abs[idx[-1]:]  (clusters and idx have the same length) *)
Fixpoint spc_dict (clusters : list Z) (idx : list nat) (abs : list Z) (d : list group) : list group :=
  match clusters, idx with
  | c :: cr, a :: ir =>
      match ir with
      | [] => dict_set d c (slice_from abs a)
      | b :: _ => spc_dict cr ir abs (dict_set d c (slice_nat abs a b))
      end
  | _, _ => d
  end.

Definition spikes_per_cluster (sc : list Z) (spike_ids : option (list Z)) : option (list group) :=
  match sc with
  | [] => Some []                                            (* return {} *)
  | _ :: _ =>
      let ids := match spike_ids with Some l => l | None => arange (length sc) end in
      let rel := stable_argsort sc in                        (* np.argsort(kind='mergesort') *)
      match gather ids rel, gather sc rel with               (* spike_ids[rel], spike_clusters[rel] *)
      | Some abs, Some scs =>
          let idx := nonzero (map (fun d => 0 <? d) (first_diff scs)) in
          match gather scs idx with
          | Some clusters =>
              match clusters with
              | [] => None                                   (* clusters[-1]: IndexError *)
              | _ :: _ => Some (spc_dict clusters idx abs [])
              end
          | None => None
          end
      | _, _ => None                                         (* IndexError *)
      end
  end.

(* ---------- _spikes_in_clusters ---------- *)
Definition sic_pos (sc cl : list Z) : list nat :=
  match sc, cl with
  | [], _ => []
  | _, [] => []
  | _, _ => nonzero (map (isin cl) sc)
  end.
Definition spikes_in_clusters (sc cl : list Z) : list Z := map Z.of_nat (sic_pos sc cl).

(* ---------- _unique ---------- *)
Definition unique (x : list Z) : option (list Z) :=
  match x with
  | [] => Some []
  | _ :: _ =>
      match bincount (filter (fun v => 0 <=? v) x) 0 with
      | Some bc => Some (map Z.of_nat (nonzero (map (fun c => negb (c =? 0)) bc)))
      | None => None
      end
  end.

(* ---------- _index_of ---------- *)
Definition index_of (arr lookup : list Z) : option (list Z) :=
  let m := match lookup with [] => 0 | x :: r => fold_right Z.max x r end + 1 in
  if m + 1 <? 0 then None else                               (* np.zeros(negative): ValueError *)
  match py_set (repeat 0 (Z.to_nat (m + 1))) (-1) (-1) with  (* tmp[-1] = -1 *)
  | None => None
  | Some tmp =>
      match py_scatter tmp (combine lookup (arange (length lookup))) with   (* tmp[lookup] = arange *)
      | None => None
      | Some tmp' => py_gather tmp' arr                      (* tmp[arr] *)
      end
  end.

(* ---------- _flatten_per_cluster ---------- *)
Definition flatten_per_cluster (d : list group) : option (list Z) :=
  match d with
  | [] => None                                               (* np.concatenate([]): ValueError *)
  | _ :: _ => Some (np_unique (concat (map g_ids d)))
  end.

(* ---------- grouped_mean ---------- *)
(* the two exact operands of the final floating-point division t / spike_counts *)
Record gm := mkgm { gm_sum : Z; gm_cnt : Z }.

Definition grouped_mean (arr sc : list Z) : option (list gm) :=
  if negb (length arr =? length sc)%nat then None else       (* assert arr.shape[0] == len(sc) *)
  match unique sc with
  | None => None
  | Some ids =>
      match index_of sc ids with
      | None => None
      | Some rel =>
          match bincount rel 0 with
          | None => None
          | Some counts =>
              if negb (length counts =? length ids)%nat then None else      (* assert *)
              match add_at (repeat 0 (length ids)) (combine rel arr) with
              | None => None
              | Some t => Some (map (fun p => mkgm (fst p) (snd p)) (combine t counts))
              end
          end
      end
  end.

(* ---------- TemplateModel queries ---------- *)
Definition get_cluster_spikes (spike_clusters : list Z) (c : Z) : list Z :=
  spikes_in_clusters spike_clusters [c].
Definition get_template_spikes (spike_templates : list Z) (t : Z) : list Z :=
  spikes_in_clusters spike_templates [t].
Definition get_template_counts (spike_clusters spike_templates : list Z) (n_templates c : Z)
  : option (list Z) :=
  match gather spike_templates (sic_pos spike_clusters [c]) with     (* spike_templates[spike_ids] *)
  | None => None
  | Some st => bincount st n_templates
  end.

(* ---------- stage 3: the integer dtype made explicit ---------- *)
(* An integer dtype is its value range [dt_lo, dt_hi]: [0, 2^w - 1] (unsigned) or
   [-2^(w-1), 2^(w-1) - 1] (signed).  NumPy integer arithmetic inside one dtype is modular:
   the exact result is reduced into the range modulo dt_hi - dt_lo + 1. *)
Record dtype := mkdt { dt_lo : Z; dt_hi : Z }.
Definition dt_mod (dt : dtype) : Z := dt_hi dt - dt_lo dt + 1.
Definition wrap (dt : dtype) (x : Z) : Z := dt_lo dt + (x - dt_lo dt) mod dt_mod dt.

Definition uint8 := mkdt 0 255.
Definition int8 := mkdt (-128) 127.
Definition uint16 := mkdt 0 65535.
Definition uint32 := mkdt 0 4294967295.
Definition int32 := mkdt (-2147483648) 2147483647.
Definition int64 := mkdt (-9223372036854775808) 9223372036854775807.

(* np.diff(l) computed in the dtype of l *)
Fixpoint diff_from_dt (dt : dtype) (prev : Z) (l : list Z) : list Z :=
  match l with [] => [] | x :: r => wrap dt (x - prev) :: diff_from_dt dt x r end.
(* diff = np.empty_like(l); diff[0] = 1; diff[1:] = np.diff(l) : every cell has the dtype of l *)
Definition first_diff_dt (dt : dtype) (l : list Z) : list Z :=
  match l with [] => [] | x :: r => wrap dt 1 :: diff_from_dt dt x r end.

(* _spikes_per_cluster on a spike_clusters array of dtype dt: the same lines as spikes_per_cluster,
   with the one arithmetic operation on ids (the first difference) taken in the dtype *)
Definition spikes_per_cluster_dt (dt : dtype) (sc : list Z) (spike_ids : option (list Z))
  : option (list group) :=
  match sc with
  | [] => Some []
  | _ :: _ =>
      let ids := match spike_ids with Some l => l | None => arange (length sc) end in
      let rel := stable_argsort sc in
      match gather ids rel, gather sc rel with
      | Some abs, Some scs =>
          let idx := nonzero (map (fun d => 0 <? d) (first_diff_dt dt scs)) in
          match gather scs idx with
          | Some clusters =>
              match clusters with
              | [] => None
              | _ :: _ => Some (spc_dict clusters idx abs [])
              end
          | None => None
          end
      | _, _ => None
      end
  end.

(* _index_of with the table size computed as the code does: lookup is cast to int32 (dt = int32), so
   m = lookup.max() + 1 and m + 1 are int32 scalar additions (they wrap, with a RuntimeWarning);
   for an empty lookup m = 0 + 1 is a Python int *)
Definition index_of_dt (dt : dtype) (arr lookup : list Z) : option (list Z) :=
  let m := match lookup with [] => 1 | x :: r => wrap dt (fold_right Z.max x r + 1) end in
  let n := match lookup with [] => m + 1 | _ :: _ => wrap dt (m + 1) end in
  if n <? 0 then None else                                   (* np.zeros(negative): ValueError *)
  match py_set (repeat 0 (Z.to_nat n)) (-1) (-1) with        (* tmp[-1] = -1 *)
  | None => None
  | Some tmp =>
      match py_scatter tmp (combine lookup (arange (length lookup))) with
      | None => None
      | Some tmp' => py_gather tmp' arr
      end
  end.
