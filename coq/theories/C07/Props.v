(* C07/Props.v -- the property theorems, and nothing else. *)
From Coq Require Import ZArith List Lia Bool Arith Permutation Sorted.
From PV Require Import Base.NpSort C07.Model C07.Spec C07.Proofs.
Import ListNotations.
Open Scope Z_scope.

(* TemplateModel.get_cluster_spikes / get_template_spikes: the increasing list of the positions
   carrying the requested id (the group of that id; empty when the id is absent) *)
Theorem C07_cluster_spikes : forall (v : list Z) (c : Z),
  get_cluster_spikes v c = members v (arange (length v)) c /\
  get_template_spikes v c = members v (arange (length v)) c.
Proof. intros v c. split; exact (cluster_spikes_members v c). Qed.
Print Assumptions C07_cluster_spikes.
