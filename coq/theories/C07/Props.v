(* C07/Props.v -- the property theorems, and nothing else.  Each is closed by [exact] of a lemma of
   Proofs.v and followed by Print Assumptions.

   Reading.  sc = the cluster-assignment vector; a "group" of id c is
   members sc ids c = [ids[i] | i ascending, sc[i] = c]  (ids = np.arange(len(sc)) unless a spike-id
   vector is supplied, in which case only its first len(sc) entries are used and a shorter vector
   is an IndexError).  All statements are over Z: no dtype wrap-around is modelled (the only
   subtraction of the code, np.diff of the sorted ids, is of sorted neighbours). *)
From Coq Require Import ZArith List Lia Bool Arith Permutation Sorted.
From PV Require Import Base.NpSort C07.Model C07.Spec C07.Proofs.
Import ListNotations.
Open Scope Z_scope.

(* Grouping: for every assignment vector and every (long enough) optional spike-id vector the
   dictionary exists, its keys are exactly the ids present (strictly increasing, so no other and no
   duplicate key), each group is exactly the members of its key in input order; and the groups
   partition the spikes: concatenated they are a permutation of all spike ids, and no id is repeated
   when the spike ids are distinct. *)
Theorem C07_groups : forall (sc : list Z) (spike_ids : option (list Z)),
  (length sc <= length (eff_ids sc spike_ids))%nat ->
  exists d, spikes_per_cluster sc spike_ids = Some d /\ Groups_Spec sc (eff_ids sc spike_ids) d.
Proof. intros sc o H. destruct (spc_groups sc o H) as (d & A & B & _). now exists d. Qed.
Print Assumptions C07_groups.

Theorem C07_partition : forall (sc : list Z) (spike_ids : option (list Z)),
  (length sc <= length (eff_ids sc spike_ids))%nat ->
  exists d, spikes_per_cluster sc spike_ids = Some d /\ Partition_Spec sc (eff_ids sc spike_ids) d.
Proof. intros sc o H. destruct (spc_groups sc o H) as (d & A & _ & B). now exists d. Qed.
Print Assumptions C07_partition.

(* with the default spike ids (positions) the hypothesis is vacuous and every group is the strictly
   increasing list of the positions carrying its id *)
Theorem C07_groups_positions : forall (sc : list Z),
  exists d, spikes_per_cluster sc None = Some d /\ Groups_Spec sc (arange (length sc)) d /\
    Forall (fun g => StronglySorted Z.lt (g_ids g) /\
                     forall i, In i (g_ids g) <-> exists p, i = Z.of_nat p /\ nth_error sc p = Some (g_key g)) d.
Proof. exact spc_positions. Qed.
Print Assumptions C07_groups_positions.

(* the guard of C07_groups is exact: a spike-id vector shorter than sc is an error (IndexError) *)
Theorem C07_groups_short_ids : forall (sc ids : list Z),
  (length ids < length sc)%nat -> spikes_per_cluster sc (Some ids) = None.
Proof. exact spc_short. Qed.
Print Assumptions C07_groups_short_ids.

(* Selection: the spikes of any requested list of clusters (unsorted, with duplicates, with absent
   ids) are the sorted union of the groups of the requested ids -- and that union is unique. *)
Theorem C07_in_clusters : forall (sc cl : list Z) (d : list group),
  spikes_per_cluster sc None = Some d ->
  Union_Spec cl d (spikes_in_clusters sc cl) /\
  forall u, Union_Spec cl d u -> spikes_in_clusters sc cl = u.
Proof. exact in_clusters_thm. Qed.
Print Assumptions C07_in_clusters.

(* TemplateModel.get_cluster_spikes / get_template_spikes: the increasing list of the positions
   carrying the requested id (the group of that id; empty when the id is absent) *)
Theorem C07_cluster_spikes : forall (v : list Z) (c : Z),
  get_cluster_spikes v c = members v (arange (length v)) c /\
  get_template_spikes v c = members v (arange (length v)) c.
Proof. intros v c. split; exact (cluster_spikes_members v c). Qed.
Print Assumptions C07_cluster_spikes.

(* ---- non-vacuity: concrete, non-trivial instances ---- *)
Example C07_ex_groups :
  spikes_per_cluster [7; 0; 3; 3; 0; 7; 2] None =
  Some [mkg 0 [1; 4]; mkg 2 [6]; mkg 3 [2; 3]; mkg 7 [0; 5]].
Proof. vm_compute. reflexivity. Qed.
Example C07_ex_groups_ids :
  spikes_per_cluster [7; 0; 3; 3; 0; 7; 2] (Some [10; 5; 8; 9; 1; 2; 3; 99]) =
  Some [mkg 0 [5; 1]; mkg 2 [3]; mkg 3 [8; 9]; mkg 7 [10; 2]].
Proof. vm_compute. reflexivity. Qed.
Example C07_ex_in_clusters : spikes_in_clusters [7; 0; 3; 3; 0; 7; 2] [9; 3; -1; 0; 3] = [1; 2; 3; 4].
Proof. vm_compute. reflexivity. Qed.
