(* C07/Props.v -- the property theorems, and nothing else.  Each is closed by [exact] of a lemma of
   Proofs.v / Proofs2.v / Proofs3.v and followed by Print Assumptions.

   Reading.  sc = the cluster-assignment vector; a "group" of id c is
   members sc ids c = [ids[i] | i ascending, sc[i] = c]  (ids = np.arange(len(sc)) unless a spike-id
   vector is supplied, in which case only its first len(sc) entries are used and a shorter vector
   is an IndexError).  All statements are over Z: no dtype wrap-around is modelled (the only
   subtraction of the code, np.diff of the sorted ids, is of sorted neighbours). *)
From Coq Require Import ZArith List Lia Bool Arith Permutation Sorted.
From PV Require Import Base.NpSort C07.Model C07.Spec C07.Proofs C07.Proofs2 C07.Proofs3 C07.Proofs4.
Import ListNotations.
Open Scope Z_scope.

(* Grouping: for every assignment vector and every (long enough) optional spike-id vector the
   dictionary exists, its keys are exactly the ids present (strictly increasing, so no other and no
   duplicate key), each group is exactly the members of its key in input order; and the groups
   partition the spikes: concatenated they are a permutation of all spike ids, and no id is repeated
   when the spike ids are distinct. *)
Theorem C07_groups : forall (sc : list Z) (spike_ids : option (list Z)),
  (length sc <= length (eff_ids sc spike_ids))%nat ->
  exists d, spikes_per_cluster sc spike_ids = Some d /\ Groups_Spec sc (eff_ids sc spike_ids) d.
Proof. intros sc o H. destruct (spc_groups sc o H) as (d & A & B & _). now exists d. Qed.
Print Assumptions C07_groups.

Theorem C07_partition : forall (sc : list Z) (spike_ids : option (list Z)),
  (length sc <= length (eff_ids sc spike_ids))%nat ->
  exists d, spikes_per_cluster sc spike_ids = Some d /\ Partition_Spec sc (eff_ids sc spike_ids) d.
Proof. intros sc o H. destruct (spc_groups sc o H) as (d & A & _ & B). now exists d. Qed.
Print Assumptions C07_partition.

(* with the default spike ids (positions) the hypothesis is vacuous and every group is the strictly
   increasing list of the positions carrying its id *)
Theorem C07_groups_positions : forall (sc : list Z),
  exists d, spikes_per_cluster sc None = Some d /\ Groups_Spec sc (arange (length sc)) d /\
    Forall (fun g => StronglySorted Z.lt (g_ids g) /\
                     forall i, In i (g_ids g) <-> exists p, i = Z.of_nat p /\ nth_error sc p = Some (g_key g)) d.
Proof. exact spc_positions. Qed.
Print Assumptions C07_groups_positions.

(* the guard of C07_groups is exact: a spike-id vector shorter than sc is an error (IndexError) *)
Theorem C07_groups_short_ids : forall (sc ids : list Z),
  (length ids < length sc)%nat -> spikes_per_cluster sc (Some ids) = None.
Proof. exact spc_short. Qed.
Print Assumptions C07_groups_short_ids.

(* Selection: the spikes of any requested list of clusters (unsorted, with duplicates, with absent
   ids) are the sorted union of the groups of the requested ids -- and that union is unique. *)
Theorem C07_in_clusters : forall (sc cl : list Z) (d : list group),
  spikes_per_cluster sc None = Some d ->
  Union_Spec cl d (spikes_in_clusters sc cl) /\
  forall u, Union_Spec cl d u -> spikes_in_clusters sc cl = u.
Proof. exact in_clusters_thm. Qed.
Print Assumptions C07_in_clusters.

(* TemplateModel.get_cluster_spikes / get_template_spikes: the increasing list of the positions
   carrying the requested id (the group of that id; empty when the id is absent) *)
Theorem C07_cluster_spikes : forall (v : list Z) (c : Z),
  get_cluster_spikes v c = members v (arange (length v)) c /\
  get_template_spikes v c = members v (arange (length v)) c.
Proof. intros v c. split; exact (cluster_spikes_members v c). Qed.
Print Assumptions C07_cluster_spikes.

(* ---- non-vacuity: concrete, non-trivial instances ---- *)
Example C07_ex_groups :
  spikes_per_cluster [7; 0; 3; 3; 0; 7; 2] None =
  Some [mkg 0 [1; 4]; mkg 2 [6]; mkg 3 [2; 3]; mkg 7 [0; 5]].
Proof. vm_compute. reflexivity. Qed.
Example C07_ex_groups_ids :
  spikes_per_cluster [7; 0; 3; 3; 0; 7; 2] (Some [10; 5; 8; 9; 1; 2; 3; 99]) =
  Some [mkg 0 [5; 1]; mkg 2 [3]; mkg 3 [8; 9]; mkg 7 [10; 2]].
Proof. vm_compute. reflexivity. Qed.
Example C07_ex_in_clusters : spikes_in_clusters [7; 0; 3; 3; 0; 7; 2] [9; 3; -1; 0; 3] = [1; 2; 3; 4].
Proof. vm_compute. reflexivity. Qed.

(* ======================= stage 2: the helpers ======================= *)

(* _unique (bincount / nonzero): for EVERY integer vector the call succeeds and returns the strictly
   increasing list of the distinct ids that are >= 0 -- negative ids ("unclustered") are dropped
   silently, exactly as x[x >= 0] does -- and that list is the only one meeting the definition. *)
Theorem C07_unique : forall (x : list Z),
  exists r, unique x = Some r /\ Unique_Spec x r /\ forall r', Unique_Spec x r' -> r' = r.
Proof. exact unique_thm. Qed.
Print Assumptions C07_unique.

(* _index_of, complete behaviour for a distinct, non-negative, possibly unsorted lookup.  With
   N = max(lookup) + 2 the size of the table (2 for an empty lookup):
   - every queried id in [-N, N) gives a result, described by IndexOf1: a member of the lookup gives
     its position (lookup[k] = x); -1 and max+1 reach the last cell and give -1; any other id in
     range -- a NON-member -- gives 0, i.e. it is silently reported as "position 0"; ids in [-N, -2]
     wrap around (Python negative indexing) and are answered as x + N would be;
   - any queried id outside [-N, N) is an error (IndexError). *)
Theorem C07_index_of_full : forall (arr lookup : list Z),
  NoDup lookup -> Forall (fun v => 0 <= v) lookup ->
  (Forall (fun x => - table_len lookup <= x < table_len lookup) arr ->
     exists r, index_of arr lookup = Some r /\ IndexOf_Full arr lookup r) /\
  (Exists (fun x => x < - table_len lookup \/ table_len lookup <= x) arr -> index_of arr lookup = None).
Proof. exact index_of_full. Qed.
Print Assumptions C07_index_of_full.

(* the stated use: every queried id is a member or -1.  Then lookup[index_of x] = x for the members,
   -1 maps to -1, and the result is the only list with that property. *)
Theorem C07_index_of : forall (arr lookup : list Z),
  NoDup lookup -> Forall (fun v => 0 <= v) lookup -> Forall (fun x => x = -1 \/ In x lookup) arr ->
  exists r, index_of arr lookup = Some r /\ IndexOf_Spec arr lookup r /\
            forall r', IndexOf_Spec arr lookup r' -> r' = r.
Proof. exact index_of_members. Qed.
Print Assumptions C07_index_of.

(* _flatten_per_cluster: for a non-empty dict, the strictly increasing list of the distinct spike ids
   of all groups (the sorted union), unique; np.concatenate of an empty dict is an error. *)
Theorem C07_flatten : forall (d : list group),
  (d <> [] -> exists r, flatten_per_cluster d = Some r /\ Flatten_Spec d r /\
                        forall r', Flatten_Spec d r' -> r' = r) /\
  (d = [] -> flatten_per_cluster d = None).
Proof. exact flatten_thm. Qed.
Print Assumptions C07_flatten.

(* grouped_mean, as the pair of exact operands (sum, count) of its final division: for non-negative
   ids and data of the same length there is one pair per distinct id, ids increasing, with
   sum = the sum of the data over the group of the id, count = the size of the group (> 0);
   the result is the only list meeting the definition. *)
Theorem C07_grouped_mean : forall (arr sc : list Z),
  length arr = length sc -> Forall (fun c => 0 <= c) sc ->
  exists r, grouped_mean arr sc = Some r /\ GMean_Spec arr sc r /\
            forall r', GMean_Spec arr sc r' -> r' = r.
Proof. exact grouped_mean_thm. Qed.
Print Assumptions C07_grouped_mean.

(* the guards of grouped_mean as the code behaves: a length mismatch is an AssertionError; a vector
   containing the "unclustered" id -1 (and nothing below it) is a ValueError from np.bincount --
   the -1 spikes are NOT skipped.  (Ids <= -2 are outside every documented use: _index_of wraps them
   into the table, see C07_ex_grouped_mean_wraps below.) *)
Theorem C07_grouped_mean_guard : forall (arr sc : list Z),
  (length arr <> length sc -> grouped_mean arr sc = None) /\
  (length arr = length sc -> Forall (fun c => -1 <= c) sc -> In (-1) sc -> grouped_mean arr sc = None).
Proof. intros arr sc. split; [apply grouped_mean_len|apply grouped_mean_unclustered]. Qed.
Print Assumptions C07_grouped_mean_guard.

(* get_template_counts: for EVERY cluster id c (present or absent) and 0 <= n_templates, with
   sel = the templates of the spikes of c in spike order: if they are non-negative the result has
   max(max(sel) + 1, n_templates) cells (n_templates cells when c is absent) and cell k is the number
   of spikes of c with template k; a negative template among them is a ValueError. *)
Theorem C07_template_counts : forall (sc st : list Z) (nt c : Z),
  0 <= nt -> (length sc <= length st)%nat ->
  (Forall (fun t => 0 <= t) (members sc st c) ->
     exists r, get_template_counts sc st nt c = Some r /\ Counts_Spec sc st nt c r /\
               forall r', Counts_Spec sc st nt c r' -> r' = r) /\
  (Exists (fun t => t < 0) (members sc st c) -> get_template_counts sc st nt c = None).
Proof. intros sc st nt c _. exact (template_counts_thm sc st nt c). Qed.
Print Assumptions C07_template_counts.

(* the boolean comparator clauses 24-28 that Corr.v evaluates on phylib's outputs imply the
   declarative statements (for clause 27 the comparator compares the observed floats with the
   float64 quotients of gmean_ref, the only list satisfying GMean_Spec) *)
Theorem C07_checker_sound : forall (x arr lookup sc st r : list Z) (d : list group) (nt c : Z) (g : list gm),
  (unique_b x r = true -> Unique_Spec x r) /\
  (indexof_b arr lookup r = true -> IndexOf_Spec arr lookup r) /\
  (flatten_b d r = true -> Flatten_Spec d r) /\
  ((length sc <= length arr)%nat -> gmean_b arr sc g = true -> GMean_Spec arr sc g) /\
  ((length sc <= length arr)%nat -> GMean_Spec arr sc (gmean_ref arr sc) /\
                                    forall g', GMean_Spec arr sc g' -> g' = gmean_ref arr sc) /\
  (counts_b sc st nt c r = true -> Counts_Spec sc st nt c r).
Proof.
  intros. split; [apply unique_b_sound|]. split; [apply indexof_b_sound|]. split; [apply flatten_b_sound|].
  split; [apply gmean_b_sound|]. split; [|apply counts_b_sound].
  intros Hl. split; [now apply gmean_ref_spec|]. intros g'. apply gmean_spec_unique.
Qed.
Print Assumptions C07_checker_sound.

(* _flatten_per_cluster(_spikes_per_cluster(sc, ids)): for a non-empty vector the strictly increasing
   list of the distinct spike ids of ALL spikes (the groups partition them, so nothing is lost);
   for the empty vector the dict is {} and flattening it is an error (np.concatenate of nothing). *)
Theorem C07_flatten_groups : forall (sc : list Z) (spike_ids : option (list Z)),
  (length sc <= length (eff_ids sc spike_ids))%nat ->
  (sc <> [] ->
     exists d r, spikes_per_cluster sc spike_ids = Some d /\ flatten_per_cluster d = Some r /\
       StronglySorted Z.lt r /\ forall i, In i r <-> In i (firstn (length sc) (eff_ids sc spike_ids))) /\
  (sc = [] -> spikes_per_cluster sc spike_ids = Some [] /\ flatten_per_cluster [] = None).
Proof. exact spc_flatten_thm. Qed.
Print Assumptions C07_flatten_groups.

(* the boolean comparator clauses 21, 22, 23, 29 imply the declarative statements of stage 1 *)
Theorem C07_checker_sound_groups : forall (sc ids cl r v : list Z) (d : list group) (c : Z),
  (groups_b sc ids d = true -> Groups_Spec sc ids d) /\
  (partition_b sc ids d = true -> Partition_Spec sc ids d) /\
  (union_b sc cl r = true -> Groups_Spec sc (arange (length sc)) d -> Union_Spec cl d r) /\
  (cluster_spikes_b v c r = true -> r = members v (arange (length v)) c).
Proof.
  intros. split; [apply groups_b_sound|]. split; [apply partition_b_sound|].
  split; [apply union_b_sound|apply cluster_spikes_b_sound].
Qed.
Print Assumptions C07_checker_sound_groups.

(* ---- non-vacuity of the stage-2 theorems ---- *)
Example C07_ex_unique : unique [7; -1; 3; 3; 0; -5; 7] = Some [0; 3; 7] /\ unique [-1; -1] = Some [].
Proof. vm_compute. split; reflexivity. Qed.
(* unsorted lookup; members and -1; then a non-member (0 is returned), max+1 (-1), -2 wrapped to 7 (position 0),
   -9 wrapped to 0 (position 2); out of range *)
Example C07_ex_index_of :
  index_of [7; 0; 3; -1; 2] [7; 3; 0; 2] = Some [0; 2; 1; -1; 3] /\
  index_of [5; 8; -2; -9] [7; 3; 0; 2] = Some [0; -1; 0; 2] /\
  index_of [9] [7; 3; 0; 2] = None /\ index_of [-10] [7; 3; 0; 2] = None /\
  table_len [7; 3; 0; 2] = 9.
Proof. vm_compute. repeat split; reflexivity. Qed.
Example C07_ex_flatten :
  flatten_per_cluster [mkg 0 [5; 1; 5]; mkg 1 [1; 0]] = Some [0; 1; 5] /\ flatten_per_cluster [] = None.
Proof. vm_compute. split; reflexivity. Qed.
Example C07_ex_grouped_mean :
  grouped_mean [1; 2; 3; 4; 5; 6; 8] [7; 0; 3; 3; 0; 7; 2] =
  Some [mkgm 7 2; mkgm 8 1; mkgm 7 2; mkgm 7 2] /\
  gmean_ref [1; 2; 3; 4; 5; 6; 8] [7; 0; 3; 3; 0; 7; 2] = [mkgm 7 2; mkgm 8 1; mkgm 7 2; mkgm 7 2] /\
  grouped_mean [1; 2; 3] [-1; 2; 2] = None /\ grouped_mean [1; 2] [2; 2; 2] = None.
Proof. vm_compute. repeat split; reflexivity. Qed.
(* outside the guard of C07_grouped_mean: an id <= -2 is wrapped by _index_of and its datum is silently
   added to another cluster (here -2 is counted with cluster 3, -3 with cluster 0's cell "position 0") *)
Example C07_ex_grouped_mean_wraps :
  grouped_mean [10; 1; 2] [-2; 3; 3] = Some [mkgm 13 3] /\
  grouped_mean [10; 1; 2] [-3; 0; 3] = Some [mkgm 11 2; mkgm 2 1].
Proof. vm_compute. split; reflexivity. Qed.
Example C07_ex_template_counts :
  get_template_counts [7; 0; 3; 3; 0; 7; 2] [1; 1; 0; 2; 1; 0; 0] 4 3 = Some [1; 0; 1; 0] /\
  get_template_counts [7; 0; 3; 3; 0; 7; 2] [1; 1; 0; 2; 1; 0; 0] 4 5 = Some [0; 0; 0; 0] /\   (* absent cluster *)
  get_template_counts [1; 1] [0; 4] 3 1 = Some [1; 0; 0; 0; 1] /\                              (* template >= n_templates *)
  get_template_counts [1; 1] [0; -4] 3 1 = None.
Proof. vm_compute. repeat split; reflexivity. Qed.
Example C07_ex_checkers :
  unique_b [7; -1; 3; 3; 0] [0; 3; 7] = true /\ unique_b [7; -1; 3; 3; 0] [0; 3] = false /\
  indexof_b [7; -1; 2] [7; 3; 0; 2] [0; -1; 3] = true /\ indexof_b [7; -1; 2] [7; 3; 0; 2] [0; -1; 2] = false /\
  flatten_b [mkg 0 [5; 1; 5]; mkg 1 [1; 0]] [0; 1; 5] = true /\
  gmean_b [1; 2; 4] [1; 1; 1] [mkgm 7 3] = true /\ gmean_b [1; 2; 4] [1; 1; 1] [mkgm 7 2] = false /\
  counts_b [1; 1] [0; 0] 3 1 [2; 0; 0] = true /\ counts_b [1; 1] [0; 0] 3 1 [2] = false.
Proof. vm_compute. repeat split; reflexivity. Qed.
Example C07_ex_flatten_groups :
  (match spikes_per_cluster [7; 0; 3; 3; 0; 7; 2] (Some [10; 5; 8; 9; 1; 2; 3; 99]) with
   | Some d => flatten_per_cluster d | None => None end) = Some [1; 2; 3; 5; 8; 9; 10].
Proof. vm_compute. reflexivity. Qed.
Example C07_ex_checkers_groups :
  groups_b [7; 0; 3; 0] [0; 1; 2; 3] [mkg 0 [1; 3]; mkg 3 [2]; mkg 7 [0]] = true /\
  groups_b [7; 0; 3; 0] [0; 1; 2; 3] [mkg 0 [3; 1]; mkg 3 [2]; mkg 7 [0]] = false /\
  partition_b [7; 0; 3; 0] [0; 1; 2; 3] [mkg 0 [1; 3]; mkg 3 [2]; mkg 7 [0]] = true /\
  partition_b [7; 0; 3; 0] [0; 1; 2; 3] [mkg 0 [1]; mkg 3 [2]; mkg 7 [0]] = false /\
  union_b [7; 0; 3; 0] [9; 0; 7; 0] [0; 1; 3] = true /\ union_b [7; 0; 3; 0] [9; 0; 7; 0] [1; 3] = false /\
  cluster_spikes_b [7; 0; 3; 0] 0 [1; 3] = true.
Proof. vm_compute. repeat split; reflexivity. Qed.

(* ======================= stage 3 ======================= *)

(* "for every integer dtype (signed or unsigned)".  The theorems above are over Z.  The only arithmetic
   the code performs on ids is (1) the first difference of the SORTED ids in _spikes_per_cluster, taken
   in the dtype of spike_clusters, and (2) the table size max + 2 of _index_of, taken in int32.
   spikes_per_cluster_dt / index_of_dt are the same lines with that arithmetic reduced modulo the dtype
   (dt = its value range [dt_lo, dt_hi]; wrap reduces into it).  For a vector whose ids all lie in the
   dtype's range:
   - UNSIGNED dtype (dt_lo = 0), whatever the ids (0 and the top of the range included): no wrap;
   - SIGNED dtype and non-negative ids: no wrap;
   - in general: no wrap as soon as no two ids differ by more than dt_hi;
   and then the dtype-aware function IS the function over Z, so every theorem above holds for it
   verbatim.  (For a signed dtype and ids more than dt_hi apart the difference does wrap and two
   clusters are merged: C07_ex_signed_wrap below; NumPy agrees, corpus cases of kind spc_dt.)
   Likewise the table of _index_of has max + 2 cells whenever max + 2 fits int32; when it does not
   (max = 2^31 - 2 or 2^31 - 1) the wrapped size is negative and the call is an error (ValueError). *)
Theorem C07_no_wrap : forall (dt : dtype) (sc : list Z) (spike_ids : option (list Z)),
  dt_ok dt -> Forall (in_dt dt) sc ->
  (dt_lo dt = 0 \/ Forall (fun c => 0 <= c) sc \/ Span_Fits dt sc) ->
  spikes_per_cluster_dt dt sc spike_ids = spikes_per_cluster sc spike_ids.
Proof. exact spc_no_wrap_thm. Qed.
Print Assumptions C07_no_wrap.

(* hence the grouping / partition statement for the function as it runs on an array of ANY integer
   dtype: unsigned with arbitrary ids, signed with non-negative ids (or ids at most dt_hi apart) *)
Theorem C07_groups_dtype : forall (dt : dtype) (sc : list Z) (spike_ids : option (list Z)),
  dt_ok dt -> Forall (in_dt dt) sc ->
  (dt_lo dt = 0 \/ Forall (fun c => 0 <= c) sc \/ Span_Fits dt sc) ->
  (length sc <= length (eff_ids sc spike_ids))%nat ->
  exists d, spikes_per_cluster_dt dt sc spike_ids = Some d /\
            Groups_Spec sc (eff_ids sc spike_ids) d /\ Partition_Spec sc (eff_ids sc spike_ids) d.
Proof.
  intros dt sc o Hok Hr Hc Hl. rewrite (spc_no_wrap_thm dt sc o Hok Hr Hc). now apply spc_groups.
Qed.
Print Assumptions C07_groups_dtype.

Theorem C07_no_wrap_index_of : forall (dt : dtype) (arr lookup : list Z),
  (dt_ok dt -> dt_lo dt <= lk_max lookup + 1 -> lk_max lookup + 2 <= dt_hi dt ->
     index_of_dt dt arr lookup = index_of arr lookup) /\
  (dt_lo dt = - dt_hi dt - 1 -> 1 <= dt_hi dt -> lookup <> [] ->
     0 <= lk_max lookup <= dt_hi dt -> dt_hi dt < lk_max lookup + 2 -> index_of_dt dt arr lookup = None).
Proof. intros dt arr lookup. split; [apply index_of_no_wrap|apply index_of_overflow]. Qed.
Print Assumptions C07_no_wrap_index_of.

(* the third alternative of C07_no_wrap cannot be dropped: in a signed dtype (range [-hi-1, hi]) two ids
   more than hi apart make the first difference wrap to a negative number; the boundary is lost and
   both spikes are filed under the smaller id, whereas over Z they are two clusters *)
Theorem C07_signed_wrap : forall (dt : dtype) (a b : Z),
  dt_lo dt = - dt_hi dt - 1 -> 1 <= dt_hi dt -> dt_lo dt <= a -> b <= dt_hi dt -> dt_hi dt < b - a ->
  spikes_per_cluster_dt dt [a; b] None = Some [mkg a [0; 1]] /\
  spikes_per_cluster [a; b] None = Some [mkg a [0]; mkg b [1]].
Proof. exact spc_signed_wrap_pair. Qed.
Print Assumptions C07_signed_wrap.

(* get_template_counts when spike_templates is SHORTER than spike_clusters (the case excluded by the
   hypothesis of C07_template_counts): the call behaves as on the truncated spike_clusters -- to which
   C07_template_counts applies -- exactly when no spike of the cluster lies at or beyond
   len(spike_templates); otherwise it is an error (IndexError). *)
Theorem C07_template_counts_short : forall (sc st : list Z) (nt c : Z),
  ((forall p, (length st <= p)%nat -> nth_error sc p <> Some c) ->
      get_template_counts sc st nt c = get_template_counts (firstn (length st) sc) st nt c) /\
  ((exists p, (length st <= p)%nat /\ nth_error sc p = Some c) -> get_template_counts sc st nt c = None).
Proof. exact template_counts_short. Qed.
Print Assumptions C07_template_counts_short.

(* completeness of the boolean comparator clauses: whenever the declarative statement holds the
   checker answers true, so (with C07_checker_sound / C07_checker_sound_groups) each clause 21-29 is
   EQUIVALENT to its statement and can raise no false alarm *)
Theorem C07_checker_complete : forall (x arr lookup sc st r : list Z) (d : list group) (nt c : Z) (g : list gm),
  (Unique_Spec x r -> unique_b x r = true) /\
  (IndexOf_Spec arr lookup r -> indexof_b arr lookup r = true) /\
  (Flatten_Spec d r -> flatten_b d r = true) /\
  (GMean_Spec arr sc g -> gmean_b arr sc g = true) /\
  (Counts_Spec sc st nt c r -> counts_b sc st nt c r = true).
Proof.
  intros. split; [apply unique_b_complete|]. split; [apply indexof_b_complete|]. split; [apply flatten_b_complete|].
  split; [apply gmean_b_complete|apply counts_b_complete].
Qed.
Print Assumptions C07_checker_complete.

Theorem C07_checker_complete_groups : forall (sc ids cl r v : list Z) (d : list group) (c : Z),
  (Groups_Spec sc ids d -> groups_b sc ids d = true) /\
  (Partition_Spec sc ids d -> partition_b sc ids d = true) /\
  (Groups_Spec sc (arange (length sc)) d -> Union_Spec cl d r -> union_b sc cl r = true) /\
  (r = members v (arange (length v)) c -> cluster_spikes_b v c r = true).
Proof.
  intros. split; [apply groups_b_complete|]. split; [apply partition_b_complete|].
  split; [apply union_b_complete|apply cluster_spikes_b_complete].
Qed.
Print Assumptions C07_checker_complete_groups.

(* ---- non-vacuity of the stage-3 theorems ---- *)
(* unsigned, ids 0 and the top of the range: the difference 65535 fits, nothing wraps *)
Example C07_ex_no_wrap_unsigned :
  spikes_per_cluster_dt uint16 [65535; 0; 1; 65535] None = Some [mkg 0 [1]; mkg 1 [2]; mkg 65535 [0; 3]] /\
  spikes_per_cluster [65535; 0; 1; 65535] None = Some [mkg 0 [1]; mkg 1 [2]; mkg 65535 [0; 3]] /\
  first_diff_dt uint16 [0; 1; 65535; 65535] = [1; 1; 65534; 0].
Proof. vm_compute. repeat split; reflexivity. Qed.
(* signed, ids more than dt_hi apart (outside the hypothesis of C07_no_wrap): the difference wraps to a
   negative number, the boundary is lost, two clusters are merged under the smaller key *)
Example C07_ex_signed_wrap :
  spikes_per_cluster_dt int32 [-2147483648; 2147483647] None = Some [mkg (-2147483648) [0; 1]] /\
  spikes_per_cluster [-2147483648; 2147483647] None = Some [mkg (-2147483648) [0]; mkg 2147483647 [1]] /\
  spikes_per_cluster_dt int32 [5; -2147483648; 2147483647; 5; -2147483648] None =
    Some [mkg (-2147483648) [1; 4; 0; 3]; mkg 2147483647 [2]] /\
  spikes_per_cluster_dt int32 [-2147483648; -1] None = Some [mkg (-2147483648) [0]; mkg (-1) [1]] /\
  span_fits_b int32 [-2147483648; -1] = true /\ span_fits_b int32 [-2147483648; 0] = false.
Proof. vm_compute. repeat split; reflexivity. Qed.
Example C07_ex_index_of_dt :
  index_of_dt int32 [7; 0; 3; -1; 2] [7; 3; 0; 2] = Some [0; 2; 1; -1; 3] /\
  index_of_dt int32 [0] [2147483646] = None /\ index_of_dt int32 [0] [2147483647] = None /\
  index_of_dt int8 [125; -1] [125] = Some [0; -1] /\ index_of_dt int8 [126] [126] = None.
Proof. vm_compute. repeat split; reflexivity. Qed.
Example C07_ex_template_counts_short :
  get_template_counts [0; 0; 1] [2; 2] 3 0 = Some [0; 0; 2] /\
  get_template_counts [0; 0] [2; 2] 3 0 = Some [0; 0; 2] /\
  get_template_counts [0; 0; 1] [2; 2] 3 1 = None.
Proof. vm_compute. repeat split; reflexivity. Qed.
