(* C07/Proofs3.v -- the boolean comparator clauses 21, 22, 23, 29 (grouping, partition, selection,
   per-cluster query) imply the declarative statements. *)
From Coq Require Import ZArith List Lia Bool Arith Permutation Sorted ZifyBool.
From PV Require Import Base.NpSort C07.Model C07.Spec C07.Proofs C07.Proofs2.
Import ListNotations.
Open Scope Z_scope.

Lemma groups_b_sound sc ids d : groups_b sc ids d = true -> Groups_Spec sc ids d.
Proof.
  unfold groups_b. cbn zeta. rewrite !andb_true_iff. intros (((Hs & H1) & H2) & H3).
  rewrite forallb_forall in H1, H2, H3. split; [now apply sorted_lt_b_sound|]. split.
  - intros c. split; intros H; apply memZ_In; auto.
  - apply Forall_forall. intros g Hg. apply zlist_eqb_eq. now apply H3.
Qed.

Lemma partition_b_sound sc ids d : partition_b sc ids d = true -> Partition_Spec sc ids d.
Proof.
  unfold partition_b, Partition_Spec. intros H. apply zlist_eqb_eq in H. cbn zeta.
  assert (P : Permutation (concat (map g_ids d)) (firstn (length sc) ids)).
  { eapply perm_trans; [apply Permutation_sym, np_sort_perm|]. rewrite H. apply np_sort_perm. }
  split; [exact P|]. intros Hnd. eapply Permutation_NoDup; [apply Permutation_sym, P|exact Hnd].
Qed.

Lemma cluster_spikes_b_sound v c r : cluster_spikes_b v c r = true -> r = members v (arange (length v)) c.
Proof. apply zlist_eqb_eq. Qed.

Lemma sorted_le_nodup_lt l : StronglySorted Z.le l -> NoDup l -> StronglySorted Z.lt l.
Proof.
  induction 1 as [|x l Hs IH Hall]; intros Hnd; [constructor|]. apply NoDup_cons_iff in Hnd as [Hx Hnd].
  constructor; [now apply IH|]. rewrite Forall_forall in *. intros y Hy. specialize (Hall y Hy).
  assert (x <> y) by (intros ->; contradiction). lia.
Qed.

Lemma NoDup_app' {A} (a b : list A) :
  NoDup a -> NoDup b -> (forall x, In x a -> ~ In x b) -> NoDup (a ++ b).
Proof.
  induction a as [|x a IH]; intros Ha Hb Hd; [exact Hb|]. apply NoDup_cons_iff in Ha as [Hx Ha].
  cbn [app]. constructor.
  - rewrite in_app_iff. intros [H|H]; [contradiction|]. apply (Hd x); [now left|exact H].
  - apply IH; [exact Ha|exact Hb|]. intros y Hy. apply Hd. now right.
Qed.

Lemma nodupZ_spec l : NoDup (nodupZ l) /\ forall x, In x (nodupZ l) <-> In x l.
Proof.
  induction l as [|y r (IHn & IHi)]; [split; [constructor|tauto]|]. cbn [nodupZ].
  destruct (memZ y r) eqn:E.
  - apply memZ_In in E. split; [exact IHn|]. intros x. rewrite IHi. cbn [In]. split; [tauto|].
    intros [<-|H]; assumption.
  - split.
    + constructor; [|exact IHn]. rewrite IHi. intros H. apply memZ_In in H. congruence.
    + intros x. cbn [In]. rewrite IHi. tauto.
Qed.

Lemma members_concat_nodup sc cl :
  NoDup cl -> NoDup (concat (map (members sc (arange (length sc))) cl)).
Proof.
  induction cl as [|c r IH]; intros Hnd; [constructor|]. apply NoDup_cons_iff in Hnd as [Hc Hnd].
  cbn [map concat]. apply NoDup_app'.
  - apply sorted_lt_NoDup, members_sorted, arange_sorted.
  - now apply IH.
  - intros i Hi Hr. apply in_members_arange in Hi as (p & -> & Hp).
    apply in_concat in Hr as (l & Hl & Hi). apply in_map_iff in Hl as (c' & <- & Hc').
    apply in_members_arange in Hi as (p' & E & Hp'). assert (p = p') by lia. subst p'.
    rewrite Hp in Hp'. injection Hp' as <-. contradiction.
Qed.

Lemma union_b_sound sc cl r d :
  union_b sc cl r = true -> Groups_Spec sc (arange (length sc)) d -> Union_Spec cl d r.
Proof.
  unfold union_b. intros H (_ & Hkeys & Hgr). apply zlist_eqb_eq in H. subst r.
  destruct (nodupZ_spec cl) as (Hnd & Hcl). set (L := concat (map (members sc (arange (length sc))) (nodupZ cl))).
  split.
  - apply sorted_le_nodup_lt; [apply np_sort_sorted|].
    eapply Permutation_NoDup; [apply Permutation_sym, np_sort_perm|]. now apply members_concat_nodup.
  - rewrite Forall_forall in Hgr. intros i.
    assert (E : In i (np_sort L) <-> In i L).
    { split; apply Permutation_in; [apply np_sort_perm|apply Permutation_sym, np_sort_perm]. }
    rewrite E. unfold L. rewrite in_concat. split.
    + intros (l & Hl & Hi). apply in_map_iff in Hl as (c & <- & Hc). apply Hcl in Hc.
      assert (Hsc : In c sc).
      { apply in_members_arange in Hi as (p & _ & Hp). eapply nth_error_In; exact Hp. }
      apply Hkeys in Hsc. apply in_map_iff in Hsc as (g & <- & Hg). exists g. split; [exact Hg|].
      split; [exact Hc|]. now rewrite (Hgr g Hg).
    + intros (g & Hg & Hc & Hi). exists (members sc (arange (length sc)) (g_key g)). split.
      * apply in_map. now apply Hcl.
      * now rewrite <- (Hgr g Hg).
Qed.

(* ---------- _flatten_per_cluster(_spikes_per_cluster(...)) ---------- *)
Lemma spc_flatten_thm sc oids :
  (length sc <= length (eff_ids sc oids))%nat ->
  (sc <> [] ->
     exists d r, spikes_per_cluster sc oids = Some d /\ flatten_per_cluster d = Some r /\
       StronglySorted Z.lt r /\ forall i, In i r <-> In i (firstn (length sc) (eff_ids sc oids))) /\
  (sc = [] -> spikes_per_cluster sc oids = Some [] /\ flatten_per_cluster [] = None).
Proof.
  intros Hl. split; [|intros ->; split; reflexivity]. intros Hne.
  destruct (spc_groups sc oids Hl) as (d & E & (_ & Hk & _) & (P & _)).
  assert (Hd : d <> []).
  { intros ->. destruct sc as [|x r]; [congruence|]. apply (proj2 (Hk x)). now left. }
  destruct (proj1 (flatten_thm d) Hd) as (r & Ef & (Hs & Hi) & _).
  exists d, r. split; [exact E|]. split; [exact Ef|]. split; [exact Hs|].
  intros i. rewrite Hi, <- in_all_ids. split; apply Permutation_in; [exact P|apply Permutation_sym, P].
Qed.
