(* C07/Spec.v -- the property, stated independently of the algorithm ("set-theoretic definitions"),
   with the boolean checkers that the correspondence (Corr.v) evaluates on the implementation's
   observed outputs. *)
From Coq Require Import ZArith List Lia Bool Arith Permutation Sorted.
From PV Require Import Base.NpSort C07.Model.
Import ListNotations.
Open Scope Z_scope.

(* [ids[i] | i ascending, sc[i] = c] : the payloads of the entries of sc equal to c, in input order *)
Definition members (sc ids : list Z) (c : Z) : list Z :=
  map snd (filter (eqk c) (combine sc ids)).

Definition zsum (l : list Z) : Z := fold_right Z.add 0 l.

(* the spike ids actually used: the supplied vector, or np.arange(len(sc)) *)
Definition eff_ids (sc : list Z) (spike_ids : option (list Z)) : list Z :=
  match spike_ids with Some l => l | None => arange (length sc) end.

(* ---------- grouping ---------- *)
(* keys strictly increasing = exactly the ids present; each group = the members of its key *)
Definition Groups_Spec (sc ids : list Z) (d : list group) : Prop :=
  StronglySorted Z.lt (map g_key d) /\
  (forall c, In c (map g_key d) <-> In c sc) /\
  Forall (fun g => g_ids g = members sc ids (g_key g)) d.

(* the groups partition all spikes: together they are a rearrangement of the spike ids, and when the
   spike ids are distinct no id occurs twice (so the groups are pairwise disjoint) *)
Definition Partition_Spec (sc ids : list Z) (d : list group) : Prop :=
  let all := firstn (length sc) ids in
  Permutation (concat (map g_ids d)) all /\ (NoDup all -> NoDup (concat (map g_ids d))).

(* r is the sorted union of the groups whose key is requested *)
Definition Union_Spec (cl : list Z) (d : list group) (r : list Z) : Prop :=
  StronglySorted Z.lt r /\
  forall i, In i r <-> exists g, In g d /\ In (g_key g) cl /\ In i (g_ids g).

(* ---------- helpers ---------- *)
Definition Unique_Spec (x r : list Z) : Prop :=
  StronglySorted Z.lt r /\ forall c, In c r <-> (In c x /\ 0 <= c).

Definition IndexOf_Spec (arr lookup r : list Z) : Prop :=
  Forall2 (fun x k => (x = -1 /\ k = -1) \/
                      (0 <= x /\ 0 <= k /\ nth_error lookup (Z.to_nat k) = Some x)) arr r.

Definition Flatten_Spec (d : list group) (r : list Z) : Prop :=
  StronglySorted Z.lt r /\ forall i, In i r <-> exists g, In g d /\ In i (g_ids g).

(* one (sum, count) per distinct non-negative id in increasing order; mean = sum / count *)
Definition GMean_Spec (arr sc : list Z) (r : list gm) : Prop :=
  exists ids, Unique_Spec sc ids /\
    Forall2 (fun c g => gm_sum g = zsum (members sc arr c) /\
                        gm_cnt g = Z.of_nat (length (members sc arr c)) /\ 0 < gm_cnt g) ids r.

(* histogram over templates of the spikes of cluster c *)
Definition Counts_Spec (sc st : list Z) (nt c : Z) (r : list Z) : Prop :=
  let sel := members sc st c in
  Z.of_nat (length r) = bc_len sel nt /\
  forall k, (k < length r)%nat ->
    nth_error r k = Some (Z.of_nat (count_occ Z.eq_dec sel (Z.of_nat k))).

(* ---------- boolean checkers ---------- *)
Fixpoint zlist_eqb (a b : list Z) : bool :=
  match a, b with
  | [], [] => true
  | x :: a', y :: b' => (x =? y) && zlist_eqb a' b'
  | _, _ => false
  end.

Fixpoint memZ (x : Z) (l : list Z) : bool :=
  match l with [] => false | y :: r => (x =? y) || memZ x r end.

Fixpoint sorted_lt_b (l : list Z) : bool :=
  match l with
  | [] => true
  | x :: r => match r with [] => true | y :: _ => (x <? y) && sorted_lt_b r end
  end.

Fixpoint nodupZ (l : list Z) : list Z :=
  match l with [] => [] | x :: r => if memZ x r then nodupZ r else x :: nodupZ r end.

Definition groups_b (sc ids : list Z) (d : list group) : bool :=
  let keys := map g_key d in
  sorted_lt_b keys && forallb (fun c => memZ c keys) sc && forallb (fun k => memZ k sc) keys &&
  forallb (fun g => zlist_eqb (g_ids g) (members sc ids (g_key g))) d.

Definition partition_b (sc ids : list Z) (d : list group) : bool :=
  zlist_eqb (np_sort (concat (map g_ids d))) (np_sort (firstn (length sc) ids)).

(* "the sorted union of the groups of the requested clusters", written with the definition of a
   group: duplicates and order in cl are irrelevant, absent ids contribute nothing *)
Definition union_b (sc cl r : list Z) : bool :=
  zlist_eqb r (np_sort (concat (map (members sc (arange (length sc))) (nodupZ cl)))).

Definition unique_b (x r : list Z) : bool :=
  sorted_lt_b r && forallb (fun c => (0 <=? c) && memZ c x) r &&
  forallb (fun c => (c <? 0) || memZ c r) x.

Fixpoint indexof_b (arr lookup r : list Z) : bool :=
  match arr, r with
  | [], [] => true
  | x :: arr', k :: r' =>
      (((x =? -1) && (k =? -1)) ||
       ((0 <=? x) && (0 <=? k) &&
        match nth_error lookup (Z.to_nat k) with Some y => y =? x | None => false end)) &&
      indexof_b arr' lookup r'
  | _, _ => false
  end.

Definition flatten_b (d : list group) (r : list Z) : bool :=
  let all := concat (map g_ids d) in
  sorted_lt_b r && forallb (fun i => memZ i all) r && forallb (fun i => memZ i r) all.

Definition countZ (k : Z) (l : list Z) : Z := Z.of_nat (length (filter (Z.eqb k) l)).

Definition counts_b (sc st : list Z) (nt c : Z) (r : list Z) : bool :=
  let sel := members sc st c in
  (Z.of_nat (length r) =? bc_len sel nt) &&
  zlist_eqb r (map (fun k => countZ k sel) (arange (length r))).

Definition cluster_spikes_b (sc : list Z) (c : Z) (r : list Z) : bool :=
  zlist_eqb r (members sc (arange (length sc)) c).

(* ---------- stage 2: complete behaviour of _index_of; the reference grouped mean ---------- *)
(* _index_of builds a table of max(lookup) + 2 cells (2 cells for an empty lookup) *)
Definition lk_max (lookup : list Z) : Z :=
  match lookup with [] => 0 | x :: r => fold_right Z.max x r end.
Definition table_len (lookup : list Z) : Z := lk_max lookup + 2.

(* what _index_of returns for ONE queried id x inside the table range -N <= x < N, for a distinct
   non-negative lookup: a negative x is first wrapped by Python's negative indexing (y = x + N);
   a member of the lookup gives its position; the last cell (reached by -1 and by max+1) gives -1;
   every other id -- a non-member -- gives 0, indistinguishable from "position 0". *)
Definition IndexOf1 (lookup : list Z) (x k : Z) : Prop :=
  let N := table_len lookup in
  let y := if x <? 0 then x + N else x in
  (In y lookup /\ 0 <= k /\ nth_error lookup (Z.to_nat k) = Some y) \/
  (y = N - 1 /\ k = -1) \/
  (~ In y lookup /\ y <> N - 1 /\ k = 0).
Definition IndexOf_Full (arr lookup r : list Z) : Prop := Forall2 (IndexOf1 lookup) arr r.

(* the (sum, count) pairs of the definition: one per distinct non-negative id, ids increasing *)
Definition gmean_ref (arr sc : list Z) : list gm :=
  map (fun c => mkgm (zsum (members sc arr c)) (Z.of_nat (length (members sc arr c))))
      (np_unique (filter (fun v => 0 <=? v) sc)).

Fixpoint gml_eqb (a b : list gm) : bool :=
  match a, b with
  | [], [] => true
  | x :: a', y :: b' => (gm_sum x =? gm_sum y) && (gm_cnt x =? gm_cnt y) && gml_eqb a' b'
  | _, _ => false
  end.
Definition gmean_b (arr sc : list Z) (r : list gm) : bool := gml_eqb (gmean_ref arr sc) r.

(* ---------- stage 3: dtype range conditions ---------- *)
Definition in_dt (dt : dtype) (x : Z) : Prop := dt_lo dt <= x <= dt_hi dt.
Definition in_dt_b (dt : dtype) (x : Z) : bool := (dt_lo dt <=? x) && (x <=? dt_hi dt).
(* no difference of two ids of the vector exceeds the top of the dtype's range *)
Definition Span_Fits (dt : dtype) (sc : list Z) : Prop :=
  forall a b, In a sc -> In b sc -> b - a <= dt_hi dt.
Definition span_fits_b (dt : dtype) (sc : list Z) : bool :=
  match sc with [] => true | x :: r => fold_right Z.max x r - fold_right Z.min x r <=? dt_hi dt end.
(* a dtype as NumPy has them: 0 and 1 are representable *)
Definition dt_ok (dt : dtype) : Prop := dt_lo dt <= 0 /\ 1 <= dt_hi dt.
