(* C07/Proofs4.v -- stage 3: the dtype made explicit (no wrap-around on sorted neighbours),
   get_template_counts with a short spike_templates, completeness of the boolean checkers. *)
From Coq Require Import ZArith List Lia Bool Arith Permutation Sorted ZifyBool.
From PV Require Import Base.NpSort C07.Model C07.Spec C07.Proofs C07.Proofs2 C07.Proofs3.
Import ListNotations.
Open Scope Z_scope.

(* ---------- modular arithmetic of a dtype ---------- *)
Lemma wrap_id dt x : dt_lo dt <= x <= dt_hi dt -> wrap dt x = x.
Proof. intros H. unfold wrap, dt_mod. rewrite Z.mod_small by lia. lia. Qed.

Lemma wrap_in_range dt x : dt_lo dt <= dt_hi dt -> dt_lo dt <= wrap dt x <= dt_hi dt.
Proof.
  intros H. unfold wrap, dt_mod.
  pose proof (Z.mod_pos_bound (x - dt_lo dt) (dt_hi dt - dt_lo dt + 1) ltac:(lia)). lia.
Qed.

Lemma diff_from_dt_id dt prev l :
  dt_lo dt <= 0 -> StronglySorted Z.le (prev :: l) -> Span_Fits dt (prev :: l) ->
  diff_from_dt dt prev l = diff_from prev l.
Proof.
  intros Hlo. revert prev; induction l as [|x r IH]; intros prev Hs Hsp; [reflexivity|].
  cbn [diff_from_dt diff_from]. apply StronglySorted_inv in Hs as [Hs Hall].
  assert (Hpx : prev <= x) by (inversion Hall; assumption).
  assert (Hd : x - prev <= dt_hi dt) by (apply Hsp; [now left|right; now left]).
  rewrite wrap_id by lia. f_equal. apply IH; [exact Hs|].
  intros a b Ha Hb. apply Hsp; now right.
Qed.

Lemma first_diff_dt_id dt l :
  dt_ok dt -> StronglySorted Z.le l -> Span_Fits dt l -> first_diff_dt dt l = first_diff l.
Proof.
  intros (Hlo & Hhi) Hs Hsp. destruct l as [|x r]; [reflexivity|]. cbn [first_diff_dt first_diff].
  rewrite wrap_id by lia. f_equal. now apply diff_from_dt_id.
Qed.

Lemma span_unsigned dt sc : dt_lo dt = 0 -> Forall (in_dt dt) sc -> Span_Fits dt sc.
Proof.
  intros H0 Hr a b Ha Hb. rewrite Forall_forall in Hr. destruct (Hr a Ha), (Hr b Hb). lia.
Qed.
Lemma span_nonneg dt sc : Forall (fun c => 0 <= c) sc -> Forall (in_dt dt) sc -> Span_Fits dt sc.
Proof.
  intros Hn Hr a b Ha Hb. rewrite Forall_forall in Hr, Hn. destruct (Hr b Hb). specialize (Hn a Ha). lia.
Qed.

Lemma fold_min_le_init y r : fold_right Z.min y r <= y.
Proof. induction r as [|z r IH]; cbn [fold_right]; lia. Qed.
Lemma fold_min_le_in y r v : In v r -> fold_right Z.min y r <= v.
Proof. induction r as [|z r IH]; intros H; [contradiction|]. cbn [fold_right]. destruct H as [->|H]; [lia|specialize (IH H); lia]. Qed.
Lemma fold_min_in y r : In (fold_right Z.min y r) (y :: r).
Proof.
  induction r as [|z r IH]; [now left|]. cbn [fold_right].
  destruct (Z.min_spec z (fold_right Z.min y r)) as [[_ ->]|[_ ->]].
  - right. now left.
  - destruct IH as [E|H]; [left; exact E|right; now right].
Qed.
Lemma fold_max_in y r : In (fold_right Z.max y r) (y :: r).
Proof.
  induction r as [|z r IH]; [now left|]. cbn [fold_right].
  destruct (Z.max_spec z (fold_right Z.max y r)) as [[_ ->]|[_ ->]].
  - destruct IH as [E|H]; [left; exact E|right; now right].
  - right. now left.
Qed.

Lemma span_fits_b_iff dt sc : span_fits_b dt sc = true <-> Span_Fits dt sc.
Proof.
  unfold span_fits_b, Span_Fits. destruct sc as [|x r]; [split; [intros _ a b []|reflexivity]|].
  rewrite Z.leb_le. split.
  - intros H a b Ha Hb.
    assert (b <= fold_right Z.max x r) by (destruct Hb as [<-|Hb]; [apply fold_max_ge_init|now apply fold_max_ge_in]).
    assert (fold_right Z.min x r <= a) by (destruct Ha as [<-|Ha]; [apply fold_min_le_init|now apply fold_min_le_in]).
    lia.
  - intros H. apply H; [apply fold_min_in|apply fold_max_in].
Qed.

(* the sorted ids the code differences: nondecreasing, and every one of them is an id of sc *)
Lemma sorted_keys_of sc :
  exists scs, gather sc (stable_argsort sc) = Some scs /\ StronglySorted Z.le scs /\
              forall x, In x scs -> In x sc.
Proof.
  exists (map fst (isort (combine sc sc))). split; [apply gather_keys_sorted; lia|]. split.
  - apply sortedk_keys, isort_sorted.
  - intros x Hx.
    assert (P : Permutation (map fst (isort (combine sc sc))) (map fst (combine sc sc)))
      by apply Permutation_map, isort_perm.
    apply (Permutation_in _ P) in Hx. rewrite map_fst_combine in Hx by lia. exact Hx.
Qed.

Lemma spc_no_wrap dt sc oids :
  dt_ok dt -> Span_Fits dt sc -> spikes_per_cluster_dt dt sc oids = spikes_per_cluster sc oids.
Proof.
  intros Hok Hsp. unfold spikes_per_cluster_dt, spikes_per_cluster.
  destruct sc as [|x0 r0] eqn:E; [reflexivity|]. rewrite <- E in *.
  destruct (sorted_keys_of sc) as (scs & -> & Hs & Hin).
  rewrite (first_diff_dt_id dt scs Hok Hs); [reflexivity|].
  intros a b Ha Hb. apply Hsp; now apply Hin.
Qed.

Lemma spc_no_wrap_thm dt sc oids :
  dt_ok dt -> Forall (in_dt dt) sc ->
  (dt_lo dt = 0 \/ Forall (fun c => 0 <= c) sc \/ Span_Fits dt sc) ->
  spikes_per_cluster_dt dt sc oids = spikes_per_cluster sc oids.
Proof.
  intros Hok Hr [H|[H|H]]; apply spc_no_wrap; try exact Hok; try exact H.
  - now apply span_unsigned.
  - now apply span_nonneg.
Qed.

(* the table size of _index_of: no wrap as long as max + 2 is representable *)
Lemma index_of_no_wrap dt arr lookup :
  dt_ok dt -> dt_lo dt <= lk_max lookup + 1 -> lk_max lookup + 2 <= dt_hi dt ->
  index_of_dt dt arr lookup = index_of arr lookup.
Proof.
  intros (Hlo & Hhi) H1 H2. unfold index_of_dt, index_of, lk_max in *.
  destruct lookup as [|x r]; [reflexivity|].
  rewrite (wrap_id dt (fold_right Z.max x r + 1)) by lia.
  rewrite (wrap_id dt (fold_right Z.max x r + 1 + 1)) by lia. reflexivity.
Qed.

(* ... and when max + 2 is NOT representable in a signed dtype whose range is symmetric
   (lo = -hi - 1): the wrapped size is negative, np.zeros raises *)
Lemma index_of_overflow dt arr lookup :
  dt_lo dt = - dt_hi dt - 1 -> 1 <= dt_hi dt -> lookup <> [] ->
  0 <= lk_max lookup <= dt_hi dt -> dt_hi dt < lk_max lookup + 2 ->
  index_of_dt dt arr lookup = None.
Proof.
  intros Hlo Hhi Hne Hm Hov. unfold index_of_dt, lk_max in *.
  destruct lookup as [|x r]; [congruence|]. set (mx := fold_right Z.max x r) in *.
  assert (Hn : wrap dt (wrap dt (mx + 1) + 1) < 0).
  { assert (Hmod : dt_mod dt = 2 * dt_hi dt + 2) by (unfold dt_mod; lia).
    assert (mx = dt_hi dt \/ mx = dt_hi dt - 1) as [Emx|Emx] by lia.
    - assert (E1 : wrap dt (mx + 1) = dt_lo dt).
      { unfold wrap. rewrite Hmod. replace (mx + 1 - dt_lo dt) with (1 * (2 * dt_hi dt + 2)) by lia.
        rewrite Z.mod_mul by lia. lia. }
      rewrite E1. rewrite wrap_id by lia. lia.
    - assert (E1 : wrap dt (mx + 1) = dt_hi dt) by (rewrite wrap_id; lia).
      rewrite E1. unfold wrap. rewrite Hmod. replace (dt_hi dt + 1 - dt_lo dt) with (1 * (2 * dt_hi dt + 2)) by lia.
      rewrite Z.mod_mul by lia. lia. }
  destruct (wrap dt (wrap dt (mx + 1) + 1) <? 0) eqn:E; [reflexivity|lia].
Qed.

(* ---------- get_template_counts when spike_templates is shorter than spike_clusters ---------- *)
Lemma nonzero_from_app i a b :
  nonzero_from i (a ++ b) = nonzero_from i a ++ nonzero_from (i + length a) b.
Proof.
  revert i; induction a as [|x a IH]; intros i; cbn [app nonzero_from length].
  - f_equal. lia.
  - rewrite IH. replace (S i + length a)%nat with (i + S (length a))%nat by lia. now destruct x.
Qed.

Lemma nonzero_from_all_false i m : Forall (fun b => b = false) m -> nonzero_from i m = [].
Proof.
  revert i; induction m as [|b r IH]; intros i H; [reflexivity|]. inversion H; subst. cbn [nonzero_from]. now apply IH.
Qed.

Lemma nth_error_skipn' {A} (l : list A) n q : nth_error (skipn n l) q = nth_error l (n + q).
Proof.
  revert l; induction n as [|n IH]; intros l; [reflexivity|]. destruct l as [|x l]; [now destruct q|].
  cbn [skipn Nat.add nth_error]. apply IH.
Qed.

Lemma sic_pos_prefix sc c n :
  (forall p, (n <= p)%nat -> nth_error sc p <> Some c) -> sic_pos sc [c] = sic_pos (firstn n sc) [c].
Proof.
  intros H. rewrite !sic_as_mask. unfold nonzero.
  rewrite <- (firstn_skipn n sc) at 1. rewrite map_app, nonzero_from_app.
  rewrite (nonzero_from_all_false _ (map (isin [c]) (skipn n sc))); [now rewrite app_nil_r|].
  apply Forall_forall. intros b Hb. apply in_map_iff in Hb as (x & <- & Hx).
  apply In_nth_error in Hx as (q & Hq). rewrite nth_error_skipn' in Hq.
  destruct (isin [c] x) eqn:E; [|reflexivity]. apply isin_In in E as [<-|[]].
  exfalso. apply (H (n + q)%nat); [lia|exact Hq].
Qed.

Lemma in_sic_pos sc c p : nth_error sc p = Some c -> In p (sic_pos sc [c]).
Proof.
  intros H. rewrite sic_as_mask. unfold nonzero. apply nonzero_from_in. exists p. split; [reflexivity|].
  rewrite nth_error_map, H. cbn [option_map]. f_equal. apply isin_In. now left.
Qed.

Lemma template_counts_short sc st nt c :
  ((forall p, (length st <= p)%nat -> nth_error sc p <> Some c) ->
      get_template_counts sc st nt c = get_template_counts (firstn (length st) sc) st nt c) /\
  ((exists p, (length st <= p)%nat /\ nth_error sc p = Some c) -> get_template_counts sc st nt c = None).
Proof.
  unfold get_template_counts. split.
  - intros H. now rewrite (sic_pos_prefix sc c (length st) H).
  - intros (p & Hp & Hc). rewrite (gather_none st _ p); [reflexivity|now apply in_sic_pos|exact Hp].
Qed.

(* ---------- completeness of the boolean checkers: the declarative statement implies [true] ---------- *)
Lemma sorted_lt_b_complete l : StronglySorted Z.lt l -> sorted_lt_b l = true.
Proof.
  induction 1 as [|x l Hs IH Hall]; [reflexivity|]. cbn [sorted_lt_b]. destruct l as [|y r]; [reflexivity|].
  rewrite IH, andb_true_r. inversion Hall; subst. lia.
Qed.

Lemma zlist_eqb_refl a : zlist_eqb a a = true.
Proof. induction a as [|x a IH]; [reflexivity|]. cbn [zlist_eqb]. rewrite IH, Z.eqb_refl. reflexivity. Qed.

Lemma gml_eqb_refl a : gml_eqb a a = true.
Proof. induction a as [|x a IH]; [reflexivity|]. cbn [gml_eqb]. rewrite IH, !Z.eqb_refl. reflexivity. Qed.

Lemma groups_b_complete sc ids d : Groups_Spec sc ids d -> groups_b sc ids d = true.
Proof.
  intros (Hs & Hk & Hg). unfold groups_b. cbn zeta. rewrite !andb_true_iff. repeat split.
  - now apply sorted_lt_b_complete.
  - apply forallb_forall. intros c Hc. apply memZ_In. now apply Hk.
  - apply forallb_forall. intros c Hc. apply memZ_In. now apply Hk.
  - apply forallb_forall. intros g Hin. rewrite Forall_forall in Hg. rewrite (Hg g Hin). apply zlist_eqb_refl.
Qed.

(* two sorted rearrangements of the same list are equal *)
Lemma sorted_le_perm_eq a : forall b,
  StronglySorted Z.le a -> StronglySorted Z.le b -> Permutation a b -> a = b.
Proof.
  induction a as [|x a IH]; intros b Ha Hb P.
  - apply Permutation_nil in P. now subst.
  - destruct b as [|y b]; [apply Permutation_sym, Permutation_nil in P; discriminate|].
    apply StronglySorted_inv in Ha as [Ha Hxa]. apply StronglySorted_inv in Hb as [Hb Hyb].
    rewrite Forall_forall in Hxa, Hyb.
    assert (x = y).
    { assert (Hx : In x (y :: b)) by (eapply Permutation_in; [exact P|now left]).
      assert (Hy : In y (x :: a)) by (eapply Permutation_in; [apply Permutation_sym; exact P|now left]).
      destruct Hx as [->|Hx]; [reflexivity|]. destruct Hy as [->|Hy]; [reflexivity|].
      specialize (Hxa y Hy). specialize (Hyb x Hx). lia. }
    subst y. f_equal. apply IH; [exact Ha|exact Hb|]. now apply Permutation_cons_inv in P.
Qed.

Lemma partition_b_complete sc ids d : Partition_Spec sc ids d -> partition_b sc ids d = true.
Proof.
  intros (P & _). unfold partition_b.
  rewrite (sorted_le_perm_eq (np_sort (concat (map g_ids d))) (np_sort (firstn (length sc) ids)));
    [apply zlist_eqb_refl|apply np_sort_sorted|apply np_sort_sorted|].
  eapply perm_trans; [apply np_sort_perm|]. eapply perm_trans; [exact P|apply Permutation_sym, np_sort_perm].
Qed.

Lemma union_b_complete sc cl r d :
  Groups_Spec sc (arange (length sc)) d -> Union_Spec cl d r -> union_b sc cl r = true.
Proof.
  intros G (Hs & Hi).
  set (r0 := np_sort (concat (map (members sc (arange (length sc))) (nodupZ cl)))).
  assert (U0 : Union_Spec cl d r0) by (apply (union_b_sound sc cl r0 d); [apply zlist_eqb_refl|exact G]).
  destruct U0 as (Hs0 & Hi0).
  assert (r = r0) by (apply sorted_ext; [exact Hs|exact Hs0|]; intros x; now rewrite Hi, Hi0).
  subst r. apply zlist_eqb_refl.
Qed.

Lemma cluster_spikes_b_complete v c r : r = members v (arange (length v)) c -> cluster_spikes_b v c r = true.
Proof. intros ->. apply zlist_eqb_refl. Qed.

Lemma unique_b_complete x r : Unique_Spec x r -> unique_b x r = true.
Proof.
  intros (Hs & Hi). unfold unique_b. rewrite !andb_true_iff. repeat split.
  - now apply sorted_lt_b_complete.
  - apply forallb_forall. intros c Hc. apply Hi in Hc as (Hc & H0). apply andb_true_iff. split; [lia|now apply memZ_In].
  - apply forallb_forall. intros c Hc. destruct (c <? 0) eqn:E; [reflexivity|]. cbn [orb]. apply memZ_In, Hi. split; [exact Hc|lia].
Qed.

Lemma indexof_b_complete arr lookup r : IndexOf_Spec arr lookup r -> indexof_b arr lookup r = true.
Proof.
  unfold IndexOf_Spec. induction 1 as [|x k a r Hxk _ IH]; [reflexivity|]. cbn [indexof_b].
  rewrite IH, andb_true_r. destruct Hxk as [(-> & ->)|(Hx & Hk & Hn)]; [reflexivity|].
  rewrite Hn. apply orb_true_iff. right. rewrite !andb_true_iff. repeat split; lia.
Qed.

Lemma flatten_b_complete d r : Flatten_Spec d r -> flatten_b d r = true.
Proof.
  intros (Hs & Hi). unfold flatten_b. cbn zeta. rewrite !andb_true_iff. repeat split.
  - now apply sorted_lt_b_complete.
  - apply forallb_forall. intros i H. apply memZ_In, in_all_ids, Hi, H.
  - apply forallb_forall. intros i H. apply memZ_In, Hi, in_all_ids, H.
Qed.

Lemma gmean_b_complete arr sc r : GMean_Spec arr sc r -> gmean_b arr sc r = true.
Proof. intros H. apply gmean_spec_unique in H. subst r. apply gml_eqb_refl. Qed.

Lemma counts_b_complete sc st nt c r : Counts_Spec sc st nt c r -> counts_b sc st nt c r = true.
Proof.
  unfold Counts_Spec, counts_b. cbn zeta. intros (Hl & Hn). apply andb_true_iff. split; [lia|].
  rewrite <- (nth_error_ext r (map (fun k => countZ k (members sc st c)) (arange (length r)))); [apply zlist_eqb_refl| |].
  - now rewrite map_length, arange_length.
  - intros k Hk. rewrite (Hn k Hk), nth_error_map, nth_error_arange by exact Hk. cbn [option_map].
    now rewrite countZ_count_occ.
Qed.

(* ---------- the hypothesis of the no-wrap theorem cannot be dropped for a signed dtype ---------- *)
(* two ids more than dt_hi apart in a signed dtype (range [-hi-1, hi]): the first difference wraps to a
   negative number, the boundary between the two clusters is lost, both spikes land under the key a *)
Lemma spc_signed_wrap_pair dt a b :
  dt_lo dt = - dt_hi dt - 1 -> 1 <= dt_hi dt -> dt_lo dt <= a -> b <= dt_hi dt -> dt_hi dt < b - a ->
  spikes_per_cluster_dt dt [a; b] None = Some [mkg a [0; 1]] /\
  spikes_per_cluster [a; b] None = Some [mkg a [0]; mkg b [1]].
Proof.
  intros Hlo Hhi Ha Hb Hd.
  assert (Hab : (a <=? b) = true) by lia.
  assert (Hrel : stable_argsort [a; b] = [0%nat; 1%nat]).
  { unfold stable_argsort. cbn [length seq combine isort fold_right insert fst]. rewrite Hab. reflexivity. }
  split.
  - unfold spikes_per_cluster_dt. rewrite Hrel. cbn [length arange seq map gather nth_error first_diff_dt diff_from_dt].
    assert (H1 : wrap dt 1 = 1) by (apply wrap_id; lia).
    assert (H2 : wrap dt (b - a) = b - a - (2 * dt_hi dt + 2)).
    { unfold wrap, dt_mod. replace (b - a - dt_lo dt) with ((b - a - dt_hi dt - 1) + 1 * (dt_hi dt - dt_lo dt + 1)) by lia.
      rewrite Z.mod_add by lia. rewrite Z.mod_small by lia. lia. }
    rewrite H1, H2. replace (0 <? 1) with true by reflexivity.
    replace (0 <? b - a - (2 * dt_hi dt + 2)) with false by lia.
    cbn [nonzero nonzero_from gather nth_error spc_dict dict_set slice_from skipn]. reflexivity.
  - unfold spikes_per_cluster. rewrite Hrel. cbn [length arange seq map gather nth_error first_diff diff_from].
    replace (0 <? 1) with true by reflexivity. replace (0 <? b - a) with true by lia.
    cbn [nonzero nonzero_from gather nth_error spc_dict dict_set slice_from slice_nat skipn firstn Nat.sub g_key].
    replace (a =? b) with false by lia. reflexivity.
Qed.
