(* C07/Link.v -- links to the neighbouring properties that model the same phylib functions.

   C06 (sparse features) has its own model of _index_of (all indices validated first with norm_idx, then
   one scatter); C07 models the same lines as a sequence of Python assignments, each of which may raise.
   C07_link_C06_index_of: the two are the same function for EVERY arr and lookup, so
   C07_index_of_full / C07_index_of describe C06's model too.

   C08 (curated clusters).  C08's model states get_template_counts
   directly as "np.bincount of the templates of the cluster's spikes" (a map of counts over
   range(max(max + 1, n_templates))); C07 models the three lines of TemplateModel.get_template_counts
   one by one (get_cluster_spikes = _spikes_in_clusters -> fancy indexing -> np.bincount as np.zeros +
   unbuffered additions).  Here the two are proved to be the same function wherever spike_templates is
   at least as long as spike_clusters (always the case in a loaded dataset), so C08's reading of that
   method is a theorem about C07's line-by-line model and C07_template_counts applies to it.
   Not required by Props.v / Corr.v (this file depends on C06/Model.v and C08/Model.v, other properties' files). *)
From Coq Require Import ZArith List Lia Bool Arith ZifyBool.
From PV Require Import Base.NpSearch Base.NpSort Base.NpList.
From PV Require C06.Model C08.Model.
From PV Require Import C07.Model C07.Spec C07.Proofs C07.Proofs2.
Import ListNotations.
Open Scope Z_scope.

Lemma countZ_same k l : C08.Model.countZ k l = C07.Spec.countZ k l.
Proof. reflexivity. Qed.

Lemma bincount_link x ml : C07.Model.bincount x ml = C08.Model.bincount x ml.
Proof.
  unfold C08.Model.bincount. destruct (existsb (fun v => v <? 0) x) eqn:E.
  - apply bincount_neg. apply existsb_exists in E as (v & Hv & Hn). apply Exists_exists. exists v. split; [exact Hv|lia].
  - assert (Hx : Forall (fun v => 0 <= v) x).
    { apply Forall_forall. intros v Hv. destruct (v <? 0) eqn:Ev; [|lia].
      assert (existsb (fun v => v <? 0) x = true) by (apply existsb_exists; exists v; split; assumption). congruence. }
    destruct (bincount_spec x ml Hx) as (bc & -> & L & N). f_equal.
    change (C08.Model.bc_len x ml) with (C07.Model.bc_len x ml).
    apply nth_error_ext.
    + rewrite map_length, zrange_length. lia.
    + intros k Hk. rewrite (N k Hk). rewrite nth_error_map.
      rewrite (nth_error_nth' (zrange 0 (Z.to_nat (C07.Model.bc_len x ml))) 0) by (rewrite zrange_length; lia).
      rewrite zrange_nth by lia. cbn [option_map]. rewrite countZ_same, countZ_count_occ. do 2 f_equal.
Qed.

Theorem C07_link_C08_template_counts : forall (d : C08.Model.dset) (c : Z),
  (length (C08.Model.d_sc d) <= length (C08.Model.d_st d))%nat ->
  C07.Model.get_template_counts (C08.Model.d_sc d) (C08.Model.d_st d) (C08.Model.n_templates d) c =
  C08.Model.get_template_counts d c.
Proof.
  intros d c H. unfold C07.Model.get_template_counts, C08.Model.get_template_counts.
  rewrite (template_sel _ _ c H). rewrite bincount_link. reflexivity.
Qed.
Print Assumptions C07_link_C08_template_counts.

(* ---------- C06: _index_of ---------- *)
Lemma set_nth_upd {A} (l : list A) i v : (i < length l)%nat -> set_nth l i v = Some (upd l i v).
Proof.
  revert i; induction l as [|x r IH]; intros [|k] H; cbn [length] in H; try lia; cbn [set_nth upd]; [reflexivity|].
  rewrite IH by lia. reflexivity.
Qed.

Lemma py_set_norm {A} (l : list A) i v :
  py_set l i v = match C06.Model.norm_idx (Z.of_nat (length l)) i with Some p => Some (upd l p v) | None => None end.
Proof.
  unfold py_set, C06.Model.norm_idx.
  destruct ((0 <=? i) && (i <? Z.of_nat (length l))) eqn:E1; [apply set_nth_upd; lia|].
  destruct ((- Z.of_nat (length l) <=? i) && (i <? 0)) eqn:E2; [apply set_nth_upd; lia|reflexivity].
Qed.

Lemma py_get_same {A} (l : list A) i : C07.Model.py_get l i = C06.Model.py_get l i.
Proof.
  unfold C07.Model.py_get, C06.Model.py_get, C06.Model.norm_idx, C06.Model.zlen.
  destruct ((0 <=? i) && (i <? Z.of_nat (length l))); [reflexivity|].
  destruct ((- Z.of_nat (length l) <=? i) && (i <? 0)); reflexivity.
Qed.

Lemma py_gather_same {A} (l : list A) idx : C07.Model.py_gather l idx = C06.Model.py_gather l idx.
Proof.
  unfold C06.Model.py_gather. induction idx as [|i r IH]; [reflexivity|]. cbn [C07.Model.py_gather C06.Model.omap].
  rewrite py_get_same, IH. reflexivity.
Qed.

Lemma py_scatter_norm (ks vs : list Z) : forall t, length ks = length vs ->
  py_scatter t (combine ks vs) =
  match C06.Model.omap (C06.Model.norm_idx (Z.of_nat (length t))) ks with
  | Some ps => Some (scatter t (combine ps vs))
  | None => None
  end.
Proof.
  revert vs; induction ks as [|k ks IH]; intros [|v vs] t Hl; cbn [length] in Hl; try discriminate; [reflexivity|].
  cbn [combine py_scatter fst snd C06.Model.omap]. rewrite py_set_norm.
  destruct (C06.Model.norm_idx (Z.of_nat (length t)) k) as [p|] eqn:E; [|reflexivity].
  rewrite IH by lia. rewrite upd_length.
  destruct (C06.Model.omap (C06.Model.norm_idx (Z.of_nat (length t))) ks); reflexivity.
Qed.

Theorem C07_link_C06_index_of : forall arr lookup : list Z,
  C06.Model.index_of arr lookup = C07.Model.index_of arr lookup.
Proof.
  intros arr lookup. unfold C06.Model.index_of, C06.Model.index_table, C07.Model.index_of, C06.Model.zmax1.
  set (mx := match lookup with [] => 0 | x :: r => fold_right Z.max x r end).
  destruct (mx + 1 + 1 <? 0) eqn:E; [reflexivity|].
  rewrite py_set_norm, repeat_length, Z2Nat.id by lia.
  destruct (C06.Model.norm_idx (mx + 1 + 1) (-1)) as [p|]; [|reflexivity].
  rewrite py_scatter_norm by (unfold arange; now rewrite map_length, seq_length).
  rewrite upd_length, repeat_length, Z2Nat.id by lia.
  destruct (C06.Model.omap (C06.Model.norm_idx (mx + 1 + 1)) lookup) as [ps|]; [|reflexivity].
  symmetry. apply py_gather_same.
Qed.
Print Assumptions C07_link_C06_index_of.
