(* C07/Corr.v -- comparator evaluated by vm_compute on generated case files.
   codes: 1  = observed output differs from the model (all observables of C07 are determined)
          21 = C07_groups: observed dict is not {id present -> members in input order}, keys increasing
          22 = C07_partition: observed groups are not a rearrangement of all spike ids
          23 = C07_in_clusters: observed selection is not the sorted union of the requested groups
          24 = C07_unique: not the increasing list of the distinct non-negative ids
          25 = C07_index_of: lookup[result] <> queried id (or -1 not kept)
          26 = C07_flatten: not the increasing list of the distinct spike ids of the groups
          27 = C07_grouped_mean: a mean is not (sum over the group) / (size of the group)
          28 = C07_template_counts: not the per-template histogram of the cluster's spikes
          29 = C07_cluster_spikes: per-cluster / per-template query differs from the group
          3  = input outside the stated regime (harness bug)
   Stage 3: InSpcDt / InIndexOfDt are judged against the dtype-aware models spikes_per_cluster_dt /
   index_of_dt (model equality, code 1, also where the arithmetic wraps); the property clauses 21, 22 / 25
   are judged where C07_no_wrap / C07_no_wrap_index_of say the dtype-aware function is the one over Z.
   One abstract input is run under several dtypes; every distinct observation is judged. *)
From Coq Require Import ZArith List Lia Bool Arith.
From Coq Require Import Floats.
From PV Require Export Base.NpSort C07.Model C07.Spec.
Import ListNotations.
Open Scope Z_scope.

Inductive input :=
| InSpc (sc : list Z) (ids : option (list Z))
| InSic (sc cl : list Z)
| InUnique (x : list Z)
| InIndexOf (arr lookup : list Z)
| InFlatten (d : list group)
| InSpcFlatten (sc : list Z) (ids : option (list Z))   (* _flatten_per_cluster(_spikes_per_cluster(..)) *)
| InGMean (cols : list (list Z)) (sc : list Z)
| InSpikesOf (v : list Z) (c : Z)                 (* get_cluster_spikes / get_template_spikes *)
| InCounts (sc st : list Z) (nt c : Z)            (* get_template_counts *)
| InSpcDt (lo hi : Z) (sc : list Z) (ids : option (list Z))   (* _spikes_per_cluster on dtype [lo, hi] *)
| InIndexOfDt (arr lookup : list Z)               (* _index_of, table size in int32 arithmetic *)
| InBad.                                          (* the harness could not build the input *)

(* a float64 value, exactly: (-1)^neg * mant * 2^exp *)
Inductive ftok := FFin (neg : bool) (mant exp : Z) | FNaN | FInf (neg : bool).

Inductive obs1 :=
| ObsDict (d : list group)
| ObsList (l : list Z)
| ObsFloats (cols : list (list ftok))
| ObsCrash.

(* the distinct observations made under the dtypes the input was run with *)
Inductive observed := ObsAll (l : list obs1).

Record case := { cid : Z; cin : input; cobs : observed }.

Definition flag (code : Z) (ok : bool) : list Z := if ok then [] else [code].

Fixpoint list_eqb {A} (eqb : A -> A -> bool) (a b : list A) : bool :=
  match a, b with
  | [], [] => true
  | x :: a', y :: b' => eqb x y && list_eqb eqb a' b'
  | _, _ => false
  end.
Fixpoint all2b {A B} (f : A -> B -> bool) (a : list A) (b : list B) : bool :=
  match a, b with
  | [], [] => true
  | x :: a', y :: b' => f x y && all2b f a' b'
  | _, _ => false
  end.
Definition group_eqb (a b : group) : bool := (g_key a =? g_key b) && zlist_eqb (g_ids a) (g_ids b).

(* ---- the one floating-point operation of grouped_mean: float64(sum) / float64(count) ---- *)
Definition z2f (z : Z) : float :=
  if z <? 0 then PrimFloat.opp (PrimFloat.of_uint63 (Uint63.of_Z (- z)))
  else PrimFloat.of_uint63 (Uint63.of_Z z).
Definition fdiv (s c : Z) : spec_float := Prim2SF (PrimFloat.div (z2f s) (z2f c)).

Definition scaled_eqb (m1 e1 m2 e2 : Z) : bool :=
  let e := Z.min e1 e2 in (m1 * 2 ^ (e1 - e) =? m2 * 2 ^ (e2 - e)).
Definition sf_tok_eqb (f : spec_float) (t : ftok) : bool :=
  match f, t with
  | S754_zero s, FFin n m _ => Bool.eqb s n && (m =? 0)
  | S754_finite s m e, FFin n m' e' => Bool.eqb s n && (0 <? m') && scaled_eqb (Z.pos m) e m' e'
  | S754_nan, FNaN => true
  | S754_infinity s, FInf n => Bool.eqb s n
  | _, _ => false
  end.
Definition gm_tok_eqb (g : gm) (t : ftok) : bool := sf_tok_eqb (fdiv (gm_sum g) (gm_cnt g)) t.

Definition two53 : Z := 9007199254740992.
Definition two31 : Z := 2147483648.

(* clause 27, from the definition: the observed floats are the float64 quotients sum / count of
   gmean_ref col sc -- by C07_checker_sound the only list of (sum, count) pairs satisfying GMean_Spec *)
Definition gmean_spec_b (col sc : list Z) (o : list ftok) : bool :=
  all2b gm_tok_eqb (gmean_ref col sc) o.

(* judge one observation: r = Some observed value | None = the implementation raised / timed out *)
Definition judge {R} (guard : bool) (m : option R) (eqb : R -> R -> bool) (o : option R)
           (clauses : R -> list Z) (all : list Z) : list Z :=
  match o with
  | Some r => flag 1 (match m with Some x => eqb x r | None => false end) ++
              (if guard then clauses r else [])
  | None => (match m with Some _ => [1] | None => [] end) ++ (if guard then all else [])
  end.

Definition as_dict (o : obs1) : option (option (list group)) :=
  match o with ObsDict d => Some (Some d) | ObsCrash => Some None | _ => None end.
Definition as_list (o : obs1) : option (option (list Z)) :=
  match o with ObsList l => Some (Some l) | ObsCrash => Some None | _ => None end.
Definition as_floats (o : obs1) : option (option (list (list ftok))) :=
  match o with ObsFloats l => Some (Some l) | ObsCrash => Some None | _ => None end.

Definition span_ok (l : list Z) : bool :=
  match l with [] => true | x :: r => fold_right Z.max x r - fold_right Z.min x r <? two31 end.

Definition check1 (i : input) (o : obs1) : list Z :=
  match i with
  | InSpc sc ids =>
      if negb (span_ok sc) then [3] else
      match as_dict o with None => [3] | Some od =>
        let e := eff_ids sc ids in
        judge (length sc <=? length e)%nat (spikes_per_cluster sc ids) (list_eqb group_eqb) od
              (fun d => flag 21 (groups_b sc e d) ++ flag 22 (partition_b sc e d)) [21; 22]
      end
  | InSic sc cl =>
      match as_list o with None => [3] | Some ol =>
        judge true (Some (spikes_in_clusters sc cl)) zlist_eqb ol
              (fun r => flag 23 (union_b sc cl r)) [23]
      end
  | InUnique x =>
      match as_list o with None => [3] | Some ol =>
        judge true (unique x) zlist_eqb ol (fun r => flag 24 (unique_b x r)) [24]
      end
  | InIndexOf arr lookup =>
      if negb (forallb (fun v => (- two31 <=? v) && (v <? two31)) lookup) then [3] else
      match as_list o with None => [3] | Some ol =>
        judge (sorted_lt_b (np_sort lookup) && forallb (fun v => 0 <=? v) lookup &&
               forallb (fun x => (x =? -1) || memZ x lookup) arr)
              (index_of arr lookup) zlist_eqb ol
              (fun r => flag 25 (indexof_b arr lookup r)) [25]
      end
  | InFlatten d =>
      match as_list o with None => [3] | Some ol =>
        judge (match d with [] => false | _ => true end) (flatten_per_cluster d) zlist_eqb ol
              (fun r => flag 26 (flatten_b d r)) [26]
      end
  | InSpcFlatten sc ids =>
      if negb (span_ok sc) then [3] else
      match as_list o with None => [3] | Some ol =>
        let e := eff_ids sc ids in
        judge (match sc with [] => false | _ => (length sc <=? length e)%nat end)
              (match spikes_per_cluster sc ids with Some d => flatten_per_cluster d | None => None end)
              zlist_eqb ol
              (fun r => flag 26 (flatten_b [mkg 0 (firstn (length sc) e)] r)) [26]
      end
  | InGMean cols sc =>
      if negb (forallb (fun col => zsum (map Z.abs col) <? two53) cols) then [3] else
      match as_floats o with None => [3] | Some oc =>
        let guard := forallb (fun v => 0 <=? v) sc &&
                     forallb (fun col => (length col =? length sc)%nat) cols in
        let ms := map (fun col => grouped_mean col sc) cols in
        match oc with
        | Some ocols =>
            flag 1 (all2b (fun m ocol => match m with
                                            | Some l => all2b gm_tok_eqb l ocol
                                            | None => false end) ms ocols) ++
            (if guard then flag 27 (all2b (fun col ocol => gmean_spec_b col sc ocol) cols ocols)
             else [])
        | None => (if existsb (fun m => match m with Some _ => false | None => true end) ms
                   then [] else [1]) ++ (if guard then [27] else [])
        end
      end
  | InSpikesOf v c =>
      match as_list o with None => [3] | Some ol =>
        judge true (Some (get_cluster_spikes v c)) zlist_eqb ol
              (fun r => flag 29 (cluster_spikes_b v c r)) [29]
      end
  | InCounts sc st nt c =>
      match as_list o with None => [3] | Some ol =>
        judge ((length sc <=? length st)%nat && forallb (fun v => 0 <=? v) st)
              (get_template_counts sc st nt c) zlist_eqb ol
              (fun r => flag 28 (counts_b sc st nt c r)) [28]
      end
  | InSpcDt lo hi sc ids =>
      let dt := mkdt lo hi in
      if negb ((lo <=? 0) && (1 <=? hi) && forallb (in_dt_b dt) sc) then [3] else
      match as_dict o with None => [3] | Some od =>
        let e := eff_ids sc ids in
        judge ((length sc <=? length e)%nat && span_fits_b dt sc)
              (spikes_per_cluster_dt dt sc ids) (list_eqb group_eqb) od
              (fun d => flag 21 (groups_b sc e d) ++ flag 22 (partition_b sc e d)) [21; 22]
      end
  | InIndexOfDt arr lookup =>
      let fits := lk_max lookup + 2 <=? dt_hi int32 in
      if negb (forallb (in_dt_b int32) lookup && (negb fits || (lk_max lookup <? 1048576))) then [3] else
      match as_list o with None => [3] | Some ol =>
        judge (fits && sorted_lt_b (np_sort lookup) && forallb (fun v => 0 <=? v) lookup &&
               forallb (fun x => (x =? -1) || memZ x lookup) arr)
              (index_of_dt int32 arr lookup) zlist_eqb ol
              (fun r => flag 25 (indexof_b arr lookup r)) [25]
      end
  | InBad => [3]
  end.

Definition check (c : case) : list Z :=
  match cobs c with
  | ObsAll [] => [3]
  | ObsAll l => nodupZ (flat_map (check1 (cin c)) l)
  end.

Definition run (cases : list case) : list (Z * Z) :=
  flat_map (fun c => map (fun code => (cid c, code)) (check c)) cases.
