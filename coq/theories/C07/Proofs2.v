(* C07/Proofs2.v -- stage 2: the helper functions (_unique, _index_of, _flatten_per_cluster,
   grouped_mean, get_template_counts) meet their set-theoretic definitions, and the boolean
   comparator clauses 24-28 imply the declarative specifications. *)
From Coq Require Import ZArith List Lia Bool Arith Permutation Sorted ZifyBool.
From PV Require Import Base.NpSort C07.Model C07.Spec C07.Proofs.
Import ListNotations.
Open Scope Z_scope.

(* ---------- generic list facts ---------- *)
Lemma Forall2_nth_error {A B} (R : A -> B -> Prop) (a : list A) (b : list B) :
  length a = length b ->
  (forall k x y, nth_error a k = Some x -> nth_error b k = Some y -> R x y) -> Forall2 R a b.
Proof.
  revert b; induction a as [|x a IH]; intros [|y b] Hl H; cbn [length] in Hl; try discriminate; constructor.
  - apply (H 0%nat); reflexivity.
  - apply IH; [lia|]. intros k. apply (H (S k)).
Qed.

Lemma Forall2_length' {A B} (R : A -> B -> Prop) a b : Forall2 R a b -> length a = length b.
Proof. induction 1; cbn [length]; lia. Qed.

Lemma Forall2_impl_in {A B} (P : A -> Prop) (R R' : A -> B -> Prop) a b :
  Forall P a -> Forall2 R a b -> (forall x y, P x -> R x y -> R' x y) -> Forall2 R' a b.
Proof.
  intros HP HR Himp. induction HR as [|x y a b Hxy HR IH]; constructor.
  - apply Himp; [now inversion HP|exact Hxy].
  - apply IH. now inversion HP.
Qed.

Lemma Forall2_impl' {A B} (R R' : A -> B -> Prop) a b :
  (forall x y, R x y -> R' x y) -> Forall2 R a b -> Forall2 R' a b.
Proof. intros H. induction 1; constructor; auto. Qed.

Lemma Forall2_map_r {A B} (R : A -> B -> Prop) (f : A -> B) a :
  (forall x, In x a -> R x (f x)) -> Forall2 R a (map f a).
Proof.
  induction a as [|x a IH]; intros H; cbn [map]; constructor.
  - apply H. now left.
  - apply IH. intros y Hy. apply H. now right.
Qed.

Lemma nth_error_repeat' {A} (a : A) n k : (k < n)%nat -> nth_error (repeat a n) k = Some a.
Proof.
  revert k; induction n as [|n IH]; intros k Hk; [lia|]. destruct k as [|k]; [reflexivity|].
  cbn [repeat nth_error]. apply IH. lia.
Qed.

Lemma fold_max_ge_init y r : y <= fold_right Z.max y r.
Proof. induction r as [|z r IH]; cbn [fold_right]; lia. Qed.
Lemma fold_max_ge_in y r v : In v r -> v <= fold_right Z.max y r.
Proof.
  induction r as [|z r IH]; [intros []|]. cbn [fold_right]. intros [->|H]; [lia|]. specialize (IH H). lia.
Qed.
Lemma lk_max_ge l v : In v l -> v <= lk_max l.
Proof.
  destruct l as [|y r]; [intros []|]. unfold lk_max. intros [->|H]; [apply fold_max_ge_init|now apply fold_max_ge_in].
Qed.
Lemma lk_max_in l : l <> [] -> In (lk_max l) l.
Proof.
  destruct l as [|y r]; [congruence|]. intros _. unfold lk_max.
  induction r as [|z r IH]; [now left|]. cbn [fold_right].
  destruct (Z.max_spec z (fold_right Z.max y r)) as [[_ ->]|[_ ->]].
  - destruct IH as [E|H]; [left; exact E|right; now right].
  - right. now left.
Qed.

Lemma sorted_lt_b_sound l : sorted_lt_b l = true -> StronglySorted Z.lt l.
Proof.
  induction l as [|x r IH]; intros H; [constructor|]. cbn [sorted_lt_b] in H.
  destruct r as [|y r']; [constructor; constructor|].
  apply andb_true_iff in H as [Hxy Hr]. specialize (IH Hr). constructor; [exact IH|].
  apply StronglySorted_inv in IH as [_ Hall]. constructor; [lia|].
  eapply Forall_impl; [|exact Hall]. cbn. intros z Hz. lia.
Qed.

Lemma memZ_In x l : memZ x l = true <-> In x l.
Proof.
  induction l as [|y r IH]; cbn [memZ In]; [split; [discriminate|tauto]|].
  rewrite orb_true_iff, IH, Z.eqb_eq. split; intros [H|H]; auto.
Qed.

Lemma zlist_eqb_eq a b : zlist_eqb a b = true -> a = b.
Proof.
  revert b; induction a as [|x a IH]; intros [|y b] H; cbn [zlist_eqb] in H; try discriminate; [reflexivity|].
  apply andb_true_iff in H as [E H]. apply Z.eqb_eq in E. subst y. f_equal. now apply IH.
Qed.

(* ---------- np.add.at / np.bincount ---------- *)
(* the sum of the weights added to cell k *)
Definition wsum (k : nat) (iw : list (Z * Z)) : Z :=
  zsum (map snd (filter (fun p => fst p =? Z.of_nat k) iw)).

Lemma wsum_cons k p r : wsum k (p :: r) = (if fst p =? Z.of_nat k then snd p else 0) + wsum k r.
Proof. unfold wsum, zsum. cbn [filter]. destruct (fst p =? Z.of_nat k); cbn [map fold_right]; lia. Qed.

Lemma add_nth_spec t i v : (i < length t)%nat ->
  exists t', add_nth t i v = Some t' /\ length t' = length t /\
    forall k x, nth_error t k = Some x -> nth_error t' k = Some (x + if (k =? i)%nat then v else 0).
Proof.
  revert i; induction t as [|y r IH]; intros i Hi; cbn [length] in Hi; [lia|].
  destruct i as [|i]; cbn [add_nth].
  - eexists; split; [reflexivity|]. split; [reflexivity|]. intros [|k] x Hk; cbn [nth_error] in *.
    + injection Hk as <-. reflexivity.
    + rewrite Hk. f_equal. cbn [Nat.eqb]. lia.
  - destruct (IH i) as (t' & E & L & N); [lia|]. rewrite E. cbn [option_map]. eexists; split; [reflexivity|].
    split; [cbn [length]; lia|]. intros [|k] x Hk; cbn [nth_error] in *.
    + injection Hk as <-. f_equal. cbn [Nat.eqb]. lia.
    + rewrite (N k x Hk). reflexivity.
Qed.

Lemma add_at_spec iw : forall t,
  (forall p, In p iw -> 0 <= fst p < Z.of_nat (length t)) ->
  exists t', add_at t iw = Some t' /\ length t' = length t /\
    forall k x, nth_error t k = Some x -> nth_error t' k = Some (x + wsum k iw).
Proof.
  induction iw as [|p r IH]; intros t H.
  - exists t. split; [reflexivity|]. split; [reflexivity|]. intros k x Hk. rewrite Hk. f_equal.
    unfold wsum, zsum. cbn [filter map fold_right]. lia.
  - cbn [add_at]. assert (Hp := H p (or_introl eq_refl)).
    replace (fst p <? 0) with false by lia.
    destruct (add_nth_spec t (Z.to_nat (fst p)) (snd p)) as (t1 & E & L & N); [lia|]. rewrite E.
    destruct (IH t1) as (t' & E' & L' & N'); [intros q Hq; rewrite L; apply H; now right|].
    exists t'. split; [exact E'|]. split; [lia|]. intros k x Hk.
    rewrite (N' k _ (N k x Hk)). f_equal. rewrite wsum_cons.
    destruct (k =? Z.to_nat (fst p))%nat eqn:Ek; destruct (fst p =? Z.of_nat k) eqn:Ek'; lia.
Qed.

Lemma wsum_ones k x :
  wsum k (combine x (repeat 1 (length x))) = Z.of_nat (count_occ Z.eq_dec x (Z.of_nat k)).
Proof.
  induction x as [|y r IH]; [reflexivity|]. cbn [length repeat combine]. rewrite wsum_cons, IH.
  cbn [fst snd count_occ]. destruct (Z.eq_dec y (Z.of_nat k)); destruct (y =? Z.of_nat k) eqn:E; lia.
Qed.

Lemma bc_len_gt x ml v : In v x -> v < bc_len x ml.
Proof.
  destruct x as [|y r]; [intros []|]. intros H. unfold bc_len.
  assert (v <= fold_right Z.max y r) by (destruct H as [->|H]; [apply fold_max_ge_init|now apply fold_max_ge_in]).
  lia.
Qed.

Lemma bc_len_nonneg x ml : Forall (fun v => 0 <= v) x -> 0 <= bc_len x ml.
Proof.
  destruct x as [|y r]; intros H; unfold bc_len; [lia|].
  inversion H; subst. pose proof (fold_max_ge_init y r). lia.
Qed.

(* np.bincount(x, minlength=ml) of non-negative x: max(max x + 1, ml) cells, cell k = #{i | x[i] = k} *)
Lemma bincount_spec x ml : Forall (fun v => 0 <= v) x ->
  exists bc, bincount x ml = Some bc /\ Z.of_nat (length bc) = bc_len x ml /\
    forall k, (k < length bc)%nat -> nth_error bc k = Some (Z.of_nat (count_occ Z.eq_dec x (Z.of_nat k))).
Proof.
  intros Hx. unfold bincount, bincount_w.
  assert (Hf : forallb (fun v => 0 <=? v) x = true).
  { apply forallb_forall. intros v Hv. rewrite Forall_forall in Hx. specialize (Hx v Hv). lia. }
  rewrite Hf. pose proof (bc_len_nonneg x ml Hx) as Hn.
  destruct (add_at_spec (combine x (repeat 1 (length x))) (repeat 0 (Z.to_nat (bc_len x ml)))) as (t & E & L & N).
  { intros p Hp. rewrite repeat_length. destruct p as [a b]. apply in_combine_l in Hp. cbn [fst].
    rewrite Forall_forall in Hx. pose proof (Hx a Hp). pose proof (bc_len_gt x ml a Hp). lia. }
  rewrite repeat_length in L. exists t. split; [exact E|]. split; [lia|]. intros k Hk.
  rewrite (N k 0) by (apply nth_error_repeat'; lia). rewrite wsum_ones. f_equal.
Qed.

(* a negative element: ValueError *)
Lemma bincount_neg x ml : Exists (fun v => v < 0) x -> bincount x ml = None.
Proof.
  intros H. unfold bincount, bincount_w. destruct (forallb (fun v => 0 <=? v) x) eqn:E; [|reflexivity].
  apply Exists_exists in H as (v & Hv & Hneg). rewrite forallb_forall in E. specialize (E v Hv). lia.
Qed.

(* ---------- _unique ---------- *)
Lemma filter_nonneg_forall x : Forall (fun v => 0 <= v) (filter (fun v => 0 <=? v) x).
Proof. apply Forall_forall. intros v Hv. apply filter_In in Hv as [_ Hv]. lia. Qed.

Lemma unique_spec x : exists r, unique x = Some r /\ Unique_Spec x r.
Proof.
  destruct x as [|x0 x'].
  - exists []. split; [reflexivity|]. split; [constructor|]. intros c. cbn [In]. tauto.
  - unfold unique. set (xs := x0 :: x'). set (f := filter (fun v => 0 <=? v) xs).
    destruct (bincount_spec f 0 (filter_nonneg_forall xs)) as (bc & E & L & N). rewrite E.
    eexists; split; [reflexivity|]. unfold nonzero. split.
    + apply sorted_map_of_nat, nonzero_from_sorted.
    + intros c. rewrite in_map_iff. split.
      * intros (k & <- & Hk). apply nonzero_from_in in Hk as (i & -> & Hi). cbn [Nat.add] in *.
        rewrite nth_error_map in Hi. destruct (nth_error bc i) as [cnt|] eqn:Ei; [|discriminate].
        cbn [option_map] in Hi. injection Hi as Hi.
        assert (Hlt : (i < length bc)%nat) by (apply nth_error_Some; congruence).
        rewrite (N i Hlt) in Ei. injection Ei as <-.
        assert (Hin : In (Z.of_nat i) f) by (apply (count_occ_In Z.eq_dec); lia).
        apply filter_In in Hin as [Hin _]. split; [exact Hin|lia].
      * intros (Hin & Hc). exists (Z.to_nat c). split; [lia|]. apply nonzero_from_in.
        exists (Z.to_nat c). split; [reflexivity|]. rewrite nth_error_map.
        assert (Hf : In c f) by (apply filter_In; split; [exact Hin|lia]).
        pose proof (bc_len_gt f 0 c Hf) as Hlt.
        rewrite N by lia. cbn [option_map]. f_equal. rewrite Z2Nat.id by lia.
        apply (count_occ_In Z.eq_dec) in Hf. lia.
Qed.

Lemma unique_spec_unique x r r' : Unique_Spec x r -> Unique_Spec x r' -> r' = r.
Proof.
  intros (S1 & H1) (S2 & H2). apply sorted_ext; [exact S2|exact S1|]. intros c. now rewrite H1, H2.
Qed.

Lemma unique_thm x :
  exists r, unique x = Some r /\ Unique_Spec x r /\ forall r', Unique_Spec x r' -> r' = r.
Proof.
  destruct (unique_spec x) as (r & E & U). exists r. split; [exact E|]. split; [exact U|].
  intros r' U'. exact (unique_spec_unique x r r' U U').
Qed.

(* ---------- _index_of ---------- *)
Lemma set_nth_spec {A} (l : list A) i v : (i < length l)%nat ->
  exists l', set_nth l i v = Some l' /\ length l' = length l /\
    nth_error l' i = Some v /\ forall j, j <> i -> nth_error l' j = nth_error l j.
Proof.
  revert i; induction l as [|y r IH]; intros i Hi; cbn [length] in Hi; [lia|].
  destruct i as [|i]; cbn [set_nth].
  - eexists; split; [reflexivity|]. split; [reflexivity|]. split; [reflexivity|].
    intros [|j] Hj; [congruence|reflexivity].
  - destruct (IH i) as (l' & E & L & Hs & Ho); [lia|]. rewrite E. cbn [option_map].
    eexists; split; [reflexivity|]. split; [cbn [length]; lia|]. split; [exact Hs|].
    intros [|j] Hj; [reflexivity|]. cbn [nth_error]. apply Ho. congruence.
Qed.

Lemma py_set_nonneg {A} (l : list A) i v : 0 <= i < Z.of_nat (length l) ->
  py_set l i v = set_nth l (Z.to_nat i) v.
Proof. intros H. unfold py_set. replace ((0 <=? i) && (i <? Z.of_nat (length l))) with true by lia. reflexivity. Qed.

Lemma py_get_nonneg {A} (l : list A) i : 0 <= i < Z.of_nat (length l) ->
  py_get l i = nth_error l (Z.to_nat i).
Proof. intros H. unfold py_get. replace ((0 <=? i) && (i <? Z.of_nat (length l))) with true by lia. reflexivity. Qed.

Lemma py_get_neg {A} (l : list A) i : - Z.of_nat (length l) <= i < 0 ->
  py_get l i = nth_error l (Z.to_nat (i + Z.of_nat (length l))).
Proof.
  intros H. unfold py_get. replace ((0 <=? i) && (i <? Z.of_nat (length l))) with false by lia.
  replace ((- Z.of_nat (length l) <=? i) && (i <? 0)) with true by lia. reflexivity.
Qed.

Lemma py_get_out {A} (l : list A) i : i < - Z.of_nat (length l) \/ Z.of_nat (length l) <= i ->
  py_get l i = None.
Proof.
  intros H. unfold py_get. replace ((0 <=? i) && (i <? Z.of_nat (length l))) with false by lia.
  replace ((- Z.of_nat (length l) <=? i) && (i <? 0)) with false by lia. reflexivity.
Qed.

(* tmp[keys] = vals for distinct in-range non-negative keys *)
Lemma py_scatter_spec (ws : list (Z * Z)) : forall t,
  NoDup (map fst ws) -> (forall p, In p ws -> 0 <= fst p < Z.of_nat (length t)) ->
  exists t', py_scatter t ws = Some t' /\ length t' = length t /\
    (forall p, In p ws -> nth_error t' (Z.to_nat (fst p)) = Some (snd p)) /\
    (forall j, ~ In (Z.of_nat j) (map fst ws) -> nth_error t' j = nth_error t j).
Proof.
  induction ws as [|w r IH]; intros t Hnd Hr.
  - exists t. split; [reflexivity|]. split; [reflexivity|]. split; [intros p []|reflexivity].
  - cbn [py_scatter]. assert (Hw := Hr w (or_introl eq_refl)). rewrite py_set_nonneg by exact Hw.
    destruct (set_nth_spec t (Z.to_nat (fst w)) (snd w)) as (t1 & E & L & Hs & Ho); [lia|]. rewrite E.
    cbn [map] in Hnd. apply NoDup_cons_iff in Hnd as [Hnin Hnd].
    destruct (IH t1 Hnd) as (t' & E' & L' & Hin & Hout).
    { intros p Hp. rewrite L. apply Hr. now right. }
    exists t'. split; [exact E'|]. split; [lia|]. split.
    + intros p [<-|Hp]; [|now apply Hin]. rewrite Hout; [exact Hs|]. rewrite Z2Nat.id by lia. exact Hnin.
    + intros j Hj. cbn [map In] in Hj. rewrite Hout by tauto. apply Ho. intros ->. apply Hj. left. lia.
Qed.

Lemma in_combine_arange_from (l : list Z) s i x :
  nth_error l i = Some x -> In (x, Z.of_nat (s + i)) (combine l (map Z.of_nat (seq s (length l)))).
Proof.
  revert s i; induction l as [|y r IH]; intros s [|i] H; cbn [nth_error] in H; try discriminate.
  - injection H as ->. cbn [length seq map combine]. left. f_equal. f_equal. lia.
  - cbn [length seq map combine]. right. replace (s + S i)%nat with (S s + i)%nat by lia. now apply IH.
Qed.

Lemma table_len_ge2 lookup : Forall (fun v => 0 <= v) lookup -> 2 <= table_len lookup.
Proof.
  intros H. unfold table_len. destruct lookup as [|y r]; [cbn; lia|].
  inversion H; subst. pose proof (lk_max_ge (y :: r) y (or_introl eq_refl)). lia.
Qed.

(* the contents of the table after tmp[-1] = -1 ; tmp[lookup] = arange *)
Lemma index_table_spec lookup :
  NoDup lookup -> Forall (fun v => 0 <= v) lookup ->
  exists tmp tmp',
    py_set (repeat 0 (Z.to_nat (table_len lookup))) (-1) (-1) = Some tmp /\
    py_scatter tmp (combine lookup (arange (length lookup))) = Some tmp' /\
    Z.of_nat (length tmp') = table_len lookup /\
    forall y, 0 <= y < table_len lookup ->
      exists k, nth_error tmp' (Z.to_nat y) = Some k /\
        ((In y lookup /\ 0 <= k /\ nth_error lookup (Z.to_nat k) = Some y) \/
         (y = table_len lookup - 1 /\ k = -1) \/
         (~ In y lookup /\ y <> table_len lookup - 1 /\ k = 0)).
Proof.
  intros Hnd Hnn. pose proof (table_len_ge2 lookup Hnn) as HN. set (N := table_len lookup) in *.
  set (t0 := repeat 0 (Z.to_nat N)).
  assert (L0 : length t0 = Z.to_nat N) by apply repeat_length.
  (* tmp[-1] = -1 *)
  assert (E1 : py_set t0 (-1) (-1) = set_nth t0 (Z.to_nat (N - 1)) (-1)).
  { unfold py_set. rewrite L0.
    replace ((0 <=? -1) && (-1 <? Z.of_nat (Z.to_nat N))) with false by lia.
    replace ((- Z.of_nat (Z.to_nat N) <=? -1) && (-1 <? 0)) with true by lia.
    do 2 f_equal. lia. }
  destruct (set_nth_spec t0 (Z.to_nat (N - 1)) (-1)) as (tmp & E & L & Hs & Ho); [lia|].
  exists tmp. rewrite E1, E.
  set (ws := combine lookup (arange (length lookup))).
  assert (Hfst : map fst ws = lookup).
  { unfold ws. apply map_fst_combine. rewrite arange_length. lia. }
  assert (Hmax : forall x, In x lookup -> 0 <= x < N - 1).
  { intros x Hx. rewrite Forall_forall in Hnn. pose proof (Hnn x Hx). pose proof (lk_max_ge lookup x Hx).
    unfold N, table_len. lia. }
  destruct (py_scatter_spec ws tmp) as (tmp' & E' & L' & Hin & Hout).
  { now rewrite Hfst. }
  { intros [a b] Hp. apply in_combine_l in Hp. cbn [fst]. specialize (Hmax a Hp). lia. }
  exists tmp'. split; [reflexivity|]. split; [exact E'|]. split; [lia|].
  intros y Hy. destruct (in_dec Z.eq_dec y lookup) as [Hyl|Hyl].
  - apply In_nth_error in Hyl as (i & Hi).
    pose proof (in_combine_arange_from lookup 0 i y Hi) as Hp. cbn [Nat.add] in Hp.
    specialize (Hin _ Hp). cbn [fst snd] in Hin. exists (Z.of_nat i). split; [exact Hin|].
    left. split; [eapply nth_error_In; exact Hi|]. split; [lia|]. now rewrite Nat2Z.id.
  - rewrite Hfst in Hout. rewrite Hout by (rewrite Z2Nat.id by lia; exact Hyl).
    destruct (Z.eq_dec y (N - 1)) as [->|Hne].
    + exists (-1). split; [exact Hs|]. right. left. split; reflexivity.
    + exists 0. split.
      * rewrite Ho by lia. apply nth_error_repeat'. lia.
      * right. right. repeat split; assumption.
Qed.

Lemma py_gather_spec {A} (t : list A) (R : Z -> A -> Prop) (P : Z -> Prop) arr :
  (forall x, P x -> exists k, py_get t x = Some k /\ R x k) ->
  Forall P arr -> exists r, py_gather t arr = Some r /\ Forall2 R arr r.
Proof.
  intros H. induction arr as [|x a IH]; intros HP.
  - exists []. split; [reflexivity|constructor].
  - inversion HP as [|? ? Hx Ha]; subst. destruct (H x Hx) as (k & E & Hk). destruct (IH Ha) as (r & E' & Hr).
    exists (k :: r). cbn [py_gather]. rewrite E, E'. split; [reflexivity|]. now constructor.
Qed.

Lemma py_gather_none {A} (t : list A) arr :
  Exists (fun x => py_get t x = None) arr -> py_gather t arr = None.
Proof.
  induction 1 as [x a Hx|x a Ha IH]; cbn [py_gather].
  - now rewrite Hx.
  - rewrite IH. now destruct (py_get t x).
Qed.

Lemma index_of_unfold arr lookup tmp tmp' :
  0 <= table_len lookup ->
  py_set (repeat 0 (Z.to_nat (table_len lookup))) (-1) (-1) = Some tmp ->
  py_scatter tmp (combine lookup (arange (length lookup))) = Some tmp' ->
  index_of arr lookup = py_gather tmp' arr.
Proof.
  intros HN E1 E2. unfold index_of. fold (lk_max lookup).
  replace (lk_max lookup + 1 + 1) with (table_len lookup) by (unfold table_len; lia).
  replace (table_len lookup <? 0) with false by lia. now rewrite E1, E2.
Qed.

(* complete behaviour for a distinct non-negative lookup (sorted or not) *)
Lemma index_of_full arr lookup :
  NoDup lookup -> Forall (fun v => 0 <= v) lookup ->
  (Forall (fun x => - table_len lookup <= x < table_len lookup) arr ->
     exists r, index_of arr lookup = Some r /\ IndexOf_Full arr lookup r) /\
  (Exists (fun x => x < - table_len lookup \/ table_len lookup <= x) arr -> index_of arr lookup = None).
Proof.
  intros Hnd Hnn. pose proof (table_len_ge2 lookup Hnn) as HN.
  destruct (index_table_spec lookup Hnd Hnn) as (tmp & tmp' & E1 & E2 & L & T).
  rewrite (index_of_unfold arr lookup tmp tmp') by (try lia; assumption). split.
  - apply py_gather_spec. intros x Hx. unfold IndexOf1. cbn zeta.
    destruct (x <? 0) eqn:Ex.
    + rewrite py_get_neg by lia. rewrite L. apply T. lia.
    + rewrite py_get_nonneg by lia. apply T. lia.
  - intros H. apply py_gather_none. eapply Exists_impl; [|exact H]. cbn beta. intros x Hx.
    apply py_get_out. lia.
Qed.

(* the stated use: every queried id is in the lookup or is -1 *)
Lemma index_of_members arr lookup :
  NoDup lookup -> Forall (fun v => 0 <= v) lookup -> Forall (fun x => x = -1 \/ In x lookup) arr ->
  exists r, index_of arr lookup = Some r /\ IndexOf_Spec arr lookup r /\
            forall r', IndexOf_Spec arr lookup r' -> r' = r.
Proof.
  intros Hnd Hnn Harr. pose proof (table_len_ge2 lookup Hnn) as HN.
  assert (Hmax : forall x, In x lookup -> 0 <= x < table_len lookup - 1).
  { intros x Hx. rewrite Forall_forall in Hnn. pose proof (Hnn x Hx). pose proof (lk_max_ge lookup x Hx).
    unfold table_len. lia. }
  destruct (index_of_full arr lookup Hnd Hnn) as [Hsome _].
  destruct Hsome as (r & E & F).
  { eapply Forall_impl; [|exact Harr]. cbn beta. intros x [->|Hx]; [lia|]. specialize (Hmax x Hx). lia. }
  assert (S : IndexOf_Spec arr lookup r).
  { unfold IndexOf_Spec. eapply (Forall2_impl_in _ _ _ _ _ Harr F). intros x k Hx Hk.
    unfold IndexOf1 in Hk. cbn zeta in Hk. destruct Hx as [->|Hx].
    - replace (-1 <? 0) with true in Hk by lia. left. split; [reflexivity|].
      destruct Hk as [(Hin & _)|[(_ & ->)|(_ & Hne & _)]]; [|reflexivity|lia].
      specialize (Hmax _ Hin). lia.
    - pose proof (Hmax x Hx). replace (x <? 0) with false in Hk by lia. right.
      destruct Hk as [(_ & Hk & Hn)|[(Hy & _)|(Hnin & _)]]; [|lia|contradiction].
      repeat split; [lia|exact Hk|exact Hn]. }
  exists r. split; [exact E|]. split; [exact S|].
  intros r' S'. unfold IndexOf_Spec in *. clear E F. revert r' S'. induction S as [|x k a b Hxk S IH]; intros r' S'.
  - now inversion S'.
  - inversion S' as [|? k' ? b' Hxk' S'']; subst. inversion Harr as [|? ? Hx Ha]; subst.
    f_equal; [|apply IH; assumption].
    destruct Hxk as [(-> & ->)|(Hx0 & Hk0 & Hn)]; destruct Hxk' as [(Hx1 & ->)|(Hx1 & Hk1 & Hn')]; try lia.
    assert (Hlt : (Z.to_nat k < length lookup)%nat) by (apply nth_error_Some; congruence).
    pose proof (proj1 (NoDup_nth_error lookup) Hnd (Z.to_nat k) (Z.to_nat k') Hlt) as Hinj.
    rewrite Hn, Hn' in Hinj. specialize (Hinj eq_refl). lia.
Qed.

(* ---------- np.sort / np.unique, _flatten_per_cluster ---------- *)
Lemma sortedk_keys {V} (s : list (Z * V)) : sortedk s -> StronglySorted Z.le (map fst s).
Proof.
  induction 1 as [|x|x y r Hxy Hs IH]; cbn [map]; [constructor|constructor; constructor|].
  cbn [map] in IH. constructor; [exact IH|]. apply StronglySorted_inv in IH as [_ Hall].
  constructor; [exact Hxy|]. eapply Forall_impl; [|exact Hall]. cbn beta. intros z Hz. lia.
Qed.

Lemma np_sort_sorted l : StronglySorted Z.le (np_sort l).
Proof. unfold np_sort. apply sortedk_keys, isort_sorted. Qed.

Lemma np_sort_perm l : Permutation (np_sort l) l.
Proof.
  unfold np_sort. transitivity (map fst (map (fun x : Z => (x, tt)) l)).
  - apply Permutation_map, isort_perm.
  - rewrite map_map. cbn [fst]. rewrite map_id. reflexivity.
Qed.

Lemma dedup_cons2 x y r :
  dedup_sorted (x :: y :: r) = if x =? y then dedup_sorted (y :: r) else x :: dedup_sorted (y :: r).
Proof. reflexivity. Qed.

Lemma dedup_spec l : StronglySorted Z.le l ->
  StronglySorted Z.lt (dedup_sorted l) /\ forall x, In x (dedup_sorted l) <-> In x l.
Proof.
  induction l as [|x r IH]; intros Hs; [split; [constructor|tauto]|].
  apply StronglySorted_inv in Hs as [Hr Hall]. specialize (IH Hr) as [IHs IHi].
  destruct r as [|y r'].
  - cbn [dedup_sorted]. split; [constructor; constructor|tauto].
  - rewrite dedup_cons2. destruct (x =? y) eqn:E.
    + split; [exact IHs|]. intros z. rewrite IHi. split; [intros H; now right|].
      intros [<-|H]; [left; lia|exact H].
    + split.
      * constructor; [exact IHs|]. apply Forall_forall. intros z Hz. apply IHi in Hz.
        inversion Hall as [|? ? Hxy _]; subst. apply StronglySorted_inv in Hr as [_ Hy].
        rewrite Forall_forall in Hy. destruct Hz as [<-|Hz]; [lia|]. specialize (Hy z Hz). lia.
      * intros z. cbn [In]. rewrite IHi. cbn [In]. tauto.
Qed.

Lemma np_unique_spec l :
  StronglySorted Z.lt (np_unique l) /\ forall x, In x (np_unique l) <-> In x l.
Proof.
  unfold np_unique. destruct (dedup_spec (np_sort l) (np_sort_sorted l)) as (Hs & Hi). split; [exact Hs|].
  intros x. rewrite Hi. split; apply Permutation_in; [apply np_sort_perm|apply Permutation_sym, np_sort_perm].
Qed.

Lemma in_all_ids (d : list group) i :
  In i (concat (map g_ids d)) <-> exists g, In g d /\ In i (g_ids g).
Proof.
  rewrite in_concat. split.
  - intros (l & Hl & Hi). apply in_map_iff in Hl as (g & <- & Hg). now exists g.
  - intros (g & Hg & Hi). exists (g_ids g). split; [now apply in_map|exact Hi].
Qed.

Lemma flatten_thm (d : list group) :
  (d <> [] -> exists r, flatten_per_cluster d = Some r /\ Flatten_Spec d r /\
                        forall r', Flatten_Spec d r' -> r' = r) /\
  (d = [] -> flatten_per_cluster d = None).
Proof.
  split; [|intros ->; reflexivity]. intros Hne. destruct d as [|g0 d']; [congruence|].
  unfold flatten_per_cluster. set (d := g0 :: d').
  destruct (np_unique_spec (concat (map g_ids d))) as (Hs & Hi).
  eexists; split; [reflexivity|]. split.
  - split; [exact Hs|]. intros i. now rewrite Hi, in_all_ids.
  - intros r' (Hs' & Hi'). apply sorted_ext; [exact Hs'|exact Hs|]. intros i. now rewrite Hi, Hi', in_all_ids.
Qed.

(* ---------- grouped_mean ---------- *)
Lemma wsum_members k c : forall sc rel arr,
  Forall2 (fun x j => j = Z.of_nat k <-> x = c) sc rel ->
  wsum k (combine rel arr) = zsum (members sc arr c).
Proof.
  unfold members. induction sc as [|x sc IH]; intros rel arr F; inversion F as [|? j ? rel' Hxj F']; subst.
  - reflexivity.
  - destruct arr as [|a arr]; [reflexivity|]. cbn [combine]. rewrite wsum_cons. cbn [fst snd filter].
    unfold eqk at 1. cbn [fst]. rewrite (IH rel' arr F').
    destruct (j =? Z.of_nat k) eqn:Ej; destruct (x =? c) eqn:Ex; unfold zsum; cbn [map snd fold_right]; lia.
Qed.

Lemma members_ones_length sc c : forall arr, (length sc <= length arr)%nat ->
  zsum (members sc (repeat 1 (length sc)) c) = Z.of_nat (length (members sc arr c)).
Proof.
  unfold members. induction sc as [|x sc IH]; intros arr H; [reflexivity|].
  destruct arr as [|a arr]; cbn [length] in H; [lia|]. cbn [length repeat combine].
  specialize (IH arr ltac:(lia)). destruct (Z.eq_dec x c) as [E|E].
  - rewrite !filter_cons_eq by exact E. cbn [map snd length]. unfold zsum in *. cbn [fold_right]. lia.
  - rewrite !filter_cons_neq by exact E. exact IH.
Qed.

Lemma members_in sc arr c : (length sc <= length arr)%nat -> In c sc -> (0 < length (members sc arr c))%nat.
Proof.
  unfold members. revert arr; induction sc as [|x sc IH]; intros arr H Hin; [destruct Hin|].
  destruct arr as [|a arr]; cbn [length] in H; [lia|]. cbn [combine filter]. unfold eqk at 1. cbn [fst].
  destruct (x =? c) eqn:E; [cbn [map length]; lia|]. destruct Hin as [->|Hin]; [lia|]. apply IH; [lia|exact Hin].
Qed.

(* the reference result satisfies the declarative statement, and is the only list that does *)
Lemma gmean_ref_spec arr sc : (length sc <= length arr)%nat -> GMean_Spec arr sc (gmean_ref arr sc).
Proof.
  intros Hl. unfold GMean_Spec, gmean_ref. set (ids := np_unique (filter (fun v => 0 <=? v) sc)).
  destruct (np_unique_spec (filter (fun v => 0 <=? v) sc)) as (Hs & Hi). fold ids in Hs, Hi.
  assert (U : Unique_Spec sc ids).
  { split; [exact Hs|]. intros c. rewrite Hi, filter_In. split; intros [H1 H2]; split; auto; lia. }
  exists ids. split; [exact U|]. apply Forall2_map_r. intros c Hc. cbn [gm_sum gm_cnt].
  split; [reflexivity|]. split; [reflexivity|]. apply (proj2 U) in Hc as [Hc _].
  pose proof (members_in sc arr c Hl Hc). lia.
Qed.

Lemma gmean_spec_unique arr sc r : GMean_Spec arr sc r -> r = gmean_ref arr sc.
Proof.
  intros (ids & U & F). unfold gmean_ref. set (ids' := np_unique (filter (fun v => 0 <=? v) sc)).
  assert (E : ids = ids').
  { destruct (np_unique_spec (filter (fun v => 0 <=? v) sc)) as (Hs & Hi). fold ids' in Hs, Hi.
    apply (unique_spec_unique sc); [|exact U]. split; [exact Hs|]. intros c. rewrite Hi, filter_In.
    split; intros [H1 H2]; split; auto; lia. }
  rewrite <- E. clear E ids' U. induction F as [|c g ids r (H1 & H2 & _) F IH]; [reflexivity|].
  cbn [map]. rewrite <- IH. f_equal. destruct g as [s n]. cbn [gm_sum gm_cnt] in *. now subst.
Qed.

Lemma grouped_mean_thm arr sc :
  length arr = length sc -> Forall (fun c => 0 <= c) sc ->
  exists r, grouped_mean arr sc = Some r /\ GMean_Spec arr sc r /\
            forall r', GMean_Spec arr sc r' -> r' = r.
Proof.
  intros Hl Hnn. unfold grouped_mean. rewrite Hl, Nat.eqb_refl. cbn [negb].
  destruct (unique_spec sc) as (ids & Eu & U). rewrite Eu. destruct U as (Hs & Hi).
  assert (Hnd : NoDup ids) by now apply sorted_lt_NoDup.
  assert (Hids : Forall (fun v => 0 <= v) ids).
  { apply Forall_forall. intros v Hv. now apply Hi in Hv. }
  assert (Hsc : Forall (fun x => x = -1 \/ In x ids) sc).
  { rewrite Forall_forall in *. intros x Hx. right. apply Hi. split; [exact Hx|now apply Hnn]. }
  destruct (index_of_members sc ids Hnd Hids Hsc) as (rel & Ei & S & _). rewrite Ei.
  (* rel[i] = the position of sc[i] in ids *)
  assert (P : Forall2 (fun x j => 0 <= j /\ nth_error ids (Z.to_nat j) = Some x) sc rel).
  { unfold IndexOf_Spec in S. eapply (Forall2_impl_in _ _ _ _ _ Hnn S). intros x j Hx [(-> & _)|(_ & Hj & Hn)]; [lia|].
    split; assumption. }
  assert (Hrel : Forall (fun j => 0 <= j < Z.of_nat (length ids)) rel).
  { clear -P. induction P as [|x j sc rel (Hj & Hn) P IH]; constructor; [|exact IH].
    assert ((Z.to_nat j < length ids)%nat) by (apply nth_error_Some; congruence). lia. }
  assert (Hkey : forall k c, nth_error ids k = Some c ->
                 Forall2 (fun x j => j = Z.of_nat k <-> x = c) sc rel).
  { intros k c Hk. eapply Forall2_impl'; [|exact P]. cbn beta. intros x j (Hj & Hn). split.
    - intros ->. rewrite Nat2Z.id in Hn. congruence.
    - intros ->. assert (Hlt : (Z.to_nat j < length ids)%nat) by (apply nth_error_Some; congruence).
      pose proof (proj1 (NoDup_nth_error ids) Hnd (Z.to_nat j) k Hlt) as Hinj.
      rewrite Hn, Hk in Hinj. specialize (Hinj eq_refl). lia. }
  assert (Hlr : length rel = length sc) by (symmetry; eapply Forall2_length'; exact P).
  assert (Hrnn : Forall (fun v => 0 <= v) rel) by (eapply Forall_impl; [|exact Hrel]; cbn beta; intros; lia).
  destruct (bincount_spec rel 0 Hrnn) as (counts & Ec & Lc & Nc). rewrite Ec.
  (* len(spike_counts) == len(cluster_ids) *)
  assert (Hlen : length counts = length ids).
  { destruct ids as [|i0 ids0] eqn:Eids.
    - destruct sc as [|x sc']; [|exfalso; inversion Hsc as [|? ? [->|[]] _]; subst; inversion Hnn; lia].
      inversion P; subst. cbn in Lc. cbn [length]. lia.
    - rewrite <- Eids in *. assert (Hne : ids <> []) by (rewrite Eids; discriminate).
      (* the last id occurs in sc, so max(rel) = len(ids) - 1 *)
      assert (Hlast : exists c, nth_error ids (length ids - 1) = Some c).
      { destruct (nth_error ids (length ids - 1)) eqn:E; [eauto|]. apply nth_error_None in E.
        rewrite Eids in E. cbn [length] in E. lia. }
      destruct Hlast as (c & Hc). pose proof (Hkey _ _ Hc) as F.
      assert (Hcs : In c sc) by (apply Hi; eapply nth_error_In; exact Hc).
      assert (Hin : In (Z.of_nat (length ids - 1)) rel).
      { clear -F Hcs. induction F as [|x j sc rel Hxj F IH]; [destruct Hcs|].
        destruct Hcs as [->|Hcs]; [left; now apply Hxj|right; now apply IH]. }
      pose proof (bc_len_gt rel 0 _ Hin) as Hgt.
      assert (Hle : bc_len rel 0 <= Z.of_nat (length ids)).
      { destruct rel as [|j0 rel0] eqn:Erel; [destruct Hin|]. rewrite <- Erel in *. unfold bc_len. rewrite Erel.
        assert (Hm : In (lk_max rel) rel) by (apply lk_max_in; rewrite Erel; discriminate).
        rewrite Forall_forall in Hrel. specialize (Hrel _ Hm). unfold lk_max in Hrel. rewrite Erel in Hrel. lia. }
      lia. }
  rewrite Hlen, Nat.eqb_refl. cbn [negb].
  destruct (add_at_spec (combine rel arr) (repeat 0 (length ids))) as (t & Et & Lt & Nt).
  { intros [a b] Hp. apply in_combine_l in Hp. cbn [fst]. rewrite repeat_length.
    rewrite Forall_forall in Hrel. now apply Hrel. }
  rewrite Et. rewrite repeat_length in Lt. eexists; split; [reflexivity|].
  assert (G : GMean_Spec arr sc (map (fun p => mkgm (fst p) (snd p)) (combine t counts))).
  { exists ids. split; [split; assumption|]. apply Forall2_nth_error.
    - rewrite map_length, combine_length. lia.
    - intros k c g Hk Hg. rewrite nth_error_map in Hg.
      destruct (nth_error (combine t counts) k) as [[s n]|] eqn:Ek; [|discriminate].
      cbn [option_map fst snd] in Hg. injection Hg as <-. cbn [gm_sum gm_cnt].
      assert (Hlt : (k < length ids)%nat) by (apply nth_error_Some; congruence).
      assert (Hs' : nth_error t k = Some s /\ nth_error counts k = Some n).
      { clear -Ek. revert k counts Ek; induction t as [|a t IH]; intros k counts Ek; [destruct k; discriminate|].
        destruct counts as [|b counts]; [destruct k; discriminate|]. destruct k as [|k]; cbn in *.
        - injection Ek as -> ->. split; reflexivity.
        - now apply IH. }
      destruct Hs' as (Ht & Hn).
      rewrite (Nt k 0) in Ht by (apply nth_error_repeat'; exact Hlt). injection Ht as <-.
      rewrite Nc in Hn by lia. injection Hn as <-.
      pose proof (Hkey k c Hk) as F.
      rewrite (wsum_members k c sc rel arr F).
      rewrite <- wsum_ones. rewrite Hlr.
      rewrite (wsum_members k c sc rel (repeat 1 (length sc)) F).
      rewrite (members_ones_length sc c arr) by lia.
      split; [lia|]. split; [reflexivity|].
      assert (In c sc) by (apply Hi; eapply nth_error_In; exact Hk).
      pose proof (members_in sc arr c ltac:(lia) H). lia. }
  split; [exact G|]. intros r' G'. rewrite (gmean_spec_unique _ _ _ G'). symmetry. now apply gmean_spec_unique.
Qed.

(* the guards, exactly as the code behaves *)
Lemma grouped_mean_len arr sc : length arr <> length sc -> grouped_mean arr sc = None.
Proof.
  intros H. unfold grouped_mean. destruct (length arr =? length sc)%nat eqn:E; [|reflexivity].
  apply Nat.eqb_eq in E. contradiction.
Qed.

(* "unclustered" spikes (id -1) are not skipped: np.bincount raises ValueError *)
Lemma grouped_mean_unclustered arr sc :
  length arr = length sc -> Forall (fun c => -1 <= c) sc -> In (-1) sc -> grouped_mean arr sc = None.
Proof.
  intros Hl Hge Hm. unfold grouped_mean. rewrite Hl, Nat.eqb_refl. cbn [negb].
  destruct (unique_spec sc) as (ids & Eu & (Hs & Hi)). rewrite Eu.
  assert (Hnd : NoDup ids) by now apply sorted_lt_NoDup.
  assert (Hids : Forall (fun v => 0 <= v) ids).
  { apply Forall_forall. intros v Hv. now apply Hi in Hv. }
  assert (Hsc : Forall (fun x => x = -1 \/ In x ids) sc).
  { rewrite Forall_forall in *. intros x Hx. specialize (Hge x Hx).
    destruct (Z.eq_dec x (-1)); [now left|right]. apply Hi. split; [exact Hx|lia]. }
  destruct (index_of_members sc ids Hnd Hids Hsc) as (rel & Ei & S & _). rewrite Ei.
  rewrite bincount_neg; [reflexivity|]. unfold IndexOf_Spec in S. clear -S Hm.
  induction S as [|x j sc rel Hxj S IH]; [destruct Hm|]. destruct Hm as [->|Hm].
  - left. destruct Hxj as [(_ & ->)|(H0 & _)]; lia.
  - right. now apply IH.
Qed.

(* ---------- get_template_counts ---------- *)
Lemma skipn_nth_error {A} (l : list A) i x : nth_error l i = Some x -> skipn i l = x :: skipn (S i) l.
Proof.
  revert i; induction l as [|y r IH]; intros [|i] H; cbn [nth_error] in H; try discriminate.
  - now injection H as ->.
  - cbn [skipn]. now apply IH.
Qed.

(* spike_templates[np.nonzero(spike_clusters == c)[0]] = the templates of the spikes of c, in order *)
Lemma gather_mask_members (c : Z) (f : Z -> bool) (st : list Z) :
  (forall x, f x = (x =? c)) -> forall sc i,
  (i + length sc <= length st)%nat ->
  gather st (nonzero_from i (map f sc)) = Some (map snd (filter (eqk c) (combine sc (skipn i st)))).
Proof.
  intros Hf. induction sc as [|x r IH]; intros i H; [reflexivity|]. cbn [length] in H.
  destruct (nth_error st i) as [y|] eqn:Ey; [|apply nth_error_None in Ey; lia].
  rewrite (skipn_nth_error st i y Ey). cbn [map nonzero_from combine]. rewrite Hf.
  destruct (x =? c) eqn:E.
  - cbn [gather]. rewrite Ey, (IH (S i)) by lia. rewrite filter_cons_eq by (cbn [fst]; lia). reflexivity.
  - rewrite (IH (S i)) by lia. rewrite filter_cons_neq by (cbn [fst]; lia). reflexivity.
Qed.

Lemma template_sel sc st c : (length sc <= length st)%nat ->
  gather st (sic_pos sc [c]) = Some (members sc st c).
Proof.
  intros H. rewrite sic_as_mask. unfold nonzero, members.
  rewrite (gather_mask_members c (isin [c]) st) by (try (intros x; cbn [isin existsb]; now rewrite orb_false_r); cbn [Nat.add]; lia).
  reflexivity.
Qed.

Lemma nth_error_ext {A} (a b : list A) :
  length a = length b -> (forall k, (k < length a)%nat -> nth_error a k = nth_error b k) -> a = b.
Proof.
  revert b; induction a as [|x a IH]; intros [|y b] Hl H; cbn [length] in *; try discriminate; [reflexivity|].
  f_equal.
  - specialize (H 0%nat ltac:(lia)). cbn in H. congruence.
  - apply IH; [lia|]. intros k Hk. apply (H (S k)). lia.
Qed.

Lemma counts_spec_unique sc st nt c r r' : Counts_Spec sc st nt c r -> Counts_Spec sc st nt c r' -> r' = r.
Proof.
  intros (L & N) (L' & N'). apply nth_error_ext; [lia|]. intros k Hk. rewrite N' by exact Hk. rewrite N by lia. reflexivity.
Qed.

Lemma template_counts_thm sc st nt c : (length sc <= length st)%nat ->
  (Forall (fun t => 0 <= t) (members sc st c) ->
     exists r, get_template_counts sc st nt c = Some r /\ Counts_Spec sc st nt c r /\
               forall r', Counts_Spec sc st nt c r' -> r' = r) /\
  (Exists (fun t => t < 0) (members sc st c) -> get_template_counts sc st nt c = None).
Proof.
  intros Hl. unfold get_template_counts. rewrite (template_sel sc st c Hl). split.
  - intros Hnn. destruct (bincount_spec (members sc st c) nt Hnn) as (r & E & L & N).
    assert (S : Counts_Spec sc st nt c r) by (split; assumption).
    exists r. split; [exact E|]. split; [exact S|]. intros r' S'. exact (counts_spec_unique _ _ _ _ _ _ S S').
  - apply bincount_neg.
Qed.

(* ---------- the boolean comparator clauses imply the declarative statements ---------- *)
Lemma unique_b_sound x r : unique_b x r = true -> Unique_Spec x r.
Proof.
  unfold unique_b. rewrite !andb_true_iff. intros ((Hs & Hr) & Hx). split; [now apply sorted_lt_b_sound|].
  rewrite forallb_forall in Hr, Hx. intros c. split.
  - intros Hc. specialize (Hr c Hc). apply andb_true_iff in Hr as [H0 Hm]. apply memZ_In in Hm. split; [exact Hm|lia].
  - intros (Hc & H0). specialize (Hx c Hc). apply orb_true_iff in Hx as [Hx|Hx]; [lia|now apply memZ_In].
Qed.

Lemma indexof_b_sound arr lookup r : indexof_b arr lookup r = true -> IndexOf_Spec arr lookup r.
Proof.
  unfold IndexOf_Spec. revert r; induction arr as [|x a IH]; intros [|k r] H; cbn [indexof_b] in H; try discriminate;
    [constructor|].
  apply andb_true_iff in H as [Hk Hr]. constructor; [|now apply IH].
  apply orb_true_iff in Hk as [Hk|Hk].
  - left. lia.
  - right. apply andb_true_iff in Hk as [Hk Hn]. destruct (nth_error lookup (Z.to_nat k)) as [y|]; [|discriminate].
    repeat split; try lia. f_equal. lia.
Qed.

Lemma flatten_b_sound d r : flatten_b d r = true -> Flatten_Spec d r.
Proof.
  unfold flatten_b. cbn zeta. rewrite !andb_true_iff. intros ((Hs & Hr) & Ha). split; [now apply sorted_lt_b_sound|].
  rewrite forallb_forall in Hr, Ha. intros i. rewrite <- in_all_ids. split; intros H.
  - apply memZ_In. now apply Hr.
  - apply memZ_In. now apply Ha.
Qed.

Lemma gml_eqb_eq a b : gml_eqb a b = true -> a = b.
Proof.
  revert b; induction a as [|x a IH]; intros [|y b] H; cbn [gml_eqb] in H; try discriminate; [reflexivity|].
  rewrite !andb_true_iff in H. destruct H as ((E1 & E2) & H). f_equal; [|now apply IH].
  destruct x as [s1 n1], y as [s2 n2]. cbn [gm_sum gm_cnt] in *. f_equal; lia.
Qed.

Lemma gmean_b_sound arr sc r : (length sc <= length arr)%nat -> gmean_b arr sc r = true -> GMean_Spec arr sc r.
Proof. intros Hl H. apply gml_eqb_eq in H. subst r. now apply gmean_ref_spec. Qed.

Lemma countZ_count_occ k l : countZ k l = Z.of_nat (count_occ Z.eq_dec l k).
Proof.
  unfold countZ. f_equal. induction l as [|y r IH]; [reflexivity|]. cbn [filter count_occ].
  destruct (Z.eq_dec y k); destruct (k =? y) eqn:E; try lia; cbn [length]; now rewrite IH.
Qed.

Lemma nth_error_arange n k : (k < n)%nat -> nth_error (arange n) k = Some (Z.of_nat k).
Proof.
  intros H. unfold arange. rewrite nth_error_map.
  rewrite (nth_error_nth' _ 0%nat) by (rewrite seq_length; lia). rewrite seq_nth by lia. reflexivity.
Qed.

Lemma counts_b_sound sc st nt c r : counts_b sc st nt c r = true -> Counts_Spec sc st nt c r.
Proof.
  unfold counts_b, Counts_Spec. cbn zeta. rewrite andb_true_iff. intros (Hl & He). split; [lia|].
  intros k Hk. apply zlist_eqb_eq in He. apply (f_equal (fun l => nth_error l k)) in He. rewrite He.
  rewrite nth_error_map, nth_error_arange by exact Hk. cbn [option_map]. now rewrite countZ_count_occ.
Qed.
