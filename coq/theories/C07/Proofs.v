(* C07/Proofs.v -- lemmas and main proofs for the spike-cluster index utilities. *)
From Coq Require Import ZArith List Lia Bool Arith Permutation Sorted.
From PV Require Import Base.NpSort C07.Model C07.Spec.
Import ListNotations.
Open Scope Z_scope.

(* ---------- selection by mask ---------- *)
Lemma nonzero_from_members (f : Z -> bool) (c : Z) (sc : list Z) (i : nat) :
  (forall x, f x = (x =? c)) ->
  map Z.of_nat (nonzero_from i (map f sc)) =
  map snd (filter (eqk c) (combine sc (map Z.of_nat (seq i (length sc))))).
Proof.
  intros Hf. revert i; induction sc as [|x r IH]; intros i; [reflexivity|].
  cbn [map nonzero_from length seq combine filter]. unfold eqk at 1. cbn [fst].
  rewrite Hf. destruct (x =? c); cbn [map snd]; now rewrite IH.
Qed.

Lemma cluster_spikes_members sc c :
  get_cluster_spikes sc c = members sc (arange (length sc)) c.
Proof.
  unfold get_cluster_spikes, spikes_in_clusters, sic_pos, members, arange.
  destruct sc as [|x r]; [reflexivity|].
  unfold nonzero. apply nonzero_from_members. intros y. cbn [isin existsb]. now rewrite orb_false_r.
Qed.

(* ---------- Step A: argsort + gather = sorting the (key, payload) pairs ---------- *)
Section Payload.
Context {V W : Type}.
Variable g : V -> W.
Definition remap (kv : Z * V) : Z * W := (fst kv, g (snd kv)).

Lemma insert_remap x l : insert (remap x) (map remap l) = map remap (insert x l).
Proof.
  induction l as [|y r IH]; [reflexivity|]. cbn [map insert].
  change (fst (remap x)) with (fst x). change (fst (remap y)) with (fst y).
  destruct (fst x <=? fst y); cbn [map]; [reflexivity|]. now rewrite IH.
Qed.

Lemma isort_remap l : isort (map remap l) = map remap (isort l).
Proof.
  induction l as [|x r IH]; [reflexivity|]. cbn [map isort fold_right].
  fold (isort r). fold (isort (map remap r)). now rewrite IH, insert_remap.
Qed.
End Payload.

Lemma map_fst_remap {V W} (g : V -> W) l : map fst (map (remap g) l) = map fst l.
Proof. rewrite map_map. apply map_ext. reflexivity. Qed.
Lemma map_snd_remap {V W} (g : V -> W) l : map snd (map (remap g) l) = map g (map snd l).
Proof. rewrite !map_map. apply map_ext. reflexivity. Qed.

(* the sorted keys depend on the keys only *)
Lemma isort_keys_only {V W} (l : list (Z * V)) (l' : list (Z * W)) :
  map fst l = map fst l' -> map fst (isort l) = map fst (isort l').
Proof.
  intros H.
  rewrite <- (map_fst_remap (fun _ => tt) (isort l)), <- (map_fst_remap (fun _ => tt) (isort l')).
  rewrite <- !isort_remap. do 2 f_equal.
  revert l' H; induction l as [|x r IH]; intros [|y r'] H; cbn [map] in *; try discriminate; [reflexivity|].
  injection H as H1 H2. unfold remap at 1 3. rewrite H1. f_equal. now apply IH.
Qed.

Lemma gather_total {A} (l : list A) (idx : list nat) (d : A) :
  (forall i, In i idx -> (i < length l)%nat) ->
  gather l idx = Some (map (fun i => nth i l d) idx).
Proof.
  induction idx as [|i r IH]; intros H; [reflexivity|]. cbn [gather map].
  rewrite IH by (intros j Hj; apply H; now right).
  assert (Hi : (i < length l)%nat) by (apply H; now left).
  rewrite (nth_error_nth' l d Hi). reflexivity.
Qed.

Lemma gather_none {A} (l : list A) (idx : list nat) i :
  In i idx -> (length l <= i)%nat -> gather l idx = None.
Proof.
  induction idx as [|j r IH]; intros Hin Hi; [contradiction|]. cbn [gather].
  destruct Hin as [->|Hin].
  - apply nth_error_None in Hi. now rewrite Hi.
  - rewrite (IH Hin Hi). now destruct (nth_error l j).
Qed.

Lemma combine_as_remap (sc ids : list Z) (d : Z) (k : nat) :
  (k + length sc <= length ids)%nat ->
  combine sc (skipn k ids) = map (remap (fun i => nth i ids d)) (combine sc (seq k (length sc))).
Proof.
  revert k; induction sc as [|x r IH]; intros k H; [reflexivity|]. cbn [length] in H.
  cbn [length seq combine map]. 
  assert (Hk : (k < length ids)%nat) by lia.
  assert (E : skipn k ids = nth k ids d :: skipn (S k) ids).
  { clear -Hk. revert k Hk; induction ids as [|y t IH]; intros k Hk; cbn [length] in Hk; [lia|].
    destruct k as [|k]; [reflexivity|]. cbn [skipn nth]. apply IH. lia. }
  rewrite E. cbn [combine]. unfold remap at 1. cbn [fst snd]. f_equal. apply IH. lia.
Qed.

Lemma argsort_in_range sc i : In i (stable_argsort sc) -> (i < length sc)%nat.
Proof.
  unfold stable_argsort. intros H.
  assert (P : Permutation (map snd (isort (combine sc (seq 0 (length sc))))) (map snd (combine sc (seq 0 (length sc)))))
    by (apply Permutation_map, isort_perm).
  apply (Permutation_in _ P) in H. apply in_map_iff in H as ((k & j) & <- & Hkj).
  apply in_combine_r in Hkj. apply in_seq in Hkj. cbn [snd]. lia.
Qed.

Lemma argsort_complete sc i : (i < length sc)%nat -> In i (stable_argsort sc).
Proof.
  unfold stable_argsort. intros H.
  assert (P : Permutation (map snd (combine sc (seq 0 (length sc)))) (map snd (isort (combine sc (seq 0 (length sc))))))
    by (apply Permutation_map, Permutation_sym, isort_perm).
  apply (Permutation_in _ P).
  assert (E : map snd (combine sc (seq 0 (length sc))) = seq 0 (length sc)).
  { clear. generalize 0%nat. induction sc as [|x r IH]; intros k; [reflexivity|]. cbn [length seq combine map snd]. now rewrite IH. }
  rewrite E. apply in_seq. lia.
Qed.

(* spike_ids[rel] = the payloads of the sorted pairs *)
Lemma gather_ids_sorted (sc ids : list Z) :
  (length sc <= length ids)%nat ->
  gather ids (stable_argsort sc) = Some (map snd (isort (combine sc ids))).
Proof.
  intros H. rewrite (gather_total ids _ 0).
  2:{ intros i Hi. apply argsort_in_range in Hi. lia. }
  f_equal. unfold stable_argsort.
  rewrite <- map_snd_remap, <- isort_remap.
  rewrite <- (combine_as_remap sc ids 0 0) by (cbn; lia). reflexivity.
Qed.

(* spike_clusters[rel] = the keys of the sorted pairs *)
Lemma gather_keys_sorted {V} (sc : list Z) (ids : list V) :
  (length sc <= length ids)%nat ->
  gather sc (stable_argsort sc) = Some (map fst (isort (combine sc ids))).
Proof.
  intros H. rewrite (gather_ids_sorted sc sc) by lia. f_equal.
  assert (Hd : Forall (fun kv : Z * Z => fst kv = snd kv) (combine sc sc)).
  { clear. induction sc as [|x r IH]; cbn [combine]; constructor; auto. }
  assert (Hs : Forall (fun kv : Z * Z => fst kv = snd kv) (isort (combine sc sc))).
  { rewrite Forall_forall in *. intros kv Hkv. apply Hd. eapply Permutation_in; [apply isort_perm|exact Hkv]. }
  transitivity (map fst (isort (combine sc sc))).
  - symmetry. apply map_ext_in. intros kv Hkv. rewrite Forall_forall in Hs. now apply Hs.
  - apply isort_keys_only.
    assert (forall (A B : Type) (a : list A) (b : list B), (length a <= length b)%nat -> map fst (combine a b) = a) as Hc.
    { intros A B a; induction a as [|x r IH]; intros [|y b] Hl; cbn [length] in *; try reflexivity; try lia.
      cbn [combine map fst]. f_equal. apply IH. lia. }
    rewrite !Hc by lia. reflexivity.
Qed.

(* ---------- Step B: a list is the concatenation of its runs ---------- *)
Section Blocks.
Context {V : Type}.
Notation kv := (Z * V)%type.
Notation block := (Z * list V)%type.

Definition expand (B : list block) : list kv :=
  flat_map (fun cv => map (pair (fst cv)) (snd cv)) B.

Lemma runs_expand (s : list kv) : expand (runs s) = s.
Proof.
  induction s as [|x r IH]; [reflexivity|]. cbn [runs].
  destruct (runs r) as [|[c vs] rest] eqn:E.
  - apply runs_nil in E. subst r. cbn. now destruct x.
  - destruct (fst x =? c) eqn:Ec.
    + rewrite <- IH. cbn [expand flat_map fst snd map app]. f_equal.
      destruct x as [k v]. cbn [fst snd] in *. f_equal. lia.
    + rewrite <- IH. cbn [expand flat_map fst snd map app]. now destruct x.
Qed.

Lemma runs_nonempty (s : list kv) : Forall (fun cv : block => snd cv <> []) (runs s).
Proof.
  induction s as [|x r IH]; [constructor|]. cbn [runs].
  destruct (runs r) as [|[c vs] rest].
  - constructor; [discriminate|constructor].
  - inversion IH; subst. destruct (fst x =? c); constructor; try discriminate; try assumption.
Qed.

Definition bkeys (B : list block) : list Z :=
  flat_map (fun cv => repeat (fst cv) (length (snd cv))) B.

Lemma expand_keys B : map fst (expand B) = bkeys B.
Proof.
  induction B as [|[c vs] r IH]; [reflexivity|]. unfold expand, bkeys in *. cbn [flat_map fst snd].
  rewrite map_app, IH. f_equal. clear. induction vs as [|v vs IH]; [reflexivity|]. cbn. now rewrite IH.
Qed.

Lemma expand_payloads B : map snd (expand B) = concat (map snd B).
Proof.
  induction B as [|[c vs] r IH]; [reflexivity|]. unfold expand in *. cbn [flat_map fst snd map concat].
  rewrite map_app, IH. f_equal. rewrite map_map. cbn [snd]. apply map_id.
Qed.

Fixpoint offsets (o : nat) (B : list block) : list nat :=
  match B with [] => [] | cv :: r => o :: offsets (o + length (snd cv)) r end.

(* strictly increasing keys, starting above prev *)
Fixpoint incr_from (prev : Z) (B : list block) : Prop :=
  match B with [] => True | cv :: r => prev < fst cv /\ incr_from (fst cv) r end.

Lemma diff_repeat c k tl : diff_from c (repeat c k ++ tl) = repeat 0 k ++ diff_from c tl.
Proof. induction k as [|k IH]; [reflexivity|]. cbn [repeat app diff_from]. rewrite IH. f_equal. lia. Qed.

Lemma map_repeat' {A B} (f : A -> B) x k : map f (repeat x k) = repeat (f x) k.
Proof. induction k as [|k IH]; [reflexivity|]. cbn [repeat map]. now rewrite IH. Qed.

Lemma nonzero_skip i k m : nonzero_from i (repeat false k ++ m) = nonzero_from (i + k) m.
Proof.
  revert i; induction k as [|k IH]; intros i; cbn [repeat app nonzero_from].
  - f_equal. lia.
  - rewrite IH. f_equal. lia.
Qed.

(* C1: the positions where the first difference is positive are the block starts *)
Lemma boundaries prev o (B : list block) :
  Forall (fun cv : block => snd cv <> []) B -> incr_from prev B ->
  nonzero_from o (map (fun d => 0 <? d) (diff_from prev (bkeys B))) = offsets o B.
Proof.
  revert prev o; induction B as [|[c vs] r IH]; intros prev o Hne Hinc; [reflexivity|].
  inversion Hne as [|? ? Hvs Hne']; subst. cbn [snd] in Hvs. destruct Hinc as [Hlt Hinc]. cbn [fst] in *.
  destruct vs as [|v vs]; [contradiction|].
  unfold bkeys. cbn [flat_map fst snd length repeat app diff_from map nonzero_from offsets].
  fold (bkeys r). replace (0 <? c - prev) with true by lia. f_equal.
  rewrite diff_repeat, map_app, map_repeat'. replace (0 <? 0) with false by reflexivity.
  rewrite nonzero_skip. rewrite (IH c _ Hne' Hinc). f_equal. lia.
Qed.

(* C2: the sorted keys at the block starts are the block keys *)
Lemma keys_at_offsets (pre : list Z) (B : list block) :
  Forall (fun cv : block => snd cv <> []) B ->
  gather (pre ++ bkeys B) (offsets (length pre) B) = Some (map fst B).
Proof.
  revert pre; induction B as [|[c vs] r IH]; intros pre Hne; [reflexivity|].
  inversion Hne as [|? ? Hvs Hne']; subst. cbn [snd] in Hvs.
  destruct vs as [|v vs]; [contradiction|].
  cbn [offsets gather map fst snd]. unfold bkeys. cbn [flat_map fst snd]. fold (bkeys r).
  cbn [length repeat app].
  rewrite nth_error_app2 by lia. rewrite Nat.sub_diag. cbn [nth_error].
  specialize (IH (pre ++ c :: repeat c (length vs)) Hne').
  rewrite app_length in IH. cbn [length] in IH. rewrite repeat_length in IH.
  rewrite <- app_assoc in IH. cbn [app] in IH. rewrite IH. reflexivity.
Qed.
End Blocks.

Lemma dict_set_fresh d k v : ~ In k (map g_key d) -> dict_set d k v = d ++ [mkg k v].
Proof.
  induction d as [|e r IH]; intros H; [reflexivity|]. cbn [dict_set map In app] in *.
  destruct (g_key e =? k) eqn:E; [exfalso; apply H; left; lia|]. rewrite IH by tauto. reflexivity.
Qed.

Definition to_group (cv : Z * list Z) : group := mkg (fst cv) (snd cv).

(* C3: slicing between consecutive block starts gives back the blocks *)
Lemma spc_dict_blocks (B : list (Z * list Z)) (pre : list Z) (d : list group) :
  B <> [] -> NoDup (map g_key d ++ map fst B) ->
  spc_dict (map fst B) (offsets (length pre) B) (pre ++ concat (map snd B)) d = d ++ map to_group B.
Proof.
  revert pre d; induction B as [|[c vs] r IH]; intros pre d Hne Hnd; [contradiction|].
  cbn [map fst snd offsets spc_dict concat].
  assert (Hc : ~ In c (map g_key d)).
  { intros Hin. apply NoDup_remove_2 in Hnd. apply Hnd. apply in_or_app. now left. }
  destruct r as [|[c' vs'] r'].
  - cbn [offsets map concat]. rewrite app_nil_r. unfold slice_from.
    rewrite skipn_app, skipn_all, Nat.sub_diag. cbn [skipn app].
    now rewrite dict_set_fresh.
  - remember ((c', vs') :: r') as rr eqn:Err.
    assert (Hs : slice_nat (pre ++ vs ++ concat (map snd rr)) (length pre) (length pre + length vs) = vs).
    { unfold slice_nat. rewrite skipn_app, skipn_all, Nat.sub_diag. cbn [skipn app].
      replace (length pre + length vs - length pre)%nat with (length vs) by lia.
      rewrite firstn_app, firstn_all, Nat.sub_diag. cbn [firstn]. now rewrite app_nil_r. }
    specialize (IH (pre ++ vs) (d ++ [mkg c vs])). rewrite app_length in IH. rewrite <- app_assoc in IH.
    assert (Hrr : rr <> []) by (subst rr; discriminate).
    assert (Hnd' : NoDup (map g_key (d ++ [mkg c vs]) ++ map fst rr)).
    { rewrite map_app. cbn [map g_key]. rewrite <- app_assoc. exact Hnd. }
    specialize (IH Hrr Hnd').
    assert (Hoff : offsets (length pre + length vs) rr = (length pre + length vs)%nat :: offsets (length pre + length vs + length vs') r').
    { subst rr. reflexivity. }
    rewrite Hoff in *. rewrite Hs, dict_set_fresh by exact Hc.
    rewrite <- Hoff in *. rewrite IH. now rewrite <- app_assoc.
Qed.

(* ---------- assembling _spikes_per_cluster ---------- *)
Lemma incr_from_sorted {V} prev (B : list (Z * list V)) :
  StronglySorted Z.lt (map fst B) -> (forall cv, In cv B -> prev < fst cv) -> incr_from prev B.
Proof.
  revert prev; induction B as [|cv r IH]; intros prev Hs Hp; [exact I|]. cbn [incr_from].
  split; [apply Hp; now left|]. cbn [map] in Hs. apply StronglySorted_inv in Hs as [Hs Hall].
  apply IH; [exact Hs|]. intros cv' Hin. rewrite Forall_forall in Hall. apply Hall. now apply in_map.
Qed.

Lemma sorted_lt_NoDup l : StronglySorted Z.lt l -> NoDup l.
Proof.
  induction 1 as [|x l Hs IH Hall]; constructor; [|exact IH].
  intros Hin. rewrite Forall_forall in Hall. specialize (Hall x Hin). lia.
Qed.

Lemma first_diff_as_diff_from c tl : first_diff (c :: tl) = diff_from (c - 1) (c :: tl).
Proof. cbn [first_diff diff_from]. f_equal. lia. Qed.

Lemma map_snd_combine {A B} (a : list A) (b : list B) :
  (length a <= length b)%nat -> map snd (combine a b) = firstn (length a) b.
Proof.
  revert b; induction a as [|x r IH]; intros [|y b] H; cbn [length] in *; try reflexivity; try lia.
  cbn [combine map snd firstn]. f_equal. apply IH. lia.
Qed.
Lemma map_fst_combine {A B} (a : list A) (b : list B) :
  (length a <= length b)%nat -> map fst (combine a b) = a.
Proof.
  revert b; induction a as [|x r IH]; intros [|y b] H; cbn [length] in *; try reflexivity; try lia.
  cbn [combine map fst]. f_equal. apply IH. lia.
Qed.

Definition sorted_pairs (sc ids : list Z) := isort (combine sc ids).

Lemma spc_some (sc ids : list Z) :
  sc <> [] -> (length sc <= length ids)%nat ->
  spikes_per_cluster sc (Some ids) = Some (map to_group (runs (sorted_pairs sc ids))).
Proof.
  intros Hne Hlen. unfold spikes_per_cluster. destruct sc as [|x0 sc0] eqn:Esc; [contradiction|].
  rewrite <- Esc in *. clear Hne.
  rewrite (gather_ids_sorted sc ids Hlen), (gather_keys_sorted sc ids Hlen).
  fold (sorted_pairs sc ids). set (s := sorted_pairs sc ids). set (B := runs s).
  assert (Hexp : expand B = s) by apply runs_expand.
  assert (Hnb : Forall (fun cv : Z * list Z => snd cv <> []) B) by apply runs_nonempty.
  destruct (runs_spec s (isort_sorted _)) as (Hss & _ & _). fold B in Hss.
  assert (HB : B <> []).
  { intros HB. rewrite HB in Hexp. cbn in Hexp.
    assert (P : Permutation s (combine sc ids)) by apply isort_perm.
    rewrite <- Hexp in P. apply Permutation_nil in P. rewrite Esc in P, Hlen.
    destruct ids; [cbn [length] in Hlen; lia|discriminate]. }
  rewrite <- Hexp, expand_keys, expand_payloads.
  destruct B as [|[c vs] r] eqn:EB; [contradiction|]. rewrite <- EB in *.
  assert (Hvs : vs <> []) by (rewrite EB in Hnb; inversion Hnb; assumption).
  assert (Hk : exists tl, bkeys B = c :: tl).
  { rewrite EB. unfold bkeys. cbn [flat_map fst snd]. destruct vs as [|v vs']; [contradiction|].
    cbn [length repeat app]. eexists; reflexivity. }
  destruct Hk as (tl & Hk). rewrite Hk, first_diff_as_diff_from, <- Hk.
  unfold nonzero. rewrite (boundaries (c - 1) 0 B Hnb).
  2:{ apply incr_from_sorted; [exact Hss|]. intros cv Hin. rewrite EB in Hin, Hss.
      destruct Hin as [<-|Hin]; [cbn; lia|]. cbn [map] in Hss. apply StronglySorted_inv in Hss as [_ Hall].
      rewrite Forall_forall in Hall. specialize (Hall (fst cv) (in_map fst _ _ Hin)). cbn [fst] in Hall. lia. }
  pose proof (keys_at_offsets [] B Hnb) as Hg. cbn [app length] in Hg. rewrite Hg.
  assert (Hnd : NoDup (map fst B)) by now apply sorted_lt_NoDup.
  destruct (map fst B) eqn:Emf; [rewrite EB in Emf; discriminate|]. rewrite <- Emf in *.
  pose proof (spc_dict_blocks B [] [] HB) as Hd. cbn [app length map g_key] in Hd. rewrite Hd; [reflexivity|].
  exact Hnd.
Qed.

Lemma arange_length n : length (arange n) = n.
Proof. unfold arange. now rewrite map_length, seq_length. Qed.

Lemma spc_eff (sc : list Z) (oids : option (list Z)) :
  sc <> [] -> (length sc <= length (eff_ids sc oids))%nat ->
  spikes_per_cluster sc oids = Some (map to_group (runs (sorted_pairs sc (eff_ids sc oids)))).
Proof.
  intros Hne Hlen. rewrite <- (spc_some sc (eff_ids sc oids) Hne Hlen).
  destruct oids as [ids|]; [reflexivity|]. destruct sc; [contradiction|]. reflexivity.
Qed.

Lemma in_expand_key {V} (B : list (Z * list V)) k v : In (k, v) (expand B) -> In k (map fst B).
Proof.
  unfold expand. intros H. apply in_flat_map in H as (cv & Hcv & Hin).
  apply in_map_iff in Hin as (w & E & _). injection E as <- _. now apply in_map.
Qed.

Lemma map_to_group_keys B : map g_key (map to_group B) = map fst B.
Proof. rewrite map_map. reflexivity. Qed.
Lemma map_to_group_ids B : map g_ids (map to_group B) = map snd B.
Proof. rewrite map_map. reflexivity. Qed.

Lemma runs_groups_spec (sc ids : list Z) :
  (length sc <= length ids)%nat ->
  Groups_Spec sc ids (map to_group (runs (sorted_pairs sc ids))).
Proof.
  intros Hlen. unfold Groups_Spec, sorted_pairs. set (l := combine sc ids). set (s := isort l).
  destruct (runs_spec s (isort_sorted _)) as (Hss & Hin & _).
  rewrite map_to_group_keys. split; [exact Hss|]. split.
  - intros c. split.
    + intros Hc. destruct (Hin c Hc) as (y & Hy & <-).
      assert (Hyl : In y l) by (eapply Permutation_in; [apply isort_perm|exact Hy]).
      destruct y as [k v]. apply in_combine_l in Hyl. exact Hyl.
    + intros Hc. apply In_nth_error in Hc as (i & Hi).
      assert (Hi' : (i < length sc)%nat) by (apply nth_error_Some; congruence).
      destruct (nth_error ids i) as [v|] eqn:Ev; [|apply nth_error_None in Ev; lia].
      assert (Hl : In (c, v) l).
      { unfold l. clear -Hi Ev. revert ids i Hi Ev; induction sc as [|x r IH]; intros [|y ids] [|i] Hi Ev; cbn in *; try discriminate.
        - injection Hi as ->. injection Ev as ->. now left.
        - right. eapply IH; eassumption. }
      assert (Hs : In (c, v) s) by (eapply Permutation_in; [apply Permutation_sym, isort_perm|exact Hl]).
      rewrite <- (runs_expand s) in Hs. now apply in_expand_key in Hs.
  - pose proof (group_spec l) as G. fold s in G. rewrite Forall_forall in *. intros g Hg.
    apply in_map_iff in Hg as (cv & <- & Hcv). specialize (G cv Hcv). exact G.
Qed.

Lemma runs_partition_spec (sc ids : list Z) :
  (length sc <= length ids)%nat ->
  Partition_Spec sc ids (map to_group (runs (sorted_pairs sc ids))).
Proof.
  intros Hlen. unfold Partition_Spec, sorted_pairs. set (l := combine sc ids). set (s := isort l).
  rewrite map_to_group_ids.
  assert (P : Permutation (concat (map snd (runs s))) (firstn (length sc) ids)).
  { rewrite <- expand_payloads, runs_expand. rewrite <- (map_snd_combine sc ids Hlen).
    apply Permutation_map, isort_perm. }
  split; [exact P|]. intros Hnd. eapply Permutation_NoDup; [apply Permutation_sym, P|exact Hnd].
Qed.

(* the two theorems, for every input (the empty vector included) *)
Lemma spc_groups (sc : list Z) (oids : option (list Z)) :
  (length sc <= length (eff_ids sc oids))%nat ->
  exists d, spikes_per_cluster sc oids = Some d /\
            Groups_Spec sc (eff_ids sc oids) d /\ Partition_Spec sc (eff_ids sc oids) d.
Proof.
  intros Hlen. destruct sc as [|x r] eqn:E.
  - exists []. split; [reflexivity|]. split.
    + repeat split; try constructor; cbn; tauto.
    + split; [constructor|constructor].
  - rewrite <- E in *. assert (Hne : sc <> []) by (rewrite E; discriminate).
    eexists. split; [apply spc_eff; assumption|]. split.
    + now apply runs_groups_spec.
    + now apply runs_partition_spec.
Qed.

(* ids too short: IndexError *)
Lemma spc_short (sc ids : list Z) :
  (length ids < length sc)%nat -> spikes_per_cluster sc (Some ids) = None.
Proof.
  intros H. unfold spikes_per_cluster. destruct sc as [|x r] eqn:E; [cbn in H; lia|]. rewrite <- E in *.
  rewrite (gather_none ids (stable_argsort sc) (length ids)); [reflexivity| |lia].
  apply argsort_complete. lia.
Qed.

(* ---------- masks, selections, sorted unions ---------- *)
Lemma nonzero_from_in k m j :
  In j (nonzero_from k m) <-> exists i, j = (k + i)%nat /\ nth_error m i = Some true.
Proof.
  revert k; induction m as [|b r IH]; intros k; cbn [nonzero_from].
  - split; [intros []|intros (i & _ & H); destruct i; discriminate].
  - assert (R : In j (nonzero_from (S k) r) <-> exists i, j = (k + S i)%nat /\ nth_error r i = Some true).
    { rewrite IH. split; intros (i & -> & H); exists i; (split; [lia|exact H]). }
    destruct b; cbn [In]; rewrite R; split.
    + intros [<-|(i & -> & H)]; [exists 0%nat; split; [lia|reflexivity]|exists (S i); split; [lia|exact H]].
    + intros ([|i] & -> & H); [left; lia|right; exists i; split; [lia|exact H]].
    + intros (i & -> & H). exists (S i). split; [lia|exact H].
    + intros ([|i] & -> & H); [discriminate|exists i; split; [lia|exact H]].
Qed.

Lemma nonzero_from_sorted k m : StronglySorted lt (nonzero_from k m).
Proof.
  revert k; induction m as [|b r IH]; intros k; cbn [nonzero_from]; [constructor|].
  destruct b; [|apply IH]. constructor; [apply IH|].
  apply Forall_forall. intros j Hj. apply nonzero_from_in in Hj as (i & -> & _). lia.
Qed.

Lemma sorted_map_of_nat l : StronglySorted lt l -> StronglySorted Z.lt (map Z.of_nat l).
Proof.
  induction 1 as [|x l Hs IH Hall]; cbn [map]; constructor; [exact IH|].
  rewrite Forall_map. eapply Forall_impl; [|exact Hall]. intros y Hy. cbn. lia.
Qed.

(* two strictly increasing lists with the same elements are equal: "the" sorted union *)
Lemma sorted_ext (a b : list Z) :
  StronglySorted Z.lt a -> StronglySorted Z.lt b -> (forall x, In x a <-> In x b) -> a = b.
Proof.
  intros Ha; revert b; induction Ha as [|x a Hsa IH Hxa]; intros b Hb Hab.
  - destruct b as [|y b]; [reflexivity|]. exfalso. apply (proj2 (Hab y)). now left.
  - destruct b as [|y b]; [exfalso; apply (proj1 (Hab x)); now left|].
    apply StronglySorted_inv in Hb as [Hsb Hyb]. rewrite Forall_forall in Hxa, Hyb.
    assert (x = y).
    { destruct (proj1 (Hab x) (or_introl eq_refl)) as [->|Hx]; [reflexivity|].
      destruct (proj2 (Hab y) (or_introl eq_refl)) as [->|Hy]; [reflexivity|].
      specialize (Hxa y Hy). specialize (Hyb x Hx). lia. }
    subst y. f_equal. apply IH; [exact Hsb|]. intros z. split; intros Hz.
    + destruct (proj1 (Hab z) (or_intror Hz)) as [->|H]; [specialize (Hxa z Hz); lia|exact H].
    + destruct (proj2 (Hab z) (or_intror Hz)) as [->|H]; [specialize (Hyb z Hz); lia|exact H].
Qed.

Lemma sic_as_mask sc cl : sic_pos sc cl = nonzero (map (isin cl) sc).
Proof.
  unfold sic_pos. destruct sc as [|x r]; [reflexivity|]. destruct cl as [|c cl]; [|reflexivity].
  unfold nonzero. generalize 0%nat. generalize (x :: r). clear. intros l.
  induction l as [|y l IH]; intros k; [reflexivity|]. cbn [map isin existsb nonzero_from]. apply IH.
Qed.

Lemma isin_In cl x : isin cl x = true <-> In x cl.
Proof.
  unfold isin. rewrite existsb_exists. split.
  - intros (y & Hy & E). apply Z.eqb_eq in E. now subst.
  - intros H. exists x. split; [exact H|apply Z.eqb_refl].
Qed.

Lemma in_sic sc cl i :
  In i (spikes_in_clusters sc cl) <->
  exists p c, i = Z.of_nat p /\ nth_error sc p = Some c /\ In c cl.
Proof.
  unfold spikes_in_clusters. rewrite sic_as_mask, in_map_iff. unfold nonzero. split.
  - intros (p & <- & Hp). apply nonzero_from_in in Hp as (q & -> & Hq). cbn [Nat.add] in *.
    rewrite nth_error_map in Hq. destruct (nth_error sc q) as [c|] eqn:E; [|discriminate].
    cbn in Hq. injection Hq as Hq. apply isin_In in Hq. exists q, c. repeat split; assumption.
  - intros (p & c & -> & Hp & Hc). exists p. split; [reflexivity|]. apply nonzero_from_in.
    exists p. split; [reflexivity|]. rewrite nth_error_map, Hp. cbn. f_equal. now apply isin_In.
Qed.

Lemma in_members_arange sc c i :
  In i (members sc (arange (length sc)) c) <-> exists p, i = Z.of_nat p /\ nth_error sc p = Some c.
Proof.
  rewrite <- cluster_spikes_members. unfold get_cluster_spikes. rewrite in_sic. split.
  - intros (p & c' & -> & Hp & [<-|[]]). now exists p.
  - intros (p & -> & Hp). exists p, c. repeat split; [exact Hp|now left].
Qed.

Lemma sic_sorted sc cl : StronglySorted Z.lt (spikes_in_clusters sc cl).
Proof. unfold spikes_in_clusters. rewrite sic_as_mask. apply sorted_map_of_nat, nonzero_from_sorted. Qed.

Lemma sic_union sc cl d :
  Groups_Spec sc (arange (length sc)) d -> Union_Spec cl d (spikes_in_clusters sc cl).
Proof.
  intros (_ & Hkeys & Hgr). split; [apply sic_sorted|]. intros i. rewrite in_sic.
  rewrite Forall_forall in Hgr. split.
  - intros (p & c & -> & Hp & Hc).
    assert (Hin : In c (map g_key d)) by (apply Hkeys; eapply nth_error_In; exact Hp).
    apply in_map_iff in Hin as (g & <- & Hg). exists g. split; [exact Hg|]. split; [exact Hc|].
    rewrite (Hgr g Hg). apply in_members_arange. now exists p.
  - intros (g & Hg & Hc & Hi). rewrite (Hgr g Hg) in Hi. apply in_members_arange in Hi as (p & -> & Hp).
    exists p, (g_key g). repeat split; assumption.
Qed.

Lemma in_clusters_thm (sc cl : list Z) (d : list group) :
  spikes_per_cluster sc None = Some d ->
  Union_Spec cl d (spikes_in_clusters sc cl) /\
  forall u, Union_Spec cl d u -> spikes_in_clusters sc cl = u.
Proof.
  intros Hd.
  assert (Hlen : (length sc <= length (eff_ids sc None))%nat) by (cbn; rewrite arange_length; lia).
  destruct (spc_groups sc None Hlen) as (d' & Hd' & G & _). rewrite Hd in Hd'. injection Hd' as <-.
  cbn [eff_ids] in G. pose proof (sic_union sc cl d G) as U. split; [exact U|].
  intros u (Hsu & Hu). destruct U as (Hsr & Hr). apply sorted_ext; [exact Hsr|exact Hsu|].
  intros x. now rewrite Hr, Hu.
Qed.

Lemma members_sorted sc ids c :
  StronglySorted Z.lt ids -> StronglySorted Z.lt (members sc ids c).
Proof.
  unfold members. revert ids; induction sc as [|x r IH]; intros ids Hs; [constructor|].
  destruct ids as [|y ids]; [constructor|]. apply StronglySorted_inv in Hs as [Hs Hall].
  cbn [combine filter]. destruct (eqk c (x, y)); cbn [map snd]; [|now apply IH].
  constructor; [now apply IH|]. rewrite Forall_forall in *. intros z Hz. apply Hall.
  apply in_map_iff in Hz as ((k & v) & <- & Hkv). apply filter_In in Hkv as [Hkv _].
  now apply in_combine_r in Hkv.
Qed.

Lemma arange_sorted n : StronglySorted Z.lt (arange n).
Proof.
  unfold arange. apply sorted_map_of_nat. generalize 0%nat.
  induction n as [|n IH]; intros k; cbn [seq]; constructor; [apply IH|].
  apply Forall_forall. intros j Hj. apply in_seq in Hj. lia.
Qed.

Lemma spc_positions (sc : list Z) :
  exists d, spikes_per_cluster sc None = Some d /\ Groups_Spec sc (arange (length sc)) d /\
    Forall (fun g => StronglySorted Z.lt (g_ids g) /\
                     forall i, In i (g_ids g) <-> exists p, i = Z.of_nat p /\ nth_error sc p = Some (g_key g)) d.
Proof.
  assert (Hlen : (length sc <= length (eff_ids sc None))%nat) by (cbn; rewrite arange_length; lia).
  destruct (spc_groups sc None Hlen) as (d & Hd & G & _). cbn [eff_ids] in G.
  exists d. split; [exact Hd|]. split; [exact G|].
  destruct G as (_ & _ & Hg). rewrite Forall_forall in *. intros g Hin. rewrite (Hg g Hin). split.
  - apply members_sorted, arange_sorted.
  - intros i. apply in_members_arange.
Qed.
