(* C07/Proofs.v -- lemmas and main proofs for the spike-cluster index utilities. *)
From Coq Require Import ZArith List Lia Bool Arith Permutation Sorted.
From PV Require Import Base.NpSort C07.Model C07.Spec.
Import ListNotations.
Open Scope Z_scope.

(* ---------- selection by mask ---------- *)
Lemma nonzero_from_members (f : Z -> bool) (c : Z) (sc : list Z) (i : nat) :
  (forall x, f x = (x =? c)) ->
  map Z.of_nat (nonzero_from i (map f sc)) =
  map snd (filter (eqk c) (combine sc (map Z.of_nat (seq i (length sc))))).
Proof.
  intros Hf. revert i; induction sc as [|x r IH]; intros i; [reflexivity|].
  cbn [map nonzero_from length seq combine filter]. unfold eqk at 1. cbn [fst].
  rewrite Hf. destruct (x =? c); cbn [map snd]; now rewrite IH.
Qed.

Lemma cluster_spikes_members sc c :
  get_cluster_spikes sc c = members sc (arange (length sc)) c.
Proof.
  unfold get_cluster_spikes, spikes_in_clusters, sic_pos, members, arange.
  destruct sc as [|x r]; [reflexivity|].
  unfold nonzero. apply nonzero_from_members. intros y. cbn [isin existsb]. now rewrite orb_false_r.
Qed.
