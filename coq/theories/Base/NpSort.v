From Coq Require Import ZArith List Lia Bool Arith Permutation Sorted.
Import ListNotations.
Open Scope Z_scope.

(* stable insertion sort on (key, payload) pairs; the model of np.argsort(kind='stable') *)
Section Sort.
Context {V : Type}.
Notation kv := (Z * V)%type.

Fixpoint insert (x : kv) (l : list kv) : list kv :=
  match l with
  | [] => [x]
  | y :: r => if fst x <=? fst y then x :: l else y :: insert x r
  end.

Definition isort (l : list kv) : list kv := fold_right insert [] l.

Definition eqk (c : Z) (x : kv) : bool := fst x =? c.

Inductive sortedk : list kv -> Prop :=
| sk_nil : sortedk []
| sk_one x : sortedk [x]
| sk_cons x y r : fst x <= fst y -> sortedk (y :: r) -> sortedk (x :: y :: r).

Lemma insert_sorted x l : sortedk l -> sortedk (insert x l).
Proof.
  induction 1 as [|y|y z r Hyz Hs IH]; cbn [insert].
  - constructor.
  - destruct (fst x <=? fst y) eqn:E; constructor; try constructor; lia.
  - destruct (fst x <=? fst y) eqn:E.
    + constructor; [lia|]. constructor; assumption.
    + cbn [insert] in IH. destruct (fst x <=? fst z) eqn:E2.
      * constructor; [lia|]. constructor; [lia|assumption].
      * constructor; [lia|]. exact IH.
Qed.

Lemma isort_sorted l : sortedk (isort l).
Proof. induction l as [|x l IH]; cbn [isort fold_right]; [constructor|]. now apply insert_sorted. Qed.

(* stability, in the only form the properties need: the elements with a given key come out in
   their input order *)
Lemma insert_filter c x s :
  filter (eqk c) (insert x s) = if eqk c x then x :: filter (eqk c) s else filter (eqk c) s.
Proof.
  induction s as [|y r IH]; cbn [insert filter]; [reflexivity|].
  destruct (fst x <=? fst y) eqn:E; cbn [filter]; [reflexivity|].
  rewrite IH. unfold eqk in *.
  destruct (fst x =? c) eqn:Ex; [|reflexivity].
  replace (fst y =? c) with false by lia. reflexivity.
Qed.

Theorem isort_stable c l : filter (eqk c) (isort l) = filter (eqk c) l.
Proof.
  induction l as [|x l IH]; cbn [isort fold_right filter]; [reflexivity|].
  fold (isort l). rewrite insert_filter, IH. reflexivity.
Qed.

Lemma insert_perm x l : Permutation (insert x l) (x :: l).
Proof.
  induction l as [|y r IH]; cbn [insert]; [reflexivity|].
  destruct (fst x <=? fst y); [reflexivity|].
  rewrite IH. apply perm_swap.
Qed.

Theorem isort_perm l : Permutation (isort l) l.
Proof.
  induction l as [|x l IH]; cbn [isort fold_right]; [reflexivity|].
  fold (isort l). rewrite insert_perm. now constructor.
Qed.

(* runs of equal keys in a sorted list = the per-key filters, keys strictly increasing *)
Fixpoint runs (l : list kv) : list (Z * list V) :=
  match l with
  | [] => []
  | x :: r =>
    match runs r with
    | (c, vs) :: rest => if fst x =? c then (c, snd x :: vs) :: rest else (fst x, [snd x]) :: (c, vs) :: rest
    | [] => [(fst x, [snd x])]
    end
  end.

Lemma runs_head l x r c vs rest : l = x :: r -> runs l = (c, vs) :: rest -> c = fst x.
Proof.
  intros -> H. cbn [runs] in H. destruct (runs r) as [|[c' vs'] rest'].
  - now inversion H.
  - destruct (fst x =? c') eqn:E; inversion H; subst; lia.
Qed.

Lemma sortedk_tail x l : sortedk (x :: l) -> sortedk l.
Proof. intros H; inversion H; subst; [constructor|assumption]. Qed.

Lemma sortedk_ge x l y : sortedk (x :: l) -> In y l -> fst x <= fst y.
Proof.
  revert x; induction l as [|z r IH]; intros x Hs Hy; [contradiction|].
  inversion Hs as [| |? ? ? Hxz Hs']; subst. destruct Hy as [->|Hy]; [lia|].
  specialize (IH z Hs' Hy). lia.
Qed.

Lemma runs_nil l : runs l = [] -> l = [].
Proof.
  destruct l as [|x r]; [reflexivity|]. cbn [runs].
  destruct (runs r) as [|[c vs] rest]; [discriminate|]. destruct (fst x =? c); discriminate.
Qed.

Lemma filter_none c l : (forall y, In y l -> fst y <> c) -> filter (eqk c) l = [].
Proof.
  induction l as [|y r IH]; intros H; cbn [filter]; [reflexivity|].
  unfold eqk at 1. replace (fst y =? c) with false by (specialize (H y (or_introl eq_refl)); lia).
  apply IH. intros z Hz. apply H. now right.
Qed.

Lemma filter_cons_neq c x l : fst x <> c -> filter (eqk c) (x :: l) = filter (eqk c) l.
Proof. intros H. cbn [filter]. unfold eqk at 1. now replace (fst x =? c) with false by lia. Qed.
Lemma filter_cons_eq c x l : fst x = c -> filter (eqk c) (x :: l) = x :: filter (eqk c) l.
Proof. intros H. cbn [filter]. unfold eqk at 1. now replace (fst x =? c) with true by lia. Qed.

(* every run is the filter of its key; run keys are strictly increasing and occur in l *)
Theorem runs_spec l : sortedk l ->
  StronglySorted Z.lt (map fst (runs l)) /\
  (forall c, In c (map fst (runs l)) -> exists y, In y l /\ fst y = c) /\
  Forall (fun cv => snd cv = map snd (filter (eqk (fst cv)) l)) (runs l).
Proof.
  induction l as [|x r IH]; intros Hs.
  - cbn. repeat split; try constructor. intros c [].
  - destruct (IH (sortedk_tail _ _ Hs)) as (SS & Hin & Hf). clear IH. cbn [runs].
    destruct (runs r) as [|[c vs] rest] eqn:Er.
    + apply runs_nil in Er. subst r.
      assert (Hx : eqk (fst x) x = true) by (unfold eqk; apply Z.eqb_refl).
      cbn [map fst snd]. split; [|split].
      * constructor; constructor.
      * intros c [<-|[]]. exists x. split; [now left|reflexivity].
      * constructor; [|constructor]. cbn [fst snd filter]. rewrite Hx. reflexivity.
    + destruct r as [|y r']; [cbn in Er; discriminate|].
      assert (c = fst y) as -> by (eapply runs_head; [reflexivity|exact Er]).
      assert (Hxy : fst x <= fst y) by (inversion Hs; subst; lia).
      cbn [map fst] in SS. apply StronglySorted_inv in SS as [SSrest Hlt].
      inversion Hf as [|? ? Hhead Hrest]; subst. cbn [fst snd] in Hhead.
      assert (Hrest_gt : Forall (fun cv : Z * list V => fst y < fst cv) rest).
      { rewrite Forall_map in Hlt. exact Hlt. }
      destruct (fst x =? fst y) eqn:E.
      * repeat split.
        -- cbn [map fst]. constructor; assumption.
        -- intros c Hc. destruct (Hin c Hc) as (z & Hz & <-). exists z. split; [now right|reflexivity].
        -- constructor.
           ++ cbn [fst snd]. rewrite filter_cons_eq by lia. cbn [map]. now f_equal.
           ++ rewrite Forall_forall in *. intros cv Hcv. rewrite (Hrest cv Hcv).
              specialize (Hrest_gt cv Hcv). rewrite (filter_cons_neq (fst cv) x) by lia. reflexivity.
      * assert (Hlt' : fst x < fst y) by lia.
        assert (Hnone : filter (eqk (fst x)) (y :: r') = []).
        { apply filter_none. intros z Hz.
          destruct Hz as [<-|Hz]; [lia|]. pose proof (sortedk_ge y r' z (sortedk_tail _ _ Hs) Hz). lia. }
        repeat split.
        -- cbn [map fst]. constructor; [constructor; assumption|].
           constructor; [exact Hlt'|]. rewrite Forall_map. rewrite Forall_forall in *.
           intros cv Hcv. specialize (Hrest_gt cv Hcv). lia.
        -- intros c [<-|Hc]; [exists x; split; [now left|reflexivity]|].
           destruct (Hin c Hc) as (z & Hz & <-). exists z. split; [now right|reflexivity].
        -- constructor; [|constructor].
           ++ cbn [fst snd]. rewrite filter_cons_eq by reflexivity. rewrite Hnone. reflexivity.
           ++ cbn [fst snd]. rewrite Hhead. rewrite (filter_cons_neq (fst y) x) by lia. reflexivity.
           ++ rewrite Forall_forall in *. intros cv Hcv. rewrite (Hrest cv Hcv).
              specialize (Hrest_gt cv Hcv). rewrite (filter_cons_neq (fst cv) x) by lia. reflexivity.
Qed.

(* the grouping of spikes per cluster: stable sort then runs *)
Corollary group_spec (l : list kv) :
  Forall (fun cv => snd cv = map snd (filter (eqk (fst cv)) l)) (runs (isort l)).
Proof.
  destruct (runs_spec (isort l) (isort_sorted l)) as (_ & _ & H).
  eapply Forall_impl; [|exact H]. intros cv Hcv. now rewrite Hcv, isort_stable.
Qed.
End Sort.

Definition stable_argsort (keys : list Z) : list nat :=
  map snd (isort (combine keys (seq 0 (length keys)))).




