(* Base/TokArith.v -- exact arithmetic and order on finite tokens (dyadic rationals m * 2^e). *)
From Coq Require Import ZArith List Bool.
From PV Require Import Base.Tok.
Import ListNotations.
Open Scope Z_scope.

(* common-exponent representation: (m1', m2', e) with m_i * 2^e_i = m_i' * 2^e *)
Definition align (m1 e1 m2 e2 : Z) : Z * Z * Z :=
  let e := Z.min e1 e2 in (m1 * 2 ^ (e1 - e), m2 * 2 ^ (e2 - e), e).

Definition tok_leb (a b : tok) : option bool :=
  match a, b with
  | TNum m1 e1, TNum m2 e2 => let '(x, y, _) := align m1 e1 m2 e2 in Some (x <=? y)
  | _, _ => None
  end.
Definition tok_ltb (a b : tok) : option bool :=
  match a, b with
  | TNum m1 e1, TNum m2 e2 => let '(x, y, _) := align m1 e1 m2 e2 in Some (x <? y)
  | _, _ => None
  end.

Definition tadd (a b : tok) : option tok :=
  match a, b with
  | TNum m1 e1, TNum m2 e2 => let '(x, y, e) := align m1 e1 m2 e2 in Some (tnorm (TNum (x + y) e))
  | _, _ => None
  end.
Definition tneg (a : tok) : option tok := match a with TNum m e => Some (TNum (- m) e) | _ => None end.
Definition tsub (a b : tok) : option tok := match tneg b with Some nb => tadd a nb | None => None end.
Definition tmul (a b : tok) : option tok :=
  match a, b with
  | TNum m1 e1, TNum m2 e2 => Some (tnorm (TNum (m1 * m2) (e1 + e2)))
  | _, _ => None
  end.

Definition obind {A B} (o : option A) (f : A -> option B) : option B :=
  match o with Some x => f x | None => None end.

(* sorted (non-decreasing) list of finite tokens; None if some token is not finite *)
Fixpoint toks_sorted (l : list tok) : option bool :=
  match l with
  | [] => Some true
  | x :: r => match r with
              | [] => if is_finite x then Some true else None
              | y :: _ => match tok_leb x y, toks_sorted r with
                          | Some b1, Some b2 => Some (b1 && b2)
                          | _, _ => None
                          end
              end
  end.

(* dot product / matrix product on rows of tokens, exact *)
Fixpoint tdot (a b : list tok) : option tok :=
  match a, b with
  | [], [] => Some tzero
  | x :: a', y :: b' => obind (tmul x y) (fun p => obind (tdot a' b') (fun s => tadd p s))
  | _, _ => None
  end.

Fixpoint chunks {A} (k : nat) (fuel : nat) (l : list A) : list (list A) :=
  match fuel with
  | O => []
  | S f => match l with [] => [] | _ => firstn k l :: chunks k f (skipn k l) end
  end.
(* rows of a 2-d array *)
Definition rows_of (a : arr) : list (list tok) :=
  match a_shape a with
  | [r; c] => chunks (Z.to_nat c) (Z.to_nat r) (a_data a)
  | _ => []
  end.
Definition col (j : nat) (m : list (list tok)) : list tok := map (fun r => nth j r tzero) m.
Fixpoint omap {A B} (f : A -> option B) (l : list A) : option (list B) :=
  match l with
  | [] => Some []
  | x :: r => obind (f x) (fun y => obind (omap f r) (fun ys => Some (y :: ys)))
  end.
Definition matmul (a b : list (list tok)) (ncols : nat) : option (list (list tok)) :=
  omap (fun row => omap (fun j => tdot row (col j b)) (seq 0 ncols)) a.
Definition identity (n : nat) : list (list tok) :=
  map (fun i => map (fun j => if Nat.eqb i j then TNum 1 0 else tzero) (seq 0 n)) (seq 0 n).
Fixpoint tll_eqb (a b : list (list tok)) : bool :=
  match a, b with
  | [], [] => true
  | x :: a', y :: b' => tl_eqb x y && tll_eqb a' b'
  | _, _ => false
  end.
(* b is the exact inverse of a (n x n) *)
Definition is_inverse (n : nat) (a b : arr) : bool :=
  match matmul (rows_of a) (rows_of b) n with
  | Some p => tll_eqb p (identity n)
  | None => false
  end.

(* |t| <= 2^k *)
Definition tok_abs_le_pow2 (t : tok) (k : Z) : bool :=
  match t with
  | TNum m e => if k <=? e then Z.abs m * 2 ^ (e - k) <=? 1 else Z.abs m <=? 2 ^ (k - e)
  | _ => false
  end.
(* b inverts a up to rounding: every entry of a*b - I is at most 2^k in magnitude (exact arithmetic) *)
Definition is_inverse_tol (n : nat) (k : Z) (a b : arr) : bool :=
  match matmul (rows_of a) (rows_of b) n with
  | Some p =>
      forallb (fun rr => forallb (fun xy => match tsub (fst xy) (snd xy) with
                                           | Some d => tok_abs_le_pow2 d k
                                           | None => false end) (combine (fst rr) (snd rr)))
              (combine p (identity n)) &&
      (List.length p =? n)%nat && forallb (fun r => (List.length r =? n)%nat) p
  | None => false
  end.
