(* Base/Tok.v -- exact value tokens, dtype tags and n-d arrays as (dtype, shape, flat C-order data),
   used wherever a property is about which stored value lands where (C04, C10, C13, ...). *)
From Coq Require Import ZArith List Bool String Ascii.
Import ListNotations.
Open Scope Z_scope.

(* A finite IEEE value or integer is m * 2^e exactly; canonical form: m odd, or m = 0 and e = 0. *)
Inductive tok := TNum (m e : Z) | TNaN | TPInf | TNInf.

Definition tok_eqb (a b : tok) : bool :=
  match a, b with
  | TNum m e, TNum m' e' => (m =? m') && (e =? e')
  | TNaN, TNaN | TPInf, TPInf | TNInf, TNInf => true
  | _, _ => false
  end.

Lemma tok_eqb_eq a b : tok_eqb a b = true <-> a = b.
Proof.
  destruct a, b; cbn [tok_eqb]; split; try discriminate; try reflexivity.
  - rewrite andb_true_iff, !Z.eqb_eq. intros [-> ->]. reflexivity.
  - intros H; injection H as -> ->. now rewrite !Z.eqb_refl.
Qed.

Definition tzero : tok := TNum 0 0.
Definition tint (z : Z) : tok := TNum z 0.       (* not canonical unless z is odd or 0; see tnorm *)

(* canonicalise m * 2^e: strip factors of two from m (fuel = bit length) *)
Fixpoint strip2 (fuel : nat) (m e : Z) : tok :=
  match fuel with
  | O => TNum m e
  | S f => if m =? 0 then TNum 0 0 else if Z.even m then strip2 f (m / 2) (e + 1) else TNum m e
  end.
Definition tnorm (t : tok) : tok :=
  match t with TNum m e => strip2 (Z.to_nat (Z.log2 (Z.abs m)) + 1) m e | _ => t end.
Definition tz (z : Z) : tok := tnorm (TNum z 0).

Definition is_finite (t : tok) : bool := match t with TNum _ _ => true | _ => false end.
(* read_array: NaN and +-inf replaced by zero *)
Definition scrub (t : tok) : tok := if is_finite t then t else tzero.
(* exact value of an integer token, if it is one *)
Definition tok_Z (t : tok) : option Z :=
  match t with TNum m e => if 0 <=? e then Some (m * 2 ^ e) else None | _ => None end.

Inductive dt := DBool | DU8 | DU16 | DU32 | DU64 | DI8 | DI16 | DI32 | DI64 | DF32 | DF64.
Definition dt_code (d : dt) : Z :=
  match d with DBool => 0 | DU8 => 1 | DU16 => 2 | DU32 => 3 | DU64 => 4 | DI8 => 5 | DI16 => 6
             | DI32 => 7 | DI64 => 8 | DF32 => 9 | DF64 => 10 end.
Definition dt_eqb (a b : dt) : bool := dt_code a =? dt_code b.
Definition dt_is_float (d : dt) : bool := match d with DF32 | DF64 => true | _ => false end.

Record arr := mkarr { a_dt : dt; a_shape : list Z; a_data : list tok }.

Fixpoint zl_eqb (a b : list Z) : bool :=
  match a, b with
  | [], [] => true
  | x :: a', y :: b' => (x =? y) && zl_eqb a' b'
  | _, _ => false
  end.
Fixpoint tl_eqb (a b : list tok) : bool :=
  match a, b with
  | [], [] => true
  | x :: a', y :: b' => tok_eqb x y && tl_eqb a' b'
  | _, _ => false
  end.
Definition arr_eqb (a b : arr) : bool :=
  dt_eqb (a_dt a) (a_dt b) && zl_eqb (a_shape a) (a_shape b) && tl_eqb (a_data a) (a_data b).
(* values and shape only *)
Definition arr_veqb (a b : arr) : bool := zl_eqb (a_shape a) (a_shape b) && tl_eqb (a_data a) (a_data b).

Definition prodZ (l : list Z) : Z := fold_right Z.mul 1 l.
Definition arr_wf (a : arr) : bool := (Z.of_nat (List.length (a_data a)) =? prodZ (a_shape a)) && forallb (fun d => 0 <=? d) (a_shape a).

(* numpy.squeeze: drop the axes of length 1 (data order unchanged) *)
Definition squeeze (a : arr) : arr := mkarr (a_dt a) (filter (fun d => negb (d =? 1)) (a_shape a)) (a_data a).
Definition atleast_1d (a : arr) : arr := match a_shape a with [] => mkarr (a_dt a) [1] (a_data a) | _ => a end.
Definition atleast_2d (a : arr) : arr :=
  match a_shape a with
  | [] => mkarr (a_dt a) [1; 1] (a_data a)
  | [n] => mkarr (a_dt a) [1; n] (a_data a)
  | _ => a
  end.
(* numpy.atleast_3d: () -> (1,1,1); (n,) -> (1,n,1); (m,n) -> (m,n,1) *)
Definition atleast_3d (a : arr) : arr :=
  match a_shape a with
  | [] => mkarr (a_dt a) [1; 1; 1] (a_data a)
  | [n] => mkarr (a_dt a) [1; n; 1] (a_data a)
  | [m; n] => mkarr (a_dt a) [m; n; 1] (a_data a)
  | _ => a
  end.

(* string keys *)
Definition str_eqb (a b : string) : bool := String.eqb a b.
Fixpoint lookup {V} (k : string) (l : list (string * V)) : option V :=
  match l with [] => None | (k', v) :: r => if String.eqb k k' then Some v else lookup k r end.
Fixpoint starts_with (p s : string) : bool :=
  match p, s with
  | EmptyString, _ => true
  | String a p', String b s' => Ascii.eqb a b && starts_with p' s'
  | _, EmptyString => false
  end.
Fixpoint str_rev_acc (s acc : string) : string :=
  match s with EmptyString => acc | String a s' => str_rev_acc s' (String a acc) end.
Definition str_rev (s : string) : string := str_rev_acc s EmptyString.
Definition ends_with (suf s : string) : bool := starts_with (str_rev suf) (str_rev s).
(* Path.glob("prefix*suffix") restricted to the one-star patterns phylib uses *)
Definition glob1 (pre suf s : string) : bool :=
  starts_with pre s && ends_with suf s && (Nat.leb (String.length pre + String.length suf) (String.length s)).
