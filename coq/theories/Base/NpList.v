From Coq Require Import ZArith List Lia Bool Arith.
Import ListNotations.
Open Scope Z_scope.

Section Scatter.
Context {A : Type}.

Fixpoint upd (l : list A) (i : nat) (v : A) : list A :=
  match l, i with
  | [], _ => []
  | _ :: r, O => v :: r
  | x :: r, S k => x :: upd r k v
  end.

Lemma upd_length l i v : length (upd l i v) = length l.
Proof. revert i; induction l as [|x r IH]; intros [|k]; cbn; auto. Qed.

Lemma upd_nth_same l i v d : (i < length l)%nat -> nth i (upd l i v) d = v.
Proof. revert i; induction l as [|x r IH]; intros [|k] H; cbn in *; try lia; auto. apply IH; lia. Qed.

Lemma upd_nth_other l i j v d : i <> j -> nth j (upd l i v) d = nth j l d.
Proof.
  revert i j; induction l as [|x r IH]; intros [|k] [|j] H; cbn; try reflexivity; try lia.
  apply IH; lia.
Qed.

(* NumPy fancy assignment  out[idx] = vals  performed left to right: the last write wins *)
Definition scatter (init : list A) (writes : list (nat * A)) : list A :=
  fold_left (fun acc w => upd acc (fst w) (snd w)) writes init.

Fixpoint last_write (j : nat) (writes : list (nat * A)) : option A :=
  match writes with
  | [] => None
  | w :: r => match last_write j r with
              | Some v => Some v
              | None => if Nat.eqb (fst w) j then Some (snd w) else None
              end
  end.

Lemma scatter_length init writes : length (scatter init writes) = length init.
Proof.
  unfold scatter. revert init; induction writes as [|w r IH]; intros init; cbn [fold_left]; [reflexivity|].
  rewrite IH. apply upd_length.
Qed.

Theorem scatter_nth init writes j d :
  (forall w, In w writes -> (fst w < length init)%nat) ->
  nth j (scatter init writes) d =
  match last_write j writes with Some v => v | None => nth j init d end.
Proof.
  unfold scatter. revert init; induction writes as [|w r IH]; intros init H; cbn [fold_left last_write]; [reflexivity|].
  rewrite IH.
  2:{ intros w' Hw'. rewrite upd_length. apply H. now right. }
  destruct (last_write j r) as [v|]; [reflexivity|].
  destruct (Nat.eqb (fst w) j) eqn:E.
  - apply Nat.eqb_eq in E. subst j. apply upd_nth_same. apply H. now left.
  - apply Nat.eqb_neq in E. now apply upd_nth_other.
Qed.

(* with at most one writer per cell, "last" is "the" *)
Lemma last_write_unique j writes k v :
  NoDup (map fst writes) -> nth_error writes k = Some (j, v) -> last_write j writes = Some v.
Proof.
  revert k; induction writes as [|w r IH]; intros k Hnd Hk; [destruct k; discriminate|].
  cbn [map] in Hnd. apply NoDup_cons_iff in Hnd as [Hnotin Hnd]. cbn [last_write].
  destruct k as [|k]; cbn [nth_error] in Hk.
  - injection Hk as ->. cbn [fst snd] in *.
    assert (last_write j r = None) as ->.
    { clear -Hnotin. induction r as [|w' r IH]; [reflexivity|]. cbn [last_write map In] in *.
      rewrite IH by tauto. destruct (Nat.eqb (fst w') j) eqn:E; [|reflexivity].
      apply Nat.eqb_eq in E. tauto. }
    now rewrite Nat.eqb_refl.
  - now rewrite (IH k Hnd Hk).
Qed.

Lemma last_write_none j writes : ~ In j (map fst writes) -> last_write j writes = None.
Proof.
  induction writes as [|w r IH]; intros H; [reflexivity|]. cbn [last_write map In] in *.
  rewrite IH by tauto. destruct (Nat.eqb (fst w) j) eqn:E; [|reflexivity].
  apply Nat.eqb_eq in E. tauto.
Qed.
End Scatter.

(* ---------- phylib.io.array._index_of ---------- *)
(* Python index normalisation into a table of length len *)
Definition pyidx (len : Z) (i : Z) : nat := Z.to_nat (if i <? 0 then i + len else i).

Definition zmax_list (l : list Z) : Z := fold_right Z.max 0 l.   (* used on non-negative data only *)

Definition index_table (lookup : list Z) : list Z :=
  let m := (match lookup with [] => 0 | _ => fold_right Z.max (hd 0 lookup) lookup end) + 1 in
  let len := m + 1 in
  let tmp0 := upd (repeat 0 (Z.to_nat len)) (pyidx len (-1)) (-1) in
  scatter tmp0 (combine (map (pyidx len) lookup) (map Z.of_nat (seq 0 (length lookup)))).

Definition index_of (arr lookup : list Z) : list Z :=
  let tmp := index_table lookup in
  map (fun x => nth (pyidx (Z.of_nat (length tmp)) x) tmp 0) arr.




