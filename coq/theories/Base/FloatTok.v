(* Base/FloatTok.v -- one correctly rounded IEEE-754 binary64 operation on exact tokens, using Coq's
   primitive floats.  Used ONLY in Corr.v comparators (never in a property theorem): the primitives
   PrimFloat.* / Uint63.* are the kernel's, not declarations of this development. *)
From Coq Require Import ZArith List Bool PrimFloat Uint63.
From PV Require Import Base.Tok.
Import ListNotations.
Open Scope Z_scope.

Definition f_of_Z (z : Z) : float :=          (* exact for |z| < 2^53 *)
  let a := PrimFloat.of_uint63 (Uint63.of_Z (Z.abs z)) in
  if z <? 0 then PrimFloat.opp a else a.

Definition f_ldexp (f : float) (e : Z) : float :=
  (* ldshiftexp expects the exponent shifted by 2101; clamp to keep the int non-negative *)
  PrimFloat.ldshiftexp f (Uint63.of_Z (Z.max 0 (Z.min 4400 (e + 2101)))).

(* the binary64 value of a token whose mantissa fits 53 bits (else None) *)
Definition float_of_tok (t : tok) : option float :=
  match t with
  | TNum m e => if Z.abs m <? 2 ^ 53 then Some (f_ldexp (f_of_Z m) e) else None
  | TNaN => Some PrimFloat.nan
  | TPInf => Some PrimFloat.infinity
  | TNInf => Some PrimFloat.neg_infinity
  end.

Definition tok_of_float (f : float) : tok :=
  if PrimFloat.is_nan f then TNaN
  else if PrimFloat.is_infinity f then (if PrimFloat.ltb f PrimFloat.zero then TNInf else TPInf)
  else if PrimFloat.is_zero f then TNum 0 0
  else
    let neg := PrimFloat.ltb f PrimFloat.zero in
    let '(fr, ex) := PrimFloat.frshiftexp (PrimFloat.abs f) in
    let m := Uint63.to_Z (PrimFloat.normfr_mantissa fr) in
    let e := Uint63.to_Z ex - 2101 - 53 in
    tnorm (TNum (if neg then - m else m) e).

Definition fop2 (op : float -> float -> float) (a b : tok) : option tok :=
  match float_of_tok a, float_of_tok b with
  | Some x, Some y => Some (tok_of_float (op x y))
  | _, _ => None
  end.
Definition fdiv_tok := fop2 PrimFloat.div.
Definition fmul_tok := fop2 PrimFloat.mul.
Definition fadd_tok := fop2 PrimFloat.add.
Definition fsub_tok := fop2 PrimFloat.sub.

(* numpy.round / rint on an exact finite value: round half to even, in exact arithmetic *)
Definition round_half_even_tok (t : tok) : option Z :=
  match t with
  | TNum m e =>
      if 0 <=? e then Some (m * 2 ^ e)
      else let d := 2 ^ (- e) in
           let q := m / d in let r := m mod d in      (* floor division: 0 <= r < d *)
           Some (if 2 * r <? d then q else if d <? 2 * r then q + 1 else if Z.even q then q else q + 1)
  | _ => None
  end.

(* cast of an exact binary64 value to float32 (round to nearest even on 24 bits), normal range only *)
Definition to_f32_tok (t : tok) : option tok :=
  match t with
  | TNum 0 _ => Some (TNum 0 0)
  | TNum m e =>
      let l := Z.log2 (Z.abs m) + 1 in           (* bit length *)
      if l <=? 24 then Some t
      else let sh := l - 24 in
           match round_half_even_tok (TNum (Z.abs m) (- sh)) with
           | Some q => Some (tnorm (TNum (if m <? 0 then - q else q) (e + sh)))
           | None => None
           end
  | _ => Some t
  end.
