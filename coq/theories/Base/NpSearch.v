(* Base/NpSearch.v -- searchsorted, cumulative sums, integer ranges, with the lemmas shared by
   C01 (part look-up), C16 (chunk bounds), C17 (parity test) and C03 (spikes per chunk). *)
From Coq Require Import ZArith List Lia Bool.
Import ListNotations.
Open Scope Z_scope.

(* np.searchsorted(b, x, 'right') on a sorted b: number of leading elements <= x *)
Fixpoint ssr (b : list Z) (x : Z) : Z :=
  match b with [] => 0 | y :: r => if y <=? x then 1 + ssr r x else 0 end.

(* np.searchsorted(b, x, 'left') on a sorted b: number of leading elements < x *)
Fixpoint ssl (b : list Z) (x : Z) : Z :=
  match b with [] => 0 | y :: r => if y <? x then 1 + ssl r x else 0 end.

Fixpoint cumsum_from (acc : Z) (l : list Z) : list Z :=
  match l with [] => [] | x :: r => (acc + x) :: cumsum_from (acc + x) r end.

Definition zlen {A} (l : list A) : Z := Z.of_nat (length l).
Definition nthZ (l : list Z) (i : Z) : Z := nth (Z.to_nat i) l 0.
Fixpoint zrange (a : Z) (k : nat) : list Z :=
  match k with O => [] | S k' => a :: zrange (a + 1) k' end.
Definition zsum (l : list Z) : Z := fold_right Z.add 0 l.

Inductive sortedZ : list Z -> Prop :=
| sorted_nil : sortedZ []
| sorted_one x : sortedZ [x]
| sorted_cons x y r : x <= y -> sortedZ (y :: r) -> sortedZ (x :: y :: r).

Fixpoint sortedZb (l : list Z) : bool :=
  match l with
  | [] => true
  | x :: r => match r with [] => true | y :: _ => (x <=? y) && sortedZb r end
  end.

Lemma sortedZb_spec l : sortedZb l = true <-> sortedZ l.
Proof.
  induction l as [|x r IH]; [split; [constructor|reflexivity]|].
  cbn [sortedZb]. destruct r as [|y r'].
  - split; [constructor|reflexivity].
  - rewrite andb_true_iff, IH. split.
    + intros [H1 H2]. constructor; [lia|assumption].
    + intros H; inversion H; subst. split; [lia|assumption].
Qed.

Lemma ssr_range b x : 0 <= ssr b x <= zlen b.
Proof.
  unfold zlen. induction b as [|y r IH]; cbn [ssr length]; [lia|].
  destruct (y <=? x); lia.
Qed.

Lemma ssr_below b x i : 0 <= i < ssr b x -> nthZ b i <= x.
Proof.
  revert i; induction b as [|y r IH]; intros i; cbn [ssr]; [lia|].
  destruct (y <=? x) eqn:E; [|lia]. intros Hi. unfold nthZ.
  destruct (Z.to_nat i) as [|k] eqn:Ek; cbn [nth]; [lia|].
  specialize (IH (i - 1)). unfold nthZ in IH. replace (Z.to_nat (i - 1)) with k in IH by lia.
  apply IH. lia.
Qed.

Lemma sorted_head_le y r i : sortedZ (y :: r) -> 0 <= i < zlen (y :: r) -> y <= nthZ (y :: r) i.
Proof.
  revert y i; induction r as [|z r IH]; intros y i Hs Hi; unfold nthZ, zlen in *; cbn [length] in Hi.
  - replace (Z.to_nat i) with 0%nat by lia. cbn; lia.
  - inversion Hs as [| |? ? ? Hyz Hs']; subst.
    destruct (Z.to_nat i) as [|k] eqn:Ek; [cbn; lia|].
    change (nth (S k) (y :: z :: r) 0) with (nth k (z :: r) 0).
    specialize (IH z (i - 1) Hs'). cbn [length] in IH.
    replace (Z.to_nat (i - 1)) with k in IH by lia.
    specialize (IH ltac:(lia)). lia.
Qed.

Lemma sorted_tail y r : sortedZ (y :: r) -> sortedZ r.
Proof. intros H; inversion H; subst; [constructor|assumption]. Qed.

Lemma ssr_above b x i : sortedZ b -> ssr b x <= i < zlen b -> x < nthZ b i.
Proof.
  revert i; induction b as [|y r IH]; intros i Hs; cbn [ssr]; unfold zlen; cbn [length]; [lia|].
  destruct (y <=? x) eqn:E.
  - intros Hi. unfold nthZ. pose proof (ssr_range r x) as Hr.
    destruct (Z.to_nat i) as [|k] eqn:Ek; [lia|]. cbn [nth].
    specialize (IH (i - 1) (sorted_tail _ _ Hs)). unfold nthZ, zlen in IH.
    replace (Z.to_nat (i - 1)) with k in IH by lia. apply IH. lia.
  - intros Hi. pose proof (sorted_head_le y r i Hs) as H. unfold zlen in H; cbn [length] in H.
    specialize (H ltac:(lia)). lia.
Qed.

Lemma ssr_mono b x x' : x <= x' -> ssr b x <= ssr b x'.
Proof.
  intros H; induction b as [|y r IH]; cbn [ssr]; [lia|].
  destruct (y <=? x) eqn:E1, (y <=? x') eqn:E2; try lia.
  pose proof (ssr_range r x'). lia.
Qed.

Lemma ssr_nonneg b x : 0 <= ssr b x.
Proof. pose proof (ssr_range b x); lia. Qed.

Lemma cumsum_sorted acc l : (forall x, In x l -> 0 <= x) -> sortedZ (acc :: cumsum_from acc l).
Proof.
  revert acc; induction l as [|x r IH]; intros acc H; cbn [cumsum_from]; [constructor|].
  constructor; [specialize (H x (or_introl eq_refl)); lia|]. apply IH. intros y Hy; apply H; now right.
Qed.

Lemma cumsum_length acc l : length (cumsum_from acc l) = length l.
Proof. revert acc; induction l as [|x r IH]; intros acc; cbn [cumsum_from length]; auto. Qed.

Lemma zrange_S a k : zrange (a + 1) k = map (fun c => c + 1) (zrange a k).
Proof. revert a; induction k as [|k IH]; intros a; cbn [zrange map]; [reflexivity|]. now rewrite IH. Qed.

Lemma zrange_ge a k c : In c (zrange a k) -> a <= c < a + Z.of_nat k.
Proof.
  revert a; induction k as [|k IH]; intros a; cbn [zrange In]; [tauto|].
  intros [<-|H]; [lia|]. apply IH in H. lia.
Qed.

Lemma zrange_in a k c : a <= c < a + Z.of_nat k -> In c (zrange a k).
Proof.
  revert a; induction k as [|k IH]; intros a H; [lia|]. cbn [zrange In].
  destruct (Z.eq_dec a c) as [->|Hn]; [now left|right]. apply IH. lia.
Qed.

Lemma zrange_app a k1 k2 : zrange a (k1 + k2) = zrange a k1 ++ zrange (a + Z.of_nat k1) k2.
Proof.
  revert a; induction k1 as [|k IH]; intros a; cbn [zrange Nat.add app].
  - f_equal; lia.
  - rewrite IH. do 3 f_equal. lia.
Qed.

Lemma zrange_length a k : length (zrange a k) = k.
Proof. revert a; induction k as [|k IH]; intros a; cbn [zrange length]; auto. Qed.

Lemma zrange_nth a k i d : (i < k)%nat -> nth i (zrange a k) d = a + Z.of_nat i.
Proof.
  revert a i; induction k as [|k IH]; intros a i H; [lia|]. cbn [zrange].
  destruct i as [|i]; cbn [nth]; [lia|]. rewrite IH by lia. lia.
Qed.
