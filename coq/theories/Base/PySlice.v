From Coq Require Import ZArith List Lia Bool.
Import ListNotations.
Open Scope Z_scope.

Section S.
Context {A : Type}.

(* data[i:j] for i, j >= 0 (Python clipping at the end). *)
Definition slice (l : list A) (i j : Z) : list A :=
  firstn (Z.to_nat j - Z.to_nat i) (skipn (Z.to_nat i) l).

Lemma slice_all (l : list A) (j : Z) : Z.of_nat (length l) <= j -> slice l 0 j = l.
Proof.
  intros H. unfold slice. cbn [Z.to_nat skipn]. rewrite Nat.sub_0_r.
  apply firstn_all2. lia.
Qed.

Lemma slice_empty (l : list A) (i j : Z) : j <= i -> slice l i j = [].
Proof.
  intros H. unfold slice. replace (Z.to_nat j - Z.to_nat i)%nat with 0%nat by lia. reflexivity.
Qed.

Lemma slice_beyond (l : list A) (i j : Z) : Z.of_nat (length l) <= i -> slice l i j = [].
Proof.
  intros H. unfold slice. rewrite skipn_all2 by lia. apply firstn_nil.
Qed.

Lemma firstn_skipn_app (n m : nat) (l : list A) :
  firstn n l ++ firstn m (skipn n l) = firstn (n + m) l.
Proof.
  revert l; induction n as [|n IH]; intros l; cbn [firstn skipn Nat.add app]; [reflexivity|].
  destruct l as [|x l]; cbn [firstn skipn app].
  - now rewrite firstn_nil.
  - now rewrite IH.
Qed.

Lemma skipn_skipn' (n m : nat) (l : list A) : skipn n (skipn m l) = skipn (m + n) l.
Proof.
  revert l; induction m as [|m IH]; intros l; cbn [skipn Nat.add]; [reflexivity|].
  destruct l as [|x l]; [now rewrite skipn_nil|]. apply IH.
Qed.

Lemma slice_app (l : list A) (a b c : Z) :
  0 <= a <= b -> slice l a b ++ slice l b c = slice l a (Z.max b c).
Proof.
  intros H. unfold slice.
  replace (skipn (Z.to_nat b) l) with (skipn (Z.to_nat b - Z.to_nat a) (skipn (Z.to_nat a) l)).
  2:{ rewrite skipn_skipn'. f_equal. lia. }
  rewrite firstn_skipn_app. f_equal. lia.
Qed.

Lemma slice_length (l : list A) (i j : Z) : 0 <= i ->
  Z.of_nat (length (slice l i j)) = Z.max 0 (Z.min j (Z.of_nat (length l)) - Z.min i (Z.of_nat (length l))).
Proof.
  intros H. unfold slice. rewrite firstn_length, skipn_length. lia.
Qed.
End S.
