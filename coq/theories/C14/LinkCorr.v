(* C14/LinkCorr.v -- stage 5: what clause 28 of C14/Corr.v (loaded_ok) establishes.
   When the comparator accepts the loaded cluster waveforms of a case, the snapshot x of the loaded TemplateModel is
   Linked (LinkC08.v) to the data set made of its own templates / spike_templates / spike_clusters / positions /
   channel_shanks and to C08's model of the branch of _load_data: every C14_C08_* theorem of LinkC08.v then applies to x
   (cluster waveform = the template, zeros, or the spike-count weighted mean on the channels of the dominant template;
   depths / durations / waveforms stated on templates.npy).  Not required by Props.v / Corr.v.
     cd /verif/coq && coqc -noglob -Q theories PV theories/C14/LinkCorr.v *)
From Coq Require Import ZArith List Bool Arith Lia.
From PV Require Import C14.Corr.
From PV Require C14.LinkC08 C14.Proofs5.
Import ListNotations.
Open Scope Z_scope.

Module L8 := PV.C14.LinkC08.

Lemma q_data_int_data l : q_data l = L8.int_data l.
Proof. reflexivity. Qed.

Lemma all2b_eq {A} (f : A -> A -> bool) :
  (forall a b, f a b = true -> a = b) -> forall l l', all2b f l l' = true -> l = l'.
Proof.
  intros H. induction l as [|a l IH]; intros [|b l'] E; cbn in E; try discriminate; [reflexivity|].
  apply andb_prop in E as [E1 E2]. f_equal; [now apply H|now apply IH].
Qed.

Lemma pos_rows (p : list (list Z)) :
  Forall (fun r => length r = 2%nat) p ->
  p = L8.pos_of (map (fun r => nth 0 r 0) p) (map (fun r => nth 1 r 0) p).
Proof.
  induction 1 as [|r p Hr _ IH]; [reflexivity|].
  destruct r as [|a [|b [|c r]]]; try discriminate. unfold L8.pos_of in *. cbn. f_equal. exact IH.
Qed.

Theorem C14_corr_loaded_linked x sh nan :
  loaded_ok x sh nan = Some true ->
  x_nt x = PV.Base.NpSearch.zlen (x_tdata x) ->
  Forall (fun r => length r = 2%nat) (x_pos x) ->
  exists L, PV.C08.Model.load (c08_dset x sh) = Some L /\ L8.Linked (c08_dset x sh) L x /\
            PV.C08.Model.l_nan L = nan /\ x_nclosest x = PV.C08.Model.n_closest_channels.
Proof.
  unfold loaded_ok. intros H Hnt Hpos.
  destruct (x_nclosest x =? PV.C08.Model.n_closest_channels) eqn:En; cbn [andb negb] in H; [|discriminate].
  destruct (Nat.eqb (length sh) (length (x_pos x))); cbn [negb] in H; [|discriminate].
  destruct (PV.C08.Model.load (c08_dset x sh)) as [L|] eqn:EL; [|discriminate].
  destruct (q_data (PV.C08.Model.l_data L)) as [cd|] eqn:Ecd; [|discriminate].
  injection H as H. apply andb_prop in H as [H Hnan]. apply andb_prop in H as [Hcd Hncl].
  exists L. split; [reflexivity|]. split; [|split].
  - assert (E : cd = x_cdata x).
    { revert Hcd. apply all2b_eq. apply all2b_eq. apply all2b_eq. intros a b. apply Z.eqb_eq. }
    constructor; cbn; try reflexivity.
    + rewrite <- q_data_int_data, <- E. exact Ecd.
    + exact Hnt.
    + apply Z.eqb_eq in Hncl. now symmetry.
    + now apply pos_rows.
  - now apply PV.C14.Proofs5.zl_eq_true in Hnan.
  - now apply Z.eqb_eq.
Qed.
Print Assumptions C14_corr_loaded_linked.
