(* C14/Proofs5.v -- nan_idx of get_merge_map = the cluster ids up to the highest one that have no spike; nan_idx of
   the identity branch of _load_data (repaired) = the ids of range(n_clusters) that have no spike. *)
From Coq Require Import ZArith List Bool Arith Lia.
From PV Require Import C09.Model C09.Spec C09.Proofs C09.Proofs2 C09.Proofs3 C14.Model C14.Spec C14.Proofs1.
Import ListNotations.
Open Scope Z_scope.

Definition NE (d : list (list Z)) (c : nat) : Prop := nth c d [] <> [].

Lemma app_nth_length d i v : length (app_nth d i v) = length d.
Proof. revert i; induction d as [|x r IH]; intros [|i]; cbn [app_nth length]; auto. Qed.
Lemma app_nth_NE d i v c : (i < length d)%nat -> (NE (app_nth d i v) c <-> NE d c \/ c = i).
Proof.
  unfold NE. revert i c; induction d as [|x r IH]; intros i c Hi; [cbn in Hi; lia|].
  destruct i as [|i]; destruct c as [|c]; cbn [app_nth nth].
  - split; [now right|]. intros _ E. now apply app_eq_nil in E as [_ E].
  - split; [now left|]. intros [H|H]; [exact H|discriminate].
  - split; [now left|]. intros [H|H]; [exact H|discriminate].
  - cbn [length] in Hi. rewrite (IH i c) by lia. split; intros [H|H]; auto; right; lia.
Qed.

Lemma inner_fold_NE temp ns : forall d c,
  (forall n, In n ns -> 0 <= n /\ (Z.to_nat n < length d)%nat) ->
  (NE (fold_left (fun d' n => app_nth d' (Z.to_nat n) temp) ns d) c <-> NE d c \/ In (Z.of_nat c) ns) /\
  length (fold_left (fun d' n => app_nth d' (Z.to_nat n) temp) ns d) = length d.
Proof.
  induction ns as [|n ns' IH]; intros d c H; cbn [fold_left In]; [split; [tauto|reflexivity]|].
  destruct (H n (or_introl eq_refl)) as [Hn0 Hn].
  destruct (IH (app_nth d (Z.to_nat n) temp) c) as [I1 I2].
  { intros m Hm. rewrite app_nth_length. apply H. now right. }
  rewrite I2, app_nth_length. split; [|reflexivity].
  rewrite I1, (app_nth_NE d (Z.to_nat n) temp c Hn). split.
  - intros [[H1|H1]|H1]; auto. right. left. lia.
  - intros [H1|[H1|H1]]; auto. left. right. lia.
Qed.

Lemma sel_In ps ms p x : In x (sel ps ms p) <-> In (p, x) (combine ps ms).
Proof.
  unfold sel. rewrite in_map_iff. split.
  - intros ([p' x'] & E & Hf). cbn [snd] in E. subst x'. apply filter_In in Hf as [Hin Hp]. cbn [fst] in Hp.
    apply Z.eqb_eq in Hp. now subst p'.
  - intros H. exists (p, x). split; [reflexivity|]. apply filter_In. split; [exact H|]. cbn [fst]. apply Z.eqb_refl.
Qed.
Lemma combine_In_snd {A B} (a : list A) (b : list B) y : length a = length b -> In y b -> exists x, In (x, y) (combine a b).
Proof.
  revert b; induction a as [|x a' IH]; intros [|y' b'] L H; cbn in L; try discriminate; [destruct H|].
  destruct H as [->|H]; [exists x; now left|]. destruct (IH b' ltac:(lia) H) as (x' & Hx). exists x'. now right.
Qed.

Lemma np_unique_In1 l y : In y (np_unique l) -> In y l.
Proof. apply (proj2 (np_unique_spec l)). Qed.
Lemma np_unique_In2 l y : In y l -> In y (np_unique l).
Proof. apply (proj2 (np_unique_spec l)). Qed.

Section MergeMap.
Variables st sc : list Z.
Hypothesis Hlen : length sc = length st.
Hypothesis Hpos : forall s, In s sc -> 0 <= s.

Definition step1 (d : list (list Z)) (temp : Z) : list (list Z) :=
  fold_left (fun d' n => app_nth d' (Z.to_nat n) temp) (np_unique (sel st sc temp)) d.

Lemma sel_sub temp n : In n (np_unique (sel st sc temp)) -> In n sc.
Proof.
  intros H. apply np_unique_In1 in H. apply (proj1 (sel_In _ _ _ _)) in H. eapply in_combine_r; eauto.
Qed.

Lemma outer_fold_NE temps : forall d c, (Z.to_nat (lmax sc) < length d)%nat ->
  (NE (fold_left step1 temps d) c <-> NE d c \/ exists temp, In temp temps /\ In (Z.of_nat c) (sel st sc temp)) /\
  length (fold_left step1 temps d) = length d.
Proof.
  induction temps as [|temp r IH]; intros d c Hd; cbn [fold_left].
  - split; [|reflexivity]. split; [now left|]. intros [H|(t & [] & _)]. exact H.
  - assert (Hr : forall n, In n (np_unique (sel st sc temp)) -> 0 <= n /\ (Z.to_nat n < length d)%nat).
    { intros n Hn. apply sel_sub in Hn. pose proof (Hpos n Hn). pose proof (lmax_ge sc n Hn). lia. }
    destruct (inner_fold_NE temp (np_unique (sel st sc temp)) d c Hr) as [J1 J2]. fold (step1 d temp) in J1, J2.
    destruct (IH (step1 d temp) c ltac:(rewrite J2; exact Hd)) as [I1 I2].
    rewrite I2, J2. split; [|reflexivity]. rewrite I1, J1. split.
    + intros [[H|H]|(t & Ht & Hc)]; [now left| |].
      * right. exists temp. split; [now left|]. now apply np_unique_In1 in H.
      * right. exists t. split; [now right|exact Hc].
    + intros [H|(t & [<-|Ht] & Hc)]; [now left; left| |].
      * left. right. now apply np_unique_In2.
      * right. exists t. now split.
Qed.

Lemma merge_map_NE c : (c < length (merge_map st sc))%nat -> (NE (merge_map st sc) c <-> In (Z.of_nat c) sc).
Proof.
  intros Hc. unfold merge_map. fold step1.
  assert (L0 : (Z.to_nat (lmax sc) < length (repeat (@nil Z) (Z.to_nat (lmax sc + 1))))%nat).
  { rewrite repeat_length. assert (0 <= lmax sc); [|lia].
    destruct sc as [|s0 r]; [cbn; lia|]. pose proof (Hpos s0 (or_introl eq_refl)).
    pose proof (lmax_ge (s0 :: r) s0 (or_introl eq_refl)). lia. }
  destruct (outer_fold_NE (np_unique st) (repeat [] (Z.to_nat (lmax sc + 1))) c L0) as [I1 _].
  rewrite I1. split.
  - intros [H|(t & _ & Hs)].
    + exfalso. apply H. unfold NE. clear. generalize (Z.to_nat (lmax sc + 1)). intros n. revert c.
      induction n as [|n IH]; intros [|c]; cbn [repeat nth]; auto.
    + apply (proj1 (sel_In _ _ _ _)) in Hs. eapply in_combine_r; eauto.
  - intros H. right. destruct (combine_In_snd st sc _ (eq_sym Hlen) H) as (t & Ht).
    exists t. split; [|now apply (proj2 (sel_In _ _ _ _))]. apply np_unique_In2. eapply in_combine_l; eauto.
Qed.

Lemma merge_map_length : length (merge_map st sc) = Z.to_nat (lmax sc + 1).
Proof.
  change (length (fold_left step1 (np_unique st) (repeat [] (Z.to_nat (lmax sc + 1)))) = Z.to_nat (lmax sc + 1)).
  assert (L0 : (Z.to_nat (lmax sc) < length (repeat (@nil Z) (Z.to_nat (lmax sc + 1))))%nat).
  { rewrite repeat_length. assert (0 <= lmax sc); [|lia].
    destruct sc as [|s0 r]; [cbn; lia|]. pose proof (Hpos s0 (or_introl eq_refl)).
    pose proof (lmax_ge (s0 :: r) s0 (or_introl eq_refl)). lia. }
  destruct (outer_fold_NE (np_unique st) (repeat [] (Z.to_nat (lmax sc + 1))) 0%nat L0) as [_ I2].
  now rewrite I2, repeat_length.
Qed.

(* nan_idx = the ids 0 .. max(spike_clusters) that no spike carries *)
Theorem nan_idx_thm : forall c, In c (nan_idx st sc) <-> 0 <= c <= lmax sc /\ ~ In c sc.
Proof.
  intros c. unfold nan_idx. rewrite in_map_iff. split.
  - intros (c' & <- & Hf). apply filter_In in Hf as [Hin Hnil]. apply in_seq in Hin.
    assert (Hc : (c' < length (merge_map st sc))%nat) by lia.
    pose proof merge_map_length as L. split; [lia|].
    intros Hsc. apply (merge_map_NE c' Hc) in Hsc. apply Hsc. unfold is_nil in Hnil.
    destruct (nth c' (merge_map st sc) []); [reflexivity|discriminate].
  - intros [Hr Hn]. exists (Z.to_nat c). split; [lia|]. apply filter_In.
    pose proof merge_map_length as L. split; [apply in_seq; lia|].
    destruct (nth (Z.to_nat c) (merge_map st sc) []) eqn:E; [reflexivity|]. exfalso. apply Hn.
    rewrite <- (Z2Nat.id c) by lia. apply merge_map_NE; [lia|]. unfold NE. rewrite E. discriminate.
Qed.
End MergeMap.

Lemma zl_eq_true a b : zl_eq a b = true <-> a = b.
Proof.
  revert b; induction a as [|x a' IH]; intros [|y b']; cbn [zl_eq]; split; try discriminate; try reflexivity.
  - rewrite andb_true_iff, Z.eqb_eq, IH. intros [-> ->]. reflexivity.
  - intros H. injection H as -> ->. rewrite Z.eqb_refl. cbn. now apply IH.
Qed.

(* np.setdiff1d(np.arange(n_clusters), spike_clusters): increasing, the ids of range(n_clusters) no spike carries *)
Lemma setdiff_arange_thm ncl sc c : In c (setdiff_arange ncl sc) <-> 0 <= c < ncl /\ ~ In c sc.
Proof.
  unfold setdiff_arange. rewrite in_map_iff. split.
  - intros (k & <- & Hf). apply filter_In in Hf as [Hin Hm]. apply in_seq in Hin. split; [lia|].
    intros H. apply memZ_In in H. rewrite H in Hm. discriminate.
  - intros [Hr Hn]. exists (Z.to_nat c). split; [lia|]. apply filter_In. split; [apply in_seq; lia|].
    rewrite Z2Nat.id by lia. destruct (memZ c sc) eqn:E; [|reflexivity]. apply memZ_In in E. contradiction.
Qed.

(* what alf.py sets to NaN (model.nan_idx as _load_data leaves it, repaired): when no spike changed cluster, the
   ids of range(n_clusters) without spikes; otherwise the ids 0 .. max(spike_clusters) without spikes; and since
   the loader sets n_clusters = max(spike_clusters) + 1 in the second case (C08_merge_map_loaded), in BOTH cases
   exactly the ids of range(n_clusters) that no spike carries *)
Theorem model_nan_idx_thm : forall ncl st sc, length sc = length st -> (forall s, In s sc -> 0 <= s) ->
  (sc = st -> forall c, In c (model_nan_idx ncl st sc) <-> 0 <= c < ncl /\ ~ In c sc) /\
  (sc <> st -> forall c, In c (model_nan_idx ncl st sc) <-> 0 <= c <= lmax sc /\ ~ In c sc) /\
  ((sc <> st -> ncl = lmax sc + 1) ->
   forall c, In c (model_nan_idx ncl st sc) <-> 0 <= c < ncl /\ ~ In c sc).
Proof.
  intros ncl st sc L P. unfold model_nan_idx, curated. split; [|split].
  - intros ->. replace (zl_eq st st) with true by (symmetry; now apply zl_eq_true). cbn [negb].
    intros c. apply setdiff_arange_thm.
  - intros N. destruct (zl_eq sc st) eqn:E; [apply zl_eq_true in E; contradiction|]. cbn [negb].
    now apply nan_idx_thm.
  - intros Hn c. destruct (zl_eq sc st) eqn:E; cbn [negb]; [apply setdiff_arange_thm|].
    assert (N : sc <> st) by (intros Eq; apply zl_eq_true in Eq; congruence).
    rewrite (nan_idx_thm st sc L P c), (Hn N). split; intros [H1 H2]; (split; [lia|exact H2]).
Qed.

(* the marked ids are increasing (what np.setdiff1d / the dictionary order of get_merge_map give) -- uncurated case *)
Lemma setdiff_arange_old_differs : exists ncl st sc,
  sc = st /\ model_nan_idx_old st sc = [] /\ model_nan_idx ncl st sc = [2] /\ ~ In 2 sc /\ 0 <= 2 < ncl.
Proof. exists 4, [0; 1; 3; 0], [0; 1; 3; 0]. repeat split; try reflexivity; cbn; lia. Qed.
