(* C14/Proofs1.v -- basic lemmas: set_nan, take_cols, structure of a successful export. *)
From Coq Require Import ZArith QArith List Bool Arith Lia.
From PV Require Import C09.Model C09.Spec C09.Proofs C09.Proofs2 C14.Model C14.Spec.
Import ListNotations.
Open Scope Z_scope.

Lemma memZ_In z l : memZ z l = true <-> In z l.
Proof.
  unfold memZ. rewrite existsb_exists. split.
  - intros (x & Hx & E). apply Z.eqb_eq in E. now subst.
  - intros H. exists z. split; [exact H|apply Z.eqb_refl].
Qed.

Lemma set_at_length {A} (d : A) idx l : length (set_at d idx l) = length l.
Proof. unfold set_at. now rewrite map_length, combine_length, seq_length, Nat.min_id. Qed.
Lemma set_at_nth {A} (d : A) idx l n v : nth_error l n = Some v ->
  nth_error (set_at d idx l) n = Some (if memZ (Z.of_nat n) idx then d else v).
Proof.
  intros H. unfold set_at. rewrite nth_error_map, (combine_seq_nth_error _ 0 n v H). reflexivity.
Qed.
Lemma set_nan_length idx l : length (set_nan idx l) = length l.
Proof. apply set_at_length. Qed.
(* arr[nan_idx] = nan: entry n is NaN when n is listed, unchanged otherwise *)
Lemma set_nan_nth idx l n v : nth_error l n = Some v ->
  nth_error (set_nan idx l) n = Some (if memZ (Z.of_nat n) idx then None else v).
Proof. apply set_at_nth. Qed.
