(* C14/Proofs4.v -- structure of a successful export; C14_waveforms, C14_amp_units, C14_durations,
   C14_cluster_depths (the position part), C14_spike_depths. *)
From Coq Require Import ZArith QArith List Bool Arith Lia.
From PV Require Import C09.Model C09.Spec C09.Proofs C09.Proofs2 C09.Proofs3 C09.Proofs4
                       C14.Model C14.Spec C14.Proofs1.
Import ListNotations.
Open Scope Z_scope.

(* ---------- a successful export, unpacked ---------- *)
Record Exported (tinds cinds : list (list nat)) (x : alf_in) (f r : QN) (y : alf_out)
       (amp_t amp_c : amp_out QN) (dur : list QN) (dep : option (list QN)) : Prop := {
  ex_wf : wf_alf x = true;
  ex_at : amplitudes_true_Q (t_amp_in x) f = Some amp_t;
  ex_ac : amplitudes_true_Q (c_amp_in x) f = Some amp_c;
  ex_dur : waveform_durations_Q (length (x_wmi x)) (x_cdata x) r = Some dur;
  ex_dep : get_depths_Q NBATCH (x_depth_in x) = Some dep;
  ex_twave : y_twave y = map2 (take_cols None) tinds (ao_phys amp_t);
  ex_cwave : y_cwave y = map2 (take_cols None) cinds (ao_phys amp_c);
  ex_tchan : y_tchan y = tinds;
  ex_cchan : y_cchan y = cinds;
  ex_samps : y_samps y = ao_spike amp_t;
  ex_tamps : y_tamps y = ao_tamps amp_t;
  ex_camps : y_camps y = ao_tamps amp_c;
  ex_cpeak : y_cpeak y = map Z.of_nat (peak_channels (length (x_wmi x)) (x_cdata x));
  ex_p2t : y_p2t y = set_nan (model_nan_idx (x_ncl x) (x_st x) (x_sc x)) dur;
  ex_cdep : y_cdepths y = set_nan (model_nan_idx (x_ncl x) (x_st x) (x_sc x))
                                  (map (fun c => q_ofZ (posy (x_pos x) c)) (peak_channels (length (x_wmi x)) (x_cdata x)));
  ex_sdep : y_sdepths y = match dep with
                          | Some l => l
                          | None => map (fun s => nth (Z.to_nat s) (y_cdepths y) None) (x_sc x)
                          end;
  ex_raw : y_rawind y = raw_ind (x_probes x) (x_cmap x)
}.

Lemma export_with_inv tinds cinds x f r y : export_with tinds cinds x f r = Some y ->
  exists amp_t amp_c dur dep, Exported tinds cinds x f r y amp_t amp_c dur dep.
Proof.
  unfold export_with. destruct (wf_alf x) eqn:W; cbn [negb]; [|discriminate].
  destruct (amplitudes_true_Q (t_amp_in x) f) as [amp_t|] eqn:E1; [|discriminate].
  destruct (amplitudes_true_Q (c_amp_in x) f) as [amp_c|] eqn:E2; [|discriminate].
  destruct (waveform_durations_Q (length (x_wmi x)) (x_cdata x) r) as [dur|] eqn:E3; [|discriminate].
  destruct (get_depths_Q NBATCH (x_depth_in x)) as [dep|] eqn:E4; [|discriminate].
  intros H. injection H as <-. exists amp_t, amp_c, dur, dep. constructor; try reflexivity; assumption.
Qed.

(* wf_alf unpacked *)
Record WFA (x : alf_in) : Prop := {
  wa_probes : length (x_probes x) = length (x_wmi x);
  wa_cmap : length (x_cmap x) = length (x_wmi x);
  wa_pos : length (x_pos x) = length (x_wmi x);
  wa_nt : zlen (x_tdata x) = x_nt x;
  wa_ncl : zlen (x_cdata x) = x_ncl x;
  wa_sc : forall s, In s (x_sc x) -> 0 <= s < x_ncl x;
  wa_len : length (x_sc x) = length (x_st x);
  wa_nclosest : 0 <= x_nclosest x;
  wa_nan : forall i, In i (model_nan_idx (x_ncl x) (x_st x) (x_sc x)) -> 0 <= i < x_ncl x
}.
Lemma wf_alf_WFA x : wf_alf x = true -> WFA x.
Proof.
  unfold wf_alf. rewrite !andb_true_iff. intros [[[[[[[[[H1 H2] H3] H4] H5] H6] H7] H8] H9] H10].
  constructor.
  - now apply Nat.eqb_eq.
  - now apply Nat.eqb_eq.
  - now apply Nat.eqb_eq.
  - now apply Z.eqb_eq.
  - now apply Z.eqb_eq.
  - intros s Hs. rewrite forallb_forall in H7. specialize (H7 s Hs). lia.
  - now apply Nat.eqb_eq.
  - lia.
  - intros i Hi. rewrite forallb_forall in H10. specialize (H10 i Hi). lia.
Qed.

(* ---------- waveforms ---------- *)
(* one get_amplitudes_true call followed by the column selection, for either use= *)
Lemma wave_lemma (i : amp_in) (f : QN) (o : amp_out QN) (indsl : list (list nat)) n t inds :
  amplitudes_true_Q i f = Some o -> zlen (ai_data i) = ai_nwav i ->
  nth_error (ai_data i) n = Some t -> nth_error indsl n = Some inds ->
  exists v au, IsPeakAmp (unwh (ai_wmi i) t) (length t) (length (ai_wmi i)) au /\
               nth_error (ao_tamps o) n = Some (q_mul v f) /\
               Wave_Spec (ai_wmi i) t v au f inds (nth n (map2 (take_cols None) indsl (ao_phys o)) []).
Proof.
  intros H Hn Ht Hi. destruct (amplitudes_true_Q_unfold i f o H) as (Wb & _ & Et & Ep).
  pose proof (wf_amp_WF i Wb) as W.
  assert (Hlt : (n < length (ai_data i))%nat) by (eapply nth_error_some_lt; eauto).
  assert (Hnw : Z.of_nat n < ai_nwav i) by (rewrite <- Hn; unfold zlen; lia).
  assert (Htin : In t (ai_data i)) by (eapply nth_error_In; eauto).
  destruct (wf_data i W t Htin) as [Hns Hrows].
  set (nc := length (ai_wmi i)). set (M := matmulZ t (ai_wmi i) nc).
  set (au := lmax (ch_amps nc M)).
  set (v := q_div (q_ofZ (zsum (members (ai_spikes i) n (spike_amps_Z i))))
                  (q_ofZ (zlen (filter (fun s => s =? Z.of_nat n) (ai_spikes i))))).
  exists v, au. split; [apply unwhitened_peak; [exact Hns|apply (wf_nc i W)|exact Hrows]|].
  assert (Ev : nth_error (amp_v i) n = Some v) by (apply amp_v_nth; assumption).
  split.
  - rewrite Et. unfold out_tamps. now rewrite nth_error_map, Ev.
  - (* the rescaled waveform n *)
    assert (Eratio : nth_error (map2 (fun x a => q_div x (q_ofZ a)) (amp_v i) (amps_au i)) n = Some (q_div v (q_ofZ au))).
    { apply (map2_nth_error (fun x a => q_div x (q_ofZ a)) _ _ n v au); [exact Ev|]. apply amps_au_nth; assumption. }
    assert (Ephys : nth_error (ao_phys o) n =
                    Some (map (map (fun w => q_mul (q_mul (q_ofZ w) (q_div v (q_ofZ au))) f)) M)).
    { rewrite Ep. unfold out_phys.
      apply (map2_nth_error (fun t k => map (map (fun w => q_mul (q_mul (q_ofZ w) k) f)) t) _ _ n M (q_div v (q_ofZ au))); [|exact Eratio].
      apply templates_wfs_nth; assumption. }
    rewrite (nth_error_nth' _ n _ [] (map2_nth_error (take_cols None) _ _ n _ _ Hi Ephys)).
    unfold take_cols, Wave_Spec. rewrite !map_length. unfold M at 1. rewrite matmul_length.
    split; [reflexivity|]. intros s Hs.
    assert (HsM : (s < length M)%nat) by (unfold M; now rewrite matmul_length).
    rewrite (nth_map_in _ _ s [] []) by (now rewrite map_length).
    rewrite map_length. split; [reflexivity|]. intros j c Hj Hc.
    rewrite nth_error_map, Hj. cbn [option_map]. f_equal.
    rewrite (nth_map_in _ M s [] []) by exact HsM.
    assert (Lrow : length (nth s M []) = nc).
    { unfold M, matmulZ. rewrite (nth_map_in _ t s [] []) by exact Hs. now rewrite map_length, seq_length. }
    etransitivity; [apply (nth_map_in _ (nth s M []) c _ 0); rewrite Lrow; exact Hc|].
    change (nth c (nth s M []) 0) with (entry M s c). unfold M, nc. rewrite matmul_entry; [reflexivity|exact Hs|exact Hc|].
    rewrite forallb_forall in Hrows. specialize (Hrows (nth s t []) (nth_In _ _ Hs)).
    unfold row_ok in Hrows. now apply Nat.eqb_eq.
Qed.

Theorem waveforms_thm : forall tinds cinds x f r y, export_with tinds cinds x f r = Some y ->
  (forall n t inds, nth_error (x_tdata x) n = Some t -> nth_error tinds n = Some inds ->
     exists v au, IsPeakAmp (unwh (x_wmi x) t) (length t) (length (x_wmi x)) au /\
                  nth_error (y_tamps y) n = Some (q_mul v f) /\
                  Wave_Spec (x_wmi x) t v au f inds (nth n (y_twave y) [])) /\
  (forall n t inds, nth_error (x_cdata x) n = Some t -> nth_error cinds n = Some inds ->
     exists v au, IsPeakAmp (unwh (x_wmi x) t) (length t) (length (x_wmi x)) au /\
                  nth_error (y_camps y) n = Some (q_mul v f) /\
                  Wave_Spec (x_wmi x) t v au f inds (nth n (y_cwave y) [])).
Proof.
  intros tinds cinds x f r y H. destruct (export_with_inv _ _ _ _ _ _ H) as (amp_t & amp_c & dur & dep & E).
  pose proof (wf_alf_WFA x (ex_wf _ _ _ _ _ _ _ _ _ _ E)) as W. split; intros n t inds Ht Hi.
  - rewrite (ex_tamps _ _ _ _ _ _ _ _ _ _ E), (ex_twave _ _ _ _ _ _ _ _ _ _ E).
    apply (wave_lemma (t_amp_in x) f amp_t tinds n t inds (ex_at _ _ _ _ _ _ _ _ _ _ E)); [exact (wa_nt x W)|exact Ht|exact Hi].
  - rewrite (ex_camps _ _ _ _ _ _ _ _ _ _ E), (ex_cwave _ _ _ _ _ _ _ _ _ _ E).
    apply (wave_lemma (c_amp_in x) f amp_c cinds n t inds (ex_ac _ _ _ _ _ _ _ _ _ _ E)); [exact (wa_ncl x W)|exact Ht|exact Hi].
Qed.

(* ---------- amplitudes ---------- *)
Theorem amp_units_thm : forall tinds cinds x (factor : Q) r y, export_with tinds cinds x (Some factor) r = Some y ->
  Spec_spike_amps (t_amp_in x) factor (y_samps y) /\
  Spec_template_amps (t_amp_in x) (y_samps y) (y_tamps y) /\
  exists samps_c, Spec_spike_amps (c_amp_in x) factor samps_c /\ Spec_template_amps (c_amp_in x) samps_c (y_camps y).
Proof.
  intros tinds cinds x factor r y H. destruct (export_with_inv _ _ _ _ _ _ H) as (amp_t & amp_c & dur & dep & E).
  pose proof (wf_alf_WFA x (ex_wf _ _ _ _ _ _ _ _ _ _ E)) as W.
  pose proof (ex_at _ _ _ _ _ _ _ _ _ _ E) as At. pose proof (ex_ac _ _ _ _ _ _ _ _ _ _ E) as Ac.
  rewrite (ex_samps _ _ _ _ _ _ _ _ _ _ E), (ex_tamps _ _ _ _ _ _ _ _ _ _ E), (ex_camps _ _ _ _ _ _ _ _ _ _ E).
  destruct (amplitudes_true_Q_unfold _ _ _ At) as (Wt & _). destruct (amplitudes_true_Q_unfold _ _ _ Ac) as (Wc & _).
  split; [|split].
  - apply spike_amps_thm; [exact At|]. intros s Hs. pose proof (wf_spikes _ (wf_amp_WF _ Wt) s Hs) as B.
    cbn [t_amp_in ai_data ai_nwav] in *. rewrite <- (wa_nt x W). lia.
  - eapply template_amps_thm; exact At.
  - exists (ao_spike amp_c). split; [|eapply template_amps_thm; exact Ac].
    apply spike_amps_thm; [exact Ac|]. intros s Hs. pose proof (wf_spikes _ (wf_amp_WF _ Wc) s Hs) as B.
    cbn [c_amp_in ai_data ai_nwav] in *. rewrite <- (wa_ncl x W). lia.
Qed.

(* ---------- durations ---------- *)
Theorem durations_thm14 : forall tinds cinds x f (rate : Q) y, ~ (rate == 0)%Q ->
  export_with tinds cinds x f (Some rate) = Some y ->
  length (y_p2t y) = length (x_cdata x) /\
  forall n t, nth_error (x_cdata x) n = Some t ->
    if memZ (Z.of_nat n) (model_nan_idx (x_ncl x) (x_st x) (x_sc x)) then nth_error (y_p2t y) n = Some None
    else exists c imax imin q, IsPeakChannel (entry t) (length t) (length (x_wmi x)) c /\
           IsArgmaxFirst imax (column (entry t) (length t) c) /\
           IsArgminFirst imin (column (entry t) (length t) c) /\
           nth_error (y_p2t y) n = Some (Some q) /\
           (q == inject_Z (Z.of_nat imax - Z.of_nat imin) / rate * inject_Z 1000)%Q.
Proof.
  intros tinds cinds x f rate y Hr H. destruct (export_with_inv _ _ _ _ _ _ H) as (amp_t & amp_c & dur & dep & E).
  destruct (durations_thm _ _ _ _ Hr (ex_dur _ _ _ _ _ _ _ _ _ _ E)) as [L S].
  rewrite (ex_p2t _ _ _ _ _ _ _ _ _ _ E). split; [now rewrite set_nan_length|].
  intros n t Ht. destruct (S n t Ht) as (c & imax & imin & q & Hc & Hmax & Hmin & Hq & Eq).
  rewrite (set_nan_nth _ _ _ _ Hq). destruct (memZ (Z.of_nat n) _); [reflexivity|].
  exists c, imax, imin, q. split; [exact Hc|]. split; [exact Hmax|]. split; [exact Hmin|]. split; [reflexivity|exact Eq].
Qed.

(* ---------- cluster depths: the depth of the peak channel, NaN on nan_idx ---------- *)
Theorem cluster_depths_thm : forall tinds cinds x f r y, export_with tinds cinds x f r = Some y ->
  length (y_cdepths y) = length (x_cdata x) /\ length (y_cpeak y) = length (x_cdata x) /\
  forall n t, nth_error (x_cdata x) n = Some t ->
    exists c, IsPeakChannel (entry t) (length t) (length (x_wmi x)) c /\
              nth_error (y_cpeak y) n = Some (Z.of_nat c) /\
              nth_error (y_cdepths y) n =
              Some (if memZ (Z.of_nat n) (model_nan_idx (x_ncl x) (x_st x) (x_sc x)) then None
                    else Some (inject_Z (posy (x_pos x) c))).
Proof.
  intros tinds cinds x f r y H. destruct (export_with_inv _ _ _ _ _ _ H) as (amp_t & amp_c & dur & dep & E).
  pose proof (ex_dur _ _ _ _ _ _ _ _ _ _ E) as Hd. unfold waveform_durations_Q, waveform_durations in Hd.
  destruct (data_ok (length (x_wmi x)) (x_cdata x)) eqn:Ok; [|discriminate].
  destruct (data_ok_inv _ _ Ok) as [Hnc Hdat].
  rewrite (ex_cdep _ _ _ _ _ _ _ _ _ _ E), (ex_cpeak _ _ _ _ _ _ _ _ _ _ E).
  unfold peak_channels. split; [now rewrite set_nan_length, !map_length|]. split; [now rewrite !map_length|].
  intros n t Ht. exists (argmax (ch_amps (length (x_wmi x)) t)). split; [|split].
  - apply peak_channel_model; [exact Hnc|]. apply Hdat. eapply nth_error_In; eauto.
  - now rewrite !nth_error_map, Ht.
  - erewrite set_nan_nth; [reflexivity|]. now rewrite !nth_error_map, Ht.
Qed.

(* ---------- spike depths ---------- *)
Theorem spike_depths_thm : forall tinds cinds x f r y, export_with tinds cinds x f r = Some y ->
  match x_feat x with
  | Some (data, cols) =>
      if Nat.eqb (length data) (Z.to_nat (x_nspikes x))
      then (forall s, In s data -> (1 <= length s)%nat) -> Spec_depths (x_depth_in x) data cols (y_sdepths y)
      else True
  | None => True
  end /\
  ((match x_feat x with Some (data, _) => length data <> Z.to_nat (x_nspikes x) | None => True end) ->
   length (y_sdepths y) = length (x_sc x) /\
   forall k s, nth_error (x_sc x) k = Some s ->
               nth_error (y_sdepths y) k = nth_error (y_cdepths y) (Z.to_nat s)).
Proof.
  intros tinds cinds x f r y H. destruct (export_with_inv _ _ _ _ _ _ H) as (amp_t & amp_c & dur & dep & E).
  pose proof (wf_alf_WFA x (ex_wf _ _ _ _ _ _ _ _ _ _ E)) as W.
  pose proof (ex_dep _ _ _ _ _ _ _ _ _ _ E) as Hd.
  assert (Wd : wf_depth (x_depth_in x) = true).
  { unfold get_depths_Q, get_depths in Hd. destruct (wf_depth (x_depth_in x)); [reflexivity|discriminate]. }
  split.
  - destruct (x_feat x) as [[data cols]|] eqn:Ef; [|exact I].
    destruct (Nat.eqb (length data) (Z.to_nat (x_nspikes x))) eqn:El; [|exact I]. apply Nat.eqb_eq in El.
    intros Hrows.
    destruct (depths_thm NBATCH (x_depth_in x) data cols ltac:(unfold NBATCH; lia) Wd Ef El Hrows) as (out & Eo & Sp).
    rewrite Eo in Hd. injection Hd as <-. now rewrite (ex_sdep _ _ _ _ _ _ _ _ _ _ E).
  - intros Hnone.
    assert (En : get_depths_Q NBATCH (x_depth_in x) = Some None).
    { apply depths_none_thm; [exact Wd|]. cbn [x_depth_in di_feat di_nspikes]. destruct (x_feat x) as [[data cols]|]; exact Hnone. }
    rewrite En in Hd. injection Hd as <-. rewrite (ex_sdep _ _ _ _ _ _ _ _ _ _ E).
    split; [now rewrite map_length|]. intros k s Hk. rewrite nth_error_map, Hk. cbn [option_map].
    symmetry. apply nth_error_nth_lt.
    destruct (cluster_depths_thm _ _ _ _ _ _ H) as (L & _). rewrite L.
    pose proof (wa_sc x W s (nth_error_In _ _ Hk)) as B. pose proof (wa_ncl x W) as N. unfold zlen in N. lia.
Qed.
