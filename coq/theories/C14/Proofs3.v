(* C14/Proofs3.v -- C14_channels: for every sorting permutation np.argsort may return, the exported
   channel row is the list of the nearest channels of the peak channel's probe, peak first. *)
From Coq Require Import ZArith List Bool Arith Lia Permutation.
From PV Require Import C09.Model C09.Spec C09.Proofs C09.Proofs2 C14.Model C14.Spec.
Import ListNotations.
Open Scope Z_scope.

Lemma nth_firstn_lt {A} (l : list A) n i d : (i < n)%nat -> nth i (firstn n l) d = nth i l d.
Proof.
  revert n i; induction l as [|x r IH]; intros [|n] [|i] H; try reflexivity; try lia.
  cbn [firstn nth]. apply IH. lia.
Qed.
Lemma in_firstn {A} (l : list A) n x : In x (firstn n l) -> In x l.
Proof. intros H. rewrite <- (firstn_skipn n l). apply in_or_app. now left. Qed.
Lemma nodup_firstn {A} (l : list A) n : NoDup l -> NoDup (firstn n l).
Proof.
  intros H. revert n; induction H as [|x r Hx Hr IH]; intros [|n]; cbn [firstn]; try constructor.
  - intros Hin. apply Hx. eapply in_firstn; eauto.
  - apply IH.
Qed.
Lemma in_not_firstn {A} (l : list A) n x (d : A) : In x l -> ~ In x (firstn n l) ->
  exists j, (n <= j < length l)%nat /\ nth j l d = x.
Proof.
  intros Hin Hnot. destruct (In_nth l x d Hin) as (j & Hj & E). exists j. split; [|exact E].
  split; [|exact Hj]. destruct (le_lt_dec n j) as [L|L]; [exact L|]. exfalso. apply Hnot.
  rewrite <- E, <- (nth_firstn_lt l n j d L). apply nth_In. rewrite firstn_length. lia.
Qed.

(* ---------- L1 distances ---------- *)
Lemma zsum_nonneg l : (forall x, In x l -> 0 <= x) -> 0 <= zsum l.
Proof.
  induction l as [|x r IH]; intros H; cbn [zsum fold_right]; [lia|].
  assert (0 <= x) by (apply H; now left). assert (0 <= zsum r) by (apply IH; intros y Hy; apply H; now right).
  unfold zsum in *. lia.
Qed.
Lemma map2_abs_in a b x : In x (map2 (fun u v => Z.abs (u - v)) a b) -> 0 <= x.
Proof.
  revert b; induction a as [|u a' IH]; intros [|v b'] H; cbn [map2] in H; try destruct H as [<-|H]; try lia; try contradiction.
  now apply (IH b').
Qed.
Lemma l1row_nonneg a b : 0 <= l1row a b.
Proof. unfold l1row. apply zsum_nonneg. intros x. apply map2_abs_in. Qed.
Lemma l1row_self a : l1row a a = 0.
Proof.
  unfold l1row. induction a as [|u a' IH]; [reflexivity|]. cbn [map2 zsum fold_right].
  unfold zsum in IH. rewrite IH. lia.
Qed.
Lemma chan_l1_nonneg pos p c : 0 <= chan_l1 pos p c.
Proof. apply l1row_nonneg. Qed.
Lemma chan_l1_self pos p : chan_l1 pos p p = 0.
Proof. apply l1row_self. Qed.

(* ---------- keys ---------- *)
Lemma key_nth pos probes nc p c : (c < nc)%nat -> nth c (dist_keys pos probes nc p) Inf = chan_key pos probes p c.
Proof. intros H. unfold dist_keys. now rewrite nth_map_seq. Qed.
Lemma key_fin pos probes p c d : chan_key pos probes p c = Fin d -> same_probe probes p c /\ d = chan_l1 pos p c.
Proof.
  unfold chan_key, same_probe. destruct (nth c probes 0 =? nth p probes 0) eqn:E; [|discriminate].
  intros H. injection H as <-. apply Z.eqb_eq in E. now split.
Qed.
Lemma key_same pos probes p c : same_probe probes p c -> chan_key pos probes p c = Fin (chan_l1 pos p c).
Proof. unfold chan_key, same_probe. intros ->. now rewrite Z.eqb_refl. Qed.
Lemma dle_fin k d : dle k (Fin d) = true -> exists d', k = Fin d' /\ d' <= d.
Proof. destruct k as [d'|]; cbn [dle]; [|discriminate]. intros H. exists d'. split; [reflexivity|lia]. Qed.

Section Listed.
Variable argsort : list dkey -> list nat.
Hypothesis AS : Argsort_ok argsort.

Theorem listed_thm : forall (pos : mat) (probes : list Z) (nc ncw p : nat),
  Listed_Spec pos probes nc ncw p (listed argsort pos probes nc ncw p).
Proof.
  intros pos probes nc ncw p. unfold listed.
  set (keys := dist_keys pos probes nc p). set (A := argsort keys).
  assert (Lk : length keys = nc) by (unfold keys, dist_keys; now rewrite map_length, seq_length).
  destruct (AS keys) as [Perm Sorted]. fold A in Perm, Sorted. rewrite Lk in Perm, Sorted.
  assert (LA : length A = nc) by (rewrite (Permutation_length Perm); apply seq_length).
  assert (ND : NoDup A) by (apply (Permutation_NoDup (Permutation_sym Perm)); apply seq_NoDup).
  assert (RA : forall c, In c A -> (c < nc)%nat).
  { intros c Hc. apply (Permutation_in _ Perm) in Hc. apply in_seq in Hc. lia. }
  assert (Ll : length (firstn ncw A) = Nat.min ncw nc) by (rewrite firstn_length, LA; reflexivity).
  (* sortedness in terms of chan_key *)
  assert (SK : forall i j, (i <= j < nc)%nat ->
               dle (chan_key pos probes p (nth i A 0%nat)) (chan_key pos probes p (nth j A 0%nat)) = true).
  { intros i j Hij. specialize (Sorted i j Hij). unfold keys in Sorted.
    rewrite !key_nth in Sorted; [exact Sorted| |]; apply RA, nth_In; lia. }
  constructor.
  - exact Ll.
  - now apply nodup_firstn.
  - intros c Hc. apply RA. eapply in_firstn; eauto.
  - (* same-probe channels first *)
    intros i j Hij Hs. rewrite Ll in Hij.
    rewrite nth_firstn_lt in Hs by lia. rewrite nth_firstn_lt by lia.
    assert (D := SK i j ltac:(lia)). rewrite (key_same _ _ _ _ Hs) in D.
    apply dle_fin in D as (d' & E & _). now apply key_fin in E.
  - (* distance order *)
    intros i j Hij Hs. rewrite Ll in Hij.
    rewrite nth_firstn_lt in Hs by lia. rewrite !nth_firstn_lt by lia.
    assert (D := SK i j ltac:(lia)). rewrite (key_same _ _ _ _ Hs) in D.
    apply dle_fin in D as (d' & E & Hd). apply key_fin in E as [_ ->]. exact Hd.
  - (* nearest *)
    intros c Hc Hs Hnot a Ha.
    assert (HcA : In c A) by (apply (Permutation_in _ (Permutation_sym Perm)); apply in_seq; lia).
    destruct (in_not_firstn A ncw c 0%nat HcA Hnot) as (j & Hj & Ej). rewrite LA in Hj.
    destruct (In_nth _ _ 0%nat Ha) as (i & Hi & Ei). rewrite Ll in Hi. rewrite nth_firstn_lt in Ei by lia.
    assert (D := SK i j ltac:(lia)). rewrite Ei, Ej, (key_same _ _ _ _ Hs) in D.
    apply dle_fin in D as (d' & E & Hd). apply key_fin in E as [Hsa ->]. now split.
  - (* peak first *)
    intros Hp Hw Huniq.
    assert (HpA : In p A) by (apply (Permutation_in _ (Permutation_sym Perm)); apply in_seq; lia).
    destruct (In_nth _ _ 0%nat HpA) as (j & Hj & Ej). rewrite LA in Hj.
    assert (D := SK 0%nat j ltac:(lia)). rewrite Ej in D.
    rewrite (key_same pos probes p p eq_refl), chan_l1_self in D.
    apply dle_fin in D as (d' & E & Hd). apply key_fin in E as [Hs0 ->].
    assert (Z0 : chan_l1 pos p (nth 0 A 0%nat) = 0) by (pose proof (chan_l1_nonneg pos p (nth 0 A 0%nat)); lia).
    assert (R0 : (nth 0 A 0%nat < nc)%nat) by (apply RA, nth_In; lia).
    destruct (Nat.eq_dec (nth 0 A 0%nat) p) as [E0|N0].
    + rewrite (nth_error_nth_lt _ 0 0%nat) by (rewrite Ll; lia).
      rewrite nth_firstn_lt by lia. now rewrite E0.
    + exfalso. exact (Huniq _ R0 N0 Hs0 Z0).
Qed.
End Listed.
