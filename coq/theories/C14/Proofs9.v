(* C14/Proofs9.v -- cluster depths and durations stated on the SPIKES: NaN exactly for the ids of range(n_clusters)
   that no spike carries, the physical value for every id that has a spike -- whether or not the dataset is curated
   (nan_idx pass: _load_data repaired on branch fix-c14b). *)
From Coq Require Import ZArith QArith List Bool Arith Lia.
From PV Require Import C09.Model C09.Spec C09.Proofs C09.Proofs2 C09.Proofs3 C09.Proofs4
                       C14.Model C14.Spec C14.Proofs1 C14.Proofs4 C14.Proofs5.
Import ListNotations.
Open Scope Z_scope.

Lemma loaded_ncl_b_sound x : loaded_ncl_b x = true -> Loaded_ncl x.
Proof.
  unfold loaded_ncl_b, Loaded_ncl, curated. intros H N.
  destruct (zl_eq (x_sc x) (x_st x)) eqn:E; [apply zl_eq_true in E; contradiction|]. cbn in H. lia.
Qed.

(* the marked ids are exactly the rows without spikes *)
Lemma marked_iff x : wf_alf x = true -> Loaded_ncl x -> forall n, (n < length (x_cdata x))%nat ->
  memZ (Z.of_nat n) (model_nan_idx (x_ncl x) (x_st x) (x_sc x)) = negb (memZ (Z.of_nat n) (x_sc x)).
Proof.
  intros Wb Hl n Hn. pose proof (wf_alf_WFA x Wb) as W.
  assert (P : forall s, In s (x_sc x) -> 0 <= s) by (intros s Hs; pose proof (wa_sc x W s Hs); lia).
  destruct (model_nan_idx_thm (x_ncl x) (x_st x) (x_sc x) (wa_len x W) P) as (_ & _ & U).
  specialize (U Hl (Z.of_nat n)). pose proof (wa_ncl x W) as N. unfold zlen in N.
  destruct (memZ (Z.of_nat n) (x_sc x)) eqn:E; cbn [negb].
  - apply memZ_In in E. apply not_true_is_false. intros M. apply memZ_In in M. apply U in M. tauto.
  - apply memZ_In. apply U. split; [lia|]. intros M. apply memZ_In in M. congruence.
Qed.

Theorem cluster_depths_spikes_thm : forall tinds cinds x f r y, export_with tinds cinds x f r = Some y ->
  Loaded_ncl x ->
  length (y_cdepths y) = length (x_cdata x) /\ length (y_cpeak y) = length (x_cdata x) /\
  forall n t, nth_error (x_cdata x) n = Some t ->
    exists c, IsPeakChannel (entry t) (length t) (length (x_wmi x)) c /\
              nth_error (y_cpeak y) n = Some (Z.of_nat c) /\
              (In (Z.of_nat n) (x_sc x) -> nth_error (y_cdepths y) n = Some (Some (inject_Z (posy (x_pos x) c)))) /\
              (~ In (Z.of_nat n) (x_sc x) -> nth_error (y_cdepths y) n = Some None).
Proof.
  intros tinds cinds x f r y H Hl. destruct (cluster_depths_thm _ _ _ _ _ _ H) as (L1 & L2 & S).
  split; [exact L1|]. split; [exact L2|]. intros n t Ht. destruct (S n t Ht) as (c & Hc & Hp & Hd).
  destruct (export_with_inv _ _ _ _ _ _ H) as (a & b & d & e & E).
  assert (Hn : (n < length (x_cdata x))%nat) by (apply nth_error_Some; congruence).
  rewrite (marked_iff x (ex_wf _ _ _ _ _ _ _ _ _ _ E) Hl n Hn) in Hd.
  exists c. split; [exact Hc|]. split; [exact Hp|]. split; intros M.
  - apply memZ_In in M. now rewrite M in Hd.
  - destruct (memZ (Z.of_nat n) (x_sc x)) eqn:E'; [apply memZ_In in E'; contradiction|exact Hd].
Qed.

Theorem durations_spikes_thm : forall tinds cinds x f (rate : Q) y, ~ (rate == 0)%Q ->
  export_with tinds cinds x f (Some rate) = Some y -> Loaded_ncl x ->
  length (y_p2t y) = length (x_cdata x) /\
  forall n t, nth_error (x_cdata x) n = Some t ->
    (~ In (Z.of_nat n) (x_sc x) -> nth_error (y_p2t y) n = Some None) /\
    (In (Z.of_nat n) (x_sc x) ->
     exists c imax imin q, IsPeakChannel (entry t) (length t) (length (x_wmi x)) c /\
       IsArgmaxFirst imax (column (entry t) (length t) c) /\
       IsArgminFirst imin (column (entry t) (length t) c) /\
       nth_error (y_p2t y) n = Some (Some q) /\
       (q == inject_Z (Z.of_nat imax - Z.of_nat imin) / rate * inject_Z 1000)%Q).
Proof.
  intros tinds cinds x f rate y Hr H Hl. destruct (durations_thm14 _ _ _ _ _ _ Hr H) as (L & S).
  split; [exact L|]. intros n t Ht. specialize (S n t Ht).
  destruct (export_with_inv _ _ _ _ _ _ H) as (a & b & d & e & E).
  assert (Hn : (n < length (x_cdata x))%nat) by (apply nth_error_Some; congruence).
  rewrite (marked_iff x (ex_wf _ _ _ _ _ _ _ _ _ _ E) Hl n Hn) in S. split; intros M.
  - destruct (memZ (Z.of_nat n) (x_sc x)) eqn:E'; [apply memZ_In in E'; contradiction|exact S].
  - apply memZ_In in M. rewrite M in S. exact S.
Qed.
