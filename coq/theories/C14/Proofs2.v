(* C14/Proofs2.v -- C14_rawind: make_channel_objects (repaired) inverts Merger.write_channel_data
   (PV.C12.Model.channel_data) for every number of probes. *)
From Coq Require Import ZArith List Bool Arith Lia Sorted.
From PV Require C12.Model.
From PV Require Import C09.Model C09.Spec C09.Proofs C09.Proofs3 C14.Model C14.Spec.
Import ListNotations.
Open Scope Z_scope.

(* ---------- what write_channel_data produces, block by block ---------- *)
(* probe k's map shifted by the maximum of the previous probe's shifted map; label k on block k *)
Fixpoint shifted (off : Z) (cms : list (list Z)) : list (list Z) :=
  match cms with
  | [] => []
  | a :: r => let a' := map (fun v => v + off) a in a' :: shifted (lmax a') r
  end.
Fixpoint labels (ind : Z) (cms : list (list Z)) : list (list Z) :=
  match cms with
  | [] => []
  | a :: r => repeat ind (length a) :: labels (ind + 1) r
  end.

Lemma map_const_repeat (ind : Z) (l : list Z) : map (fun v => v * 0 + ind) l = repeat ind (length l).
Proof. induction l as [|x r IH]; cbn [map length repeat]; [reflexivity|]. rewrite IH. f_equal. lia. Qed.

Lemma chan_loop_blocks cms : forall ind off n o,
  C12.Model.chan_loop ind off n cms = Some o ->
  Forall (fun a => a <> []) cms /\
  C12.Model.cb_maps o = shifted off cms /\ C12.Model.cb_probes o = labels ind cms.
Proof.
  induction cms as [|a r IH]; intros ind off n o H; cbn [C12.Model.chan_loop] in H.
  - injection H as <-. repeat split; constructor.
  - destruct (C12.Model.list_max (map (fun v => v + off) a)) as [mx|] eqn:Em; [|discriminate].
    destruct (C12.Model.chan_loop (ind + 1) mx _ r) as [o'|] eqn:Er; [|discriminate].
    injection H as <-. cbn [C12.Model.cb_maps C12.Model.cb_probes].
    assert (Ha : a <> []) by (intros ->; discriminate).
    assert (Emx : mx = lmax (map (fun v => v + off) a)).
    { destruct a as [|x a']; [congruence|]. cbn [map C12.Model.list_max] in Em. injection Em as <-. reflexivity. }
    specialize (IH _ _ _ _ Er) as (F & M & P). subst mx.
    split; [constructor; assumption|]. split.
    + cbn [shifted]. now rewrite M.
    + cbn [labels]. rewrite P, map_const_repeat, map_length. reflexivity.
Qed.

(* ---------- selection by probe label over blocks ---------- *)
Lemma sel_app p1 m1 p2 m2 p : length p1 = length m1 -> sel (p1 ++ p2) (m1 ++ m2) p = sel p1 m1 p ++ sel p2 m2 p.
Proof.
  intros L. unfold sel. revert m1 L; induction p1 as [|x r IH]; intros [|y m1'] L; cbn in L; try discriminate.
  - reflexivity.
  - cbn [app combine filter fst]. destruct (x =? p); cbn [map snd app]; rewrite IH by lia; reflexivity.
Qed.
Lemma sel_repeat_eq k a : sel (repeat k (length a)) a k = a.
Proof.
  unfold sel. induction a as [|x r IH]; cbn [length repeat combine filter fst]; [reflexivity|].
  rewrite Z.eqb_refl. cbn [map snd]. now rewrite IH.
Qed.
Lemma sel_none ps ms p : (forall x, In x ps -> x <> p) -> sel ps ms p = [].
Proof.
  unfold sel. revert ms; induction ps as [|x r IH]; intros [|y ms'] H; try reflexivity.
  cbn [combine filter fst]. replace (x =? p) with false by (symmetry; apply Z.eqb_neq; apply H; now left).
  apply IH. intros z Hz. apply H. now right.
Qed.

Lemma labels_shifted_length ind off cms : length (concat (labels ind cms)) = length (concat (shifted off cms)).
Proof.
  revert ind off; induction cms as [|a r IH]; intros ind off; [reflexivity|].
  cbn [labels shifted concat]. rewrite !app_length, repeat_length, map_length. f_equal. apply IH.
Qed.
Lemma labels_bounds ind cms x : In x (concat (labels ind cms)) -> ind <= x < ind + zlen cms.
Proof.
  revert ind; induction cms as [|a r IH]; intros ind H; [destruct H|].
  cbn [labels concat] in H. unfold zlen. cbn [length]. rewrite Nat2Z.inj_succ. apply in_app_or in H as [H|H].
  - apply repeat_spec in H. lia.
  - apply IH in H. unfold zlen in H. lia.
Qed.
Lemma labels_members ind cms : Forall (fun a => a <> []) cms ->
  forall x, In x (concat (labels ind cms)) <-> ind <= x < ind + zlen cms.
Proof.
  intros F x. split; [apply labels_bounds|].
  revert ind; induction F as [|a r Ha F IH]; intros ind H; unfold zlen in H; cbn [length] in H; [lia|].
  cbn [labels concat]. apply in_or_app. destruct (Z.eq_dec x ind) as [->|N].
  - left. destruct a as [|y a']; [congruence|]. cbn [length repeat]. now left.
  - right. apply IH. unfold zlen. lia.
Qed.

(* the sequence of labels ind, ind + 1, ... *)
Fixpoint zseq (ind : Z) (n : nat) : list Z := match n with O => [] | S k => ind :: zseq (ind + 1) k end.
Lemma zseq_in ind n x : In x (zseq ind n) <-> ind <= x < ind + Z.of_nat n.
Proof.
  revert ind; induction n as [|k IH]; intros ind; cbn [zseq In]; [lia|]. rewrite IH, Nat2Z.inj_succ. lia.
Qed.
Lemma zseq_sorted ind n : StronglySorted Z.lt (zseq ind n).
Proof.
  revert ind; induction n as [|k IH]; intros ind; cbn [zseq]; constructor; [apply IH|].
  apply Forall_forall. intros x Hx. apply zseq_in in Hx. lia.
Qed.
Lemma sorted_lt_ext (a b : list Z) : StronglySorted Z.lt a -> StronglySorted Z.lt b ->
  (forall x, In x a <-> In x b) -> a = b.
Proof.
  intros Ha; revert b; induction Ha as [|x a' Ha' IH Hx]; intros b Hb E.
  - destruct b as [|y b']; [reflexivity|]. exfalso. apply (E y). now left.
  - destruct Hb as [|y b' Hb' Hy]; [exfalso; apply (E x); now left|].
    rewrite Forall_forall in Hx, Hy.
    assert (x = y).
    { destruct (proj1 (E x) (or_introl eq_refl)) as [->|Hxb]; [reflexivity|].
      destruct (proj2 (E y) (or_introl eq_refl)) as [->|Hya]; [reflexivity|].
      specialize (Hx _ Hya). specialize (Hy _ Hxb). lia. }
    subst y. f_equal. apply IH; [exact Hb'|]. intros z. split; intros Hz.
    + destruct (proj1 (E z) (or_intror Hz)) as [<-|H]; [|exact H]. specialize (Hx _ Hz). lia.
    + destruct (proj2 (E z) (or_intror Hz)) as [<-|H]; [|exact H]. specialize (Hy _ Hz). lia.
Qed.
Lemma unique_labels ind cms : Forall (fun a => a <> []) cms ->
  np_unique (concat (labels ind cms)) = zseq ind (length cms).
Proof.
  intros F. destruct (np_unique_spec (concat (labels ind cms))) as [S M].
  apply sorted_lt_ext; [exact S|apply zseq_sorted|].
  intros x. rewrite M, (labels_members ind cms F), zseq_in. unfold zlen. tauto.
Qed.

(* ---------- the offsets make_channel_objects computes = the offsets the merge applied ---------- *)
Fixpoint offs_list (ind off : Z) (cms : list (list Z)) : list (Z * Z) :=
  match cms with
  | [] => []
  | a :: r => (ind, off) :: offs_list (ind + 1) (lmax (map (fun v => v + off) a)) r
  end.

Lemma probe_offsets_blocks cms : forall ind off ppre mpre,
  length ppre = length mpre -> (forall x, In x ppre -> x < ind) ->
  probe_offsets (zseq ind (length cms)) (ppre ++ concat (labels ind cms)) (mpre ++ concat (shifted off cms)) off
  = offs_list ind off cms.
Proof.
  induction cms as [|a r IH]; intros ind off ppre mpre L Hpre; [reflexivity|].
  cbn [length zseq probe_offsets offs_list]. f_equal.
  set (a' := map (fun v => v + off) a).
  assert (Es : sel (ppre ++ concat (labels ind (a :: r))) (mpre ++ concat (shifted off (a :: r))) ind = a').
  { rewrite sel_app by exact L. rewrite sel_none by (intros x Hx; specialize (Hpre x Hx); lia).
    cbn [labels shifted concat app]. fold a'.
    rewrite sel_app by (unfold a'; now rewrite repeat_length, map_length).
    replace (length a) with (length a') by (unfold a'; apply map_length). rewrite sel_repeat_eq.
    rewrite sel_none; [apply app_nil_r|]. intros x Hx. apply labels_bounds in Hx. lia. }
  rewrite Es. cbn [labels shifted concat]. fold a'. rewrite !app_assoc.
  apply IH.
  - rewrite !app_length, repeat_length. unfold a'. rewrite map_length. lia.
  - intros x Hx. apply in_app_or in Hx as [Hx|Hx]; [specialize (Hpre x Hx); lia|]. apply repeat_spec in Hx. lia.
Qed.

Lemma zassoc_skip k pre rest : (forall kv, In kv pre -> fst kv <> k) -> zassoc k (pre ++ rest) = zassoc k rest.
Proof.
  induction pre as [|[k' v] r IH]; intros H; [reflexivity|]. cbn [app zassoc].
  replace (k =? k') with false by (symmetry; apply Z.eqb_neq; intros ->; apply (H (k', v)); [now left|reflexivity]).
  apply IH. intros kv Hkv. apply H. now right.
Qed.

Lemma combine_app {A B} (a1 a2 : list A) (b1 b2 : list B) : length a1 = length b1 ->
  combine (a1 ++ a2) (b1 ++ b2) = combine a1 b1 ++ combine a2 b2.
Proof.
  revert b1; induction a1 as [|x r IH]; intros [|y b1'] L; cbn in L; try discriminate; [reflexivity|].
  cbn [app combine]. f_equal. apply IH. lia.
Qed.

Lemma rebase_blocks cms : forall ind off pre, (forall kv, In kv pre -> fst kv < ind) ->
  map (fun pc => snd pc - zassoc (fst pc) (pre ++ offs_list ind off cms))
      (combine (concat (labels ind cms)) (concat (shifted off cms))) = concat cms.
Proof.
  induction cms as [|a r IH]; intros ind off pre Hpre; [reflexivity|].
  cbn [labels shifted concat offs_list].
  rewrite combine_app by now rewrite repeat_length, map_length. rewrite map_app. f_equal.
  - clear IH. generalize (offs_list (ind + 1) (lmax (map (fun v => v + off) a)) r). intros tl.
    induction a as [|x a' IHa]; [reflexivity|].
    cbn [length repeat map combine fst snd]. f_equal.
    + rewrite zassoc_skip by (intros kv Hkv; specialize (Hpre kv Hkv); lia).
      cbn [zassoc]. rewrite Z.eqb_refl. lia.
    + exact IHa.
  - replace (pre ++ (ind, off) :: offs_list (ind + 1) (lmax (map (fun v => v + off) a)) r)
      with ((pre ++ [(ind, off)]) ++ offs_list (ind + 1) (lmax (map (fun v => v + off) a)) r)
      by (rewrite <- app_assoc; reflexivity).
    apply IH. intros kv Hkv. apply in_app_or in Hkv as [Hkv|[<-|[]]]; [specialize (Hpre kv Hkv); lia|cbn; lia].
Qed.

(* make_channel_objects applied to what write_channel_data wrote gives back the probes' own maps *)
Theorem rawind_thm : forall (cms : list (list Z)) (co : C12.Model.chan_out),
  C12.Model.channel_data cms = Some co ->
  raw_ind (C12.Model.co_probe co) (C12.Model.co_map co) = concat cms.
Proof.
  intros cms co H. unfold C12.Model.channel_data in H. destruct cms as [|a0 r0]; [discriminate|].
  set (cms := a0 :: r0) in *.
  destruct (C12.Model.chan_loop 0 0 0 cms) as [o|] eqn:E; [|discriminate]. injection H as <-.
  cbn [C12.Model.co_probe C12.Model.co_map].
  destruct (chan_loop_blocks _ _ _ _ _ E) as (F & M & P). rewrite M, P.
  unfold raw_ind. rewrite (unique_labels 0 cms F).
  assert (Hp := probe_offsets_blocks cms 0 0 [] [] eq_refl (fun x (H : In x []) => match H with end)).
  cbn [app] in Hp. rewrite Hp.
  apply (rebase_blocks cms 0 0 []). intros kv [].
Qed.

(* block view: the probe table is the constant k on block k; restricted to probe k, rawInd is probe k's map *)
Lemma sel_labels cms : forall ind (blocks : list (list Z)) k,
  map (@length Z) blocks = map (@length Z) cms -> (k < length cms)%nat ->
  sel (concat (labels ind cms)) (concat blocks) (ind + Z.of_nat k) = nth k blocks [].
Proof.
  induction cms as [|a r IH]; intros ind blocks k L Hk; [cbn in Hk; lia|].
  destruct blocks as [|b bs]; [discriminate|]. cbn [map] in L. injection L as La Lr.
  cbn [labels concat]. rewrite sel_app by now rewrite repeat_length.
  destruct k as [|k'].
  - rewrite Z.add_0_r. rewrite <- La, sel_repeat_eq. cbn [nth].
    rewrite sel_none; [apply app_nil_r|]. intros x Hx. apply labels_bounds in Hx. lia.
  - rewrite sel_none by (intros x Hx; apply repeat_spec in Hx; lia). cbn [app nth].
    replace (ind + Z.of_nat (S k')) with ((ind + 1) + Z.of_nat k') by lia.
    apply IH; [exact Lr|cbn in Hk; lia].
Qed.

Theorem rawind_per_probe_thm : forall (cms : list (list Z)) (co : C12.Model.chan_out) (k : nat),
  C12.Model.channel_data cms = Some co -> (k < length cms)%nat ->
  sel (C12.Model.co_probe co) (raw_ind (C12.Model.co_probe co) (C12.Model.co_map co)) (Z.of_nat k) = nth k cms [].
Proof.
  intros cms co k H Hk. rewrite (rawind_thm cms co H).
  unfold C12.Model.channel_data in H. destruct cms as [|a0 r0]; [discriminate|].
  set (cms := a0 :: r0) in *.
  destruct (C12.Model.chan_loop 0 0 0 cms) as [o|] eqn:E; [|discriminate]. injection H as <-.
  cbn [C12.Model.co_probe]. destruct (chan_loop_blocks _ _ _ _ _ E) as (F & M & P). rewrite P.
  apply (sel_labels cms 0 cms k eq_refl Hk).
Qed.
