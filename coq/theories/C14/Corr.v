(* C14/Corr.v -- comparator evaluated by vm_compute on generated case files.
   One case = one ALF conversion: the arrays of the loaded TemplateModel (snapshot taken before convert())
   and the value files found in the output directory (label stripped from the names by the harness).
   For merged datasets additionally the channel maps of the probe directories given to the Merger.
   codes: 1  = a determined exported value differs from the model PV.C14.Model.export_with (evaluated on
               the observed channel lists; exact rationals, float64 within 2^-48, float32 within 2^-23 relative)
          20 = the conversion (or the merge / the load before it) raised
          21 = C14_waveforms      templates.waveforms / clusters.waveforms on the listed channels
          22 = C14_channels       templates.waveformsChannels / clusters.waveformsChannels (relational)
          23 = C14_amp_units      spikes.amps, templates.amps, clusters.amps
          24 = C14_cluster_depths clusters.depths (and clusters.channels)
          25 = C14_spike_depths   spikes.depths
          26 = C14_durations      clusters.peakToTrough
          27 = C14_rawind         channels.rawInd = each probe's original channel map
          28 = C14_C08_cluster_waveform (stage 5)  the cluster waveforms the exporter reads (sparse_clusters.data of
               the loaded model, the source of clusters.waveforms / channels / depths / peakToTrough / amps) are what
               C08's model of _load_data's branch (PV.C08.Model.load: merge_map, get_cluster_mean_waveforms,
               cluster_waveforms) computes from the loaded templates, spike_templates, spike_clusters, channel
               positions and channel_shanks: the template itself for a one-template cluster, zeros for an empty id,
               the spike-count weighted mean on the channels of the dominant template otherwise (LinkC08.v:
               C14_C08_cluster_waveform); n_clusters and nan_idx likewise.  Judged when n_closest_channels = 12 and
               every mean is an integer (the regime of C14's exact model, LinkC08.int_data); InAlfL carries
               channel_shanks.
          3  = input outside the stated regime (harness bug)
   InAlfBig: a dataset of n spikes, n above the batch size 50000 of get_depths, that repeats the k spikes
   of [x] (templates, amplitudes, feature rows) periodically; [x] is the loaded model restricted to its first
   period (the harness checks that the loaded arrays are that period repeated and that the amplitudes are
   constant per template, so that the per-template means do not depend on n).  The per-spike files
   (spikes.amps, spikes.depths) must have n entries and are judged entry j against entry j mod k of the
   model evaluated on one period: by C14_spike_depths / C09_depths (proved for every batch size) and
   C14_amp_units the exported value of spike j depends only on the template, amplitude and feature row of
   spike j.  Every other file is judged as for InAlf. *)
From Coq Require Import ZArith QArith Qabs List Bool.
From PV Require Import C08.Model.      (* used qualified (M8.); the names of C09 / C14 imported below take precedence *)
From PV Require Export Base.Tok Base.TokArith C09.Model C09.Spec C14.Model C14.Spec.
Import ListNotations.
Open Scope Z_scope.

(* ---------- judging observed floats against the exact model ---------- *)
Definition tok_Q (t : tok) : option Q :=
  match t with
  | TNum m e => Some (if 0 <=? e then inject_Z (m * 2 ^ e) else (m # Z.to_pos (2 ^ (- e))))
  | _ => None
  end.
Definition close_tol (tol : Q) (exact : QN) (o : tok) : bool :=
  match exact, o with
  | None, TNaN => true
  | Some q, TNum _ _ =>
      match tok_Q o with
      | Some x => Qle_bool (Qabs (x - q) * tol) (Qabs q)
      | None => false
      end
  | _, _ => false
  end.
Definition close64 := close_tol (inject_Z (2 ^ 48)).     (* a few correctly rounded binary64 operations *)
Definition close32 := close_tol (inject_Z (2 ^ 23)).     (* ... followed by astype(float32) *)

Fixpoint all2b {A B} (f : A -> B -> bool) (a : list A) (b : list B) : bool :=
  match a, b with
  | [], [] => true
  | x :: a', y :: b' => f x y && all2b f a' b'
  | _, _ => false
  end.
Definition flag (code : Z) (ok : bool) : list Z := if ok then [] else [code].

(* ---------- cases ---------- *)
Record alf_obs := mk_alf_obs {
  o_twave : list (list (list tok)); o_tchan : list (list Z);
  o_cwave : list (list (list tok)); o_cchan : list (list Z);
  o_samps : list tok; o_tamps : list tok; o_camps : list tok;
  o_cpeak : list Z; o_p2t : list tok; o_cdepths : list tok; o_sdepths : list tok;
  o_rawind : list Z
}.
(* x: the loaded model; factor, rate; orig: Some maps = the dataset was produced by the Merger from probe
   directories with these channel maps; nan: model.nan_idx as loaded *)
Inductive input :=
| InAlf (x : alf_in) (factor rate : tok) (orig : option (list (list Z))) (nan : list Z)
| InAlfBig (x : alf_in) (factor rate : tok) (nan : list Z) (n : Z)
| InAlfL (x : alf_in) (factor rate : tok) (orig : option (list (list Z))) (nan : list Z) (shanks : list Z)
| InBad.
Inductive observed := ObsAlf (o : alf_obs) | ObsCrash.
Record case := { cid : Z; cin : input; cobs : observed }.

(* ---------- regime (as C09.Corr: integer stored values small enough for exact float arithmetic) ---------- *)
Definition B24 : Z := 2 ^ 24.
Definition B50 : Z := 2 ^ 50.
Definition small (b : Z) (z : Z) : bool := Z.abs z <? b.
Definition pos_finite (t : tok) : bool := match t with TNum m _ => 0 <? m | _ => false end.
Definition amp_regime (ai : amp_in) : bool :=
  wf_amp ai &&
  forallb (forallb (forallb (small B24))) (ai_data ai) &&
  forallb (forallb (forallb (small B24))) (templates_wfs ai) &&
  forallb (small B24) (amps_au ai) &&
  forallb (small B50) (spike_amps_Z ai) && forallb (small B50) (amp_sums ai) &&
  forallb (small B24) (ai_amps ai).
Definition depth_regime (di : depth_in) : bool :=
  wf_depth di && (di_nspikes di <? NBATCH) &&
  forallb (forallb (fun y => (0 <=? y) && small B24 y)) (di_pos di) &&
  match di_feat di with
  | None => true
  | Some (data, cols) => forallb (fun s => forallb (forallb (fun x => small 4096 x)) s) data
  end.
Definition regime (x : alf_in) (factor rate : tok) : bool :=
  wf_alf x && amp_regime (t_amp_in x) && amp_regime (c_amp_in x) &&
  pos_finite factor && pos_finite rate && depth_regime (x_depth_in x) &&
  forallb (fun s => 0 <=? s) (x_st x) && forallb (small B24) (x_cmap x) && forallb (small B24) (x_probes x).

(* ---------- the check ---------- *)
(* observed channel rows as naturals; entries outside [0, nc) (never in the same-probe prefix of a row
   that passes clause 22) become nc, a column the model does not have *)
Definition row_nat (nc : nat) (row : list Z) : list nat :=
  map (fun c => if (0 <=? c) && (c <? Z.of_nat nc) then Z.to_nat c else nc) row.
(* exported waveform against the model on the observed channels; columns whose listed channel is out of
   range are not judged *)
Definition wave_ok (nc : nat) (m : list (list QN)) (row : list Z) (w : list (list tok)) : bool :=
  all2b (fun mr wr => all2b (fun mc_c wv => if Nat.eqb (fst mc_c) nc then true else close32 (snd mc_c) wv)
                            (combine (row_nat nc row) mr) wr) m w.
Definition waves_ok (nc : nat) (m : list (list (list QN))) (rows : list (list Z)) (w : list (list (list tok))) : bool :=
  Nat.eqb (length rows) (length m) &&
  all2b (fun mr_row wt => wave_ok nc (fst mr_row) (snd mr_row) wt) (combine m rows) w.
Definition chans_ok (x : alf_in) (data : list mat) (rows : list (list Z)) : bool :=
  let nc := length (x_wmi x) in
  all2b (fun p row => listed_b (x_pos x) (x_probes x) nc (ncw_of x) p row) (peak_channels nc data) rows.
Definition all_equal (l : list Z) : bool := match l with [] => true | a :: r => forallb (Z.eqb a) r end.

(* per-spike lists: entry for entry, or (periodic datasets) n entries, entry j against pattern entry j mod k *)
Fixpoint cyc {A B} (f : A -> B -> bool) (pat cur : list A) (l : list B) : bool :=
  match l with
  | [] => true
  | x :: r => match cur with
              | p :: cur' => f p x && cyc f pat cur' r
              | [] => match pat with
                      | p :: cur' => f p x && cyc f pat cur' r
                      | [] => false
                      end
              end
  end.
Definition per_spike (big : option Z) {A B} (f : A -> B -> bool) (m : list A) (o : list B) : bool :=
  match big with
  | None => all2b f m o
  | Some n => (Z.of_nat (length o) =? n) && cyc f m m o
  end.

(* ---------- stage 5: the loaded cluster waveforms against C08's model of the branch of _load_data ---------- *)
Module M8 := PV.C08.Model.
(* the exact quotient of np.average's one division when it is an integer (= LinkC08.int_cell / int_data) *)
Definition q_cell (r : M8.rat) : option Z :=
  if M8.rd r =? 0 then None
  else if (M8.rn r) mod (M8.rd r) =? 0 then Some (M8.rn r / M8.rd r) else None.
Definition q_data (l : list (list (list M8.rat))) : option (list mat) := omap (omap (omap q_cell)) l.
Definition c08_dset (x : alf_in) (shanks : list Z) : M8.dset :=
  M8.mkds (x_st x) (x_sc x) (x_tdata x) (map (fun p => nth 0 p 0) (x_pos x)) (map (fun p => nth 1 p 0) (x_pos x))
          shanks (x_wmi x).
(* None: outside the regime of the link (another n_closest_channels, a non-integer mean) *)
Definition loaded_ok (x : alf_in) (shanks nan : list Z) : option bool :=
  if negb ((x_nclosest x =? M8.n_closest_channels) && Nat.eqb (length shanks) (length (x_pos x))) then None else
  match M8.load (c08_dset x shanks) with
  | None => Some false
  | Some L =>
      match q_data (M8.l_data L) with
      | None => None
      | Some cd => Some (all2b (all2b (all2b Z.eqb)) cd (x_cdata x) && (M8.l_ncl L =? x_ncl x) && zl_eq (M8.l_nan L) nan)
      end
  end.

(* get_closest_channels sorts the distances with np.argsort (not stable): when the 12th and 13th closest channels of a
   template's peak channel are equally far, WHICH of them is kept is NumPy-undetermined (C08's Corr judges that
   relationally); clause 28 compares with the stable determinisation, so such data sets are not judged by it *)
Definition cut_tie (x : alf_in) : bool :=
  let px := map (fun p => nth 0 p 0) (x_pos x) in
  let py := map (fun p => nth 1 p 0) (x_pos x) in
  existsb (fun b =>
     let x0 := nth b px 0 in let y0 := nth b py 0 in
     let dd := map2 (fun a c => (a - x0) * (a - x0) + (c - y0) * (c - y0)) px py in
     let idx := PV.Base.NpSort.stable_argsort dd in
     match nth_error idx 11, nth_error idx 12 with
     | Some i, Some j => nth i dd 0 =? nth j dd 0
     | _, _ => false
     end) (peak_channels (length (x_wmi x)) (x_tdata x)).
Definition loaded_ok_det (x : alf_in) (shanks nan : list Z) : option bool :=
  if cut_tie x then None else loaded_ok x shanks nan.

Definition check_alf (big : option Z) (x : alf_in) (factor rate : tok) (orig : option (list (list Z))) (nan : list Z)
                     (shanks : option (list Z)) (o : alf_obs) : list Z :=
      if negb (regime x factor rate) then [3] else
      let nc := length (x_wmi x) in
      match export_with (map (row_nat nc) (o_tchan o)) (map (row_nat nc) (o_cchan o)) x (tok_Q factor) (tok_Q rate) with
      | None => [3]
      | Some y =>
          let g21 := waves_ok nc (y_twave y) (o_tchan o) (o_twave o) &&
                     waves_ok nc (y_cwave y) (o_cchan o) (o_cwave o) in
          let g22 := chans_ok x (x_tdata x) (o_tchan o) && chans_ok x (x_cdata x) (o_cchan o) in
          let g23 := per_spike big close32 (y_samps y) (o_samps o) && all2b close64 (y_tamps y) (o_tamps o) &&
                     all2b close64 (y_camps y) (o_camps o) in
          let g24 := all2b close64 (y_cdepths y) (o_cdepths o) && zl_eq (y_cpeak y) (o_cpeak o) in
          let g25 := per_spike big close32 (y_sdepths y) (o_sdepths o) in
          let g26 := all2b close64 (y_p2t y) (o_p2t o) in
          let g27 := match orig with
                     | Some maps => rawind_b maps (o_rawind o)
                     | None => if all_equal (x_probes x) then zl_eq (o_rawind o) (x_cmap x) else true
                     end in
          let g1 := zl_eq (y_rawind y) (o_rawind o) && zl_eq (model_nan_idx (x_ncl x) (x_st x) (x_sc x)) nan in
          let g28 := match shanks with
                     | None => true
                     | Some sh => match loaded_ok_det x sh nan with Some b => b | None => true end
                     end in
          flag 1 (g1 && g21 && g23 && g24 && g25 && g26 && g28) ++
          flag 21 g21 ++ flag 22 g22 ++ flag 23 g23 ++ flag 24 g24 ++ flag 25 g25 ++ flag 26 g26 ++ flag 27 g27 ++
          flag 28 g28
      end.

Definition check (c : case) : list Z :=
  match cin c, cobs c with
  | InBad, _ => [1; 20]
  | InAlf _ _ _ _ _, ObsCrash => [1; 20]
  | InAlfBig _ _ _ _ _, ObsCrash => [1; 20]
  | InAlfL _ _ _ _ _ _, ObsCrash => [1; 20]
  | InAlf x factor rate orig nan, ObsAlf o => check_alf None x factor rate orig nan None o
  | InAlfL x factor rate orig nan shanks, ObsAlf o => check_alf None x factor rate orig nan (Some shanks) o
  | InAlfBig x factor rate nan n, ObsAlf o =>
      (* one full period at least, and the period itself inside C09's exact regime (k < 50000 <= n) *)
      if negb ((1 <=? x_nspikes x) && (NBATCH <=? n)) then [3] else check_alf (Some n) x factor rate None nan None o
  end.

Definition dedupZ (l : list Z) : list Z :=
  fold_right (fun x acc => if existsb (Z.eqb x) acc then acc else x :: acc) [] l.
Definition run (cases : list case) : list (Z * Z) :=
  flat_map (fun c => map (fun code => (cid c, code)) (dedupZ (check c))) cases.
