(* C14/LinkC08.v -- stage 4: C14's exporter model composed with C08's model of the branch of _load_data.

   C14's input record alf_in is a snapshot of the loaded TemplateModel: x_cdata (sparse_clusters.data), x_ncl
   (n_clusters) and the nan_idx the exporter sets to NaN were INPUTS (C14_cluster_depths / C14_durations carried the
   hypothesis Loaded_ncl).  Here they are instantiated with what C08's model of _load_data's branch computes
   (PV.C08.Model.load : merge_map / nan_idx / cluster_waveforms / n_clusters on the stored spike_templates,
   spike_clusters, templates and geometry):

     Linked d L x          x carries the arrays of the data set d and the branch result L = C08.load d
                           (cluster waveforms = the exact integer quotients of C08's (numerator, denominator) cells:
                           C14's regime is "integer-valued stored arrays", C08 keeps np.average's operands);
     link_nan_idx          model_nan_idx (x_ncl x) (x_st x) (x_sc x) = l_nan L  -- C14's transcription of
                           get_merge_map / np.setdiff1d and C08's are the SAME list, in both branches;
     link_loaded_ncl       Loaded_ncl x is a FACT of C08's model (no hypothesis left);
     link_cluster_depths / link_durations / link_waveforms / link_nan_ids
                           C14's export theorems with those instantiated values: stated on C08's l_data / l_nan, for
                           every id of range(n_clusters);
     link_identity / link_single / link_empty / link_mean
                           what the cluster waveform IS, on the stored templates (C08_identity / C08_single /
                           C08_empty / C08_mean pushed through the integer quotient);
     link_single_export    the exported depth / peak channel / duration / waveform of a cluster stemming from ONE
                           template t are those of the stored template t -- stated directly on templates.npy,
                           spike_templates.npy, spike_clusters.npy of the source data set;
     link_guards           the part of wf_alf (alf.py's asserts) that concerns the cluster side follows from the load.

   Not required by Props.v / Corr.v; every theorem prints "Closed under the global context":
     cd /verif/coq && coqc -noglob -Q theories PV theories/C14/LinkC08.v *)
From Coq Require Import ZArith QArith List Bool Arith Lia Sorted.
From PV Require Base.NpSearch Base.TokArith.
From PV Require C08.Model C08.Spec C08.Proofs C08.Proofs2 C08.Proofs3 C08.Proofs7 C08.Proofs8 C08.Props.
From PV Require C09.Proofs3.
From PV Require Import C09.Model C09.Spec C09.Proofs C09.Proofs2 C14.Model C14.Spec C14.Proofs1 C14.Proofs2 C14.Proofs4
                       C14.Proofs5 C14.Proofs9 C14.Props.
Import ListNotations.
Open Scope Z_scope.

Module M8 := PV.C08.Model.
Module S8 := PV.C08.Spec.
Module P8 := PV.C08.Props.
Notation omap8 := PV.Base.TokArith.omap.

(* ---------- the integer quotient of a (numerator, denominator) cell ---------- *)
(* np.average divides once; on the exact regime of C14 (integer-valued stored arrays) the quotient is an integer *)
Definition int_cell (r : M8.rat) : option Z :=
  if M8.rd r =? 0 then None
  else if (M8.rn r) mod (M8.rd r) =? 0 then Some (M8.rn r / M8.rd r) else None.
Definition int_wave (w : list (list M8.rat)) : option mat := omap8 (omap8 int_cell) w.
Definition int_data (l : list (list (list M8.rat))) : option (list mat) := omap8 int_wave l.

(* declaratively: z is THE integer with  numerator = z * denominator *)
Definition IntCell (r : M8.rat) (z : Z) : Prop := M8.rd r <> 0 /\ M8.rn r = z * M8.rd r.
Definition IntWave (w : list (list M8.rat)) (t : mat) : Prop := Forall2 (Forall2 IntCell) w t.

Lemma int_cell_spec r z : int_cell r = Some z <-> IntCell r z.
Proof.
  unfold int_cell, IntCell. destruct (Z.eqb_spec (M8.rd r) 0) as [E0|N0].
  - split; [discriminate|]. intros [H _]. contradiction.
  - destruct (Z.eqb_spec (M8.rn r mod M8.rd r) 0) as [Em|Nm].
    + split.
      * intros H. injection H as <-. split; [exact N0|].
        rewrite Z.mul_comm. apply Z_div_exact_full_2; assumption.
      * intros [_ H]. f_equal. rewrite H. now apply Z.div_mul.
    + split; [discriminate|]. intros [_ H]. exfalso. apply Nm. rewrite H. now apply Z.mod_mul.
Qed.

Lemma int_cell_rat_of v : int_cell (M8.rat_of v) = Some v.
Proof. apply int_cell_spec. split; cbn; lia. Qed.

Lemma omap8_Forall2 {A B} (f : A -> option B) l l' :
  omap8 f l = Some l' <-> Forall2 (fun a b => f a = Some b) l l'.
Proof.
  revert l'. induction l as [|x l IH]; intros l'; cbn [PV.Base.TokArith.omap].
  - split; [intros H; injection H as <-; constructor|intros H; inversion H; reflexivity].
  - unfold PV.Base.TokArith.obind. destruct (f x) as [y|] eqn:Ey.
    + destruct (omap8 f l) as [ys|] eqn:Eys.
      * split.
        -- intros H. injection H as <-. constructor; [exact Ey|]. now apply IH.
        -- intros H. inversion H as [|? b ? ys' Hb Hr]; subst. apply IH in Hr. injection Hr as <-. congruence.
      * split; [discriminate|]. intros H. inversion H as [|? b ? ys' Hb Hr]; subst. apply IH in Hr. discriminate.
    + split; [discriminate|]. intros H. inversion H; subst. congruence.
Qed.

Lemma Forall2_weaken' {A B} (R R' : A -> B -> Prop) l l' :
  (forall a b, R a b -> R' a b) -> Forall2 R l l' -> Forall2 R' l l'.
Proof. intros H. induction 1; constructor; auto. Qed.

Lemma int_wave_spec w t : int_wave w = Some t <-> IntWave w t.
Proof.
  unfold int_wave, IntWave. split.
  - intros H. apply omap8_Forall2 in H. revert H. apply Forall2_weaken'; intros a b.
    intros H. apply omap8_Forall2 in H. revert H. apply Forall2_weaken'. intros r z. apply int_cell_spec.
  - intros H. apply omap8_Forall2. revert H. apply Forall2_weaken'; intros a b.
    intros H. apply omap8_Forall2. revert H. apply Forall2_weaken'. intros r z. apply int_cell_spec.
Qed.

Lemma omap8_map_some {A B} (f : A -> option B) (g : B -> A) l :
  (forall y, f (g y) = Some y) -> omap8 f (map g l) = Some l.
Proof.
  intros H. induction l as [|y l IH]; cbn [map PV.Base.TokArith.omap]; [reflexivity|].
  rewrite H, IH. reflexivity.
Qed.

(* a stored template read as (v, 1) cells and divided gives the template back *)
Lemma int_wave_rat_of tw : int_wave (map (map M8.rat_of) tw) = Some tw.
Proof.
  unfold int_wave. apply omap8_map_some. intros row. apply omap8_map_some. exact int_cell_rat_of.
Qed.

Lemma Forall2_nth_l {A B} (R : A -> B -> Prop) l l' n a :
  Forall2 R l l' -> nth_error l n = Some a -> exists b, nth_error l' n = Some b /\ R a b.
Proof.
  intros H. revert n. induction H as [|x y l l' Hxy _ IH]; intros [|n] E; try discriminate.
  - injection E as <-. exists y. split; [reflexivity|exact Hxy].
  - now apply IH.
Qed.
Lemma Forall2_nth_r {A B} (R : A -> B -> Prop) l l' n b :
  Forall2 R l l' -> nth_error l' n = Some b -> exists a, nth_error l n = Some a /\ R a b.
Proof.
  intros H. revert n. induction H as [|x y l l' Hxy _ IH]; intros [|n] E; try discriminate.
  - injection E as <-. exists x. split; [reflexivity|exact Hxy].
  - now apply IH.
Qed.
Lemma map_repeat' {A B} (g : A -> B) a n : map g (repeat a n) = repeat (g a) n.
Proof. induction n as [|n IH]; cbn; [reflexivity|now rewrite IH]. Qed.
Lemma Forall2_len {A B} (R : A -> B -> Prop) l l' : Forall2 R l l' -> length l = length l'.
Proof. induction 1; cbn; congruence. Qed.

(* ---------- the link record ---------- *)
Definition pos_of (px py : list Z) : mat := map2 (fun x y => [x; y]) px py.

(* x is the snapshot of a TemplateModel whose arrays are those of d and whose curated attributes are L *)
Record Linked (d : M8.dset) (L : M8.loaded) (x : alf_in) : Prop := mkLinked {
  lk_tdata : x_tdata x = M8.d_tmpl d;                      (* sparse_templates.data = templates.npy *)
  lk_cdata : int_data (M8.l_data L) = Some (x_cdata x);    (* sparse_clusters.data = C08's cluster_waveforms *)
  lk_wmi : x_wmi x = M8.d_wmi d;
  lk_st : x_st x = M8.d_st d;
  lk_sc : x_sc x = M8.d_sc d;
  lk_nt : x_nt x = M8.n_templates d;
  lk_ncl : x_ncl x = M8.l_ncl L;                            (* n_clusters = what the branch sets *)
  lk_pos : x_pos x = pos_of (M8.d_px d) (M8.d_py d)
}.

(* what the exporter reads besides the arrays C08's model knows *)
Record rest := mk_rest {
  r_amps : list Z; r_probes : list Z; r_cmap : list Z; r_feat : option (list mat * mat); r_nspikes : Z; r_nclosest : Z
}.
Definition alf_of (d : M8.dset) (L : M8.loaded) (cd : list mat) (o : rest) : alf_in :=
  mk_alf_in (M8.d_tmpl d) cd (M8.d_wmi d) (M8.d_st d) (M8.d_sc d) (r_amps o) (M8.n_templates d) (M8.l_ncl L)
            (r_probes o) (pos_of (M8.d_px d) (M8.d_py d)) (r_cmap o) (r_feat o) (r_nspikes o) (r_nclosest o).
Lemma alf_of_linked d L cd o : int_data (M8.l_data L) = Some cd -> Linked d L (alf_of d L cd o).
Proof. intros H. constructor; try reflexivity. exact H. Qed.

(* ---------- inversion of C08's load ---------- *)
Lemma zl_eq_zlist a b : zl_eq a b = M8.zlist_eqb a b.
Proof. revert b. induction a as [|x a IH]; intros [|y b]; cbn; reflexivity. Qed.

Lemma lmax_zmax_ne x r : M8.zmax_ne x r = lmax (x :: r).
Proof.
  symmetry. apply PV.C08.Proofs.ismax_zmax. split.
  - apply lmax_in. discriminate.
  - intros y Hy. now apply lmax_ge.
Qed.

Lemma lmax_nonneg l : l <> [] -> (forall c, In c l -> 0 <= c) -> 0 <= lmax l.
Proof. intros Hne Hpos. apply Hpos. now apply lmax_in. Qed.

Lemma posy_pos_of px py c : length px = length py -> posy (pos_of px py) c = nth c py 0.
Proof.
  unfold posy, pos_of. revert py c. induction px as [|x px IH]; intros [|y py] c E; try discriminate.
  - destruct c; reflexivity.
  - destruct c as [|c]; cbn [map2 nth]; [reflexivity|]. apply IH. now injection E.
Qed.

Lemma load_cases d L : M8.load d = Some L ->
  length (M8.d_st d) = length (M8.d_sc d) /\ M8.d_sc d <> [] /\
  ((M8.d_sc d = M8.d_st d /\
    L = M8.mkld false [] (M8.setdiff_arange (length (M8.d_tmpl d)) (M8.d_st d))
                  (map (map (map M8.rat_of)) (M8.d_tmpl d)) (M8.n_templates d)) \/
   (M8.d_sc d <> M8.d_st d /\ (forall c, In c (M8.d_sc d) -> 0 <= c) /\
    M8.l_curated L = true /\ M8.l_ncl L = lmax (M8.d_sc d) + 1 /\
    M8.l_nan L = M8.nan_from 0 (M8.l_mm L) /\ length (M8.l_data L) = Z.to_nat (M8.l_ncl L))).
Proof.
  intros H. pose proof H as H0. unfold M8.load in H.
  destruct (Nat.eqb_spec (length (M8.d_st d)) (length (M8.d_sc d))) as [El|]; [|discriminate]. cbn [negb] in H.
  split; [exact El|]. destruct (M8.d_sc d) as [|x r] eqn:Esc; [discriminate|]. split; [discriminate|].
  destruct (M8.zlist_eqb (x :: r) (M8.d_st d)) eqn:Eq.
  - left. apply PV.C08.Proofs3.zlist_eqb_spec in Eq. split; [exact Eq|]. injection H as <-. now rewrite <- Eq.
  - right. assert (Hne : M8.d_sc d <> M8.d_st d).
    { rewrite Esc. intros E. apply PV.C08.Proofs3.zlist_eqb_spec in E. congruence. }
    destruct (PV.C08.Proofs3.load_curated d L Hne H0) as (Hc & Hm & Hn & _ & _ & Hncl).
    destruct (PV.C08.Proofs3.merge_map_some_nonneg _ _ _ Hm) as (_ & Hpos).
    destruct (PV.C08.Proofs3.load_shape d L Hne H0) as (Hld & Hz).
    rewrite Esc in Hpos, Hne. split; [exact Hne|]. split; [exact Hpos|]. split; [exact Hc|].
    assert (E : M8.l_ncl L = lmax (x :: r) + 1).
    { rewrite <- lmax_zmax_ne. apply Hncl. rewrite Esc. apply PV.C08.Proofs9.ismax_zmax_ne. }
    split; [exact E|]. split; [exact Hn|]. rewrite Hld, Hz. unfold PV.Base.NpSearch.zlen. lia.
Qed.

(* ---------- nan_idx: the two transcriptions give the same list ---------- *)
Lemma sorted_of_nat_filter_seq (f : nat -> bool) a n : StronglySorted Z.lt (map Z.of_nat (filter f (seq a n))).
Proof.
  revert a. induction n as [|n IH]; intros a; cbn [seq filter map]; [constructor|].
  destruct (f a); [|apply IH]. cbn [map]. constructor; [apply IH|].
  apply Forall_forall. intros z Hz. apply in_map_iff in Hz as (k & <- & Hk). apply filter_In in Hk as [Hk _].
  apply in_seq in Hk. lia.
Qed.

Lemma model_nan_idx_sorted ncl st sc : StronglySorted Z.lt (model_nan_idx ncl st sc).
Proof.
  unfold model_nan_idx, nan_idx, setdiff_arange. destruct (curated st sc); apply sorted_of_nat_filter_seq.
Qed.

Section Link.
Variables (d : M8.dset) (L : M8.loaded) (x : alf_in).
Hypothesis HL : M8.load d = Some L.
Hypothesis HK : Linked d L x.

Lemma link_lengths : length (x_sc x) = length (x_st x) /\ x_sc x <> [].
Proof.
  destruct (load_cases d L HL) as (El & Hne & _). rewrite (lk_sc _ _ _ HK), (lk_st _ _ _ HK). now split.
Qed.

(* when some spike changed cluster, n_clusters = max(spike_clusters) + 1: a fact of the loader's model *)
Theorem link_loaded_ncl : Loaded_ncl x.
Proof.
  unfold Loaded_ncl. rewrite (lk_sc _ _ _ HK), (lk_st _ _ _ HK), (lk_ncl _ _ _ HK). intros N.
  destruct (load_cases d L HL) as (_ & _ & [[E _]|(_ & _ & _ & E & _)]); [contradiction|exact E].
Qed.

(* an uncurated data set has one cluster per template *)
Lemma link_identity_ncl : x_sc x = x_st x -> x_ncl x = x_nt x /\ M8.l_curated L = false /\ M8.l_mm L = [].
Proof.
  rewrite (lk_sc _ _ _ HK), (lk_st _ _ _ HK), (lk_ncl _ _ _ HK), (lk_nt _ _ _ HK). intros E.
  destruct (load_cases d L HL) as (_ & _ & [[_ ->]|(N & _)]); [cbn; auto|contradiction].
Qed.

(* model.nan_idx: C14's transcription (dictionary + two loops of get_merge_map, or np.setdiff1d) and C08's are the same
   list, in both branches of _load_data *)
Theorem link_nan_idx : model_nan_idx (x_ncl x) (x_st x) (x_sc x) = M8.l_nan L.
Proof.
  apply sorted_lt_ext; [apply model_nan_idx_sorted| |].
  - exact (proj1 (PV.C08.Proofs8.load_nan_both d L HL)).
  - intros c. rewrite (proj2 (PV.C08.Proofs8.load_nan_both d L HL) c).
    rewrite (lk_sc _ _ _ HK), (lk_st _ _ _ HK), (lk_ncl _ _ _ HK).
    destruct (load_cases d L HL) as (El & Hne & [[E _]|(N & Hpos & _ & Encl & _)]).
    + unfold model_nan_idx, curated. rewrite E.
      replace (zl_eq (M8.d_st d) (M8.d_st d)) with true by (symmetry; now apply zl_eq_true). cbn [negb].
      apply setdiff_arange_thm.
    + destruct (model_nan_idx_thm (M8.l_ncl L) (M8.d_st d) (M8.d_sc d) (eq_sym El) Hpos) as (_ & _ & U).
      apply U. intros _. exact Encl.
Qed.

(* hence: exactly the ids of range(n_clusters) that no spike carries, increasing -- with no hypothesis *)
Theorem link_nan_ids :
  StronglySorted Z.lt (model_nan_idx (x_ncl x) (x_st x) (x_sc x)) /\
  forall c, In c (model_nan_idx (x_ncl x) (x_st x) (x_sc x)) <-> 0 <= c < x_ncl x /\ ~ In c (x_sc x).
Proof.
  rewrite link_nan_idx, (lk_sc _ _ _ HK), (lk_ncl _ _ _ HK). exact (PV.C08.Proofs8.load_nan_both d L HL).
Qed.

(* ---------- the cluster waveforms ---------- *)
(* row n of sparse_clusters.data, as C14 reads it, is the integer quotient of row n of C08's cluster_waveforms *)
Lemma link_row n :
  (forall rows, nth_error (M8.l_data L) n = Some rows ->
     exists t, nth_error (x_cdata x) n = Some t /\ IntWave rows t) /\
  (forall t, nth_error (x_cdata x) n = Some t ->
     exists rows, nth_error (M8.l_data L) n = Some rows /\ IntWave rows t).
Proof.
  pose proof (lk_cdata _ _ _ HK) as H. unfold int_data in H. apply omap8_Forall2 in H. split.
  - intros rows E. destruct (Forall2_nth_l _ _ _ _ _ H E) as (t & Et & Ht). exists t. split; [exact Et|].
    now apply int_wave_spec.
  - intros t E. destruct (Forall2_nth_r _ _ _ _ _ H E) as (rows & Er & Ht). exists rows. split; [exact Er|].
    now apply int_wave_spec.
Qed.

Lemma link_cdata_length : length (x_cdata x) = length (M8.l_data L).
Proof.
  pose proof (lk_cdata _ _ _ HK) as H. unfold int_data in H. apply omap8_Forall2 in H. symmetry.
  exact (Forall2_len _ _ _ H).
Qed.

(* one cluster waveform per id of range(n_clusters): alf.py's assert n_clusters == model.n_clusters cannot fire *)
Theorem link_guards :
  zlen (x_cdata x) = x_ncl x /\ length (x_sc x) = length (x_st x) /\
  (x_sc x <> x_st x -> forall s, In s (x_sc x) -> 0 <= s < x_ncl x) /\
  forall i, In i (model_nan_idx (x_ncl x) (x_st x) (x_sc x)) -> 0 <= i < x_ncl x.
Proof.
  split; [|split; [exact (proj1 link_lengths)|split]].
  - unfold zlen. rewrite link_cdata_length, (lk_ncl _ _ _ HK).
    destruct (load_cases d L HL) as (_ & Hne & [[_ ->]|(_ & Hpos & _ & E & _ & El)]).
    + cbn [M8.l_data M8.l_ncl]. rewrite !map_length. reflexivity.
    + rewrite El. pose proof (lmax_nonneg _ Hne Hpos). lia.
  - rewrite (lk_sc _ _ _ HK), (lk_st _ _ _ HK), (lk_ncl _ _ _ HK). intros N s Hs.
    destruct (load_cases d L HL) as (_ & _ & [[E _]|(_ & Hpos & _ & E & _)]); [contradiction|].
    rewrite E. pose proof (lmax_ge _ _ Hs). specialize (Hpos s Hs). lia.
  - intros i Hi. now apply (proj2 link_nan_ids).
Qed.

(* ---------- what the cluster waveform IS, on the stored templates ---------- *)
(* (a) clusters = templates: sparse_clusters = sparse_templates *)
Theorem link_identity : x_sc x = x_st x -> x_cdata x = x_tdata x.
Proof.
  rewrite (lk_sc _ _ _ HK), (lk_st _ _ _ HK), (lk_tdata _ _ _ HK). intros E.
  pose proof (lk_cdata _ _ _ HK) as H.
  destruct (load_cases d L HL) as (_ & _ & [[_ EL]|(N & _)]); [|contradiction].
  rewrite EL in H. cbn [M8.l_data] in H. unfold int_data in H.
  assert (G : omap8 int_wave (map (map (map M8.rat_of)) (M8.d_tmpl d)) = Some (M8.d_tmpl d)).
  { apply omap8_map_some. exact int_wave_rat_of. }
  rewrite G in H. now injection H.
Qed.

(* (b) a cluster stemming from the single template t carries that template, unchanged *)
Theorem link_single (c t : Z) :
  x_sc x <> x_st x -> In c (x_sc x) -> (forall t', S8.PairIn (x_st x) (x_sc x) c t' -> t' = t) ->
  nth_error (x_cdata x) (Z.to_nat c) = Some (nth (Z.to_nat t) (x_tdata x) []).
Proof.
  rewrite (lk_sc _ _ _ HK), (lk_st _ _ _ HK), (lk_tdata _ _ _ HK). intros N Hc Hu.
  pose proof (P8.C08_single d L c t N HL Hc Hu) as E.
  destruct (proj1 (link_row (Z.to_nat c)) _ E) as (w & Ew & Hw). rewrite Ew. f_equal.
  apply int_wave_spec in Hw. unfold S8.single_rows in Hw.
  destruct (nth_error (M8.d_tmpl d) (Z.to_nat t)) as [tw|] eqn:Et.
  - rewrite int_wave_rat_of in Hw. injection Hw as <-. symmetry. now apply nth_error_nth.
  - cbn in Hw. injection Hw as <-. symmetry. apply nth_overflow. now apply nth_error_None.
Qed.

(* (c) an id of 0..max without spikes carries the zero waveform *)
Theorem link_empty (c : Z) :
  x_sc x <> x_st x -> 0 <= c <= lmax (x_sc x) -> ~ In c (x_sc x) ->
  nth_error (x_cdata x) (Z.to_nat c) = Some (repeat (repeat 0 (M8.n_channels d)) (M8.n_samples_wf d)).
Proof.
  rewrite (lk_sc _ _ _ HK), (lk_st _ _ _ HK). intros N Hr Hn.
  assert (HM : S8.IsMax (lmax (M8.d_sc d)) (M8.d_sc d)).
  { destruct (load_cases d L HL) as (_ & Hne & _). split; [now apply lmax_in|]. intros y Hy. now apply lmax_ge. }
  pose proof (P8.C08_empty d L c _ N HL HM Hr Hn) as E.
  destruct (proj1 (link_row (Z.to_nat c)) _ E) as (w & Ew & Hw). rewrite Ew. f_equal.
  apply int_wave_spec in Hw.
  assert (G : int_wave (repeat (repeat (M8.rat_of 0) (M8.n_channels d)) (M8.n_samples_wf d)) =
              Some (repeat (repeat 0 (M8.n_channels d)) (M8.n_samples_wf d))).
  { rewrite <- (int_wave_rat_of (repeat (repeat 0 (M8.n_channels d)) (M8.n_samples_wf d))).
    rewrite !map_repeat'. reflexivity. }
  rewrite G in Hw. now injection Hw.
Qed.

(* (d) a cluster stemming from several templates: on the channels of a dominant template tb the value v at (s, k)
   is the spike-count weighted mean  v * (number of spikes of c) = sum_t count(c, t) * template t at (s, k)  (template t
   restricted to its own channels), and 0 on every other channel *)
Theorem link_mean (c t1 t2 : Z) :
  S8.WF d -> x_sc x <> x_st x ->
  S8.PairIn (x_st x) (x_sc x) c t1 -> S8.PairIn (x_st x) (x_sc x) c t2 -> t1 <> t2 ->
  exists tb w, S8.Dominant d c tb /\ nth_error (x_cdata x) (Z.to_nat c) = Some w /\
    length w = M8.n_samples_wf d /\
    forall s row, nth_error w s = Some row ->
      length row = M8.n_channels d /\
      forall k v, nth_error row k = Some v ->
        if M8.memZ (Z.of_nat k) (S8.chans_of d false tb)
        then S8.wden d c <> 0 /\ S8.wnum d false c s (Z.of_nat k) = v * S8.wden d c
        else v = 0.
Proof.
  rewrite (lk_sc _ _ _ HK), (lk_st _ _ _ HK). intros Hwf N H1 H2 Hd.
  destruct (P8.C08_mean d L c t1 t2 Hwf N HL H1 H2 Hd) as (tb & Hdom & E).
  destruct (proj1 (link_row (Z.to_nat c)) _ E) as (w & Ew & Hw). exists tb, w.
  split; [exact Hdom|]. split; [exact Ew|]. unfold IntWave, S8.mean_rows in Hw.
  split; [rewrite <- (Forall2_len _ _ _ Hw), map_length, seq_length; reflexivity|].
  intros s row Es. destruct (Forall2_nth_r _ _ _ _ _ Hw Es) as (rrow & Er & Hrow).
  rewrite nth_error_map in Er. destruct (nth_error (seq 0 (M8.n_samples_wf d)) s) as [s'|] eqn:Eseq; [|discriminate].
  assert (Hs : (s < M8.n_samples_wf d)%nat) by (rewrite <- (seq_length (M8.n_samples_wf d) 0); apply nth_error_Some; congruence).
  rewrite (PV.C08.Proofs2.nth_error_seq_lt _ _ _ Hs) in Eseq. injection Eseq as <-. cbn [option_map Nat.add] in Er. injection Er as <-.
  split; [rewrite <- (Forall2_len _ _ _ Hrow), map_length, PV.Base.NpSearch.zrange_length; reflexivity|].
  intros k v Ek. destruct (Forall2_nth_r _ _ _ _ _ Hrow Ek) as (cellr & Ec & Hcell).
  rewrite nth_error_map in Ec.
  destruct (nth_error (PV.Base.NpSearch.zrange 0 (M8.n_channels d)) k) as [k'|] eqn:Ez; [|discriminate].
  assert (Hk : (k < M8.n_channels d)%nat).
  { rewrite <- (PV.Base.NpSearch.zrange_length 0 (M8.n_channels d)). apply nth_error_Some. congruence. }
  rewrite (PV.C08.Proofs3.nth_error_zrange _ _ Hk) in Ez. injection Ez as <-. cbn [option_map] in Ec. injection Ec as <-.
  destruct (M8.memZ (Z.of_nat k) (S8.chans_of d false tb)); destruct Hcell as [Hd0 Hn]; cbn in Hd0, Hn.
  - split; assumption.
  - lia.
Qed.

(* ---------- C14's export theorems on the instantiated values ---------- *)
Variables (tinds cinds : list (list nat)) (f : QN) (y : alf_out).

(* clusters.depths / clusters.channels, for every id of range(n_clusters), on C08's cluster_waveforms: NaN exactly on
   C08's nan_idx = the ids no spike carries; otherwise the y coordinate of the peak channel of the cluster waveform *)
Theorem link_cluster_depths r : export_with tinds cinds x f r = Some y ->
  length (y_cdepths y) = length (M8.l_data L) /\ length (y_cpeak y) = length (M8.l_data L) /\
  forall n rows, nth_error (M8.l_data L) n = Some rows ->
    exists t c, IntWave rows t /\ IsPeakChannel (entry t) (length t) (length (M8.d_wmi d)) c /\
      nth_error (y_cpeak y) n = Some (Z.of_nat c) /\
      (In (Z.of_nat n) (M8.l_nan L) <-> ~ In (Z.of_nat n) (M8.d_sc d)) /\
      (In (Z.of_nat n) (M8.d_sc d) ->
         nth_error (y_cdepths y) n = Some (Some (inject_Z (posy (pos_of (M8.d_px d) (M8.d_py d)) c)))) /\
      (~ In (Z.of_nat n) (M8.d_sc d) -> nth_error (y_cdepths y) n = Some None).
Proof.
  intros H. destruct (C14_cluster_depths _ _ _ _ _ _ H link_loaded_ncl) as (L1 & L2 & S).
  rewrite link_cdata_length in L1, L2. split; [exact L1|]. split; [exact L2|]. intros n rows E.
  destruct (proj1 (link_row n) _ E) as (t & Et & Ht). destruct (S n t Et) as (c & Hc & Hp & Hin & Hout).
  rewrite (lk_wmi _ _ _ HK) in Hc. rewrite (lk_sc _ _ _ HK) in Hin, Hout. exists t, c.
  split; [exact Ht|]. split; [exact Hc|]. split; [exact Hp|]. split; [|split; [|exact Hout]].
  - rewrite (proj2 (PV.C08.Proofs8.load_nan_both d L HL) (Z.of_nat n)). split; [tauto|]. intros Hn. split; [|exact Hn].
    assert (Hlt : (n < length (x_cdata x))%nat) by (apply nth_error_Some; congruence).
    pose proof (proj1 link_guards) as G. unfold zlen in G. rewrite (lk_ncl _ _ _ HK) in G. lia.
  - intros Hs. rewrite (Hin Hs), (lk_pos _ _ _ HK). reflexivity.
Qed.

(* clusters.peakToTrough on C08's cluster_waveforms: NaN exactly for the ids no spike carries, otherwise the
   peak-to-trough time of the peak channel of the cluster waveform, in ms *)
Theorem link_durations (rate : Q) : ~ (rate == 0)%Q -> export_with tinds cinds x f (Some rate) = Some y ->
  length (y_p2t y) = length (M8.l_data L) /\
  forall n rows, nth_error (M8.l_data L) n = Some rows ->
    exists t, IntWave rows t /\
      (~ In (Z.of_nat n) (M8.d_sc d) -> nth_error (y_p2t y) n = Some None) /\
      (In (Z.of_nat n) (M8.d_sc d) ->
       exists c imax imin q, IsPeakChannel (entry t) (length t) (length (M8.d_wmi d)) c /\
         IsArgmaxFirst imax (column (entry t) (length t) c) /\
         IsArgminFirst imin (column (entry t) (length t) c) /\
         nth_error (y_p2t y) n = Some (Some q) /\
         (q == inject_Z (Z.of_nat imax - Z.of_nat imin) / rate * inject_Z 1000)%Q).
Proof.
  intros Hr H. destruct (C14_durations _ _ _ _ _ _ Hr H link_loaded_ncl) as (L1 & S).
  rewrite link_cdata_length in L1. split; [exact L1|]. intros n rows E.
  destruct (proj1 (link_row n) _ E) as (t & Et & Ht). destruct (S n t Et) as (Hout & Hin).
  rewrite (lk_sc _ _ _ HK) in Hin, Hout. rewrite (lk_wmi _ _ _ HK) in Hin. exists t. split; [exact Ht|]. now split.
Qed.

(* clusters.waveforms / clusters.amps on C08's cluster_waveforms: unwhitened (wmi) x amplitude rescaling x unit factor
   on the listed channels, for whatever channel rows the argsort loop chose *)
Theorem link_waveforms r : export_with tinds cinds x f r = Some y ->
  forall n rows inds, nth_error (M8.l_data L) n = Some rows -> nth_error cinds n = Some inds ->
    exists t v au, IntWave rows t /\
      IsPeakAmp (unwh (M8.d_wmi d) t) (length t) (length (M8.d_wmi d)) au /\
      nth_error (y_camps y) n = Some (q_mul v f) /\
      Wave_Spec (M8.d_wmi d) t v au f inds (nth n (y_cwave y) []).
Proof.
  intros H n rows inds E Ei. destruct (proj1 (link_row n) _ E) as (t & Et & Ht).
  destruct (proj2 (C14_waveforms _ _ _ _ _ _ H) n t inds Et Ei) as (v & au & H1 & H2 & H3).
  rewrite (lk_wmi _ _ _ HK) in H1, H3. exists t, v, au. split; [exact Ht|]. split; [exact H1|]. split; [exact H2|exact H3].
Qed.

(* ... and templates.waveforms / templates.amps on templates.npy itself *)
Theorem link_template_waveforms r : export_with tinds cinds x f r = Some y ->
  forall n t inds, nth_error (M8.d_tmpl d) n = Some t -> nth_error tinds n = Some inds ->
    exists v au, IsPeakAmp (unwh (M8.d_wmi d) t) (length t) (length (M8.d_wmi d)) au /\
      nth_error (y_tamps y) n = Some (q_mul v f) /\
      Wave_Spec (M8.d_wmi d) t v au f inds (nth n (y_twave y) []).
Proof.
  intros H n t inds Et Ei. rewrite <- (lk_tdata _ _ _ HK) in Et.
  destruct (proj1 (C14_waveforms _ _ _ _ _ _ H) n t inds Et Ei) as (v & au & H1 & H2 & H3).
  rewrite (lk_wmi _ _ _ HK) in H1, H3. exists v, au. split; [exact H1|]. split; [exact H2|exact H3].
Qed.

(* A cluster c that stems from ONE template t (every spike of c has template t; e.g. a renumbered or split-off cluster):
   everything exported for c is computed from the stored template t -- peak channel, depth, peak-to-trough duration,
   waveform.  Stated on the files of the source data set: d_tmpl = templates.npy, d_st / d_sc = spike_templates /
   spike_clusters, d_px / d_py = channel_positions, d_wmi = the inverse whitening matrix. *)
Theorem link_single_export (rate : Q) (c t : Z) : ~ (rate == 0)%Q ->
  export_with tinds cinds x f (Some rate) = Some y ->
  M8.d_sc d <> M8.d_st d -> In c (M8.d_sc d) -> (forall t', S8.PairIn (M8.d_st d) (M8.d_sc d) c t' -> t' = t) ->
  let tw := nth (Z.to_nat t) (M8.d_tmpl d) [] in
  exists p imax imin q,
    IsPeakChannel (entry tw) (length tw) (length (M8.d_wmi d)) p /\
    nth_error (y_cpeak y) (Z.to_nat c) = Some (Z.of_nat p) /\
    nth_error (y_cdepths y) (Z.to_nat c) = Some (Some (inject_Z (posy (pos_of (M8.d_px d) (M8.d_py d)) p))) /\
    IsArgmaxFirst imax (column (entry tw) (length tw) p) /\
    IsArgminFirst imin (column (entry tw) (length tw) p) /\
    nth_error (y_p2t y) (Z.to_nat c) = Some (Some q) /\
    (q == inject_Z (Z.of_nat imax - Z.of_nat imin) / rate * inject_Z 1000)%Q /\
    forall inds, nth_error cinds (Z.to_nat c) = Some inds ->
      exists v au, IsPeakAmp (unwh (M8.d_wmi d) tw) (length tw) (length (M8.d_wmi d)) au /\
        nth_error (y_camps y) (Z.to_nat c) = Some (q_mul v f) /\
        Wave_Spec (M8.d_wmi d) tw v au f inds (nth (Z.to_nat c) (y_cwave y) []).
Proof.
  intros Hr H N Hc Hu tw.
  assert (Et : nth_error (x_cdata x) (Z.to_nat c) = Some tw).
  { unfold tw. rewrite <- (lk_tdata _ _ _ HK). apply link_single.
    - now rewrite (lk_sc _ _ _ HK), (lk_st _ _ _ HK).
    - now rewrite (lk_sc _ _ _ HK).
    - now rewrite (lk_sc _ _ _ HK), (lk_st _ _ _ HK). }
  assert (Hc0 : 0 <= c).
  { destruct (load_cases d L HL) as (_ & _ & [[E _]|(_ & Hpos & _)]); [contradiction|now apply Hpos]. }
  assert (Hin : In (Z.of_nat (Z.to_nat c)) (x_sc x)) by (rewrite Z2Nat.id, (lk_sc _ _ _ HK) by exact Hc0; exact Hc).
  destruct (C14_cluster_depths _ _ _ _ _ _ H link_loaded_ncl) as (_ & _ & S).
  destruct (S _ _ Et) as (p & Hp & Hpk & Hd & _). specialize (Hd Hin).
  destruct (C14_durations _ _ _ _ _ _ Hr H link_loaded_ncl) as (_ & S2).
  destruct (proj2 (S2 _ _ Et) Hin) as (p' & imax & imin & q & Hp' & Hmax & Hmin & Hq & Eq).
  assert (p' = p) by (rewrite (lk_wmi _ _ _ HK) in Hp'; rewrite (lk_wmi _ _ _ HK) in Hp; exact (PV.C09.Proofs3.IsPeakChannel_unique _ _ _ _ _ Hp' Hp)). subst p'.
  rewrite (lk_wmi _ _ _ HK) in Hp. rewrite (lk_pos _ _ _ HK) in Hd.
  exists p, imax, imin, q. repeat (split; [assumption|]).
  intros inds Ei. destruct (proj2 (C14_waveforms _ _ _ _ _ _ H) _ _ inds Et Ei) as (v & au & H1 & H2 & H3).
  rewrite (lk_wmi _ _ _ HK) in H1, H3. exists v, au. split; [exact H1|]. split; [exact H2|exact H3].
Qed.

End Link.

(* ================================================================================================================ *)
(* The statements, closed (d = the stored arrays of the source data set and its curation state, L = C08's model of the
   branch of _load_data on them, x = the snapshot C14's exporter model runs on).                                      *)

(* model.nan_idx of C14 IS C08's, and Loaded_ncl -- the hypothesis of C14_cluster_depths / C14_durations -- is a fact *)
Theorem C14_C08_nan_idx : forall d L x, M8.load d = Some L -> Linked d L x ->
  model_nan_idx (x_ncl x) (x_st x) (x_sc x) = M8.l_nan L /\ Loaded_ncl x /\
  StronglySorted Z.lt (M8.l_nan L) /\
  forall c, In c (M8.l_nan L) <-> 0 <= c < x_ncl x /\ ~ In c (x_sc x).
Proof.
  intros d L x HL HK. split; [exact (link_nan_idx d L x HL HK)|]. split; [exact (link_loaded_ncl d L x HL HK)|].
  rewrite <- (link_nan_idx d L x HL HK). exact (link_nan_ids d L x HL HK).
Qed.
Print Assumptions C14_C08_nan_idx.

Theorem C14_C08_cluster_depths : forall d L x, M8.load d = Some L -> Linked d L x ->
  forall tinds cinds f y r, export_with tinds cinds x f r = Some y ->
  length (y_cdepths y) = length (M8.l_data L) /\ length (y_cpeak y) = length (M8.l_data L) /\
  forall n rows, nth_error (M8.l_data L) n = Some rows ->
    exists t c, IntWave rows t /\ IsPeakChannel (entry t) (length t) (length (M8.d_wmi d)) c /\
      nth_error (y_cpeak y) n = Some (Z.of_nat c) /\
      (In (Z.of_nat n) (M8.l_nan L) <-> ~ In (Z.of_nat n) (M8.d_sc d)) /\
      (In (Z.of_nat n) (M8.d_sc d) ->
         nth_error (y_cdepths y) n = Some (Some (inject_Z (posy (pos_of (M8.d_px d) (M8.d_py d)) c)))) /\
      (~ In (Z.of_nat n) (M8.d_sc d) -> nth_error (y_cdepths y) n = Some None).
Proof. exact link_cluster_depths. Qed.
Print Assumptions C14_C08_cluster_depths.

Theorem C14_C08_durations : forall d L x, M8.load d = Some L -> Linked d L x ->
  forall tinds cinds f y (rate : Q), ~ (rate == 0)%Q -> export_with tinds cinds x f (Some rate) = Some y ->
  length (y_p2t y) = length (M8.l_data L) /\
  forall n rows, nth_error (M8.l_data L) n = Some rows ->
    exists t, IntWave rows t /\
      (~ In (Z.of_nat n) (M8.d_sc d) -> nth_error (y_p2t y) n = Some None) /\
      (In (Z.of_nat n) (M8.d_sc d) ->
       exists c imax imin q, IsPeakChannel (entry t) (length t) (length (M8.d_wmi d)) c /\
         IsArgmaxFirst imax (column (entry t) (length t) c) /\
         IsArgminFirst imin (column (entry t) (length t) c) /\
         nth_error (y_p2t y) n = Some (Some q) /\
         (q == inject_Z (Z.of_nat imax - Z.of_nat imin) / rate * inject_Z 1000)%Q).
Proof. exact link_durations. Qed.
Print Assumptions C14_C08_durations.

Theorem C14_C08_waveforms : forall d L x, M8.load d = Some L -> Linked d L x ->
  forall tinds cinds f y r, export_with tinds cinds x f r = Some y ->
  (forall n rows inds, nth_error (M8.l_data L) n = Some rows -> nth_error cinds n = Some inds ->
     exists t v au, IntWave rows t /\
       IsPeakAmp (unwh (M8.d_wmi d) t) (length t) (length (M8.d_wmi d)) au /\
       nth_error (y_camps y) n = Some (q_mul v f) /\
       Wave_Spec (M8.d_wmi d) t v au f inds (nth n (y_cwave y) [])) /\
  (forall n t inds, nth_error (M8.d_tmpl d) n = Some t -> nth_error tinds n = Some inds ->
     exists v au, IsPeakAmp (unwh (M8.d_wmi d) t) (length t) (length (M8.d_wmi d)) au /\
       nth_error (y_tamps y) n = Some (q_mul v f) /\
       Wave_Spec (M8.d_wmi d) t v au f inds (nth n (y_twave y) [])).
Proof.
  intros d L x HL HK tinds cinds f y r H. split.
  - intros n rows inds. eapply link_waveforms; eassumption.
  - intros n t inds. eapply link_template_waveforms; eassumption.
Qed.
Print Assumptions C14_C08_waveforms.

(* what the cluster waveform IS, on templates.npy: the four cases of C08 (identity / single / empty / mean) *)
Theorem C14_C08_cluster_waveform : forall d L x, M8.load d = Some L -> Linked d L x ->
  (x_sc x = x_st x -> x_cdata x = x_tdata x /\ x_ncl x = x_nt x) /\
  (x_sc x <> x_st x ->
   (forall c t, In c (x_sc x) -> (forall t', S8.PairIn (x_st x) (x_sc x) c t' -> t' = t) ->
      nth_error (x_cdata x) (Z.to_nat c) = Some (nth (Z.to_nat t) (x_tdata x) [])) /\
   (forall c, 0 <= c <= lmax (x_sc x) -> ~ In c (x_sc x) ->
      nth_error (x_cdata x) (Z.to_nat c) = Some (repeat (repeat 0 (M8.n_channels d)) (M8.n_samples_wf d))) /\
   (S8.WF d -> forall c t1 t2, S8.PairIn (x_st x) (x_sc x) c t1 -> S8.PairIn (x_st x) (x_sc x) c t2 -> t1 <> t2 ->
      exists tb w, S8.Dominant d c tb /\ nth_error (x_cdata x) (Z.to_nat c) = Some w /\
        length w = M8.n_samples_wf d /\
        forall s row, nth_error w s = Some row ->
          length row = M8.n_channels d /\
          forall k v, nth_error row k = Some v ->
            if M8.memZ (Z.of_nat k) (S8.chans_of d false tb)
            then S8.wden d c <> 0 /\ S8.wnum d false c s (Z.of_nat k) = v * S8.wden d c
            else v = 0)).
Proof.
  intros d L x HL HK. split.
  - intros E. split; [exact (link_identity d L x HL HK E)|exact (proj1 (link_identity_ncl d L x HL HK E))].
  - intros N. split; [|split].
    + intros c t Hc Hu. exact (link_single d L x HL HK c t N Hc Hu).
    + intros c Hr Hn. exact (link_empty d L x HL HK c N Hr Hn).
    + intros Hwf c t1 t2 H1 H2 Hd. exact (link_mean d L x HL HK c t1 t2 Hwf N H1 H2 Hd).
Qed.
Print Assumptions C14_C08_cluster_waveform.

Theorem C14_C08_single_export : forall d L x, M8.load d = Some L -> Linked d L x ->
  forall tinds cinds f y (rate : Q) (c t : Z), ~ (rate == 0)%Q ->
  export_with tinds cinds x f (Some rate) = Some y ->
  M8.d_sc d <> M8.d_st d -> In c (M8.d_sc d) -> (forall t', S8.PairIn (M8.d_st d) (M8.d_sc d) c t' -> t' = t) ->
  let tw := nth (Z.to_nat t) (M8.d_tmpl d) [] in
  exists p imax imin q,
    IsPeakChannel (entry tw) (length tw) (length (M8.d_wmi d)) p /\
    nth_error (y_cpeak y) (Z.to_nat c) = Some (Z.of_nat p) /\
    nth_error (y_cdepths y) (Z.to_nat c) = Some (Some (inject_Z (posy (pos_of (M8.d_px d) (M8.d_py d)) p))) /\
    IsArgmaxFirst imax (column (entry tw) (length tw) p) /\
    IsArgminFirst imin (column (entry tw) (length tw) p) /\
    nth_error (y_p2t y) (Z.to_nat c) = Some (Some q) /\
    (q == inject_Z (Z.of_nat imax - Z.of_nat imin) / rate * inject_Z 1000)%Q /\
    forall inds, nth_error cinds (Z.to_nat c) = Some inds ->
      exists v au, IsPeakAmp (unwh (M8.d_wmi d) tw) (length tw) (length (M8.d_wmi d)) au /\
        nth_error (y_camps y) (Z.to_nat c) = Some (q_mul v f) /\
        Wave_Spec (M8.d_wmi d) tw v au f inds (nth (Z.to_nat c) (y_cwave y) []).
Proof. exact link_single_export. Qed.
Print Assumptions C14_C08_single_export.

(* the cluster side of alf.py's asserts follows from the load: one waveform per id of range(n_clusters), spike
   clusters and nan_idx in range *)
Theorem C14_C08_guards : forall d L x, M8.load d = Some L -> Linked d L x ->
  zlen (x_cdata x) = x_ncl x /\ length (x_sc x) = length (x_st x) /\
  (x_sc x <> x_st x -> forall s, In s (x_sc x) -> 0 <= s < x_ncl x) /\
  forall i, In i (model_nan_idx (x_ncl x) (x_st x) (x_sc x)) -> 0 <= i < x_ncl x.
Proof. exact link_guards. Qed.
Print Assumptions C14_C08_guards.

(* the y coordinate read from the position table built from the two coordinate columns *)
Theorem C14_C08_posy : forall px py c, length px = length py -> posy (pos_of px py) c = nth c py 0.
Proof. exact posy_pos_of. Qed.

(* ---- non-vacuity: C08's curated example with even template values (every mean is an integer): clusters 0 <- template 0,
   1 <- templates 1 and 2, 3 <- templates 0 and 1, 5 <- template 2, ids 2 and 4 empty; the composition load -> integer
   quotient -> export runs, nan_idx = [2; 4] is C08's, and the exported depths / durations are NaN exactly there ---- *)
Definition ex_d : M8.dset :=
  M8.mkds [0; 0; 1; 1; 2; 2; 2] [0; 3; 3; 1; 1; 5; 5]
          [ [[2; 4; 6]; [8; 10; 12]]; [[14; 16; 18]; [2; 2; 2]]; [[0; 10; 0]; [0; -10; 0]] ]
          [0; 0; 0] [0; 20; 40] [0; 0; 1] [[1; 0; 0]; [0; 1; 0]; [0; 0; 1]].
Definition ex_o : rest := mk_rest [1; 1; 1; 1; 1; 1; 1] [0; 0; 0] [0; 1; 2] None 7 12.
Definition qred' (q : QN) : QN := match q with Some v => Some (Qred v) | None => None end.
Example C14_C08_ex :
  exists L cd y, M8.load ex_d = Some L /\ int_data (M8.l_data L) = Some cd /\
    Linked ex_d L (alf_of ex_d L cd ex_o) /\
    export PV.C14.Proofs6.isort_arg (alf_of ex_d L cd ex_o) (Some 1%Q) (Some (inject_Z 1000)) = Some y /\
    M8.l_nan L = [2; 4] /\ M8.l_ncl L = 6 /\
    nth 3 cd [] = [[1; 2; 0]; [4; 5; 0]] /\                      (* the mean of templates 0 and 1 on the dominant's channels *)
    nth 5 cd [] = [[0; 10; 0]; [0; -10; 0]] /\                   (* template 2 unchanged *)
    nth 1 cd [] = [[0; 0; 9]; [0; 0; 1]] /\                         (* templates 1 and 2 on template 1's channel (its shank) *)
    map qred' (y_cdepths y) = [Some 0; Some 40; None; Some 0; None; Some 20]%Q /\
    map qred' (y_p2t y) = [Some 1; Some (-1 # 1); None; Some 1; None; Some (-1 # 1)]%Q.
Proof.
  eexists. eexists. eexists. split; [vm_compute; reflexivity|]. split; [vm_compute; reflexivity|].
  split; [apply alf_of_linked; vm_compute; reflexivity|]. split; [vm_compute; reflexivity|].
  vm_compute. repeat split.
Qed.
