(* C14/Proofs6.v -- C14_channels for the exporter (every argsort NumPy may implement), and a concrete
   argsort that meets NumPy's contract (so that the hypothesis of the theorems is inhabited). *)
From Coq Require Import ZArith QArith List Bool Arith Lia Permutation Sorted.
From PV Require Import C09.Model C09.Spec C09.Proofs C09.Proofs2 C09.Proofs3
                       C14.Model C14.Spec C14.Proofs1 C14.Proofs3 C14.Proofs4.
Import ListNotations.
Open Scope Z_scope.

Section Channels.
Variable argsort : list dkey -> list nat.
Hypothesis AS : Argsort_ok argsort.

Lemma inds_of_nth x data n t : (1 <= length (x_wmi x))%nat -> (1 <= length t)%nat ->
  nth_error data n = Some t ->
  exists p, IsPeakChannel (entry t) (length t) (length (x_wmi x)) p /\
            nth_error (inds_of argsort x data) n =
            Some (listed argsort (x_pos x) (x_probes x) (length (x_wmi x)) (ncw_of x) p).
Proof.
  intros Hnc Hns Ht. exists (argmax (ch_amps (length (x_wmi x)) t)). split; [now apply peak_channel_model|].
  unfold inds_of, peak_channels. cbv zeta.
  apply (map_nth_error (listed argsort (x_pos x) (x_probes x) (length (x_wmi x)) (ncw_of x))).
  apply (map_nth_error (fun t => argmax (ch_amps (length (x_wmi x)) t))). exact Ht.
Qed.

Theorem channels_thm14 : forall x f r y, export argsort x f r = Some y ->
  length (y_tchan y) = length (x_tdata x) /\ length (y_cchan y) = length (x_cdata x) /\
  (forall n t, nth_error (x_tdata x) n = Some t ->
     exists p, IsPeakChannel (entry t) (length t) (length (x_wmi x)) p /\
               Listed_Spec (x_pos x) (x_probes x) (length (x_wmi x)) (ncw_of x) p (nth n (y_tchan y) [])) /\
  (forall n t, nth_error (x_cdata x) n = Some t ->
     exists p, IsPeakChannel (entry t) (length t) (length (x_wmi x)) p /\
               Listed_Spec (x_pos x) (x_probes x) (length (x_wmi x)) (ncw_of x) p (nth n (y_cchan y) [])).
Proof.
  intros x f r y H. unfold export in H.
  destruct (export_with_inv _ _ _ _ _ _ H) as (amp_t & amp_c & dur & dep & E).
  rewrite (ex_tchan _ _ _ _ _ _ _ _ _ _ E), (ex_cchan _ _ _ _ _ _ _ _ _ _ E).
  destruct (amplitudes_true_Q_unfold _ _ _ (ex_at _ _ _ _ _ _ _ _ _ _ E)) as (Wt & _).
  destruct (amplitudes_true_Q_unfold _ _ _ (ex_ac _ _ _ _ _ _ _ _ _ _ E)) as (Wc & _).
  pose proof (wf_amp_WF _ Wt) as WT. pose proof (wf_amp_WF _ Wc) as WC.
  split; [unfold inds_of, peak_channels; cbv zeta; now rewrite !map_length|].
  split; [unfold inds_of, peak_channels; cbv zeta; now rewrite !map_length|].
  split; intros n t Ht.
  - destruct (wf_data _ WT t (nth_error_In _ _ Ht)) as [Hns _].
    destruct (inds_of_nth x (x_tdata x) n t (wf_nc _ WT) Hns Ht) as (p & Hp & En).
    exists p. split; [exact Hp|]. rewrite (nth_error_nth' _ _ _ [] En). now apply listed_thm.
  - destruct (wf_data _ WC t (nth_error_In _ _ Ht)) as [Hns _].
    destruct (inds_of_nth x (x_cdata x) n t (wf_nc _ WC) Hns Ht) as (p & Hp & En).
    exists p. split; [exact Hp|]. rewrite (nth_error_nth' _ _ _ [] En). now apply listed_thm.
Qed.
End Channels.

(* ---------- a concrete argsort: insertion of the positions by key (stable) ---------- *)
Definition keyat (keys : list dkey) (i : nat) : dkey := nth i keys Inf.
Fixpoint ins (keys : list dkey) (i : nat) (l : list nat) : list nat :=
  match l with
  | [] => [i]
  | j :: r => if dle (keyat keys i) (keyat keys j) then i :: l else j :: ins keys i r
  end.
Definition isort_arg (keys : list dkey) : list nat := fold_right (ins keys) [] (seq 0 (length keys)).

Lemma dle_refl k : dle k k = true.
Proof. destruct k; cbn [dle]; [apply Z.leb_refl|reflexivity]. Qed.
Lemma dle_total a b : dle a b = false -> dle b a = true.
Proof. destruct a, b; cbn [dle]; try discriminate; try reflexivity. intros H. apply Z.leb_gt in H. apply Z.leb_le. lia. Qed.
Lemma dle_trans a b c : dle a b = true -> dle b c = true -> dle a c = true.
Proof. destruct a, b, c; cbn [dle]; try discriminate; try reflexivity. rewrite !Z.leb_le. lia. Qed.

Lemma ins_perm keys i l : Permutation (ins keys i l) (i :: l).
Proof.
  induction l as [|j r IH]; cbn [ins]; [reflexivity|].
  destruct (dle _ _); [reflexivity|]. rewrite IH. apply perm_swap.
Qed.
Definition kle (keys : list dkey) (a b : nat) : Prop := dle (keyat keys a) (keyat keys b) = true.
Lemma ins_sorted keys i l : StronglySorted (kle keys) l -> StronglySorted (kle keys) (ins keys i l).
Proof.
  induction l as [|j r IH]; intros S; cbn [ins]; [repeat constructor|].
  apply StronglySorted_inv in S as [Sr Sj]. destruct (dle (keyat keys i) (keyat keys j)) eqn:E.
  - constructor; [constructor; assumption|]. constructor; [exact E|].
    rewrite Forall_forall in *. intros z Hz. eapply dle_trans; [exact E|]. now apply Sj.
  - constructor; [now apply IH|]. apply Forall_forall. intros z Hz.
    apply (Permutation_in _ (ins_perm keys i r)) in Hz. destruct Hz as [<-|Hz].
    + now apply dle_total.
    + rewrite Forall_forall in Sj. now apply Sj.
Qed.
Lemma strongly_sorted_nth {A} (R : A -> A -> Prop) l d : StronglySorted R l ->
  forall i j, (i < j < length l)%nat -> R (nth i l d) (nth j l d).
Proof.
  induction 1 as [|x r Sr IH Hx]; intros i j Hij; [cbn in Hij; lia|].
  destruct j as [|j]; [lia|]. destruct i as [|i]; cbn [nth].
  - rewrite Forall_forall in Hx. apply Hx, nth_In. cbn in Hij. lia.
  - apply IH. cbn in Hij. lia.
Qed.

Theorem isort_arg_ok : Argsort_ok isort_arg.
Proof.
  intros keys. unfold isort_arg.
  assert (P : forall l, Permutation (fold_right (ins keys) [] l) l).
  { induction l as [|i r IH]; cbn [fold_right]; [reflexivity|]. rewrite ins_perm. now constructor. }
  assert (S : forall l, StronglySorted (kle keys) (fold_right (ins keys) [] l)).
  { induction l as [|i r IH]; cbn [fold_right]; [constructor|]. now apply ins_sorted. }
  split; [apply P|]. intros i j Hij.
  set (A := fold_right (ins keys) [] (seq 0 (length keys))).
  assert (LA : length A = length keys) by (unfold A; rewrite (Permutation_length (P _)); apply seq_length).
  destruct (Nat.eq_dec i j) as [->|N]; [apply dle_refl|].
  apply (strongly_sorted_nth (kle keys) A 0%nat (S _) i j). lia.
Qed.
