(* C14/Props.v -- the property theorems, and nothing else.
   export_with tinds cinds x factor rate is the model of everything EphysAlfCreator.convert() writes as VALUES
   (PV.C14.Model), given the channel rows chosen by the two np.argsort loops; export argsort x factor rate is the
   exporter with an argsort oracle.  Stored arrays over Z, results over QN = option Q (None = NaN), every size. *)
From Coq Require Import ZArith QArith List Bool Arith Lia.
From PV Require C12.Model.
From PV Require Import C09.Model C09.Spec C14.Model C14.Spec C14.Proofs1 C14.Proofs2 C14.Proofs3 C14.Proofs4
                       C14.Proofs5 C14.Proofs6 C14.Proofs7 C14.Proofs8 C14.Proofs9 C14.Proofs10.
Import ListNotations.
Open Scope Z_scope.

(* Exported template AND cluster waveforms: for waveform n (stored, whitened, as t), with v the mean scaled
   amplitude of its member spikes before the unit factor (the exported templates.amps / clusters.amps entry is
   v * factor) and au the largest channel peak-to-peak of the unwhitened waveform, the value in sample s,
   column j is   (sum_k t[s][k] * wmi[k][c]) * (v / au) * factor   where c is the channel listed in column j.
   For whatever channel rows the argsort loops produced (in particular those of export argsort). *)
Theorem C14_waveforms : forall tinds cinds x f r y, export_with tinds cinds x f r = Some y ->
  (forall n t inds, nth_error (x_tdata x) n = Some t -> nth_error tinds n = Some inds ->
     exists v au, IsPeakAmp (unwh (x_wmi x) t) (length t) (length (x_wmi x)) au /\
                  nth_error (y_tamps y) n = Some (q_mul v f) /\
                  Wave_Spec (x_wmi x) t v au f inds (nth n (y_twave y) [])) /\
  (forall n t inds, nth_error (x_cdata x) n = Some t -> nth_error cinds n = Some inds ->
     exists v au, IsPeakAmp (unwh (x_wmi x) t) (length t) (length (x_wmi x)) au /\
                  nth_error (y_camps y) n = Some (q_mul v f) /\
                  Wave_Spec (x_wmi x) t v au f inds (nth n (y_cwave y) [])).
Proof. exact waveforms_thm. Qed.
Print Assumptions C14_waveforms.

(* Listed channels, for EVERY function np.argsort may be (a sorting permutation; ties undetermined): one row
   per template / cluster; the row of waveform n is Listed_Spec for the peak channel p of the stored waveform
   (phylib's templates_channels / clusters_channels): min(n_closest_channels, n_channels) distinct channels,
   the channels of p's probe first, by non-decreasing L1 distance to p, none of the unlisted channels of the
   probe closer than a listed one (and no other-probe channel listed while one of the probe is not), p first
   whenever no other channel of the probe sits at p's position. *)
Theorem C14_channels : forall argsort, Argsort_ok argsort ->
  forall x f r y, export argsort x f r = Some y ->
  length (y_tchan y) = length (x_tdata x) /\ length (y_cchan y) = length (x_cdata x) /\
  (forall n t, nth_error (x_tdata x) n = Some t ->
     exists p, IsPeakChannel (entry t) (length t) (length (x_wmi x)) p /\
               Listed_Spec (x_pos x) (x_probes x) (length (x_wmi x)) (ncw_of x) p (nth n (y_tchan y) [])) /\
  (forall n t, nth_error (x_cdata x) n = Some t ->
     exists p, IsPeakChannel (entry t) (length t) (length (x_wmi x)) p /\
               Listed_Spec (x_pos x) (x_probes x) (length (x_wmi x)) (ncw_of x) p (nth n (y_cchan y) [])).
Proof. exact channels_thm14. Qed.
Print Assumptions C14_channels.

(* the contract assumed of argsort is met by a concrete (stable insertion) argsort: the theorem above is not vacuous *)
Theorem C14_argsort_contract_inhabited : Argsort_ok isort_arg.
Proof. exact isort_arg_ok. Qed.
Print Assumptions C14_argsort_contract_inhabited.

(* Amplitudes carry the unit factor: spikes.amps[k] = stored amplitude * largest peak-to-peak of the spike's
   unwhitened template * factor; templates.amps[n] * #members = sum of the members' spikes.amps (NaN without
   members); clusters.amps likewise over the cluster waveforms and spike_clusters (C09's statements, through
   the exporter). *)
Theorem C14_amp_units : forall tinds cinds x (factor : Q) r y, export_with tinds cinds x (Some factor) r = Some y ->
  Spec_spike_amps (t_amp_in x) factor (y_samps y) /\
  Spec_template_amps (t_amp_in x) (y_samps y) (y_tamps y) /\
  exists samps_c, Spec_spike_amps (c_amp_in x) factor samps_c /\ Spec_template_amps (c_amp_in x) samps_c (y_camps y).
Proof. exact amp_units_thm. Qed.
Print Assumptions C14_amp_units.

(* ... and the factor is a common factor: a conversion with unit factor f writes, entry by entry, the amplitudes of
   the conversion with factor 1 multiplied by f (NaN stays NaN) *)
Theorem C14_amp_factor : forall tinds cinds x (f : Q) r y1 yf,
  export_with tinds cinds x (Some 1%Q) r = Some y1 -> export_with tinds cinds x (Some f) r = Some yf ->
  scaled f (y_samps y1) (y_samps yf) /\ scaled f (y_tamps y1) (y_tamps yf) /\ scaled f (y_camps y1) (y_camps yf).
Proof. exact factor_thm. Qed.
Print Assumptions C14_amp_factor.

(* clusters.depths[n] = y coordinate of the peak channel of cluster waveform n (= clusters.channels[n]) for every id
   that some spike carries, NaN for every id of range(n_clusters) that no spike carries -- curated or not.
   Loaded_ncl x: when some spike changed cluster, n_clusters = max(spike_clusters) + 1 (what _load_data sets;
   C08_merge_map_loaded); nothing is assumed of an uncurated dataset beyond the exporter's own asserts. *)
Theorem C14_cluster_depths : forall tinds cinds x f r y, export_with tinds cinds x f r = Some y ->
  Loaded_ncl x ->
  length (y_cdepths y) = length (x_cdata x) /\ length (y_cpeak y) = length (x_cdata x) /\
  forall n t, nth_error (x_cdata x) n = Some t ->
    exists c, IsPeakChannel (entry t) (length t) (length (x_wmi x)) c /\
              nth_error (y_cpeak y) n = Some (Z.of_nat c) /\
              (In (Z.of_nat n) (x_sc x) -> nth_error (y_cdepths y) n = Some (Some (inject_Z (posy (x_pos x) c)))) /\
              (~ In (Z.of_nat n) (x_sc x) -> nth_error (y_cdepths y) n = Some None).
Proof. exact cluster_depths_spikes_thm. Qed.
Print Assumptions C14_cluster_depths.

(* the same on the ids alf.py marks (model.nan_idx as _load_data leaves it), with no hypothesis on n_clusters *)
Theorem C14_cluster_depths_marked : forall tinds cinds x f r y, export_with tinds cinds x f r = Some y ->
  length (y_cdepths y) = length (x_cdata x) /\ length (y_cpeak y) = length (x_cdata x) /\
  forall n t, nth_error (x_cdata x) n = Some t ->
    exists c, IsPeakChannel (entry t) (length t) (length (x_wmi x)) c /\
              nth_error (y_cpeak y) n = Some (Z.of_nat c) /\
              nth_error (y_cdepths y) n =
              Some (if memZ (Z.of_nat n) (model_nan_idx (x_ncl x) (x_st x) (x_sc x)) then None
                    else Some (inject_Z (posy (x_pos x) c))).
Proof. exact cluster_depths_thm. Qed.
Print Assumptions C14_cluster_depths_marked.

(* the ids set to NaN = model.nan_idx: get_merge_map's nan_idx (transcribed with its dictionary and loops) when some
   spike changed cluster -- exactly the ids 0 .. max(spike_clusters) that no spike carries; np.setdiff1d(np.arange(
   n_clusters), spike_clusters) when none did (repaired, fix-c14b) -- exactly the ids of range(n_clusters) that no spike
   carries; hence, with the n_clusters the loader sets, in BOTH cases exactly the ids of range(n_clusters) without spikes *)
Theorem C14_nan_ids : forall ncl st sc, length sc = length st -> (forall s, In s sc -> 0 <= s) ->
  (sc = st -> forall c, In c (model_nan_idx ncl st sc) <-> 0 <= c < ncl /\ ~ In c sc) /\
  (sc <> st -> forall c, In c (model_nan_idx ncl st sc) <-> 0 <= c <= lmax sc /\ ~ In c sc) /\
  ((sc <> st -> ncl = lmax sc + 1) ->
   forall c, In c (model_nan_idx ncl st sc) <-> 0 <= c < ncl /\ ~ In c sc).
Proof. exact model_nan_idx_thm. Qed.
Print Assumptions C14_nan_ids.

(* why the repair was needed: before it an uncurated dataset marked nothing, although id 2 of 0..3 has no spike *)
Theorem C14_nan_ids_old_refuted : exists ncl st sc,
  sc = st /\ model_nan_idx_old st sc = [] /\ model_nan_idx ncl st sc = [2] /\ ~ In 2 sc /\ 0 <= 2 < ncl.
Proof. exact setdiff_arange_old_differs. Qed.
Print Assumptions C14_nan_ids_old_refuted.

(* spikes.depths: with a feature row per spike, C09's feature-weighted depth (depth * sum w = sum y * w,
   NaN iff sum w = 0); without features, or with features for a subset of the spikes, the depth of the
   spike's cluster *)
Theorem C14_spike_depths : forall tinds cinds x f r y, export_with tinds cinds x f r = Some y ->
  match x_feat x with
  | Some (data, cols) =>
      if Nat.eqb (length data) (Z.to_nat (x_nspikes x))
      then (forall s, In s data -> (1 <= length s)%nat) -> Spec_depths (x_depth_in x) data cols (y_sdepths y)
      else True
  | None => True
  end /\
  ((match x_feat x with Some (data, _) => length data <> Z.to_nat (x_nspikes x) | None => True end) ->
   length (y_sdepths y) = length (x_sc x) /\
   forall k s, nth_error (x_sc x) k = Some s ->
               nth_error (y_sdepths y) k = nth_error (y_cdepths y) (Z.to_nat s)).
Proof. exact spike_depths_thm. Qed.
Print Assumptions C14_spike_depths.

(* clusters.peakToTrough[n] = (first arg-max - first arg-min over the samples of the peak channel) / rate * 1000 for
   every id that some spike carries, NaN for every id of range(n_clusters) that no spike carries -- curated or not *)
Theorem C14_durations : forall tinds cinds x f (rate : Q) y, ~ (rate == 0)%Q ->
  export_with tinds cinds x f (Some rate) = Some y -> Loaded_ncl x ->
  length (y_p2t y) = length (x_cdata x) /\
  forall n t, nth_error (x_cdata x) n = Some t ->
    (~ In (Z.of_nat n) (x_sc x) -> nth_error (y_p2t y) n = Some None) /\
    (In (Z.of_nat n) (x_sc x) ->
     exists c imax imin q, IsPeakChannel (entry t) (length t) (length (x_wmi x)) c /\
       IsArgmaxFirst imax (column (entry t) (length t) c) /\
       IsArgminFirst imin (column (entry t) (length t) c) /\
       nth_error (y_p2t y) n = Some (Some q) /\
       (q == inject_Z (Z.of_nat imax - Z.of_nat imin) / rate * inject_Z 1000)%Q).
Proof. exact durations_spikes_thm. Qed.
Print Assumptions C14_durations.

(* the same on the marked ids, with no hypothesis on n_clusters *)
Theorem C14_durations_marked : forall tinds cinds x f (rate : Q) y, ~ (rate == 0)%Q ->
  export_with tinds cinds x f (Some rate) = Some y ->
  length (y_p2t y) = length (x_cdata x) /\
  forall n t, nth_error (x_cdata x) n = Some t ->
    if memZ (Z.of_nat n) (model_nan_idx (x_ncl x) (x_st x) (x_sc x)) then nth_error (y_p2t y) n = Some None
    else exists c imax imin q, IsPeakChannel (entry t) (length t) (length (x_wmi x)) c /\
           IsArgmaxFirst imax (column (entry t) (length t) c) /\
           IsArgminFirst imin (column (entry t) (length t) c) /\
           nth_error (y_p2t y) n = Some (Some q) /\
           (q == inject_Z (Z.of_nat imax - Z.of_nat imin) / rate * inject_Z 1000)%Q.
Proof. exact durations_thm14. Qed.
Print Assumptions C14_durations_marked.

(* Raw indices: make_channel_objects (repaired) applied to what Merger.write_channel_data (C12's model
   channel_data) wrote for the probe channel maps cms -- ANY number of probes, any integer maps -- gives back the
   concatenation of the probes' own maps, and restricted to probe k it is probe k's map *)
Theorem C14_rawind : forall (cms : list (list Z)) (co : C12.Model.chan_out),
  C12.Model.channel_data cms = Some co ->
  raw_ind (C12.Model.co_probe co) (C12.Model.co_map co) = concat cms /\
  forall k, (k < length cms)%nat ->
    sel (C12.Model.co_probe co) (raw_ind (C12.Model.co_probe co) (C12.Model.co_map co)) (Z.of_nat k) = nth k cms [].
Proof.
  intros cms co H. split; [now apply rawind_thm|]. intros k Hk. now apply rawind_per_probe_thm.
Qed.
Print Assumptions C14_rawind.

(* ... and that is what the exporter writes as channels.rawInd for a loaded merged dataset *)
Theorem C14_export_rawind : forall tinds cinds x f r y (cms : list (list Z)) (co : C12.Model.chan_out),
  export_with tinds cinds x f r = Some y -> C12.Model.channel_data cms = Some co ->
  x_probes x = C12.Model.co_probe co -> x_cmap x = C12.Model.co_map co ->
  y_rawind y = concat cms.
Proof.
  intros tinds cinds x f r y cms co H Hc Ep Em.
  destruct (export_with_inv _ _ _ _ _ _ H) as (a & b & c & d & E).
  rewrite (ex_raw _ _ _ _ _ _ _ _ _ _ E), Ep, Em. now apply rawind_thm.
Qed.
Print Assumptions C14_export_rawind.

(* Why the repair was needed: the arithmetic before the fix commit (channel_offset += max) does not invert the
   merge from the third probe on -- the witness of DESIGN.md section 9 *)
Theorem C14_rawind_old_refuted : exists (cms : list (list Z)) (co : C12.Model.chan_out),
  C12.Model.channel_data cms = Some co /\
  raw_ind_old (C12.Model.co_probe co) (C12.Model.co_map co) <> concat cms.
Proof.
  exists [[2; 0; 1]; [1; 3; 0; 2]; [0; 1]].
  eexists. split; [vm_compute; reflexivity|]. vm_compute. discriminate.
Qed.
Print Assumptions C14_rawind_old_refuted.

(* the boolean checker Corr.v evaluates on the observed channel rows (clause 22) implies the reading of
   DESIGN.md section 8: the row starts with distinct channels of the peak channel's probe, in distance order, the
   nearest ones, as many as fit or all of them, peak first; later columns are not judged *)
Theorem C14_channels_checker_sound : forall pos probes nc ncw p row,
  listed_b pos probes nc ncw p row = true -> Listed_Prefix pos probes nc ncw p row.
Proof. exact listed_b_sound. Qed.
Print Assumptions C14_channels_checker_sound.

(* ---- stage 3 ---- *)

(* Totality / error exits.  The exporter model fails (None = an assert of alf.py or a NumPy shape / index error)
   EXACTLY outside the guards: wf_alf (alf.py's two asserts n_templates == model.n_templates and n_clusters ==
   model.n_clusters, one probe id / map entry / (x, y) position per channel, spike_clusters in range(n_clusters),
   nan_idx in range), C09's wf_amp for get_amplitudes_true on the template side and on the cluster side, and C09's
   wf_depth for get_depths.  For every argsort whatsoever (no contract needed), every factor and rate (NaN included),
   every size -- the batch loop of get_depths (50 000 spikes per batch) ends for every number of spikes. *)
Theorem C14_export_total : forall argsort x f r,
  (exists y, export argsort x f r = Some y) <->
  wf_alf x && wf_amp (t_amp_in x) && wf_amp (c_amp_in x) && wf_depth (x_depth_in x) = true.
Proof. intros argsort x f r. unfold export. apply export_with_total. Qed.
Print Assumptions C14_export_total.

(* ... and the same for whatever channel rows are given (the term Corr.v evaluates on the observed rows) *)
Theorem C14_export_with_total : forall tinds cinds x f r,
  (exists y, export_with tinds cinds x f r = Some y) <->
  wf_alf x && wf_amp (t_amp_in x) && wf_amp (c_amp_in x) && wf_depth (x_depth_in x) = true.
Proof. exact export_with_total. Qed.
Print Assumptions C14_export_with_total.

(* Per-spike files of a periodic dataset (what Corr.v's InAlfBig relies on for datasets of more than 50 000 spikes).
   [tile d l n] = l repeated up to n entries.  If spike j of an n-spike dataset has the feature row and the template of
   spike j mod k of a k-spike dataset i (same feature channels, same positions), get_depths returns the result of i
   repeated -- for EVERY batch size, so in particular across the 50 000-spike batch boundaries of the real code. *)
Theorem C14_depths_periodic : forall (i : depth_in) (data : list mat) (cols : mat) (nbatch : Z) (out : list QN) (n : nat),
  wf_depth i = true -> di_feat i = Some (data, cols) -> length data = Z.to_nat (di_nspikes i) -> (1 <= length data)%nat ->
  1 <= nbatch -> get_depths_Q nbatch i = Some (Some out) ->
  get_depths_Q nbatch (tile_depth_in i data cols n) = Some (Some (tile None out n)).
Proof. intros i data cols nbatch out n Hwf Hf Hl Hk. exact (depths_periodic i data cols Hwf Hf Hl Hk nbatch out n). Qed.
Print Assumptions C14_depths_periodic.

(* ... and the scaled spike amplitudes (templates_amps_au[spike_templates] * amplitudes, before the unit factor) of the
   periodic assignment are the period's, repeated *)
Theorem C14_spike_amps_periodic : forall (ai : amp_in) (n : nat),
  length (ai_amps ai) = length (ai_spikes ai) -> (1 <= length (ai_spikes ai))%nat ->
  spike_amps_Z (mk_amp_in (ai_data ai) (ai_wmi ai) (tile 0 (ai_spikes ai) n) (tile 0 (ai_amps ai) n) (ai_nwav ai))
  = tile 0 (spike_amps_Z ai) n.
Proof. exact spike_amps_periodic. Qed.
Print Assumptions C14_spike_amps_periodic.

(* ---- non-vacuity: concrete, non-trivial instances ---- *)
Definition qred (x : QN) : QN := match x with Some q => Some (Qred q) | None => None end.
(* 3 templates x 2 samples x 4 channels; channels 0,1,2 form a column on probe 0 (channel 1 in the middle: a
   distance tie between 0 and 2), channel 3 is on probe 1; the spike of template 2 was moved to cluster 4, so
   cluster ids 2 and 3 have no spike; inverse whitening matrix not symmetric; factor 2.5, rate 1000 *)
Definition ex_x : alf_in := mk_alf_in
  [ [[0; 4; 0; 0]; [0; -2; 1; 0]] ; [[3; 0; 0; 0]; [-3; 1; 0; 0]] ; [[0; 0; 0; 5]; [0; 0; 0; -1]] ]
  [ [[0; 4; 0; 0]; [0; -2; 1; 0]] ; [[3; 0; 0; 0]; [-3; 1; 0; 0]] ; [[0; 0; 0; 0]; [0; 0; 0; 0]] ;
    [[0; 0; 0; 0]; [0; 0; 0; 0]] ; [[0; 0; 0; 5]; [0; 0; 0; -1]] ]
  [[1; 0; 0; 0]; [0; 2; 0; 0]; [0; 1; 1; 0]; [0; 0; 0; 1]]
  [0; 1; 2; 0] [0; 1; 4; 0] [2; 3; 1; 4] 3 5
  [0; 0; 0; 1] [[0; 20]; [0; 40]; [0; 60]; [32; 0]] [2; 0; 1; 3]
  None 4 12.
Definition ex_y := export isort_arg ex_x (Some (5 # 2)) (Some (inject_Z 1000)).
Example C14_ex_channels_rawind :
  option_map (fun y => (y_tchan y, y_cpeak y, y_rawind y)) ex_y =
  Some ([[1; 0; 2; 3]; [0; 1; 2; 3]; [3; 0; 1; 2]]%nat, [1; 0; 0; 0; 3], [2; 0; 1; 1]).
Proof. vm_compute. reflexivity. Qed.
Example C14_ex_amps :
  option_map (fun y => (map qred (y_samps y), map qred (y_tamps y), map qred (y_camps y))) ex_y =
  Some ([Some 55; Some 45; Some 15; Some 110], [Some (165 # 2); Some 45; Some 15],
        [Some (165 # 2); Some 45; None; None; Some 15])%Q.
Proof. vm_compute. reflexivity. Qed.
Example C14_ex_depths_durations :
  option_map (fun y => (map qred (y_p2t y), map qred (y_cdepths y), map qred (y_sdepths y))) ex_y =
  Some ([Some (-1 # 1); Some (-1 # 1); None; None; Some (-1 # 1)], [Some 40; Some 20; None; None; Some 0],
        [Some 40; Some 20; Some 0; Some 40])%Q.
Proof. vm_compute. reflexivity. Qed.
Example C14_ex_waveform :      (* template 0 on its listed channels [1; 0; 2; 3] *)
  option_map (fun y => map (map qred) (nth 0 (y_twave y) [])) ex_y =
  Some [[Some 60; Some 0; Some 0; Some 0]; [Some (-45 # 2); Some 0; Some (15 # 2); Some 0]]%Q.
Proof. vm_compute. reflexivity. Qed.
Example C14_ex_nan_ids : model_nan_idx (x_ncl ex_x) (x_st ex_x) (x_sc ex_x) = [2; 3] /\ Loaded_ncl ex_x.
Proof. split; [vm_compute; reflexivity|]. intros _. reflexivity. Qed.
(* the UNCURATED counterpart: 4 templates, spikes on templates 0, 1 and 3 only (no spike_clusters file): id 2 has
   NaN depth, duration and amplitude; the ids with spikes keep the values of their template *)
Definition ex_u : alf_in := mk_alf_in
  [ [[0; 4; 0; 0]; [0; -2; 1; 0]] ; [[3; 0; 0; 0]; [-3; 1; 0; 0]] ; [[0; 0; 6; 0]; [0; 0; -6; 0]] ; [[0; 0; 0; 5]; [0; 0; 0; -1]] ]
  [ [[0; 4; 0; 0]; [0; -2; 1; 0]] ; [[3; 0; 0; 0]; [-3; 1; 0; 0]] ; [[0; 0; 6; 0]; [0; 0; -6; 0]] ; [[0; 0; 0; 5]; [0; 0; 0; -1]] ]
  [[1; 0; 0; 0]; [0; 2; 0; 0]; [0; 1; 1; 0]; [0; 0; 0; 1]]
  [0; 1; 3; 0] [0; 1; 3; 0] [2; 3; 1; 4] 4 4
  [0; 0; 0; 1] [[0; 20]; [0; 40]; [0; 60]; [32; 0]] [2; 0; 1; 3]
  None 4 12.
Example C14_ex_uncurated :
  option_map (fun y => (map qred (y_p2t y), map qred (y_cdepths y), map qred (y_camps y), map qred (y_sdepths y)))
             (export isort_arg ex_u (Some 1%Q) (Some (inject_Z 1000))) =
  Some ([Some (-1 # 1); Some (-1 # 1); None; Some (-1 # 1)], [Some 40; Some 20; None; Some 0],
        [Some 33; Some 18; None; Some 6], [Some 40; Some 20; Some 0; Some 40])%Q /\
  model_nan_idx (x_ncl ex_u) (x_st ex_u) (x_sc ex_u) = [2] /\ Loaded_ncl ex_u /\ x_sc ex_u = x_st ex_u.
Proof. split; [vm_compute; reflexivity|]. split; [vm_compute; reflexivity|]. split; [intros N; now elim N|reflexivity]. Qed.
Example C14_ex_three_probes :
  option_map (fun co => (C12.Model.co_map co, C12.Model.co_probe co,
                         raw_ind (C12.Model.co_probe co) (C12.Model.co_map co),
                         raw_ind_old (C12.Model.co_probe co) (C12.Model.co_map co)))
             (C12.Model.channel_data [[2; 0; 1]; [1; 3; 0; 2]; [0; 1]]) =
  Some ([2; 0; 1; 3; 5; 2; 4; 5; 6], [0; 0; 0; 1; 1; 1; 1; 2; 2], [2; 0; 1; 1; 3; 0; 2; 0; 1], [2; 0; 1; 1; 3; 0; 2; -2; -1]).
Proof. vm_compute. reflexivity. Qed.
Example C14_ex_checker :       (* tie between channels 0 and 2: either order passes; a far channel before a near one does not *)
  listed_b (x_pos ex_x) (x_probes ex_x) 4 4 1 [1; 0; 2; 3] = true /\
  listed_b (x_pos ex_x) (x_probes ex_x) 4 4 1 [1; 2; 0; 3] = true /\
  listed_b (x_pos ex_x) (x_probes ex_x) 4 4 0 [0; 2; 1; 3] = false /\
  listed_b (x_pos ex_x) (x_probes ex_x) 4 4 1 [0; 1; 2; 3] = false /\
  listed_b (x_pos ex_x) (x_probes ex_x) 4 4 3 [3; 2; 0; 1] = true.
Proof. vm_compute. repeat split. Qed.

(* stage 3: the guards hold on ex_x (the exporter returns); with n_templates = 4 for 3 stored templates alf.py's assert fires *)
Definition ex_bad : alf_in :=
  mk_alf_in (x_tdata ex_x) (x_cdata ex_x) (x_wmi ex_x) (x_st ex_x) (x_sc ex_x) (x_amps ex_x) 4 (x_ncl ex_x)
            (x_probes ex_x) (x_pos ex_x) (x_cmap ex_x) (x_feat ex_x) (x_nspikes ex_x) (x_nclosest ex_x).
Example C14_ex_total :
  wf_alf ex_x && wf_amp (t_amp_in ex_x) && wf_amp (c_amp_in ex_x) && wf_depth (x_depth_in ex_x) = true /\
  wf_alf ex_bad = false /\ export isort_arg ex_bad (Some 1%Q) (Some 1%Q) = None.
Proof. vm_compute. repeat split. Qed.
(* a period of 3 spikes (spike 1 has no positive feature: NaN), repeated to 7 spikes, batch size 2: the batches cut the
   periods at every position *)
Definition ex_per : depth_in :=
  mk_depth_in 3 (Some ([ [[2; 9]; [-1; 9]; [2; 9]]; [[0; 1]; [-3; 1]; [-4; 1]]; [[1; 0]; [1; 0]; [0; 0]] ],
                       [[0; 1; 2]; [2; 1; 0]])) [0; 1; 0] [[0; 10]; [0; 20]; [0; 30]].
Example C14_ex_periodic :
  option_map (option_map (map qred)) (get_depths_Q 2 ex_per) = Some (Some [Some 20; None; Some 15]%Q) /\
  option_map (option_map (map qred))
    (get_depths_Q 2 (tile_depth_in ex_per [ [[2; 9]; [-1; 9]; [2; 9]]; [[0; 1]; [-3; 1]; [-4; 1]]; [[1; 0]; [1; 0]; [0; 0]] ]
                                   [[0; 1; 2]; [2; 1; 0]] 7)) =
  Some (Some [Some 20; None; Some 15; Some 20; None; Some 15; Some 20]%Q).
Proof. vm_compute. split; reflexivity. Qed.
