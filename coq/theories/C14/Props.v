(* C14/Props.v -- the property theorems, and nothing else. *)
From Coq Require Import ZArith QArith List Bool Arith Lia.
From PV Require Import C09.Model C09.Spec C14.Model C14.Spec C14.Proofs1.
Import ListNotations.
Open Scope Z_scope.

Theorem C14_set_nan : forall idx (l : list QN) n v, nth_error l n = Some v ->
  nth_error (set_nan idx l) n = Some (if memZ (Z.of_nat n) idx then None else v).
Proof. exact set_nan_nth. Qed.
Print Assumptions C14_set_nan.
