(* C14/Model.v -- executable model of the VALUES written by phylib.io.alf.EphysAlfCreator
   (make_cluster_objects, make_channel_objects, make_template_and_spikes_objects, make_depths), on the
   arrays of the loaded TemplateModel.  Which files / shapes / dtypes are written is C13's model; the
   sources get_amplitudes_true, _channels, _waveform_durations, get_depths are C09's model (PV.C09.Model,
   exact-rational instance: QN = option Q, None = NaN) and are called here exactly where alf.py calls them.
   make_channel_objects is modelled AS REPAIRED on branch fix-c14 (the offset of the next probe is the
   maximum of this probe's channel map, as in Merger.write_channel_data -- not an increment), and the
   nan_idx of _load_data AS REPAIRED on branch fix-c14b (the ids without spikes in BOTH branches).

   np.argsort (default kind: not stable) is an oracle: a Section variable; the theorems assume only that
   it returns a sorting permutation.  Where NumPy / an assert of alf.py raises, the model returns None.
   No proofs here. *)
From Coq Require Import ZArith QArith List Bool.
From PV Require Export C09.Model.
Import ListNotations.
Open Scope Z_scope.

(* ---------- distances with the "other probe" penalty ---------- *)
(* channel_distance = sum(abs(pos - pos[peak]), axis=1); channel_distance[probes != probe[peak]] += inf *)
Inductive dkey := Fin (d : Z) | Inf.
Definition dle (a b : dkey) : bool :=
  match a, b with
  | Fin x, Fin y => x <=? y
  | _, Inf => true
  | Inf, Fin _ => false
  end.
Definition l1row (a b : list Z) : Z := zsum (map2 (fun x y => Z.abs (x - y)) a b).
Definition chan_l1 (pos : mat) (p c : nat) : Z := l1row (nth c pos []) (nth p pos []).
Definition chan_key (pos : mat) (probes : list Z) (p c : nat) : dkey :=
  if nth c probes 0 =? nth p probes 0 then Fin (chan_l1 pos p c) else Inf.
Definition dist_keys (pos : mat) (probes : list Z) (nc p : nat) : list dkey :=
  map (chan_key pos probes p) (seq 0 nc).

(* ---------- get_merge_map (phylib/io/model.py), the part alf.py uses: nan_idx ---------- *)
(* inverse_mapping_dict = {key: [] for key in range(max(spike_clusters) + 1)}
   for temp in unique(spike_templates):
       for n in unique(spike_clusters[spike_templates == temp]): inverse_mapping_dict[n].append(temp)
   nan_idx = [idx for idx, val in items if len(val) == 0] *)
Fixpoint app_nth (d : list (list Z)) (i : nat) (v : Z) : list (list Z) :=
  match d, i with
  | [], _ => []
  | x :: r, O => (x ++ [v]) :: r
  | x :: r, S k => x :: app_nth r k v
  end.
Definition merge_map (st sc : list Z) : list (list Z) :=
  fold_left (fun d temp =>
               fold_left (fun d' n => app_nth d' (Z.to_nat n) temp)
                         (np_unique (map snd (filter (fun p => fst p =? temp) (combine st sc)))) d)
            (np_unique st) (repeat [] (Z.to_nat (lmax sc + 1))).
Definition is_nil {A} (l : list A) : bool := match l with [] => true | _ => false end.
Definition nan_idx (st sc : list Z) : list Z :=
  let mm := merge_map st sc in
  map Z.of_nat (filter (fun c => is_nil (nth c mm [])) (seq 0 (length mm))).
Fixpoint zl_eq (a b : list Z) : bool :=
  match a, b with
  | [], [] => true
  | x :: a', y :: b' => (x =? y) && zl_eq a' b'
  | _, _ => false
  end.
(* _load_data: the cluster waveforms are recomputed (and nan_idx taken from get_merge_map) iff some spike changed
   cluster; otherwise (AS REPAIRED on branch fix-c14b; before the repair: nan_idx = [])
       self.n_clusters = self.n_templates
       self.nan_idx = np.setdiff1d(np.arange(self.n_clusters, dtype=np.int64), self.spike_clusters)
   i.e. the ids of range(n_clusters) that no spike carries, increasing *)
Definition curated (st sc : list Z) : bool := negb (zl_eq sc st).
Definition memZ (z : Z) (l : list Z) : bool := existsb (Z.eqb z) l.
Definition setdiff_arange (ncl : Z) (sc : list Z) : list Z :=
  map Z.of_nat (filter (fun c => negb (memZ (Z.of_nat c) sc)) (seq 0 (Z.to_nat ncl))).
Definition model_nan_idx (ncl : Z) (st sc : list Z) : list Z :=
  if curated st sc then nan_idx st sc else setdiff_arange ncl sc.
(* the code before the repair *)
Definition model_nan_idx_old (st sc : list Z) : list Z := if curated st sc then nan_idx st sc else [].

(* arr[nan_idx] = np.nan *)
Definition set_at {A} (d : A) (idx : list Z) (l : list A) : list A :=
  map (fun p => if memZ (Z.of_nat (fst p)) idx then d else snd p) (combine (seq 0 (length l)) l).
Definition set_nan (idx : list Z) (l : list QN) : list QN := set_at (None : QN) idx l.

(* ---------- make_channel_objects (repaired) ---------- *)
(* np.unique on Z: C09's np_unique (sort, drop repeats) *)
Definition sel (probes cmap : list Z) (p : Z) : list Z :=
  map snd (filter (fun pc => fst pc =? p) (combine probes cmap)).
(* for probe in unique(probes): rawInd[ind] = cmap[ind] - off ; off = max(cmap[ind]) *)
Fixpoint probe_offsets (ps : list Z) (probes cmap : list Z) (off : Z) : list (Z * Z) :=
  match ps with
  | [] => []
  | p :: r => (p, off) :: probe_offsets r probes cmap (lmax (sel probes cmap p))
  end.
Fixpoint zassoc (k : Z) (l : list (Z * Z)) : Z :=
  match l with [] => 0 | (k', v) :: r => if k =? k' then v else zassoc k r end.
Definition raw_ind (probes cmap : list Z) : list Z :=
  let offs := probe_offsets (np_unique probes) probes cmap 0 in
  map (fun pc => snd pc - zassoc (fst pc) offs) (combine probes cmap).
(* the code before the repair: channel_offset += max(...) *)
Fixpoint probe_offsets_old (ps : list Z) (probes cmap : list Z) (off : Z) : list (Z * Z) :=
  match ps with
  | [] => []
  | p :: r => (p, off) :: probe_offsets_old r probes cmap (off + lmax (sel probes cmap p))
  end.
Definition raw_ind_old (probes cmap : list Z) : list Z :=
  let offs := probe_offsets_old (np_unique probes) probes cmap 0 in
  map (fun pc => snd pc - zassoc (fst pc) offs) (combine probes cmap).

(* ---------- the loaded model and the exported values ---------- *)
Record alf_in := mk_alf_in {
  x_tdata : list mat;       (* sparse_templates.data [t][s][c] *)
  x_cdata : list mat;       (* sparse_clusters.data *)
  x_wmi : mat;
  x_st : list Z; x_sc : list Z; x_amps : list Z;
  x_nt : Z; x_ncl : Z;      (* n_templates, n_clusters *)
  x_probes : list Z;        (* channel_probes *)
  x_pos : mat;              (* channel_positions, rows (x, y) *)
  x_cmap : list Z;          (* channel_mapping *)
  x_feat : option (list mat * mat);
  x_nspikes : Z;
  x_nclosest : Z            (* n_closest_channels (class attribute, 12) *)
}.
Record alf_out := mk_alf_out {
  y_twave : list (list (list QN));   (* templates.waveforms [t][s][j] *)
  y_tchan : list (list nat);         (* templates.waveformsChannels [t][j] *)
  y_cwave : list (list (list QN));   (* clusters.waveforms *)
  y_cchan : list (list nat);         (* clusters.waveformsChannels *)
  y_samps : list QN;                 (* spikes.amps *)
  y_tamps : list QN;                 (* templates.amps *)
  y_camps : list QN;                 (* clusters.amps (the second write, which replaces the first) *)
  y_cpeak : list Z;                  (* clusters.channels *)
  y_p2t : list QN;                   (* clusters.peakToTrough *)
  y_cdepths : list QN;               (* clusters.depths *)
  y_sdepths : list QN;               (* spikes.depths *)
  y_rawind : list Z                  (* channels.rawInd *)
}.

Definition t_amp_in (x : alf_in) : amp_in := mk_amp_in (x_tdata x) (x_wmi x) (x_st x) (x_amps x) (x_nt x).
Definition c_amp_in (x : alf_in) : amp_in := mk_amp_in (x_cdata x) (x_wmi x) (x_sc x) (x_amps x) (x_ncl x).
Definition x_depth_in (x : alf_in) : depth_in := mk_depth_in (x_nspikes x) (x_feat x) (x_st x) (x_pos x).

(* what the asserts of alf.py and NumPy's shape rules require beyond C09's guards *)
Definition wf_alf (x : alf_in) : bool :=
  let nc := length (x_wmi x) in
  Nat.eqb (length (x_probes x)) nc && Nat.eqb (length (x_cmap x)) nc &&
  Nat.eqb (length (x_pos x)) nc && forallb (fun r => Nat.eqb (length r) 2) (x_pos x) &&
  (zlen (x_tdata x) =? x_nt x) &&                        (* assert n_templates == self.model.n_templates *)
  (zlen (x_cdata x) =? x_ncl x) &&                       (* assert n_clusters == self.model.n_clusters *)
  forallb (fun s => (0 <=? s) && (s <? x_ncl x)) (x_sc x) &&
  Nat.eqb (length (x_sc x)) (length (x_st x)) &&
  (0 <=? x_nclosest x) &&
  forallb (fun i => (0 <=? i) && (i <? x_ncl x)) (model_nan_idx (x_ncl x) (x_st x) (x_sc x)).

(* templates[t, ...] = templates_v[t, :][:, templates_inds[t, :]] *)
Definition take_cols {A} (d : A) (inds : list nat) (T : list (list A)) : list (list A) :=
  map (fun row => map (fun c => nth c row d) inds) T.
Definition posy (pos : mat) (c : nat) : Z := nth 1 (nth c pos []) 0.

(* ncw = min(self.model.n_closest_channels, nchall) *)
Definition ncw_of (x : alf_in) : nat := Z.to_nat (Z.min (x_nclosest x) (Z.of_nat (length (x_wmi x)))).

(* everything convert() writes, given the channel lists chosen by the two argsort loops *)
Definition export_with (tinds cinds : list (list nat)) (x : alf_in) (factor rate : QN) : option alf_out :=
  let nc := length (x_wmi x) in
  if negb (wf_alf x) then None else
  match amplitudes_true_Q (t_amp_in x) factor, amplitudes_true_Q (c_amp_in x) factor,
        waveform_durations_Q nc (x_cdata x) rate, get_depths_Q NBATCH (x_depth_in x) with
  | Some amp_t, Some amp_c, Some dur, Some dep =>
      (* clusters_channels: peak channels of the STORED (whitened) cluster waveforms *)
      let cpk := peak_channels nc (x_cdata x) in
      let nan := model_nan_idx (x_ncl x) (x_st x) (x_sc x) in
      (* clusters_depths = channel_positions[cluster_channels, 1]; clusters_depths[nan_idx] = nan *)
      let cdep := set_nan nan (map (fun c => q_ofZ (posy (x_pos x) c)) cpk) in
      Some (mk_alf_out
              (map2 (take_cols None) tinds (ao_phys amp_t)) tinds
              (map2 (take_cols None) cinds (ao_phys amp_c)) cinds
              (ao_spike amp_t) (ao_tamps amp_t) (ao_tamps amp_c)
              (map Z.of_nat cpk)
              (set_nan nan dur)                                           (* waveform_duration[nan_idx] = nan *)
              cdep
              (match dep with
               | Some l => l                                              (* get_depths() *)
               | None => map (fun s => nth (Z.to_nat s) cdep None) (x_sc x)   (* clusters_depths[spike_clusters] *)
               end)
              (raw_ind (x_probes x) (x_cmap x)))
  | _, _, _, _ => None
  end.

Section Export.
Variable argsort : list dkey -> list nat.

(* np.argsort(channel_distance)[:ncw], for the waveform whose peak channel is p *)
Definition listed (pos : mat) (probes : list Z) (nc ncw p : nat) : list nat :=
  firstn ncw (argsort (dist_keys pos probes nc p)).
(* the loops "for t in arange(n_templates)" / "for t in arange(n_clusters)": peak channel from
   templates_channels / clusters_channels, i.e. from the STORED (whitened) waveforms *)
Definition inds_of (x : alf_in) (data : list mat) : list (list nat) :=
  let nc := length (x_wmi x) in
  map (listed (x_pos x) (x_probes x) nc (ncw_of x)) (peak_channels nc data).

Definition export (x : alf_in) (factor rate : QN) : option alf_out :=
  export_with (inds_of x (x_tdata x)) (inds_of x (x_cdata x)) x factor rate.
End Export.
