(* C14/Proofs8.v -- the unit factor is a common factor of the exported amplitudes: converting with factor f
   gives the values of a conversion with factor 1, times f. *)
From Coq Require Import ZArith QArith List Bool Arith Lia.
From PV Require Import C09.Model C09.Spec C09.Proofs C09.Proofs2 C14.Model C14.Spec C14.Proofs1 C14.Proofs4.
Import ListNotations.
Open Scope Z_scope.

(* equality of results: both NaN, or equal rationals *)
Definition QNeq (a b : QN) : Prop :=
  match a, b with Some x, Some y => (x == y)%Q | None, None => True | _, _ => False end.
Definition scaled (f : Q) (l1 lf : list QN) : Prop := Forall2 (fun a b => QNeq b (q_mul a (Some f))) l1 lf.

Lemma Forall2_map_same {A B} (R : B -> B -> Prop) (g h : A -> B) l :
  (forall x, R (g x) (h x)) -> Forall2 R (map g l) (map h l).
Proof. intros H. induction l as [|x r IH]; cbn [map]; constructor; auto. Qed.

Lemma amp_scaled (i : amp_in) (f : Q) o1 of_ :
  amplitudes_true_Q i (Some 1%Q) = Some o1 -> amplitudes_true_Q i (Some f) = Some of_ ->
  scaled f (ao_spike o1) (ao_spike of_) /\ scaled f (ao_tamps o1) (ao_tamps of_).
Proof.
  intros H1 Hf. destruct (amplitudes_true_Q_unfold _ _ _ H1) as (_ & S1 & T1 & _).
  destruct (amplitudes_true_Q_unfold _ _ _ Hf) as (_ & Sf & Tf & _).
  rewrite S1, T1, Sf, Tf. unfold out_spike, out_tamps, scaled. split.
  - apply Forall2_map_same. intros z. cbn [q_ofZ q_mul QNeq]. ring.
  - apply Forall2_map_same. intros [q|]; cbn [q_mul QNeq]; [ring|exact I].
Qed.

Theorem factor_thm : forall tinds cinds x (f : Q) r y1 yf,
  export_with tinds cinds x (Some 1%Q) r = Some y1 -> export_with tinds cinds x (Some f) r = Some yf ->
  scaled f (y_samps y1) (y_samps yf) /\ scaled f (y_tamps y1) (y_tamps yf) /\ scaled f (y_camps y1) (y_camps yf).
Proof.
  intros tinds cinds x f r y1 yf H1 Hf.
  destruct (export_with_inv _ _ _ _ _ _ H1) as (a1 & c1 & d1 & p1 & E1).
  destruct (export_with_inv _ _ _ _ _ _ Hf) as (af & cf & df & pf & Ef).
  rewrite (ex_samps _ _ _ _ _ _ _ _ _ _ E1), (ex_tamps _ _ _ _ _ _ _ _ _ _ E1), (ex_camps _ _ _ _ _ _ _ _ _ _ E1).
  rewrite (ex_samps _ _ _ _ _ _ _ _ _ _ Ef), (ex_tamps _ _ _ _ _ _ _ _ _ _ Ef), (ex_camps _ _ _ _ _ _ _ _ _ _ Ef).
  destruct (amp_scaled _ f _ _ (ex_at _ _ _ _ _ _ _ _ _ _ E1) (ex_at _ _ _ _ _ _ _ _ _ _ Ef)) as [A B].
  destruct (amp_scaled _ f _ _ (ex_ac _ _ _ _ _ _ _ _ _ _ E1) (ex_ac _ _ _ _ _ _ _ _ _ _ Ef)) as [_ C].
  repeat split; assumption.
Qed.
