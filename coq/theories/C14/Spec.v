(* C14/Spec.v -- the property, declaratively (nothing here mentions argsort, firstn, set_nan,
   probe_offsets or the export loops), and the boolean checkers Corr.v runs on observed files.

   Reading (DESIGN.md section 8, C14).  "Nearest channels on the same probe, peak channel first": the list
   is sorted by non-decreasing L1 distance to the peak channel, same-probe channels before all others,
   and no unlisted same-probe channel is closer than a listed one; the peak channel is first whenever
   no other channel of its probe sits at the same position (the loader guarantees distinct positions).
   When the probe has fewer channels than the exported width, what fills the remaining columns is not
   determined by the statement: the checker judges the same-probe prefix only. *)
From Coq Require Import ZArith QArith List Bool Arith Permutation.
From PV Require Import C09.Model C09.Spec C14.Model.
Import ListNotations.
Open Scope Z_scope.

(* what NumPy guarantees of np.argsort (default kind): a permutation of the positions that sorts the keys *)
Definition Argsort_ok (argsort : list dkey -> list nat) : Prop :=
  forall l, Permutation (argsort l) (seq 0 (length l)) /\
            forall i j, (i <= j < length l)%nat ->
                        dle (nth (nth i (argsort l) 0%nat) l Inf) (nth (nth j (argsort l) 0%nat) l Inf) = true.

(* ---------- listed channels ---------- *)
Definition same_probe (probes : list Z) (p c : nat) : Prop := nth c probes 0 = nth p probes 0.
Record Listed_Spec (pos : mat) (probes : list Z) (nc ncw p : nat) (inds : list nat) : Prop := {
  ls_len : length inds = Nat.min ncw nc;
  ls_nodup : NoDup inds;
  ls_range : forall c, In c inds -> (c < nc)%nat;
  (* same-probe channels come first ... *)
  ls_first : forall i j, (i < j < length inds)%nat ->
             same_probe probes p (nth j inds 0%nat) -> same_probe probes p (nth i inds 0%nat);
  (* ... in order of non-decreasing L1 distance to the peak channel ... *)
  ls_sorted : forall i j, (i <= j < length inds)%nat -> same_probe probes p (nth j inds 0%nat) ->
              chan_l1 pos p (nth i inds 0%nat) <= chan_l1 pos p (nth j inds 0%nat);
  (* ... and they are the nearest ones: if a channel of the probe is not listed, every listed channel is on
     the probe and at most as far *)
  ls_nearest : forall c, (c < nc)%nat -> same_probe probes p c -> ~ In c inds ->
               forall a, In a inds -> same_probe probes p a /\ chan_l1 pos p a <= chan_l1 pos p c;
  (* peak channel first *)
  ls_peak : (p < nc)%nat -> (0 < ncw)%nat ->
            (forall c, (c < nc)%nat -> c <> p -> same_probe probes p c -> chan_l1 pos p c <> 0) ->
            nth_error inds 0 = Some p
}.

(* ---------- waveforms: unwhitened x amplitude rescaling x unit factor, on the listed channels ---------- *)
(* value exported for waveform n (stored as t), sample s, column j, when inds lists channel c in column j:
     (sum_k t[s][k] * wmi[k][c])  *  (v / au)  *  factor
   v = mean scaled amplitude of the member spikes (before the unit factor; NaN without spikes),
   au = largest channel peak-to-peak of the unwhitened waveform *)
Definition Wave_Spec (wmi : mat) (t : mat) (v : QN) (au : Z) (factor : QN) (inds : list nat)
           (w : list (list QN)) : Prop :=
  length w = length t /\
  forall s, (s < length t)%nat ->
    length (nth s w []) = length inds /\
    forall j c, nth_error inds j = Some c -> (c < length wmi)%nat ->
      nth_error (nth s w []) j =
      Some (q_mul (q_mul (q_ofZ (unwh wmi t s c)) (q_div v (q_ofZ au))) factor).

(* ================= boolean checkers ================= *)
Definition memn (x : nat) (l : list nat) : bool := existsb (Nat.eqb x) l.
Fixpoint nodupn_b (l : list nat) : bool :=
  match l with [] => true | x :: r => negb (memn x r) && nodupn_b r end.
Fixpoint sorted_by (f : nat -> Z) (l : list nat) : bool :=
  match l with
  | x :: r => match r with y :: _ => (f x <=? f y) && sorted_by f r | [] => true end
  | [] => true
  end.
Definition same_probe_b (probes : list Z) (p c : nat) : bool := nth c probes 0 =? nth p probes 0.

(* the same-probe prefix of an observed channel row (entries are Z: an int32 file) *)
Definition listed_b (pos : mat) (probes : list Z) (nc ncw p : nat) (row : list Z) : bool :=
  let on := filter (same_probe_b probes p) (seq 0 nc) in
  let m := Nat.min ncw (length on) in
  let pre := firstn m row in
  Nat.eqb (length row) (Nat.min ncw nc) &&
  forallb (fun c => (0 <=? c) && (c <? Z.of_nat nc)) pre &&
  let pre := map Z.to_nat pre in
  Nat.eqb (length pre) m &&
  forallb (same_probe_b probes p) pre && nodupn_b pre && sorted_by (chan_l1 pos p) pre &&
  forallb (fun c => memn c pre || forallb (fun a => chan_l1 pos p a <=? chan_l1 pos p c) pre) on &&
  (* peak first when it is the only channel of its probe at distance 0 *)
  (if (0 <? m)%nat && (p <? nc)%nat &&
      forallb (fun c => Nat.eqb c p || negb (chan_l1 pos p c =? 0)) on
   then match pre with c0 :: _ => Nat.eqb c0 p | [] => false end
   else true).

(* raw indices of a merged dataset: the concatenation of the probes' own channel maps *)
Definition rawind_b (orig : list (list Z)) (raw : list Z) : bool := zl_eq raw (concat orig).

(* what the loader leaves in n_clusters when some spike changed cluster: max(spike_clusters) + 1
   (_load_data: self.n_clusters = self.spike_clusters.max() + 1; C08_merge_map_loaded).  When none did, n_clusters =
   n_templates = the number of cluster waveforms, which wf_alf (the assert of alf.py) already demands. *)
Definition Loaded_ncl (x : alf_in) : Prop := x_sc x <> x_st x -> x_ncl x = lmax (x_sc x) + 1.
Definition loaded_ncl_b (x : alf_in) : bool := negb (curated (x_st x) (x_sc x)) || (x_ncl x =? lmax (x_sc x) + 1).
