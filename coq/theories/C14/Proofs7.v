(* C14/Proofs7.v -- soundness of the boolean checker of the listed channels (Corr.v, clause 22):
   listed_b = true implies the declarative statement about the same-probe prefix of the row. *)
From Coq Require Import ZArith List Bool Arith Lia.
From PV Require Import C09.Model C14.Model C14.Spec.
Import ListNotations.
Open Scope Z_scope.

Definition on_probe (probes : list Z) (nc p c : nat) : Prop := (c < nc)%nat /\ same_probe probes p c.

(* the reading of DESIGN.md section 8: the row starts with channels of the peak channel's probe -- distinct, in
   distance order, the nearest ones, as many as fit in the row or all of them -- and nothing is demanded of the
   columns after them *)
Record Listed_Prefix (pos : mat) (probes : list Z) (nc ncw p : nat) (row : list Z) : Prop := {
  lp_len : length row = Nat.min ncw nc;
  lp_pre : exists pre rest, row = map Z.of_nat pre ++ rest /\ NoDup pre /\
     (forall c, In c pre -> on_probe probes nc p c) /\
     (forall i j, (i <= j < length pre)%nat -> chan_l1 pos p (nth i pre 0%nat) <= chan_l1 pos p (nth j pre 0%nat)) /\
     (forall c, on_probe probes nc p c -> ~ In c pre -> forall a, In a pre -> chan_l1 pos p a <= chan_l1 pos p c) /\
     (length pre = ncw \/ forall c, on_probe probes nc p c -> In c pre) /\
     ((p < nc)%nat -> (0 < ncw)%nat ->
      (forall c, on_probe probes nc p c -> c <> p -> chan_l1 pos p c <> 0) -> nth_error pre 0 = Some p)
}.

Lemma memn_In x l : memn x l = true <-> In x l.
Proof.
  unfold memn. rewrite existsb_exists. split.
  - intros (y & Hy & E). apply Nat.eqb_eq in E. now subst.
  - intros H. exists x. split; [exact H|apply Nat.eqb_refl].
Qed.
Lemma nodupn_b_NoDup l : nodupn_b l = true -> NoDup l.
Proof.
  induction l as [|x r IH]; cbn [nodupn_b]; intros H; constructor; apply andb_true_iff in H as [H1 H2].
  - intros Hin. apply memn_In in Hin. rewrite Hin in H1. discriminate.
  - now apply IH.
Qed.
Lemma sorted_by_nth f l : sorted_by f l = true ->
  forall i j, (i <= j < length l)%nat -> f (nth i l 0%nat) <= f (nth j l 0%nat).
Proof.
  induction l as [|x r IH]; intros H i j Hij; [cbn in Hij; lia|].
  assert (Hr : sorted_by f r = true).
  { cbn [sorted_by] in H. destruct r as [|y r']; [reflexivity|]. now apply andb_true_iff in H as [_ H]. }
  assert (Hx : forall k, (k < length r)%nat -> f x <= f (nth k r 0%nat)).
  { intros k Hk. cbn [sorted_by] in H. destruct r as [|y r']; [cbn in Hk; lia|]. apply andb_true_iff in H as [Hxy _].
    apply Z.leb_le in Hxy. specialize (IH Hr 0%nat k ltac:(lia)). change (nth 0 (y :: r') 0%nat) with y in IH. lia. }
  destruct i as [|i]; destruct j as [|j]; cbn [nth]; try lia.
  - apply Hx. cbn in Hij. lia.
  - apply IH; [exact Hr|]. cbn in Hij. lia.
Qed.
Lemma map_of_to_nat l : forallb (fun c => (0 <=? c)) l = true -> map Z.of_nat (map Z.to_nat l) = l.
Proof.
  induction l as [|z r IH]; cbn [forallb map]; intros H; [reflexivity|]. apply andb_true_iff in H as [H1 H2].
  rewrite IH by exact H2. f_equal. lia.
Qed.

Theorem listed_b_sound : forall pos probes nc ncw p row,
  listed_b pos probes nc ncw p row = true -> Listed_Prefix pos probes nc ncw p row.
Proof.
  intros pos probes nc ncw p row H. unfold listed_b in H. cbv zeta in H.
  set (on := filter (same_probe_b probes p) (seq 0 nc)) in *.
  set (m := Nat.min ncw (length on)) in *.
  set (pre := map Z.to_nat (firstn m row)) in *.
  rewrite !andb_true_iff in H. destruct H as [[H1 H2] [[[[[H3 H4] H5] H6] H7] H8]].
  apply Nat.eqb_eq in H1. apply Nat.eqb_eq in H3.
  assert (On : forall c, In c on <-> on_probe probes nc p c).
  { intros c. unfold on, on_probe, same_probe, same_probe_b. rewrite filter_In, in_seq, Z.eqb_eq. split; intros [A B]; split; auto; lia. }
  assert (InPre : forall c, In c pre -> on_probe probes nc p c).
  { intros c Hc. unfold on_probe. split.
    - unfold pre in Hc. apply in_map_iff in Hc as (z & <- & Hz). rewrite forallb_forall in H2. specialize (H2 z Hz). lia.
    - rewrite forallb_forall in H4. specialize (H4 c Hc). unfold same_probe_b in H4. now apply Z.eqb_eq in H4. }
  constructor; [exact H1|].
  exists pre, (skipn m row). split; [|split; [|split; [|split; [|split; [|split]]]]].
  - unfold pre. rewrite map_of_to_nat; [now rewrite firstn_skipn|].
    rewrite forallb_forall in H2 |- *. intros z Hz. specialize (H2 z Hz). lia.
  - now apply nodupn_b_NoDup.
  - exact InPre.
  - now apply sorted_by_nth.
  - intros c Hc Hn a Ha. apply On in Hc. rewrite forallb_forall in H7. specialize (H7 c Hc).
    apply orb_true_iff in H7 as [Hm|Hf]; [apply memn_In in Hm; contradiction|].
    rewrite forallb_forall in Hf. specialize (Hf a Ha). lia.
  - destruct (le_lt_dec ncw (length on)) as [L|L]; [left; lia|]. right.
    intros c Hc. apply On in Hc. revert c Hc. apply NoDup_length_incl.
    + now apply nodupn_b_NoDup.
    + lia.
    + intros c Hc. apply On. now apply InPre.
  - intros Hp Hw Hu.
    assert (Pon : In p on) by (apply On; split; [exact Hp|reflexivity]).
    assert (Lon : (0 < length on)%nat) by (destruct on; [destruct Pon|cbn; lia]).
    assert (C : ((0 <? m)%nat && (p <? nc)%nat &&
                 forallb (fun c => Nat.eqb c p || negb (chan_l1 pos p c =? 0)) on) = true).
    { rewrite !andb_true_iff. split; [split|].
      - apply Nat.ltb_lt. lia.
      - now apply Nat.ltb_lt.
      - apply forallb_forall. intros c Hc. destruct (Nat.eq_dec c p) as [->|N]; [now rewrite Nat.eqb_refl|].
        apply orb_true_iff. right. apply negb_true_iff, Z.eqb_neq. apply Hu; [now apply On|exact N]. }
    rewrite C in H8. destruct pre as [|c0 r]; [discriminate|]. apply Nat.eqb_eq in H8. now subst.
Qed.
