(* C14/LinkC04.v -- stage 4: the three models in one chain.

     dataset directory --C04.load--> loaded arrays --C08.load (C04/LinkC08.load_curated)--> merge_map / nan_idx /
     cluster_waveforms / n_clusters --integer quotient--> C14's snapshot --C14.export_with--> exported values

   C14_chain_nan: for a directory (dense template storage) accepted by C04's loader model extended with C08's branch,
   whatever the oracles, in the export of the snapshot built from the loaded arrays
     clusters.depths[n] and clusters.peakToTrough[n] are NaN  <->  n does not occur among the (scrubbed, integer) values
     of the spike-cluster FILE C04's priority list selects (spike_clusters.npy, spikes.clusters*.npy, else the
     spike-template file), for every n of range(n_clusters);
   and the link facts (nan_idx of C14 = C08's, Loaded_ncl, Linked) hold of that snapshot, so every C14_C08_* theorem of
   LinkC08.v applies with d := the converted loaded arrays.
   Not required by Props.v / Corr.v:   cd /verif/coq && coqc -noglob -Q theories PV theories/C14/LinkC04.v *)
From Coq Require Import ZArith QArith List Bool Arith Lia.
From PV Require Base.Tok Base.TokArith C04.Model C04.Proofs C04.LinkC08.
From PV Require Import C09.Model C09.Spec C14.Model C14.Spec C14.LinkC08.
Import ListNotations.
Open Scope Z_scope.

Module M4 := PV.C04.Model.
Module L4 := PV.C04.LinkC08.

Theorem C14_chain_nan : forall fdiv fmul fround inv_oracle fs rate ncd m c cd o tinds cinds f (r : Q) y,
  L4.load_curated fdiv fmul fround inv_oracle fs rate ncd = M4.Ok (m, c) -> M4.l_tcols m = None ->
  int_data (M8.l_data c) = Some cd -> ~ (r == 0)%Q ->
  exists d fc sc,
    L4.dset_of m = Some d /\ M8.load d = Some c /\ Linked d c (alf_of d c cd o) /\
    (match PV.C04.Proofs.src M4.P_sclusters fs with
     | Some file => fc = file
     | None => PV.C04.Proofs.src M4.P_stemplates fs = Some fc
     end) /\ L4.file_ids fc = Some sc /\
    (export_with tinds cinds (alf_of d c cd o) f (Some r) = Some y ->
     model_nan_idx (M8.l_ncl c) (M8.d_st d) (M8.d_sc d) = M8.l_nan c /\
     length (y_cdepths y) = Z.to_nat (M8.l_ncl c) /\ length (y_p2t y) = Z.to_nat (M8.l_ncl c) /\
     forall n, (n < Z.to_nat (M8.l_ncl c))%nat ->
       (nth_error (y_cdepths y) n = Some None <-> ~ In (Z.of_nat n) sc) /\
       (nth_error (y_p2t y) n = Some None <-> ~ In (Z.of_nat n) sc)).
Proof.
  intros fdiv fmul fround inv fs rate ncd m c cd o tinds cinds f r y HLc Hd Hcd Hr.
  apply L4.C04_load_then_curate in HLc as (Hm & d & Ed & Hc). rewrite Hd in Hc.
  destruct (L4.C04_curate_ids _ _ _ _ _ _ _ _ _ Hm Ed) as (ft & fc & Sft & _ & Hfc & Ids).
  exists d, fc, (M8.d_sc d). split; [exact Ed|]. split; [exact Hc|].
  pose proof (alf_of_linked d c cd o Hcd) as HK. split; [exact HK|]. split.
  { destruct (PV.C04.Proofs.src M4.P_sclusters fs); [exact Hfc|]. now subst fc. }
  split; [exact Ids|]. intros H.
  pose proof (C14_C08_nan_idx d c _ Hc HK) as (Hn & _). cbn [alf_of x_ncl x_st x_sc] in Hn. split; [exact Hn|].
  destruct (C14_C08_cluster_depths d c _ Hc HK _ _ _ _ _ H) as (L1 & _ & S1).
  destruct (C14_C08_durations d c _ Hc HK _ _ _ _ _ Hr H) as (L2 & S2).
  destruct (C14_C08_guards d c _ Hc HK) as (G & _). cbn [alf_of x_cdata x_ncl] in G. unfold zlen in G.
  assert (Ld : length (M8.l_data c) = Z.to_nat (M8.l_ncl c)).
  { pose proof (link_cdata_length d c _ HK) as E. cbn [alf_of x_cdata] in E. lia. }
  split; [now rewrite L1|]. split; [now rewrite L2|]. intros n Hn'.
  destruct (nth_error (M8.l_data c) n) as [rows|] eqn:Er; [|apply nth_error_None in Er; lia].
  destruct (S1 n rows Er) as (t & p & _ & _ & _ & _ & Hin & Hout).
  destruct (S2 n rows Er) as (t' & _ & Hout2 & Hin2).
  destruct (in_dec Z.eq_dec (Z.of_nat n) (M8.d_sc d)) as [I|N]; split; split; intros X; try tauto.
  all: try (rewrite (Hin I) in X; discriminate).
  all: try (destruct (Hin2 I) as (c0 & imax & imin & q & _ & _ & _ & Eq & _); rewrite Eq in X; discriminate).
  all: try (now apply Hout).
  all: try (now apply Hout2).
Qed.
Print Assumptions C14_chain_nan.
