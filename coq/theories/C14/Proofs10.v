(* C14/Proofs10.v -- stage 3.
   (1) Totality: inside the guards (the asserts of alf.py, NumPy's shape rules as collected by wf_alf, C09's
       wf_amp for the template and the cluster side, wf_depth) the exporter model does not fail, and outside
       them it does -- for every channel rows / every argsort.
   (2) Per-spike files of a periodic dataset: get_depths on a dataset of n spikes that repeats a period of k
       spikes (features, templates) is the period's result repeated, for EVERY batch size; the same for the
       scaled spike amplitudes.  This is what Corr.v's InAlfBig relies on when it judges entry j of
       spikes.depths / spikes.amps of a > 50 000-spike dataset against entry j mod k of the one-period model. *)
From Coq Require Import ZArith QArith List Bool Lia Arith.
From PV Require Import C09.Model C09.Spec C09.Proofs C09.Proofs2 C09.Proofs4 C14.Model.
Import ListNotations.
Open Scope Z_scope.

(* ================= (1) totality ================= *)
Lemma wf_depth_nspikes i : wf_depth i = true -> di_nspikes i = Z.of_nat (Z.to_nat (di_nspikes i)).
Proof.
  intros Hwf. unfold wf_depth in Hwf. rewrite !andb_true_iff in Hwf. destruct Hwf as [[H0 _] _]. lia.
Qed.

(* the batch loop ends for every batch size >= 1 and returns the per-spike values in spike order *)
Lemma get_depths_pointwise nbatch i data cols :
  1 <= nbatch -> wf_depth i = true -> di_feat i = Some (data, cols) -> length data = Z.to_nat (di_nspikes i) ->
  get_depths_Q nbatch i = Some (Some (map (depth_of_Q i data cols) (seq 0 (length data)))).
Proof.
  intros Hb Hwf Hf Hl. unfold get_depths_Q, get_depths. rewrite Hwf, Hf. cbn [negb].
  replace (Nat.eqb (length data) (Z.to_nat (di_nspikes i))) with true by (symmetry; now apply Nat.eqb_eq).
  cbn [negb]. rewrite Hl. set (n := Z.to_nat (di_nspikes i)).
  rewrite (wf_depth_nspikes i Hwf). fold n.
  pose proof (depth_loop_all (depth_of QN q_ofZ q_mul q_div q_add i data cols) None nbatch n Hb (S n) 0
                             ltac:(lia) ltac:(lia)) as HL.
  cbn [seq map app Nat.sub] in HL. rewrite Nat.sub_0_r in HL. change (Z.of_nat 0) with 0 in HL. rewrite HL.
  reflexivity.
Qed.

Lemma get_depths_total nbatch i : 1 <= nbatch -> wf_depth i = true -> exists d, get_depths_Q nbatch i = Some d.
Proof.
  intros Hb Hwf. destruct (di_feat i) as [[data cols]|] eqn:Hf.
  - destruct (Nat.eq_dec (length data) (Z.to_nat (di_nspikes i))) as [Hl|Hl].
    + eexists. apply (get_depths_pointwise nbatch i data cols Hb Hwf Hf Hl).
    + eexists. apply depths_none_thm; [exact Hwf|]. rewrite Hf. exact Hl.
  - eexists. apply depths_none_thm; [exact Hwf|]. now rewrite Hf.
Qed.

Lemma get_depths_some_wf nbatch i d : get_depths_Q nbatch i = Some d -> wf_depth i = true.
Proof. unfold get_depths_Q, get_depths. destruct (wf_depth i); [reflexivity|discriminate]. Qed.

Lemma amplitudes_true_some_wf i f o : amplitudes_true_Q i f = Some o -> wf_amp i = true.
Proof. unfold amplitudes_true_Q, amplitudes_true. destruct (wf_amp i); [reflexivity|discriminate]. Qed.

Lemma wf_amp_data_ok i : wf_amp i = true -> data_ok (length (ai_wmi i)) (ai_data i) = true.
Proof. unfold wf_amp, data_ok. rewrite !andb_true_iff. intuition. Qed.

(* the guards: alf.py's asserts and NumPy's shape rules (wf_alf), get_amplitudes_true's on the template and on the
   cluster side (C09's wf_amp), get_depths' (C09's wf_depth) *)
Definition export_guards (x : alf_in) : bool :=
  wf_alf x && wf_amp (t_amp_in x) && wf_amp (c_amp_in x) && wf_depth (x_depth_in x).

Theorem export_with_total : forall tinds cinds x f r,
  (exists y, export_with tinds cinds x f r = Some y) <-> export_guards x = true.
Proof.
  intros tinds cinds x f r. unfold export_guards. split.
  - intros (y & H). unfold export_with in H.
    destruct (wf_alf x) eqn:Hw; cbn [negb] in H; [|discriminate].
    destruct (amplitudes_true_Q (t_amp_in x) f) as [at_|] eqn:Et; [|discriminate].
    destruct (amplitudes_true_Q (c_amp_in x) f) as [ac|] eqn:Ec; [|discriminate].
    destruct (waveform_durations_Q (length (x_wmi x)) (x_cdata x) r) as [du|] eqn:Ed; [|discriminate].
    destruct (get_depths_Q NBATCH (x_depth_in x)) as [de|] eqn:Eg; [|discriminate].
    rewrite (amplitudes_true_some_wf _ _ _ Et), (amplitudes_true_some_wf _ _ _ Ec), (get_depths_some_wf _ _ _ Eg).
    reflexivity.
  - rewrite !andb_true_iff. intros [[[Hw Ht] Hc] Hd]. unfold export_with. rewrite Hw. cbn [negb].
    destruct (amplitudes_true_total (t_amp_in x) f Ht) as (at_ & Et). rewrite Et.
    destruct (amplitudes_true_total (c_amp_in x) f Hc) as (ac & Ec). rewrite Ec.
    assert (Hok : data_ok (length (x_wmi x)) (x_cdata x) = true) by (apply (wf_amp_data_ok (c_amp_in x) Hc)).
    unfold waveform_durations_Q, waveform_durations. rewrite Hok.
    destruct (get_depths_total NBATCH (x_depth_in x) ltac:(unfold NBATCH; lia) Hd) as (de & Eg). rewrite Eg.
    eexists. reflexivity.
Qed.

(* ================= (2) periodic datasets ================= *)
(* l repeated up to n entries: entry j is entry j mod (length l) *)
Definition tile {A} (d : A) (l : list A) (n : nat) : list A := map (fun j => nth (j mod length l) l d) (seq 0 n).

Lemma tile_length {A} (d : A) l n : length (tile d l n) = n.
Proof. unfold tile. now rewrite map_length, seq_length. Qed.

Lemma tile_nth {A} (d d' : A) l n j : (j < n)%nat -> nth j (tile d l n) d' = nth (j mod length l) l d.
Proof.
  intros Hj. unfold tile. rewrite (nth_map_in _ (seq 0 n) j d' O) by (now rewrite seq_length).
  now rewrite seq_nth by exact Hj.
Qed.

Lemma tile_In {A} (d : A) l n a : (1 <= length l)%nat -> In a (tile d l n) -> In a l.
Proof.
  intros Hl H. unfold tile in H. apply in_map_iff in H as (j & <- & _). apply nth_In.
  apply Nat.mod_upper_bound. lia.
Qed.

Lemma forallb_tile {A} (p : A -> bool) d l n : (1 <= length l)%nat -> forallb p l = true -> forallb p (tile d l n) = true.
Proof.
  intros Hl H. apply forallb_forall. intros a Ha. rewrite forallb_forall in H. apply H. eapply tile_In; eauto.
Qed.

(* the dataset of n spikes repeating the k = length data spikes of i (feature rows and templates) *)
Definition tile_depth_in (i : depth_in) (data : list mat) (cols : mat) (n : nat) : depth_in :=
  mk_depth_in (Z.of_nat n) (Some (tile [] data n, cols)) (tile 0 (di_st i) n) (di_pos i).

Section Periodic.
Variables (i : depth_in) (data : list mat) (cols : mat).
Hypothesis Hwf : wf_depth i = true.
Hypothesis Hf : di_feat i = Some (data, cols).
Hypothesis Hl : length data = Z.to_nat (di_nspikes i).
Hypothesis Hk : (1 <= length data)%nat.

Lemma st_length : length (di_st i) = length data.
Proof.
  unfold wf_depth in Hwf. rewrite !andb_true_iff in Hwf. destruct Hwf as [[_ H] _]. apply Nat.eqb_eq in H. lia.
Qed.

Lemma wf_parts :
  let ncl := match cols with [] => O | r :: _ => length r end in
  forallb (fun r => Nat.eqb (length r) ncl && forallb (in_range (length (di_pos i))) r) cols = true /\
  forallb (fun s => Nat.eqb (length s) ncl && forallb (fun ch => Nat.leb 1 (length ch)) s) data = true /\
  forallb (in_range (length cols)) (di_st i) = true /\
  forallb (fun r => Nat.eqb (length r) 2) (di_pos i) = true.
Proof.
  pose proof Hwf as H. unfold wf_depth in H. rewrite Hf in H.
  replace (Nat.eqb (length data) (Z.to_nat (di_nspikes i))) with true in H by (symmetry; now apply Nat.eqb_eq).
  cbn [negb] in H. rewrite !andb_true_iff in H. cbn zeta. intuition.
Qed.

Lemma wf_tile n : wf_depth (tile_depth_in i data cols n) = true.
Proof.
  destruct wf_parts as (Hc & Hd & Hs & Hp).
  unfold wf_depth, tile_depth_in. cbn [di_nspikes di_st di_feat di_pos].
  rewrite !tile_length, Nat2Z.id, Nat.eqb_refl. cbn [negb].
  replace (0 <=? Z.of_nat n) with true by (symmetry; apply Z.leb_le; lia). cbn [andb].
  rewrite Hc, Hp. cbn [andb]. rewrite andb_true_r.
  rewrite (forallb_tile _ [] data n Hk Hd). cbn [andb].
  apply forallb_tile; [rewrite st_length; exact Hk|exact Hs].
Qed.

Lemma depth_of_tile n j : (j < n)%nat ->
  depth_of_Q (tile_depth_in i data cols n) (tile [] data n) cols j = depth_of_Q i data cols (j mod length data).
Proof.
  intros Hj. unfold depth_of_Q, depth_of, ypos_of, tile_depth_in, nthZ. cbn [di_st di_pos].
  rewrite !Nat2Z.id.
  pose proof (tile_nth [] [] data n j Hj) as E1. pose proof (tile_nth 0 0 (di_st i) n j Hj) as E2.
  rewrite st_length in E2. unfold mat in *. rewrite E1, E2. reflexivity.
Qed.

(* get_depths on the periodic dataset = the period's result, repeated -- for every batch size *)
Theorem depths_periodic : forall nbatch out n, 1 <= nbatch ->
  get_depths_Q nbatch i = Some (Some out) ->
  get_depths_Q nbatch (tile_depth_in i data cols n) = Some (Some (tile None out n)).
Proof.
  intros nbatch out n Hb Ho.
  rewrite (get_depths_pointwise nbatch i data cols Hb Hwf Hf Hl) in Ho. injection Ho as Ho.
  rewrite (get_depths_pointwise nbatch (tile_depth_in i data cols n) (tile [] data n) cols Hb (wf_tile n) eq_refl)
    by (cbn [tile_depth_in di_nspikes]; now rewrite tile_length, Nat2Z.id).
  f_equal. f_equal. rewrite tile_length. unfold tile at 2. apply map_ext_in. intros j Hjin.
  apply in_seq in Hjin. rewrite depth_of_tile by lia.
  subst out. rewrite map_length, seq_length.
  assert (Hm : (j mod length data < length data)%nat) by (apply Nat.mod_upper_bound; lia).
  pose proof (nth_map_in (depth_of_Q i data cols) (seq 0 (length data)) (j mod length data) None O
                         ltac:(now rewrite seq_length)) as E.
  rewrite seq_nth in E by exact Hm. cbn [Nat.add] in E. unfold QN in *. rewrite E. reflexivity.
Qed.
End Periodic.

(* scaled spike amplitudes (spike_amps = templates_amps_au[spikes] * amplitudes): the amplitude of spike j depends on
   the template and the amplitude of spike j only, so a periodic assignment gives a periodic result *)
Lemma map2_nth {A B C} (f : A -> B -> C) : forall a b k da db dc, (k < length a)%nat -> (k < length b)%nat ->
  nth k (map2 f a b) dc = f (nth k a da) (nth k b db).
Proof.
  induction a as [|x a IH]; intros [|y b] k da db dc Ha Hb; cbn [length] in *; try lia.
  destruct k as [|k]; cbn [map2 nth]; [reflexivity|]. apply IH; lia.
Qed.
Lemma map2_length {A B C} (f : A -> B -> C) : forall a b, length a = length b -> length (map2 f a b) = length a.
Proof. induction a as [|x a IH]; intros [|y b] H; cbn [length map2] in *; try lia. now rewrite IH by lia. Qed.

Theorem spike_amps_periodic : forall (ai : amp_in) n,
  length (ai_amps ai) = length (ai_spikes ai) -> (1 <= length (ai_spikes ai))%nat ->
  spike_amps_Z (mk_amp_in (ai_data ai) (ai_wmi ai) (tile 0 (ai_spikes ai) n) (tile 0 (ai_amps ai) n) (ai_nwav ai))
  = tile 0 (spike_amps_Z ai) n.
Proof.
  intros ai n Hlen Hk. unfold spike_amps_Z at 1. cbn [ai_spikes ai_amps].
  change (amps_au (mk_amp_in (ai_data ai) (ai_wmi ai) (tile 0 (ai_spikes ai) n) (tile 0 (ai_amps ai) n) (ai_nwav ai)))
    with (amps_au ai).
  apply nth_ext with (d := 0) (d' := 0).
  - rewrite map2_length by (now rewrite !tile_length). now rewrite !tile_length.
  - intros j Hj. rewrite map2_length in Hj by (now rewrite !tile_length). rewrite tile_length in Hj.
    rewrite (map2_nth _ _ _ j 0 0 0) by (now rewrite tile_length).
    rewrite !(tile_nth 0 0 _ n j Hj). unfold spike_amps_Z. rewrite map2_length by (symmetry; exact Hlen).
    rewrite Hlen.
    rewrite (map2_nth _ _ _ (j mod length (ai_spikes ai)) 0 0 0); [reflexivity| |rewrite Hlen];
      apply Nat.mod_upper_bound; lia.
Qed.
