(* C04/Proofs.v *)
From Coq Require Import ZArith List Bool String Lia.
From PV Require Import Base.Tok Base.TokArith C04.Model.
Import ListNotations.
Open Scope string_scope.
Open Scope list_scope.
Open Scope Z_scope.

(* _find_path returns a file matching the earliest pattern (in priority order) that has any match *)
Lemma find_path_spec ps fs kv :
  find_path ps fs = Some kv ->
  exists pre p post, ps = pre ++ p :: post /\ pmatch p (fst kv) = true /\ In kv fs /\
    forall p', In p' pre -> forall kv', In kv' fs -> pmatch p' (fst kv') = false.
Proof.
  induction ps as [|p r IH]; cbn [find_path]; [discriminate|].
  destruct (find1 p fs) as [x|] eqn:E.
  - intros H; injection H as ->. unfold find1 in E. apply find_some in E as [Hin Hm].
    exists [], p, r. repeat split; auto. intros p' [].
  - intros H. destruct (IH H) as (pre & p0 & post & -> & Hm & Hin & Hpre).
    exists (p :: pre), p0, post. repeat split; auto.
    intros p' [<-|Hp'] kv' Hkv'; [|now apply Hpre].
    unfold find1 in E. now apply (find_none _ _ E).
Qed.

Lemma find_path_none ps fs :
  find_path ps fs = None <-> forall p, In p ps -> forall kv, In kv fs -> pmatch p (fst kv) = false.
Proof.
  induction ps as [|p r IH]; cbn [find_path].
  - split; [intros _ p []|reflexivity].
  - destruct (find1 p fs) as [x|] eqn:E.
    + split; [discriminate|]. intros H. unfold find1 in E. apply find_some in E as [Hin Hm].
      rewrite (H p (or_introl eq_refl) x Hin) in Hm. discriminate.
    + rewrite IH. split.
      * intros H p' [<-|Hp'] kv Hkv; [|now apply H]. unfold find1 in E. now apply (find_none _ _ E).
      * intros H p' Hp'. apply H. now right.
Qed.

(* ---------- monadic plumbing ---------- *)
Lemma rbind_ok {A B} (r : res A) (f : A -> res B) b :
  rbind r f = Ok b -> exists a, r = Ok a /\ f a = Ok b.
Proof. destruct r as [a|e]; cbn [rbind]; [intros H; now exists a|discriminate]. Qed.

Lemma omap_Forall2 {A B} (f : A -> option B) l l' :
  omap f l = Some l' -> Forall2 (fun x y => f x = Some y) l l'.
Proof.
  revert l'; induction l as [|x r IH]; intros l'; cbn [omap obind].
  - intros H; injection H as <-. constructor.
  - destruct (f x) as [y|] eqn:E; cbn [obind]; [|discriminate].
    destruct (omap f r) as [ys|] eqn:E2; cbn [obind]; [|discriminate].
    intros H; injection H as <-. constructor; [exact E|]. now apply IH.
Qed.

Lemma omap_res_Forall2 {A B} (f : A -> option B) l l' :
  omap_res f l = Ok l' -> Forall2 (fun x y => f x = Some y) l l'.
Proof.
  revert l'; induction l as [|x r IH]; intros l'; cbn [omap_res].
  - intros H; injection H as <-. constructor.
  - destruct (f x) as [y|] eqn:E; [|discriminate].
    intros H. apply rbind_ok in H as (ys & Hys & H). injection H as <-.
    constructor; [exact E|]. now apply IH.
Qed.

(* ---------- scrubbing and squeezing ---------- *)
Lemma read_full_data a : a_data (read_full a) = map scrub (a_data a).
Proof. reflexivity. Qed.
Lemma read_full_shape a : a_shape (read_full a) = filter (fun d => negb (d =? 1)) (a_shape a).
Proof. reflexivity. Qed.
Lemma read_full_dt a : a_dt (read_full a) = a_dt a.
Proof. reflexivity. Qed.
Lemma scrub_finite t : is_finite (scrub t) = true.
Proof. destruct t; reflexivity. Qed.
Lemma scrub_id t : is_finite t = true -> scrub t = t.
Proof. destruct t; cbn; congruence. Qed.

Lemma read_full_scrubbed a :
  Forall (fun t => is_finite t = true) (a_data (read_full a)) /\
  forall i t, nth_error (a_data a) i = Some t ->
              nth_error (a_data (read_full a)) i = Some (if is_finite t then t else tzero).
Proof.
  rewrite read_full_data. split.
  - apply Forall_forall. intros t Ht. apply in_map_iff in Ht as (x & <- & _). apply scrub_finite.
  - intros i t H. rewrite nth_error_map, H. reflexivity.
Qed.

(* ---------- raw traces ---------- *)
Lemma Forall2_nth_error {A B} (R : A -> B -> Prop) l l' :
  Forall2 R l l' -> forall i x, nth_error l i = Some x -> exists y, nth_error l' i = Some y /\ R x y.
Proof.
  induction 1 as [|a b l l' Hab HF IH]; intros i x Hi; [destruct i; discriminate|].
  destruct i as [|i]; cbn [nth_error] in *.
  - injection Hi as <-. now exists b.
  - now apply IH.
Qed.

Lemma Forall2_weaken {A B} (R R' : A -> B -> Prop) l l' :
  (forall x y, R x y -> R' x y) -> Forall2 R l l' -> Forall2 R' l l'.
Proof. intros HR. induction 1; constructor; auto. Qed.

Lemma Forall2_length {A B} (R : A -> B -> Prop) l l' : Forall2 R l l' -> List.length l = List.length l'.
Proof. induction 1; cbn [List.length]; congruence. Qed.

Lemma traces_full_spec raw cmap rows :
  traces_full raw cmap = Some rows ->
  List.length rows = List.length (List.concat raw) /\
  forall i row, nth_error (List.concat raw) i = Some row ->
    exists out, nth_error rows i = Some out /\ List.length out = List.length cmap /\
      forall j c, nth_error cmap j = Some c ->
        0 <= c < Z.of_nat (List.length row) /\ nth_error out j = nth_error row (Z.to_nat c).
Proof.
  unfold traces_full. intros H. apply omap_Forall2 in H. split.
  - symmetry. eapply Forall2_length; exact H.
  - intros i row Hi. destruct (Forall2_nth_error _ _ _ H i row Hi) as (out & Hout & Hsel).
    exists out. split; [exact Hout|]. unfold select_cols in Hsel. apply omap_Forall2 in Hsel.
    split; [symmetry; eapply Forall2_length; exact Hsel|].
    intros j c Hj. destruct (Forall2_nth_error _ _ _ Hsel j c Hj) as (v & Hv & Hc).
    destruct ((0 <=? c) && (c <? Z.of_nat (List.length row))) eqn:E; [|discriminate].
    apply andb_true_iff in E as [E1 E2]. apply Z.leb_le in E1. apply Z.ltb_lt in E2.
    split; [lia|]. now rewrite Hv, Hc.
Qed.

(* ---------- the loader ---------- *)
Section LoadProofs.
Variable fdiv : tok -> tok -> option tok.
Variable fmul : tok -> tok -> option tok.
Variable fround : tok -> option Z.
Variable inv_oracle : arr -> arr.
Notation load' := (load fdiv fmul fround inv_oracle).
Notation lss := (load_spike_samples fdiv fmul fround).

Lemma load_inv fs rate ncd m : load' fs rate ncd = Ok m ->
  exists st ns sc wmi,
    lss fs rate = Ok st /\ check_times (fst st) (snd st) = Ok ns /\
    l_samples m = fst st /\ l_times m = snd st /\
    load_amps fs ns = Ok (l_amps m) /\
    load_stemplates fs ns = Ok (l_stemplates m) /\
    load_sclusters fs ns = Ok sc /\ l_sclusters m = fst sc /\
    load_cmap fs ncd = Ok (l_cmap m) /\
    load_pos fs (hd 0 (a_shape (l_cmap m))) = Ok (l_pos m) /\
    load_shanks fs (hd 0 (a_shape (l_cmap m))) = Ok (l_shanks m) /\
    load_probes fs (hd 0 (a_shape (l_cmap m))) = Ok (l_probes m) /\
    load_templates fs = Ok (l_tdata m) /\
    load_tcols fs (hd 0 (a_shape (l_tdata m))) (nth 2 (a_shape (l_tdata m)) 0) = Ok (l_tcols m) /\
    load_wm fs (hd 0 (a_shape (l_cmap m))) = Ok (l_wm m) /\
    load_wmi inv_oracle fs (hd 0 (a_shape (l_cmap m))) (l_wm m) = Ok wmi /\ l_wmi m = fst wmi /\
    load_similar fs (hd 0 (a_shape (l_tdata m))) = Ok (l_similar m) /\
    load_spike_attrs fs ns = Ok (l_attrs m) /\
    l_created m = snd sc ++ snd wmi.
Proof.
  unfold load. intros H.
  apply rbind_ok in H as (st & Hst & H). apply rbind_ok in H as (ns & Hns & H).
  apply rbind_ok in H as (amps & Hamps & H). apply rbind_ok in H as (stemp & Hstemp & H).
  apply rbind_ok in H as (sc & Hsc & H). apply rbind_ok in H as (cmap & Hcmap & H).
  apply rbind_ok in H as (pos & Hpos & H). apply rbind_ok in H as (shanks & Hshanks & H).
  apply rbind_ok in H as (probes & Hprobes & H). apply rbind_ok in H as (tmpl & Htmpl & H).
  apply rbind_ok in H as (tcols & Htcols & H). apply rbind_ok in H as (wm & Hwm & H).
  apply rbind_ok in H as (wmi & Hwmi & H). apply rbind_ok in H as (sim & Hsim & H).
  apply rbind_ok in H as (attrs & Hattrs & H). injection H as <-.
  exists st, ns, sc, wmi. cbn. repeat split; assumption.
Qed.

(* non-monotonic spike times are rejected, whatever else the directory contains *)
Lemma load_rejects fs rate ncd st :
  lss fs rate = Ok st -> ndim (fst st) = 1%nat -> ndim (snd st) = 1%nat ->
  toks_sorted (a_data (snd st)) = Some false ->
  load' fs rate ncd = Err ERejected.
Proof.
  intros H1 H2 H3 H4. unfold load. rewrite H1. cbn [rbind]. unfold check_times.
  rewrite H2, H3, H4. reflexivity.
Qed.

Lemma check_times_ok s t ns : check_times s t = Ok ns ->
  toks_sorted (a_data t) = Some true /\ ns = hd 0 (a_shape t) /\ ndim s = 1%nat /\ ndim t = 1%nat.
Proof.
  unfold check_times. destruct ((ndim s =? 1)%nat && (ndim t =? 1)%nat) eqn:E; cbn [negb]; [|discriminate].
  apply andb_true_iff in E as [E1 E2]. apply Nat.eqb_eq in E1, E2.
  destruct (toks_sorted (a_data t)) as [[|]|]; try discriminate. intros H; injection H as <-. auto.
Qed.

Lemma load_times_sorted fs rate ncd m : load' fs rate ncd = Ok m ->
  toks_sorted (a_data (l_times m)) = Some true /\ ndim (l_times m) = 1%nat /\ ndim (l_samples m) = 1%nat.
Proof.
  intros H. destruct (load_inv _ _ _ _ H) as (st & ns & sc & wmi & _ & Hct & -> & -> & _).
  apply check_times_ok in Hct. tauto.
Qed.

(* KS layout: samples are the file, times are samples / rate (one binary64 division each) *)
Lemma load_times_ks fs rate ncd m kv : load' fs rate ncd = Ok m ->
  find_path P_times_ks fs = Some kv ->
  l_samples m = read_full (snd kv) /\ a_dt (l_times m) = DF64 /\ a_shape (l_times m) = a_shape (l_samples m) /\
  Forall2 (fun s t => fdiv s rate = Some t) (a_data (l_samples m)) (a_data (l_times m)).
Proof.
  intros H Hk. destruct (load_inv _ _ _ _ H) as (st & ns & sc & wmi & Hst & _ & -> & -> & _).
  unfold load_spike_samples in Hst. rewrite Hk in Hst. destruct kv as [k a]. cbn [snd].
  apply rbind_ok in Hst as (ts & Hts & Hst). injection Hst as <-. cbn [fst snd a_dt a_shape a_data].
  repeat split. now apply omap_res_Forall2.
Qed.

(* ALF layout: times are the stored seconds; samples are the stored samples, or round(times * rate) *)
Lemma load_times_alf fs rate ncd m : load' fs rate ncd = Ok m ->
  find_path P_times_ks fs = None ->
  exists kt, find_path P_times_alf fs = Some kt /\ l_times m = read_full (snd kt) /\
    match find_path P_samples_alf fs with
    | Some ks => l_samples m = read_full (snd ks)
    | None => a_dt (l_samples m) = DU64 /\ a_shape (l_samples m) = a_shape (l_times m) /\
              Forall2 (fun t s => exists p z, fmul t rate = Some p /\ fround p = Some z /\ s = tz z)
                      (a_data (l_times m)) (a_data (l_samples m))
    end.
Proof.
  intros H Hk. destruct (load_inv _ _ _ _ H) as (st & ns & sc & wmi & Hst & _ & -> & -> & _).
  unfold load_spike_samples in Hst. rewrite Hk in Hst.
  destruct (find_path P_times_alf fs) as [[k t]|]; [|discriminate]. exists (k, t). split; [reflexivity|].
  destruct (find_path P_samples_alf fs) as [[k2 s]|].
  - injection Hst as <-. cbn [fst snd]. split; reflexivity.
  - apply rbind_ok in Hst as (ss & Hss & Hst). injection Hst as <-. cbn [fst snd a_dt a_shape a_data].
    split; [reflexivity|]. repeat split. apply omap_res_Forall2 in Hss.
    eapply Forall2_weaken; [|exact Hss]. cbv beta. intros t0 s0 Hx.
    destruct (fmul t0 rate) as [p|] eqn:Ep; cbn [obind] in Hx; [|discriminate].
    destruct (fround p) as [z|] eqn:Ez; cbn [option_map] in Hx; [|discriminate]. injection Hx as <-.
    exists p, z. repeat split; assumption.
Qed.

(* ----- attribute rules: the first existing name of the priority list, squeezed and scrubbed,
         or the documented default ----- *)
Definition src (ps : list pat) (fs : files) : option arr := option_map snd (find_path ps fs).

Lemma src_some ps fs k a : find_path ps fs = Some (k, a) -> src ps fs = Some a.
Proof. unfold src. now intros ->. Qed.
Lemma src_none ps fs : find_path ps fs = None -> src ps fs = None.
Proof. unfold src. now intros ->. Qed.

Lemma load_amps_rule fs ns r : load_amps fs ns = Ok r -> r = option_map read_full (src P_amps fs).
Proof.
  unfold load_amps, src. destruct (find_path P_amps fs) as [[k a]|]; cbn [option_map snd].
  - destruct (_ && _); [|discriminate]. now intros H; injection H as <-.
  - now intros H; injection H as <-.
Qed.

Lemma load_stemplates_rule fs ns r : load_stemplates fs ns = Ok r ->
  exists a, src P_stemplates fs = Some a /\
            r = (if dt_is_float (a_dt a) then astype DI32 (read_full a) else read_full a) /\
            a_shape r = [ns].
Proof.
  unfold load_stemplates, src. destruct (find_path P_stemplates fs) as [[k a]|]; [|discriminate].
  cbn [option_map snd]. rewrite read_full_dt.
  destruct (dt_in _ _ && zl_eqb _ _) eqn:E; [|discriminate]. intros H; injection H as <-.
  exists a. split; [reflexivity|]. apply andb_true_iff in E as [_ E].
  split; [reflexivity|]. clear -E. revert E. generalize (a_shape (if dt_is_float (a_dt a) then astype DI32 (read_full a) else read_full a)).
  intros l. destruct l as [|x [|y l]]; cbn [zl_eqb]; try discriminate.
  - rewrite andb_true_r. intros E. f_equal. now apply Z.eqb_eq.
  - rewrite andb_false_r. discriminate.
Qed.

Lemma load_sclusters_rule fs ns sc : load_sclusters fs ns = Ok sc ->
  exists a, fst sc = astype DI32 (read_full a) /\
    match src P_sclusters fs with
    | Some f => a = f /\ snd sc = []
    | None => src P_stemplates fs = Some a /\ snd sc = [("spike_clusters.npy", a)]
    end.
Proof.
  unfold load_sclusters, sclusters_source, src. intros H. apply rbind_ok in H as ([a cr] & Hs & H).
  cbn [fst snd] in H. destruct (zl_eqb _ _); [|discriminate]. injection H as <-. cbn [fst snd].
  exists a. split; [reflexivity|].
  destruct (find_path P_sclusters fs) as [[k f]|]; cbn [option_map snd].
  - injection Hs as <- <-. split; reflexivity.
  - destruct (find_path P_stemplates fs) as [[k f]|]; [|discriminate]. injection Hs as <- <-.
    split; reflexivity.
Qed.

Lemma load_cmap_rule fs ncd r : load_cmap fs ncd = Ok r ->
  exists a, src P_cmap fs = Some a /\ r = atleast_1d (read_full a) /\ ndim r = 1%nat /\
    forall k, ncd = Some k -> forall t, In t (a_data r) -> exists z, tok_Z t = Some z /\ z <= k - 1.
Proof.
  unfold load_cmap, src. destruct (find_path P_cmap fs) as [[k a]|]; [|discriminate]. cbn [option_map snd].
  destruct ((ndim _ =? 1)%nat && _) eqn:E; cbn [negb]; [|discriminate].
  apply andb_true_iff in E as [E _]. apply Nat.eqb_eq in E.
  destruct ncd as [kk|].
  - destruct (forallb _ _) eqn:EF; cbn [negb]; [|discriminate]. intros H; injection H as <-.
    exists a. repeat split; [exact E|]. intros k0 Hk0 t Ht. injection Hk0 as <-.
    rewrite forallb_forall in EF. specialize (EF t Ht). destruct (tok_Z t) as [z|]; [|discriminate].
    exists z. split; [reflexivity|]. now apply Z.leb_le.
  - intros H; injection H as <-. exists a. repeat split; [exact E|]. discriminate.
Qed.

Lemma load_pos_rule fs nc r : load_pos fs nc = Ok r ->
  exists a, src P_pos fs = Some a /\ r = atleast_2d (read_full a).
Proof.
  unfold load_pos, src. destruct (find_path P_pos fs) as [[k a]|]; [|discriminate]. cbn [option_map snd].
  destruct (zl_eqb _ _); [|discriminate]. intros H; injection H as <-. now exists a.
Qed.

Lemma load_shanks_rule fs nc r : load_shanks fs nc = Ok r ->
  r = match src P_shanks fs with None => zeros DI32 [nc] | Some a => flatten (read_full a) end.
Proof.
  unfold load_shanks, src. destruct (find_path P_shanks fs) as [[k a]|]; cbn [option_map snd].
  - destruct (zl_eqb _ _); [|discriminate]. now intros H; injection H as <-.
  - now intros H; injection H as <-.
Qed.
Lemma load_probes_rule fs nc r : load_probes fs nc = Ok r ->
  r = match src P_probes fs with None => zeros DI32 [nc] | Some a => atleast_1d (read_full a) end.
Proof.
  unfold load_probes, src. destruct (find_path P_probes fs) as [[k a]|]; cbn [option_map snd].
  - destruct (zl_eqb _ _); [|discriminate]. now intros H; injection H as <-.
  - now intros H; injection H as <-.
Qed.
Lemma load_wm_rule fs nc r : load_wm fs nc = Ok r ->
  r = match src P_wm fs with None => eye nc | Some a => atleast_2d (read_full a) end.
Proof.
  unfold load_wm, src. destruct (find_path P_wm fs) as [[k a]|]; cbn [option_map snd].
  - destruct (zl_eqb _ _); [|discriminate]. now intros H; injection H as <-.
  - now intros H; injection H as <-.
Qed.
Lemma load_similar_rule fs nt r : load_similar fs nt = Ok r ->
  r = match src P_similar fs with None => zeros DF64 [nt; nt] | Some a => atleast_2d (read_full a) end.
Proof.
  unfold load_similar, src. destruct (find_path P_similar fs) as [[k a]|]; cbn [option_map snd].
  - destruct (zl_eqb _ _); [|discriminate]. now intros H; injection H as <-.
  - now intros H; injection H as <-.
Qed.
Lemma load_wmi_rule fs nc wm r : load_wmi inv_oracle fs nc wm = Ok r ->
  match src P_wmi fs with
  | Some a => fst r = atleast_2d (read_full a) /\ snd r = []
  | None => fst r = inv_oracle wm /\ snd r = [("whitening_mat_inv.npy", inv_oracle wm)]
  end.
Proof.
  unfold load_wmi, src. destruct (find_path P_wmi fs) as [[k a]|]; cbn [option_map snd].
  - destruct (zl_eqb _ _); [|discriminate]. intros H; injection H as <-. split; reflexivity.
  - intros H; injection H as <-. split; reflexivity.
Qed.
Lemma load_templates_rule fs r : load_templates fs = Ok r ->
  exists a, src P_templates fs = Some a /\ zero_nan_templates (atleast_3d (squeeze a)) = Ok r.
Proof.
  unfold load_templates, src, read_mmap. destruct (find_path P_templates fs) as [[k a]|]; [|discriminate].
  cbn [option_map snd]. destruct (negb _); [discriminate|]. intros H. now exists a.
Qed.

(* all attribute rules of a successful load, in one statement *)
Lemma load_attributes fs rate ncd m : load' fs rate ncd = Ok m ->
  let nc := hd 0 (a_shape (l_cmap m)) in
  let nt := hd 0 (a_shape (l_tdata m)) in
  l_amps m = option_map read_full (src P_amps fs) /\
  (exists a, src P_stemplates fs = Some a /\
     l_stemplates m = (if dt_is_float (a_dt a) then astype DI32 (read_full a) else read_full a)) /\
  (exists a, l_sclusters m = astype DI32 (read_full a) /\
     match src P_sclusters fs with Some f => a = f | None => src P_stemplates fs = Some a end) /\
  (exists a, src P_cmap fs = Some a /\ l_cmap m = atleast_1d (read_full a)) /\
  (exists a, src P_pos fs = Some a /\ l_pos m = atleast_2d (read_full a)) /\
  l_shanks m = match src P_shanks fs with None => zeros DI32 [nc] | Some a => flatten (read_full a) end /\
  l_probes m = match src P_probes fs with None => zeros DI32 [nc] | Some a => atleast_1d (read_full a) end /\
  (exists a, src P_templates fs = Some a /\ zero_nan_templates (atleast_3d (squeeze a)) = Ok (l_tdata m)) /\
  l_wm m = match src P_wm fs with None => eye nc | Some a => atleast_2d (read_full a) end /\
  l_wmi m = match src P_wmi fs with None => inv_oracle (l_wm m) | Some a => atleast_2d (read_full a) end /\
  l_similar m = match src P_similar fs with None => zeros DF64 [nt; nt] | Some a => atleast_2d (read_full a) end.
Proof.
  intros H nc nt.
  destruct (load_inv _ _ _ _ H) as (st & ns & sc & wmi & _ & _ & _ & _ & Hamps & Hst & Hsc & Esc & Hcm & Hpos &
                                    Hsh & Hpr & Htm & _ & Hwm & Hwmi & Ewmi & Hsim & _ & _).
  split; [now apply load_amps_rule in Hamps|].
  split; [apply load_stemplates_rule in Hst as (a & H1 & H2 & _); now exists a|].
  split.
  { apply load_sclusters_rule in Hsc as (a & H1 & H2). exists a. rewrite Esc. split; [exact H1|].
    destruct (src P_sclusters fs); tauto. }
  split; [apply load_cmap_rule in Hcm as (a & H1 & H2 & _); now exists a|].
  split; [now apply load_pos_rule in Hpos|].
  split; [now apply load_shanks_rule in Hsh|].
  split; [now apply load_probes_rule in Hpr|].
  split; [now apply load_templates_rule in Htm|].
  split; [now apply load_wm_rule in Hwm|].
  split; [|now apply load_similar_rule in Hsim].
  apply load_wmi_rule in Hwmi. rewrite Ewmi. destruct (src P_wmi fs); tauto.
Qed.

(* frame: the only files a load creates are the spike-cluster copy (a byte copy of the template
   file) and the inverse whitening matrix, each only when no file of that role exists *)
Lemma load_frame fs rate ncd m : load' fs rate ncd = Ok m ->
  l_created m =
    (match src P_sclusters fs with
     | Some _ => []
     | None => match src P_stemplates fs with Some a => [("spike_clusters.npy", a)] | None => [] end
     end) ++
    (match src P_wmi fs with Some _ => [] | None => [("whitening_mat_inv.npy", l_wmi m)] end).
Proof.
  intros H.
  destruct (load_inv _ _ _ _ H) as (st & ns & sc & wmi & _ & _ & _ & _ & _ & _ & Hsc & _ & _ & _ &
                                    _ & _ & _ & _ & _ & Hwmi & Ewmi & _ & _ & ->).
  apply load_sclusters_rule in Hsc as (a & _ & H2). apply load_wmi_rule in Hwmi. rewrite Ewmi. f_equal.
  - destruct (src P_sclusters fs); [tauto|]. destruct H2 as [-> ->]. reflexivity.
  - destruct (src P_wmi fs); [tauto|]. destruct Hwmi as [-> ->]. reflexivity.
Qed.

(* extra per-spike attributes: exactly the spike_<n>.npy files outside the reserved names whose first
   dimension (after squeezing) is the number of spikes *)
Lemma load_attrs_spec fs ns l : load_spike_attrs fs ns = Ok l ->
  forall n a, In (n, a) l <->
    exists fname f, In (fname, f) fs /\ spike_attr_name fname = Some n /\ str_in n SKIP_SPIKE_ATTRS = false /\
                    a = read_full f /\ hd (ns + 1) (a_shape a) = ns.
Proof.
  revert l. induction fs as [|[fname f] r IH]; intros l; cbn [load_spike_attrs fold_right].
  - intros H; injection H as <-. intros n a. split; [intros []|intros (? & ? & [] & _)].
  - fold (load_spike_attrs r ns). intros H. apply rbind_ok in H as (l0 & Hl0 & H). specialize (IH l0 Hl0).
    cbn [fst snd] in H.
    assert (Hskip : forall n a, In (n, a) l0 <->
              (exists fname0 f0, In (fname0, f0) r /\ spike_attr_name fname0 = Some n /\
                 str_in n SKIP_SPIKE_ATTRS = false /\ a = read_full f0 /\ hd (ns + 1) (a_shape a) = ns)) by exact IH.
    destruct (spike_attr_name fname) as [n0|] eqn:En.
    2:{ injection H as <-. intros n a. rewrite Hskip. split.
        - intros (x & y & Hin & Hrest). exists x, y. split; [now right|exact Hrest].
        - intros (x & y & [Heq|Hin] & Hn & Hrest); [injection Heq as -> ->; congruence|].
          exists x, y. split; [exact Hin|]. split; [exact Hn|exact Hrest]. }
    destruct (str_in n0 SKIP_SPIKE_ATTRS) eqn:Es.
    { injection H as <-. intros n a. rewrite Hskip. split.
      - intros (x & y & Hin & Hrest). exists x, y. split; [now right|exact Hrest].
      - intros (x & y & [Heq|Hin] & Hn & Hs & Hrest); [injection Heq as -> ->; congruence|].
        exists x, y. split; [exact Hin|]. split; [exact Hn|]. split; [exact Hs|exact Hrest]. }
    destruct (a_shape (read_full f)) as [|d0 ds] eqn:Esh; [discriminate|].
    destruct (d0 =? ns) eqn:Ed.
    + injection H as <-. intros n a. cbn [In]. rewrite Hskip. split.
      * intros [Heq|(x & y & Hin & Hrest)].
        -- injection Heq as <- <-. exists fname, f. split; [now left|]. split; [exact En|]. split; [exact Es|].
           split; [reflexivity|]. rewrite Esh. cbn [hd]. lia.
        -- exists x, y. split; [now right|exact Hrest].
      * intros (x & y & [Heq|Hin] & Hn & Hs & Ha & Hd).
        -- injection Heq as -> ->. left. rewrite En in Hn. injection Hn as ->. now rewrite Ha.
        -- right. exists x, y. repeat split; assumption.
    + injection H as <-. intros n a. rewrite Hskip. split.
      * intros (x & y & Hin & Hrest). exists x, y. split; [now right|exact Hrest].
      * intros (x & y & [Heq|Hin] & Hn & Hs & Ha & Hd).
        -- injection Heq as -> ->. subst a. rewrite Esh in Hd. cbn [hd] in Hd. lia.
        -- exists x, y. repeat split; assumption.
Qed.
End LoadProofs.
