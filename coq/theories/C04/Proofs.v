(* C04/Proofs.v *)
From Coq Require Import ZArith List Bool String Lia.
From PV Require Import Base.Tok Base.TokArith C04.Model.
Import ListNotations.
Open Scope string_scope.
Open Scope list_scope.
Open Scope Z_scope.

(* _find_path returns a file matching the earliest pattern (in priority order) that has any match *)
Lemma find_path_spec ps fs kv :
  find_path ps fs = Some kv ->
  exists pre p post, ps = pre ++ p :: post /\ pmatch p (fst kv) = true /\ In kv fs /\
    forall p', In p' pre -> forall kv', In kv' fs -> pmatch p' (fst kv') = false.
Proof.
  induction ps as [|p r IH]; cbn [find_path]; [discriminate|].
  destruct (find1 p fs) as [x|] eqn:E.
  - intros H; injection H as ->. unfold find1 in E. apply find_some in E as [Hin Hm].
    exists [], p, r. repeat split; auto. intros p' [].
  - intros H. destruct (IH H) as (pre & p0 & post & -> & Hm & Hin & Hpre).
    exists (p :: pre), p0, post. repeat split; auto.
    intros p' [<-|Hp'] kv' Hkv'; [|now apply Hpre].
    unfold find1 in E. now apply (find_none _ _ E).
Qed.

Lemma find_path_none ps fs :
  find_path ps fs = None <-> forall p, In p ps -> forall kv, In kv fs -> pmatch p (fst kv) = false.
Proof.
  induction ps as [|p r IH]; cbn [find_path].
  - split; [intros _ p []|reflexivity].
  - destruct (find1 p fs) as [x|] eqn:E.
    + split; [discriminate|]. intros H. unfold find1 in E. apply find_some in E as [Hin Hm].
      rewrite (H p (or_introl eq_refl) x Hin) in Hm. discriminate.
    + rewrite IH. split.
      * intros H p' [<-|Hp'] kv Hkv; [|now apply H]. unfold find1 in E. now apply (find_none _ _ E).
      * intros H p' Hp'. apply H. now right.
Qed.
