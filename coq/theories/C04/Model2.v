(* C04/Model2.v -- extensions of the loader model, kept apart from Model.v (which property C13 builds on,
   so Model.v and Proofs.v are left untouched):
   * spike_times_reordered.npy (_load_spike_reorder: read by _load_data, not an attribute named in the statement);
   * the "conflicting spike-cluster files" exit of _find_path(..., multiple_ok=False);
   * [loadx]: _load_data with these two steps at their place in the load order (error precedence as in the code);
   * the exception class of each error exit (for the malformed-directory stream of the comparator).
   No proofs here. *)
From Coq Require Import ZArith List Bool String.
From PV Require Import Base.Tok Base.TokArith C04.Model.
Import ListNotations.
Open Scope string_scope.
Open Scope list_scope.
Open Scope Z_scope.

Definition P_reorder := [PExact "spike_times_reordered.npy"].
Definition all_patterns_x : list pat := all_patterns ++ P_reorder.

(* three outcomes: a value, one of Model.v's error exits, or the conflict exit *)
Inductive xres (A : Type) := XOk (a : A) | XErr (e : err) | XConflict.
Arguments XOk {A}. Arguments XErr {A}. Arguments XConflict {A}.
Definition lift {A} (r : res A) : xres A := match r with Ok a => XOk a | Err e => XErr e end.

Record loadedx := mkloadedx { lx : loaded; lx_reordered : option arr }.

(* _find_path('spike_clusters.npy', 'spikes.clusters*.npy', multiple_ok=False): the first match of EACH
   pattern is collected; two collected paths and multiple_ok=False -> raise *)
Definition clusters_conflict (fs : files) : bool :=
  match find1 (PExact "spike_clusters.npy") fs, find1 (PGlob "spikes.clusters" ".npy") fs with
  | Some _, Some _ => true
  | _, _ => false
  end.

Section LoadX.
Variable fdiv : tok -> tok -> option tok.
Variable fmul : tok -> tok -> option tok.
Variable fround : tok -> option Z.
Variable inv_oracle : arr -> arr.

(* _load_spike_reorder: samples = _read_array(path).squeeze(); times = samples / sample_rate;
   assert times.shape == (n_spikes,).  float32 samples stay float32 under NEP 50 (one binary32 division):
   outside the model. *)
Definition load_reorder (fs : files) (rate : tok) (ns : Z) : res (option arr) :=
  match find_path P_reorder fs with
  | None => Ok None
  | Some (_, a) =>
      let s := read_full a in
      if dt_eqb (a_dt s) DF32 then Err ERegime else
      do ts <- omap_res (fun x => fdiv x rate) (a_data s);
      if zl_eqb (a_shape s) [ns] then Ok (Some (mkarr DF64 (a_shape s) ts)) else Err EAssert
  end.

(* what _load_data does before it looks for the spike-cluster file *)
Definition load_head (fs : files) (rate : tok) : res Z :=
  do st <- load_spike_samples fdiv fmul fround fs rate;
  do ns <- check_times (fst st) (snd st);
  do amps <- load_amps fs ns;
  do stemp <- load_stemplates fs ns;
  Ok ns.

(* _load_data in its own order: head; conflict test; spike clusters; spike reordering; the rest.  The
   sub-loaders are pure, so running [load] after its own first steps reproduces the code's error precedence. *)
Definition loadx (fs : files) (rate : tok) (ncd : option Z) : xres loadedx :=
  match load_head fs rate with
  | Err e => XErr e
  | Ok ns =>
      if clusters_conflict fs then XConflict else
      match load_sclusters fs ns with
      | Err e => XErr e
      | Ok _ =>
          match load_reorder fs rate ns with
          | Err e => XErr e
          | Ok reo =>
              match load fdiv fmul fround inv_oracle fs rate ncd with
              | Err e => XErr e
              | Ok m => XOk (mkloadedx m reo)
              end
          end
      end
  end.
End LoadX.

(* exception classes of the error exits, as the harness reports them *)
Inductive exn := XnIOError | XnAssertion | XnValueError | XnOther.
Definition exn_code (x : exn) : Z := match x with XnIOError => 0 | XnAssertion => 1 | XnValueError => 2 | XnOther => 3 end.
Definition exn_eqb (a b : exn) : bool := exn_code a =? exn_code b.
