(* C04/Proofs4.v -- what "all-NaN templates zeroed in memory" means, declaratively: template k of the loaded
   waveforms (the k-th block of n_samples * n_channels_loc values) is all zeros when template k of the file is
   entirely NaN, and is template k of the file, value for value (NaN and inf included), otherwise. *)
From Coq Require Import ZArith List Bool Lia.
From PV Require Import Base.Tok Base.TokArith C04.Model.
Import ListNotations.
Open Scope list_scope.
Open Scope Z_scope.

Definition block (per k : nat) (l : list tok) : list tok := firstn per (skipn (k * per) l).

Definition NanZeroed (x v : arr) : Prop :=
  a_dt v = a_dt x /\ a_shape v = a_shape x /\
  exists nt nsw ncl, a_shape x = [nt; nsw; ncl] /\
    let per := Z.to_nat (nsw * ncl) in
    List.length (a_data v) = List.length (a_data x) /\
    forall k, (k < Z.to_nat nt)%nat ->
      block per k (a_data v) =
      if forallb is_nan (block per k (a_data x)) then repeat tzero per else block per k (a_data x).

Lemma skipn_skipn' {A} n m (l : list A) : skipn n (skipn m l) = skipn (m + n) l.
Proof.
  revert l; induction m as [|m IH]; intros l; [reflexivity|]. destruct l as [|x l]; [now rewrite !skipn_nil|].
  cbn [skipn plus]. apply IH.
Qed.

Lemma chunks_cons {A} per n (l : list A) : (0 < per)%nat -> List.length l = (S n * per)%nat ->
  chunks per (S n) l = firstn per l :: chunks per n (skipn per l).
Proof. intros Hp Hl. cbn [chunks]. destruct l; [cbn in Hl; lia|reflexivity]. Qed.

Lemma chunks_nth per n (l : list tok) k : (0 < per)%nat -> List.length l = (n * per)%nat -> (k < n)%nat ->
  nth k (chunks per n l) [] = block per k l.
Proof.
  intros Hp. revert l k. induction n as [|n IH]; intros l k Hl Hk; [lia|].
  rewrite chunks_cons by assumption. destruct k as [|k]; cbn [nth].
  - reflexivity.
  - rewrite IH; [|rewrite skipn_length; lia|lia]. unfold block. rewrite skipn_skipn'. reflexivity.
Qed.
Lemma chunks_length per n (l : list tok) : (0 < per)%nat -> List.length l = (n * per)%nat ->
  List.length (chunks per n l) = n /\ Forall (fun t => List.length t = per) (chunks per n l).
Proof.
  intros Hp. revert l. induction n as [|n IH]; intros l Hl; [split; [reflexivity|constructor]|].
  rewrite chunks_cons by assumption. destruct (IH (skipn per l)) as [H1 H2]; [rewrite skipn_length; lia|].
  split; [cbn [List.length]; now rewrite H1|]. constructor; [|exact H2]. rewrite firstn_length. lia.
Qed.

Lemma block_concat per (L : list (list tok)) k :
  Forall (fun t => List.length t = per) L -> (k < List.length L)%nat -> block per k (List.concat L) = nth k L [].
Proof.
  intros HF. revert k. induction HF as [|t L Ht HF IH]; intros k Hk; [cbn in Hk; lia|].
  cbn [List.concat]. destruct k as [|k]; cbn [nth]; unfold block.
  - cbn [Nat.mul skipn]. rewrite firstn_app, Ht, Nat.sub_diag. cbn [firstn]. rewrite app_nil_r.
    rewrite <- Ht. apply firstn_all.
  - rewrite skipn_app, Ht. replace (S k * per - per)%nat with (k * per)%nat by lia.
    replace (skipn (S k * per) t) with (@nil tok) by (symmetry; apply skipn_all2; lia). cbn [app].
    apply IH. cbn [List.length] in Hk. lia.
Qed.

Lemma concat_length_const per (L : list (list tok)) :
  Forall (fun t => List.length t = per) L -> List.length (List.concat L) = (List.length L * per)%nat.
Proof. induction 1 as [|t L Ht HF IH]; [reflexivity|]. cbn [List.concat List.length]. rewrite app_length, Ht, IH. lia. Qed.

(* the model's zero_nan_templates satisfies the declarative reading on every consistent array *)
Theorem zero_nan_spec x v : arr_wf x = true -> zero_nan_templates x = Ok v -> NanZeroed x v.
Proof.
  unfold arr_wf, zero_nan_templates, NanZeroed. intros Hwf.
  destruct (a_shape x) as [|nt [|nsw [|ncl [|? ?]]]] eqn:Esh; try discriminate.
  intros H; injection H as <-. cbn [a_dt a_shape a_data]. split; [reflexivity|]. split; [reflexivity|].
  exists nt, nsw, ncl. split; [reflexivity|]. cbv zeta.
  apply andb_true_iff in Hwf as [Hlen Hpos]. apply Z.eqb_eq in Hlen. cbn [prodZ fold_right forallb] in Hlen, Hpos.
  rewrite !andb_true_iff in Hpos. destruct Hpos as (P1 & P2 & P3 & _). apply Z.leb_le in P1, P2, P3.
  set (per := Z.to_nat (nsw * ncl)). set (n := Z.to_nat nt).
  assert (Hl : List.length (a_data x) = (n * per)%nat).
  { unfold n, per. apply Nat2Z.inj. rewrite Hlen, Nat2Z.inj_mul, !Z2Nat.id by nia. nia. }
  set (f := fun t : list tok => if forallb is_nan t then repeat tzero per else t).
  destruct (Nat.eq_dec per 0) as [Hp0|Hp0].
  - (* no value per template: the data is empty *)
    rewrite Hp0 in *. rewrite Nat.mul_0_r in Hl. apply length_zero_iff_nil in Hl. rewrite Hl.
    assert (Hc : chunks 0 n (@nil tok) = []) by (destruct n; reflexivity). rewrite Hc. cbn [map List.concat].
    split; [reflexivity|]. intros k _. unfold block. cbn [firstn]. reflexivity.
  - assert (Hp : (0 < per)%nat) by lia.
    destruct (chunks_length per n (a_data x) Hp Hl) as [Hn HF].
    assert (HF' : Forall (fun t => List.length t = per) (map f (chunks per n (a_data x)))).
    { apply Forall_forall. intros t Ht. apply in_map_iff in Ht as (t0 & <- & Hin).
      rewrite Forall_forall in HF. unfold f. destruct (forallb is_nan t0); [apply repeat_length|now apply HF]. }
    split.
    + rewrite (concat_length_const per _ HF'), map_length, Hn. now rewrite Hl.
    + intros k Hk. rewrite (block_concat per _ k HF') by (rewrite map_length, Hn; exact Hk).
      rewrite (nth_indep _ [] (f [])) by (rewrite map_length, Hn; exact Hk).
      rewrite map_nth. rewrite (chunks_nth per n (a_data x) k Hp Hl Hk). reflexivity.
Qed.
