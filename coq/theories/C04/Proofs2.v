(* C04/Proofs2.v -- the loader model satisfies the declarative specification (Spec.v), and is total on
   well-formed directories. *)
From Coq Require Import ZArith List Bool String Lia.
From PV Require Import Base.Tok Base.TokArith C04.Model C04.Model2 C04.Proofs C04.Spec.
Import ListNotations.
Open Scope string_scope.
Open Scope list_scope.
Open Scope Z_scope.

(* ---------- Source: find_path computes it, and it is unique on directories with unique matches ---------- *)
Lemma osrc_src ps fs : osrc ps fs = src ps fs.
Proof. reflexivity. Qed.

Lemma src_Source ps fs : Source ps fs (src ps fs).
Proof.
  unfold src. destruct (find_path ps fs) as [[k a]|] eqn:E; cbn [option_map snd].
  - destruct (find_path_spec _ _ _ E) as (pre & p & post & Hps & Hm & Hin & Hpre). cbn [fst] in Hm.
    exists k, pre, p, post. split; [exact Hps|]. split; [exact Hin|]. split; [exact Hm|exact Hpre].
  - cbn [Source]. now apply find_path_none.
Qed.

Lemma filter_le1_unique {A} (f : A -> bool) l x y :
  (List.length (filter f l) <= 1)%nat -> In x l -> In y l -> f x = true -> f y = true -> x = y.
Proof.
  induction l as [|z r IH]; cbn [filter]; intros HL Hx Hy Fx Fy; [destruct Hx|].
  destruct (f z) eqn:Fz.
  - cbn [List.length] in HL.
    assert (Hr : forall w, In w r -> f w = true -> False).
    { intros w Hw Fw. assert (Hin : In w (filter f r)) by (apply filter_In; auto).
      destruct (filter f r); [destruct Hin|cbn [List.length] in HL; lia]. }
    destruct Hx as [Hx|Hx], Hy as [Hy|Hy].
    + congruence.
    + exfalso; eauto.
    + exfalso; eauto.
    + exfalso; eauto.
  - destruct Hx as [Hx|Hx]; [congruence|]. destruct Hy as [Hy|Hy]; [congruence|]. auto.
Qed.

Lemma split_cases {A} (pre pre' : list A) p p' post post' :
  pre ++ p :: post = pre' ++ p' :: post' -> (pre = pre' /\ p = p') \/ In p pre' \/ In p' pre.
Proof.
  revert pre'. induction pre as [|a pre IH]; intros [|a' pre']; cbn [app]; intros H.
  - injection H as H1 _. left. auto.
  - injection H as H1 _. right. left. left. auto.
  - injection H as H1 _. right. right. left. auto.
  - injection H as H1 H. destruct (IH _ H) as [[E1 E2]|[H2|H2]].
    + left. split; [congruence|exact E2].
    + right. left. right. exact H2.
    + right. right. right. exact H2.
Qed.

Lemma Source_functional ps fs x y : unique_matches ps fs -> Source ps fs x -> Source ps fs y -> x = y.
Proof.
  intros HU. destruct x as [a|], y as [b|]; cbn [Source].
  - intros (n & pre & p & post & E & Hin & Hm & Hpre) (n' & pre' & p' & post' & E' & Hin' & Hm' & Hpre').
    rewrite E in E'. destruct (split_cases _ _ _ _ _ _ E') as [[-> ->]|[H|H]].
    + assert (Hp : In p' ps) by (rewrite E; apply in_or_app; right; now left).
      specialize (HU _ Hp). unfold n_matches in HU.
      assert (Heq : (n, a) = (n', b)).
      { apply (filter_le1_unique (fun kv => pmatch p' (fst kv)) fs); auto. }
      congruence.
    + specialize (Hpre' _ H _ Hin). cbn [fst] in Hpre'. congruence.
    + specialize (Hpre _ H _ Hin'). cbn [fst] in Hpre. congruence.
  - intros (n & pre & p & post & E & Hin & Hm & Hpre) Hnone.
    assert (Hp : In p ps) by (rewrite E; apply in_or_app; right; now left).
    specialize (Hnone _ Hp _ Hin). cbn [fst] in Hnone. congruence.
  - intros Hnone (n & pre & p & post & E & Hin & Hm & Hpre).
    assert (Hp : In p ps) by (rewrite E; apply in_or_app; right; now left).
    specialize (Hnone _ Hp _ Hin). cbn [fst] in Hnone. congruence.
  - reflexivity.
Qed.

(* ---------- FullRead / MmapRead are what read_full / read_mmap compute ---------- *)
Lemma arr_eta (v : arr) d s l : a_dt v = d -> a_shape v = s -> a_data v = l -> v = mkarr d s l.
Proof. destruct v as [d0 s0 l0]; cbn [a_dt a_shape a_data]; intros; subst; reflexivity. Qed.

Lemma scrub_rel_map l l' :
  Forall2 (fun x y => (is_finite x = true /\ y = x) \/ (is_finite x = false /\ y = tzero)) l l' <-> l' = map scrub l.
Proof.
  split.
  - induction 1 as [|x y l l' Hxy HF IH]; [reflexivity|]. cbn [map]. rewrite IH. f_equal.
    unfold scrub. destruct Hxy as [[-> ->]|[-> ->]]; reflexivity.
  - intros ->. induction l as [|x l IH]; cbn [map]; constructor; [|exact IH].
    unfold scrub. destruct (is_finite x); [left|right]; auto.
Qed.

Lemma Scrubbed_iff a s : Scrubbed a s <-> s = scrub_arr a.
Proof.
  unfold Scrubbed, scrub_arr. split.
  - intros (Hd & Hs & Hf). apply scrub_rel_map in Hf. now apply arr_eta.
  - intros ->. cbn [a_dt a_shape a_data]. repeat split. now apply scrub_rel_map.
Qed.

Lemma Squeezed_iff a v : Squeezed a v <-> v = squeeze a.
Proof.
  unfold Squeezed, squeeze. split.
  - intros (Hd & Hl & Hs). now apply arr_eta.
  - intros ->. cbn [a_dt a_shape a_data]. repeat split.
Qed.

Lemma FullRead_iff a v : FullRead a v <-> v = read_full a.
Proof.
  unfold FullRead, read_full. split.
  - intros (s & Hs & Hv). apply Scrubbed_iff in Hs. apply Squeezed_iff in Hv. now subst.
  - intros ->. exists (scrub_arr a). split; [now apply Scrubbed_iff|now apply Squeezed_iff].
Qed.

Lemma MmapRead_iff a v : MmapRead a v <-> v = read_mmap a.
Proof. apply Squeezed_iff. Qed.

Lemma Rule_intro ps fs R dflt v :
  match src ps fs with Some a => exists x, R a x /\ v = Some x | None => v = dflt end -> Rule ps fs R dflt v.
Proof. intros H. exists (src ps fs). split; [apply src_Source|exact H]. Qed.

Lemma Read_then_intro f a : Read_then f a (f (read_full a)).
Proof. exists (read_full a). split; [now apply FullRead_iff|reflexivity]. Qed.

Lemma zl_eqb_eq a b : zl_eqb a b = true <-> a = b.
Proof.
  revert b. induction a as [|x a IH]; intros [|y b]; cbn [zl_eqb]; split; try discriminate; try reflexivity.
  - rewrite andb_true_iff, Z.eqb_eq, IH. intros [-> ->]. reflexivity.
  - intros H; injection H as -> ->. rewrite Z.eqb_refl. cbn [andb]. now apply IH.
Qed.

Section LoadX.
Variable fdiv : tok -> tok -> option tok.
Variable fmul : tok -> tok -> option tok.
Variable fround : tok -> option Z.
Variable inv_oracle : arr -> arr.
Notation load' := (load fdiv fmul fround inv_oracle).
Notation loadx' := (loadx fdiv fmul fround inv_oracle).
Notation lss := (load_spike_samples fdiv fmul fround).

(* ---------- loadx = load + the conflict test + the reordered spike times ---------- *)
Lemma loadx_inv fs rate ncd mx : loadx' fs rate ncd = XOk mx ->
  load' fs rate ncd = Ok (lx mx) /\ clusters_conflict fs = false /\
  load_reorder fdiv fs rate (hd 0 (a_shape (l_times (lx mx)))) = Ok (lx_reordered mx).
Proof.
  unfold loadx. destruct (load_head fdiv fmul fround fs rate) as [ns|e] eqn:Eh; [|discriminate].
  destruct (clusters_conflict fs) eqn:Ec; [discriminate|].
  destruct (load_sclusters fs ns) as [sc0|e] eqn:Es; [|discriminate].
  destruct (load_reorder fdiv fs rate ns) as [reo|e] eqn:Er; [|discriminate].
  destruct (load' fs rate ncd) as [m|e] eqn:El; [|discriminate].
  intros H; injection H as <-. cbn [lx lx_reordered]. split; [reflexivity|]. split; [reflexivity|].
  unfold load_head in Eh. apply rbind_ok in Eh as (st & Hst & Eh). apply rbind_ok in Eh as (ns1 & Hns & Eh).
  apply rbind_ok in Eh as (am & _ & Eh). apply rbind_ok in Eh as (stp & _ & Eh). injection Eh as <-.
  destruct (load_inv _ _ _ _ _ _ _ _ El) as (st' & ns' & sc & wmi & Hst' & _ & _ & Et & _).
  rewrite Hst in Hst'. injection Hst' as <-. rewrite Et.
  apply check_times_ok in Hns as (_ & -> & _). exact Er.
Qed.

Lemma loadx_ok_of_load fs rate ncd m reo :
  load' fs rate ncd = Ok m -> clusters_conflict fs = false ->
  load_reorder fdiv fs rate (hd 0 (a_shape (l_times m))) = Ok reo ->
  loadx' fs rate ncd = XOk (mkloadedx m reo).
Proof.
  intros El Ec Er. unfold loadx.
  destruct (load_inv _ _ _ _ _ _ _ _ El) as (st & ns & sc & wmi & Hst & Hct & _ & Et & Ham & Hstp & Hsc & _).
  unfold load_head. rewrite Hst. cbn [rbind]. rewrite Hct. cbn [rbind]. rewrite Ham. cbn [rbind].
  rewrite Hstp. cbn [rbind]. rewrite Ec, Hsc.
  apply check_times_ok in Hct as (_ & Hns & _). rewrite Et in Er. rewrite <- Hns in Er. rewrite Er, El. reflexivity.
Qed.

Lemma load_reorder_rule fs rate ns r : load_reorder fdiv fs rate ns = Ok r ->
  match src P_reorder fs with
  | Some a => exists v, r = Some v /\ a_dt v = DF64 /\ a_shape v = a_shape (read_full a) /\ a_shape v = [ns] /\
                        Forall2 (fun s t => fdiv s rate = Some t) (a_data (read_full a)) (a_data v)
  | None => r = None
  end.
Proof.
  unfold load_reorder, src. destruct (find_path P_reorder fs) as [[k a]|]; cbn [option_map snd].
  - destruct (dt_eqb _ DF32); [discriminate|]. intros H. apply rbind_ok in H as (ts & Hts & H).
    destruct (zl_eqb _ _) eqn:E; [|discriminate]. injection H as <-. apply zl_eqb_eq in E.
    eexists. split; [reflexivity|]. cbn [a_dt a_shape a_data]. repeat split; auto. now apply omap_res_Forall2.
  - intros H; injection H as <-. reflexivity.
Qed.

(* ---------- the specification theorem ---------- *)
Lemma load_spec_thm fs rate ncd mx : loadx' fs rate ncd = XOk mx ->
  Load_spec fdiv fmul fround inv_oracle fs rate ncd mx.
Proof.
  intros Hx. destruct (loadx_inv _ _ _ _ Hx) as (H & Hconf & Hreo). set (m := lx mx) in *.
  pose proof (load_attributes _ _ _ _ _ _ _ _ H) as A. cbv zeta in A.
  destruct A as (Aam & (ast & Ast1 & Ast2) & (asc & Asc1 & Asc2) & (acm & Acm1 & Acm2) & (apo & Apo1 & Apo2) &
                 Ash & Apr & (atm & Atm1 & Atm2) & Awm & Awmi & Asim).
  destruct (load_inv _ _ _ _ _ _ _ _ H) as (st & ns & sc & wmi & Hst & Hct & Es & Et & _ & _ & _ & _ & Hcm & _ & _ & _ &
                                             _ & Htc & _ & _ & _ & _ & Hat & _).
  constructor.
  - (* times *)
    unfold Times_spec. exists (src P_times_ks fs). split; [apply src_Source|].
    destruct (find_path P_times_ks fs) as [[k a]|] eqn:Ek.
    + rewrite (src_some _ _ _ _ Ek). destruct (load_times_ks _ _ _ _ _ _ _ _ _ H Ek) as (E1 & E2 & E3 & E4).
      cbn [snd] in E1. fold m in E1, E2, E3, E4. split; [now apply FullRead_iff|].
      exists (read_full a). split; [now apply FullRead_iff|]. rewrite <- E1. auto.
    + rewrite (src_none _ _ Ek). destruct (load_times_alf _ _ _ _ _ _ _ _ H Ek) as (kt & Hkt & Ett & Hs).
      fold m in Ett, Hs. destruct kt as [k t]. cbn [snd] in Ett. exists t. split.
      { pose proof (src_Source P_times_alf fs) as S. now rewrite (src_some _ _ _ _ Hkt) in S. }
      split; [now apply FullRead_iff|]. exists (src P_samples_alf fs). split; [apply src_Source|].
      destruct (find_path P_samples_alf fs) as [[k2 s]|] eqn:Es2.
      * rewrite (src_some _ _ _ _ Es2). cbn [snd] in Hs. now apply FullRead_iff.
      * rewrite (src_none _ _ Es2). exact Hs.
  - (* monotone *)
    destruct (load_times_sorted _ _ _ _ _ _ _ _ H) as (S1 & S2 & S3). fold m in S1, S2, S3. split; [exact S1|].
    unfold ndim in S2, S3. fold m.
    destruct (a_shape (l_times m)) as [|n1 [|? ?]] eqn:E1; try discriminate.
    destruct (a_shape (l_samples m)) as [|n2 [|? ?]] eqn:E2; try discriminate.
    exists n1. split; [reflexivity|]. exists n2. reflexivity.
  - (* amps *)
    apply Rule_intro. fold m. rewrite Aam. destruct (src P_amps fs) as [a|]; cbn [option_map]; [|reflexivity].
    exists (read_full a). split; [now apply FullRead_iff|reflexivity].
  - (* stemplates *)
    apply Rule_intro. rewrite Ast1. eexists. split; [|fold m; rewrite Ast2; reflexivity].
    exists (read_full ast). split; [now apply FullRead_iff|reflexivity].
  - (* sclusters *)
    exists (src P_sclusters fs). split; [apply src_Source|]. fold m. rewrite Asc1.
    destruct (src P_sclusters fs) as [f|].
    + subst asc. apply Read_then_intro.
    + exists asc. split; [|apply Read_then_intro]. pose proof (src_Source P_stemplates fs) as S. now rewrite Asc2 in S.
  - (* cmap *)
    apply Rule_intro. rewrite Acm1. eexists. split; [|fold m; rewrite Acm2; reflexivity]. apply Read_then_intro.
  - (* cmap range *)
    fold m. apply load_cmap_rule in Hcm as (a & _ & _ & _ & Hr). exact Hr.
  - (* pos *)
    apply Rule_intro. rewrite Apo1. eexists. split; [|fold m; rewrite Apo2; reflexivity]. apply Read_then_intro.
  - (* shanks *)
    apply Rule_intro. fold m. rewrite Ash. destruct (src P_shanks fs) as [a|]; [|reflexivity].
    eexists. split; [apply Read_then_intro|reflexivity].
  - (* probes *)
    apply Rule_intro. fold m. rewrite Apr. destruct (src P_probes fs) as [a|]; [|reflexivity].
    eexists. split; [apply Read_then_intro|reflexivity].
  - (* templates *)
    apply Rule_intro. rewrite Atm1. exists (l_tdata m). split; [|reflexivity].
    exists (squeeze atm). split; [now apply MmapRead_iff|exact Atm2].
  - (* tcols *)
    apply Rule_intro. fold m. unfold load_tcols, src in *. destruct (find_path P_tcols fs) as [[k a]|]; cbn [option_map snd].
    + destruct (zl_eqb _ _); [|discriminate]. injection Htc as <-. exists (read_full a).
      split; [now apply FullRead_iff|reflexivity].
    + now injection Htc as <-.
  - (* wm *)
    apply Rule_intro. fold m. rewrite Awm. destruct (src P_wm fs) as [a|]; [|reflexivity].
    eexists. split; [apply Read_then_intro|reflexivity].
  - (* wmi *)
    apply Rule_intro. fold m. rewrite Awmi. destruct (src P_wmi fs) as [a|]; [|reflexivity].
    eexists. split; [apply Read_then_intro|reflexivity].
  - (* similar *)
    apply Rule_intro. fold m. rewrite Asim. destruct (src P_similar fs) as [a|]; [|reflexivity].
    eexists. split; [apply Read_then_intro|reflexivity].
  - (* attrs *)
    fold m. apply check_times_ok in Hct as (_ & Hns & _). rewrite <- Et in Hns. rewrite <- Hns.
    intros n a. rewrite (load_attrs_spec _ _ _ Hat n a). split.
    + intros (fname & f & H1 & H2 & H3 & H4 & H5). exists fname, f. repeat split; auto. now apply FullRead_iff.
    + intros (fname & f & H1 & H2 & H3 & H4 & H5). exists fname, f. repeat split; auto. now apply FullRead_iff.
  - (* reorder *)
    apply Rule_intro. fold m in Hreo. apply load_reorder_rule in Hreo.
    destruct (src P_reorder fs) as [a|]; [|exact Hreo]. destruct Hreo as (v & -> & V1 & V2 & _ & V4).
    exists v. split; [|reflexivity]. exists (read_full a). split; [now apply FullRead_iff|auto].
  - (* created *)
    exists (src P_sclusters fs), (src P_stemplates fs), (src P_wmi fs).
    split; [apply src_Source|]. split; [apply src_Source|]. split; [apply src_Source|].
    fold m. apply (load_frame _ _ _ _ _ _ _ _ H).
  - exact Hconf.
Qed.

(* ---------- totality on well-formed directories ---------- *)
Lemma shape_if_src ps fs f sh : shape_if (osrc ps fs) f sh = true ->
  match find_path ps fs with Some (_, a) => zl_eqb (a_shape (f a)) sh = true | None => True end.
Proof. unfold shape_if, osrc. destruct (find_path ps fs) as [[k a]|]; cbn [option_map snd]; auto. Qed.

Lemma zero_nan_shape x v : zero_nan_templates x = Ok v -> a_shape v = a_shape x /\ a_dt v = a_dt x.
Proof.
  unfold zero_nan_templates. destruct (a_shape x) as [|a [|b [|c [|? ?]]]]; try discriminate.
  intros H; injection H as <-. split; reflexivity.
Qed.
Lemma zero_nan_total x : List.length (a_shape x) = 3%nat -> exists v, zero_nan_templates x = Ok v.
Proof.
  unfold zero_nan_templates. destruct (a_shape x) as [|a [|b [|c [|? ?]]]]; try discriminate.
  intros _. eexists. reflexivity.
Qed.

Lemma load_spike_attrs_total fs ns :
  forallb (fun kv => match spike_attr_name (fst kv) with
                     | Some n => str_in n SKIP_SPIKE_ATTRS || negb (Nat.eqb (List.length (a_shape (read_full (snd kv)))) 0)
                     | None => true end) fs = true ->
  exists l, load_spike_attrs fs ns = Ok l.
Proof.
  induction fs as [|[k a] r IH]; cbn [forallb load_spike_attrs fold_right]; [intros _; now eexists|].
  fold (load_spike_attrs r ns). rewrite andb_true_iff. intros [H1 H2]. destruct (IH H2) as (l & ->). cbn [rbind fst snd] in *.
  destruct (spike_attr_name k) as [n|]; [|now eexists].
  destruct (str_in n SKIP_SPIKE_ATTRS); [now eexists|]. cbn [orb] in H1.
  destruct (a_shape (read_full a)) as [|d0 ds]; [discriminate|]. destruct (d0 =? ns); now eexists.
Qed.

Lemma omap_res_total {A B} (f : A -> option B) l :
  forallb (fun x => is_some (f x)) l = true -> exists l', omap_res f l = Ok l'.
Proof.
  induction l as [|x r IH]; cbn [forallb omap_res]; [intros _; now eexists|].
  rewrite andb_true_iff. intros [H1 H2]. destruct (f x); [|discriminate]. destruct (IH H2) as (l' & ->).
  cbn [rbind]. now eexists.
Qed.

(* the outcome of loading a well-formed directory: a model when the spike times are non-decreasing, the
   documented rejection when they are not -- never an assertion, a missing file or a state outside the model *)
Lemma load_total fs rate ncd : wf_b fdiv fmul fround fs rate ncd = true ->
  if monotone_b fdiv fmul fround fs rate
  then exists mx, loadx' fs rate ncd = XOk mx
  else loadx' fs rate ncd = XErr ERejected.
Proof.
  unfold wf_b, monotone_b, wf_times.
  destruct (lss fs rate) as [st|e] eqn:Est; [|discriminate].
  destruct (a_shape (snd st)) as [|ns [|? ?]] eqn:Esh; try discriminate.
  destruct (toks_sorted (a_data (snd st))) as [srt|] eqn:Esrt; [|discriminate].
  destruct (zl_eqb (a_shape (fst st)) [ns]) eqn:Essh; [|discriminate]. apply zl_eqb_eq in Essh.
  destruct (cmap_of fs) as [cm|] eqn:Ecm; [|discriminate].
  destruct (tmpl_of fs) as [tm|] eqn:Etm; [|discriminate].
  rewrite !andb_true_iff.
  intros W.
  destruct W as [W Wat].
  destruct W as [W Wsim].
  destruct W as [W Wwmi].
  destruct W as [W Wwm].
  destruct W as [W Wtc].
  destruct W as [W Wt2].
  destruct W as [W Wt1].
  destruct W as [W Wpr].
  destruct W as [W Wsh].
  destruct W as [W Wdist].
  destruct W as [W Wpo].
  destruct W as [W Wc3].
  destruct W as [W Wc2].
  destruct W as [W Wc1].
  destruct W as [W Wre].
  destruct W as [W Wsc].
  destruct W as [W Wcf].
  destruct W as [W Wst].
  destruct W as [W Wam].
  destruct W as [W Wwf].
  destruct W as [W Wnd].
  apply negb_true_iff in Wcf.
  (* check_times *)
  assert (Hct : check_times (fst st) (snd st) = if srt then Ok ns else Err ERejected).
  { unfold check_times, ndim. rewrite Esh, Essh, Esrt. cbn. destruct srt; reflexivity. }
  (* amplitudes *)
  assert (Ham : exists r, load_amps fs ns = Ok r).
  { apply shape_if_src in Wam. unfold load_amps. destruct (find_path P_amps fs) as [[k a]|]; [|now eexists].
    unfold ndim. rewrite Wam. apply zl_eqb_eq in Wam. rewrite Wam. cbn. now eexists. }
  (* spike templates *)
  assert (Hstp : exists r, load_stemplates fs ns = Ok r /\ a_shape r = [ns]).
  { unfold load_stemplates, osrc in *. destruct (find_path P_stemplates fs) as [[k a]|]; cbn [option_map snd] in Wst; [|discriminate].
    apply andb_true_iff in Wst as [W1 W2]. rewrite read_full_dt.
    destruct (dt_is_float (a_dt a)) eqn:Ef.
    - cbn [astype a_dt a_shape]. rewrite W2. cbn. eexists. split; [reflexivity|]. cbn [a_shape]. now apply zl_eqb_eq.
    - cbn [orb] in W1. rewrite read_full_dt, W1, W2. cbn. eexists. split; [reflexivity|]. now apply zl_eqb_eq. }
  destruct Ham as (am & Ham). destruct Hstp as (stp & Hstp & Hstpsh).
  (* spike clusters *)
  assert (Hsc : exists r, load_sclusters fs ns = Ok r).
  { apply shape_if_src in Wsc. unfold load_sclusters, sclusters_source.
    destruct (find_path P_sclusters fs) as [[k a]|].
    - cbn [rbind fst snd astype a_shape]. rewrite Wsc. now eexists.
    - unfold load_stemplates in Hstp. destruct (find_path P_stemplates fs) as [[k a]|]; [|discriminate].
      cbn [rbind fst snd astype a_shape].
      assert (E : a_shape (read_full a) = [ns]).
      { destruct (dt_is_float (a_dt (read_full a))); destruct (_ && _) in Hstp; try discriminate;
          injection Hstp as <-; exact Hstpsh. }
      rewrite E. cbn. rewrite Z.eqb_refl. now eexists. }
  destruct Hsc as (sc & Hsc).
  (* reordered times *)
  assert (Hre : exists r, load_reorder fdiv fs rate ns = Ok r).
  { unfold load_reorder, osrc in *. destruct (find_path P_reorder fs) as [[k a]|]; cbn [option_map snd] in Wre; [|now eexists].
    apply andb_true_iff in Wre as [W12 W3]. apply andb_true_iff in W12 as [W1 W2].
    rewrite read_full_dt. apply negb_true_iff in W1. rewrite W1.
    destruct (omap_res_total _ _ W3) as (ts & ->). cbn [rbind]. rewrite W2. now eexists. }
  destruct Hre as (reo & Hre).
  (* channel map *)
  assert (Hcm : load_cmap fs ncd = Ok cm).
  { unfold load_cmap, cmap_of, osrc in *. destruct (find_path P_cmap fs) as [[k a]|]; cbn [option_map snd] in Ecm; [|discriminate].
    injection Ecm as <-. unfold ndim. rewrite Wc1, Wc2. cbn [andb negb].
    destruct ncd as [kk|]; [rewrite Wc3|]; reflexivity. }
  set (nc := hd 0 (a_shape cm)) in *.
  assert (Hpo : exists r, load_pos fs nc = Ok r).
  { unfold load_pos, shape_of, osrc in *. destruct (find_path P_pos fs) as [[k a]|]; cbn [option_map snd] in Wpo; [|discriminate].
    rewrite Wpo. now eexists. }
  assert (Hsh : exists r, load_shanks fs nc = Ok r).
  { apply shape_if_src in Wsh. unfold load_shanks. destruct (find_path P_shanks fs) as [[k a]|]; [|now eexists].
    rewrite Wsh. now eexists. }
  assert (Hpr : exists r, load_probes fs nc = Ok r).
  { apply shape_if_src in Wpr. unfold load_probes. destruct (find_path P_probes fs) as [[k a]|]; [|now eexists].
    rewrite Wpr. now eexists. }
  assert (Htm : exists r, load_templates fs = Ok r /\ a_shape r = a_shape tm).
  { unfold load_templates, tmpl_of, osrc in *. destruct (find_path P_templates fs) as [[k a]|]; cbn [option_map snd] in Etm; [|discriminate].
    injection Etm as <-. rewrite Wt1. cbn [negb]. apply Nat.eqb_eq in Wt2.
    destruct (zero_nan_total _ Wt2) as (v & Hv). exists v. split; [exact Hv|]. now apply zero_nan_shape in Hv. }
  destruct Hpo as (po & Hpo). destruct Hsh as (sh & Hsh). destruct Hpr as (pr & Hpr). destruct Htm as (tmv & Htm & Htmsh).
  set (nt := hd 0 (a_shape tm)) in *.
  assert (Htc : exists r, load_tcols fs nt (nth 2 (a_shape tm) 0) = Ok r).
  { apply shape_if_src in Wtc. unfold load_tcols. destruct (find_path P_tcols fs) as [[k a]|]; [|now eexists].
    rewrite Wtc. now eexists. }
  assert (Hwm : exists r, load_wm fs nc = Ok r).
  { apply shape_if_src in Wwm. unfold load_wm. destruct (find_path P_wm fs) as [[k a]|]; [|now eexists].
    rewrite Wwm. now eexists. }
  destruct Htc as (tc & Htc). destruct Hwm as (wm & Hwm).
  assert (Hwmi : exists r, load_wmi inv_oracle fs nc wm = Ok r).
  { apply shape_if_src in Wwmi. unfold load_wmi. destruct (find_path P_wmi fs) as [[k a]|]; [|now eexists].
    rewrite Wwmi. now eexists. }
  assert (Hsim : exists r, load_similar fs nt = Ok r).
  { apply shape_if_src in Wsim. unfold load_similar. destruct (find_path P_similar fs) as [[k a]|]; [|now eexists].
    rewrite Wsim. now eexists. }
  destruct Hwmi as (wmi & Hwmi). destruct Hsim as (sim & Hsim).
  destruct (load_spike_attrs_total fs ns Wat) as (ats & Hat).
  destruct srt.
  - (* accepted *)
    assert (El : exists m, load' fs rate ncd = Ok m /\ l_times m = snd st).
    { unfold load. rewrite Est. cbn [rbind]. rewrite Hct. cbn [rbind]. rewrite Ham. cbn [rbind]. rewrite Hstp. cbn [rbind].
      rewrite Hsc. cbn [rbind]. rewrite Hcm. cbn [rbind]. fold nc. rewrite Hpo. cbn [rbind]. rewrite Hsh. cbn [rbind].
      rewrite Hpr. cbn [rbind]. rewrite Htm. cbn [rbind]. rewrite Htmsh. fold nt. rewrite Htc. cbn [rbind].
      rewrite Hwm. cbn [rbind]. rewrite Hwmi. cbn [rbind]. rewrite Hsim. cbn [rbind]. rewrite Hat. cbn [rbind].
      eexists. split; reflexivity. }
    destruct El as (m & El & Et). exists (mkloadedx m reo). apply loadx_ok_of_load; [exact El|exact Wcf|].
    rewrite Et, Esh. exact Hre.
  - (* rejected *)
    unfold loadx, load_head. rewrite Est. cbn [rbind]. rewrite Hct. reflexivity.
Qed.

(* rejection is exactly non-monotonicity, on well-formed directories *)
Lemma load_rejected_iff fs rate ncd : wf_b fdiv fmul fround fs rate ncd = true ->
  (loadx' fs rate ncd = XErr ERejected <-> monotone_b fdiv fmul fround fs rate = false).
Proof.
  intros W. pose proof (load_total _ _ _ W) as T. destruct (monotone_b fdiv fmul fround fs rate).
  - destruct T as (mx & ->). split; discriminate.
  - split; auto.
Qed.
End LoadX.
