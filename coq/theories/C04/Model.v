(* C04/Model.v -- executable model of TemplateModel._load_data (phylib/io/model.py) on an abstract
   dataset directory: which file feeds which attribute, squeeze / atleast_nd / astype, the documented
   defaults, NaN/inf scrubbing of fully loaded arrays, the monotonicity rejection, the two files that
   loading may create.  No proofs here. *)
From Coq Require Import ZArith List Bool String.
From PV Require Import Base.Tok Base.TokArith.
Import ListNotations.
Open Scope string_scope.
Open Scope list_scope.
Open Scope Z_scope.

Inductive pat := PExact (s : string) | PGlob (pre suf : string).
Definition pmatch (p : pat) (s : string) : bool :=
  match p with PExact n => String.eqb n s | PGlob a b => glob1 a b s end.

Definition files := list (string * arr).

(* Path.glob(name)[0] for one pattern (the regime has at most one match per pattern) *)
Definition find1 (p : pat) (fs : files) : option (string * arr) :=
  find (fun kv => pmatch p (fst kv)) fs.
(* TemplateModel._find_path: first pattern, in the given priority order, that has a match *)
Fixpoint find_path (ps : list pat) (fs : files) : option (string * arr) :=
  match ps with
  | [] => None
  | p :: r => match find1 p fs with Some x => Some x | None => find_path r fs end
  end.
Definition n_matches (p : pat) (fs : files) : nat := List.length (filter (fun kv => pmatch p (fst kv)) fs).

(* the priority lists of model.py *)
Definition P_times_ks := [PExact "spike_times.npy"].
Definition P_times_alf := [PGlob "spikes.times" ".npy"].
Definition P_samples_alf := [PGlob "spikes.samples" ".npy"].
Definition P_amps := [PExact "amplitudes.npy"; PGlob "spikes.amps" ".npy"].
Definition P_stemplates := [PExact "spike_templates.npy"; PGlob "spikes.templates" ".npy"].
Definition P_sclusters := [PExact "spike_clusters.npy"; PGlob "spikes.clusters" ".npy"].
Definition P_cmap := [PExact "channel_map.npy"; PGlob "channels.rawInd" ".npy"].
Definition P_pos := [PExact "channel_positions.npy"; PGlob "channels.localCoordinates" ".npy"].
Definition P_probes := [PExact "channel_probe.npy"; PGlob "channels.probes" ".npy"].
Definition P_shanks := [PExact "channel_shanks.npy"; PGlob "channels.shanks" ".npy"].
Definition P_templates := [PExact "templates.npy"; PExact "templates.waveforms.npy"; PGlob "templates.waveforms." ".npy"].
Definition P_tcols := [PExact "template_ind.npy"; PGlob "templates.waveformsChannels" ".npy"].
Definition P_wm := [PExact "whitening_mat.npy"].
Definition P_wmi := [PExact "whitening_mat_inv.npy"].
Definition P_similar := [PExact "similar_templates.npy"].
Definition all_patterns : list pat :=
  P_times_ks ++ P_times_alf ++ P_samples_alf ++ P_amps ++ P_stemplates ++ P_sclusters ++ P_cmap ++ P_pos ++
  P_probes ++ P_shanks ++ P_templates ++ P_tcols ++ P_wm ++ P_wmi ++ P_similar.

Inductive err :=
| ERejected        (* ValueError("The spike times must be increasing.") *)
| EMissing         (* IOError: a mandatory file is absent *)
| EAssert          (* an assertion / shape check of the loader fails *)
| ERegime.         (* outside what the model describes (harness bug if it happens) *)
Inductive res (A : Type) := Ok (a : A) | Err (e : err).
Arguments Ok {A}. Arguments Err {A}.
Definition rbind {A B} (r : res A) (f : A -> res B) : res B := match r with Ok a => f a | Err e => Err e end.
Notation "'do' x <- r ; k" := (rbind r (fun x => k)) (at level 200, x name, r at level 100, k at level 200).

Definition scrub_arr (a : arr) : arr := mkarr (a_dt a) (a_shape a) (map scrub (a_data a)).
(* _read_array(path): fully loaded, NaN/inf -> 0, squeezed *)
Definition read_full (a : arr) : arr := squeeze (scrub_arr a).
(* _read_array(path, mmap_mode=...): no scrubbing *)
Definition read_mmap (a : arr) : arr := squeeze a.
Definition astype (d : dt) (a : arr) : arr := mkarr d (a_shape a) (a_data a).
Definition ndim (a : arr) : nat := List.length (a_shape a).
Definition dt_in (d : dt) (l : list dt) : bool := existsb (dt_eqb d) l.
Definition zeros (d : dt) (shape : list Z) : arr := mkarr d shape (repeat tzero (Z.to_nat (prodZ shape))).
Definition eye (n : Z) : arr := mkarr DF64 [n; n] (List.concat (identity (Z.to_nat n))).

Fixpoint omap_res {A B} (f : A -> option B) (l : list A) : res (list B) :=
  match l with
  | [] => Ok []
  | x :: r => match f x with None => Err ERegime | Some y => do ys <- omap_res f r; Ok (y :: ys) end
  end.

Record loaded := mkloaded {
  l_samples : arr; l_times : arr; l_amps : option arr; l_stemplates : arr; l_sclusters : arr;
  l_cmap : arr; l_pos : arr; l_shanks : arr; l_probes : arr;
  l_tdata : arr; l_tcols : option arr; l_wm : arr; l_wmi : arr; l_similar : arr;
  l_attrs : list (string * arr);
  l_created : files            (* files the load creates, with their content *)
}.

Section Load.
(* one correctly rounded binary64 operation each; instantiated with primitive floats in Corr.v,
   universally quantified in the theorems *)
Variable fdiv : tok -> tok -> option tok.
Variable fmul : tok -> tok -> option tok.
Variable fround : tok -> option Z.           (* np.round, half to even *)
(* np.linalg.inv of the whitening matrix: supplied as an oracle, judged by is_inverse in Spec.v *)
Variable inv_oracle : arr -> arr.

Definition load_spike_samples (fs : files) (rate : tok) : res (arr * arr) :=
  match find_path P_times_ks fs with
  | Some (_, a) =>
      let samples := read_full a in
      do ts <- omap_res (fun s => fdiv s rate) (a_data samples);
      Ok (samples, mkarr DF64 (a_shape samples) ts)
  | None =>
      match find_path P_times_alf fs with
      | None => Err EMissing
      | Some (_, t) =>
          let times := read_full t in
          match find_path P_samples_alf fs with
          | Some (_, s) => Ok (read_full s, times)
          | None =>
              do ss <- omap_res (fun x => obind (fmul x rate) (fun p => option_map tz (fround p))) (a_data times);
              Ok (mkarr DU64 (a_shape times) ss, times)
          end
      end
  end.

Definition SKIP_SPIKE_ATTRS := ["clusters"; "templates"; "samples"; "times"; "times_reordered"; "amplitudes"].
Definition str_in (s : string) (l : list string) : bool := existsb (String.eqb s) l.
(* "spike_<n>.npy" -> Some n *)
Definition spike_attr_name (fname : string) : option string :=
  if starts_with "spike_" fname && ends_with ".npy" fname && Nat.leb 10 (String.length fname)
  then Some (substring 6 (String.length fname - 10) fname) else None.

Definition load_spike_attrs (fs : files) (ns : Z) : res (list (string * arr)) :=
  fold_right (fun kv acc =>
    do l <- acc;
    match spike_attr_name (fst kv) with
    | None => Ok l
    | Some n =>
        if str_in n SKIP_SPIKE_ATTRS then Ok l else
        let a := read_full (snd kv) in
        match a_shape a with
        | [] => Err ERegime                    (* arr.shape[0] on a 0-d array: IndexError *)
        | d0 :: _ => if d0 =? ns then Ok ((n, a) :: l) else Ok l
        end
    end) (Ok []) fs.

Definition load_amps (fs : files) (ns : Z) : res (option arr) :=
  match find_path P_amps fs with
  | None => Ok None
  | Some (_, a) => let x := read_full a in
                   if (ndim x =? 1)%nat && zl_eqb (a_shape x) [ns] then Ok (Some x) else Err EAssert
  end.

Definition load_stemplates (fs : files) (ns : Z) : res arr :=
  match find_path P_stemplates fs with
  | None => Err EMissing
  | Some (_, a) =>
      let x := read_full a in
      let x := if dt_is_float (a_dt x) then astype DI32 x else x in
      if dt_in (a_dt x) [DU16; DU32; DI32; DI64] && zl_eqb (a_shape x) [ns] then Ok x else Err EAssert
  end.

(* the file feeding spike_clusters, and the copy created when it is absent *)
Definition sclusters_source (fs : files) : res (arr * files) :=
  match find_path P_sclusters fs with
  | Some (_, a) => Ok (a, [])
  | None => match find_path P_stemplates fs with
            | None => Err EMissing
            | Some (_, a) => Ok (a, [("spike_clusters.npy", a)])
            end
  end.
Definition load_sclusters (fs : files) (ns : Z) : res (arr * files) :=
  do sc <- sclusters_source fs;
  let sclu := astype DI32 (read_full (fst sc)) in
  if zl_eqb (a_shape sclu) [ns] then Ok (sclu, snd sc) else Err EAssert.

Definition load_cmap (fs : files) (ncd : option Z) : res arr :=
  match find_path P_cmap fs with
  | None => Err EMissing
  | Some (_, a) =>
      let x := atleast_1d (read_full a) in
      if negb ((ndim x =? 1)%nat && dt_in (a_dt x) [DU32; DI32; DI64]) then Err EAssert else
      if match ncd with
         | Some k => negb (forallb (fun t => match tok_Z t with Some z => z <=? k - 1 | None => false end) (a_data x))
         | None => false end then Err EAssert else Ok x
  end.

Definition load_pos (fs : files) (nc : Z) : res arr :=
  match find_path P_pos fs with
  | None => Err EMissing
  | Some (_, a) => let x := atleast_2d (read_full a) in
                   if zl_eqb (a_shape x) [nc; 2] then Ok x else Err EAssert
  end.

Definition flatten (x : arr) : arr := mkarr (a_dt x) [prodZ (a_shape x)] (a_data x).   (* reshape((-1,)) *)
Definition load_shanks (fs : files) (nc : Z) : res arr :=
  match find_path P_shanks fs with
  | None => Ok (zeros DI32 [nc])
  | Some (_, a) => let x := flatten (read_full a) in
                   if zl_eqb (a_shape x) [nc] then Ok x else Err EAssert
  end.
Definition load_probes (fs : files) (nc : Z) : res arr :=
  match find_path P_probes fs with
  | None => Ok (zeros DI32 [nc])
  | Some (_, a) => let x := atleast_1d (read_full a) in
                   if zl_eqb (a_shape x) [nc] then Ok x else Err EAssert
  end.

Definition is_nan (v : tok) : bool := match v with TNaN => true | _ => false end.
(* templates are memory-mapped (no scrubbing); all-NaN templates are zeroed in memory *)
Definition zero_nan_templates (x : arr) : res arr :=
  match a_shape x with
  | [nt; nsw; ncl] =>
      let per := Z.to_nat (nsw * ncl) in
      let ts := chunks per (Z.to_nat nt) (a_data x) in
      let ts' := map (fun t => if forallb is_nan t then repeat tzero per else t) ts in
      Ok (mkarr (a_dt x) [nt; nsw; ncl] (List.concat ts'))
  | _ => Err EAssert
  end.
Definition load_templates (fs : files) : res arr :=
  match find_path P_templates fs with
  | None => Err ERegime              (* no template file: outside the modelled regime *)
  | Some (_, a) =>
      let x := atleast_3d (read_mmap a) in
      if negb (dt_is_float (a_dt x)) then Err EAssert else zero_nan_templates x
  end.
Definition load_tcols (fs : files) (nt ncl : Z) : res (option arr) :=
  match find_path P_tcols fs with
  | None => Ok None
  | Some (_, a) => let x := read_full a in
                   if zl_eqb (a_shape x) [nt; ncl] then Ok (Some x) else Err ERegime
  end.

Definition load_wm (fs : files) (nc : Z) : res arr :=
  match find_path P_wm fs with
  | None => Ok (eye nc)
  | Some (_, a) => let x := atleast_2d (read_full a) in
                   if zl_eqb (a_shape x) [nc; nc] then Ok x else Err EAssert
  end.
Definition load_wmi (fs : files) (nc : Z) (wm : arr) : res (arr * files) :=
  match find_path P_wmi fs with
  | Some (_, a) => let x := atleast_2d (read_full a) in
                   if zl_eqb (a_shape x) [nc; nc] then Ok (x, []) else Err EAssert
  | None => let x := inv_oracle wm in Ok (x, [("whitening_mat_inv.npy", x)])
  end.
Definition load_similar (fs : files) (nt : Z) : res arr :=
  match find_path P_similar fs with
  | None => Ok (zeros DF64 [nt; nt])
  | Some (_, a) => let x := atleast_2d (read_full a) in
                   if zl_eqb (a_shape x) [nt; nt] then Ok x else Err EAssert
  end.

Definition check_times (samples times : arr) : res Z :=
  if negb ((ndim samples =? 1)%nat && (ndim times =? 1)%nat) then Err EAssert else
  match toks_sorted (a_data times) with
  | None => Err ERegime
  | Some false => Err ERejected
  | Some true => Ok (hd 0 (a_shape times))
  end.

Definition load (fs : files) (rate : tok) (ncd : option Z) : res loaded :=
  do st <- load_spike_samples fs rate;
  do ns <- check_times (fst st) (snd st);
  do amps <- load_amps fs ns;
  do stemp <- load_stemplates fs ns;
  do sc <- load_sclusters fs ns;
  do cmap <- load_cmap fs ncd;
  let nc := hd 0 (a_shape cmap) in
  do pos <- load_pos fs nc;
  do shanks <- load_shanks fs nc;
  do probes <- load_probes fs nc;
  do tmpl <- load_templates fs;
  let nt := hd 0 (a_shape tmpl) in
  do tcols <- load_tcols fs nt (nth 2 (a_shape tmpl) 0);
  do wm <- load_wm fs nc;
  do wmi <- load_wmi fs nc wm;
  do sim <- load_similar fs nt;
  do attrs <- load_spike_attrs fs ns;
  Ok (mkloaded (fst st) (snd st) amps stemp (fst sc) cmap pos shanks probes tmpl tcols wm (fst wmi) sim attrs
               (snd sc ++ snd wmi)).
End Load.

(* raw traces: the concatenated files with the columns selected by the channel map *)
Definition select_cols (cmap : list Z) (row : list tok) : option (list tok) :=
  omap (fun c => if (0 <=? c) && (c <? Z.of_nat (List.length row)) then nth_error row (Z.to_nat c) else None) cmap.
Definition traces_full (raw_files : list (list (list tok))) (cmap : list Z) : option (list (list tok)) :=
  omap (select_cols cmap) (List.concat raw_files).
