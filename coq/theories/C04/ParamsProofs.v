(* C04/ParamsProofs.v -- the three construction routes (Params.v) pass the same arguments. *)
From Coq Require Import ZArith List Bool String Ascii Lia.
From PV Require Import Base.Tok C04.Params.
Import ListNotations.
Open Scope string_scope.
Open Scope list_scope.
Open Scope Z_scope.

Lemma starts_with_app_slash dir p : is_abs dir = true -> is_abs (join dir p) = true.
Proof.
  unfold is_abs, join. destruct dir as [|c r]; cbn [starts_with]; [discriminate|].
  cbn [append starts_with]. destruct (Ascii.eqb "/" c); [reflexivity|discriminate].
Qed.

Lemma make_abs_rel dir names : Forall (fun n => is_abs n = false) names -> map (make_abs dir) names = map (join dir) names.
Proof. induction 1 as [|n r Hn HF IH]; cbn [map]; [reflexivity|]. unfold make_abs at 1. now rewrite Hn, IH. Qed.
Lemma make_abs_abs dir names : is_abs dir = true -> map (make_abs dir) (map (join dir) names) = map (join dir) names.
Proof.
  intros Hd. induction names as [|n r IH]; cbn [map]; [reflexivity|]. unfold make_abs at 1.
  now rewrite (starts_with_app_slash _ _ Hd), IH.
Qed.

Lemma rp_params names dtype offset rate ncd :
  read_python (route_params names dtype offset rate ncd) =
  [("dat_path", PStrs names); ("n_channels_dat", PInt ncd); ("dtype", PStr dtype); ("offset", PInt offset);
   ("sample_rate", PFloat rate); ("hp_filtered", PBool false)].
Proof. vm_compute. reflexivity. Qed.
Lemma rp_params_alt dir names dtype offset rate ncd :
  read_python (route_params_alt dir names dtype offset rate ncd) =
  [("dat_path", match names with [n] => PStr n | _ => PStrs (map (join dir) names) end);
   ("n_channels_dat", PInt ncd); ("dtype", PStr dtype); ("offset", PInt offset); ("sample_rate", PFloat rate);
   ("hp_filtered", PBool true)].
Proof. unfold route_params_alt. generalize (match names with [n] => PStr n | _ => PStrs (map (join dir) names) end).
  intros v. vm_compute. reflexivity. Qed.
(* the three routes hand TemplateModel.__init__ the same arguments *)
Theorem routes_agree dir names dtype offset rate ncd :
  is_abs dir = true -> Forall (fun n => is_abs n = false) names -> tok_eqb rate tzero = false ->
  let c := mkctor dir (map (join dir) names) dtype offset rate (Some ncd) in
  init_args (route_kwargs dir names dtype offset rate ncd) = Some c /\
  load_model_args dir (route_params names dtype offset rate ncd) = Some c /\
  load_model_args dir (route_params_alt dir names dtype offset rate ncd) = Some c.
Proof.
  intros Hd Hn Hr c. split; [|split].
  - unfold route_kwargs, init_args. destruct names as [|n r].
    + cbn - [tok_eqb tzero map join]. rewrite Hr. reflexivity.
    + cbn - [tok_eqb tzero map join]. rewrite Hr. reflexivity.
  - unfold load_model_args, get_template_params. rewrite rp_params. cbn - [tok_eqb tzero map join make_abs]. rewrite Hr.
    rewrite (make_abs_rel _ _ Hn). reflexivity.
  - unfold load_model_args, get_template_params. rewrite rp_params_alt.
    destruct names as [|n [|n2 r]].
    + cbn - [tok_eqb tzero]. rewrite Hr. reflexivity.
    + cbn - [tok_eqb tzero join make_abs]. rewrite Hr. inversion Hn as [|? ? Hn1 _]; subst. unfold make_abs. rewrite Hn1. reflexivity.
    + cbn - [tok_eqb tzero map make_abs join]. rewrite Hr. rewrite (make_abs_abs _ _ Hd). reflexivity.
Qed.

