(* C04/Corr.v -- comparator for the loader.  codes:
   1  observed differs from the model          3  input outside the stated regime (harness bug):
                                                  a generated directory on which wf_b (Spec.v) is false, or a
                                                  "malformed" case the model accepts
   20 load failed/crashed on a well-formed dataset
   21 spike samples / times (+ spike_times_reordered)   22 spike templates / clusters / amplitudes
   23 channel map / positions / shanks / probes  24 template waveforms (+ column table)
   25 whitening matrix / inverse (a pre-existing inverse file: its content; a computed inverse is judged in exact
      arithmetic: every entry of wm * wmi - I is at most 2^-30)
   26 similar templates   27 extra per-spike attributes   28 frame: pre-existing files changed, or
   files created other than the spike-cluster copy / inverse whitening matrix when missing (or wrong content)
   29 non-monotonic spike times not rejected   30 raw traces (columns permuted by the channel map)
   31 constructor arguments: kwargs / load_model(params.py) / alternative params.py spelling give the arguments
      the model of get_template_params + read_python + __init__ computes
   Malformed directories (InMalformed: exactly one well-formedness condition broken by the generator) are judged
   on the determined observable only (code 1): the exception class of the model's error exit. *)
From Coq Require Import ZArith List Bool String.
From PV Require Export Base.Tok Base.TokArith Base.FloatTok C04.Model C04.Model2 C04.Spec C04.Params.
Import ListNotations.
Open Scope string_scope.
Open Scope list_scope.
Open Scope Z_scope.

Inductive route_in := RKw (d : dict) | RPy (a : list (string * pyval)).
Record inp := mkinp { i_files : files; i_rate : tok; i_ncd : option Z;
                      i_raw : option (list (list (list tok)));
                      i_dir : string;                 (* placeholder for the dataset directory *)
                      i_names : list string;          (* raw file names, relative to the directory *)
                      i_route : route_in }.
Record obsrec := mkobs {
  o_samples : arr; o_times : arr; o_amps : option arr; o_stemplates : arr; o_sclusters : arr;
  o_cmap : arr; o_pos : arr; o_shanks : arr; o_probes : arr;
  o_tdata : arr; o_tcols : option arr; o_wm : arr; o_wmi : arr; o_similar : arr;
  o_attrs : list (string * arr);
  o_new : files;                 (* files present after loading that were not there before, as np.load reads them *)
  o_changed : list string;       (* pre-existing files whose bytes changed or that disappeared *)
  o_traces : option arr;         (* model.traces[:] as a 2-d array, None when there is no raw data *)
  o_reordered : option arr;      (* model.spike_times_reordered *)
  o_ctor : ctor                  (* dir_path, dat_path, dtype, offset, sample_rate, n_channels_dat of the model *)
}.
Inductive input := InLoad (i : inp) | InMalformed (i : inp).
Inductive observed := ObsLoaded (o : obsrec) | ObsRejected | ObsCrash | ObsCrashX (x : exn).
Record case := { cid : Z; cin : input; cobs : observed }.

Definition flag (code : Z) (ok : bool) : list Z := if ok then [] else [code].
Definition oarr_eqb (a b : option arr) : bool :=
  match a, b with Some x, Some y => arr_eqb x y | None, None => true | _, _ => false end.
Fixpoint files_eqb (a b : files) : bool :=
  match a, b with
  | [], [] => true
  | (k, x) :: a', (k', y) :: b' => String.eqb k k' && arr_eqb x y && files_eqb a' b'
  | _, _ => false
  end.
Definition cmap_Z (a : arr) : option (list Z) := omap tok_Z (a_data a).

Definition wf_c (i : inp) : bool := wf_b fdiv_tok fmul_tok round_half_even_tok (i_files i) (i_rate i) (i_ncd i).
Definition loadc (oracle : arr -> arr) (i : inp) : xres loadedx :=
  loadx fdiv_tok fmul_tok round_half_even_tok oracle (i_files i) (i_rate i) (i_ncd i).

(* the constructor arguments the route's model computes, and what they must be for this dataset *)
Definition route_ctor (i : inp) : option ctor :=
  match i_route i with RKw d => init_args d | RPy a => load_model_args (i_dir i) a end.
Definition ctor_ok (i : inp) (c : ctor) : bool :=
  match route_ctor i with
  | Some k => ctor_eqb k c && tok_eqb (k_rate k) (i_rate i) && optz_eqb (k_ncd k) (i_ncd i) &&
              String.eqb (k_dir k) (i_dir i) && strl_eqb (k_dats k) (map (join (i_dir i)) (i_names i))
  | None => false
  end.

Definition check_load (i : inp) (ob : observed) : list Z :=
  if negb (wf_c i) then [3] else
  let oracle := match ob with ObsLoaded o => (fun _ : arr => o_wmi o) | _ => (fun a => a) end in
  match loadc oracle i, ob with
  | XErr ERejected, ObsRejected => []
  | XErr ERejected, _ => [1; 29]
  | XErr _, _ => [3]
  | XConflict, _ => [3]
  | XOk mx, ObsLoaded o =>
      let m := lx mx in
      let g21 := arr_eqb (l_samples m) (o_samples o) && arr_eqb (l_times m) (o_times o) &&
                 oarr_eqb (lx_reordered mx) (o_reordered o) in
      let g22 := arr_eqb (l_stemplates m) (o_stemplates o) && arr_eqb (l_sclusters m) (o_sclusters o) &&
                 oarr_eqb (l_amps m) (o_amps o) in
      let g23 := arr_eqb (l_cmap m) (o_cmap o) && arr_eqb (l_pos m) (o_pos o) &&
                 arr_eqb (l_shanks m) (o_shanks o) && arr_eqb (l_probes m) (o_probes o) in
      let g24 := arr_eqb (l_tdata m) (o_tdata o) && oarr_eqb (l_tcols m) (o_tcols o) in
      let nc := Z.to_nat (hd 0 (a_shape (l_cmap m))) in
      (* a PRE-EXISTING whitening_mat_inv.npy is read as it is (single precision, rounded, stale: "equal the file
         contents", l_wmi = the file); only the inverse phylib computes itself (no such file) is judged as an inverse *)
      let g25 := arr_eqb (l_wm m) (o_wm o) && arr_eqb (l_wmi m) (o_wmi o) &&
                 zl_eqb (a_shape (o_wmi o)) [Z.of_nat nc; Z.of_nat nc] &&
                 match osrc P_wmi (i_files i) with
                 | Some _ => true
                 | None => dt_eqb (a_dt (o_wmi o)) DF64 && is_inverse_tol nc (-30) (l_wm m) (o_wmi o)
                 end in
      let g26 := arr_eqb (l_similar m) (o_similar o) in
      let g27 := files_eqb (l_attrs m) (o_attrs o) in
      let g28 := match o_changed o with [] => true | _ => false end && files_eqb (l_created m) (o_new o) in
      let g30 := match i_raw i, o_traces o with
                 | None, None => true
                 | Some raw, Some t =>
                     match cmap_Z (l_cmap m) with
                     | Some cm => match traces_full raw cm with
                                  | Some rows => tll_eqb rows (rows_of t) &&
                                                 zl_eqb (a_shape t) [Z.of_nat (List.length rows); Z.of_nat (List.length cm)]
                                  | None => false
                                  end
                     | None => false
                     end
                 | _, _ => false
                 end in
      let g31 := ctor_ok i (o_ctor o) in
      let all := g21 && g22 && g23 && g24 && g25 && g26 && g27 && g28 && g30 && g31 in
      flag 1 all ++ flag 21 g21 ++ flag 22 g22 ++ flag 23 g23 ++ flag 24 g24 ++ flag 25 g25 ++
      flag 26 g26 ++ flag 27 g27 ++ flag 28 g28 ++ flag 30 g30 ++ flag 31 g31
  | XOk _, _ => [1; 20]
  end.

(* a malformed directory: the model names the error exit, the implementation must leave by the same one *)
Definition check_malformed (i : inp) (ob : observed) : list Z :=
  match loadc (fun a => a) i, ob with
  | XErr EMissing, ObsCrashX XnIOError => []
  | XErr EAssert, ObsCrashX XnAssertion => []
  | XConflict, ObsCrashX _ => []          (* the message of this exit is built with a failing str.join: any exception *)
  | XErr ERejected, ObsRejected => []
  | XErr ERegime, _ => [3]
  | XOk _, _ => [3]
  | _, _ => [1]
  end.

Definition check (c : case) : list Z :=
  match cin c with
  | InLoad i => check_load i (cobs c)
  | InMalformed i => check_malformed i (cobs c)
  end.

Definition run (cases : list case) : list (Z * Z) :=
  flat_map (fun c => map (fun code => (cid c, code)) (check c)) cases.
