(* C04/Spec.v -- declarative specification of TemplateModel._load_data, independent of the loader model:
   WHICH file feeds an attribute ([Source]: the first name of the documented priority list that exists),
   WHAT is done to it ([FullRead]: NaN/inf -> 0 then squeeze; [MmapRead]: squeeze only; atleast_nd / astype /
   reshape), and the documented default when no file of the list exists -- one relation per attribute named in
   the statement, collected in [Load_spec]; and the well-formedness predicate [wf_b] of the reading (decidable,
   evaluated by the comparator on every generated directory). *)
From Coq Require Import ZArith List Bool String.
From PV Require Import Base.Tok Base.TokArith C04.Model C04.Model2.
Import ListNotations.
Open Scope string_scope.
Open Scope list_scope.
Open Scope Z_scope.

(* ---- which file ---- *)
(* [Source ps fs (Some a)]: a file with content [a] matches a name of the list [ps] and no file of the directory
   matches an earlier name of the list; [Source ps fs None]: no file matches any name of the list.
   (When every pattern has at most one match -- part of well-formedness -- the source is unique: Source_functional.) *)
Definition Source (ps : list pat) (fs : files) (o : option arr) : Prop :=
  match o with
  | Some a => exists name pre p post, ps = pre ++ p :: post /\ In (name, a) fs /\ pmatch p name = true /\
                forall p', In p' pre -> forall kv, In kv fs -> pmatch p' (fst kv) = false
  | None => forall p, In p ps -> forall kv, In kv fs -> pmatch p (fst kv) = false
  end.

Definition unique_matches (ps : list pat) (fs : files) : Prop := forall p, In p ps -> (n_matches p fs <= 1)%nat.

(* ---- what is done to the file ---- *)
Definition Squeezed (a v : arr) : Prop :=
  a_dt v = a_dt a /\ a_data v = a_data a /\ a_shape v = filter (fun d => negb (d =? 1)) (a_shape a).
Definition Scrubbed (a v : arr) : Prop :=
  a_dt v = a_dt a /\ a_shape v = a_shape a /\
  Forall2 (fun x y => (is_finite x = true /\ y = x) \/ (is_finite x = false /\ y = tzero)) (a_data a) (a_data v).
(* self._read_array(path): fully loaded, NaN / +-inf replaced by zero, squeezed *)
Definition FullRead (a v : arr) : Prop := exists s, Scrubbed a s /\ Squeezed s v.
(* self._read_array(path, mmap_mode=...): memory-mapped, squeezed, NOT scrubbed *)
Definition MmapRead (a v : arr) : Prop := Squeezed a v.

(* [Rule ps fs R dflt v]: the attribute [v] is [R] of the source of [ps], or the default when there is none
   (dflt = None and v = Some _ : a mandatory file) *)
Definition Rule (ps : list pat) (fs : files) (R : arr -> arr -> Prop) (dflt v : option arr) : Prop :=
  exists o, Source ps fs o /\
    match o with
    | Some a => exists x, R a x /\ v = Some x
    | None => v = dflt
    end.

Definition Read_then (f : arr -> arr) (a v : arr) : Prop := exists x, FullRead a x /\ v = f x.
Definition Divided (fdiv : tok -> tok -> option tok) (rate : tok) (a v : arr) : Prop :=
  exists x, FullRead a x /\ a_dt v = DF64 /\ a_shape v = a_shape x /\
            Forall2 (fun s t => fdiv s rate = Some t) (a_data x) (a_data v).

Section Spec.
Variable fdiv : tok -> tok -> option tok.
Variable fmul : tok -> tok -> option tok.
Variable fround : tok -> option Z.
Variable inv_oracle : arr -> arr.

(* spike samples and times.  KS layout (spike_times.npy exists): samples = the file, times[i] = samples[i] / rate.
   ALF layout: times = spikes.times*.npy (seconds); samples = spikes.samples*.npy, or round-half-even(times * rate)
   as uint64 when that file is absent. *)
Definition Times_spec (fs : files) (rate : tok) (samples times : arr) : Prop :=
  exists o, Source P_times_ks fs o /\
    match o with
    | Some a => FullRead a samples /\ Divided fdiv rate a times
    | None =>
        exists t, Source P_times_alf fs (Some t) /\ FullRead t times /\
          exists os, Source P_samples_alf fs os /\
            match os with
            | Some s => FullRead s samples
            | None => a_dt samples = DU64 /\ a_shape samples = a_shape times /\
                      Forall2 (fun t s => exists p z, fmul t rate = Some p /\ fround p = Some z /\ s = tz z)
                              (a_data times) (a_data samples)
            end
    end.

Record Load_spec (fs : files) (rate : tok) (ncd : option Z) (mx : loadedx) : Prop := mkLoad_spec {
  S_times : Times_spec fs rate (l_samples (lx mx)) (l_times (lx mx));
  (* accepted => one-dimensional, non-decreasing, finite times; samples one-dimensional *)
  S_monotone : toks_sorted (a_data (l_times (lx mx))) = Some true /\
               exists ns, a_shape (l_times (lx mx)) = [ns] /\ exists ns', a_shape (l_samples (lx mx)) = [ns'];
  S_amps : Rule P_amps fs FullRead None (l_amps (lx mx));
  S_stemplates : Rule P_stemplates fs
                   (fun a v => exists x, FullRead a x /\ v = if dt_is_float (a_dt a) then astype DI32 x else x)
                   None (Some (l_stemplates (lx mx)));
  (* spike clusters: the cluster file as int32, or -- absent -- the spike-template file as int32 *)
  S_sclusters : exists o, Source P_sclusters fs o /\
                  match o with
                  | Some a => Read_then (astype DI32) a (l_sclusters (lx mx))
                  | None => exists t, Source P_stemplates fs (Some t) /\ Read_then (astype DI32) t (l_sclusters (lx mx))
                  end;
  S_cmap : Rule P_cmap fs (Read_then atleast_1d) None (Some (l_cmap (lx mx)));
  S_cmap_range : forall k, ncd = Some k -> forall t, In t (a_data (l_cmap (lx mx))) -> exists z, tok_Z t = Some z /\ z <= k - 1;
  S_pos : Rule P_pos fs (Read_then atleast_2d) None (Some (l_pos (lx mx)));
  S_shanks : Rule P_shanks fs (Read_then flatten) (Some (zeros DI32 [hd 0 (a_shape (l_cmap (lx mx)))])) (Some (l_shanks (lx mx)));
  S_probes : Rule P_probes fs (Read_then atleast_1d) (Some (zeros DI32 [hd 0 (a_shape (l_cmap (lx mx)))])) (Some (l_probes (lx mx)));
  (* template waveforms: memory-mapped (not scrubbed), at least 3-d, all-NaN templates zeroed in memory *)
  S_templates : Rule P_templates fs
                  (fun a v => exists x, MmapRead a x /\ zero_nan_templates (atleast_3d x) = Ok v)
                  None (Some (l_tdata (lx mx)));
  S_tcols : Rule P_tcols fs FullRead None (l_tcols (lx mx));
  S_wm : Rule P_wm fs (Read_then atleast_2d) (Some (eye (hd 0 (a_shape (l_cmap (lx mx)))))) (Some (l_wm (lx mx)));
  S_wmi : Rule P_wmi fs (Read_then atleast_2d) (Some (inv_oracle (l_wm (lx mx)))) (Some (l_wmi (lx mx)));
  S_similar : Rule P_similar fs (Read_then atleast_2d)
                (Some (zeros DF64 [hd 0 (a_shape (l_tdata (lx mx))); hd 0 (a_shape (l_tdata (lx mx)))]))
                (Some (l_similar (lx mx)));
  (* extra per-spike attribute arrays: exactly the spike_<n>.npy files outside the reserved names whose first
     dimension (after squeezing) is the number of spikes *)
  S_attrs : forall n a, In (n, a) (l_attrs (lx mx)) <->
              exists fname f, In (fname, f) fs /\ spike_attr_name fname = Some n /\ str_in n SKIP_SPIKE_ATTRS = false /\
                              FullRead f a /\ hd (hd 0 (a_shape (l_times (lx mx))) + 1) (a_shape a) = hd 0 (a_shape (l_times (lx mx)));
  (* spike_times_reordered.npy (alternative spike times in samples): divided by the rate, like the KS spike times *)
  S_reorder : Rule P_reorder fs (Divided fdiv rate) None (lx_reordered mx);
  (* frame: nothing is created except the spike-cluster copy (a copy of the spike-template FILE) and the inverse
     whitening matrix, each only when no file of that role exists *)
  S_created : exists osc ost owmi, Source P_sclusters fs osc /\ Source P_stemplates fs ost /\ Source P_wmi fs owmi /\
                l_created (lx mx) =
                  (match osc with
                   | Some _ => []
                   | None => match ost with Some a => [("spike_clusters.npy", a)] | None => [] end
                   end) ++
                  (match owmi with Some _ => [] | None => [("whitening_mat_inv.npy", l_wmi (lx mx))] end);
  S_no_conflict : clusters_conflict fs = false
}.

(* ---- well-formedness of a dataset directory (the reading of "well-formed" in the statement), decidable ---- *)
Definition osrc (ps : list pat) (fs : files) : option arr := option_map snd (find_path ps fs).
Definition shape_if (o : option arr) (f : arr -> arr) (sh : list Z) : bool :=
  match o with None => true | Some a => zl_eqb (a_shape (f a)) sh end.
Definition shape_of (o : option arr) (f : arr -> arr) (sh : list Z) : bool :=
  match o with None => false | Some a => zl_eqb (a_shape (f a)) sh end.
Definition is_some {A} (o : option A) : bool := match o with Some _ => true | None => false end.
Fixpoint nodup_str (l : list string) : bool :=
  match l with [] => true | x :: r => negb (existsb (String.eqb x) r) && nodup_str r end.
Fixpoint distinct_rows (rows : list (list tok)) : bool :=
  match rows with [] => true | x :: r => negb (existsb (tl_eqb x) r) && distinct_rows r end.

(* the number of spikes and channels / templates the other files must agree with *)
Definition wf_times (fs : files) (rate : tok) : option Z :=
  match load_spike_samples fdiv fmul fround fs rate with
  | Ok st =>
      match a_shape (snd st), toks_sorted (a_data (snd st)) with
      | [ns], Some _ => if zl_eqb (a_shape (fst st)) [ns] then Some ns else None
      | _, _ => None
      end
  | Err _ => None
  end.
Definition cmap_of (fs : files) : option arr := option_map (fun a => atleast_1d (read_full a)) (osrc P_cmap fs).
Definition tmpl_of (fs : files) : option arr := option_map (fun a => atleast_3d (read_mmap a)) (osrc P_templates fs).

Definition wf_b (fs : files) (rate : tok) (ncd : option Z) : bool :=
  match wf_times fs rate, cmap_of fs, tmpl_of fs with
  | Some ns, Some cm, Some tm =>
      let nc := hd 0 (a_shape cm) in
      let nt := hd 0 (a_shape tm) in
      (* at most one file per name pattern, no two files with one name, consistent element counts *)
      forallb (fun p => Nat.leb (n_matches p fs) 1) all_patterns_x && nodup_str (map fst fs) &&
      forallb (fun kv => arr_wf (snd kv)) fs &&
      (* per-spike vectors of length n_spikes *)
      shape_if (osrc P_amps fs) read_full [ns] &&
      match osrc P_stemplates fs with
      | Some a => (dt_is_float (a_dt a) || dt_in (a_dt a) [DU16; DU32; DI32; DI64]) && zl_eqb (a_shape (read_full a)) [ns]
      | None => false end &&
      negb (clusters_conflict fs) && shape_if (osrc P_sclusters fs) read_full [ns] &&
      match osrc P_reorder fs with
      | Some a => negb (dt_eqb (a_dt a) DF32) && zl_eqb (a_shape (read_full a)) [ns] &&
                  forallb (fun x => is_some (fdiv x rate)) (a_data (read_full a))
      | None => true end &&
      (* channels *)
      (List.length (a_shape cm) =? 1)%nat && dt_in (a_dt cm) [DU32; DI32; DI64] &&
      match ncd with
      | Some k => forallb (fun t => match tok_Z t with Some z => z <=? k - 1 | None => false end) (a_data cm)
      | None => true end &&
      shape_of (osrc P_pos fs) (fun a => atleast_2d (read_full a)) [nc; 2] &&
      match osrc P_pos fs with Some a => distinct_rows (rows_of (atleast_2d (read_full a))) | None => false end &&
      shape_if (osrc P_shanks fs) (fun a => flatten (read_full a)) [nc] &&
      shape_if (osrc P_probes fs) (fun a => atleast_1d (read_full a)) [nc] &&
      (* templates *)
      dt_is_float (a_dt tm) && (List.length (a_shape tm) =? 3)%nat &&
      shape_if (osrc P_tcols fs) read_full [nt; nth 2 (a_shape tm) 0] &&
      (* whitening, similar templates *)
      shape_if (osrc P_wm fs) (fun a => atleast_2d (read_full a)) [nc; nc] &&
      shape_if (osrc P_wmi fs) (fun a => atleast_2d (read_full a)) [nc; nc] &&
      shape_if (osrc P_similar fs) (fun a => atleast_2d (read_full a)) [nt; nt] &&
      (* spike_<name>.npy attribute files are not 0-d after squeezing *)
      forallb (fun kv => match spike_attr_name (fst kv) with
                         | Some n => str_in n SKIP_SPIKE_ATTRS || negb (Nat.eqb (List.length (a_shape (read_full (snd kv)))) 0)
                         | None => true end) fs
  | _, _, _ => false
  end.

(* the spike times the directory denotes are non-decreasing *)
Definition monotone_b (fs : files) (rate : tok) : bool :=
  match load_spike_samples fdiv fmul fround fs rate with
  | Ok st => match toks_sorted (a_data (snd st)) with Some true => true | _ => false end
  | Err _ => false
  end.
End Spec.
