(* C04/Proofs5.v -- the specification is tight: on a directory with at most one match per name pattern, Load_spec
   determines every attribute of the loaded model (the extra per-spike attributes up to their order). *)
From Coq Require Import ZArith List Bool String Lia.
From PV Require Import Base.Tok Base.TokArith C04.Model C04.Model2 C04.Proofs C04.Spec C04.Proofs2.
Import ListNotations.
Open Scope string_scope.
Open Scope list_scope.
Open Scope Z_scope.

Lemma Forall2_fun {A B} (R : A -> B -> Prop) l l1 l2 :
  (forall x y y', R x y -> R x y' -> y = y') -> Forall2 R l l1 -> Forall2 R l l2 -> l1 = l2.
Proof.
  intros HR H1. revert l2. induction H1 as [|x y l l1 Hxy H1 IH]; intros l2 H2; inversion H2; subst; [reflexivity|].
  f_equal; [eapply HR; eassumption|now apply IH].
Qed.

Lemma arr_ext (v v' : arr) : a_dt v = a_dt v' -> a_shape v = a_shape v' -> a_data v = a_data v' -> v = v'.
Proof. destruct v as [d s l], v' as [d' s' l']; cbn [a_dt a_shape a_data]; intros; subst; reflexivity. Qed.

Lemma Rule_fun ps fs (R : arr -> arr -> Prop) dflt v v' :
  unique_matches ps fs -> (forall a x x', R a x -> R a x' -> x = x') ->
  Rule ps fs R dflt v -> Rule ps fs R dflt v' -> v = v'.
Proof.
  intros U HR (o & So & Ho) (o' & So' & Ho'). pose proof (Source_functional _ _ _ _ U So So') as <-.
  destruct o as [a|]; [|congruence]. destruct Ho as (x & Rx & ->), Ho' as (x' & Rx' & ->). f_equal. eapply HR; eassumption.
Qed.

Lemma FullRead_fun a x x' : FullRead a x -> FullRead a x' -> x = x'.
Proof. rewrite !FullRead_iff. congruence. Qed.
Lemma Read_then_fun f a x x' : Read_then f a x -> Read_then f a x' -> x = x'.
Proof. intros (y & Hy & ->) (y' & Hy' & ->). f_equal. eapply FullRead_fun; eassumption. Qed.
Lemma Divided_fun fdiv rate a x x' : Divided fdiv rate a x -> Divided fdiv rate a x' -> x = x'.
Proof.
  intros (y & Hy & D1 & S1 & F1) (y' & Hy' & D2 & S2 & F2). pose proof (FullRead_fun _ _ _ Hy Hy') as <-.
  apply arr_ext; [congruence|congruence|]. eapply Forall2_fun; [|exact F1|exact F2]. cbv beta. congruence.
Qed.

Section Tight.
Variable fdiv : tok -> tok -> option tok.
Variable fmul : tok -> tok -> option tok.
Variable fround : tok -> option Z.
Variable inv_oracle : arr -> arr.

Lemma sub_unique ps fs : incl ps all_patterns_x -> unique_matches all_patterns_x fs -> unique_matches ps fs.
Proof. intros Hi U p Hp. apply U, Hi, Hp. Qed.

Ltac inc := let p := fresh in let H := fresh in intros p H; cbn in H; cbn; intuition (subst; auto 40).
Lemma i_times_ks : incl P_times_ks all_patterns_x. Proof. inc. Qed.
Lemma i_times_alf : incl P_times_alf all_patterns_x. Proof. inc. Qed.
Lemma i_samples_alf : incl P_samples_alf all_patterns_x. Proof. inc. Qed.
Lemma i_amps : incl P_amps all_patterns_x. Proof. inc. Qed.
Lemma i_stemplates : incl P_stemplates all_patterns_x. Proof. inc. Qed.
Lemma i_sclusters : incl P_sclusters all_patterns_x. Proof. inc. Qed.
Lemma i_cmap : incl P_cmap all_patterns_x. Proof. inc. Qed.
Lemma i_pos : incl P_pos all_patterns_x. Proof. inc. Qed.
Lemma i_probes : incl P_probes all_patterns_x. Proof. inc. Qed.
Lemma i_shanks : incl P_shanks all_patterns_x. Proof. inc. Qed.
Lemma i_templates : incl P_templates all_patterns_x. Proof. inc. Qed.
Lemma i_tcols : incl P_tcols all_patterns_x. Proof. inc. Qed.
Lemma i_wm : incl P_wm all_patterns_x. Proof. inc. Qed.
Lemma i_wmi : incl P_wmi all_patterns_x. Proof. inc. Qed.
Lemma i_similar : incl P_similar all_patterns_x. Proof. inc. Qed.
Lemma i_reorder : incl P_reorder all_patterns_x. Proof. inc. Qed.

Lemma Times_fun fs rate s t s' t' : unique_matches all_patterns_x fs ->
  Times_spec fdiv fmul fround fs rate s t -> Times_spec fdiv fmul fround fs rate s' t' -> s = s' /\ t = t'.
Proof.
  intros U (o & So & H) (o' & So' & H').
  pose proof (Source_functional _ _ _ _ (sub_unique _ _ i_times_ks U) So So') as <-. destruct o as [a|].
  - destruct H as [H1 H2], H' as [H1' H2']. split; [eapply FullRead_fun; eassumption|eapply Divided_fun; eassumption].
  - destruct H as (x & Sx & Rx & os & Sos & Hs), H' as (x' & Sx' & Rx' & os' & Sos' & Hs').
    pose proof (Source_functional _ _ _ _ (sub_unique _ _ i_times_alf U) Sx Sx') as E. injection E as <-.
    pose proof (FullRead_fun _ _ _ Rx Rx') as <-.
    pose proof (Source_functional _ _ _ _ (sub_unique _ _ i_samples_alf U) Sos Sos') as <-. split; [|reflexivity].
    destruct os as [sa|]; [eapply FullRead_fun; eassumption|].
    destruct Hs as (D1 & S1 & F1), Hs' as (D2 & S2 & F2). apply arr_ext; [congruence|congruence|].
    eapply Forall2_fun; [|exact F1|exact F2]. cbv beta.
    intros a y y' (p & z & P1 & P2 & ->) (p' & z' & P1' & P2' & ->). congruence.
Qed.

(* two models satisfying the specification of the same directory agree on every attribute *)
Lemma spec_tight fs rate ncd mx mx' : unique_matches all_patterns_x fs ->
  Load_spec fdiv fmul fround inv_oracle fs rate ncd mx -> Load_spec fdiv fmul fround inv_oracle fs rate ncd mx' ->
  let m := lx mx in let m' := lx mx' in
  l_samples m = l_samples m' /\ l_times m = l_times m' /\ l_amps m = l_amps m' /\ l_stemplates m = l_stemplates m' /\
  l_sclusters m = l_sclusters m' /\ l_cmap m = l_cmap m' /\ l_pos m = l_pos m' /\ l_shanks m = l_shanks m' /\
  l_probes m = l_probes m' /\ l_tdata m = l_tdata m' /\ l_tcols m = l_tcols m' /\ l_wm m = l_wm m' /\
  l_wmi m = l_wmi m' /\ l_similar m = l_similar m' /\ l_created m = l_created m' /\
  lx_reordered mx = lx_reordered mx' /\
  (forall n a, In (n, a) (l_attrs m) <-> In (n, a) (l_attrs m')).
Proof.
  intros U S S' m m'. subst m m'.
  destruct (Times_fun _ _ _ _ _ _ U (S_times _ _ _ _ _ _ _ _ S) (S_times _ _ _ _ _ _ _ _ S')) as [Es Et].
  assert (Eam : l_amps (lx mx) = l_amps (lx mx')).
  { eapply Rule_fun; [exact (sub_unique _ _ i_amps U)|exact FullRead_fun|eapply S_amps; eassumption|eapply S_amps; eassumption]. }
  assert (Est : l_stemplates (lx mx) = l_stemplates (lx mx')).
  { assert (E : Some (l_stemplates (lx mx)) = Some (l_stemplates (lx mx'))); [|now injection E].
    eapply Rule_fun; [exact (sub_unique _ _ i_stemplates U)| |eapply S_stemplates; eassumption|eapply S_stemplates; eassumption].
    intros a x x' (y & Hy & ->) (y' & Hy' & ->). now rewrite (FullRead_fun _ _ _ Hy Hy'). }
  assert (Esc : l_sclusters (lx mx) = l_sclusters (lx mx')).
  { destruct (S_sclusters _ _ _ _ _ _ _ _ S) as (o & So & H), (S_sclusters _ _ _ _ _ _ _ _ S') as (o' & So' & H').
    pose proof (Source_functional _ _ _ _ (sub_unique _ _ i_sclusters U) So So') as <-. destruct o as [a|].
    - eapply Read_then_fun; eassumption.
    - destruct H as (t & St & Rt), H' as (t' & St' & Rt').
      pose proof (Source_functional _ _ _ _ (sub_unique _ _ i_stemplates U) St St') as E. injection E as <-.
      eapply Read_then_fun; eassumption. }
  assert (Ecm : l_cmap (lx mx) = l_cmap (lx mx')).
  { assert (E : Some (l_cmap (lx mx)) = Some (l_cmap (lx mx'))); [|now injection E].
    eapply Rule_fun; [exact (sub_unique _ _ i_cmap U)|apply Read_then_fun|eapply S_cmap; eassumption|eapply S_cmap; eassumption]. }
  assert (Epo : l_pos (lx mx) = l_pos (lx mx')).
  { assert (E : Some (l_pos (lx mx)) = Some (l_pos (lx mx'))); [|now injection E].
    eapply Rule_fun; [exact (sub_unique _ _ i_pos U)|apply Read_then_fun|eapply S_pos; eassumption|eapply S_pos; eassumption]. }
  assert (Esh : l_shanks (lx mx) = l_shanks (lx mx')).
  { assert (E : Some (l_shanks (lx mx)) = Some (l_shanks (lx mx'))); [|now injection E].
    pose proof (S_shanks _ _ _ _ _ _ _ _ S') as R'. rewrite <- Ecm in R'.
    eapply Rule_fun; [exact (sub_unique _ _ i_shanks U)|apply Read_then_fun|eapply S_shanks; eassumption|exact R']. }
  assert (Epr : l_probes (lx mx) = l_probes (lx mx')).
  { assert (E : Some (l_probes (lx mx)) = Some (l_probes (lx mx'))); [|now injection E].
    pose proof (S_probes _ _ _ _ _ _ _ _ S') as R'. rewrite <- Ecm in R'.
    eapply Rule_fun; [exact (sub_unique _ _ i_probes U)|apply Read_then_fun|eapply S_probes; eassumption|exact R']. }
  assert (Etm : l_tdata (lx mx) = l_tdata (lx mx')).
  { assert (E : Some (l_tdata (lx mx)) = Some (l_tdata (lx mx'))); [|now injection E].
    eapply Rule_fun; [exact (sub_unique _ _ i_templates U)| |eapply S_templates; eassumption|eapply S_templates; eassumption].
    intros a x x' (y & Hy & Zy) (y' & Hy' & Zy'). apply MmapRead_iff in Hy, Hy'. subst y y'. congruence. }
  assert (Etc : l_tcols (lx mx) = l_tcols (lx mx')).
  { eapply Rule_fun; [exact (sub_unique _ _ i_tcols U)|exact FullRead_fun|eapply S_tcols; eassumption|eapply S_tcols; eassumption]. }
  assert (Ewm : l_wm (lx mx) = l_wm (lx mx')).
  { assert (E : Some (l_wm (lx mx)) = Some (l_wm (lx mx'))); [|now injection E].
    pose proof (S_wm _ _ _ _ _ _ _ _ S') as R'. rewrite <- Ecm in R'.
    eapply Rule_fun; [exact (sub_unique _ _ i_wm U)|apply Read_then_fun|eapply S_wm; eassumption|exact R']. }
  assert (Ewmi : l_wmi (lx mx) = l_wmi (lx mx')).
  { assert (E : Some (l_wmi (lx mx)) = Some (l_wmi (lx mx'))); [|now injection E].
    pose proof (S_wmi _ _ _ _ _ _ _ _ S') as R'. rewrite <- Ewm in R'.
    eapply Rule_fun; [exact (sub_unique _ _ i_wmi U)|apply Read_then_fun|eapply S_wmi; eassumption|exact R']. }
  assert (Esim : l_similar (lx mx) = l_similar (lx mx')).
  { assert (E : Some (l_similar (lx mx)) = Some (l_similar (lx mx'))); [|now injection E].
    pose proof (S_similar _ _ _ _ _ _ _ _ S') as R'. rewrite <- Etm in R'.
    eapply Rule_fun; [exact (sub_unique _ _ i_similar U)|apply Read_then_fun|eapply S_similar; eassumption|exact R']. }
  assert (Ecr : l_created (lx mx) = l_created (lx mx')).
  { destruct (S_created _ _ _ _ _ _ _ _ S) as (a1 & a2 & a3 & A1 & A2 & A3 & ->).
    destruct (S_created _ _ _ _ _ _ _ _ S') as (b1 & b2 & b3 & B1 & B2 & B3 & ->).
    pose proof (Source_functional _ _ _ _ (sub_unique _ _ i_sclusters U) A1 B1) as <-.
    pose proof (Source_functional _ _ _ _ (sub_unique _ _ i_stemplates U) A2 B2) as <-.
    pose proof (Source_functional _ _ _ _ (sub_unique _ _ i_wmi U) A3 B3) as <-. now rewrite Ewmi. }
  assert (Ere : lx_reordered mx = lx_reordered mx').
  { eapply Rule_fun; [exact (sub_unique _ _ i_reorder U)|apply Divided_fun|eapply S_reorder; eassumption|eapply S_reorder; eassumption]. }
  repeat (split; [assumption|]).
  intros n a. rewrite (S_attrs _ _ _ _ _ _ _ _ S n a), (S_attrs _ _ _ _ _ _ _ _ S' n a), Et. reflexivity.
Qed.
End Tight.

(* well-formedness contains the uniqueness of matches *)
Lemma wf_unique fdiv fmul fround fs rate ncd :
  wf_b fdiv fmul fround fs rate ncd = true -> unique_matches all_patterns_x fs.
Proof.
  unfold wf_b. destruct (wf_times fdiv fmul fround fs rate); [|discriminate].
  destruct (cmap_of fs); [|discriminate]. destruct (tmpl_of fs); [|discriminate]. intros W.
  do 21 (apply andb_true_iff in W; destruct W as [W ?]).
  intros p Hp. rewrite forallb_forall in W. specialize (W p Hp). now apply Nat.leb_le.
Qed.
