(* C04/Proofs3.v -- the error exits of the loader model: which condition on the directory each exit reports.
   (The malformed-directory stream of the comparator checks the exception CLASS of these exits against phylib.) *)
From Coq Require Import ZArith List Bool String Lia.
From PV Require Import Base.Tok Base.TokArith C04.Model C04.Model2 C04.Proofs C04.Spec C04.Proofs2.
Import ListNotations.
Open Scope string_scope.
Open Scope list_scope.
Open Scope Z_scope.

Lemma rbind_err {A B} (r : res A) (f : A -> res B) e :
  rbind r f = Err e -> r = Err e \/ exists a, r = Ok a /\ f a = Err e.
Proof. destruct r as [a|e']; cbn [rbind]; [intros H; right; now exists a|intros H; left; now injection H as ->]. Qed.

Lemma omap_res_err {A B} (f : A -> option B) l e : omap_res f l = Err e -> e = ERegime.
Proof.
  induction l as [|x r IH]; cbn [omap_res]; [discriminate|]. destruct (f x); [|intros H; now injection H].
  intros H. apply rbind_err in H as [H|(ys & _ & H)]; [now apply IH|discriminate].
Qed.

Section Exits.
Variable fdiv : tok -> tok -> option tok.
Variable fmul : tok -> tok -> option tok.
Variable fround : tok -> option Z.
Variable inv_oracle : arr -> arr.
Notation load' := (load fdiv fmul fround inv_oracle).
Notation loadx' := (loadx fdiv fmul fround inv_oracle).
Notation lss := (load_spike_samples fdiv fmul fround).

(* ---- per step: when it reports a missing file ---- *)
Lemma lss_missing fs rate : lss fs rate = Err EMissing -> src P_times_ks fs = None /\ src P_times_alf fs = None.
Proof.
  unfold load_spike_samples, src. destruct (find_path P_times_ks fs) as [[k a]|].
  - intros H. apply rbind_err in H as [H|(ts & _ & H)]; [apply omap_res_err in H|]; discriminate.
  - destruct (find_path P_times_alf fs) as [[k t]|]; [|now split].
    destruct (find_path P_samples_alf fs) as [[k2 s]|]; [discriminate|].
    intros H. apply rbind_err in H as [H|(ts & _ & H)]; [apply omap_res_err in H|]; discriminate.
Qed.
Lemma check_times_not_missing s t : check_times s t <> Err EMissing.
Proof. unfold check_times. destruct (negb _); [discriminate|]. destruct (toks_sorted _) as [[|]|]; discriminate. Qed.
Lemma amps_not_missing fs ns : load_amps fs ns <> Err EMissing.
Proof. unfold load_amps. destruct (find_path P_amps fs) as [[k a]|]; [|discriminate]. destruct (_ && _); discriminate. Qed.
Lemma stemplates_missing fs ns : load_stemplates fs ns = Err EMissing -> src P_stemplates fs = None.
Proof.
  unfold load_stemplates, src. destruct (find_path P_stemplates fs) as [[k a]|]; [|reflexivity].
  destruct (_ && _); discriminate.
Qed.
Lemma sclusters_missing fs ns : load_sclusters fs ns = Err EMissing -> src P_stemplates fs = None.
Proof.
  unfold load_sclusters, sclusters_source, src. destruct (find_path P_sclusters fs) as [[k a]|].
  - cbn [rbind fst snd]. destruct (zl_eqb _ _); discriminate.
  - destruct (find_path P_stemplates fs) as [[k a]|]; [|reflexivity]. cbn [rbind fst snd]. destruct (zl_eqb _ _); discriminate.
Qed.
Lemma reorder_not_missing fs rate ns : load_reorder fdiv fs rate ns <> Err EMissing.
Proof.
  unfold load_reorder. destruct (find_path P_reorder fs) as [[k a]|]; [|discriminate].
  destruct (dt_eqb _ _); [discriminate|]. intros H. apply rbind_err in H as [H|(ts & _ & H)]; [apply omap_res_err in H; discriminate|].
  destruct (zl_eqb _ _); discriminate.
Qed.
Lemma cmap_missing fs ncd : load_cmap fs ncd = Err EMissing -> src P_cmap fs = None.
Proof.
  unfold load_cmap, src. destruct (find_path P_cmap fs) as [[k a]|]; [|reflexivity].
  destruct (negb _); [discriminate|]. destruct ncd as [kk|]; [destruct (negb _)|]; discriminate.
Qed.
Lemma pos_missing fs nc : load_pos fs nc = Err EMissing -> src P_pos fs = None.
Proof. unfold load_pos, src. destruct (find_path P_pos fs) as [[k a]|]; [|reflexivity]. destruct (zl_eqb _ _); discriminate. Qed.
Lemma shanks_not_missing fs nc : load_shanks fs nc <> Err EMissing.
Proof. unfold load_shanks. destruct (find_path P_shanks fs) as [[k a]|]; [|discriminate]. destruct (zl_eqb _ _); discriminate. Qed.
Lemma probes_not_missing fs nc : load_probes fs nc <> Err EMissing.
Proof. unfold load_probes. destruct (find_path P_probes fs) as [[k a]|]; [|discriminate]. destruct (zl_eqb _ _); discriminate. Qed.
Lemma templates_not_missing fs : load_templates fs <> Err EMissing.
Proof.
  unfold load_templates. destruct (find_path P_templates fs) as [[k a]|]; [|discriminate].
  destruct (negb _); [discriminate|]. unfold zero_nan_templates.
  destruct (a_shape _) as [|x [|y [|z [|? ?]]]]; discriminate.
Qed.
Lemma tcols_not_missing fs nt ncl : load_tcols fs nt ncl <> Err EMissing.
Proof. unfold load_tcols. destruct (find_path P_tcols fs) as [[k a]|]; [|discriminate]. destruct (zl_eqb _ _); discriminate. Qed.
Lemma wm_not_missing fs nc : load_wm fs nc <> Err EMissing.
Proof. unfold load_wm. destruct (find_path P_wm fs) as [[k a]|]; [|discriminate]. destruct (zl_eqb _ _); discriminate. Qed.
Lemma wmi_not_missing fs nc wm : load_wmi inv_oracle fs nc wm <> Err EMissing.
Proof. unfold load_wmi. destruct (find_path P_wmi fs) as [[k a]|]; [|discriminate]. destruct (zl_eqb _ _); discriminate. Qed.
Lemma similar_not_missing fs nt : load_similar fs nt <> Err EMissing.
Proof. unfold load_similar. destruct (find_path P_similar fs) as [[k a]|]; [|discriminate]. destruct (zl_eqb _ _); discriminate. Qed.
Lemma attrs_not_missing fs ns : load_spike_attrs fs ns <> Err EMissing.
Proof.
  induction fs as [|[k a] r IH]; cbn [load_spike_attrs fold_right]; [discriminate|]. fold (load_spike_attrs r ns).
  intros H. apply rbind_err in H as [H|(l & _ & H)]; [now apply IH|]. cbn [fst snd] in H.
  destruct (spike_attr_name k); [|discriminate]. destruct (str_in _ _); [discriminate|].
  destruct (a_shape _) as [|d0 ds]; [discriminate|]. destruct (d0 =? ns); discriminate.
Qed.

Definition Mandatory_missing (fs : files) : Prop :=
  (src P_times_ks fs = None /\ src P_times_alf fs = None) \/ src P_stemplates fs = None \/
  src P_cmap fs = None \/ src P_pos fs = None.

Lemma load_missing fs rate ncd : load' fs rate ncd = Err EMissing -> Mandatory_missing fs.
Proof.
  unfold load, Mandatory_missing. intros H.
  apply rbind_err in H as [H|(st & _ & H)]; [left; now apply lss_missing in H|].
  apply rbind_err in H as [H|(ns & _ & H)]; [now apply check_times_not_missing in H|].
  apply rbind_err in H as [H|(am & _ & H)]; [now apply amps_not_missing in H|].
  apply rbind_err in H as [H|(stp & _ & H)]; [right; left; now apply stemplates_missing in H|].
  apply rbind_err in H as [H|(sc & _ & H)]; [right; left; now apply sclusters_missing in H|].
  apply rbind_err in H as [H|(cm & _ & H)]; [right; right; left; now apply cmap_missing in H|].
  apply rbind_err in H as [H|(po & _ & H)]; [right; right; right; now apply pos_missing in H|].
  apply rbind_err in H as [H|(sh & _ & H)]; [now apply shanks_not_missing in H|].
  apply rbind_err in H as [H|(pr & _ & H)]; [now apply probes_not_missing in H|].
  apply rbind_err in H as [H|(tm & _ & H)]; [now apply templates_not_missing in H|].
  apply rbind_err in H as [H|(tc & _ & H)]; [now apply tcols_not_missing in H|].
  apply rbind_err in H as [H|(wm & _ & H)]; [now apply wm_not_missing in H|].
  apply rbind_err in H as [H|(wmi & _ & H)]; [now apply wmi_not_missing in H|].
  apply rbind_err in H as [H|(sim & _ & H)]; [now apply similar_not_missing in H|].
  apply rbind_err in H as [H|(ats & _ & H)]; [now apply attrs_not_missing in H|]. discriminate.
Qed.

(* the missing-file exit (IOError) is taken only when a MANDATORY role -- spike times, spike templates, channel
   map, channel positions -- has no file under any name of its priority list: an absent optional file never
   makes loading fail *)
Lemma loadx_missing fs rate ncd : loadx' fs rate ncd = XErr EMissing -> Mandatory_missing fs.
Proof.
  unfold loadx. destruct (load_head fdiv fmul fround fs rate) as [ns|e] eqn:Eh.
  - destruct (clusters_conflict fs); [discriminate|].
    destruct (load_sclusters fs ns) as [sc|e] eqn:Es.
    + destruct (load_reorder fdiv fs rate ns) as [reo|e] eqn:Er.
      * destruct (load' fs rate ncd) as [m|e] eqn:El; [discriminate|]. intros H; injection H as ->. now apply load_missing in El.
      * intros H; injection H as ->. now apply reorder_not_missing in Er.
    + intros H; injection H as ->. right; left. now apply sclusters_missing in Es.
  - intros H; injection H as ->. unfold load_head in Eh.
    apply rbind_err in Eh as [H|(st & _ & H)]; [left; now apply lss_missing in H|].
    apply rbind_err in H as [H|(ns & _ & H)]; [now apply check_times_not_missing in H|].
    apply rbind_err in H as [H|(am & _ & H)]; [now apply amps_not_missing in H|].
    apply rbind_err in H as [H|(stp & _ & H)]; [right; left; now apply stemplates_missing in H|]. discriminate.
Qed.

(* the conflict exit: exactly when what precedes the cluster file loads and BOTH a KS-named and an ALF-named
   spike-cluster file exist *)
Lemma find1_some_iff p fs : (exists kv, find1 p fs = Some kv) <-> exists kv, In kv fs /\ pmatch p (fst kv) = true.
Proof.
  unfold find1. split.
  - intros (kv & H). apply find_some in H. now exists kv.
  - intros (kv & Hin & Hm). destruct (find (fun kv0 => pmatch p (fst kv0)) fs) as [x|] eqn:E; [now exists x|].
    pose proof (find_none _ _ E kv Hin) as Hn. cbn beta in Hn. congruence.
Qed.
Lemma conflict_iff fs : clusters_conflict fs = true <->
  (exists kv, In kv fs /\ fst kv = "spike_clusters.npy") /\
  (exists kv, In kv fs /\ glob1 "spikes.clusters" ".npy" (fst kv) = true).
Proof.
  unfold clusters_conflict. split.
  - destruct (find1 (PExact "spike_clusters.npy") fs) as [x|] eqn:E1; [|discriminate].
    destruct (find1 (PGlob "spikes.clusters" ".npy") fs) as [y|] eqn:E2; [|discriminate]. intros _.
    unfold find1 in E1, E2. apply find_some in E1 as [I1 M1]. apply find_some in E2 as [I2 M2]. cbn [pmatch] in M1, M2.
    split; [exists x|exists y]; split; auto. apply String.eqb_eq in M1. now symmetry.
  - intros [(x & I1 & M1) (y & I2 & M2)].
    destruct (proj2 (find1_some_iff (PExact "spike_clusters.npy") fs)) as (a & ->).
    { exists x. split; [exact I1|]. cbn [pmatch]. rewrite M1. apply String.eqb_refl. }
    destruct (proj2 (find1_some_iff (PGlob "spikes.clusters" ".npy") fs)) as (b & ->); [|reflexivity].
    exists y. split; [exact I2|exact M2].
Qed.
Lemma loadx_conflict fs rate ncd : loadx' fs rate ncd = XConflict <->
  (exists ns, load_head fdiv fmul fround fs rate = Ok ns) /\ clusters_conflict fs = true.
Proof.
  unfold loadx. destruct (load_head fdiv fmul fround fs rate) as [ns|e] eqn:Eh.
  - destruct (clusters_conflict fs).
    + split; [intros _; split; [now exists ns|reflexivity]|reflexivity].
    + split.
      * destruct (load_sclusters fs ns); [|discriminate]. destruct (load_reorder fdiv fs rate ns); [|discriminate].
        destruct (load' fs rate ncd); discriminate.
      * intros [_ H]. discriminate.
  - split; [discriminate|]. intros [(ns & H) _]. discriminate.
Qed.
End Exits.
