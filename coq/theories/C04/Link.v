(* C04/Link.v -- link of the raw-traces clause to properties C01 / C02.
   _load_traces returns  get_ephys_reader(dat_path, ...)[:, channel_map] : by C02_cols_reader that is the derived
   reader carrying the one deferred entry ('cols', channel_map); reading it at a row index [it] is, by
   C02_reader_commute (itself resting on C01_rows_numpy for the multi-file base reader), NumPy's
   np.atleast_2d(T[it]) of the array T = C04's [traces_full raw channel_map] -- the concatenated raw files with
   the channel map's columns.  So "loaded traces at any valid index = NumPy rows of the concatenation with the
   channel map's columns" is a theorem about the readers' models, not only about C04's own select_cols. *)
From Coq Require Import ZArith List Bool Lia ZifyBool.
From PV Require Import Base.Tok Base.TokArith Base.NpSearch C04.Model C04.Proofs.
From PV Require C01.Model C02.Model C02.Spec C02.Props.
Import ListNotations.
Open Scope list_scope.
Open Scope Z_scope.

Module M1 := PV.C01.Model.
Module M2 := PV.C02.Model.
Module S2 := PV.C02.Spec.

Section Link.
Context {A D : Type}.

(* C04's column selection of one row, for any element type *)
Definition sel_cols (cmap : list Z) (row : list A) : option (list A) :=
  omap (fun c => if (0 <=? c) && (c <? Z.of_nat (List.length row)) then nth_error row (Z.to_nat c) else None) cmap.

Lemma omap_mapM {X Y} (f : X -> option Y) l : omap f l = M1.mapM f l.
Proof.
  induction l as [|x r IH]; cbn [omap M1.mapM obind]; [reflexivity|].
  destruct (f x) as [y|]; cbn [obind]; [|reflexivity]. rewrite IH. destruct (M1.mapM f r); reflexivity.
Qed.

Lemma mapM_ext_in {X Y} (f g : X -> option Y) l : (forall x, In x l -> f x = g x) -> M1.mapM f l = M1.mapM g l.
Proof.
  induction l as [|x r IH]; intros H; cbn [M1.mapM]; [reflexivity|].
  rewrite (H x (or_introl eq_refl)), IH; [reflexivity|]. intros y Hy. apply H. now right.
Qed.

Lemma py_norm_in_range c0 l : Forall (fun c => 0 <= c < c0) l -> M1.mapM (M1.py_norm c0) l = Some l.
Proof.
  induction 1 as [|c r Hc HF IH]; cbn [M1.mapM]; [reflexivity|].
  assert (E : M1.py_norm c0 c = Some c).
  { unfold M1.py_norm. destruct (c <? 0) eqn:E1; [lia|]. cbv zeta.
    destruct ((0 <=? c) && (c <? c0)) eqn:E2; [reflexivity|lia]. }
  now rewrite E, IH.
Qed.

Lemma gather_sel_cols c0 cmap (row : list A) :
  zlen row = c0 -> Forall (fun c => 0 <= c < c0) cmap -> M1.gather row cmap = sel_cols cmap row.
Proof.
  intros Hl HF. unfold M1.gather, sel_cols. etransitivity; [|symmetry; apply omap_mapM]. apply mapM_ext_in. intros c Hc.
  rewrite Forall_forall in HF. specialize (HF c Hc). unfold M1.pick, zlen in *.
  destruct (c <? 0) eqn:E1; [lia|].
  destruct ((0 <=? c) && (c <? Z.of_nat (List.length row))) eqn:E2; [reflexivity|lia].
Qed.

(* NumPy's M[:, channel_map] (C02's np_cols with an index list) is C04's column selection of every row *)
Lemma np_cols_traces (d0 : D) c0 (M : list (list A)) cmap rows :
  Forall (fun r => zlen r = c0) M -> Forall (fun c => 0 <= c < c0) cmap ->
  omap (sel_cols cmap) M = Some rows ->
  M2.np_cols (M1.CList cmap) (M2.mkarr d0 c0 M) = Some (M2.mkarr d0 (zlen cmap) rows).
Proof.
  intros HM HC Hsel. unfold M2.np_cols. cbn [M2.a_nc M2.a_dt M2.a_rows M1.col_indices].
  rewrite (py_norm_in_range _ _ HC). cbn [M1.bind].
  replace (M1.mapM (fun row : list A => M1.gather row cmap) M) with (Some rows); [reflexivity|].
  rewrite <- Hsel. etransitivity; [|symmetry; apply omap_mapM]. apply mapM_ext_in. intros r Hr. rewrite Forall_forall in HM.
  symmetry. apply (gather_sel_cols c0); auto.
Qed.

Variable sem : M2.code -> D -> A -> option A.
Variable dsem : M2.code -> D -> option D.

(* model.traces[it] for the reader _load_traces returns *)
Theorem traces_reader (d0 : D) c0 (raw : list (list (list A))) cmap rows (it : M1.item) :
  Forall (fun r => zlen r = c0) (concat raw) -> Forall (fun c => 0 <= c < c0) cmap ->
  omap (sel_cols cmap) (concat raw) = Some rows ->
  S2.row_item (map zlen raw) it ->
  (* get_ephys_reader(...)[:, channel_map] is the derived reader with the one entry ('cols', channel_map) ... *)
  M2.reader_getitem sem dsem (M1.getitem_rows raw) d0 c0 [] (M1.ISlice None None None) (Some (M1.CList cmap)) =
    Some (M2.GReader [M2.OCols (M1.CList cmap)]) /\
  (* ... and indexing it returns NumPy's rows of the column-selected concatenation *)
  M2.reader_getitem sem dsem (M1.getitem_rows raw) d0 c0 [M2.OCols (M1.CList cmap)] it None =
    option_map M2.GRows (M2.index_arr (M2.mkarr d0 (zlen cmap) rows) it).
Proof.
  intros HM HC Hsel Hit. split; [reflexivity|].
  pose proof (PV.C02.Props.C02_reader_commute A D sem dsem d0 c0 raw (M2.ECols M2.EBase (M1.CList cmap))
                (M2.mkarr d0 (zlen cmap) rows) it None Hit) as H.
  cbn [M2.compile app] in H. rewrite H.
  - unfold S2.then_index. destruct (M2.index_arr (M2.mkarr d0 (zlen cmap) rows) it); reflexivity.
  - cbn [S2.eval_eager M1.bind]. now apply np_cols_traces.
Qed.
End Link.

(* instance for the token rows of C04: [traces_full raw cmap] is that array *)
Lemma sel_cols_select_cols cmap (row : list tok) : sel_cols cmap row = select_cols cmap row.
Proof. reflexivity. Qed.

Theorem traces_link (D : Type) (sem : M2.code -> D -> tok -> option tok) (dsem : M2.code -> D -> option D)
    (d0 : D) (c0 : Z) (raw : list (list (list tok))) (cmap : list Z) (rows : list (list tok)) (it : M1.item) :
  Forall (fun r => zlen r = c0) (concat raw) -> Forall (fun c => 0 <= c < c0) cmap ->
  traces_full raw cmap = Some rows ->
  S2.row_item (map zlen raw) it ->
  M2.reader_getitem sem dsem (M1.getitem_rows raw) d0 c0 [M2.OCols (M1.CList cmap)] it None =
    option_map M2.GRows (M2.index_arr (M2.mkarr d0 (zlen cmap) rows) it).
Proof.
  intros HM HC Ht Hit. unfold traces_full in Ht.
  exact (proj2 (traces_reader sem dsem d0 c0 raw cmap rows it HM HC Ht Hit)).
Qed.
