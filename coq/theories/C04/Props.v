(* C04/Props.v -- property theorems only.  Every theorem holds for every correctly-rounded-operation
   oracle (fdiv, fmul, fround) and every matrix-inverse oracle: they are universally quantified. *)
From Coq Require Import ZArith List Bool String.
From PV Require Import Base.Tok Base.TokArith Base.NpSearch C04.Model C04.Proofs C04.Model2 C04.Spec C04.Proofs2 C04.Params
  C04.ParamsProofs C04.Link C04.Proofs3 C04.Proofs4 C04.Proofs5.
From PV Require C01.Model C02.Model C02.Spec.
Import ListNotations.
Open Scope string_scope.
Open Scope list_scope.
Open Scope Z_scope.

(* the documented priority: an attribute is fed by the file matching the earliest name of its
   priority list that exists in the directory *)
Theorem C04_priority : forall ps fs kv,
  find_path ps fs = Some kv ->
  exists pre p post, ps = pre ++ p :: post /\ pmatch p (fst kv) = true /\ In kv fs /\
    forall p', In p' pre -> forall kv', In kv' fs -> pmatch p' (fst kv') = false.
Proof. exact find_path_spec. Qed.
Print Assumptions C04_priority.

Theorem C04_priority_none : forall ps fs,
  find_path ps fs = None <-> forall p, In p ps -> forall kv, In kv fs -> pmatch p (fst kv) = false.
Proof. exact find_path_none. Qed.
Print Assumptions C04_priority_none.

(* loading rejects non-monotonic spike times, whatever else the directory contains *)
Theorem C04_rejects : forall fdiv fmul fround inv fs rate ncd st,
  load_spike_samples fdiv fmul fround fs rate = Ok st -> ndim (fst st) = 1%nat -> ndim (snd st) = 1%nat ->
  toks_sorted (a_data (snd st)) = Some false ->
  load fdiv fmul fround inv fs rate ncd = Err ERejected.
Proof. exact load_rejects. Qed.
Print Assumptions C04_rejects.

Theorem C04_loaded_times_sorted : forall fdiv fmul fround inv fs rate ncd m,
  load fdiv fmul fround inv fs rate ncd = Ok m ->
  toks_sorted (a_data (l_times m)) = Some true /\ ndim (l_times m) = 1%nat /\ ndim (l_samples m) = 1%nat.
Proof. exact load_times_sorted. Qed.
Print Assumptions C04_loaded_times_sorted.

(* KS layout: samples = the file (squeezed), times[i] = samples[i] / rate *)
Theorem C04_times_ks : forall fdiv fmul fround inv fs rate ncd m kv,
  load fdiv fmul fround inv fs rate ncd = Ok m -> find_path P_times_ks fs = Some kv ->
  l_samples m = read_full (snd kv) /\ a_dt (l_times m) = DF64 /\ a_shape (l_times m) = a_shape (l_samples m) /\
  Forall2 (fun s t => fdiv s rate = Some t) (a_data (l_samples m)) (a_data (l_times m)).
Proof. exact load_times_ks. Qed.
Print Assumptions C04_times_ks.

(* ALF layout: times = the stored seconds; samples = the stored samples or round(times * rate) as uint64 *)
Theorem C04_times_alf : forall fdiv fmul fround inv fs rate ncd m,
  load fdiv fmul fround inv fs rate ncd = Ok m -> find_path P_times_ks fs = None ->
  exists kt, find_path P_times_alf fs = Some kt /\ l_times m = read_full (snd kt) /\
    match find_path P_samples_alf fs with
    | Some ks => l_samples m = read_full (snd ks)
    | None => a_dt (l_samples m) = DU64 /\ a_shape (l_samples m) = a_shape (l_times m) /\
              Forall2 (fun t s => exists p z, fmul t rate = Some p /\ fround p = Some z /\ s = tz z)
                      (a_data (l_times m)) (a_data (l_samples m))
    end.
Proof. exact load_times_alf. Qed.
Print Assumptions C04_times_alf.

(* every listed attribute is the squeezed (and, when fully loaded, scrubbed) first existing file of
   its priority list, or the documented default *)
Theorem C04_attributes : forall fdiv fmul fround inv fs rate ncd m,
  load fdiv fmul fround inv fs rate ncd = Ok m ->
  let nc := hd 0 (a_shape (l_cmap m)) in
  let nt := hd 0 (a_shape (l_tdata m)) in
  l_amps m = option_map read_full (src P_amps fs) /\
  (exists a, src P_stemplates fs = Some a /\
     l_stemplates m = (if dt_is_float (a_dt a) then astype DI32 (read_full a) else read_full a)) /\
  (exists a, l_sclusters m = astype DI32 (read_full a) /\
     match src P_sclusters fs with Some f => a = f | None => src P_stemplates fs = Some a end) /\
  (exists a, src P_cmap fs = Some a /\ l_cmap m = atleast_1d (read_full a)) /\
  (exists a, src P_pos fs = Some a /\ l_pos m = atleast_2d (read_full a)) /\
  l_shanks m = match src P_shanks fs with None => zeros DI32 [nc] | Some a => flatten (read_full a) end /\
  l_probes m = match src P_probes fs with None => zeros DI32 [nc] | Some a => atleast_1d (read_full a) end /\
  (exists a, src P_templates fs = Some a /\ zero_nan_templates (atleast_3d (squeeze a)) = Ok (l_tdata m)) /\
  l_wm m = match src P_wm fs with None => eye nc | Some a => atleast_2d (read_full a) end /\
  l_wmi m = match src P_wmi fs with None => inv (l_wm m) | Some a => atleast_2d (read_full a) end /\
  l_similar m = match src P_similar fs with None => zeros DF64 [nt; nt] | Some a => atleast_2d (read_full a) end.
Proof. exact load_attributes. Qed.
Print Assumptions C04_attributes.

(* what "squeezed and scrubbed" means: same dtype, axes of length 1 dropped, data in the same order,
   every NaN / +-inf replaced by zero and every finite value unchanged *)
Theorem C04_scrub : forall a,
  a_dt (read_full a) = a_dt a /\
  a_shape (read_full a) = filter (fun d => negb (d =? 1)) (a_shape a) /\
  Forall (fun t => is_finite t = true) (a_data (read_full a)) /\
  forall i t, nth_error (a_data a) i = Some t ->
              nth_error (a_data (read_full a)) i = Some (if is_finite t then t else tzero).
Proof. intros a. split; [reflexivity|]. split; [reflexivity|]. exact (read_full_scrubbed a). Qed.
Print Assumptions C04_scrub.

(* extra per-spike attribute arrays: exactly the spike_<n>.npy files outside the reserved names whose
   first dimension is the number of spikes *)
Theorem C04_spike_attributes : forall fs ns l, load_spike_attrs fs ns = Ok l ->
  forall n a, In (n, a) l <->
    exists fname f, In (fname, f) fs /\ spike_attr_name fname = Some n /\ str_in n SKIP_SPIKE_ATTRS = false /\
                    a = read_full f /\ hd (ns + 1) (a_shape a) = ns.
Proof. exact load_attrs_spec. Qed.
Print Assumptions C04_spike_attributes.

(* frame: the model of loading never rewrites a pre-existing file; the files it creates are exactly
   the spike-cluster copy (a copy of the spike-template file) when no cluster file exists, and the
   inverse whitening matrix when that file does not exist *)
Theorem C04_frame : forall fdiv fmul fround inv fs rate ncd m,
  load fdiv fmul fround inv fs rate ncd = Ok m ->
  l_created m =
    (match src P_sclusters fs with
     | Some _ => []
     | None => match src P_stemplates fs with Some a => [("spike_clusters.npy", a)] | None => [] end
     end) ++
    (match src P_wmi fs with Some _ => [] | None => [("whitening_mat_inv.npy", l_wmi m)] end).
Proof. exact load_frame. Qed.
Print Assumptions C04_frame.

(* raw traces: row i of the loaded traces is row i of the concatenated raw files with the columns
   listed by the channel map, in the channel map's order *)
Theorem C04_traces : forall raw cmap rows,
  traces_full raw cmap = Some rows ->
  List.length rows = List.length (List.concat raw) /\
  forall i row, nth_error (List.concat raw) i = Some row ->
    exists out, nth_error rows i = Some out /\ List.length out = List.length cmap /\
      forall j c, nth_error cmap j = Some c ->
        0 <= c < Z.of_nat (List.length row) /\ nth_error out j = nth_error row (Z.to_nat c).
Proof. exact traces_full_spec. Qed.
Print Assumptions C04_traces.

(* ---- non-vacuity: a small ALF-named directory without cluster file and without whitening loads ---- *)
Definition ex_files : files := [
  ("channels.localCoordinates.npy", mkarr DF64 [2; 2] [TNum 0 0; TNum 0 0; TNum 0 0; TNum 5 2]);
  ("channels.rawInd.npy", mkarr DI32 [2; 1] [TNum 1 0; TNum 0 0]);
  ("spikes.templates.npy", mkarr DU32 [3] [TNum 0 0; TNum 1 0; TNum 1 0]);
  ("spikes.times.npy", mkarr DF64 [3; 1] [TNum 0 0; TNum 1 (-1); TNum 3 (-1)]);
  ("templates.waveforms.npy", mkarr DF32 [2; 2; 2] [TNum 1 0; TNum 1 1; TNum 3 0; TNum 1 2; TNaN; TNaN; TNaN; TNaN])].
Definition ex_div (a b : tok) : option tok := Some a.
Definition ex_mul (a b : tok) : option tok := tmul a b.
Definition ex_round (t : tok) : option Z := tok_Z t.
Example C04_ex_loads :
  match load ex_div ex_mul ex_round (fun a => a) ex_files (TNum 1 1) (Some 2) with
  | Ok m => l_samples m = mkarr DU64 [3] [TNum 0 0; TNum 1 0; TNum 3 0] /\
            List.map fst (l_created m) = ["spike_clusters.npy"; "whitening_mat_inv.npy"] /\
            a_data (l_tdata m) = [TNum 1 0; TNum 1 1; TNum 3 0; TNum 1 2; TNum 0 0; TNum 0 0; TNum 0 0; TNum 0 0]
  | Err _ => False
  end.
Proof. vm_compute. repeat split. Qed.
Example C04_ex_rejects :
  load ex_div ex_mul ex_round (fun a => a)
       (("spike_times.npy", mkarr DI64 [3] [TNum 1 1; TNum 1 0; TNum 3 0]) :: ex_files) (TNum 1 1) (Some 2)
  = Err ERejected.
Proof. vm_compute. reflexivity. Qed.

(* ================= stage 3 ================= *)

(* ---- the declarative specification (Spec.v) ---- *)
(* "the first existing file of the priority list" is well defined on a directory in which every name pattern
   has at most one match (part of well-formedness) *)
Theorem C04_source_unique : forall ps fs x y,
  unique_matches ps fs -> Source ps fs x -> Source ps fs y -> x = y.
Proof. exact Source_functional. Qed.
Print Assumptions C04_source_unique.

(* the declarative reading of "NaN/inf replaced by zero, singleton dimensions squeezed" determines the value *)
Theorem C04_full_read : forall a v, FullRead a v <-> v = read_full a.
Proof. exact FullRead_iff. Qed.
Print Assumptions C04_full_read.

(* THE specification theorem: whenever the loader returns a model, every attribute named in the statement is
   related to the directory as Spec.v says -- squeeze/scrub of the first existing file of its priority list, or
   its documented default; spike times monotone; extra attributes exactly the matching spike_*.npy files;
   nothing created but the spike-cluster copy and the inverse whitening matrix, each only when missing *)
Theorem C04_load_spec : forall fdiv fmul fround inv fs rate ncd mx,
  loadx fdiv fmul fround inv fs rate ncd = XOk mx -> Load_spec fdiv fmul fround inv fs rate ncd mx.
Proof. exact load_spec_thm. Qed.
Print Assumptions C04_load_spec.

(* totality: on a well-formed directory (wf_b, evaluated by the comparator on every generated case) loading
   either returns a model or is the documented rejection of non-monotonic spike times -- never an assertion
   failure, a missing-file error, the conflicting-files exit or a state outside the model *)
Theorem C04_load_total : forall fdiv fmul fround inv fs rate ncd,
  wf_b fdiv fmul fround fs rate ncd = true ->
  if monotone_b fdiv fmul fround fs rate
  then exists mx, loadx fdiv fmul fround inv fs rate ncd = XOk mx
  else loadx fdiv fmul fround inv fs rate ncd = XErr ERejected.
Proof. exact load_total. Qed.
Print Assumptions C04_load_total.

Theorem C04_rejected_iff : forall fdiv fmul fround inv fs rate ncd,
  wf_b fdiv fmul fround fs rate ncd = true ->
  (loadx fdiv fmul fround inv fs rate ncd = XErr ERejected <-> monotone_b fdiv fmul fround fs rate = false).
Proof. exact load_rejected_iff. Qed.
Print Assumptions C04_rejected_iff.

(* loadx (Model2.v: _load_data with the conflict test and spike_times_reordered.npy at their place) extends load:
   the theorems above about [load] apply to the model it returns *)
Theorem C04_loadx_load : forall fdiv fmul fround inv fs rate ncd mx,
  loadx fdiv fmul fround inv fs rate ncd = XOk mx ->
  load fdiv fmul fround inv fs rate ncd = Ok (lx mx) /\ clusters_conflict fs = false /\
  load_reorder fdiv fs rate (hd 0 (a_shape (l_times (lx mx)))) = Ok (lx_reordered mx).
Proof. exact loadx_inv. Qed.
Print Assumptions C04_loadx_load.

(* the specification is TIGHT: on a well-formed directory any two models satisfying Load_spec agree on every attribute
   (the extra per-spike attributes as sets of (name, array)) -- Load_spec leaves nothing about the loaded model open *)
Theorem C04_spec_tight : forall fdiv fmul fround inv fs rate ncd mx mx',
  wf_b fdiv fmul fround fs rate ncd = true ->
  Load_spec fdiv fmul fround inv fs rate ncd mx -> Load_spec fdiv fmul fround inv fs rate ncd mx' ->
  let m := lx mx in let m' := lx mx' in
  l_samples m = l_samples m' /\ l_times m = l_times m' /\ l_amps m = l_amps m' /\ l_stemplates m = l_stemplates m' /\
  l_sclusters m = l_sclusters m' /\ l_cmap m = l_cmap m' /\ l_pos m = l_pos m' /\ l_shanks m = l_shanks m' /\
  l_probes m = l_probes m' /\ l_tdata m = l_tdata m' /\ l_tcols m = l_tcols m' /\ l_wm m = l_wm m' /\
  l_wmi m = l_wmi m' /\ l_similar m = l_similar m' /\ l_created m = l_created m' /\
  lx_reordered mx = lx_reordered mx' /\
  (forall n a, In (n, a) (l_attrs m) <-> In (n, a) (l_attrs m')).
Proof. intros fdiv fmul fround inv fs rate ncd mx mx' W. apply spec_tight. exact (wf_unique _ _ _ _ _ _ W). Qed.
Print Assumptions C04_spec_tight.

(* "all-NaN templates zeroed in memory" (the function Load_spec's template rule is phrased with), declaratively:
   template k of the loaded waveforms is all zeros when template k of the file is entirely NaN, and is template k
   of the file value for value -- NaN and inf entries included, the file being memory-mapped -- otherwise *)
Theorem C04_nan_templates : forall x v, arr_wf x = true -> zero_nan_templates x = Ok v -> NanZeroed x v.
Proof. exact zero_nan_spec. Qed.
Print Assumptions C04_nan_templates.

(* ---- error exits ---- *)
(* the missing-file exit (IOError in phylib) is taken only when a MANDATORY role -- spike times, spike templates,
   channel map, channel positions -- has no file under any name of its priority list: no absent optional file
   (clusters, amplitudes, shanks, probes, whitening, inverse, similar templates, column table, reordered times,
   extra attributes) ever makes loading fail *)
Theorem C04_missing_exit : forall fdiv fmul fround inv fs rate ncd,
  loadx fdiv fmul fround inv fs rate ncd = XErr EMissing ->
  (src P_times_ks fs = None /\ src P_times_alf fs = None) \/ src P_stemplates fs = None \/
  src P_cmap fs = None \/ src P_pos fs = None.
Proof. exact loadx_missing. Qed.
Print Assumptions C04_missing_exit.

(* the conflicting-files exit: exactly when what precedes the cluster file loads and BOTH spike_clusters.npy and a
   file spikes.clusters*.npy exist *)
Theorem C04_conflict_exit : forall fdiv fmul fround inv fs rate ncd,
  loadx fdiv fmul fround inv fs rate ncd = XConflict <->
  (exists ns, load_head fdiv fmul fround fs rate = Ok ns) /\
  (exists kv, In kv fs /\ fst kv = "spike_clusters.npy") /\
  (exists kv, In kv fs /\ glob1 "spikes.clusters" ".npy" (fst kv) = true).
Proof. intros. rewrite loadx_conflict, conflict_iff. tauto. Qed.
Print Assumptions C04_conflict_exit.

(* ---- the three construction routes pass the same constructor arguments ---- *)
Theorem C04_routes_agree : forall dir names dtype offset rate ncd,
  is_abs dir = true -> Forall (fun n => is_abs n = false) names -> tok_eqb rate tzero = false ->
  let c := mkctor dir (map (join dir) names) dtype offset rate (Some ncd) in
  init_args (route_kwargs dir names dtype offset rate ncd) = Some c /\
  load_model_args dir (route_params names dtype offset rate ncd) = Some c /\
  load_model_args dir (route_params_alt dir names dtype offset rate ncd) = Some c.
Proof. exact routes_agree. Qed.
Print Assumptions C04_routes_agree.

(* ---- raw traces, through the readers of C01 / C02 ---- *)
(* model.traces = reader[:, channel_map] is the derived reader with the one deferred entry ('cols', channel_map)
   (C02_cols_reader); indexing it at any row index of C02's reading returns np.atleast_2d(T[it]) of
   T = traces_full raw channel_map (C02_reader_commute over C01's multi-file reader model) *)
Theorem C04_traces_reader : forall (D : Type) (sem : C02.Model.code -> D -> tok -> option tok)
    (dsem : C02.Model.code -> D -> option D) (d0 : D) (c0 : Z) (raw : list (list (list tok))) (cmap : list Z)
    (rows : list (list tok)) (it : C01.Model.item),
  Forall (fun r => zlen r = c0) (List.concat raw) -> Forall (fun c => 0 <= c < c0) cmap ->
  traces_full raw cmap = Some rows ->
  C02.Spec.row_item (map zlen raw) it ->
  C02.Model.reader_getitem sem dsem (C01.Model.getitem_rows raw) d0 c0 [C02.Model.OCols (C01.Model.CList cmap)] it None =
    option_map C02.Model.GRows (C02.Model.index_arr (C02.Model.mkarr d0 (zlen cmap) rows) it).
Proof. exact traces_link. Qed.
Print Assumptions C04_traces_reader.

(* ---- non-vacuity ---- *)
Definition ex_files2 : files :=
  ("spike_times_reordered.npy", mkarr DI64 [3; 1] [TNum 1 1; TNum 1 2; TNum 3 1]) ::
  ("amplitudes.npy", mkarr DF64 [3] [TNum 1 0; TNInf; TNaN]) :: ex_files.
Example C04_ex_wf :
  wf_b ex_div ex_mul ex_round ex_files2 (TNum 1 1) (Some 2) = true /\
  monotone_b ex_div ex_mul ex_round ex_files2 (TNum 1 1) = true /\
  match loadx ex_div ex_mul ex_round (fun a => a) ex_files2 (TNum 1 1) (Some 2) with
  | XOk mx => lx_reordered mx = Some (mkarr DF64 [3] [TNum 1 1; TNum 1 2; TNum 3 1]) /\
              l_amps (lx mx) = Some (mkarr DF64 [3] [TNum 1 0; TNum 0 0; TNum 0 0])
  | _ => False
  end.
Proof. vm_compute. repeat split. Qed.
(* a well-formed directory with decreasing times: rejected; with both cluster files: the conflict exit (and wf_b is false) *)
Example C04_ex_total_rejects :
  let fs := ("spike_times.npy", mkarr DI64 [3] [TNum 1 1; TNum 1 0; TNum 3 0]) :: ex_files in
  wf_b ex_div ex_mul ex_round fs (TNum 1 1) (Some 2) = true /\ monotone_b ex_div ex_mul ex_round fs (TNum 1 1) = false /\
  loadx ex_div ex_mul ex_round (fun a => a) fs (TNum 1 1) (Some 2) = XErr ERejected.
Proof. vm_compute. repeat split. Qed.
Example C04_ex_conflict :
  let fs := ("spike_clusters.npy", mkarr DI32 [3] [TNum 0 0; TNum 1 0; TNum 1 0]) ::
            ("spikes.clusters.npy", mkarr DI32 [3] [TNum 0 0; TNum 1 0; TNum 1 0]) :: ex_files in
  wf_b ex_div ex_mul ex_round fs (TNum 1 1) (Some 2) = false /\
  loadx ex_div ex_mul ex_round (fun a => a) fs (TNum 1 1) (Some 2) = XConflict.
Proof. vm_compute. repeat split. Qed.
Example C04_ex_routes :
  let c := mkctor "/D" ["/D/raw0.dat"; "/D/raw1.bin"] "int16" 7 (TNum 15 11) (Some 5) in
  init_args (route_kwargs "/D" ["raw0.dat"; "raw1.bin"] "int16" 7 (TNum 15 11) 5) = Some c /\
  load_model_args "/D" (route_params ["raw0.dat"; "raw1.bin"] "int16" 7 (TNum 15 11) 5) = Some c /\
  load_model_args "/D" (route_params_alt "/D" ["raw0.dat"; "raw1.bin"] "int16" 7 (TNum 15 11) 5) = Some c /\
  (* a bare string for one file; a later lower-case name overrides an earlier upper-case one *)
  load_model_args "/D" [("DAT_PATH", PStr "nope.dat"); ("dtype", PStr "int16"); ("dat_path", PStr "raw0.dat");
                        ("sample_rate", PInt 30000)] =
    Some (mkctor "/D" ["/D/raw0.dat"] "int16" 0 (TNum 1875 4) None).
Proof. vm_compute. repeat split. Qed.
(* two raw files of 1 and 2 rows, 3 channels in the files, channel map [2; 0]: traces[1:3] *)
Example C04_ex_traces_reader :
  let raw := [[[TNum 1 0; TNum 1 1; TNum 3 0]]; [[TNum 1 2; TNum 5 0; TNum 3 1]; [TNum 7 0; TNum 1 3; TNum 9 0]]] in
  traces_full raw [2; 0] = Some [[TNum 3 0; TNum 1 0]; [TNum 3 1; TNum 1 2]; [TNum 9 0; TNum 7 0]] /\
  C02.Spec.row_item (map zlen raw) (C01.Model.ISlice (Some 1) (Some 3) None) /\
  C02.Model.reader_getitem (fun _ (_ : Z) a => Some a) (fun _ d => Some d) (C01.Model.getitem_rows raw) 0 3
      [C02.Model.OCols (C01.Model.CList [2; 0])] (C01.Model.ISlice (Some 1) (Some 3) None) None =
    Some (C02.Model.GRows (C02.Model.mkarr 0 2 [[TNum 3 1; TNum 1 2]; [TNum 9 0; TNum 7 0]])).
Proof. split; [vm_compute; reflexivity|]. split; [|vm_compute; reflexivity]. apply C02.Spec.row_item_b_spec. vm_compute. reflexivity. Qed.
(* a directory without a channel-map file leaves by the missing-file exit; without the optional files it loads *)
Example C04_ex_missing :
  loadx ex_div ex_mul ex_round (fun a => a) (filter (fun kv => negb (String.eqb (fst kv) "channels.rawInd.npy")) ex_files)
        (TNum 1 1) (Some 2) = XErr EMissing /\
  src P_cmap (filter (fun kv => negb (String.eqb (fst kv) "channels.rawInd.npy")) ex_files) = None.
Proof. vm_compute. split; reflexivity. Qed.
(* two templates of 2 x 2 values: the first has one NaN and one inf (kept), the second is all NaN (zeroed) *)
Example C04_ex_nan_templates :
  let x := mkarr DF32 [2; 2; 2] [TNum 1 0; TNaN; TPInf; TNum 1 2; TNaN; TNaN; TNaN; TNaN] in
  arr_wf x = true /\
  zero_nan_templates x = Ok (mkarr DF32 [2; 2; 2] [TNum 1 0; TNaN; TPInf; TNum 1 2; TNum 0 0; TNum 0 0; TNum 0 0; TNum 0 0]).
Proof. vm_compute. split; reflexivity. Qed.
(* the premises of C04_load_spec / C04_spec_tight are satisfiable: the example directory is well-formed (C04_ex_wf) and
   the model it loads satisfies the specification *)
Example C04_ex_spec :
  exists mx, Load_spec ex_div ex_mul ex_round (fun a => a) ex_files2 (TNum 1 1) (Some 2) mx.
Proof. eexists. apply C04_load_spec. vm_compute. reflexivity. Qed.
