(* C04/Props.v -- property theorems only. *)
From Coq Require Import ZArith List Bool String.
From PV Require Import Base.Tok Base.TokArith C04.Model C04.Proofs.
Import ListNotations.
Open Scope string_scope.
Open Scope list_scope.
Open Scope Z_scope.

(* the documented priority: an attribute is fed by the file matching the earliest name of its
   priority list that exists in the directory *)
Theorem C04_priority : forall ps fs kv,
  find_path ps fs = Some kv ->
  exists pre p post, ps = pre ++ p :: post /\ pmatch p (fst kv) = true /\ In kv fs /\
    forall p', In p' pre -> forall kv', In kv' fs -> pmatch p' (fst kv') = false.
Proof. exact find_path_spec. Qed.
Print Assumptions C04_priority.
