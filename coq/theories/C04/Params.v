(* C04/Params.v -- the three ways a TemplateModel is constructed, and that they pass the same arguments:
     kwargs      TemplateModel(dir_path=..., dat_path=[absolute paths], dtype=..., offset=..., sample_rate=..., n_channels_dat=...)
     params.py   load_model(params.py) = TemplateModel( ** get_template_params(params.py)), get_template_params =
                 read_python (exec, keys lower-cased) + dtype string -> dtype, dir_path defaulting to the directory
                 of params.py, dat_path a string or a list, relative paths resolved against dir_path.
   A params.py file is modelled as the list of its NAME = literal assignments (Python's parsing of the literals
   is trusted); paths are strings, "absolute" = starts with "/", dir / name = dir ++ "/" ++ name (pathlib on plain
   names; Path.resolve() of an already absolute, symlink-free path is the identity: trusted). *)
From Coq Require Import ZArith List Bool String Ascii Lia.
From PV Require Import Base.Tok.
Import ListNotations.
Open Scope string_scope.
Open Scope list_scope.
Open Scope Z_scope.

Inductive pyval :=
| PStr (s : string) | PStrs (l : list string) | PInt (z : Z) | PFloat (t : tok) | PBool (b : bool) | PNone.
Definition dict := list (string * pyval).

(* d[k] = v on an insertion-ordered dict: an existing key keeps its position *)
Fixpoint dict_set (k : string) (v : pyval) (d : dict) : dict :=
  match d with
  | [] => [(k, v)]
  | (k', v') :: r => if String.eqb k k' then (k, v) :: r else (k', v') :: dict_set k v r
  end.
Definition dict_get (k : string) (d : dict) : option pyval := lookup k d.

(* exec(contents, {}, metadata) for a file of assignments *)
Definition exec_assigns (a : list (string * pyval)) : dict :=
  fold_left (fun d kv => dict_set (fst kv) (snd kv) d) a [].

Definition lower_ascii (c : ascii) : ascii :=
  let n := nat_of_ascii c in if (Nat.leb 65 n && Nat.leb n 90)%bool then ascii_of_nat (n + 32) else c.
Fixpoint lower (s : string) : string :=
  match s with EmptyString => EmptyString | String c r => String (lower_ascii c) (lower r) end.

(* read_python: {k.lower(): v for (k, v) in metadata.items()} -- in insertion order, a later key that lower-cases
   to an earlier one overwrites its value *)
Definition read_python (a : list (string * pyval)) : dict :=
  fold_left (fun d kv => dict_set (lower (fst kv)) (snd kv) d) (exec_assigns a) [].

Definition is_abs (p : string) : bool := starts_with "/" p.
Definition join (dir p : string) : string := dir ++ "/" ++ p.
(* _make_abs_path *)
Definition make_abs (dir p : string) : string := if is_abs p then p else join dir p.

(* get_template_params(params_path) given the directory of params_path; None = it raises (KeyError / assertion) *)
Definition get_template_params (params_dir : string) (a : list (string * pyval)) : option dict :=
  let d := read_python a in
  match dict_get "dtype" d with
  | Some (PStr dts) =>
      let d := dict_set "dtype" (PStr dts) d in                     (* np.dtype(str): same name *)
      let '(dir, d) := match dict_get "dir_path" d with
                       | Some (PStr s) => (Some s, d)
                       | Some _ => (None, d)
                       | None => (Some params_dir, dict_set "dir_path" (PStr params_dir) d)
                       end in
      match dir, dict_get "dat_path" d with
      | Some dir, Some (PStr s) => Some (dict_set "dat_path" (PStrs [make_abs dir s]) d)
      | Some dir, Some (PStrs l) => Some (dict_set "dat_path" (PStrs (map (make_abs dir) l)) d)
      | _, _ => None
      end
  | _ => None
  end.

(* what TemplateModel.__init__ keeps of its keyword arguments *)
Record ctor := mkctor { k_dir : string; k_dats : list string; k_dtype : string; k_offset : Z;
                        k_rate : tok; k_ncd : option Z }.

Definition init_args (kw : dict) : option ctor :=
  match dict_get "dir_path" kw with
  | Some (PStr dir) =>
      let dats := match dict_get "dat_path" kw with
                  | Some (PStr s) => if String.eqb s "" then Some [] else Some [s]
                  | Some (PStrs l) => Some l
                  | Some PNone | None => Some []
                  | Some _ => None
                  end in
      let dtype := match dict_get "dtype" kw with Some (PStr s) => Some s | None => Some "int16" | _ => None end in
      let offset := match dict_get "offset" kw with Some (PInt z) => Some z | None => Some 0 | _ => None end in
      (* float(self.sample_rate or 1.) *)
      let rate := match dict_get "sample_rate" kw with
                  | Some (PFloat t) => if tok_eqb t tzero then Some (TNum 1 0) else Some t
                  | Some (PInt z) => if z =? 0 then Some (TNum 1 0) else Some (tz z)
                  | Some PNone | None => Some (TNum 1 0)
                  | Some _ => None
                  end in
      let ncd := match dict_get "n_channels_dat" kw with
                 | Some (PInt z) => Some (Some z) | Some PNone | None => Some None | Some _ => None end in
      match dats, dtype, offset, rate, ncd with
      | Some a, Some b, Some c, Some r, Some n => Some (mkctor dir a b c r n)
      | _, _, _, _, _ => None
      end
  | _ => None
  end.

Definition load_model_args (params_dir : string) (a : list (string * pyval)) : option ctor :=
  match get_template_params params_dir a with Some kw => init_args kw | None => None end.

(* ---- the three routes of the correspondence, for a dataset in [dir] with raw files [names] ---- *)
Definition route_kwargs (dir : string) (names : list string) (dtype : string) (offset : Z) (rate : tok) (ncd : Z) : dict :=
  [("dir_path", PStr dir); ("sample_rate", PFloat rate); ("n_channels_dat", PInt ncd); ("dtype", PStr dtype);
   ("offset", PInt offset)] ++
  match names with [] => [] | _ => [("dat_path", PStrs (map (join dir) names))] end.
Definition route_params (names : list string) (dtype : string) (offset : Z) (rate : tok) (ncd : Z) : list (string * pyval) :=
  [("dat_path", PStrs names); ("n_channels_dat", PInt ncd); ("dtype", PStr dtype); ("offset", PInt offset);
   ("sample_rate", PFloat rate); ("hp_filtered", PBool false)].
(* upper / mixed-case names, dat_path a bare string when there is one file and absolute paths otherwise *)
Definition route_params_alt (dir : string) (names : list string) (dtype : string) (offset : Z) (rate : tok) (ncd : Z)
  : list (string * pyval) :=
  [("DAT_PATH", match names with [n] => PStr n | _ => PStrs (map (join dir) names) end);
   ("N_CHANNELS_DAT", PInt ncd); ("Dtype", PStr dtype); ("offset", PInt offset); ("SAMPLE_RATE", PFloat rate);
   ("hp_filtered", PBool true)].

(* ---- comparison helpers for the comparator ---- *)
Fixpoint strl_eqb (a b : list string) : bool :=
  match a, b with
  | [], [] => true
  | x :: a', y :: b' => String.eqb x y && strl_eqb a' b'
  | _, _ => false
  end.
Definition optz_eqb (a b : option Z) : bool :=
  match a, b with Some x, Some y => x =? y | None, None => true | _, _ => false end.
Definition ctor_eqb (a b : ctor) : bool :=
  String.eqb (k_dir a) (k_dir b) && strl_eqb (k_dats a) (k_dats b) && String.eqb (k_dtype a) (k_dtype b) &&
  (k_offset a =? k_offset b) && tok_eqb (k_rate a) (k_rate b) && optz_eqb (k_ncd a) (k_ncd b).
