(* C04/LinkC08.v -- stage 4: C04's model of TemplateModel._load_data extended with the attributes its last branch adds.

   C04's [load] stops before the "cluster waveforms" branch of _load_data (model.py:415-427):
       if not np.all(spike_clusters == spike_templates) and sparse_templates.cols is None:
           merge_map, nan_idx = get_merge_map(); sparse_clusters = cluster_waveforms(); n_clusters = max + 1
       else:
           merge_map = {}; sparse_clusters = sparse_templates; n_clusters = n_templates
           nan_idx = np.setdiff1d(np.arange(n_clusters), spike_clusters)
   which is C08's model (PV.C08.Model.load) on the LOADED spike_templates / spike_clusters / templates / positions / shanks.
   C04 keeps arrays as (dtype, shape, exact value tokens); C08 works on Z lists.  This file gives

     zs_of / mat_of / tens_of / dset_of     the conversion of the loaded arrays to C08's data set (None = a value that is
                                            not an integer, or a wrong rank: outside C08's exact regime);
     arr_of_zs / arr_of_mat / arr_of_tens   the converse, with the round trips (C04_conv_round_trip) -- every data set of
                                            C08's regime is the conversion of loaded arrays, and conversion loses nothing;
     curate / load_curated                  _load_data INCLUDING the branch: C04's loaded record paired with the record of
                                            the curated attributes (merge_map, nan_idx, sparse_clusters.data, n_clusters);
     C04_load_then_curate                   load_curated fs = Ok (m, c)  <->  load fs = Ok m, and c = C08's load on the
                                            converted fields of m (dense storage) / the else-branch record (sparse storage);
     C04_curate_guards                      the shape assert of C08's model cannot fire on a directory C04's load accepted
                                            (both id vectors have n_spikes entries);
     C04_curate_no_cluster_file             a directory WITHOUT a spike-cluster file is loaded through the else-branch:
                                            spike_clusters = spike_templates, merge_map = {}, sparse_clusters =
                                            sparse_templates, n_clusters = n_templates, nan_idx = the template ids no spike has;
     C04_curate_provenance                  the loaded merge_map / nan_idx / n_clusters stated on the FILES: the ids are the
                                            (scrubbed) values of the spike-template file and of the spike-cluster file
                                            (C04's priority lists), and C08's provenance specification holds of them;
     C04_curate_wmi_free                    the branch does not look at the whitening matrices (it runs before they are
                                            loaded), so a non-integer inverse does not leave the regime.

   Not required by Props.v / Corr.v.  Every theorem prints "Closed under the global context":
     cd /verif/coq && coqc -noglob -Q theories PV theories/C04/LinkC08.v *)
From Coq Require Import ZArith List Bool String Lia Sorted.
From PV Require Import Base.Tok Base.TokArith C04.Model C04.Spec C04.Proofs.
From PV Require Base.NpSearch C08.Model C08.Spec C08.Proofs3 C08.Proofs8 C08.Props.
Import ListNotations.
Open Scope string_scope.
Open Scope list_scope.
Open Scope Z_scope.

Module M8 := PV.C08.Model.
Module S8 := PV.C08.Spec.
Module P8 := PV.C08.Props.

(* ================= conversions: (dtype, shape, tokens)  ->  Z structures ================= *)
Definition zs_of (a : arr) : option (list Z) := omap tok_Z (a_data a).
Definition mat_of (a : arr) : option (list (list Z)) :=
  match a_shape a with
  | [r; c] => omap (omap tok_Z) (chunks (Z.to_nat c) (Z.to_nat r) (a_data a))
  | _ => None
  end.
Definition tens_of (a : arr) : option (list (list (list Z))) :=
  match a_shape a with
  | [nt; ns; nc] =>
      omap (fun t => omap (omap tok_Z) (chunks (Z.to_nat nc) (Z.to_nat ns) t))
           (chunks (Z.to_nat (ns * nc)) (Z.to_nat nt) (a_data a))
  | _ => None
  end.
Definition colz (j : nat) (m : list (list Z)) : list Z := map (fun r => nth j r 0) m.

(* the inverse whitening matrix is not used by the branch (C04_curate_wmi_free): a non-integer one is replaced by [] *)
Definition wmi_of (a : arr) : list (list Z) := match mat_of a with Some w => w | None => [] end.

Definition dset_of (m : loaded) : option M8.dset :=
  match zs_of (l_stemplates m), zs_of (l_sclusters m), tens_of (l_tdata m), mat_of (l_pos m), zs_of (l_shanks m) with
  | Some st, Some sc, Some tm, Some pos, Some sh =>
      Some (M8.mkds st sc tm (colz 0 pos) (colz 1 pos) sh (wmi_of (l_wmi m)))
  | _, _, _, _, _ => None
  end.

(* ================= and back ================= *)
Definition arr_of_zs (d : dt) (l : list Z) : arr := mkarr d [Z.of_nat (List.length l)] (map tz l).
Definition ncols {A} (m : list (list A)) : nat := match m with [] => O | r :: _ => List.length r end.
Definition arr_of_mat (d : dt) (m : list (list Z)) : arr :=
  mkarr d [Z.of_nat (List.length m); Z.of_nat (ncols m)] (map tz (List.concat m)).
Definition arr_of_tens (d : dt) (T : list (list (list Z))) : arr :=
  mkarr d [Z.of_nat (List.length T); Z.of_nat (ncols T); Z.of_nat (ncols (hd [] T))]
        (map tz (List.concat (map (@List.concat Z) T))).

(* rectangular, no empty axis *)
Definition Rect {A} (m : list (list A)) (c : nat) : Prop := (1 <= c)%nat /\ forall r, In r m -> List.length r = c.

Lemma tok_Z_strip2 f m e : 0 <= e -> tok_Z (strip2 f m e) = Some (m * 2 ^ e).
Proof.
  revert m e. induction f as [|f IH]; intros m e He; cbn [strip2].
  - cbn [tok_Z]. destruct (0 <=? e) eqn:E; [reflexivity|]. apply Z.leb_gt in E. lia.
  - destruct (m =? 0) eqn:E0.
    + apply Z.eqb_eq in E0. subst m. reflexivity.
    + destruct (Z.even m) eqn:Ev.
      * rewrite IH by lia. f_equal. rewrite Z.pow_add_r, Z.pow_1_r by lia.
        apply Zeven_bool_iff in Ev. apply Zeven_div2 in Ev. rewrite Z.div2_div in Ev. lia.
      * cbn [tok_Z]. destruct (0 <=? e) eqn:E; [reflexivity|]. apply Z.leb_gt in E. lia.
Qed.
Lemma tok_Z_tz z : tok_Z (tz z) = Some z.
Proof. unfold tz, tnorm. rewrite tok_Z_strip2 by lia. f_equal. lia. Qed.

Lemma omap_map_some {A B} (f : A -> option B) (g : B -> A) l :
  (forall y, f (g y) = Some y) -> omap f (map g l) = Some l.
Proof.
  intros H. induction l as [|y l IH]; cbn [map omap]; [reflexivity|]. rewrite H. cbn [obind]. rewrite IH. reflexivity.
Qed.
Lemma omap_id_in {A B} (f : A -> option B) (l : list A) (l' : list B) :
  List.length l = List.length l' -> (forall i a b, nth_error l i = Some a -> nth_error l' i = Some b -> f a = Some b) ->
  omap f l = Some l'.
Proof.
  revert l'. induction l as [|a l IH]; intros [|b l'] HL H; try discriminate; cbn [omap]; [reflexivity|].
  rewrite (H O a b eq_refl eq_refl). cbn [obind]. rewrite (IH l'); [reflexivity|now injection HL|].
  intros i a' b' Ha Hb. exact (H (S i) a' b' Ha Hb).
Qed.

Lemma zs_round d l : zs_of (arr_of_zs d l) = Some l.
Proof. unfold zs_of, arr_of_zs. cbn [a_data]. apply omap_map_some. exact tok_Z_tz. Qed.

(* cutting a concatenation of n rows of c >= 1 entries gives the rows back *)
Lemma firstn_len_app {A} (r l : list A) : firstn (List.length r) (r ++ l) = r.
Proof. induction r as [|x r IH]; cbn; [now destruct l|now rewrite IH]. Qed.
Lemma skipn_len_app {A} (r l : list A) : skipn (List.length r) (r ++ l) = l.
Proof. induction r as [|x r IH]; cbn; [reflexivity|exact IH]. Qed.
Lemma chunks_concat {A} (rows : list (list A)) c : Rect rows c ->
  chunks c (List.length rows) (List.concat rows) = rows.
Proof.
  intros [Hc Hr]. induction rows as [|r rows IH]; [reflexivity|]. cbn [List.length chunks List.concat].
  assert (Lr : List.length r = c) by (apply Hr; now left).
  destruct r as [|x0 r0]; [cbn in Lr; lia|]. cbn [app].
  change (x0 :: r0 ++ List.concat rows) with ((x0 :: r0) ++ List.concat rows).
  rewrite <- Lr at 1 3. rewrite firstn_len_app, skipn_len_app. f_equal.
  apply IH. intros r' Hr'. apply Hr. now right.
Qed.

Lemma chunks_map {A B} (g : A -> B) k n (l : list A) : chunks k n (map g l) = map (map g) (chunks k n l).
Proof.
  revert l. induction n as [|n IH]; intros l; cbn [chunks]; [reflexivity|].
  destruct l as [|x l]; [reflexivity|]. cbn [map]. change (g x :: map g l) with (map g (x :: l)).
  rewrite firstn_map, skipn_map, IH. reflexivity.
Qed.

Lemma ncols_rect {A} (m : list (list A)) c : m <> [] -> Rect m c -> ncols m = c.
Proof. intros Hne [_ H]. destruct m as [|r m]; [congruence|]. cbn. apply H. now left. Qed.

Lemma mat_round d m c : m <> [] -> Rect m c -> mat_of (arr_of_mat d m) = Some m.
Proof.
  intros Hne HR. unfold mat_of, arr_of_mat. cbn [a_shape a_data]. rewrite !Nat2Z.id, (ncols_rect m c Hne HR).
  rewrite chunks_map, (chunks_concat m c HR). apply omap_map_some. intros row. apply omap_map_some. exact tok_Z_tz.
Qed.

Lemma concat_length_rect {A} (m : list (list A)) c : (forall r, In r m -> List.length r = c) ->
  List.length (List.concat m) = (List.length m * c)%nat.
Proof.
  intros H. induction m as [|r m IH]; [reflexivity|]. cbn [List.concat List.length]. rewrite app_length, IH, (H r).
  - lia.
  - now left.
  - intros r' Hr'. apply H. now right.
Qed.

(* nt >= 1 templates of ns >= 1 samples of nc >= 1 channels *)
Definition Rect3 (T : list (list (list Z))) (ns nc : nat) : Prop :=
  T <> [] /\ (1 <= ns)%nat /\ (forall t, In t T -> List.length t = ns /\ Rect t nc).

Lemma tens_round d T ns nc : Rect3 T ns nc -> tens_of (arr_of_tens d T) = Some T.
Proof.
  intros (Hne & Hns & HT). unfold tens_of, arr_of_tens. cbn [a_shape a_data].
  assert (Hc1 : ncols T = ns). { destruct T as [|t T]; [congruence|]. cbn. apply HT. now left. }
  assert (Hc2 : ncols (hd [] T) = nc).
  { destruct T as [|t T]; [congruence|]. cbn [hd]. destruct (HT t (or_introl eq_refl)) as (Lt & HR).
    apply ncols_rect; [|exact HR]. intros ->. cbn in Lt. lia. }
  rewrite Hc1, Hc2, <- Nat2Z.inj_mul, !Nat2Z.id.
  assert (Hnc : (1 <= nc)%nat). { destruct T as [|t T]; [congruence|]. now destruct (HT t (or_introl eq_refl)) as (_ & ? & _). }
  rewrite chunks_map.
  assert (HR : Rect (map (@List.concat Z) T) (ns * nc)).
  { split; [nia|]. intros r Hr. apply in_map_iff in Hr as (t & <- & Ht). destruct (HT t Ht) as (Lt & _ & Hrows).
    rewrite (concat_length_rect t nc Hrows), Lt. reflexivity. }
  pose proof (chunks_concat _ _ HR) as EC. rewrite map_length in EC. rewrite EC. clear EC.
  rewrite map_map. apply omap_id_in; [now rewrite map_length|].
  intros i a t Ha Ht. rewrite nth_error_map in Ha. rewrite Ht in Ha. cbn [option_map] in Ha. injection Ha as <-.
  assert (Hin : In t T) by (eapply nth_error_In; eauto). destruct (HT t Hin) as (Lt & HRt).
  rewrite chunks_map, <- Lt, (chunks_concat t nc HRt). apply omap_map_some. intros row. apply omap_map_some. exact tok_Z_tz.
Qed.

(* the other direction: a successful conversion reads exactly the integer value of every token (nothing is rounded,
   defaulted or dropped) *)
Lemma omap_values {A B} (f : A -> option B) l l' : omap f l = Some l' -> map f l = map Some l'.
Proof.
  revert l'. induction l as [|x l IH]; intros l' H; cbn [omap] in H.
  - injection H as <-. reflexivity.
  - destruct (f x) as [y|] eqn:Ey; [|discriminate]. cbn [obind] in H. destruct (omap f l) as [ys|]; [|discriminate].
    cbn [obind] in H. injection H as <-. cbn [map]. rewrite Ey, (IH ys eq_refl). reflexivity.
Qed.

(* ================= the branch ================= *)
(* the else-branch of _load_data (also taken, whatever the clusters, when the templates are stored sparsely) *)
Definition else_branch (d : M8.dset) : M8.loaded :=
  M8.mkld false [] (M8.setdiff_arange (List.length (M8.d_tmpl d)) (M8.d_sc d))
          (map (map (map M8.rat_of)) (M8.d_tmpl d)) (M8.n_templates d).

(* the curated attributes of a loaded model: merge_map (l_mm: the values for the keys 0..max; [] = {}), nan_idx (l_nan),
   sparse_clusters.data (l_data: exact (numerator, denominator) cells), n_clusters (l_ncl) *)
Definition curate (m : loaded) : option M8.loaded :=
  match dset_of m with
  | None => None
  | Some d => match l_tcols m with
              | None => M8.load d                        (* dense storage: C08's model of the branch *)
              | Some _ => Some (else_branch d)           (* sparse_templates.cols is not None *)
              end
  end.

Lemma else_branch_is_load d : M8.d_sc d = M8.d_st d -> M8.d_sc d <> [] -> M8.load d = Some (else_branch d).
Proof.
  intros E Hne. rewrite (P8.C08_identity d E Hne). unfold else_branch. rewrite E.
  now rewrite PV.C08.Proofs3.single_rows_all.
Qed.

(* the branch does not read the whitening matrices *)
Lemma load_wmi_free (d : M8.dset) (w : list (list Z)) :
  M8.load (M8.mkds (M8.d_st d) (M8.d_sc d) (M8.d_tmpl d) (M8.d_px d) (M8.d_py d) (M8.d_shanks d) w) = M8.load d.
Proof. reflexivity. Qed.

(* ---- shapes kept by the reads ---- *)
Lemma prodZ_filter1 sh : prodZ (filter (fun d => negb (d =? 1)) sh) = prodZ sh.
Proof.
  unfold prodZ. induction sh as [|x sh IH]; [reflexivity|]. cbn [filter fold_right].
  destruct (Z.eqb_spec x 1) as [->|N]; cbn [negb fold_right]; rewrite IH; lia.
Qed.
Lemma arr_wf_read_full a : arr_wf a = true -> arr_wf (read_full a) = true.
Proof.
  unfold arr_wf, read_full, squeeze, scrub_arr. cbn [a_data a_shape]. rewrite map_length, prodZ_filter1.
  rewrite !andb_true_iff. intros [H1 H2]. split; [exact H1|]. rewrite forallb_forall in *. intros x Hx.
  apply filter_In in Hx as [Hx _]. now apply H2.
Qed.
Lemma arr_wf_astype d a : arr_wf (astype d a) = arr_wf a.
Proof. reflexivity. Qed.
Lemma arr_wf_vec a n : arr_wf a = true -> a_shape a = [n] -> Z.of_nat (List.length (a_data a)) = n.
Proof.
  unfold arr_wf. intros H E. rewrite E in H. apply andb_true_iff in H as [H _]. apply Z.eqb_eq in H. cbn in H. lia.
Qed.
Lemma src_in ps fs a : src ps fs = Some a -> exists k, In (k, a) fs.
Proof.
  unfold src. destruct (find_path ps fs) as [[k a']|] eqn:E; [|discriminate]. cbn. intros H. injection H as <-.
  destruct (find_path_spec _ _ _ E) as (_ & _ & _ & _ & _ & Hin & _). now exists k.
Qed.

Section Curated.
Variable fdiv : tok -> tok -> option tok.
Variable fmul : tok -> tok -> option tok.
Variable fround : tok -> option Z.
Variable inv_oracle : arr -> arr.
Notation load' := (load fdiv fmul fround inv_oracle).

(* _load_data including its last branch.  When the branch raises (C08's None: no spike, a negative cluster id, a
   template id without template, a malformed geometry) or a loaded value is outside C08's exact regime the result is
   ERegime: this file claims the successful loads only. *)
Definition load_curated (fs : files) (rate : tok) (ncd : option Z) : res (loaded * M8.loaded) :=
  do m <- load' fs rate ncd;
  match curate m with Some c => Ok (m, c) | None => Err ERegime end.

(* the id vectors of an accepted directory both have n_spikes entries *)
Lemma loaded_id_lengths fs rate ncd m : (forall kv, In kv fs -> arr_wf (snd kv) = true) ->
  load' fs rate ncd = Ok m ->
  List.length (a_data (l_stemplates m)) = List.length (a_data (l_sclusters m)).
Proof.
  intros Hwf H. destruct (load_inv _ _ _ _ _ _ _ _ H) as (st & ns & sc & wmi & _ & _ & _ & _ & _ & Hst & Hsc & Esc & _).
  pose proof Hsc as Hsc0. apply load_stemplates_rule in Hst as (a & Sa & Ea & Sha).
  unfold load_sclusters in Hsc. apply rbind_ok in Hsc as ([b cr] & Hb & Hsc). cbn [fst snd] in Hsc.
  destruct (zl_eqb (a_shape (astype DI32 (read_full b))) [ns]) eqn:Ez; [|discriminate]. injection Hsc as <-.
  cbn [fst] in Esc.
  assert (Shb : a_shape (l_sclusters m) = [ns]).
  { rewrite Esc. clear - Ez. revert Ez. generalize (a_shape (astype DI32 (read_full b))). intros l.
    destruct l as [|x [|y l]]; cbn [zl_eqb]; try discriminate.
    - rewrite andb_true_r. intros E. f_equal. now apply Z.eqb_eq.
    - rewrite andb_false_r. discriminate. }
  assert (Wa : arr_wf (l_stemplates m) = true).
  { rewrite Ea. destruct (src_in _ _ _ Sa) as (k & Hin). pose proof (Hwf _ Hin) as W. cbn [snd] in W.
    destruct (dt_is_float (a_dt a)); [rewrite arr_wf_astype|]; now apply arr_wf_read_full. }
  assert (Wb : arr_wf (l_sclusters m) = true).
  { rewrite Esc, arr_wf_astype. apply arr_wf_read_full. unfold sclusters_source in Hb.
    destruct (find_path P_sclusters fs) as [[k f]|] eqn:E1.
    - injection Hb as <- _. destruct (find_path_spec _ _ _ E1) as (_ & _ & _ & _ & _ & Hin & _). exact (Hwf _ Hin).
    - destruct (find_path P_stemplates fs) as [[k f]|] eqn:E2; [|discriminate]. injection Hb as <- _.
      destruct (find_path_spec _ _ _ E2) as (_ & _ & _ & _ & _ & Hin & _). exact (Hwf _ Hin). }
  pose proof (arr_wf_vec _ _ Wa Sha). pose proof (arr_wf_vec _ _ Wb Shb). lia.
Qed.

Lemma omap_len {A B} (f : A -> option B) l l' : omap f l = Some l' -> List.length l' = List.length l.
Proof.
  intros H. apply omap_values in H. apply (f_equal (@List.length _)) in H. now rewrite !map_length in H.
Qed.

Lemma dset_of_fields m d : dset_of m = Some d ->
  zs_of (l_stemplates m) = Some (M8.d_st d) /\ zs_of (l_sclusters m) = Some (M8.d_sc d) /\
  tens_of (l_tdata m) = Some (M8.d_tmpl d) /\
  (exists pos, mat_of (l_pos m) = Some pos /\ M8.d_px d = colz 0 pos /\ M8.d_py d = colz 1 pos) /\
  zs_of (l_shanks m) = Some (M8.d_shanks d) /\ M8.d_wmi d = wmi_of (l_wmi m).
Proof.
  unfold dset_of. destruct (zs_of (l_stemplates m)) as [st|]; [|discriminate].
  destruct (zs_of (l_sclusters m)) as [sc|]; [|discriminate]. destruct (tens_of (l_tdata m)) as [tm|]; [|discriminate].
  destruct (mat_of (l_pos m)) as [pos|]; [|discriminate]. destruct (zs_of (l_shanks m)) as [sh|]; [|discriminate].
  intros H. injection H as <-. cbn. repeat split; try reflexivity. exists pos. repeat split; reflexivity.
Qed.

(* ---- the extension theorem ---- *)
Theorem load_then_curate fs rate ncd m c :
  load_curated fs rate ncd = Ok (m, c) <->
  load' fs rate ncd = Ok m /\
  exists d, dset_of m = Some d /\
    match l_tcols m with
    | None => M8.load d = Some c
    | Some _ => c = else_branch d
    end.
Proof.
  unfold load_curated, curate. split.
  - intros H. apply rbind_ok in H as (m' & Hm & H). destruct (dset_of m') as [d|] eqn:Ed; [|discriminate].
    destruct (l_tcols m') as [tc|] eqn:Etc.
    + injection H as <- <-. split; [exact Hm|]. exists d. split; [exact Ed|]. rewrite Etc. reflexivity.
    + destruct (M8.load d) as [c'|] eqn:El; [|discriminate]. injection H as <- <-. split; [exact Hm|].
      exists d. split; [exact Ed|]. rewrite Etc. exact El.
  - intros (Hm & d & Ed & H). rewrite Hm. cbn [rbind]. rewrite Ed. destruct (l_tcols m); [now subst|now rewrite H].
Qed.

(* C08's shape assert (the two id vectors have different lengths) cannot fire after C04's load *)
Theorem curate_guards fs rate ncd m d : (forall kv, In kv fs -> arr_wf (snd kv) = true) ->
  load' fs rate ncd = Ok m -> dset_of m = Some d ->
  List.length (M8.d_st d) = List.length (M8.d_sc d).
Proof.
  intros Hwf H Ed. destruct (dset_of_fields m d Ed) as (Hst & Hsc & _).
  unfold zs_of in Hst, Hsc. rewrite (omap_len _ _ _ Hst), (omap_len _ _ _ Hsc). exact (loaded_id_lengths _ _ _ _ Hwf H).
Qed.

(* without a spike-cluster file the loaded spike_clusters ARE the loaded spike_templates (as integers), so the
   else-branch is taken: one cluster per template, the template waveforms, no merge map *)
Theorem curate_no_cluster_file fs rate ncd m c :
  src P_sclusters fs = None -> load_curated fs rate ncd = Ok (m, c) ->
  exists d, dset_of m = Some d /\ M8.d_sc d = M8.d_st d /\ c = else_branch d /\
    M8.l_curated c = false /\ M8.l_mm c = [] /\ M8.l_ncl c = M8.n_templates d /\
    M8.l_data c = map (map (map M8.rat_of)) (M8.d_tmpl d) /\
    forall k, In k (M8.l_nan c) <-> 0 <= k < M8.n_templates d /\ ~ In k (M8.d_st d).
Proof.
  intros Hno H. apply load_then_curate in H as (Hm & d & Ed & Hc). exists d. split; [exact Ed|].
  destruct (load_attributes _ _ _ _ _ _ _ _ Hm) as (_ & (a & Sa & Ea) & (b & Eb & Sb) & _).
  rewrite Hno in Sb. rewrite Sa in Sb. injection Sb as <-.
  destruct (dset_of_fields m d Ed) as (Hst & Hsc & _).
  assert (E : M8.d_sc d = M8.d_st d).
  { unfold zs_of in Hst, Hsc. rewrite Ea in Hst. rewrite Eb in Hsc.
    assert (D : a_data (if dt_is_float (a_dt a) then astype DI32 (read_full a) else read_full a) =
                a_data (astype DI32 (read_full a))) by (destruct (dt_is_float (a_dt a)); reflexivity).
    rewrite D in Hst. rewrite Hst in Hsc. now injection Hsc. }
  split; [exact E|].
  assert (Ec : c = else_branch d).
  { destruct (l_tcols m); [exact Hc|]. destruct (M8.d_sc d) as [|s0 r] eqn:Es.
    - unfold M8.load in Hc. rewrite Es in Hc. destruct (negb _); discriminate.
    - rewrite <- Es in *. rewrite else_branch_is_load in Hc; [now injection Hc|exact E|]. rewrite Es. discriminate. }
  split; [exact Ec|]. subst c. cbn [else_branch M8.l_curated M8.l_mm M8.l_ncl M8.l_data M8.l_nan].
  do 4 (split; [reflexivity|]). intros k. split.
  - intros Hk. unfold M8.setdiff_arange in Hk. apply filter_In in Hk as [Hr Hm']. split.
    + apply PV.Base.NpSearch.zrange_ge in Hr. unfold M8.n_templates, PV.Base.NpSearch.zlen. lia.
    + intros Hin. rewrite <- E in Hin.
      assert (M : M8.memZ k (M8.d_sc d) = true).
      { unfold M8.memZ. apply existsb_exists. exists k. split; [exact Hin|apply Z.eqb_refl]. }
      rewrite M in Hm'. discriminate.
  - intros [Hr Hn]. unfold M8.setdiff_arange. apply filter_In. split.
    + apply PV.Base.NpSearch.zrange_in. unfold M8.n_templates, PV.Base.NpSearch.zlen in Hr. lia.
    + destruct (M8.memZ k (M8.d_sc d)) eqn:M; [|reflexivity]. exfalso. apply Hn. rewrite <- E.
      unfold M8.memZ in M. apply existsb_exists in M as (k' & Hin & Ek). apply Z.eqb_eq in Ek. now subst.
Qed.

(* the ids the branch works on, read on the FILES: the scrubbed integer values of the file C04's priority list selects *)
Definition file_ids (a : arr) : option (list Z) := omap tok_Z (map scrub (a_data a)).

Theorem curate_provenance fs rate ncd m c : l_tcols m = None ->
  load_curated fs rate ncd = Ok (m, c) ->
  exists ft fc st sc,
    src P_stemplates fs = Some ft /\ file_ids ft = Some st /\
    (match src P_sclusters fs with Some f => fc = f | None => fc = ft end) /\ file_ids fc = Some sc /\
    (* both branches: nan_idx = the increasing ids of range(n_clusters) that no spike carries *)
    S8.NanIdx_Spec (M8.l_ncl c) sc (M8.l_nan c) /\
    (sc = st -> M8.l_curated c = false /\ M8.l_mm c = [] /\ M8.l_ncl c = Z.of_nat (List.length (M8.l_data c))) /\
    (sc <> st -> M8.l_curated c = true /\ S8.MergeMap_Spec st sc (M8.l_mm c) (M8.l_nan c) /\
                 List.length (M8.l_data c) = List.length (M8.l_mm c) /\
                 M8.l_ncl c = Z.of_nat (List.length (M8.l_mm c))).
Proof.
  intros Hd H. apply load_then_curate in H as (Hm & d & Ed & Hc). rewrite Hd in Hc.
  destruct (load_attributes _ _ _ _ _ _ _ _ Hm) as (_ & (a & Sa & Ea) & (b & Eb & Sb) & _).
  destruct (dset_of_fields m d Ed) as (Hst & Hsc & _).
  exists a, b, (M8.d_st d), (M8.d_sc d). split; [exact Sa|]. split.
  { unfold zs_of in Hst. rewrite Ea in Hst. unfold file_ids. rewrite <- read_full_data.
    destruct (dt_is_float (a_dt a)); exact Hst. }
  split; [destruct (src P_sclusters fs); [exact Sb|]; rewrite Sa in Sb; now injection Sb|].
  split; [unfold zs_of in Hsc; rewrite Eb in Hsc; unfold file_ids; rewrite <- read_full_data; exact Hsc|].
  split; [exact (PV.C08.Proofs8.load_nan_both d c Hc)|]. split.
  - intros E. destruct (P8.C08_nan_idx_identity d c E Hc) as (H1 & H2 & _). split; [exact H1|].
    assert (Hne : M8.d_sc d <> []).
    { intros E0. unfold M8.load in Hc. rewrite E0 in Hc. destruct (negb _); discriminate. }
    rewrite (P8.C08_identity d E Hne) in Hc. injection Hc as <-. cbn. rewrite map_length, seq_length. now split.
  - intros N. exact (P8.C08_merge_map_loaded d c N Hc).
Qed.

(* the id vectors of the converted data set are the scrubbed integer values of the files the priority lists select *)
Theorem curate_ids fs rate ncd m d : load' fs rate ncd = Ok m -> dset_of m = Some d ->
  exists ft fc, src P_stemplates fs = Some ft /\ file_ids ft = Some (M8.d_st d) /\
    (match src P_sclusters fs with Some f => fc = f | None => fc = ft end) /\ file_ids fc = Some (M8.d_sc d).
Proof.
  intros Hm Ed. destruct (load_attributes _ _ _ _ _ _ _ _ Hm) as (_ & (a & Sa & Ea) & (b & Eb & Sb) & _).
  destruct (dset_of_fields m d Ed) as (Hst & Hsc & _). exists a, b. split; [exact Sa|]. split.
  { unfold zs_of in Hst. rewrite Ea in Hst. unfold file_ids. rewrite <- read_full_data.
    destruct (dt_is_float (a_dt a)); exact Hst. }
  split; [destruct (src P_sclusters fs); [exact Sb|]; rewrite Sa in Sb; now injection Sb|].
  unfold zs_of in Hsc. rewrite Eb in Hsc. unfold file_ids. rewrite <- read_full_data. exact Hsc.
Qed.

End Curated.

(* ================================================================================================================ *)
Theorem C04_load_then_curate : forall fdiv fmul fround inv_oracle fs rate ncd m c,
  load_curated fdiv fmul fround inv_oracle fs rate ncd = Ok (m, c) <->
  load fdiv fmul fround inv_oracle fs rate ncd = Ok m /\
  exists d, dset_of m = Some d /\
    match l_tcols m with
    | None => M8.load d = Some c
    | Some _ => c = else_branch d
    end.
Proof. exact load_then_curate. Qed.
Print Assumptions C04_load_then_curate.

Theorem C04_curate_guards : forall fdiv fmul fround inv_oracle fs rate ncd m d,
  (forall kv, In kv fs -> arr_wf (snd kv) = true) ->
  load fdiv fmul fround inv_oracle fs rate ncd = Ok m -> dset_of m = Some d ->
  List.length (M8.d_st d) = List.length (M8.d_sc d).
Proof. exact curate_guards. Qed.
Print Assumptions C04_curate_guards.

Theorem C04_curate_no_cluster_file : forall fdiv fmul fround inv_oracle fs rate ncd m c,
  src P_sclusters fs = None -> load_curated fdiv fmul fround inv_oracle fs rate ncd = Ok (m, c) ->
  exists d, dset_of m = Some d /\ M8.d_sc d = M8.d_st d /\ c = else_branch d /\
    M8.l_curated c = false /\ M8.l_mm c = [] /\ M8.l_ncl c = M8.n_templates d /\
    M8.l_data c = map (map (map M8.rat_of)) (M8.d_tmpl d) /\
    forall k, In k (M8.l_nan c) <-> 0 <= k < M8.n_templates d /\ ~ In k (M8.d_st d).
Proof. exact curate_no_cluster_file. Qed.
Print Assumptions C04_curate_no_cluster_file.

Theorem C04_curate_provenance : forall fdiv fmul fround inv_oracle fs rate ncd m c, l_tcols m = None ->
  load_curated fdiv fmul fround inv_oracle fs rate ncd = Ok (m, c) ->
  exists ft fc st sc,
    src P_stemplates fs = Some ft /\ file_ids ft = Some st /\
    (match src P_sclusters fs with Some f => fc = f | None => fc = ft end) /\ file_ids fc = Some sc /\
    S8.NanIdx_Spec (M8.l_ncl c) sc (M8.l_nan c) /\
    (sc = st -> M8.l_curated c = false /\ M8.l_mm c = [] /\ M8.l_ncl c = Z.of_nat (List.length (M8.l_data c))) /\
    (sc <> st -> M8.l_curated c = true /\ S8.MergeMap_Spec st sc (M8.l_mm c) (M8.l_nan c) /\
                 List.length (M8.l_data c) = List.length (M8.l_mm c) /\
                 M8.l_ncl c = Z.of_nat (List.length (M8.l_mm c))).
Proof. exact curate_provenance. Qed.
Print Assumptions C04_curate_provenance.

Theorem C04_curate_ids : forall fdiv fmul fround inv_oracle fs rate ncd m d,
  load fdiv fmul fround inv_oracle fs rate ncd = Ok m -> dset_of m = Some d ->
  exists ft fc, src P_stemplates fs = Some ft /\ file_ids ft = Some (M8.d_st d) /\
    (match src P_sclusters fs with Some f => fc = f | None => fc = ft end) /\ file_ids fc = Some (M8.d_sc d).
Proof. exact curate_ids. Qed.
Print Assumptions C04_curate_ids.

(* the conversions lose nothing: Z structure -> array -> Z structure is the identity (ids; rectangular matrices and
   template stacks without an empty axis), and a successful conversion reads the exact integer value of every token *)
Theorem C04_conv_round_trip :
  (forall d l, zs_of (arr_of_zs d l) = Some l) /\
  (forall d m c, m <> [] -> Rect m c -> mat_of (arr_of_mat d m) = Some m) /\
  (forall d T ns nc, Rect3 T ns nc -> tens_of (arr_of_tens d T) = Some T) /\
  (forall a l, zs_of a = Some l -> map tok_Z (a_data a) = map Some l).
Proof.
  split; [exact zs_round|]. split; [exact mat_round|]. split; [exact tens_round|].
  intros a l H. exact (omap_values _ _ _ H).
Qed.
Print Assumptions C04_conv_round_trip.

Theorem C04_curate_wmi_free : forall (d : M8.dset) (w : list (list Z)),
  M8.load (M8.mkds (M8.d_st d) (M8.d_sc d) (M8.d_tmpl d) (M8.d_px d) (M8.d_py d) (M8.d_shanks d) w) = M8.load d.
Proof. exact load_wmi_free. Qed.
Print Assumptions C04_curate_wmi_free.

(* ---- non-vacuity: a six-file directory (2 templates x 2 samples x 3 channels, 4 spikes).  With a spike-cluster file
   that moves two spikes of templates 0 and 1 into cluster 3 the branch computes merge_map = {0: [0], 1: [1], 2: [], 3: [0, 1]},
   nan_idx = [2], n_clusters = 4, and cluster 3 carries the mean (16/2, 20/2, ...) kept as (numerator, denominator);
   without that file the else-branch is taken (2 clusters, no merge map) and spike_clusters.npy is created.  The oracles are
   arbitrary (the theorems hold for every oracle). ---- *)
Definition ex_fs (with_clusters : bool) : files :=
  [("spike_times.npy", mkarr DU64 [4] (map tz [1; 2; 3; 4]));
   ("spike_templates.npy", mkarr DU32 [4] (map tz [0; 0; 1; 1]))] ++
  (if with_clusters then [("spike_clusters.npy", mkarr DI32 [4] (map tz [0; 3; 3; 1]))] else []) ++
  [("channel_map.npy", mkarr DI32 [3] (map tz [0; 1; 2]));
   ("channel_positions.npy", mkarr DF64 [3; 2] (map tz [0; 0; 0; 20; 0; 40]));
   ("templates.npy", mkarr DF32 [2; 2; 3] (map tz [2; 4; 6; 8; 10; 12; 14; 16; 18; 2; 2; 2]))].
Definition ex_load (b : bool) :=
  load_curated (fun s _ => Some s) (fun s _ => Some s) (fun _ => Some 0) (fun a => a) (ex_fs b) (tz 1) None.
Example C04_ex_curated : exists m c, ex_load true = Ok (m, c) /\
  M8.l_curated c = true /\ M8.l_mm c = [[0]; [1]; []; [0; 1]] /\ M8.l_nan c = [2] /\ M8.l_ncl c = 4 /\
  nth 3 (M8.l_data c) [] = [[M8.mkrat 16 2; M8.mkrat 20 2; M8.mkrat 24 2]; [M8.mkrat 10 2; M8.mkrat 12 2; M8.mkrat 14 2]] /\
  option_map M8.d_sc (dset_of m) = Some [0; 3; 3; 1] /\ l_created m = [("whitening_mat_inv.npy", l_wmi m)].
Proof. eexists. eexists. split; [vm_compute; reflexivity|]. vm_compute. repeat split. Qed.
Example C04_ex_uncurated : exists m c, ex_load false = Ok (m, c) /\ src P_sclusters (ex_fs false) = None /\
  M8.l_curated c = false /\ M8.l_mm c = [] /\ M8.l_nan c = [] /\ M8.l_ncl c = 2 /\
  map fst (l_created m) = ["spike_clusters.npy"; "whitening_mat_inv.npy"].
Proof. eexists. eexists. split; [vm_compute; reflexivity|]. vm_compute. repeat split. Qed.
