(* C01/Model.v -- executable model of the raw-data readers' indexing.  No proofs here.
   phylib/io/traces.py: _get_subitems (slice / list / int branches), _find_chunks,
   _get_part_bounds, BaseEphysReader.__getitem__ (per-part reads, vstack, 'cols' op),
   _memmap_flat, the _get_part of the four backends.

   Conventions: a 2-D array is a list of rows; Python integers are Z; wherever Python/NumPy
   raises, the model returns None.  The first block ("one array") is the NumPy semantics of
   indexing ONE in-memory array along one axis; it is used both for the per-part reads of the
   model (a part is one memmap / ndarray / mtscomp reader) and, in Spec.v, for the reference
   "what NumPy returns on the concatenation". *)
From Coq Require Import ZArith List Lia Bool.
From PV Require Import Base.PySlice Base.NpSearch.
Import ListNotations.
Open Scope Z_scope.

(* ---------------------------------------------------------------------------------------- *)
(* index expressions                                                                          *)
(* ---------------------------------------------------------------------------------------- *)
(* what may be passed in reader[...] on the sample axis, and what _get_subitems hands to a part *)
Inductive item :=
| IInt (i : Z)
| ISlice (start stop step : option Z)
| IList (l : list Z).                      (* Python list or 1-D integer ndarray *)

(* channel selectors: arr[:, cols] *)
Inductive colsel :=
| CSlice (start stop step : option Z)
| CList (l : list Z).

Definition bind {X Y} (m : option X) (f : X -> option Y) : option Y :=
  match m with None => None | Some x => f x end.

Fixpoint mapM {X Y} (f : X -> option Y) (l : list X) : option (list Y) :=
  match l with
  | [] => Some []
  | x :: r => match f x with
              | None => None
              | Some y => match mapM f r with None => None | Some ys => Some (y :: ys) end
              end
  end.

(* ---------------------------------------------------------------------------------------- *)
(* one array: NumPy/CPython index arithmetic on an axis of length n                           *)
(* ---------------------------------------------------------------------------------------- *)
(* a[i]: negative indices wrap once, anything outside [-n, n) is an IndexError *)
Definition py_norm (n i : Z) : option Z :=
  let j := if i <? 0 then i + n else i in
  if (0 <=? j) && (j <? n) then Some j else None.

(* PySlice_AdjustIndices for one bound *)
Definition adj (n step v : Z) : Z :=
  if v <? 0 then (let w := v + n in if w <? 0 then (if step <? 0 then -1 else 0) else w)
  else if n <=? v then (if step <? 0 then n - 1 else n) else v.

Record sl3 := mksl { sl_start : Z; sl_len : Z; sl_step : Z }.

(* slice(start, stop, step).indices(n) + slice length; step = 0 is a ValueError *)
Definition slice_adjust (n : Z) (start stop step : option Z) : option sl3 :=
  let st := match step with None => 1 | Some s => s end in
  if st =? 0 then None else
  let s := match start with Some v => adj n st v | None => if st <? 0 then n - 1 else 0 end in
  let e := match stop with Some v => adj n st v | None => if st <? 0 then -1 else n end in
  let len := if st <? 0 then (if e <? s then (s - e - 1) / (- st) + 1 else 0)
             else (if s <? e then (e - s - 1) / st + 1 else 0) in
  Some (mksl s len st).

Definition slice_indices (n : Z) (start stop step : option Z) : option (list Z) :=
  match slice_adjust n start stop step with
  | None => None
  | Some a => Some (map (fun k => sl_start a + k * sl_step a) (zrange 0 (Z.to_nat (sl_len a))))
  end.

(* positions, all in [0, n), selected on an axis of length n *)
Definition row_indices (n : Z) (it : item) : option (list Z) :=
  match it with
  | IInt i => option_map (fun j => [j]) (py_norm n i)
  | ISlice start stop step => slice_indices n start stop step
  | IList l => mapM (py_norm n) l
  end.

Definition col_indices (c : Z) (cs : colsel) : option (list Z) :=
  match cs with
  | CSlice start stop step => slice_indices c start stop step
  | CList l => mapM (py_norm c) l
  end.

Section OneArray.
Context {X : Type}.

Definition pick (l : list X) (i : Z) : option X :=
  if i <? 0 then None else nth_error l (Z.to_nat i).

Definition gather (l : list X) (idx : list Z) : option (list X) := mapM (pick l) idx.

(* np.atleast_2d(M[it]) for a 2-D M given as its list of rows (an integer selects one row) *)
Definition np_index (M : list X) (it : item) : option (list X) :=
  bind (row_indices (zlen M) it) (gather M).
End OneArray.

Section Cols.
Context {A : Type}.
Definition sel_row (cs : colsel) (row : list A) : option (list A) :=
  bind (col_indices (zlen row) cs) (gather row).
(* arr[:, cols] *)
Definition select_cols (cs : colsel) (rows : list (list A)) : option (list (list A)) :=
  mapM (sel_row cs) rows.
End Cols.

(* ---------------------------------------------------------------------------------------- *)
(* _get_part_bounds, _find_chunks, _get_subitems                                              *)
(* ---------------------------------------------------------------------------------------- *)
(* [0] + list(np.cumsum(sizes)) *)
Definition part_bounds (sizes : list Z) : list Z := 0 :: cumsum_from 0 sizes.

(* np.searchsorted(bounds, x, 'right') - 1 *)
Definition find_chunk (bounds : list Z) (x : Z) : Z := ssr bounds x - 1.

Record subitem := mksub { sub_part : Z; sub_item : item }.
Record bpair := mkbp { b_lo : Z; b_hi : Z }.

Definition py_first (l : list Z) : option Z := match l with [] => None | x :: _ => Some x end.
Definition py_last (l : list Z) : option Z := match l with [] => None | _ => Some (last l 0) end.
(* l[i] on a Python list *)
Definition py_get (l : list Z) (i : Z) : option Z := bind (py_norm (zlen l) i) (pick l).
(* i0, i1 = bounds[c:c + 2]: unpacking needs exactly two elements *)
Definition py_pair (bounds : list Z) (c : Z) : option bpair :=
  if (0 <=? c) && (c + 1 <? zlen bounds)
  then match pick bounds c, pick bounds (c + 1) with
       | Some a, Some b => Some (mkbp a b)
       | _, _ => None
       end
  else None.

(* a % b on Python ints *)
Definition pymod (a b : Z) : option Z := if b =? 0 then None else Some (a mod b).
(* x or d *)
Definition or_default (x : option Z) (d : Z) : Z :=
  match x with None => d | Some v => if v =? 0 then d else v end.

(* the chunk loop of the slice branch *)
Fixpoint slice_loop (bounds : list Z) (start stop : Z) (cs : list Z) : option (list subitem) :=
  match cs with
  | [] => Some []
  | c :: r =>
      match py_pair bounds c with
      | None => None
      | Some bp =>
          let i0 := b_lo bp in let i1 := b_hi bp in
          let cstart := Z.max 0 (start - i0) in
          let cstop := Z.min (i1 - i0) (stop - i0) in
          if negb ((0 <=? cstart) && (cstop <=? i1)) then None else      (* the two asserts *)
          match slice_loop bounds start stop r with
          | None => None
          | Some out => Some (mksub c (ISlice (Some cstart) (Some cstop) (Some 1)) :: out)
          end
      end
  end.

Definition wrap_neg (v bl : Z) : option Z := if v <? 0 then pymod v bl else Some v.

Definition get_subitems_slice (bounds : list Z) (start stop step : option Z) : option (list subitem) :=
  match py_first bounds, py_last bounds with
  | Some b0, Some bl =>
      let start := or_default start b0 in
      let stop := or_default stop bl in
      match wrap_neg start bl with None => None | Some start =>
      let start := Z.min start bl in
      match wrap_neg stop bl with None => None | Some stop =>
      let stop := Z.min stop bl in
      let step := or_default step 1 in
      if negb (step =? 1) then None else
      if negb ((0 <=? start) && (start <=? bl)) then None else
      if negb ((0 <=? stop) && (stop <=? bl)) then None else
      let first := find_chunk bounds start in
      let lastc := find_chunk bounds (stop - 1) in
      slice_loop bounds start stop (zrange first (Z.to_nat (lastc + 1 - first)))
      end end
  | _, _ => None
  end.

(* np.diff, np.unique (sorted, duplicates removed) *)
Fixpoint diff (l : list Z) : list Z :=
  match l with
  | x :: r => match r with [] => [] | y :: _ => (y - x) :: diff r end
  | [] => []
  end.
Fixpoint insu (x : Z) (l : list Z) : list Z :=
  match l with
  | [] => [x]
  | y :: r => if x <? y then x :: l else if x =? y then l else y :: insu x r
  end.
Definition unique (l : list Z) : list Z := fold_right insu [] l.

Fixpoint list_loop (bounds l : list Z) (cs : list Z) : option (list subitem) :=
  match cs with
  | [] => Some []
  | c :: r =>
      if zlen bounds - 1 <=? c then None else                              (* raise IndexError() *)
      match py_pair bounds c with
      | None => None                                                        (* unpacking fails *)
      | Some bp =>
          let i0 := b_lo bp in let i1 := b_hi bp in
          let sub := map (fun x => x - i0) (filter (fun x => (i0 <=? x) && (x <? i1)) l) in
          match list_loop bounds l r with
          | None => None
          | Some out => Some (mksub c (IList sub) :: out)
          end
      end
  end.

Definition get_subitems_list (bounds l : list Z) : option (list subitem) :=
  if (2 <=? zlen l) && negb (forallb (fun d => negb (d =? 0)) (diff l)) then None   (* assert np.all(np.diff(item)) *)
  else list_loop bounds l (unique (map (find_chunk bounds) l)).

Definition get_subitems_int (bounds : list Z) (i : Z) : option (list subitem) :=
  match py_last bounds with
  | None => None
  | Some bl =>
      match wrap_neg i bl with
      | None => None
      | Some i =>
          let c := find_chunk bounds i in
          if zlen bounds - 1 <=? c then None else                          (* raise IndexError() *)
          match py_get bounds c with
          | None => None
          | Some bc => Some [mksub c (IInt (i - bc))]
          end
      end
  end.

Definition get_subitems (bounds : list Z) (it : item) : option (list subitem) :=
  match it with
  | ISlice start stop step => get_subitems_slice bounds start stop step
  | IList l => get_subitems_list bounds l
  | IInt i => get_subitems_int bounds i
  end.

(* ---------------------------------------------------------------------------------------- *)
(* BaseEphysReader.__getitem__ of a reader without deferred operations                        *)
(* ---------------------------------------------------------------------------------------- *)
Section Reader.
Context {A : Type}.
Notation row := (list A).

(* self._mmaps[part_idx][subitem] / self._arr[subitem] / self.reader[subitem]: NumPy indexing of
   one part; an integer gives one row, which np.vstack turns back into a 1 x c block *)
Definition get_part (parts : list (list row)) (s : subitem) : option (list row) :=
  bind (bind (py_norm (zlen parts) (sub_part s)) (pick parts)) (fun p => np_index p (sub_item s)).

Definition getitem_rows (parts : list (list row)) (it : item) : option (list row) :=
  match get_subitems (part_bounds (map zlen parts)) it with
  | None => None
  | Some subs =>
      match mapM (get_part parts) subs with
      | None => None
      | Some [] => None                          (* np.vstack([]) raises ValueError *)
      | Some blocks => Some (concat blocks)      (* np.vstack *)
      end
  end.

(* item == slice(None, None, None) *)
Definition is_whole (it : item) : bool :=
  match it with ISlice None None None => true | _ => false end.

Inductive result :=
| RRows (rows : list row)            (* a 2-D array *)
| RDerived (cs : colsel).            (* reader[:, cols]: a new reader with a deferred 'cols' op (C02) *)

(* reader[it] and reader[it, cols] (after the fix: the whole-slice test looks at slices only) *)
Definition getitem (parts : list (list row)) (it : item) (cols : option colsel) : option result :=
  match cols with
  | None => option_map RRows (getitem_rows parts it)
  | Some cs =>
      if is_whole it then Some (RDerived cs)
      else option_map RRows (bind (getitem_rows parts it) (select_cols cs))
  end.
End Reader.

(* ---------------------------------------------------------------------------------------- *)
(* _memmap_flat: number of samples of one flat file                                           *)
(* ---------------------------------------------------------------------------------------- *)
Definition memmap_rows (fsize offset itemsize nch : Z) : option Z :=
  if nch <=? 0 then None                                                   (* assert n_channels > 0 *)
  else let n := (fsize - offset) / (itemsize * nch) in
       if n <? 0 then None else Some n.                                    (* np.memmap refuses *)

(* reader attributes *)
Record attrs := mkattrs { a_nsamples : Z; a_nchannels : Z; a_bounds : list Z }.
