(* C01/Proofs.v -- lemmas and main proofs. *)
From Coq Require Import ZArith List Lia Bool.
From PV Require Import Base.PySlice Base.NpSearch C01.Model C01.Spec.
Import ListNotations.
Open Scope Z_scope.

Lemma memmap_rows_exact fsize offset isz nch n :
  0 <= n -> 0 < nch -> 0 < isz -> fsize = offset + n * nch * isz ->
  memmap_rows fsize offset isz nch = Some n.
Proof.
  intros Hn Hc Hi ->. unfold memmap_rows.
  replace (nch <=? 0) with false by lia.
  replace (offset + n * nch * isz - offset) with (n * (isz * nch)) by lia.
  rewrite Z.div_mul by lia. replace (n <? 0) with false by lia. reflexivity.
Qed.
