(* C01/Proofs.v -- assembly: the three branches against the declarative reading, column selectors,
   reader attributes (part bounds, n_samples through C16's chunk bounds, _memmap_flat). *)
From Coq Require Import ZArith List Lia Bool.
From PV Require Import Base.PySlice Base.NpSearch C01.Model C01.Spec C01.Proofs1 C01.Proofs2
  C01.Proofs3 C01.Proofs4.
From PV Require C16.Model C16.Spec C16.Proofs.
Import ListNotations.
Open Scope Z_scope.

(* ---------- mapM / gather against Forall2 ---------- *)
Lemma Forall2_impl {X Y} (P Q : X -> Y -> Prop) l l' :
  (forall x y, P x y -> Q x y) -> Forall2 P l l' -> Forall2 Q l l'.
Proof. intros H F. induction F; constructor; auto. Qed.

Lemma mapM_Forall2 {X Y} (f : X -> option Y) l out :
  mapM f l = Some out <-> Forall2 (fun x y => f x = Some y) l out.
Proof.
  revert out; induction l as [|x r IH]; intros out; cbn [mapM].
  - split; [intros H; injection H as <-; constructor|intros H; inversion H; reflexivity].
  - split.
    + destruct (f x) as [y|] eqn:E; [|discriminate]. destruct (mapM f r) as [ys|]; [|discriminate].
      intros H; injection H as <-. constructor; [assumption|]. now apply IH.
    + intros H; inversion H as [|? y ? ys Hy Hr]; subst. rewrite Hy.
      apply IH in Hr. rewrite Hr. reflexivity.
Qed.

Lemma pick_iff {X} (M : list X) i r : pick M i = Some r <-> 0 <= i /\ nth_error M (Z.to_nat i) = Some r.
Proof.
  unfold pick. destruct (i <? 0) eqn:E; split; try discriminate; try lia.
  - intros H; split; [lia|assumption].
  - intros (_ & H); exact H.
Qed.

Lemma gather_Rows_at {X} (M : list X) l rows : gather M l = Some rows <-> Rows_at M l rows.
Proof.
  unfold gather, Rows_at. rewrite mapM_Forall2. split; intros H.
  - eapply Forall2_impl; [|exact H]; cbv beta. intros i r Hp. now apply pick_iff.
  - eapply Forall2_impl; [|exact H]; cbv beta. intros i r Hp. now apply pick_iff.
Qed.

Lemma valid_item_pos n it : 0 <= n -> valid_item n it -> 0 < n.
Proof.
  intros Hn. destruct it as [i|start stop step|l]; cbn [valid_item].
  - lia.
  - intros (_ & _ & _ & H).
    pose proof (np_bound_range n 0 start Hn ltac:(lia)). pose proof (np_bound_range n n stop Hn ltac:(lia)). lia.
  - intros (Hne & Hinc & Hlt). destruct l as [|x r]; [congruence|].
    cbn [increasing] in Hinc. inversion Hlt; subst. lia.
Qed.

Section Main.
Context {A : Type}.
Notation row := (list A).
Implicit Types (parts : list (list row)).

(* reader[item] = np.atleast_2d(concatenation[item]) on the whole regime of the statement *)
Theorem getitem_rows_np parts it :
  valid_item (zlen (concat parts)) it ->
  getitem_rows parts it = np_index (concat parts) it.
Proof.
  intros Hv. pose proof (valid_item_pos _ _ (zlen_nonneg (concat parts)) Hv) as Hn.
  destruct it as [i|start stop step|l].
  - rewrite getitem_int_correct by exact Hv. rewrite np_index_int by exact Hv. reflexivity.
  - rewrite getitem_slice_correct by assumption. destruct Hv as (Hst & _).
    rewrite np_index_slice by assumption. reflexivity.
  - rewrite getitem_list_correct by assumption. rewrite np_index_list; [reflexivity|].
    destruct Hv as (_ & Hinc & Hlt). apply Forall_forall. intros x Hx.
    pose proof (increasing_all _ _ Hinc x Hx). rewrite Forall_forall in Hlt. specialize (Hlt x Hx). lia.
Qed.

Theorem getitem_int_decl parts i :
  let n := zlen (concat parts) in
  - n <= i < n ->
  exists r, Row_at (concat parts) i r /\ getitem_rows parts (IInt i) = Some [r].
Proof.
  intros n Hi. rewrite getitem_int_correct by exact Hi. fold n.
  assert (Em : i mod n = if i <? 0 then i + n else i).
  { destruct (i <? 0) eqn:E.
    - replace i with ((i + n) + (-1) * n) at 1 by lia. rewrite Z.mod_add by lia. apply Z.mod_small. lia.
    - apply Z.mod_small. lia. }
  destruct (pick_some (concat parts) (i mod n)) as (r & Er).
  { fold n. apply Z.mod_pos_bound. lia. }
  exists r. rewrite Er. split; [|reflexivity].
  apply pick_iff in Er as (_ & Er). unfold Row_at. fold n. rewrite <- Em. exact Er.
Qed.

Theorem getitem_list_decl parts l :
  valid_item (zlen (concat parts)) (IList l) ->
  exists rows, getitem_rows parts (IList l) = Some rows /\ Rows_at (concat parts) l rows.
Proof.
  intros Hv. rewrite getitem_list_correct by exact Hv.
  destruct Hv as (_ & Hinc & Hlt).
  destruct (gather_some (concat parts) l) as (rows & E & _).
  { apply Forall_forall. intros x Hx.
    pose proof (increasing_all _ _ Hinc x Hx). rewrite Forall_forall in Hlt. specialize (Hlt x Hx). lia. }
  exists rows. split; [assumption|]. now apply gather_Rows_at.
Qed.

(* reader[item, cols] and reader[item]: rows of the concatenation first, then the columns;
   exactly reader[:, cols] gives a derived reader (C02) *)
Theorem getitem_np parts it cols :
  valid_item (zlen (concat parts)) it ->
  getitem parts it cols =
  match cols with
  | Some cs => if is_whole it then Some (RDerived cs)
               else option_map RRows (np_getitem (concat parts) it cols)
  | None => option_map RRows (np_getitem (concat parts) it cols)
  end.
Proof.
  intros Hv. unfold getitem, np_getitem. rewrite getitem_rows_np by assumption.
  destruct cols as [cs|].
  - destruct (is_whole it); reflexivity.
  - destruct (np_index (concat parts) it); reflexivity.
Qed.

(* arr[:, cols] row by row *)
Theorem select_cols_decl (cs : colsel) (rows out : list row) :
  select_cols cs rows = Some out <-> Cols_of cs rows out.
Proof.
  unfold select_cols, Cols_of. rewrite mapM_Forall2. split; intros H.
  - eapply Forall2_impl; [|exact H]; cbv beta. intros r r' Hs. unfold sel_row in Hs.
    destruct (col_indices (zlen r) cs) as [idx|]; [|discriminate]. cbn [bind] in Hs.
    exists idx. split; [reflexivity|]. now apply gather_Rows_at.
  - eapply Forall2_impl; [|exact H]; cbv beta. intros r r' (idx & E & Hr). unfold sel_row. rewrite E.
    cbn [bind]. now apply gather_Rows_at.
Qed.

(* column selection commutes with the concatenation of row blocks *)
Lemma select_cols_concat (cs : colsel) (blocks : list (list row)) :
  select_cols cs (concat blocks) = option_map (@concat row) (mapM (select_cols cs) blocks).
Proof.
  induction blocks as [|b r IH]; cbn [concat mapM]; [reflexivity|].
  unfold select_cols at 1. rewrite mapM_app. fold (select_cols cs b). fold (select_cols cs (concat r)).
  rewrite IH. destruct (select_cols cs b); [|reflexivity].
  destruct (mapM (select_cols cs) r); reflexivity.
Qed.
End Main.

(* ---------- the column selectors of the statement ---------- *)
(* unit-step slice of the channels *)
Lemma sel_row_slice {A} (r : list A) start stop step : unit_step step ->
  sel_row (CSlice start stop step) r =
  Some (slice r (np_bound (zlen r) 0 start) (np_bound (zlen r) (zlen r) stop)).
Proof. intros H. exact (np_index_slice r start stop step H). Qed.

(* channel index list / permutation with entries in [0, c) *)
Lemma sel_row_list {A} (r : list A) l : Forall (fun x => 0 <= x < zlen r) l ->
  sel_row (CList l) r = gather r l.
Proof. intros H. exact (np_index_list r l H). Qed.

(* [::-1] reverses the channels *)
Lemma gather_rev {X} (r : list X) :
  gather r (map (fun k => zlen r - 1 + k * -1) (zrange 0 (length r))) = Some (rev r).
Proof.
  induction r as [|x r IH] using rev_ind; [reflexivity|].
  rewrite app_length, Nat.add_comm. cbn [length Nat.add zrange map].
  rewrite zlen_app. change (zlen [x]) with 1. unfold gather. cbn [mapM].
  rewrite pick_app_r by lia. replace (zlen r + 1 - 1 + 0 * -1 - zlen r) with 0 by lia.
  cbn [pick_cons_0]. change (pick [x] 0) with (Some x).
  rewrite (zrange_S 0), map_map.
  rewrite (mapM_ext_in _ (pick r)) with (l := map _ _).
  2:{ intros i Hi. apply in_map_iff in Hi as (k & <- & Hk). apply zrange_ge in Hk.
      apply pick_app_l. lia. }
  rewrite (map_ext _ (fun k => zlen r - 1 + k * -1)) by (intros k; lia).
  unfold gather in IH. rewrite IH. rewrite rev_app_distr. reflexivity.
Qed.

Lemma sel_row_rev {A} (r : list A) : sel_row (CSlice None None (Some (-1))) r = Some (rev r).
Proof.
  unfold sel_row, col_indices, slice_indices, slice_adjust.
  cbn [Z.eqb Z.ltb Z.compare Z.opp sl_start sl_len sl_step bind].
  pose proof (zlen_nonneg r) as Hn.
  replace (Z.to_nat (if -1 <? zlen r - 1 then (zlen r - 1 - -1 - 1) / 1 + 1 else 0)) with (length r).
  - apply gather_rev.
  - destruct (Z.ltb_spec (-1) (zlen r - 1)); [rewrite Z.div_1_r|]; unfold zlen in *; lia.
Qed.

(* ---------- reader attributes ---------- *)
Lemma cumsum_increasing acc sizes : (forall x, In x sizes -> 1 <= x) -> increasing acc (cumsum_from acc sizes).
Proof.
  revert acc; induction sizes as [|x r IH]; intros acc H; cbn [cumsum_from increasing]; [exact I|].
  split; [specialize (H x (or_introl eq_refl)); lia|]. apply IH. intros y Hy. apply H. now right.
Qed.

(* part_bounds: starts at 0, ends at the total, strictly increasing for parts of >= 1 sample *)
Theorem part_bounds_spec sizes :
  py_first (part_bounds sizes) = Some 0 /\ last (part_bounds sizes) 0 = zsum sizes /\
  zlen (part_bounds sizes) = zlen sizes + 1 /\
  ((forall x, In x sizes -> 1 <= x) -> increasing (-1) (part_bounds sizes)).
Proof.
  split; [reflexivity|]. split; [apply part_bounds_last|]. split; [apply part_bounds_length|].
  intros H. unfold part_bounds. cbn [increasing]. split; [lia|]. now apply cumsum_increasing.
Qed.

(* n_samples = chunk_bounds[-1] = sum of the part sizes (chunk bounds are C16's) *)
Theorem n_samples_spec sizes cs : sizes <> [] -> (forall x, In x sizes -> 0 <= x) -> 1 <= cs ->
  exists b, C16.Model.get_chunk_bounds sizes cs = Some b /\ b <> [] /\ last b 0 = zsum sizes.
Proof.
  intros H1 H2 H3. destruct (C16.Proofs.reader_bounds sizes cs H1 H2 H3) as (b & Hb & r & -> & _ & Hl & _).
  exists (0 :: r). split; [exact Hb|]. split; [discriminate|exact Hl].
Qed.

(* _memmap_flat: whole rows after the header; trailing bytes short of one row are ignored *)
Lemma memmap_rows_floor fsize offset isz nch n junk :
  0 <= n -> 0 < nch -> 0 < isz -> 0 <= junk < nch * isz -> fsize = offset + n * nch * isz + junk ->
  memmap_rows fsize offset isz nch = Some n.
Proof.
  intros Hn Hc Hi Hj ->. unfold memmap_rows.
  replace (nch <=? 0) with false by lia.
  replace (offset + n * nch * isz + junk - offset) with (junk + n * (isz * nch)) by lia.
  rewrite Z.div_add by lia. rewrite Z.div_small by lia. replace (0 + n <? 0) with false by lia.
  f_equal; lia.
Qed.

Lemma memmap_rows_exact fsize offset isz nch n :
  0 <= n -> 0 < nch -> 0 < isz -> fsize = offset + n * nch * isz ->
  memmap_rows fsize offset isz nch = Some n.
Proof. intros Hn Hc Hi H. apply (memmap_rows_floor fsize offset isz nch n 0); nia. Qed.

(* a flat reader over several files: the part sizes are the row counts of the files *)
Lemma flat_sizes offset isz nch fsizes ns : 0 < nch -> 0 < isz ->
  Forall2 (fun f n => 0 <= n /\ exists junk, 0 <= junk < nch * isz /\ f = offset + n * nch * isz + junk) fsizes ns ->
  mapM (fun f => memmap_rows f offset isz nch) fsizes = Some ns.
Proof.
  intros Hc Hi H. apply mapM_Forall2. eapply Forall2_impl; [|exact H]; cbv beta.
  intros f n (Hn & junk & Hj & E). now apply (memmap_rows_floor f offset isz nch n junk).
Qed.
