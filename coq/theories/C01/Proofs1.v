(* C01/Proofs1.v -- lemmas on the one-array primitives (mapM, pick, gather, slice_indices) and on
   the part bounds. *)
From Coq Require Import ZArith List Lia Bool.
From PV Require Import Base.PySlice Base.NpSearch C01.Model C01.Spec.
Import ListNotations.
Open Scope Z_scope.

(* ---------- mapM ---------- *)
Section MapM.
Context {X Y : Type}.
Implicit Types (f : X -> option Y).

Lemma mapM_app f l1 l2 :
  mapM f (l1 ++ l2) = match mapM f l1, mapM f l2 with Some a, Some b => Some (a ++ b) | _, _ => None end.
Proof.
  induction l1 as [|x r IH]; cbn [mapM app].
  - destruct (mapM f l2); reflexivity.
  - destruct (f x) as [y|]; [|reflexivity]. rewrite IH.
    destruct (mapM f r), (mapM f l2); reflexivity.
Qed.

Lemma mapM_ext_in f g l : (forall x, In x l -> f x = g x) -> mapM f l = mapM g l.
Proof.
  induction l as [|x r IH]; intros H; cbn [mapM]; [reflexivity|].
  rewrite (H x) by now left. rewrite IH; [reflexivity|]. intros y Hy. apply H. now right.
Qed.

Lemma mapM_length f l out : mapM f l = Some out -> length out = length l.
Proof.
  revert out; induction l as [|x r IH]; intros out; cbn [mapM].
  - intros H; injection H as <-; reflexivity.
  - destruct (f x) as [y|]; [|discriminate]. destruct (mapM f r) as [ys|]; [|discriminate].
    intros H; injection H as <-. cbn [length]. f_equal. now apply IH.
Qed.

Lemma mapM_all_some f g l : (forall x, In x l -> f x = Some (g x)) -> mapM f l = Some (map g l).
Proof.
  induction l as [|x r IH]; intros H; cbn [mapM map]; [reflexivity|].
  rewrite (H x) by now left. rewrite IH; [reflexivity|]. intros y Hy. apply H. now right.
Qed.
End MapM.

Lemma mapM_map {X Y W} (h : X -> Y) (f : Y -> option W) l : mapM f (map h l) = mapM (fun x => f (h x)) l.
Proof. induction l as [|x r IH]; cbn [mapM map]; [reflexivity|]. now rewrite IH. Qed.

(* ---------- zlen ---------- *)
Lemma zlen_nonneg {X} (l : list X) : 0 <= zlen l.
Proof. unfold zlen; lia. Qed.
Lemma zlen_cons {X} (x : X) l : zlen (x :: l) = zlen l + 1.
Proof. unfold zlen; cbn [length]; lia. Qed.
Lemma zlen_app {X} (a b : list X) : zlen (a ++ b) = zlen a + zlen b.
Proof. unfold zlen; rewrite app_length; lia. Qed.

(* ---------- pick / gather ---------- *)
Section Pick.
Context {X : Type}.
Implicit Types (l : list X).

Lemma pick_cons_0 x l : pick (x :: l) 0 = Some x.
Proof. reflexivity. Qed.

Lemma pick_cons_S x l i : 0 < i -> pick (x :: l) i = pick l (i - 1).
Proof.
  intros H. unfold pick. replace (i <? 0) with false by lia. replace (i - 1 <? 0) with false by lia.
  replace (Z.to_nat i) with (S (Z.to_nat (i - 1))) by lia. reflexivity.
Qed.

Lemma pick_app_l l1 l2 i : i < zlen l1 -> pick (l1 ++ l2) i = pick l1 i.
Proof.
  intros H. unfold pick. destruct (i <? 0) eqn:E; [reflexivity|].
  apply nth_error_app1. unfold zlen in H. lia.
Qed.

Lemma pick_app_r l1 l2 i : zlen l1 <= i -> pick (l1 ++ l2) i = pick l2 (i - zlen l1).
Proof.
  intros H. unfold pick, zlen in *. replace (i <? 0) with false by lia.
  replace (i - Z.of_nat (length l1) <? 0) with false by lia.
  rewrite nth_error_app2 by lia. f_equal. lia.
Qed.

Lemma pick_some l i : 0 <= i < zlen l -> exists x, pick l i = Some x.
Proof.
  intros H. unfold pick, zlen in *. replace (i <? 0) with false by lia.
  destruct (nth_error l (Z.to_nat i)) as [x|] eqn:E; [now exists x|].
  apply nth_error_None in E. lia.
Qed.

Lemma pick_none_hi l i : zlen l <= i -> pick l i = None.
Proof.
  intros H. unfold pick, zlen in *. destruct (i <? 0); [reflexivity|]. apply nth_error_None. lia.
Qed.

Lemma gather_app l a b :
  gather l (a ++ b) = match gather l a, gather l b with Some x, Some y => Some (x ++ y) | _, _ => None end.
Proof. apply mapM_app. Qed.

Lemma skipn_nth_error l n x : nth_error l n = Some x -> skipn n l = x :: skipn (S n) l.
Proof.
  revert l; induction n as [|n IH]; intros [|y l]; cbn [nth_error]; try discriminate.
  - intros H; injection H as ->. reflexivity.
  - intros H. cbn [skipn]. rewrite (IH l H). reflexivity.
Qed.

(* reading k consecutive positions from s on is firstn k (skipn s l) *)
Lemma gather_zrange l s k : 0 <= s -> s + Z.of_nat k <= zlen l ->
  gather l (zrange s k) = Some (firstn k (skipn (Z.to_nat s) l)).
Proof.
  revert s; induction k as [|k IH]; intros s Hs Hk; [reflexivity|].
  cbn [zrange gather mapM]. fold (gather l (zrange (s + 1) k)).
  rewrite IH by lia.
  unfold pick. replace (s <? 0) with false by lia.
  destruct (nth_error l (Z.to_nat s)) as [x|] eqn:E.
  2:{ apply nth_error_None in E. unfold zlen in Hk. lia. }
  rewrite (skipn_nth_error _ _ _ E). cbn [firstn].
  replace (Z.to_nat (s + 1)) with (S (Z.to_nat s)) by lia. reflexivity.
Qed.
End Pick.

(* ---------- slice_indices for a unit step ---------- *)
Lemma zrange_affine s k : map (fun j => s + j * 1) (zrange 0 k) = zrange s k.
Proof.
  revert s; induction k as [|k IH]; intros s; [reflexivity|].
  cbn [zrange map]. f_equal; [lia|]. rewrite (zrange_S 0), map_map.
  rewrite <- (IH (s + 1)). apply map_ext. intros j. lia.
Qed.

Lemma adj_pos n v : 0 <= n -> adj n 1 v = np_bound n 0 (Some v).
Proof.
  intros Hn. unfold adj, np_bound. cbn [Z.ltb Z.compare].
  destruct (v <? 0) eqn:E1.
  - destruct (v + n <? 0) eqn:E2; lia.
  - destruct (n <=? v) eqn:E2; lia.
Qed.

Lemma np_bound_some n d d' v : np_bound n d (Some v) = np_bound n d' (Some v).
Proof. reflexivity. Qed.

Lemma slice_indices_unit n start stop step : 0 <= n -> unit_step step ->
  let s := np_bound n 0 start in let e := np_bound n n stop in
  slice_indices n start stop step = Some (zrange s (Z.to_nat (e - s))).
Proof.
  intros Hn Hst s e. unfold slice_indices, slice_adjust.
  assert (Hs1 : match step with None => 1 | Some x => x end = 1) by (destruct Hst as [->| ->]; reflexivity).
  rewrite Hs1. cbn [Z.eqb Z.ltb Z.compare sl_start sl_len sl_step].
  assert (Es : match start with Some v => adj n 1 v | None => 0 end = s).
  { subst s. destruct start as [v|]; [apply adj_pos; lia|reflexivity]. }
  assert (Ee : match stop with Some v => adj n 1 v | None => n end = e).
  { subst e. destruct stop as [v|]; [rewrite adj_pos by lia; reflexivity|reflexivity]. }
  rewrite Es, Ee. f_equal. rewrite zrange_affine. f_equal. clearbody s e. clear Es Ee Hs1 Hst.
  destruct (Z.ltb_spec s e) as [E|E]; [rewrite Z.div_1_r|]; lia.
Qed.

Lemma np_bound_range n d x : 0 <= n -> 0 <= d <= n -> 0 <= np_bound n d x <= n.
Proof. intros Hn Hd. unfold np_bound. destruct x as [v|]; [destruct (v <? 0) eqn:E|]; lia. Qed.

Section OneArrayLemmas.
Context {X : Type}.
Implicit Types (M : list X).

(* M[start:stop] for a unit step, any bounds *)
Lemma np_index_slice M start stop step : unit_step step ->
  np_index M (ISlice start stop step) =
  Some (slice M (np_bound (zlen M) 0 start) (np_bound (zlen M) (zlen M) stop)).
Proof.
  intros Hst. unfold np_index. cbn [row_indices].
  pose proof (zlen_nonneg M) as Hn.
  rewrite slice_indices_unit by assumption. cbn [bind].
  pose proof (np_bound_range (zlen M) 0 start Hn ltac:(lia)) as Hs.
  pose proof (np_bound_range (zlen M) (zlen M) stop Hn ltac:(lia)) as He.
  set (s := np_bound (zlen M) 0 start) in *. set (e := np_bound (zlen M) (zlen M) stop) in *.
  rewrite gather_zrange by lia. unfold slice. do 2 f_equal. lia.
Qed.

Lemma py_norm_in n x : 0 <= x < n -> py_norm n x = Some x.
Proof. intros H. unfold py_norm. replace (x <? 0) with false by lia. replace ((0 <=? x) && (x <? n)) with true by lia. reflexivity. Qed.

Lemma py_norm_mod n i : - n <= i < n -> py_norm n i = Some (i mod n).
Proof.
  intros H. unfold py_norm. destruct (i <? 0) eqn:E.
  - replace ((0 <=? i + n) && (i + n <? n)) with true by lia. f_equal.
    replace i with ((i + n) + (-1) * n) at 2 by lia. rewrite Z.mod_add by lia. rewrite Z.mod_small; lia.
  - replace ((0 <=? i) && (i <? n)) with true by lia. rewrite Z.mod_small; [reflexivity|lia].
Qed.

Lemma np_index_int M i : - zlen M <= i < zlen M ->
  np_index M (IInt i) = option_map (fun r => [r]) (pick M (i mod zlen M)).
Proof.
  intros H. unfold np_index. cbn [row_indices]. rewrite py_norm_mod by assumption.
  cbn [option_map bind gather mapM]. destruct (pick M (i mod zlen M)); reflexivity.
Qed.

Lemma np_index_list M l : Forall (fun x => 0 <= x < zlen M) l -> np_index M (IList l) = gather M l.
Proof.
  intros H. unfold np_index. cbn [row_indices].
  rewrite (mapM_all_some (py_norm (zlen M)) (fun x => x)).
  - rewrite map_id. reflexivity.
  - intros x Hx. apply py_norm_in. rewrite Forall_forall in H. now apply H.
Qed.

Lemma gather_some M l : Forall (fun x => 0 <= x < zlen M) l ->
  exists rows, gather M l = Some rows /\ length rows = length l.
Proof.
  induction l as [|x r IH]; intros H.
  - exists []. split; reflexivity.
  - inversion H as [|? ? Hx Hr]; subst. destruct (IH Hr) as (rows & E & L).
    destruct (pick_some M x Hx) as (y & Ey).
    exists (y :: rows). unfold gather in *. cbn [mapM]. rewrite Ey, E. split; [reflexivity|cbn [length]; lia].
Qed.
End OneArrayLemmas.

(* ---------- part bounds ---------- *)
Lemma part_bounds_last sizes : last (part_bounds sizes) 0 = zsum sizes.
Proof.
  unfold part_bounds. assert (H : forall acc, last (acc :: cumsum_from acc sizes) 0 = acc + zsum sizes).
  { induction sizes as [|x r IH]; intros acc; cbn [cumsum_from zsum fold_right].
    - cbn. lia.
    - change (last (acc :: ?y :: ?l) 0) with (last (y :: l) 0). rewrite IH. unfold zsum. lia. }
  rewrite H. lia.
Qed.

Lemma part_bounds_sorted sizes : (forall x, In x sizes -> 0 <= x) -> sortedZ (part_bounds sizes).
Proof. apply cumsum_sorted. Qed.

Lemma part_bounds_length sizes : zlen (part_bounds sizes) = zlen sizes + 1.
Proof. unfold part_bounds, zlen. cbn [length]. rewrite cumsum_length. lia. Qed.

Lemma zsum_map_zlen {X} (parts : list (list X)) : zsum (map zlen parts) = zlen (concat parts).
Proof.
  induction parts as [|p r IH]; [reflexivity|]. cbn [map concat zsum fold_right] in *.
  rewrite zlen_app. unfold zsum in IH. lia.
Qed.
