(* C01/Proofs4.v -- the integer and the list/array branches of _get_subitems + per-part reads + vstack.
   List branch route: the chunk ids are a monotone key on the increasing index list; filtering a
   list by each distinct key in increasing order and concatenating gives the list back; each
   filtered, shifted sub-list read from its part = the same rows read from the concatenation. *)
From Coq Require Import ZArith List Lia Bool.
From PV Require Import Base.PySlice Base.NpSearch C01.Model C01.Spec C01.Proofs1 C01.Proofs2.
Import ListNotations.
Open Scope Z_scope.

(* ---------- integer branch ---------- *)
Section IntMain.
Context {A : Type}.
Notation row := (list A).
Implicit Types (parts : list (list row)).

Lemma wrap_neg_mod n i : 0 < n -> - n <= i < n -> wrap_neg i n = Some (i mod n).
Proof.
  intros Hn Hi. unfold wrap_neg, pymod. destruct (i <? 0) eqn:E.
  - replace (n =? 0) with false by lia. reflexivity.
  - rewrite Z.mod_small by lia. reflexivity.
Qed.

Theorem getitem_int_correct parts i :
  let n := zlen (concat parts) in
  - n <= i < n ->
  getitem_rows parts (IInt i) = option_map (fun r => [r]) (pick (concat parts) (i mod n)).
Proof.
  intros n Hi. assert (Hn : 0 < n) by lia.
  unfold getitem_rows. cbn [get_subitems]. unfold get_subitems_int.
  rewrite py_last_bounds. fold n. rewrite wrap_neg_mod by assumption.
  set (j := i mod n). assert (Hj : 0 <= j < n) by (apply Z.mod_pos_bound; lia).
  pose proof (find_chunk_spec parts j Hj) as Hc. cbv zeta in Hc.
  set (c := find_chunk (part_bounds (map zlen parts)) j) in *. destruct Hc as (Hc & Hb).
  rewrite bounds_length. replace (zlen parts + 1 - 1 <=? c) with false by lia.
  unfold py_get. rewrite bounds_length, py_norm_in by lia. cbn [bind].
  rewrite pick_nthZ by (rewrite bounds_length; lia). rewrite <- bnd_bounds.
  cbn [mapM]. rewrite get_part_in by assumption.
  pose proof (bnd_len 0 parts c Hc) as Hlen.
  set (p := nth (Z.to_nat c) parts []) in *.
  rewrite np_index_int by lia. rewrite Z.mod_small by lia.
  pose proof (pick_concat 0 parts c j Hc Hb) as Hp. fold p in Hp. rewrite Z.sub_0_r in Hp.
  rewrite Hp. destruct (pick p (j - bnd 0 parts c)); reflexivity.
Qed.
End IntMain.

(* ---------- np.unique ---------- *)
Lemma insu_in x l c : In c (insu x l) <-> c = x \/ In c l.
Proof.
  induction l as [|y r IH]; cbn [insu In]; [intuition|].
  destruct (x <? y) eqn:E1; [cbn [In]; intuition|].
  destruct (x =? y) eqn:E2; cbn [In].
  - assert (x = y) by lia. subst. intuition.
  - rewrite IH. intuition.
Qed.

Lemma unique_in l c : In c (unique l) <-> In c l.
Proof.
  induction l as [|x r IH]; cbn [unique fold_right In]; [tauto|].
  fold (unique r). rewrite insu_in, IH. intuition.
Qed.

Lemma insu_incr lo x l : lo < x -> increasing lo l -> increasing lo (insu x l).
Proof.
  revert lo; induction l as [|y r IH]; intros lo Hx Hl; cbn [insu increasing] in *; [tauto|].
  destruct Hl as (Hy & Hr).
  destruct (x <? y) eqn:E1; [cbn [increasing]; repeat split; try assumption; lia|].
  destruct (x =? y) eqn:E2; cbn [increasing]; [tauto|].
  split; [assumption|]. apply IH; [lia|assumption].
Qed.

Lemma unique_incr lo l : (forall x, In x l -> lo < x) -> increasing lo (unique l).
Proof.
  induction l as [|x r IH]; intros H; cbn [unique fold_right]; [exact I|].
  fold (unique r). apply insu_incr; [apply H; now left|]. apply IH. intros y Hy. apply H. now right.
Qed.

Lemma increasing_all lo l : increasing lo l -> forall x, In x l -> lo < x.
Proof.
  revert lo; induction l as [|y r IH]; intros lo H x Hx; cbn [increasing In] in *; [tauto|].
  destruct H as (H1 & H2). destruct Hx as [<-|Hx]; [assumption|]. specialize (IH y H2 x Hx). lia.
Qed.

(* ---------- grouping a list with weakly increasing keys by its distinct keys ---------- *)
Section Group.
Context (f : Z -> Z).

(* keys weakly increasing, all at least lo *)
Fixpoint kchain (lo : Z) (l : list Z) : Prop :=
  match l with [] => True | x :: r => lo <= f x /\ kchain (f x) r end.

Lemma kchain_weaken lo lo' l : lo' <= lo -> kchain lo l -> kchain lo' l.
Proof. destruct l as [|x r]; cbn [kchain]; [tauto|]. intros H (H1 & H2). split; [lia|assumption]. Qed.

Lemma kchain_all lo l : kchain lo l -> forall x, In x l -> lo <= f x.
Proof.
  revert lo; induction l as [|y r IH]; intros lo H x Hx; cbn [kchain In] in *; [tauto|].
  destruct H as (H1 & H2). destruct Hx as [<-|Hx]; [assumption|]. specialize (IH _ H2 x Hx). lia.
Qed.

Definition keyis (c : Z) (x : Z) : bool := f x =? c.

Lemma filter_none c l : (forall x, In x l -> f x <> c) -> filter (keyis c) l = [].
Proof.
  induction l as [|x r IH]; intros H; cbn [filter]; [reflexivity|].
  unfold keyis at 1. replace (f x =? c) with false by (specialize (H x (or_introl eq_refl)); lia).
  apply IH. intros y Hy. apply H. now right.
Qed.

(* a list whose keys are weakly increasing and >= u: first the elements with key u, then the others *)
Lemma split_key u l : kchain u l ->
  exists l2, l = filter (keyis u) l ++ l2 /\ kchain u l2 /\ (forall x, In x l2 -> u < f x) /\
             (forall x, In x l2 -> In x l).
Proof.
  induction l as [|x r IH]; intros H.
  - exists []. cbn. tauto.
  - cbn [kchain] in H. destruct H as (H1 & H2). cbn [filter]. unfold keyis at 1.
    destruct (f x =? u) eqn:E.
    + assert (Ex : f x = u) by lia. rewrite Ex in H2. destruct (IH H2) as (l2 & E2 & K2 & G2 & I2).
      exists l2. cbn [app]. split; [f_equal; exact E2|]. split; [assumption|]. split; [assumption|].
      intros y Hy. right. now apply I2.
    + exists (x :: r). rewrite filter_none.
      * cbn [app]. split; [reflexivity|]. split; [cbn [kchain]; split; [lia|assumption]|].
        split; [|tauto]. intros y [<-|Hy]; [lia|]. pose proof (kchain_all _ _ H2 y Hy). lia.
      * intros y Hy. pose proof (kchain_all _ _ H2 y Hy). lia.
Qed.

Lemma group_concat U : forall lo l, increasing lo U -> kchain (lo + 1) l ->
  (forall x, In x l -> In (f x) U) ->
  concat (map (fun c => filter (keyis c) l) U) = l.
Proof.
  induction U as [|u U' IH]; intros lo l HU Hk Hin.
  - destruct l as [|x r]; [reflexivity|]. destruct (Hin x (or_introl eq_refl)).
  - cbn [increasing] in HU. destruct HU as (Hu & HU'). cbn [map concat].
    assert (Hk' : kchain u l).
    { destruct l as [|x r]; [exact I|]. cbn [kchain] in *. destruct Hk as (_ & Hk). split; [|assumption].
      destruct (Hin x (or_introl eq_refl)) as [<-|Hx]; [lia|].
      pose proof (increasing_all _ _ HU' _ Hx). lia. }
    destruct (split_key u l Hk') as (l2 & E2 & K2 & G2 & I2).
    rewrite (map_ext_in _ (fun c => filter (keyis c) l2)).
    + rewrite (IH u l2 HU').
      * symmetry. exact E2.
      * destruct l2 as [|x r]; [exact I|]. cbn [kchain] in *. destruct K2 as (_ & K2). split; [|assumption].
        specialize (G2 x (or_introl eq_refl)). lia.
      * intros x Hx. destruct (Hin x (I2 x Hx)) as [E|Hx']; [|assumption]. specialize (G2 x Hx). lia.
    + intros c Hc. pose proof (increasing_all _ _ HU' _ Hc) as Hlt.
      rewrite E2 at 1. rewrite filter_app.
      rewrite (filter_none c (filter (keyis u) l)); [reflexivity|].
      intros x Hx. apply filter_In in Hx as (_ & Hx). unfold keyis in Hx. lia.
Qed.
End Group.

(* ---------- gather over a concatenation of index lists ---------- *)
Section GatherConcat.
Context {X : Type}.

Lemma gather_concat_inv (M : list X) ls rows : gather M (concat ls) = Some rows ->
  exists bs, mapM (gather M) ls = Some bs /\ concat bs = rows.
Proof.
  revert rows; induction ls as [|l r IH]; intros rows; cbn [concat mapM].
  - intros H; injection H as <-. exists []. split; reflexivity.
  - rewrite gather_app. destruct (gather M l) as [a|]; [|discriminate].
    destruct (gather M (concat r)) as [b|] eqn:Eb; [|discriminate].
    intros H; injection H as <-. destruct (IH b eq_refl) as (bs & E1 & E2). rewrite E1.
    exists (a :: bs). split; [reflexivity|]. cbn [concat]. now rewrite E2.
Qed.
End GatherConcat.

(* ---------- list branch ---------- *)
Lemma diff_nonzero lo l : increasing lo l -> forallb (fun d => negb (d =? 0)) (diff l) = true.
Proof.
  revert lo; induction l as [|x r IH]; intros lo H; [reflexivity|].
  cbn [increasing] in H. destruct H as (_ & H). cbn [diff]. destruct r as [|y r']; [reflexivity|].
  cbn [forallb]. rewrite (IH x H). cbn [increasing] in H. replace (y - x =? 0) with false by lia. reflexivity.
Qed.

Lemma increasing_kchain (f : Z -> Z) lo l : (forall x y, x <= y -> f x <= f y) ->
  increasing lo l -> kchain f (f lo) l.
Proof.
  intros Hm. revert lo; induction l as [|x r IH]; intros lo H; cbn [increasing kchain] in *; [exact I|].
  destruct H as (H1 & H2). split; [apply Hm; lia|]. now apply IH.
Qed.

Section ListMain.
Context {A : Type}.
Notation row := (list A).
Implicit Types (parts : list (list row)).

Lemma list_loop_ok parts l cs : (forall c, In c cs -> 0 <= c < zlen parts) ->
  list_loop (part_bounds (map zlen parts)) l cs =
  Some (map (fun c => mksub c (IList (map (fun x => x - bnd 0 parts c)
              (filter (fun x => (bnd 0 parts c <=? x) && (x <? bnd 0 parts (c + 1))) l)))) cs).
Proof.
  induction cs as [|c r IH]; intros Hc; cbn [list_loop map]; [reflexivity|].
  rewrite bounds_length. specialize (Hc c (or_introl eq_refl)) as Hc0.
  replace (zlen parts + 1 - 1 <=? c) with false by lia.
  rewrite py_pair_bnd by assumption. cbn [b_lo b_hi].
  rewrite IH by (intros c' Hc'; apply Hc; now right). reflexivity.
Qed.

Theorem getitem_list_correct parts l :
  let n := zlen (concat parts) in
  valid_item n (IList l) ->
  getitem_rows parts (IList l) = gather (concat parts) l.
Proof.
  intros n (Hne & Hinc & Hlt).
  set (M := concat parts) in *.
  set (B := part_bounds (map zlen parts)).
  set (fc := find_chunk B).
  assert (Hrange : forall x, In x l -> 0 <= x < n).
  { intros x Hx. pose proof (increasing_all _ _ Hinc x Hx). rewrite Forall_forall in Hlt.
    specialize (Hlt x Hx). lia. }
  assert (Hfc : forall x, In x l -> 0 <= fc x < zlen parts /\ bnd 0 parts (fc x) <= x < bnd 0 parts (fc x + 1)).
  { intros x Hx. exact (find_chunk_spec parts x (Hrange x Hx)). }
  unfold getitem_rows. cbn [get_subitems]. unfold get_subitems_list.
  rewrite (diff_nonzero _ _ Hinc). cbn [negb]. rewrite andb_false_r.
  fold B. fold fc. set (U := unique (map fc l)).
  assert (HU : forall c, In c U -> exists x, In x l /\ fc x = c).
  { intros c Hc. apply unique_in, in_map_iff in Hc as (x & <- & Hx). now exists x. }
  unfold B. rewrite list_loop_ok.
  2:{ intros c Hc. destruct (HU c Hc) as (x & Hx & <-). apply Hfc. assumption. }
  rewrite mapM_map.
  (* each per-part read = the same rows read from the concatenation *)
  rewrite (mapM_ext_in _ (fun c => gather M (filter (keyis fc c) l))).
  2:{ intros c Hc. destruct (HU c Hc) as (x0 & Hx0 & Ec). destruct (Hfc x0 Hx0) as (Hc0 & _).
      rewrite Ec in Hc0. rewrite get_part_in by assumption.
      pose proof (bnd_len 0 parts c Hc0) as Hlen. set (p := nth (Z.to_nat c) parts []) in *.
      (* the interval test selects exactly the indices whose chunk is c *)
      rewrite (filter_ext_in _ (keyis fc c)).
      2:{ intros x Hx. destruct (Hfc x Hx) as (Hcx & Hbx). unfold keyis.
          destruct (Z.eq_dec (fc x) c) as [E|E].
          - rewrite E in Hbx. replace (fc x =? c) with true by lia. lia.
          - replace (fc x =? c) with false by lia. apply andb_false_iff.
            pose proof (bounds_sorted parts) as Hs. fold B in Hs.
            pose proof (bounds_length parts) as HlB. fold B in HlB.
            destruct (Z_lt_le_dec c (fc x)) as [Hlt'|Hge].
            + right. pose proof (ssr_below B x (c + 1)) as Hb.
              change (nthZ B (c + 1)) with (bnd 0 parts (c + 1)) in Hb.
              unfold fc, find_chunk in Hlt'. lia.
            + left. pose proof (ssr_above B x c Hs) as Hb.
              change (nthZ B c) with (bnd 0 parts c) in Hb.
              unfold fc, find_chunk in Hge, E. lia. }
      set (lc := filter (keyis fc c) l).
      assert (Hlc : forall x, In x lc -> In x l /\ fc x = c).
      { intros x Hx. apply filter_In in Hx as (Hx & Ek). unfold keyis in Ek. split; [assumption|lia]. }
      rewrite np_index_list.
      2:{ apply Forall_forall. intros y Hy. apply in_map_iff in Hy as (x & <- & Hx).
          destruct (Hlc x Hx) as (Hxl & Ex). destruct (Hfc x Hxl) as (_ & Hbx). rewrite Ex in Hbx. lia. }
      unfold gather. rewrite mapM_map. apply mapM_ext_in. intros x Hx.
      destruct (Hlc x Hx) as (Hxl & Ex). destruct (Hfc x Hxl) as (_ & Hbx). rewrite Ex in Hbx.
      pose proof (pick_concat 0 parts c x Hc0 Hbx) as Hp. rewrite Z.sub_0_r in Hp. symmetry. exact Hp. }
  rewrite <- mapM_map.
  (* the groups, in increasing chunk order, concatenate to l *)
  assert (Hcat : concat (map (fun c => filter (keyis fc c) l) U) = l).
  { apply (group_concat fc U (-1) l).
    - apply unique_incr. intros c Hc. apply in_map_iff in Hc as (x & <- & Hx). destruct (Hfc x Hx). lia.
    - destruct l as [|x r]; [exact I|]. cbn [increasing kchain] in *. destruct Hinc as (H1 & H2).
      split; [destruct (Hfc x (or_introl eq_refl)); lia|].
      apply increasing_kchain; [|assumption]. intros a b Hab. unfold fc, find_chunk.
      pose proof (ssr_mono B a b Hab). lia.
    - intros x Hx. apply unique_in, in_map. assumption. }
  destruct (gather_some M l) as (rows & Erows & _).
  { apply Forall_forall. intros x Hx. exact (Hrange x Hx). }
  rewrite Erows. rewrite <- Hcat in Erows.
  destruct (gather_concat_inv M _ rows Erows) as (bs & Ebs & Ecat). rewrite Ebs.
  destruct bs as [|b0 bs'].
  - (* np.vstack([]) cannot happen: l is non-empty *)
    exfalso. apply mapM_length in Ebs. rewrite map_length in Ebs. cbn [length] in Ebs.
    destruct l as [|x r]; [congruence|]. assert (Hx : In (fc x) U) by (apply unique_in; now left).
    destruct U; [destruct Hx|discriminate].
  - rewrite Ecat. reflexivity.
Qed.
End ListMain.
