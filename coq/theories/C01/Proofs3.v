(* C01/Proofs3.v -- the slice branch: _get_subitems on a slice, the per-part reads and np.vstack give
   the NumPy slice of the concatenation.  Route: each per-part read is the clipped slice of that
   part; "all parts with clipped sub-slices" = clipped slice of the concatenation (induction with
   a running offset); parts before the first / after the last requested one contribute nothing
   (the two searchsorted lemmas). *)
From Coq Require Import ZArith List Lia Bool.
From PV Require Import Base.PySlice Base.NpSearch C01.Model C01.Spec C01.Proofs1 C01.Proofs2.
Import ListNotations.
Open Scope Z_scope.

Section SliceProofs.
Context {X : Type}.
Implicit Types (parts : list (list X)) (p : list X).

(* clipped slice: Python l[i:j] after clamping negatives to 0 *)
Definition cslice p (i j : Z) : list X := slice p (Z.max 0 i) (Z.max 0 j).

Lemma cslice_app p q i j : cslice (p ++ q) i j = cslice p i j ++ cslice q (i - zlen p) (j - zlen p).
Proof.
  unfold cslice, slice, zlen.
  set (a := Z.to_nat (Z.max 0 i)). set (b := Z.to_nat (Z.max 0 j)).
  replace (Z.to_nat (Z.max 0 (i - Z.of_nat (length p)))) with (a - length p)%nat by lia.
  replace (Z.to_nat (Z.max 0 (j - Z.of_nat (length p)))) with (b - length p)%nat by lia.
  rewrite skipn_app, firstn_app, skipn_length. f_equal. f_equal. lia.
Qed.

Lemma cslice_nil i j : cslice (@nil X) i j = [].
Proof. unfold cslice, slice. now rewrite skipn_nil, firstn_nil. Qed.

Lemma cslice_empty_hi p i j : j <= 0 -> cslice p i j = [].
Proof. intros H. unfold cslice. apply slice_empty. lia. Qed.

Lemma cslice_empty_lo p i j : zlen p <= i -> cslice p i j = [].
Proof. intros H. unfold cslice. apply slice_beyond. unfold zlen in *. lia. Qed.

(* NumPy clips both bounds at the length *)
Lemma slice_clip p a b : 0 <= a -> slice p (Z.min a (zlen p)) (Z.min b (zlen p)) = slice p a b.
Proof.
  intros Ha. unfold slice, zlen.
  destruct (Z_lt_le_dec a (Z.of_nat (length p))) as [H|H].
  - replace (Z.min a (Z.of_nat (length p))) with a by lia.
    destruct (Z_lt_le_dec b (Z.of_nat (length p))) as [H'|H'].
    + replace (Z.min b (Z.of_nat (length p))) with b by lia. reflexivity.
    + rewrite !firstn_all2; [reflexivity| |]; rewrite skipn_length; lia.
  - rewrite !(skipn_all2 p) by lia. now rewrite !firstn_nil.
Qed.

(* every part read with the clipped slice, one after the other *)
Fixpoint aps (off : Z) parts (s e : Z) : list X :=
  match parts with [] => [] | p :: r => cslice p (s - off) (e - off) ++ aps (off + zlen p) r s e end.

Lemma aps_spec off parts s e : aps off parts s e = cslice (concat parts) (s - off) (e - off).
Proof.
  revert off; induction parts as [|p r IH]; intros off; cbn [aps concat]; [now rewrite cslice_nil|].
  rewrite cslice_app, IH. f_equal. f_equal; lia.
Qed.

Definition g off parts (s e c : Z) : list X :=
  cslice (nth (Z.to_nat c) parts []) (s - bnd off parts c) (e - bnd off parts c).

Lemma all_g off parts s e :
  concat (map (g off parts s e) (zrange 0 (length parts))) = aps off parts s e.
Proof.
  revert off; induction parts as [|p r IH]; intros off; cbn [length zrange map concat aps]; [reflexivity|].
  replace (g off (p :: r) s e 0) with (cslice p (s - off) (e - off)) by reflexivity.
  f_equal.
  rewrite (zrange_S 0), map_map, <- IH. f_equal. apply map_ext_in. intros c Hc.
  apply zrange_ge in Hc. unfold g. rewrite bnd_S by lia.
  replace (Z.to_nat (c + 1)) with (S (Z.to_nat c)) by lia. reflexivity.
Qed.

Lemma concat_map_nil {B} (f : B -> list X) l : (forall x, In x l -> f x = []) -> concat (map f l) = [].
Proof.
  induction l as [|x r IH]; intros H; cbn [map concat]; [reflexivity|].
  rewrite H by now left. rewrite IH; [reflexivity|]. intros y Hy; apply H; now right.
Qed.
End SliceProofs.

(* the normalisation of the slice bounds in _get_subitems agrees with NumPy's on the reading's range *)
Lemma norm_start n start : 0 < n -> bound_ok n start ->
  option_map (fun v => Z.min v n) (wrap_neg (or_default start 0) n) = Some (np_bound n 0 start).
Proof.
  intros Hn Hb. unfold or_default, wrap_neg, pymod, np_bound. destruct start as [v|].
  2:{ cbn. f_equal; lia. }
  cbn [bound_ok] in Hb. destruct (v =? 0) eqn:E0.
  - replace v with 0 by lia. cbn. f_equal; lia.
  - destruct (v <? 0) eqn:E1; cbn [option_map]; [|f_equal; lia].
    replace (n =? 0) with false by lia. cbn [option_map]. f_equal.
    destruct (Z.eq_dec v (- n)) as [->|Hne].
    + replace (- n mod n) with 0; [lia|]. symmetry. apply Z.mod_opp_l_z; [lia|]. apply Z.mod_same; lia.
    + replace v with ((v + n) + (-1) * n) at 1 by lia. rewrite Z.mod_add by lia. rewrite Z.mod_small; lia.
Qed.

Lemma norm_stop n stop : 0 < n -> bound_ok n stop -> 0 < np_bound n n stop ->
  option_map (fun v => Z.min v n) (wrap_neg (or_default stop n) n) = Some (np_bound n n stop).
Proof.
  intros Hn Hb Hpos. unfold or_default, wrap_neg, pymod, np_bound in *. destruct stop as [v|].
  2:{ replace (n <? 0) with false by lia. cbn. f_equal; lia. }
  cbn [bound_ok] in Hb. destruct (v =? 0) eqn:E0.
  - assert (v = 0) by lia; subst v. cbn in Hpos. lia.
  - destruct (v <? 0) eqn:E1; cbn [option_map]; [|f_equal; lia].
    replace (n =? 0) with false by lia. cbn [option_map]. f_equal.
    replace v with ((v + n) + (-1) * n) at 1 by lia. rewrite Z.mod_add by lia. rewrite Z.mod_small; lia.
Qed.

Section SliceMain.
Context {A : Type}.
Notation row := (list A).
Implicit Types (parts : list (list row)).

(* the chunk loop of the slice branch, for chunk ids that are part indices *)
Lemma slice_loop_ok parts s e cs : 0 <= s -> (forall c, In c cs -> 0 <= c < zlen parts) ->
  slice_loop (part_bounds (map zlen parts)) s e cs =
  Some (map (fun c => mksub c (ISlice (Some (Z.max 0 (s - bnd 0 parts c)))
                                      (Some (Z.min (bnd 0 parts (c + 1) - bnd 0 parts c) (e - bnd 0 parts c)))
                                      (Some 1))) cs).
Proof.
  intros Hs. induction cs as [|c r IH]; intros Hc; cbn [slice_loop map]; [reflexivity|].
  rewrite py_pair_bnd by (apply Hc; now left). cbn [b_lo b_hi].
  pose proof (bnd_ge 0 parts c ltac:(specialize (Hc c (or_introl eq_refl)); lia)) as H0.
  replace (negb _) with false by (symmetry; apply negb_false_iff; lia).
  rewrite IH by (intros c' Hc'; apply Hc; now right). reflexivity.
Qed.

Theorem getitem_slice_correct parts start stop step :
  let n := zlen (concat parts) in
  0 < n -> valid_item n (ISlice start stop step) ->
  getitem_rows parts (ISlice start stop step) =
  Some (slice (concat parts) (np_bound n 0 start) (np_bound n n stop)).
Proof.
  intros n Hn (Hstep & Hbs & Hbe & Hse).
  set (s := np_bound n 0 start) in *. set (e := np_bound n n stop) in *.
  assert (Hs0 : 0 <= s <= n) by (apply np_bound_range; lia).
  assert (He0 : 0 <= e <= n) by (apply np_bound_range; lia).
  unfold getitem_rows. cbn [get_subitems]. unfold get_subitems_slice.
  rewrite py_first_bounds, py_last_bounds. fold n.
  pose proof (norm_start n start Hn Hbs) as Es. fold s in Es.
  pose proof (norm_stop n stop Hn Hbe ltac:(fold e; lia)) as Ee. fold e in Ee.
  destruct (wrap_neg (or_default start 0) n) as [s'|]; [|discriminate]. cbn [option_map] in Es.
  destruct (wrap_neg (or_default stop n) n) as [e'|]; [|discriminate]. cbn [option_map] in Ee.
  injection Es as Es. injection Ee as Ee. rewrite Es, Ee.
  assert (Hst1 : or_default step 1 = 1) by (destruct Hstep as [->| ->]; reflexivity).
  rewrite Hst1. cbn [Z.eqb Pos.eqb negb].
  replace (negb ((0 <=? s) && (s <=? n))) with false by (symmetry; apply negb_false_iff; lia).
  replace (negb ((0 <=? e) && (e <=? n))) with false by (symmetry; apply negb_false_iff; lia).
  set (B := part_bounds (map zlen parts)). unfold find_chunk.
  set (first := ssr B s - 1). set (lst := ssr B (e - 1) - 1).
  pose proof (find_chunk_spec parts s ltac:(fold n; lia)) as Hf. cbv zeta in Hf.
  unfold find_chunk in Hf. fold B first in Hf. destruct Hf as (Hf & Hfb).
  pose proof (find_chunk_spec parts (e - 1) ltac:(fold n; lia)) as Hl. cbv zeta in Hl.
  unfold find_chunk in Hl. fold B lst in Hl. destruct Hl as (Hl & Hlb).
  assert (Hfl : first <= lst).
  { subst first lst. pose proof (ssr_mono B s (e - 1)). lia. }
  pose proof (bounds_sorted parts) as Hsorted. fold B in Hsorted.
  pose proof (bounds_length parts) as HlenB. fold B in HlenB.
  set (k := Z.to_nat (lst + 1 - first)).
  unfold B. rewrite slice_loop_ok; [|lia|intros c Hc; apply zrange_ge in Hc; lia].
  rewrite mapM_map.
  rewrite (mapM_all_some _ (g 0 parts s e)).
  2:{ intros c Hc. apply zrange_ge in Hc. cbn beta.
      rewrite get_part_in by lia. rewrite np_index_slice by (right; reflexivity).
      pose proof (bnd_len 0 parts c ltac:(lia)) as Hlen. rewrite Hlen.
      set (p := nth (Z.to_nat c) parts []) in *. pose proof (zlen_nonneg p) as Hp.
      f_equal. unfold g, cslice. fold p. unfold np_bound.
      replace (Z.max 0 (s - bnd 0 parts c) <? 0) with false by lia.
      assert (Hec : 1 <= e - bnd 0 parts c).
      { pose proof (ssr_below B (e - 1) c) as Hb.
        change (nthZ B c) with (bnd 0 parts c) in Hb. lia. }
      replace (Z.min (zlen p) (e - bnd 0 parts c) <? 0) with false by lia.
      rewrite <- (slice_clip p (Z.max 0 (s - bnd 0 parts c)) (Z.max 0 (e - bnd 0 parts c))) by lia.
      f_equal; lia. }
  (* np.vstack of a non-empty list of blocks *)
  destruct (zrange first k) as [|c0 r0] eqn:Ez.
  { apply (f_equal (@length Z)) in Ez. rewrite zrange_length in Ez. cbn [length] in Ez. lia. }
  cbn [map]. change (g 0 parts s e c0 :: map (g 0 parts s e) r0) with (map (g 0 parts s e) (c0 :: r0)).
  rewrite <- Ez. f_equal.
  (* all parts = the requested ones; the others contribute nothing *)
  pose proof (all_g 0 parts s e) as Hall.
  replace (length parts) with (Z.to_nat first + (k + Z.to_nat (zlen parts - (lst + 1))))%nat in Hall
    by (unfold zlen in *; lia).
  rewrite !zrange_app, !map_app, !concat_app in Hall.
  replace (0 + Z.of_nat (Z.to_nat first)) with first in Hall by lia.
  rewrite (concat_map_nil (g 0 parts s e) (zrange 0 (Z.to_nat first))) in Hall.
  2:{ intros c Hc. apply zrange_ge in Hc. unfold g. apply cslice_empty_lo.
      pose proof (bnd_len 0 parts c ltac:(lia)) as Hlen.
      pose proof (ssr_below B s (c + 1)) as Hb.
      change (nthZ B (c + 1)) with (bnd 0 parts (c + 1)) in Hb. lia. }
  rewrite (concat_map_nil (g 0 parts s e) (zrange _ (Z.to_nat (zlen parts - (lst + 1))))) in Hall.
  2:{ intros c Hc. apply zrange_ge in Hc. unfold g. apply cslice_empty_hi.
      pose proof (ssr_above B (e - 1) c Hsorted) as Hb.
      change (nthZ B c) with (bnd 0 parts c) in Hb. lia. }
  rewrite app_nil_r in Hall. cbn [app] in Hall. rewrite Hall, aps_spec.
  unfold cslice. f_equal; lia.
Qed.
End SliceMain.
