(* C01/Proofs6.v -- what the reader's attributes are (stage 3): every returned row is a row of a file,
   shape of reader[item(, cols)], the dtype tag carried through the per-part reads / np.vstack /
   the 'cols' op, duration as an exact rational and the binary64 observation against it, checker
   completeness. *)
From Coq Require Import ZArith List Lia Bool QArith Qabs Qfield.
From PV Require Import Base.PySlice Base.NpSearch Base.Tok C01.Model C01.Spec C01.ModelE C01.Proofs1 C01.Proofs2
  C01.Proofs3 C01.Proofs4 C01.Proofs.
From PV Require C16.Model.
Import ListNotations.
Open Scope Z_scope.

Lemma F2_length {X Y} (P : X -> Y -> Prop) l l' : Forall2 P l l' -> length l = length l'.
Proof. induction 1; cbn [length]; congruence. Qed.

(* ---------- rows come from the files ---------- *)
Lemma pick_In {X} (l : list X) i x : pick l i = Some x -> In x l.
Proof. intros H. apply pick_iff in H as (_ & H). eapply nth_error_In; eassumption. Qed.

Lemma gather_In {X} (M : list X) idx out : gather M idx = Some out -> forall r, In r out -> In r M.
Proof.
  unfold gather. intros H. apply mapM_Forall2 in H. induction H as [|i r0 idx' out' Hp _ IH]; intros r Hr.
  - destruct Hr.
  - destruct Hr as [<-|Hr]; [eapply pick_In; eassumption|now apply IH].
Qed.

Lemma np_index_In {X} (M : list X) it out : np_index M it = Some out -> forall r, In r out -> In r M.
Proof.
  unfold np_index. destruct (row_indices (zlen M) it) as [idx|]; cbn [bind]; [|discriminate].
  apply gather_In.
Qed.

Section Origin.
Context {A : Type}.
Notation row := (list A).
Implicit Types (parts : list (list row)).

(* for ANY index expression: whatever reader[item] returns, each of its rows is a row of a file *)
Theorem getitem_rows_origin parts it rows : getitem_rows parts it = Some rows ->
  forall r, In r rows -> In r (concat parts).
Proof.
  unfold getitem_rows. destruct (get_subitems _ it) as [subs|]; [|discriminate].
  destruct (mapM (get_part parts) subs) as [blocks|] eqn:Eb; [|discriminate].
  intros H r Hr. assert (rows = concat blocks) as -> by (destruct blocks; [discriminate|now injection H]).
  apply in_concat in Hr as (b & Hb & Hrb).
  apply mapM_Forall2 in Eb. clear H.
  induction Eb as [|s b0 subs' blocks' Hs _ IH]; [destruct Hb|].
  destruct Hb as [->|Hb]; [|now apply IH].
  unfold get_part in Hs. destruct (py_norm (zlen parts) (sub_part s)) as [i|]; cbn [bind] in Hs; [|discriminate].
  destruct (pick parts i) as [p|] eqn:Ep; cbn [bind] in Hs; [|discriminate].
  apply in_concat. exists p. split; [eapply pick_In; eassumption|].
  eapply np_index_In; eassumption.
Qed.

(* number of rows on the statement's regime *)
Lemma rows_count parts it rows : valid_item (zlen (concat parts)) it -> getitem_rows parts it = Some rows ->
  zlen rows = sel_count (zlen (concat parts)) it.
Proof.
  intros Hv E. pose proof (valid_item_pos _ _ (zlen_nonneg (concat parts)) Hv) as Hn.
  destruct it as [i|start stop step|l]; cbn [sel_count].
  - destruct (getitem_int_decl parts i Hv) as (r & _ & E'). rewrite E' in E. injection E as <-. reflexivity.
  - rewrite (getitem_slice_correct parts start stop step Hn Hv) in E. injection E as <-.
    destruct Hv as (_ & Hbs & Hbe & Hse).
    pose proof (np_bound_range (zlen (concat parts)) 0 start ltac:(lia) ltac:(lia)).
    pose proof (np_bound_range (zlen (concat parts)) (zlen (concat parts)) stop ltac:(lia) ltac:(lia)).
    unfold zlen in *. rewrite slice_length by lia. lia.
  - destruct (getitem_list_decl parts l Hv) as (rows' & E' & Hr). rewrite E' in E. injection E as <-.
    unfold Rows_at in Hr. apply F2_length in Hr. unfold zlen. now rewrite Hr.
Qed.

Lemma sel_count_pos n it : 0 <= n -> valid_item n it -> 1 <= sel_count n it.
Proof.
  intros Hn. destruct it as [i|start stop step|l]; cbn [valid_item sel_count]; [lia| |].
  - intros (_ & _ & _ & H). lia.
  - intros (Hne & _). destruct l; [congruence|]. rewrite zlen_cons. pose proof (zlen_nonneg l). lia.
Qed.

Lemma sel_row_width cs (r r' : row) idx : col_indices (zlen r) cs = Some idx -> sel_row cs r = Some r' ->
  zlen r' = zlen idx.
Proof.
  unfold sel_row. intros ->. cbn [bind]. unfold gather. intros H. apply mapM_length in H. unfold zlen. now rewrite H.
Qed.

(* shape of reader[item] / reader[item, cols] on a recording of c channels: (number of rows NumPy
   selects, c) resp. (.., number of selected columns) *)
Theorem getitem_shape parts c it cols out :
  valid_item (zlen (concat parts)) it -> Forall (fun r => zlen r = c) (concat parts) ->
  getitem parts it cols = Some (RRows out) ->
  exists w, ncols c cols = Some w /\ zlen out = sel_count (zlen (concat parts)) it /\
            Forall (fun r => zlen r = w) out.
Proof.
  intros Hv Hw. unfold getitem. destruct cols as [cs|].
  - destruct (is_whole it); [discriminate|].
    destruct (getitem_rows parts it) as [rows|] eqn:E; cbn [bind option_map]; [|discriminate].
    destruct (select_cols cs rows) as [out'|] eqn:Es; cbn [option_map]; [|discriminate].
    intros H; injection H as <-.
    pose proof (rows_count parts it rows Hv E) as Hcnt.
    pose proof (sel_count_pos _ it (zlen_nonneg _) Hv) as Hpos.
    assert (Hrw : forall r, In r rows -> zlen r = c).
    { intros r Hr. rewrite Forall_forall in Hw. apply Hw. eapply getitem_rows_origin; eassumption. }
    unfold select_cols in Es. pose proof (mapM_length _ _ _ Es) as Hlen. apply mapM_Forall2 in Es.
    (* the selector is resolved against c: look at the first row *)
    destruct rows as [|r0 rows']; [change (zlen (@nil row)) with 0 in Hcnt; lia|].
    assert (Hidx : exists idx, col_indices c cs = Some idx).
    { inversion Es as [|? r0' ? ? H0 _]; subst. unfold sel_row in H0.
      rewrite (Hrw r0 (or_introl eq_refl)) in H0. destruct (col_indices c cs) as [idx|]; [now exists idx|discriminate]. }
    destruct Hidx as (idx & Eidx). exists (zlen idx). cbn [ncols]. rewrite Eidx. cbn [option_map].
    split; [reflexivity|]. split; [unfold zlen in *; lia|].
    apply Forall_forall. intros r' Hr'.
    assert (Hex : exists r, In r (r0 :: rows') /\ sel_row cs r = Some r').
    { clear - Es Hr'. induction Es as [|x y l l' Hxy _ IH]; [destruct Hr'|].
      destruct Hr' as [<-|Hr']; [exists x; split; [now left|assumption]|].
      destruct (IH Hr') as (r & Hr & E). exists r. split; [now right|assumption]. }
    destruct Hex as (r & Hr & Er). eapply sel_row_width; [|exact Er]. now rewrite (Hrw r Hr).
  - destruct (getitem_rows parts it) as [rows|] eqn:E; cbn [option_map]; [|discriminate].
    intros H; injection H as <-. exists c. cbn [ncols]. split; [reflexivity|].
    split; [now apply rows_count|].
    apply Forall_forall. intros r Hr. rewrite Forall_forall in Hw. apply Hw.
    eapply getitem_rows_origin; eassumption.
Qed.
End Origin.

(* ---------- dtype ---------- *)
Lemma pick_map {X Y} (f : X -> Y) l i : pick (map f l) i = option_map f (pick l i).
Proof. unfold pick. destruct (i <? 0); [reflexivity|]. apply nth_error_map. Qed.

Lemma mapM_option_map {X Y W} (f : X -> option Y) (h : Y -> W) l :
  mapM (fun x => option_map h (f x)) l = option_map (map h) (mapM f l).
Proof.
  induction l as [|x r IH]; cbn [mapM]; [reflexivity|]. rewrite IH.
  destruct (f x); cbn [option_map]; [|reflexivity]. destruct (mapM f r); reflexivity.
Qed.

Section Dtype.
Context {D A : Type}.
Variable promote : D -> D -> D.
Hypothesis promote_idem : forall d, promote d d = d.
Notation row := (list A).

Lemma get_part_t_same (d : D) (parts : list (@tblock D A)) s : Forall (fun p => tb_dt p = d) parts ->
  get_part_t parts s = option_map (mktb d) (get_part (map tb_rows parts) s).
Proof.
  intros Hd. unfold get_part_t, get_part, zlen. rewrite map_length.
  destruct (py_norm _ (sub_part s)) as [i|]; cbn [bind]; [|reflexivity]. rewrite pick_map.
  destruct (pick parts i) as [p|] eqn:Ep; cbn [bind option_map]; [|reflexivity].
  rewrite Forall_forall in Hd. rewrite (Hd p) by (eapply pick_In; eassumption). reflexivity.
Qed.

Lemma vstack_t_same (d : D) (blocks : list (list row)) :
  vstack_t promote (map (mktb d) blocks) =
  match blocks with [] => None | _ => Some (mktb d (concat blocks)) end.
Proof.
  destruct blocks as [|b0 bs]; [reflexivity|]. cbn [map vstack_t concat]. f_equal.
  revert b0. induction bs as [|b bs IH]; intros b0; cbn [map fold_left concat tb_dt tb_rows].
  - now rewrite app_nil_r.
  - rewrite promote_idem, IH, app_assoc. reflexivity.
Qed.

(* all files of one dtype d: every block the reader returns has dtype d, and its rows are those of
   the untagged model *)
Theorem getitem_t_same (d : D) (parts : list (@tblock D A)) it cols :
  Forall (fun p => tb_dt p = d) parts ->
  getitem_t promote parts it cols = option_map (tag_result d) (getitem (map tb_rows parts) it cols).
Proof.
  intros Hd.
  assert (Hrows : getitem_rows_t promote parts it = option_map (mktb d) (getitem_rows (map tb_rows parts) it)).
  { unfold getitem_rows_t, getitem_rows. rewrite map_map.
    destruct (get_subitems _ it) as [subs|]; [|reflexivity].
    rewrite (mapM_ext_in _ (fun s => option_map (mktb d) (get_part (map tb_rows parts) s)))
      by (intros s _; now apply get_part_t_same).
    rewrite mapM_option_map. destruct (mapM (get_part (map tb_rows parts)) subs) as [blocks|]; cbn [option_map bind]; [|reflexivity].
    rewrite vstack_t_same. destruct blocks; reflexivity. }
  unfold getitem_t, getitem. rewrite Hrows. destruct cols as [cs|].
  - destruct (is_whole it); [reflexivity|].
    destruct (getitem_rows (map tb_rows parts) it) as [rows|]; cbn [option_map bind tb_dt tb_rows]; [|reflexivity].
    destruct (select_cols cs rows); reflexivity.
  - destruct (getitem_rows (map tb_rows parts) it); reflexivity.
Qed.
End Dtype.

(* ---------- duration ---------- *)
Lemma py_last_cons (b : list Z) : b <> [] -> py_last b = Some (last b 0).
Proof. destruct b; [congruence|reflexivity]. Qed.

Open Scope Q_scope.

Lemma Qsum_div (sizes : list Z) (rate : Q) :
  inject_Z (zsum sizes) / rate == fold_right Qplus 0 (map (fun s => inject_Z s / rate) sizes).
Proof.
  induction sizes as [|x r IH]; cbn [zsum fold_right map].
  - unfold Qdiv. now rewrite Qmult_0_l.
  - fold (zsum r). rewrite <- IH, inject_Z_plus. unfold Qdiv. now rewrite Qmult_plus_distr_l.
Qed.

(* duration = n_samples / sample_rate exactly, n_samples the total number of rows; it is the sum of
   the durations of the files *)
Theorem duration_spec (sizes : list Z) (cs : Z) (rate : Q) :
  sizes <> [] -> (forall x, In x sizes -> (0 <= x)%Z) -> (1 <= cs)%Z -> 0 < rate ->
  exists d, duration sizes cs rate = Some d /\ d * rate == inject_Z (zsum sizes) /\
            d == fold_right Qplus 0 (map (fun s => inject_Z s / rate) sizes).
Proof.
  intros H1 H2 H3 Hr. destruct (n_samples_spec sizes cs H1 H2 H3) as (b & Eb & Hne & Hl).
  unfold duration. rewrite Eb, (py_last_cons b Hne), Hl.
  destruct (Qeq_bool rate 0) eqn:E.
  { apply Qeq_bool_iff in E. rewrite E in Hr. exfalso. now apply (Qlt_irrefl 0). }
  exists (inject_Z (zsum sizes) / rate). split; [reflexivity|]. split.
  - rewrite Qmult_comm. apply Qmult_div_r. intros Hz. rewrite Hz in Hr. now apply (Qlt_irrefl 0).
  - apply Qsum_div.
Qed.

(* the observed binary64 duration against the rational: within one rounding (relative 2^-53) *)
Theorem duration_spec_b_sound (n : Z) (rate dur : tok) : duration_spec_b n rate dur = true ->
  exists r d, tokQ rate = Some r /\ tokQ dur = Some d /\ 0 < r /\
              Qabs (d - inject_Z n / r) <= (inject_Z n / r) * half_ulp.
Proof.
  unfold duration_spec_b. destruct (tokQ rate) as [r|]; [|discriminate]. destruct (tokQ dur) as [d|]; [|discriminate].
  rewrite andb_true_iff, negb_true_iff. intros (Hr & Hd).
  assert (Hpos : 0 < r).
  { apply Qnot_le_lt. intros Hle. apply Qle_bool_iff in Hle. congruence. }
  apply Qle_bool_iff in Hd. exists r, d. repeat split; try assumption.
  assert (Hne : ~ r == 0) by (intros Hz; rewrite Hz in Hpos; now apply (Qlt_irrefl 0)).
  assert (E1 : d - inject_Z n / r == (d * r - inject_Z n) * / r) by (field; assumption).
  assert (E2 : inject_Z n / r * half_ulp == (inject_Z n * half_ulp) * / r) by (field; assumption).
  rewrite E1, E2, Qabs_Qmult.
  assert (Hinv : 0 <= / r) by (apply Qinv_le_0_compat, Qlt_le_weak; assumption).
  rewrite (Qabs_pos (/ r)) by assumption.
  apply Qmult_le_compat_r; assumption.
Qed.
Close Scope Q_scope.

(* ---------- the checkers decide their specifications (both directions) ---------- *)
Lemma getitem_spec_b_iff sizes c it cols obs :
  getitem_spec_b sizes c it cols obs = true <-> np_getitem (concat (mk_parts c 0 sizes)) it cols = Some obs.
Proof.
  split; [apply getitem_spec_b_sound|]. unfold getitem_spec_b. intros ->. now apply zmat_eqb_eq.
Qed.

Lemma attrs_spec_b_iff sizes c s0 s1 ns nc :
  attrs_spec_b sizes c s0 s1 ns nc = true <-> s0 = zsum sizes /\ s1 = c /\ ns = zsum sizes /\ nc = c.
Proof. unfold attrs_spec_b. rewrite !andb_true_iff, !Z.eqb_eq. tauto. Qed.
