(* C01/Corr.v -- comparator evaluated by vm_compute on generated case files.
   codes: 1  = observed output differs from the model (PV.C01.Model.getitem / part_bounds / memmap_rows;
               outside the statement's regime: PV.C01.ModelE.getitem_e, exception class included)
          21 = C01_slice / C01_int / C01_list / C01_cols: the observed block is not what NumPy returns
               on the concatenated recording (rows first, then columns); for a direct _get_subitems
               call: the sub-items, read part by part, do not give those rows
          22 = dtype of the returned block differs from the sample dtype
          23 = C01_bounds / C01_memmap_rows: shape, n_samples or n_channels are not those of the
               concatenated array
          24 = reader.dtype differs from the sample dtype
          25 = duration differs from n_samples / sample_rate (one binary64 division)
          26 = C01_duration: duration is not within one rounding of the rational n_samples / sample_rate
          3  = input outside the stated regime (harness bug)
   The test recording is the n x c matrix with entry (r, j) = r*c + j, split into parts of the given
   sizes, so a returned block identifies exactly which rows and columns were read.
   InGet / InAttrs / InFlatAttrs / InSub are judged against the statement (codes 21-26); InAny / InCtor are
   inputs OUTSIDE the statement (out-of-range or unordered indices, empty selections, steps, odd
   constructor arguments): only code 1, so that a change of behaviour there is seen. *)
From Coq Require Import ZArith List Lia Bool Floats Uint63.
From PV Require Export Base.PySlice Base.NpSearch Base.Tok C01.Model C01.Spec C01.ModelE.
From PV Require Import C16.Model Base.FloatTok.
Import ListNotations.
Open Scope Z_scope.

Inductive input :=
| InGet (sizes : list Z) (c : Z) (dt : Z) (it : item) (cols : option colsel)
| InAttrs (sizes : list Z) (c : Z) (dt : Z) (cs : Z) (rate : float) (ratet : tok)
| InFlatAttrs (fsizes : list Z) (offset isz c dt cs : Z) (rate : float) (ratet : tok)
| InAny (sizes : list Z) (c : Z) (dt : Z) (it : item) (cols : option colsel)
| InSub (sizes : list Z) (it : item)
| InCtor (direct : bool) (fsizes : list Z) (offset isz c cs : Z)
| InDispatch (s : shape_case).

Inductive observed :=
| ObsRows (dt : Z) (rows : list (list Z))
| ObsDerived (dt : Z) (rows : list (list Z))     (* a reader came back; rows = that reader read in full *)
| ObsAttrs (shape0 shape1 nsamples nchannels dt : Z) (dur : float) (durt : tok) (pb : list Z)
| ObsSubs (subs : list subitem)                  (* what _get_subitems returned *)
| ObsBounds (pb : list Z)                        (* the constructor succeeded: part_bounds *)
| ObsNone                                        (* get_ephys_reader returned None / a call returned normally *)
| ObsRaise (k : Z)                               (* exception class (exn_code), 0 = another class *)
| ObsOther                                       (* not a 2-D integer-valued block *)
| ObsCrash.

Record case := { cid : Z; cin : input; cobs : observed }.

Definition flag (code : Z) (ok : bool) : list Z := if ok then [] else [code].

(* >= 1 file, no negative size, >= 1 row in all (a file may hold 0 rows: header / trailing bytes only) *)
Definition sizes_ok (sizes : list Z) : bool :=
  (1 <=? zlen sizes) && forallb (fun s => 0 <=? s) sizes && (1 <=? zsum sizes).

Definition model_rows_eqb (m : option (@result Z)) (rows : list (list Z)) : bool :=
  match m with Some (RRows r) => zmat_eqb r rows | _ => false end.
Definition model_derived (m : option (@result Z)) : bool :=
  match m with Some (RDerived _) => true | _ => false end.

Definition fdiv (n : Z) (rate : float) : float :=
  PrimFloat.div (PrimFloat.of_uint63 (Uint63.of_Z n)) rate.

(* the two encodings of one binary64 number agree *)
Definition tok_is (f : float) (t : tok) : bool := tok_eqb (tok_of_float f) (tnorm t).

Definition check_attrs (sizes : list Z) (c dt cs : Z) (rate : float) (ratet : tok) (o : observed) : list Z :=
  match o with
  | ObsAttrs s0 s1 ns nc dto dur durt pb =>
      if negb (tok_is rate ratet && tok_is dur durt) then [3] else
      flag 1 (zlist_eqb pb (part_bounds sizes) &&
              match get_chunk_bounds sizes cs with Some b => last b 0 =? ns | None => false end) ++
      flag 23 (attrs_spec_b sizes c s0 s1 ns nc) ++
      flag 24 (dto =? dt) ++
      flag 25 (PrimFloat.eqb dur (fdiv (zsum sizes) rate)) ++
      flag 26 (duration_spec_b (zsum sizes) ratet durt)
  | _ => [1; 23; 24; 25; 26]
  end.

Definition is_ok {X} (r : res X) : bool := match r with Ok _ => true | Err _ => false end.

(* outside the statement: the model with exception classes against the observation *)
Definition any_eqb (m : res (@result Z)) (o : observed) : bool :=
  match m, o with
  | Ok (RRows r), ObsRows _ rows => zmat_eqb r rows
  | Ok (RDerived _), ObsDerived _ _ => true
  | Err e, ObsRaise k => exn_code e =? k
  | _, _ => false
  end.

Definition check (c : case) : list Z :=
  match cin c, cobs c with
  | InGet sizes nc dt it cols, o =>
      let parts := mk_parts nc 0 sizes in
      let M := concat parts in
      if negb (sizes_ok sizes && (1 <=? nc) && valid_item_b (zsum sizes) it &&
               match np_getitem M it cols with Some _ => true | None => false end) then [3] else
      let m := getitem parts it cols in
      match o with
      | ObsRows dto rows =>
          flag 1 (model_rows_eqb m rows) ++
          flag 21 (getitem_spec_b sizes nc it cols rows) ++
          flag 22 (dto =? dt)
      | ObsDerived dto rows =>
          flag 1 (model_derived m) ++
          flag 21 (is_whole it && match cols with Some _ => true | None => false end &&
                   getitem_spec_b sizes nc it cols rows) ++
          flag 22 (dto =? dt)
      | _ => [1; 21]
      end
  | InAttrs sizes nc dt cs rate ratet, o =>
      if negb (sizes_ok sizes && (1 <=? nc) && (1 <=? cs)) then [3] else
      check_attrs sizes nc dt cs rate ratet o
  | InFlatAttrs fsizes offset isz nc dt cs rate ratet, o =>
      match mapM (fun f => memmap_rows f offset isz nc) fsizes with
      | None => [3]
      | Some sizes =>
          if negb (sizes_ok sizes && (1 <=? nc) && (1 <=? cs) && (0 <=? offset) && (1 <=? isz) &&
                   forallb (fun f => 1 <=? f) fsizes) then [3] else
          check_attrs sizes nc dt cs rate ratet o
      end
  | InAny sizes nc dt it cols, o =>
      let parts := mk_parts nc 0 sizes in
      (* a 0-row block has no column count in this model: a column selector that NumPy rejects is
         not asked for there *)
      if negb ((1 <=? zlen sizes) && forallb (fun s => 0 <=? s) sizes && (1 <=? nc) &&
               match getitem_rows_e parts it, cols with
               | Ok [], Some cs => is_ok (col_indices_e nc cs)
               | _, _ => true
               end) then [3] else
      flag 1 (any_eqb (getitem_e parts it cols) o)
  | InSub sizes it, o =>
      let parts := mk_parts 1 0 sizes in
      if negb (sizes_ok sizes && valid_item_b (zsum sizes) it) then [3] else
      match o with
      | ObsSubs subs =>
          flag 21 (match mapM (get_part parts) subs, np_index (concat parts) it with
                   | Some (b :: bs), Some rows => zmat_eqb (concat (b :: bs)) rows
                   | _, _ => false
                   end)
      | _ => [1; 21]
      end
  | InCtor direct fsizes offset isz nc cs, o =>
      if negb ((0 <=? offset) && (1 <=? isz)) then [3] else
      flag 1 (match flat_ctor_e direct fsizes offset isz nc cs, o with
              | Ok (Some pb), ObsBounds pb' => zlist_eqb pb pb'
              | Ok None, ObsNone => true
              | Err e, ObsRaise k => exn_code e =? k
              | _, _ => false
              end)
  | InDispatch s, o =>
      if negb (match s with NpyPaths k => 1 <=? k | TupleArity k => 0 <=? k end) then [3] else
      flag 1 (match dispatch_e s, o with
              | Ok _, ObsNone => true
              | Err e, ObsRaise k => exn_code e =? k
              | _, _ => false
              end)
  end.

Definition run (cases : list case) : list (Z * Z) :=
  flat_map (fun c => map (fun code => (cid c, code)) (check c)) cases.

(* liveness of the comparator (a deliberately wrong observation must be flagged, a right one not):
   three files of 1, 3, 2 samples, 2 channels, reader[1] *)
Example corr_live_wrong :
  check {| cid := 0; cin := InGet [1; 3; 2] 2 1 (IInt 1) None; cobs := ObsRows 1 [[0; 1]] |} = [1; 21].
Proof. vm_compute. reflexivity. Qed.
Example corr_live_right :
  check {| cid := 0; cin := InGet [1; 3; 2] 2 1 (IInt 1) None; cobs := ObsRows 1 [[2; 3]] |} = [].
Proof. vm_compute. reflexivity. Qed.
Example corr_live_regime :
  check {| cid := 0; cin := InGet [1; 3; 2] 2 1 (ISlice (Some 1) (Some 0) None) None; cobs := ObsRows 1 [] |} = [3].
Proof. vm_compute. reflexivity. Qed.
(* a file of 0 rows between two others *)
Example corr_live_empty_part :
  check {| cid := 0; cin := InGet [2; 0; 1] 1 1 (ISlice (Some 1) None None) None; cobs := ObsRows 1 [[1]; [2]] |} = [] /\
  check {| cid := 0; cin := InGet [2; 0; 1] 1 1 (IInt 2) None; cobs := ObsRows 1 [[1]] |} = [1; 21].
Proof. vm_compute. split; reflexivity. Qed.
(* outside the statement: reader[6] on 6 rows raises IndexError (1), reader[-7] wraps to row 5, reader[1:1] at a
   file boundary raises ValueError (2); a different exception class is a model mismatch *)
Example corr_live_any :
  check {| cid := 0; cin := InAny [1; 3; 2] 2 1 (IInt 6) None; cobs := ObsRaise 1 |} = [] /\
  check {| cid := 0; cin := InAny [1; 3; 2] 2 1 (IInt 6) None; cobs := ObsRaise 2 |} = [1] /\
  check {| cid := 0; cin := InAny [1; 3; 2] 2 1 (IInt (-7)) None; cobs := ObsRows 1 [[10; 11]] |} = [] /\
  check {| cid := 0; cin := InAny [1; 3; 2] 2 1 (ISlice (Some 1) (Some 1) None) None; cobs := ObsRaise 2 |} = [] /\
  check {| cid := 0; cin := InAny [1; 3; 2] 2 1 (ISlice (Some 2) (Some 2) None) None; cobs := ObsRows 1 [] |} = [].
Proof. vm_compute. repeat split; reflexivity. Qed.
(* _get_subitems([0, 1, 4, 6], slice(1, 5)): the two sub-slices it returns, and a wrong answer *)
Example corr_live_sub :
  check {| cid := 0; cin := InSub [1; 3; 2] (ISlice (Some 1) (Some 5) None);
           cobs := ObsSubs [mksub 1 (ISlice (Some 0) (Some 3) (Some 1)); mksub 2 (ISlice (Some 0) (Some 1) (Some 1))] |} = [] /\
  check {| cid := 0; cin := InSub [1; 3; 2] (ISlice (Some 1) (Some 5) None);
           cobs := ObsSubs [mksub 1 (ISlice (Some 0) (Some 3) (Some 1))] |} = [21].
Proof. vm_compute. split; reflexivity. Qed.
(* duration 2 rows / 3.0 Hz: the correctly rounded quotient passes 25 and 26, the next float fails both *)
Example corr_live_duration :
  check {| cid := 0; cin := InAttrs [2] 1 1 1800 0x1.8p+1%float (TNum 3 0);
           cobs := ObsAttrs 2 1 2 1 1 0x1.5555555555555p-1%float (TNum 6004799503160661 (-53)) [0; 2] |} = [] /\
  check {| cid := 0; cin := InAttrs [2] 1 1 1800 0x1.8p+1%float (TNum 3 0);
           cobs := ObsAttrs 2 1 2 1 1 0x1.5555555555557p-1%float (TNum 6004799503160663 (-53)) [0; 2] |} = [25; 26].
Proof. vm_compute. split; reflexivity. Qed.
