(* C01/Corr.v -- comparator evaluated by vm_compute on generated case files.
   codes: 1  = observed output differs from the model (PV.C01.Model.getitem / part_bounds / memmap_rows)
          21 = C01_slice / C01_int / C01_list / C01_cols: the observed block is not what NumPy returns
               on the concatenated recording (rows first, then columns)
          22 = dtype of the returned block differs from the sample dtype
          23 = C01_bounds / C01_memmap_rows: shape, n_samples or n_channels are not those of the
               concatenated array
          24 = reader.dtype differs from the sample dtype
          25 = duration differs from n_samples / sample_rate (one binary64 division)
          3  = input outside the stated regime (harness bug)
   The test recording is the n x c matrix with entry (r, j) = r*c + j, split into parts of the given
   sizes, so a returned block identifies exactly which rows and columns were read. *)
From Coq Require Import ZArith List Lia Bool Floats Uint63.
From PV Require Export Base.PySlice Base.NpSearch C01.Model C01.Spec.
From PV Require Import C16.Model.
Import ListNotations.
Open Scope Z_scope.

Inductive input :=
| InGet (sizes : list Z) (c : Z) (dt : Z) (it : item) (cols : option colsel)
| InAttrs (sizes : list Z) (c : Z) (dt : Z) (cs : Z) (rate : float)
| InFlatAttrs (fsizes : list Z) (offset isz c dt cs : Z) (rate : float).

Inductive observed :=
| ObsRows (dt : Z) (rows : list (list Z))
| ObsDerived (dt : Z) (rows : list (list Z))     (* a reader came back; rows = that reader read in full *)
| ObsAttrs (shape0 shape1 nsamples nchannels dt : Z) (dur : float) (pb : list Z)
| ObsOther                                       (* not a 2-D integer-valued block *)
| ObsCrash.

Record case := { cid : Z; cin : input; cobs : observed }.

Definition flag (code : Z) (ok : bool) : list Z := if ok then [] else [code].

Definition sizes_ok (sizes : list Z) : bool := (1 <=? zlen sizes) && forallb (fun s => 1 <=? s) sizes.

Definition model_rows_eqb (m : option (@result Z)) (rows : list (list Z)) : bool :=
  match m with Some (RRows r) => zmat_eqb r rows | _ => false end.
Definition model_derived (m : option (@result Z)) : bool :=
  match m with Some (RDerived _) => true | _ => false end.

Definition fdiv (n : Z) (rate : float) : float :=
  PrimFloat.div (PrimFloat.of_uint63 (Uint63.of_Z n)) rate.

Definition check_attrs (sizes : list Z) (c dt cs : Z) (rate : float) (o : observed) : list Z :=
  match o with
  | ObsAttrs s0 s1 ns nc dto dur pb =>
      flag 1 (zlist_eqb pb (part_bounds sizes) &&
              match get_chunk_bounds sizes cs with Some b => last b 0 =? ns | None => false end) ++
      flag 23 (attrs_spec_b sizes c s0 s1 ns nc) ++
      flag 24 (dto =? dt) ++
      flag 25 (PrimFloat.eqb dur (fdiv (zsum sizes) rate))
  | _ => [1; 23; 24; 25]
  end.

Definition check (c : case) : list Z :=
  match cin c, cobs c with
  | InGet sizes nc dt it cols, o =>
      let parts := mk_parts nc 0 sizes in
      let M := concat parts in
      if negb (sizes_ok sizes && (1 <=? nc) && valid_item_b (zsum sizes) it &&
               match np_getitem M it cols with Some _ => true | None => false end) then [3] else
      let m := getitem parts it cols in
      match o with
      | ObsRows dto rows =>
          flag 1 (model_rows_eqb m rows) ++
          flag 21 (getitem_spec_b sizes nc it cols rows) ++
          flag 22 (dto =? dt)
      | ObsDerived dto rows =>
          flag 1 (model_derived m) ++
          flag 21 (is_whole it && match cols with Some _ => true | None => false end &&
                   getitem_spec_b sizes nc it cols rows) ++
          flag 22 (dto =? dt)
      | _ => [1; 21]
      end
  | InAttrs sizes nc dt cs rate, o =>
      if negb (sizes_ok sizes && (1 <=? nc) && (1 <=? cs)) then [3] else
      check_attrs sizes nc dt cs rate o
  | InFlatAttrs fsizes offset isz nc dt cs rate, o =>
      match mapM (fun f => memmap_rows f offset isz nc) fsizes with
      | None => [3]
      | Some sizes =>
          if negb (sizes_ok sizes && (1 <=? nc) && (1 <=? cs) && (0 <=? offset) && (1 <=? isz)) then [3] else
          check_attrs sizes nc dt cs rate o
      end
  end.

Definition run (cases : list case) : list (Z * Z) :=
  flat_map (fun c => map (fun code => (cid c, code)) (check c)) cases.

(* liveness of the comparator (a deliberately wrong observation must be flagged, a right one not):
   three files of 1, 3, 2 samples, 2 channels, reader[1] *)
Example corr_live_wrong :
  check {| cid := 0; cin := InGet [1; 3; 2] 2 1 (IInt 1) None; cobs := ObsRows 1 [[0; 1]] |} = [1; 21].
Proof. vm_compute. reflexivity. Qed.
Example corr_live_right :
  check {| cid := 0; cin := InGet [1; 3; 2] 2 1 (IInt 1) None; cobs := ObsRows 1 [[2; 3]] |} = [].
Proof. vm_compute. reflexivity. Qed.
Example corr_live_regime :
  check {| cid := 0; cin := InGet [1; 3; 2] 2 1 (ISlice (Some 1) (Some 0) None) None; cobs := ObsRows 1 [] |} = [3].
Proof. vm_compute. reflexivity. Qed.
