(* C01/Proofs5.v -- the model with exception classes (ModelE.v): forgetting the class gives Model.v
   back; the error exits of _get_subitems / __getitem__ and the total behaviour of the integer and
   the slice branch (every integer, every slice bound, inside or outside the statement's regime). *)
From Coq Require Import ZArith List Lia Bool.
From PV Require Import Base.PySlice Base.NpSearch C01.Model C01.Spec C01.ModelE C01.Proofs1 C01.Proofs2
  C01.Proofs3 C01.Proofs4 C01.Proofs.
Import ListNotations.
Open Scope Z_scope.

(* ---------- erasure ---------- *)
Lemma erase_of_opt {X} e (o : option X) : erase (of_opt e o) = o.
Proof. destruct o; reflexivity. Qed.

Lemma erase_Some {X} (r : res X) x : erase r = Some x -> r = Ok x.
Proof. destruct r; cbn [erase]; [intros H; injection H as ->; reflexivity|discriminate]. Qed.

Lemma erase_None {X} (r : res X) : erase r = None -> exists e, r = Err e.
Proof. destruct r as [x|e]; cbn [erase]; [discriminate|intros _; now exists e]. Qed.

Lemma erase_ebind {X Y} (m : res X) (f : X -> res Y) (g : X -> option Y) :
  (forall x, erase (f x) = g x) -> erase (ebind m f) = bind (erase m) g.
Proof. intros H. destruct m as [x|e]; cbn [ebind erase bind]; [apply H|reflexivity]. Qed.

Lemma erase_mapE {X Y} (f : X -> res Y) (g : X -> option Y) l :
  (forall x, erase (f x) = g x) -> erase (mapE f l) = mapM g l.
Proof.
  intros H. induction l as [|x r IH]; cbn [mapE mapM]; [reflexivity|].
  rewrite <- H, <- IH. destruct (f x) as [y|e]; cbn [erase]; [|reflexivity].
  destruct (mapE f r) as [ys|e]; reflexivity.
Qed.

Lemma erase_row_indices n it : erase (row_indices_e n it) = row_indices n it.
Proof. destruct it; apply erase_of_opt. Qed.

Lemma erase_col_indices c cs : erase (col_indices_e c cs) = col_indices c cs.
Proof. destruct cs; apply erase_of_opt. Qed.

Lemma erase_np_index {X} (M : list X) it : erase (np_index_e M it) = np_index M it.
Proof.
  unfold np_index_e, np_index. rewrite (erase_ebind _ _ (gather M)) by (intros; apply erase_of_opt).
  now rewrite erase_row_indices.
Qed.

Lemma erase_sel_row {A} cs (r : list A) : erase (sel_row_e cs r) = sel_row cs r.
Proof.
  unfold sel_row_e, sel_row. rewrite (erase_ebind _ _ (gather r)) by (intros; apply erase_of_opt).
  now rewrite erase_col_indices.
Qed.

Lemma erase_select_cols {A} cs (rows : list (list A)) : erase (select_cols_e cs rows) = select_cols cs rows.
Proof. apply erase_mapE. intros r. apply erase_sel_row. Qed.

Lemma erase_slice_loop B s e cs : erase (slice_loop_e B s e cs) = slice_loop B s e cs.
Proof.
  induction cs as [|c r IH]; cbn [slice_loop_e slice_loop]; [reflexivity|].
  destruct (py_pair B c) as [bp|]; [|reflexivity].
  destruct (negb _); [reflexivity|]. rewrite <- IH.
  destruct (slice_loop_e B s e r); reflexivity.
Qed.

Lemma erase_list_loop B l cs : erase (list_loop_e B l cs) = list_loop B l cs.
Proof.
  induction cs as [|c r IH]; cbn [list_loop_e list_loop]; [reflexivity|].
  destruct (zlen B - 1 <=? c); [reflexivity|].
  destruct (py_pair B c) as [bp|]; [|reflexivity]. rewrite <- IH.
  destruct (list_loop_e B l r); reflexivity.
Qed.

Lemma erase_get_subitems B it : erase (get_subitems_e B it) = get_subitems B it.
Proof.
  destruct it as [i|start stop step|l]; cbn [get_subitems_e get_subitems].
  - unfold get_subitems_int_e, get_subitems_int. destruct (py_last B) as [bl|]; [|reflexivity].
    destruct (wrap_neg i bl) as [j|]; [|reflexivity].
    destruct (zlen B - 1 <=? _); [reflexivity|]. destruct (py_get B _); reflexivity.
  - unfold get_subitems_slice_e, get_subitems_slice.
    destruct (py_first B) as [b0|]; [|reflexivity]. destruct (py_last B) as [bl|]; [|reflexivity].
    destruct (wrap_neg (or_default start b0) bl) as [s|]; [|reflexivity].
    destruct (wrap_neg (or_default stop bl) bl) as [e|]; [|reflexivity].
    destruct (negb (or_default step 1 =? 1)); [reflexivity|].
    destruct (negb _); [reflexivity|]. destruct (negb _); [reflexivity|].
    apply erase_slice_loop.
  - unfold get_subitems_list_e, get_subitems_list. destruct (_ && _); [reflexivity|].
    apply erase_list_loop.
Qed.

Section EraseReader.
Context {A : Type}.
Notation row := (list A).
Implicit Types (parts : list (list row)).

Lemma erase_get_part parts s : erase (get_part_e parts s) = get_part parts s.
Proof.
  unfold get_part_e, get_part.
  rewrite (erase_ebind _ _ (fun p => np_index p (sub_item s))) by (intros; apply erase_np_index).
  rewrite (erase_ebind _ _ (pick parts)) by (intros; apply erase_of_opt).
  now rewrite erase_of_opt.
Qed.

Lemma erase_getitem_rows parts it : erase (getitem_rows_e parts it) = getitem_rows parts it.
Proof.
  unfold getitem_rows_e, getitem_rows. rewrite <- erase_get_subitems.
  destruct (get_subitems_e _ it) as [subs|e]; cbn [erase]; [|reflexivity].
  rewrite <- (erase_mapE (get_part_e parts) (get_part parts)) by apply erase_get_part.
  destruct (mapE (get_part_e parts) subs) as [[|b bs]|e]; reflexivity.
Qed.

(* forgetting WHICH exception is raised gives the model of Model.v: same results, and an exception
   exactly where that model says None *)
Theorem getitem_erase parts it cols : erase (getitem_e parts it cols) = getitem parts it cols.
Proof.
  unfold getitem_e, getitem. destruct cols as [cs|].
  - destruct (is_whole it); [reflexivity|].
    rewrite (erase_ebind _ _ (fun r => Some (RRows r))) by reflexivity.
    rewrite (erase_ebind _ _ (select_cols cs)) by (intros; apply erase_select_cols).
    rewrite erase_getitem_rows.
    destruct (bind (getitem_rows parts it) (select_cols cs)); reflexivity.
  - rewrite (erase_ebind _ _ (fun r => Some (RRows r))) by reflexivity.
    rewrite erase_getitem_rows. destruct (getitem_rows parts it); reflexivity.
Qed.

Lemma getitem_rows_e_Ok parts it rows : getitem_rows parts it = Some rows -> getitem_rows_e parts it = Ok rows.
Proof. intros H. apply erase_Some. now rewrite erase_getitem_rows. Qed.
End EraseReader.

(* ---------- searchsorted at and beyond the ends of the bounds ---------- *)
Lemma ssr_all b v : (forall x, In x b -> x <= v) -> ssr b v = zlen b.
Proof.
  induction b as [|y r IH]; intros H; [reflexivity|]. cbn [ssr].
  replace (y <=? v) with true by (specialize (H y (or_introl eq_refl)); lia).
  rewrite IH by (intros x Hx; apply H; now right). rewrite zlen_cons. lia.
Qed.

Lemma cumsum_le acc l y : (forall x, In x l -> 0 <= x) -> In y (acc :: cumsum_from acc l) -> y <= acc + zsum l.
Proof.
  revert acc y; induction l as [|x r IH]; intros acc y Hp Hy; cbn [cumsum_from zsum fold_right] in *.
  - destruct Hy as [<-|[]]. lia.
  - fold (zsum r). assert (0 <= x) by (apply Hp; now left).
    assert (Hr : forall z, In z r -> 0 <= z) by (intros z Hz; apply Hp; now right).
    pose proof (IH (acc + x) (acc + x) Hr ltac:(now left)) as H0.
    destruct Hy as [<-|Hy]; [lia|].
    pose proof (IH (acc + x) y Hr Hy). lia.
Qed.

Section Bounds.
Context {X : Type}.
Implicit Types (parts : list (list X)).

Lemma bounds_le parts y : In y (part_bounds (map zlen parts)) -> y <= zlen (concat parts).
Proof.
  intros Hy. unfold part_bounds in Hy. apply cumsum_le in Hy.
  - rewrite zsum_map_zlen in Hy. lia.
  - intros x Hx. apply in_map_iff in Hx as (p & <- & _). apply zlen_nonneg.
Qed.

(* x at or beyond the end: the "part" found is the one after the last *)
Lemma find_chunk_high parts x : zlen (concat parts) <= x ->
  find_chunk (part_bounds (map zlen parts)) x = zlen parts.
Proof.
  intros Hx. unfold find_chunk. rewrite ssr_all.
  - rewrite bounds_length. lia.
  - intros y Hy. apply bounds_le in Hy. lia.
Qed.

Lemma find_chunk_neg parts x : x < 0 -> find_chunk (part_bounds (map zlen parts)) x = -1.
Proof.
  intros Hx. unfold find_chunk, part_bounds. cbn [ssr]. replace (0 <=? x) with false by lia. reflexivity.
Qed.

(* x below the end: a part index at most the last *)
Lemma find_chunk_lt parts x : x < zlen (concat parts) ->
  -1 <= find_chunk (part_bounds (map zlen parts)) x < zlen parts.
Proof.
  intros Hx. set (B := part_bounds (map zlen parts)). unfold find_chunk. fold B.
  pose proof (ssr_range B x) as Hr. pose proof (bounds_length parts) as Hl. fold B in Hl.
  split; [lia|].
  destruct (Z.eq_dec (ssr B x) (zlen B)) as [Heq|]; [|lia].
  pose proof (ssr_below B x (zlen parts) ltac:(pose proof (zlen_nonneg parts); lia)) as Hb.
  unfold B in Hb. rewrite <- bnd_bounds, bnd_last in Hb. lia.
Qed.

Lemma find_chunk_nonneg parts x : 0 <= x -> 0 <= find_chunk (part_bounds (map zlen parts)) x.
Proof.
  intros Hx. unfold find_chunk, part_bounds. cbn [ssr]. replace (0 <=? x) with true by lia.
  pose proof (ssr_nonneg (cumsum_from 0 (map zlen parts)) x). lia.
Qed.
End Bounds.

(* ---------- the integer branch, for EVERY integer ---------- *)
Section IntTotal.
Context {A : Type}.
Notation row := (list A).
Implicit Types (parts : list (list row)).

Lemma int_wrap parts i : let n := zlen (concat parts) in
  0 < n -> i < n -> getitem_rows_e parts (IInt i) = getitem_rows_e parts (IInt (i mod n)).
Proof.
  intros n Hn Hi. unfold getitem_rows_e. cbn [get_subitems_e]. unfold get_subitems_int_e.
  rewrite py_last_bounds. fold n.
  assert (Hj : 0 <= i mod n < n) by (apply Z.mod_pos_bound; lia).
  assert (E : wrap_neg i n = wrap_neg (i mod n) n).
  { unfold wrap_neg, pymod. replace (i mod n <? 0) with false by lia.
    replace (n =? 0) with false by lia. destruct (i <? 0) eqn:E; [reflexivity|].
    apply Z.ltb_ge in E. rewrite Z.mod_small by lia. reflexivity. }
  rewrite E. reflexivity.
Qed.

Theorem getitem_int_total parts i : let n := zlen (concat parts) in
  (n = 0 -> i < 0 -> getitem_rows_e parts (IInt i) = Err EZeroDiv) /\
  (n <= i -> getitem_rows_e parts (IInt i) = Err EIndex) /\
  (i < n -> 0 < n ->
     exists r, nth_error (concat parts) (Z.to_nat (i mod n)) = Some r /\ getitem_rows_e parts (IInt i) = Ok [r]).
Proof.
  intros n. pose proof (zlen_nonneg (concat parts)) as Hn0. fold n in Hn0. repeat split.
  - intros Hz Hi. unfold getitem_rows_e. cbn [get_subitems_e]. unfold get_subitems_int_e.
    rewrite py_last_bounds. fold n. rewrite Hz. unfold wrap_neg, pymod.
    replace (i <? 0) with true by lia. reflexivity.
  - intros Hi. unfold getitem_rows_e. cbn [get_subitems_e]. unfold get_subitems_int_e.
    rewrite py_last_bounds. fold n. unfold wrap_neg. replace (i <? 0) with false by lia.
    rewrite find_chunk_high by (fold n; lia). rewrite bounds_length.
    replace (zlen parts + 1 - 1 <=? zlen parts) with true by lia. reflexivity.
  - intros Hi Hn. pose proof (int_wrap parts i) as Hw. cbv zeta in Hw. fold n in Hw. rewrite Hw by lia. clear Hw.
    set (j := i mod n). assert (Hj : 0 <= j < n) by (apply Z.mod_pos_bound; lia).
    pose proof (getitem_int_correct parts j ltac:(fold n; lia)) as Hc. cbv zeta in Hc. fold n in Hc.
    rewrite (Z.mod_small j n) in Hc by lia.
    destruct (pick_some (concat parts) j ltac:(fold n; lia)) as (r & Hr). rewrite Hr in Hc.
    cbn [option_map] in Hc. exists r. split.
    + apply pick_iff in Hr. tauto.
    + now apply getitem_rows_e_Ok.
Qed.
End IntTotal.

(* ---------- the slice branch, for EVERY start / stop ---------- *)
Lemma phy_bound_range n d x : 0 < n -> 0 <= phy_bound n d x <= n.
Proof.
  intros Hn. unfold phy_bound. destruct (or_default x d <? 0) eqn:E.
  - pose proof (Z.mod_pos_bound (or_default x d) n Hn). lia.
  - lia.
Qed.

Lemma wrap_neg_phy n v : 0 < n -> wrap_neg v n = Some (if v <? 0 then v mod n else v).
Proof.
  intros Hn. unfold wrap_neg, pymod. destruct (v <? 0); [|reflexivity].
  replace (n =? 0) with false by lia. reflexivity.
Qed.

Section SliceTotal.
Context {A : Type}.
Notation row := (list A).
Implicit Types (parts : list (list row)).

(* the core of Proofs3.getitem_slice_correct, for any 0 <= s < n, 0 < e <= n whose parts are in order
   (s < e is NOT required: an empty selection inside one part is read as an empty block) *)
Lemma slice_core parts s e :
  let n := zlen (concat parts) in
  let B := part_bounds (map zlen parts) in
  let first := find_chunk B s in let lst := find_chunk B (e - 1) in
  0 <= s < n -> 0 < e <= n -> first <= lst ->
  match slice_loop B s e (zrange first (Z.to_nat (lst + 1 - first))) with
  | None => None
  | Some subs => match mapM (get_part parts) subs with
                 | None => None | Some [] => None | Some blocks => Some (concat blocks)
                 end
  end = Some (slice (concat parts) s e).
Proof.
  intros n B. unfold find_chunk. set (first := ssr B s - 1). set (lst := ssr B (e - 1) - 1).
  intros Hs0 He0 Hfl.
  pose proof (find_chunk_spec parts s ltac:(fold n; lia)) as Hf. cbv zeta in Hf.
  unfold find_chunk in Hf. fold B first in Hf. destruct Hf as (Hf & Hfb).
  pose proof (find_chunk_spec parts (e - 1) ltac:(fold n; lia)) as Hl. cbv zeta in Hl.
  unfold find_chunk in Hl. fold B lst in Hl. destruct Hl as (Hl & Hlb).
  pose proof (bounds_sorted parts) as Hsorted. fold B in Hsorted.
  pose proof (bounds_length parts) as HlenB. fold B in HlenB.
  set (k := Z.to_nat (lst + 1 - first)).
  unfold B. rewrite slice_loop_ok; [|lia|intros c Hc; apply zrange_ge in Hc; lia].
  rewrite mapM_map.
  rewrite (mapM_all_some _ (g 0 parts s e)).
  2:{ intros c Hc. apply zrange_ge in Hc. cbn beta.
      rewrite get_part_in by lia. rewrite np_index_slice by (right; reflexivity).
      pose proof (bnd_len 0 parts c ltac:(lia)) as Hlen. rewrite Hlen.
      set (p := nth (Z.to_nat c) parts []) in *. pose proof (zlen_nonneg p) as Hp.
      f_equal. unfold g, cslice. fold p. unfold np_bound.
      replace (Z.max 0 (s - bnd 0 parts c) <? 0) with false by lia.
      assert (Hec : 1 <= e - bnd 0 parts c).
      { pose proof (ssr_below B (e - 1) c) as Hb.
        change (nthZ B c) with (bnd 0 parts c) in Hb. lia. }
      replace (Z.min (zlen p) (e - bnd 0 parts c) <? 0) with false by lia.
      rewrite <- (slice_clip p (Z.max 0 (s - bnd 0 parts c)) (Z.max 0 (e - bnd 0 parts c))) by lia.
      f_equal; lia. }
  destruct (zrange first k) as [|c0 r0] eqn:Ez.
  { apply (f_equal (@length Z)) in Ez. rewrite zrange_length in Ez. cbn [length] in Ez. lia. }
  cbn [map]. change (g 0 parts s e c0 :: map (g 0 parts s e) r0) with (map (g 0 parts s e) (c0 :: r0)).
  rewrite <- Ez. f_equal.
  pose proof (all_g 0 parts s e) as Hall.
  replace (length parts) with (Z.to_nat first + (k + Z.to_nat (zlen parts - (lst + 1))))%nat in Hall
    by (unfold zlen in *; lia).
  rewrite !zrange_app, !map_app, !concat_app in Hall.
  replace (0 + Z.of_nat (Z.to_nat first)) with first in Hall by lia.
  rewrite (concat_map_nil (g 0 parts s e) (zrange 0 (Z.to_nat first))) in Hall.
  2:{ intros c Hc. apply zrange_ge in Hc. unfold g. apply cslice_empty_lo.
      pose proof (bnd_len 0 parts c ltac:(lia)) as Hlen.
      pose proof (ssr_below B s (c + 1)) as Hb.
      change (nthZ B (c + 1)) with (bnd 0 parts (c + 1)) in Hb. lia. }
  rewrite (concat_map_nil (g 0 parts s e) (zrange _ (Z.to_nat (zlen parts - (lst + 1))))) in Hall.
  2:{ intros c Hc. apply zrange_ge in Hc. unfold g. apply cslice_empty_hi.
      pose proof (ssr_above B (e - 1) c Hsorted) as Hb.
      change (nthZ B c) with (bnd 0 parts c) in Hb. lia. }
  rewrite app_nil_r in Hall. cbn [app] in Hall. rewrite Hall, aps_spec.
  unfold cslice. f_equal; lia.
Qed.

(* reader[start:stop:step] on a recording of n > 0 rows, for ANY start and stop: with phylib's reading
   (s, e) of the bounds, the rows s .. e-1 when the part holding row s is not after the part holding
   row e-1 (in particular whenever s < e; also an empty selection inside one part), otherwise
   np.vstack([]) raises ValueError *)
Theorem getitem_slice_total parts start stop step :
  let n := zlen (concat parts) in
  let B := part_bounds (map zlen parts) in
  let s := phy_bound n 0 start in let e := phy_bound n n stop in
  0 < n ->
  getitem_rows_e parts (ISlice start stop step) =
  if negb (or_default step 1 =? 1) then Err EAssert
  else if find_chunk B s <=? find_chunk B (e - 1) then Ok (slice (concat parts) s e)
  else Err EValue.
Proof.
  intros n B s e Hn.
  pose proof (phy_bound_range n 0 start Hn) as Hs0. fold s in Hs0.
  pose proof (phy_bound_range n n stop Hn) as He0. fold e in He0.
  destruct (negb (or_default step 1 =? 1)) eqn:Estep.
  { unfold getitem_rows_e. cbn [get_subitems_e]. unfold get_subitems_slice_e.
    rewrite py_first_bounds, py_last_bounds. fold n. rewrite !wrap_neg_phy by assumption.
    rewrite Estep. reflexivity. }
  destruct (find_chunk B s <=? find_chunk B (e - 1)) eqn:Efl.
  - (* the parts are in order: rows *)
    apply getitem_rows_e_Ok.
    assert (Hs1 : s < n).
    { destruct (Z.eq_dec s n) as [Heq|]; [|lia]. exfalso.
      pose proof (find_chunk_high parts s ltac:(fold n; lia)) as H1. fold B in H1.
      pose proof (find_chunk_lt parts (e - 1) ltac:(fold n; lia)) as H2. fold B in H2. lia. }
    assert (He1 : 0 < e).
    { destruct (Z.eq_dec e 0) as [Heq|]; [|lia]. exfalso.
      pose proof (find_chunk_neg parts (e - 1) ltac:(lia)) as H1. fold B in H1.
      pose proof (find_chunk_nonneg parts s ltac:(lia)) as H2. fold B in H2. lia. }
    unfold getitem_rows. cbn [get_subitems]. unfold get_subitems_slice.
    rewrite py_first_bounds, py_last_bounds. fold n. rewrite !wrap_neg_phy by assumption.
    change (Z.min (if or_default start 0 <? 0 then or_default start 0 mod n else or_default start 0) n) with s.
    change (Z.min (if or_default stop n <? 0 then or_default stop n mod n else or_default stop n) n) with e.
    rewrite Estep.
    replace (negb ((0 <=? s) && (s <=? n))) with false by (symmetry; apply negb_false_iff; lia).
    replace (negb ((0 <=? e) && (e <=? n))) with false by (symmetry; apply negb_false_iff; lia).
    fold B. apply (slice_core parts s e); fold n; fold B; lia.
  - (* no part between the first and the last: np.vstack([]) *)
    unfold getitem_rows_e. cbn [get_subitems_e]. unfold get_subitems_slice_e.
    rewrite py_first_bounds, py_last_bounds. fold n. rewrite !wrap_neg_phy by assumption.
    change (Z.min (if or_default start 0 <? 0 then or_default start 0 mod n else or_default start 0) n) with s.
    change (Z.min (if or_default stop n <? 0 then or_default stop n mod n else or_default stop n) n) with e.
    rewrite Estep.
    replace (negb ((0 <=? s) && (s <=? n))) with false by (symmetry; apply negb_false_iff; lia).
    replace (negb ((0 <=? e) && (e <=? n))) with false by (symmetry; apply negb_false_iff; lia).
    fold B. replace (Z.to_nat (find_chunk B (e - 1) + 1 - find_chunk B s)) with 0%nat by lia.
    reflexivity.
Qed.

(* phylib's reading of the bounds is NumPy's on the statement's range (stop = 0 excepted) *)
Lemma phy_bound_start n start : 0 < n -> bound_ok n start -> phy_bound n 0 start = np_bound n 0 start.
Proof.
  intros Hn Hb. pose proof (norm_start n start Hn Hb) as H. rewrite wrap_neg_phy in H by assumption.
  cbn [option_map] in H. injection H as H. exact H.
Qed.

Lemma phy_bound_stop n stop : 0 < n -> bound_ok n stop -> 0 < np_bound n n stop ->
  phy_bound n n stop = np_bound n n stop.
Proof.
  intros Hn Hb Hp. pose proof (norm_stop n stop Hn Hb Hp) as H. rewrite wrap_neg_phy in H by assumption.
  cbn [option_map] in H. injection H as H. exact H.
Qed.

(* `x or default`: 0 is read as None, for start, stop and step alike *)
Lemma slice_zero_is_none parts start stop step :
  getitem_rows_e parts (ISlice (Some 0) stop step) = getitem_rows_e parts (ISlice None stop step) /\
  getitem_rows_e parts (ISlice start (Some 0) step) = getitem_rows_e parts (ISlice start None step) /\
  getitem_rows_e parts (ISlice start stop (Some 0)) = getitem_rows_e parts (ISlice start stop None).
Proof. repeat split; reflexivity. Qed.
End SliceTotal.

(* ---------- the list branch: its error exits ---------- *)
Lemma insu_min m l : (forall c, In c l -> m <= c) -> exists t, insu m l = m :: t.
Proof.
  destruct l as [|y r]; intros H; cbn [insu]; [now exists []|].
  destruct (m <? y) eqn:E1; [now exists (y :: r)|].
  destruct (m =? y) eqn:E2; [exists r; f_equal; lia|].
  specialize (H y (or_introl eq_refl)). lia.
Qed.

Lemma unique_head_min m l : (forall c, In c l -> m <= c) -> In m l -> exists t, unique l = m :: t.
Proof.
  induction l as [|x r IH]; intros Hall Hin; [destruct Hin|].
  cbn [unique fold_right]. fold (unique r).
  assert (Hr : forall c, In c r -> m <= c) by (intros c Hc; apply Hall; now right).
  destruct (Z.eq_dec x m) as [->|Hne].
  - apply insu_min. intros c Hc. apply (proj1 (unique_in r c)) in Hc. exact (Hr c Hc).
  - destruct Hin as [E|Hin]; [congruence|]. destruct (IH Hr Hin) as (t & Et). rewrite Et.
    cbn [insu]. specialize (Hall x (or_introl eq_refl)).
    replace (x <? m) with false by lia. replace (x =? m) with false by lia. now exists (insu x t).
Qed.

Lemma diff_repeat a x b : forallb (fun d => negb (d =? 0)) (diff (a ++ x :: x :: b)) = false.
Proof.
  induction a as [|y a IH]; cbn [app].
  - change (diff (x :: x :: b)) with ((x - x) :: diff (x :: b)). cbn [forallb]. rewrite Z.sub_diag. reflexivity.
  - destruct a as [|z a']; cbn [app] in *.
    + change (diff (y :: x :: x :: b)) with ((x - y) :: diff (x :: x :: b)). cbn [forallb].
      rewrite IH. apply andb_false_r.
    + change (diff (y :: z :: a' ++ x :: x :: b)) with ((z - y) :: diff (z :: a' ++ x :: x :: b)). cbn [forallb].
      rewrite IH. apply andb_false_r.
Qed.

Section ListExits.
Context {A : Type}.
Notation row := (list A).
Implicit Types (parts : list (list row)).

Lemma list_loop_e_high parts l cs : (forall c, In c cs -> 0 <= c <= zlen parts) -> In (zlen parts) cs ->
  list_loop_e (part_bounds (map zlen parts)) l cs = Err EIndex.
Proof.
  induction cs as [|c r IH]; intros Hall Hin; [destruct Hin|]. cbn [list_loop_e]. rewrite bounds_length.
  destruct (Z.eq_dec c (zlen parts)) as [->|Hne].
  - replace (zlen parts + 1 - 1 <=? zlen parts) with true by lia. reflexivity.
  - pose proof (Hall c (or_introl eq_refl)) as Hc.
    replace (zlen parts + 1 - 1 <=? c) with false by lia.
    rewrite py_pair_bnd by lia.
    rewrite IH; [reflexivity| |].
    + intros c' Hc'. apply Hall. now right.
    + destruct Hin as [E|Hin]; [congruence|assumption].
Qed.

(* an increasing list with an entry >= n: IndexError (raised by _get_subitems, before any read) *)
Theorem getitem_list_high parts l :
  increasing (-1) l -> Exists (fun x => zlen (concat parts) <= x) l ->
  getitem_rows_e parts (IList l) = Err EIndex.
Proof.
  intros Hinc Hex. apply Exists_exists in Hex as (x0 & Hx0 & Hge).
  unfold getitem_rows_e. cbn [get_subitems_e]. unfold get_subitems_list_e.
  rewrite (diff_nonzero _ _ Hinc). cbn [negb]. rewrite andb_false_r.
  rewrite list_loop_e_high; [reflexivity| |].
  - intros c Hc. apply unique_in, in_map_iff in Hc as (x & <- & Hx).
    pose proof (increasing_all _ _ Hinc x Hx) as Hpos.
    pose proof (find_chunk_nonneg parts x ltac:(lia)).
    unfold find_chunk in *. pose proof (ssr_range (part_bounds (map zlen parts)) x) as Hr.
    rewrite bounds_length in Hr. lia.
  - apply unique_in, in_map_iff. exists x0. split; [|assumption]. now apply find_chunk_high.
Qed.

(* a negative entry: chunk -1 comes first in np.unique and `i0, i1 = bounds[-1:1]` cannot be unpacked *)
Theorem getitem_list_neg parts lo l :
  increasing lo l -> Exists (fun x => x < 0) l ->
  getitem_rows_e parts (IList l) = Err EValue.
Proof.
  intros Hinc Hex. apply Exists_exists in Hex as (x0 & Hx0 & Hneg).
  unfold getitem_rows_e. cbn [get_subitems_e]. unfold get_subitems_list_e.
  rewrite (diff_nonzero _ _ Hinc). cbn [negb]. rewrite andb_false_r.
  destruct (unique_head_min (-1) (map (find_chunk (part_bounds (map zlen parts))) l)) as (t & Et).
  - intros c Hc. apply in_map_iff in Hc as (x & <- & _). unfold find_chunk.
    pose proof (ssr_nonneg (part_bounds (map zlen parts)) x). lia.
  - apply in_map_iff. exists x0. split; [|assumption]. now apply find_chunk_neg.
  - rewrite Et. cbn [list_loop_e]. rewrite bounds_length. pose proof (zlen_nonneg parts).
    replace (zlen parts + 1 - 1 <=? -1) with false by lia. reflexivity.
Qed.

(* reader[[]]: no chunk, np.vstack([]) *)
Theorem getitem_list_empty parts : getitem_rows_e parts (IList []) = Err EValue.
Proof. reflexivity. Qed.

(* two equal neighbours: assert np.all(np.diff(item)) *)
Theorem getitem_list_repeat parts a x b : getitem_rows_e parts (IList (a ++ x :: x :: b)) = Err EAssert.
Proof.
  unfold getitem_rows_e. cbn [get_subitems_e]. unfold get_subitems_list_e.
  rewrite diff_repeat. cbn [negb]. rewrite andb_true_r.
  replace (2 <=? zlen (a ++ x :: x :: b)) with true; [reflexivity|].
  rewrite zlen_app, !zlen_cons. pose proof (zlen_nonneg a). pose proof (zlen_nonneg b). lia.
Qed.

(* ---------- on the statement's regime: no exception from the rows, and the multi-file reader is the
   single-file reader of the concatenation, exception class of a bad column selector included ---------- *)
Lemma getitem_rows_regime parts it : valid_item (zlen (concat parts)) it ->
  exists rows, np_index (concat parts) it = Some rows /\ getitem_rows_e parts it = Ok rows.
Proof.
  intros Hv. pose proof (getitem_rows_np parts it Hv) as Hnp.
  assert (Hs : exists rows, getitem_rows parts it = Some rows).
  { pose proof (valid_item_pos _ _ (zlen_nonneg (concat parts)) Hv) as Hn.
    destruct it as [i|start stop step|l].
    - destruct (getitem_int_decl parts i Hv) as (r & _ & E). now exists [r].
    - eexists. now apply getitem_slice_correct.
    - destruct (getitem_list_decl parts l Hv) as (rows & E & _). now exists rows. }
  destruct Hs as (rows & E). exists rows. split; [now rewrite <- Hnp|now apply getitem_rows_e_Ok].
Qed.

Theorem getitem_e_single parts it cols : valid_item (zlen (concat parts)) it ->
  getitem_e parts it cols = getitem_e [concat parts] it cols.
Proof.
  intros Hv. destruct (getitem_rows_regime parts it Hv) as (rows & Enp & E1).
  assert (Hc : concat [concat parts] = concat parts) by (cbn [concat]; apply app_nil_r).
  destruct (getitem_rows_regime [concat parts] it ltac:(rewrite Hc; exact Hv)) as (rows' & Enp' & E2).
  rewrite Hc, Enp in Enp'. injection Enp' as <-.
  unfold getitem_e. rewrite E1, E2. reflexivity.
Qed.
End ListExits.

(* the two cases of getitem_slice_total spelled out: a non-empty selection (phylib's reading s < e) is
   always answered; an empty one (e <= s) is a block of 0 rows exactly when rows e-1 and s lie in the
   same file, otherwise ValueError *)
Section SliceCases.
Context {A : Type}.
Implicit Types (parts : list (list (list A))).

Theorem getitem_slice_cases parts start stop step :
  let n := zlen (concat parts) in
  let B := part_bounds (map zlen parts) in
  let s := phy_bound n 0 start in let e := phy_bound n n stop in
  0 < n -> or_default step 1 = 1 ->
  (s < e -> getitem_rows_e parts (ISlice start stop step) = Ok (slice (concat parts) s e)) /\
  (e <= s -> getitem_rows_e parts (ISlice start stop step) =
             if find_chunk B s =? find_chunk B (e - 1) then Ok [] else Err EValue).
Proof.
  intros n B s e Hn Hstep. pose proof (getitem_slice_total parts start stop step Hn) as H. cbv zeta in H.
  fold n B s e in H. rewrite Hstep in H. cbn [Z.eqb Pos.eqb negb] in H. split; intros Hse; rewrite H.
  - replace (find_chunk B s <=? find_chunk B (e - 1)) with true; [reflexivity|].
    symmetry. apply Z.leb_le. unfold find_chunk. pose proof (ssr_mono B s (e - 1) ltac:(lia)). lia.
  - assert (Hge : find_chunk B (e - 1) <= find_chunk B s).
    { unfold find_chunk. pose proof (ssr_mono B (e - 1) s ltac:(lia)). lia. }
    rewrite slice_empty by lia.
    destruct (find_chunk B s =? find_chunk B (e - 1)) eqn:E.
    + replace (find_chunk B s <=? find_chunk B (e - 1)) with true by lia. reflexivity.
    + replace (find_chunk B s <=? find_chunk B (e - 1)) with false by lia. reflexivity.
Qed.
End SliceCases.

(* bounds beyond the end (asked for by C03: _extract_waveform reads traces[max(0, t0):t1] with t1 > n): NumPy
   clips them to n, and so does phylib's min(., n).  Only the lower limit -n of the statement's range is kept. *)
Definition bound_lo (n : Z) (x : option Z) : Prop := match x with None => True | Some v => - n <= v end.

Lemma phy_np_bound_lo n d x : 0 < n -> bound_lo n x -> (d = 0 \/ (d = n /\ x <> Some 0)) ->
  phy_bound n d x = np_bound n d x.
Proof.
  intros Hn Hb Hd. destruct x as [v|]; [|unfold phy_bound, np_bound, or_default; destruct Hd as [->|[-> _]];
    [replace (0 <? 0) with false by lia|replace (n <? 0) with false by lia]; lia].
  cbn [bound_lo] in Hb. destruct (Z_le_gt_dec v n) as [Hle|Hgt].
  - destruct Hd as [->|[-> Hne]].
    + apply phy_bound_start; [assumption|cbn [bound_ok]; lia].
    + destruct (Z.eq_dec v 0) as [->|Hv0]; [congruence|].
      destruct (Z.eq_dec v (- n)) as [->|Hvn].
      * unfold phy_bound, np_bound, or_default. replace (- n =? 0) with false by lia.
        replace (- n <? 0) with true by lia. replace (- n + n) with 0 by lia.
        replace (- n mod n) with 0; [lia|]. symmetry. apply Z.mod_opp_l_z; [lia|]. apply Z.mod_same; lia.
      * apply phy_bound_stop; [assumption|cbn [bound_ok]; lia|]. unfold np_bound.
        destruct (v <? 0) eqn:E; lia.
  - unfold phy_bound, np_bound, or_default. replace (v =? 0) with false by lia.
    replace (v <? 0) with false by lia. reflexivity.
Qed.

Section SliceClipped.
Context {A : Type}.
Implicit Types (parts : list (list (list A))).

(* C01_slice without the upper limit on the bounds: start, stop in {None} u [-n, +oo), unit step, NumPy
   selection non-empty *)
Theorem getitem_slice_clipped parts start stop step :
  let n := zlen (concat parts) in
  0 < n -> unit_step step -> bound_lo n start -> bound_lo n stop ->
  np_bound n 0 start < np_bound n n stop ->
  getitem_rows parts (ISlice start stop step) =
  Some (slice (concat parts) (np_bound n 0 start) (np_bound n n stop)).
Proof.
  intros n Hn Hstep Hbs Hbe Hse.
  assert (Hst : or_default step 1 = 1) by (destruct Hstep as [->| ->]; reflexivity).
  assert (Hne : stop <> Some 0).
  { intros ->. unfold np_bound in Hse at 2. cbn in Hse.
    pose proof (np_bound_range n 0 start ltac:(lia) ltac:(lia)). lia. }
  destruct (getitem_slice_cases parts start stop step Hn Hst) as (H & _). fold n in H.
  rewrite (phy_np_bound_lo n 0 start Hn Hbs (or_introl eq_refl)) in H.
  rewrite (phy_np_bound_lo n n stop Hn Hbe (or_intror (conj eq_refl Hne))) in H.
  specialize (H Hse). rewrite <- erase_getitem_rows, H. reflexivity.
Qed.
End SliceClipped.
