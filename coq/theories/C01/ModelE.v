(* C01/ModelE.v -- extensions of the executable model (stage 3).  No proofs here.

   1. WHICH exception: Model.v returns None wherever Python/NumPy raises.  Here the same functions
      are written once more with the exception class that is raised FIRST (IndexError, ValueError,
      AssertionError, ZeroDivisionError), in the order of evaluation of phylib/io/traces.py.
      Proofs5.v proves that forgetting the class gives Model.v back ([erase (getitem_e ..) = getitem ..]),
      and characterises the error exits.
   2. dtype: blocks carry a dtype tag; a per-part read keeps the tag of its part, np.vstack promotes
      the tags of the blocks it stacks, the 'cols' op keeps the tag.
   3. duration = n_samples / sample_rate as an exact rational, with n_samples = chunk_bounds[-1]. *)
From Coq Require Import ZArith List Lia Bool QArith Qabs.
From PV Require Import Base.PySlice Base.NpSearch Base.Tok C01.Model C01.Spec.
From PV Require C16.Model.
Import ListNotations.
Open Scope Z_scope.

(* ---------------------------------------------------------------------------------------- *)
(* 1. exceptions                                                                              *)
(* ---------------------------------------------------------------------------------------- *)
Inductive exn := EIndex | EValue | EAssert | EZeroDiv | ENotImpl | EType.

Inductive res (X : Type) := Ok (x : X) | Err (e : exn).
Arguments Ok {X} x.
Arguments Err {X} e.

Definition erase {X} (r : res X) : option X := match r with Ok x => Some x | Err _ => None end.
Definition ebind {X Y} (m : res X) (f : X -> res Y) : res Y :=
  match m with Ok x => f x | Err e => Err e end.
(* a step of Model.v that can fail in one way only *)
Definition of_opt {X} (e : exn) (o : option X) : res X :=
  match o with Some x => Ok x | None => Err e end.

(* left to right, the first error wins (a Python loop / comprehension) *)
Fixpoint mapE {X Y} (f : X -> res Y) (l : list X) : res (list Y) :=
  match l with
  | [] => Ok []
  | x :: r => match f x with
              | Err e => Err e
              | Ok y => match mapE f r with Err e => Err e | Ok ys => Ok (y :: ys) end
              end
  end.

Definition exn_code (e : exn) : Z :=
  match e with EIndex => 1 | EValue => 2 | EAssert => 3 | EZeroDiv => 4 | ENotImpl => 5 | EType => 6 end.

(* one array.  a[i] out of range: IndexError; slice step 0: ValueError; a fancy index out of range:
   IndexError *)
Definition row_indices_e (n : Z) (it : item) : res (list Z) :=
  match it with
  | IInt _ | IList _ => of_opt EIndex (row_indices n it)
  | ISlice _ _ _ => of_opt EValue (row_indices n it)
  end.

Definition col_indices_e (c : Z) (cs : colsel) : res (list Z) :=
  match cs with
  | CSlice _ _ _ => of_opt EValue (col_indices c cs)
  | CList _ => of_opt EIndex (col_indices c cs)
  end.

Definition np_index_e {X} (M : list X) (it : item) : res (list X) :=
  ebind (row_indices_e (zlen M) it) (fun idx => of_opt EIndex (gather M idx)).

Definition sel_row_e {A} (cs : colsel) (row : list A) : res (list A) :=
  ebind (col_indices_e (zlen row) cs) (fun idx => of_opt EIndex (gather row idx)).
Definition select_cols_e {A} (cs : colsel) (rows : list (list A)) : res (list (list A)) :=
  mapE (sel_row_e cs) rows.

(* _get_subitems, slice branch *)
Fixpoint slice_loop_e (bounds : list Z) (start stop : Z) (cs : list Z) : res (list subitem) :=
  match cs with
  | [] => Ok []
  | c :: r =>
      match py_pair bounds c with
      | None => Err EValue                                    (* i0, i1 = ...: not enough values to unpack *)
      | Some bp =>
          let i0 := b_lo bp in let i1 := b_hi bp in
          let cstart := Z.max 0 (start - i0) in
          let cstop := Z.min (i1 - i0) (stop - i0) in
          if negb ((0 <=? cstart) && (cstop <=? i1)) then Err EAssert else
          match slice_loop_e bounds start stop r with
          | Err e => Err e
          | Ok out => Ok (mksub c (ISlice (Some cstart) (Some cstop) (Some 1)) :: out)
          end
      end
  end.

Definition get_subitems_slice_e (bounds : list Z) (start stop step : option Z) : res (list subitem) :=
  match py_first bounds, py_last bounds with
  | Some b0, Some bl =>
      let start := or_default start b0 in
      let stop := or_default stop bl in
      match wrap_neg start bl with None => Err EZeroDiv | Some start =>
      let start := Z.min start bl in
      match wrap_neg stop bl with None => Err EZeroDiv | Some stop =>
      let stop := Z.min stop bl in
      let step := or_default step 1 in
      if negb (step =? 1) then Err EAssert else
      if negb ((0 <=? start) && (start <=? bl)) then Err EAssert else
      if negb ((0 <=? stop) && (stop <=? bl)) then Err EAssert else
      let first := find_chunk bounds start in
      let lastc := find_chunk bounds (stop - 1) in
      slice_loop_e bounds start stop (zrange first (Z.to_nat (lastc + 1 - first)))
      end end
  | _, _ => Err EIndex                                       (* bounds[0] of an empty list *)
  end.

(* list branch *)
Fixpoint list_loop_e (bounds l : list Z) (cs : list Z) : res (list subitem) :=
  match cs with
  | [] => Ok []
  | c :: r =>
      if zlen bounds - 1 <=? c then Err EIndex else           (* raise IndexError() *)
      match py_pair bounds c with
      | None => Err EValue                                    (* unpacking fails (chunk -1: a negative index) *)
      | Some bp =>
          let i0 := b_lo bp in let i1 := b_hi bp in
          let sub := map (fun x => x - i0) (filter (fun x => (i0 <=? x) && (x <? i1)) l) in
          match list_loop_e bounds l r with
          | Err e => Err e
          | Ok out => Ok (mksub c (IList sub) :: out)
          end
      end
  end.

Definition get_subitems_list_e (bounds l : list Z) : res (list subitem) :=
  if (2 <=? zlen l) && negb (forallb (fun d => negb (d =? 0)) (diff l)) then Err EAssert
  else list_loop_e bounds l (unique (map (find_chunk bounds) l)).

(* int branch *)
Definition get_subitems_int_e (bounds : list Z) (i : Z) : res (list subitem) :=
  match py_last bounds with
  | None => Err EIndex
  | Some bl =>
      match wrap_neg i bl with
      | None => Err EZeroDiv                                  (* item % bounds[-1] with an empty recording *)
      | Some i =>
          let c := find_chunk bounds i in
          if zlen bounds - 1 <=? c then Err EIndex else       (* raise IndexError() *)
          match py_get bounds c with
          | None => Err EIndex
          | Some bc => Ok [mksub c (IInt (i - bc))]
          end
      end
  end.

Definition get_subitems_e (bounds : list Z) (it : item) : res (list subitem) :=
  match it with
  | ISlice start stop step => get_subitems_slice_e bounds start stop step
  | IList l => get_subitems_list_e bounds l
  | IInt i => get_subitems_int_e bounds i
  end.

Section ReaderE.
Context {A : Type}.
Notation row := (list A).

Definition get_part_e (parts : list (list row)) (s : subitem) : res (list row) :=
  ebind (ebind (of_opt EIndex (py_norm (zlen parts) (sub_part s))) (fun i => of_opt EIndex (pick parts i)))
        (fun p => np_index_e p (sub_item s)).

(* every sub-item is computed before the first part is read; the parts are read in order; np.vstack
   of no block is a ValueError *)
Definition getitem_rows_e (parts : list (list row)) (it : item) : res (list row) :=
  match get_subitems_e (part_bounds (map zlen parts)) it with
  | Err e => Err e
  | Ok subs =>
      match mapE (get_part_e parts) subs with
      | Err e => Err e
      | Ok [] => Err EValue
      | Ok blocks => Ok (concat blocks)
      end
  end.

Definition getitem_e (parts : list (list row)) (it : item) (cols : option colsel) : res (@result A) :=
  match cols with
  | None => ebind (getitem_rows_e parts it) (fun r => Ok (RRows r))
  | Some cs =>
      if is_whole it then Ok (RDerived cs)
      else ebind (ebind (getitem_rows_e parts it) (select_cols_e cs)) (fun r => Ok (RRows r))
  end.
End ReaderE.

(* _memmap_flat + np.memmap: the assert, "cannot mmap an empty file", a negative row count ("negative
   dimensions are not allowed").  (Model.memmap_rows answers Some 0 for an empty file: it is only used
   for files of >= 1 byte.) *)
Definition memmap_rows_e (fsize offset itemsize nch : Z) : res Z :=
  if nch <=? 0 then Err EAssert
  else if fsize <=? 0 then Err EValue
  else let n := (fsize - offset) / (itemsize * nch) in
       if n <? 0 then Err EValue else Ok n.

(* FlatEphysReader.__init__ on files of the given byte sizes (a negative size = the file does not exist):
   assert all(p.exists()); one _memmap_flat per path, in order; then _get_chunk_bounds asserts
   chunk_size > 0 (chunk_size = int(round(600 * sample_rate))); the part bounds.
   Reached through get_ephys_reader(list of paths) ([direct] = false) a missing FIRST path makes the
   function return None (Ok None here), a missing later path becomes Path(None): TypeError. *)
Definition flat_ctor_e (direct : bool) (fsizes : list Z) (offset itemsize nch cs : Z) : res (option (list Z)) :=
  let missing := existsb (fun f => f <? 0) in
  let build :=
    ebind (mapE (fun f => memmap_rows_e f offset itemsize nch) fsizes)
          (fun sizes => if cs <=? 0 then Err EAssert else Ok (Some (part_bounds sizes))) in
  if direct then (if missing fsizes then Err EAssert else build)
  else match fsizes with
       | [] => Err EType                                    (* get_ephys_reader([]): None is unpacked *)
       | f0 :: rest => if f0 <? 0 then Ok None else if missing rest then Err EType else build
       end.

(* two dispatches on the SHAPE of the argument: reader[t] for a tuple t of k index expressions (k = 1: t[0],
   k = 2: rows and columns, anything else NotImplementedError); get_ephys_reader on a list of k .npy paths
   (exactly one, else ValueError) *)
Inductive shape_case := TupleArity (k : Z) | NpyPaths (k : Z).
Definition dispatch_e (s : shape_case) : res unit :=
  match s with
  | TupleArity k => if (k =? 1) || (k =? 2) then Ok tt else Err ENotImpl
  | NpyPaths k => if k =? 1 then Ok tt else Err EValue               (* k >= 1 *)
  end.

(* phylib's reading of the slice bounds (for n > 0): `x or default`, negative values modulo n, then
   min(., n).  Not NumPy's: stop = 0 means "to the end", values below -n wrap around again. *)
Definition phy_bound (n dflt : Z) (x : option Z) : Z :=
  let v := or_default x dflt in Z.min (if v <? 0 then v mod n else v) n.

(* ---------------------------------------------------------------------------------------- *)
(* 2. dtype tags                                                                              *)
(* ---------------------------------------------------------------------------------------- *)
Section Tagged.
Context {D A : Type}.
Variable promote : D -> D -> D.          (* the dtype np.vstack gives to two stacked blocks *)
Notation row := (list A).

Record tblock := mktb { tb_dt : D; tb_rows : list row }.

Inductive tresult :=
| TRows (dt : D) (rows : list row)
| TDerived (cs : colsel).

(* NumPy indexing of one memmap / ndarray keeps its dtype *)
Definition get_part_t (parts : list tblock) (s : subitem) : option tblock :=
  bind (bind (py_norm (zlen parts) (sub_part s)) (pick parts))
       (fun p => option_map (mktb (tb_dt p)) (np_index (tb_rows p) (sub_item s))).

Definition vstack_t (bs : list tblock) : option tblock :=
  match bs with
  | [] => None
  | b :: r => Some (fold_left (fun acc x => mktb (promote (tb_dt acc) (tb_dt x)) (tb_rows acc ++ tb_rows x)) r b)
  end.

Definition getitem_rows_t (parts : list tblock) (it : item) : option tblock :=
  match get_subitems (part_bounds (map (fun p => zlen (tb_rows p)) parts)) it with
  | None => None
  | Some subs => bind (mapM (get_part_t parts) subs) vstack_t
  end.

(* arr[:, cols] keeps the dtype *)
Definition getitem_t (parts : list tblock) (it : item) (cols : option colsel) : option tresult :=
  match cols with
  | None => option_map (fun b => TRows (tb_dt b) (tb_rows b)) (getitem_rows_t parts it)
  | Some cs =>
      if is_whole it then Some (TDerived cs)
      else bind (getitem_rows_t parts it)
                (fun b => option_map (TRows (tb_dt b)) (select_cols cs (tb_rows b)))
  end.

Definition tag_result (d : D) (r : @result A) : tresult :=
  match r with RRows rows => TRows d rows | RDerived cs => TDerived cs end.
End Tagged.

(* number of rows NumPy selects, on the statement's regime *)
Definition sel_count (n : Z) (it : item) : Z :=
  match it with
  | IInt _ => 1
  | ISlice start stop _ => np_bound n n stop - np_bound n 0 start
  | IList l => zlen l
  end.

(* shape[1] of reader[item(, cols)] *)
Definition ncols (c : Z) (cols : option colsel) : option Z :=
  match cols with None => Some c | Some cs => option_map (@zlen Z) (col_indices c cs) end.

(* ---------------------------------------------------------------------------------------- *)
(* 3. duration                                                                                *)
(* ---------------------------------------------------------------------------------------- *)
Open Scope Q_scope.

(* self.chunk_bounds[-1] / float(self.sample_rate), exactly *)
Definition duration (sizes : list Z) (cs : Z) (rate : Q) : option Q :=
  match C16.Model.get_chunk_bounds sizes cs with
  | None => None
  | Some b =>
      match py_last b with
      | None => None
      | Some ns => if Qeq_bool rate 0 then None else Some (inject_Z ns / rate)
      end
  end.

(* the exact value of a finite binary64 number given as m * 2^e *)
Definition tokQ (t : tok) : option Q :=
  match t with
  | TNum m e => Some (if (0 <=? e)%Z then inject_Z (m * 2 ^ e) else Qmake m (Z.to_pos (2 ^ (- e))))
  | _ => None
  end.

(* relative error of one correctly rounded binary64 operation *)
Definition half_ulp : Q := 1 # (2 ^ 53).

(* the observed duration [dur] is within one rounding of n / rate (n, rate and dur exact) *)
Definition duration_spec_b (n : Z) (rate dur : tok) : bool :=
  match tokQ rate, tokQ dur with
  | Some r, Some d =>
      negb (Qle_bool r 0) && Qle_bool (Qabs (d * r - inject_Z n)) (inject_Z n * half_ulp)
  | _, _ => false
  end.
Close Scope Q_scope.
