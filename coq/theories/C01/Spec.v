(* C01/Spec.v -- the property, stated independently of the multi-part algorithm: what NumPy
   returns on the single array obtained by concatenating the parts; the regime of the statement
   (the "Reading" of DESIGN.md §8 C01); boolean checkers used by Corr.v. *)
From Coq Require Import ZArith List Lia Bool.
From PV Require Import Base.PySlice Base.NpSearch C01.Model.
Import ListNotations.
Open Scope Z_scope.

Section Spec.
Context {A : Type}.
Notation row := (list A).

(* np.atleast_2d(M[it]) and then [:, cols]: rows first, then columns *)
Definition np_getitem (M : list row) (it : item) (cols : option colsel) : option (list row) :=
  bind (np_index M it)
       (fun rows => match cols with None => Some rows | Some cs => select_cols cs rows end).
End Spec.

(* ---- the regime of the statement ---- *)
(* NumPy's view of a slice bound on an axis of length n, step 1 *)
Definition np_bound (n dflt : Z) (x : option Z) : Z :=
  match x with None => dflt | Some v => if v <? 0 then Z.max 0 (v + n) else Z.min v n end.

Definition bound_ok (n : Z) (x : option Z) : Prop :=
  match x with None => True | Some v => - n <= v <= n end.
Definition unit_step (step : option Z) : Prop := step = None \/ step = Some 1.

Fixpoint increasing (lo : Z) (l : list Z) : Prop :=
  match l with [] => True | x :: r => lo < x /\ increasing x r end.

(* integers in [-n, n); unit-step slices with bounds in {None} u [-n, n] selecting >= 1 row;
   non-empty strictly increasing lists within [0, n) *)
Definition valid_item (n : Z) (it : item) : Prop :=
  match it with
  | IInt i => - n <= i < n
  | ISlice start stop step =>
      unit_step step /\ bound_ok n start /\ bound_ok n stop /\
      np_bound n 0 start < np_bound n n stop
  | IList l => l <> [] /\ increasing (-1) l /\ Forall (fun x => x < n) l
  end.

Definition bound_ok_b (n : Z) (x : option Z) : bool :=
  match x with None => true | Some v => (- n <=? v) && (v <=? n) end.
Definition unit_step_b (step : option Z) : bool :=
  match step with None => true | Some s => s =? 1 end.
Fixpoint increasing_b (lo : Z) (l : list Z) : bool :=
  match l with [] => true | x :: r => (lo <? x) && increasing_b x r end.
Definition valid_item_b (n : Z) (it : item) : bool :=
  match it with
  | IInt i => (- n <=? i) && (i <? n)
  | ISlice start stop step =>
      unit_step_b step && bound_ok_b n start && bound_ok_b n stop &&
      (np_bound n 0 start <? np_bound n n stop)
  | IList l => negb (zlen l =? 0) && increasing_b (-1) l && forallb (fun x => x <? n) l
  end.

Lemma increasing_b_spec lo l : increasing_b lo l = true <-> increasing lo l.
Proof.
  revert lo; induction l as [|x r IH]; intros lo; cbn [increasing_b increasing]; [tauto|].
  rewrite andb_true_iff, IH. split; intros [H1 H2]; (split; [lia|assumption]).
Qed.

Lemma valid_item_b_spec n it : valid_item_b n it = true <-> valid_item n it.
Proof.
  destruct it as [i|start stop step|l]; cbn [valid_item_b valid_item].
  - rewrite andb_true_iff. lia.
  - rewrite !andb_true_iff.
    assert (Hs : unit_step_b step = true <-> unit_step step).
    { unfold unit_step_b, unit_step. destruct step as [s|].
      - split; [intros H; right; f_equal; lia|intros [H|H]; [discriminate|injection H as ->; reflexivity]].
      - split; [now left|reflexivity]. }
    assert (Hb : forall x, bound_ok_b n x = true <-> bound_ok n x).
    { intros [v|]; cbn [bound_ok_b bound_ok]; [rewrite andb_true_iff; lia|tauto]. }
    rewrite Hs, !Hb, Z.ltb_lt. tauto.
  - assert (Hn : negb (zlen l =? 0) = true <-> l <> []).
    { unfold zlen. destruct l; cbn [length]; split; intros H; try congruence; try discriminate.
      apply negb_true_iff, Z.eqb_neq. lia. }
    assert (Hf : forallb (fun x => x <? n) l = true <-> Forall (fun x => x < n) l).
    { rewrite forallb_forall, Forall_forall. split; intros H x Hx; specialize (H x Hx); lia. }
    rewrite !andb_true_iff, Hn, increasing_b_spec, Hf. tauto.
Qed.

(* ---- the test matrix of the correspondence: entry (r, j) of an n x c recording is r*c + j ---- *)
Definition mk_rows (c r0 : Z) (k : nat) : list (list Z) :=
  map (fun r => map (fun j => r * c + j) (zrange 0 (Z.to_nat c))) (zrange r0 k).

Fixpoint mk_parts (c r0 : Z) (sizes : list Z) : list (list (list Z)) :=
  match sizes with
  | [] => []
  | s :: rest => mk_rows c r0 (Z.to_nat s) :: mk_parts c (r0 + s) rest
  end.

Fixpoint zlist_eqb (a b : list Z) : bool :=
  match a, b with
  | [], [] => true
  | x :: a', y :: b' => (x =? y) && zlist_eqb a' b'
  | _, _ => false
  end.
Fixpoint zmat_eqb (a b : list (list Z)) : bool :=
  match a, b with
  | [], [] => true
  | x :: a', y :: b' => zlist_eqb x y && zmat_eqb a' b'
  | _, _ => false
  end.

Lemma zlist_eqb_eq a b : zlist_eqb a b = true <-> a = b.
Proof.
  revert b; induction a as [|x a IH]; intros [|y b]; cbn [zlist_eqb]; split; try discriminate; try reflexivity.
  - rewrite andb_true_iff, IH. intros [H ->]. f_equal. lia.
  - intros H; injection H as -> ->. rewrite andb_true_iff, IH. split; [lia|reflexivity].
Qed.
Lemma zmat_eqb_eq a b : zmat_eqb a b = true <-> a = b.
Proof.
  revert b; induction a as [|x a IH]; intros [|y b]; cbn [zmat_eqb]; split; try discriminate; try reflexivity.
  - rewrite andb_true_iff, IH, zlist_eqb_eq. intros [-> ->]. reflexivity.
  - intros H; injection H as -> ->. rewrite andb_true_iff, IH, zlist_eqb_eq. split; reflexivity.
Qed.

(* checker: the observed block is what NumPy returns on the concatenated recording *)
Definition getitem_spec_b (sizes : list Z) (c : Z) (it : item) (cols : option colsel)
           (obs : list (list Z)) : bool :=
  match np_getitem (concat (mk_parts c 0 sizes)) it cols with
  | Some rows => zmat_eqb rows obs
  | None => false
  end.

Lemma getitem_spec_b_sound sizes c it cols obs :
  getitem_spec_b sizes c it cols obs = true ->
  np_getitem (concat (mk_parts c 0 sizes)) it cols = Some obs.
Proof.
  unfold getitem_spec_b. destruct (np_getitem _ it cols) as [rows|]; [|discriminate].
  intros H. apply zmat_eqb_eq in H. now subst.
Qed.

(* reader attributes: those of the concatenated array *)
Definition attrs_spec_b (sizes : list Z) (c : Z) (shape0 shape1 nsamples nchannels : Z) : bool :=
  (shape0 =? zsum sizes) && (shape1 =? c) && (nsamples =? zsum sizes) && (nchannels =? c).

(* ---------------------------------------------------------------------------------------- *)
(* declarative reading of the NumPy results (no index arithmetic of the implementation)       *)
(* ---------------------------------------------------------------------------------------- *)
Section Declarative.
Context {X : Type}.

(* M[l] for an index list l with entries in [0, len M): the k-th result is the l[k]-th element *)
Definition Rows_at (M : list X) (l : list Z) (rows : list X) : Prop :=
  Forall2 (fun i r => 0 <= i /\ nth_error M (Z.to_nat i) = Some r) l rows.

(* M[i] for an integer i in [-len M, len M) *)
Definition Row_at (M : list X) (i : Z) (r : X) : Prop :=
  nth_error M (Z.to_nat (if i <? 0 then i + zlen M else i)) = Some r.
End Declarative.

(* arr[:, cols]: every row is indexed by the same column selector *)
Definition Cols_of {A} (cs : colsel) (rows out : list (list A)) : Prop :=
  Forall2 (fun r r' => exists idx, col_indices (zlen r) cs = Some idx /\ Rows_at r idx r') rows out.
