(* C01/Props.v -- the property theorems, and nothing else. *)
From Coq Require Import ZArith List Lia Bool.
From PV Require Import Base.PySlice Base.NpSearch C01.Model C01.Spec C01.Proofs.
Import ListNotations.
Open Scope Z_scope.

Theorem C01_memmap_rows : forall fsize offset isz nch n : Z,
  0 <= n -> 0 < nch -> 0 < isz -> fsize = offset + n * nch * isz ->
  memmap_rows fsize offset isz nch = Some n.
Proof. exact memmap_rows_exact. Qed.
Print Assumptions C01_memmap_rows.
