(* C01/Props.v -- the property theorems, and nothing else.  Each is closed by [exact] of a lemma of
   Proofs*.v and followed by Print Assumptions; non-vacuity Examples at the end.

   Vocabulary (Model.v / Spec.v): a recording is [parts : list (list (list A))] -- a list of files,
   each a list of rows, each row a list of samples of ANY type A; [concat parts] is the single array
   obtained by concatenating the files in order; [getitem parts it cols] is the model of
   BaseEphysReader.__getitem__ (bounds = [0] + cumsum(sizes), _get_subitems, one NumPy read per
   part, np.vstack, then the column selector); [getitem_rows parts it] is the same without columns.
   [valid_item n it] is the regime of the statement: integers in [-n, n); unit-step slices with
   bounds in {None} u [-n, n] that select >= 1 row; non-empty strictly increasing lists in [0, n).
   Parts may be empty (length 0): no theorem needs "every file has >= 1 sample". *)
From Coq Require Import ZArith List Lia Bool QArith Qabs.
From PV Require Import Base.PySlice Base.NpSearch Base.Tok C01.Model C01.Spec C01.ModelE C01.Proofs1 C01.Proofs2
  C01.Proofs3 C01.Proofs4 C01.Proofs C01.Proofs5 C01.Proofs6.
From PV Require C16.Model.
Import ListNotations.
Open Scope Z_scope.

(* reader[start:stop] = rows s .. e-1 of the concatenation, s and e being NumPy's clipped bounds *)
Theorem C01_slice : forall (A : Type) (parts : list (list (list A))) (start stop step : option Z),
  let n := zlen (concat parts) in
  0 < n -> valid_item n (ISlice start stop step) ->
  getitem_rows parts (ISlice start stop step) =
  Some (slice (concat parts) (np_bound n 0 start) (np_bound n n stop)).
Proof. exact (@getitem_slice_correct). Qed.
Print Assumptions C01_slice.

(* reader[i] = the i-th row (negative i counted from the end), returned as a 1 x c block *)
Theorem C01_int : forall (A : Type) (parts : list (list (list A))) (i : Z),
  let n := zlen (concat parts) in
  - n <= i < n ->
  exists r, Row_at (concat parts) i r /\ getitem_rows parts (IInt i) = Some [r].
Proof. exact (@getitem_int_decl). Qed.
Print Assumptions C01_int.

(* reader[l] for a non-empty strictly increasing list/array l: the k-th returned row is row l[k] *)
Theorem C01_list : forall (A : Type) (parts : list (list (list A))) (l : list Z),
  valid_item (zlen (concat parts)) (IList l) ->
  exists rows, getitem_rows parts (IList l) = Some rows /\ Rows_at (concat parts) l rows.
Proof. exact (@getitem_list_decl). Qed.
Print Assumptions C01_list.

(* the three together, against the one-array NumPy primitive used as reference by the
   correspondence: np.atleast_2d(concatenation[item]) *)
Theorem C01_rows_numpy : forall (A : Type) (parts : list (list (list A))) (it : item),
  valid_item (zlen (concat parts)) it ->
  getitem_rows parts it = np_index (concat parts) it.
Proof. exact (@getitem_rows_np). Qed.
Print Assumptions C01_rows_numpy.

(* reader[item, cols] = (concatenation[item])[:, cols] for EVERY column selector (where NumPy
   raises on the columns so does the reader); reader[item] likewise; exactly reader[:, cols] is a
   derived reader (C02's business) *)
Theorem C01_cols : forall (A : Type) (parts : list (list (list A))) (it : item) (cols : option colsel),
  valid_item (zlen (concat parts)) it ->
  getitem parts it cols =
  match cols with
  | Some cs => if is_whole it then Some (RDerived cs)
               else option_map RRows (np_getitem (concat parts) it cols)
  | None => option_map RRows (np_getitem (concat parts) it cols)
  end.
Proof. exact (@getitem_np). Qed.
Print Assumptions C01_cols.

(* what arr[:, cols] is, declaratively: each row indexed by the same column positions *)
Theorem C01_cols_decl : forall (A : Type) (cs : colsel) (rows out : list (list A)),
  select_cols cs rows = Some out <-> Cols_of cs rows out.
Proof. exact (@select_cols_decl). Qed.
Print Assumptions C01_cols_decl.

(* the column selectors named in the statement, on one row: slice, reversed slice, index list *)
Theorem C01_cols_selectors : forall (A : Type) (r : list A),
  (forall start stop step, unit_step step ->
     sel_row (CSlice start stop step) r =
     Some (slice r (np_bound (zlen r) 0 start) (np_bound (zlen r) (zlen r) stop))) /\
  sel_row (CSlice None None (Some (-1))) r = Some (rev r) /\
  (forall l, Forall (fun x => 0 <= x < zlen r) l ->
     exists out, sel_row (CList l) r = Some out /\ Rows_at r l out).
Proof.
  intros A r. split; [exact (sel_row_slice r)|]. split; [exact (sel_row_rev r)|].
  intros l H. rewrite sel_row_list by exact H. destruct (gather_some r l H) as (out & E & _).
  exists out. split; [exact E|]. now apply gather_Rows_at.
Qed.
Print Assumptions C01_cols_selectors.

(* column selection commutes with stacking row blocks (so selecting columns after np.vstack, as
   __getitem__ does, equals selecting them in every part) *)
Theorem C01_cols_vstack : forall (A : Type) (cs : colsel) (blocks : list (list (list A))),
  select_cols cs (concat blocks) = option_map (@concat (list A)) (mapM (select_cols cs) blocks).
Proof. exact (@select_cols_concat). Qed.
Print Assumptions C01_cols_vstack.

(* part_bounds = [0, ..., sum sizes]: one more entry than files, strictly increasing for files of
   >= 1 sample; for a recording, the last bound is the length of the concatenation *)
Theorem C01_bounds : forall sizes : list Z,
  py_first (part_bounds sizes) = Some 0 /\ last (part_bounds sizes) 0 = zsum sizes /\
  zlen (part_bounds sizes) = zlen sizes + 1 /\
  ((forall x, In x sizes -> 1 <= x) -> increasing (-1) (part_bounds sizes)).
Proof. exact part_bounds_spec. Qed.
Print Assumptions C01_bounds.

Theorem C01_bounds_concat : forall (A : Type) (parts : list (list (list A))),
  last (part_bounds (map zlen parts)) 0 = zlen (concat parts).
Proof. intros A parts. exact (bounds_last parts). Qed.
Print Assumptions C01_bounds_concat.

(* n_samples = chunk_bounds[-1] (C16's _get_chunk_bounds) = sum of the part sizes, hence
   shape = (sum sizes, n_channels) *)
Theorem C01_n_samples : forall (sizes : list Z) (cs : Z),
  sizes <> [] -> (forall x, In x sizes -> 0 <= x) -> 1 <= cs ->
  exists b, C16.Model.get_chunk_bounds sizes cs = Some b /\ b <> [] /\ last b 0 = zsum sizes.
Proof. exact n_samples_spec. Qed.
Print Assumptions C01_n_samples.

(* _memmap_flat: the row count of a flat file with any header offset and item size *)
Theorem C01_memmap_rows : forall fsize offset isz nch n : Z,
  0 <= n -> 0 < nch -> 0 < isz -> fsize = offset + n * nch * isz ->
  memmap_rows fsize offset isz nch = Some n.
Proof. exact memmap_rows_exact. Qed.
Print Assumptions C01_memmap_rows.

(* ... also with trailing bytes short of one row; and file by file for a multi-file reader *)
Theorem C01_memmap_rows_trailing : forall fsize offset isz nch n junk : Z,
  0 <= n -> 0 < nch -> 0 < isz -> 0 <= junk < nch * isz -> fsize = offset + n * nch * isz + junk ->
  memmap_rows fsize offset isz nch = Some n.
Proof. exact memmap_rows_floor. Qed.
Print Assumptions C01_memmap_rows_trailing.

Theorem C01_flat_sizes : forall (offset isz nch : Z) (fsizes ns : list Z), 0 < nch -> 0 < isz ->
  Forall2 (fun f n => 0 <= n /\ exists junk, 0 <= junk < nch * isz /\ f = offset + n * nch * isz + junk) fsizes ns ->
  mapM (fun f => memmap_rows f offset isz nch) fsizes = Some ns.
Proof. exact flat_sizes. Qed.
Print Assumptions C01_flat_sizes.

(* the boolean checker run on the implementation's output implies the statement on that input *)
Theorem C01_checker_sound : forall sizes c it cols obs,
  getitem_spec_b sizes c it cols obs = true ->
  np_getitem (concat (mk_parts c 0 sizes)) it cols = Some obs.
Proof. exact getitem_spec_b_sound. Qed.
Print Assumptions C01_checker_sound.

Theorem C01_valid_item_b : forall n it, valid_item_b n it = true <-> valid_item n it.
Proof. exact valid_item_b_spec. Qed.
Print Assumptions C01_valid_item_b.

(* ---- non-vacuity: three files of 1, 3 and 2 samples, 2 channels; entry (r, j) = 2r + j ---- *)
Definition ex_parts : list (list (list Z)) := mk_parts 2 0 [1; 3; 2].

Example C01_ex_parts : ex_parts = [[[0; 1]]; [[2; 3]; [4; 5]; [6; 7]]; [[8; 9]; [10; 11]]].
Proof. vm_compute. reflexivity. Qed.
(* a slice across both file boundaries, negative stop *)
Example C01_ex_slice_valid : valid_item 6 (ISlice (Some 0) (Some (-1)) None) /\ 0 < zlen (concat ex_parts).
Proof. rewrite <- valid_item_b_spec. vm_compute. split; reflexivity. Qed.
Example C01_ex_slice : getitem_rows ex_parts (ISlice (Some 0) (Some (-1)) None) =
  Some [[0; 1]; [2; 3]; [4; 5]; [6; 7]; [8; 9]].
Proof. vm_compute. reflexivity. Qed.
Example C01_ex_subitems : get_subitems (part_bounds [1; 3; 2]) (ISlice (Some 1) (Some 5) None) =
  Some [mksub 1 (ISlice (Some 0) (Some 3) (Some 1)); mksub 2 (ISlice (Some 0) (Some 1) (Some 1))].
Proof. vm_compute. reflexivity. Qed.
Example C01_ex_int : getitem_rows ex_parts (IInt (-2)) = Some [[8; 9]] /\ - 6 <= -2 < 6.
Proof. split; [vm_compute; reflexivity|lia]. Qed.
Example C01_ex_list_valid : valid_item (zlen (concat ex_parts)) (IList [0; 3; 5]).
Proof. rewrite <- valid_item_b_spec. vm_compute. reflexivity. Qed.
Example C01_ex_list : getitem_rows ex_parts (IList [0; 3; 5]) = Some [[0; 1]; [6; 7]; [10; 11]].
Proof. vm_compute. reflexivity. Qed.
(* the formerly failing input of DESIGN §9: array row index + column selector *)
Example C01_ex_cols : getitem ex_parts (IList [0; 3; 5]) (Some (CList [1; 0])) =
  Some (RRows [[1; 0]; [7; 6]; [11; 10]]).
Proof. vm_compute. reflexivity. Qed.
Example C01_ex_cols_rev : getitem ex_parts (ISlice (Some 3) None (Some 1)) (Some (CSlice None None (Some (-1)))) =
  Some (RRows [[7; 6]; [9; 8]; [11; 10]]).
Proof. vm_compute. reflexivity. Qed.
Example C01_ex_derived : getitem ex_parts (ISlice None None None) (Some (CList [1])) = Some (RDerived (CList [1])).
Proof. vm_compute. reflexivity. Qed.
(* outside the regime the model fails like the code: stop = 0 is read as "to the end" by phylib but as
   "empty" by NumPy, an unordered list trips the per-part reads *)
Example C01_ex_stop0 : getitem_rows ex_parts (ISlice (Some 1) (Some 0) None) = Some (skipn 1 (concat ex_parts)) /\
  np_index (concat ex_parts) (ISlice (Some 1) (Some 0) None) = Some [].
Proof. vm_compute. split; reflexivity. Qed.
Example C01_ex_bounds : part_bounds [1; 3; 2] = [0; 1; 4; 6] /\
  C16.Model.get_chunk_bounds [1; 3; 2] 4 = Some [0; 1; 4; 6].
Proof. vm_compute. split; reflexivity. Qed.
Example C01_ex_memmap : memmap_rows (7 + 5 * 3 * 4 + 11) 7 4 3 = Some 5.
Proof. vm_compute. reflexivity. Qed.

(* ======================================================================================== *)
(* Stage 3.  Vocabulary (ModelE.v): [getitem_e] / [getitem_rows_e] are the same model with the CLASS
   of the exception that is raised first ([Err EIndex | EValue | EAssert | EZeroDiv]) instead of
   None; [phy_bound n dflt x] is phylib's reading of a slice bound (`x or dflt`, negative values
   modulo n, min(., n)); [getitem_t] carries a dtype tag through the per-part reads, np.vstack
   (promotion) and the 'cols' op; [duration] is n_samples / sample_rate as a rational.             *)
(* ======================================================================================== *)

(* forgetting which exception is raised gives the model of Model.v back: same results, an
   exception exactly where that model says None -- for EVERY recording, index and column selector *)
Theorem C01_exn_erase : forall (A : Type) (parts : list (list (list A))) (it : item) (cols : option colsel),
  erase (getitem_e parts it cols) = getitem parts it cols.
Proof. exact (@getitem_erase). Qed.
Print Assumptions C01_exn_erase.

(* reader[i] for EVERY integer i and every recording: an empty recording raises ZeroDivisionError
   (i < 0) or IndexError; i >= n raises IndexError (as NumPy); every i < n -- also i < -n, where
   NumPy raises -- returns row (i mod n) as a 1 x c block *)
Theorem C01_int_total : forall (A : Type) (parts : list (list (list A))) (i : Z),
  let n := zlen (concat parts) in
  (n = 0 -> i < 0 -> getitem_rows_e parts (IInt i) = Err EZeroDiv) /\
  (n <= i -> getitem_rows_e parts (IInt i) = Err EIndex) /\
  (i < n -> 0 < n ->
     exists r, nth_error (concat parts) (Z.to_nat (i mod n)) = Some r /\ getitem_rows_e parts (IInt i) = Ok [r]).
Proof. exact (@getitem_int_total). Qed.
Print Assumptions C01_int_total.

(* reader[start:stop:step] for EVERY start, stop, step on a recording of n > 0 rows: a step other than
   None / 0 / 1 trips the assert; otherwise, with phylib's reading (s, e) of the bounds, rows s .. e-1 when
   the file holding row s is not after the file holding row e-1, and ValueError (np.vstack of nothing)
   when it is.  The two range asserts of _get_subitems can never fire. *)
Theorem C01_slice_total : forall (A : Type) (parts : list (list (list A))) (start stop step : option Z),
  let n := zlen (concat parts) in
  let B := part_bounds (map zlen parts) in
  let s := phy_bound n 0 start in let e := phy_bound n n stop in
  0 < n ->
  getitem_rows_e parts (ISlice start stop step) =
  if negb (or_default step 1 =? 1) then Err EAssert
  else if find_chunk B s <=? find_chunk B (e - 1) then Ok (slice (concat parts) s e)
  else Err EValue.
Proof. exact (@getitem_slice_total). Qed.
Print Assumptions C01_slice_total.

(* ... spelled out: a non-empty selection (s < e) is always answered -- C01_slice for bounds of ANY size,
   under phylib's reading of them; an empty one (e <= s) is a block of 0 rows exactly when rows e-1 and s
   are in the same file (notes/C02.md, "Strengthening pass": the probed table), otherwise ValueError *)
Theorem C01_slice_cases : forall (A : Type) (parts : list (list (list A))) (start stop step : option Z),
  let n := zlen (concat parts) in
  let B := part_bounds (map zlen parts) in
  let s := phy_bound n 0 start in let e := phy_bound n n stop in
  0 < n -> or_default step 1 = 1 ->
  (s < e -> getitem_rows_e parts (ISlice start stop step) = Ok (slice (concat parts) s e)) /\
  (e <= s -> getitem_rows_e parts (ISlice start stop step) =
             if find_chunk B s =? find_chunk B (e - 1) then Ok [] else Err EValue).
Proof. exact (@getitem_slice_cases). Qed.
Print Assumptions C01_slice_cases.

(* where phylib's reading of the bounds is NumPy's (the statement's range), and where it is not:
   0 is read as None for start, stop and step alike (so reader[a:0] is reader[a:]) *)
Theorem C01_slice_reading : forall (A : Type) (parts : list (list (list A))) (n : Z) (start stop step : option Z),
  (0 < n -> bound_ok n start -> phy_bound n 0 start = np_bound n 0 start) /\
  (0 < n -> bound_ok n stop -> 0 < np_bound n n stop -> phy_bound n n stop = np_bound n n stop) /\
  getitem_rows_e parts (ISlice (Some 0) stop step) = getitem_rows_e parts (ISlice None stop step) /\
  getitem_rows_e parts (ISlice start (Some 0) step) = getitem_rows_e parts (ISlice start None step) /\
  getitem_rows_e parts (ISlice start stop (Some 0)) = getitem_rows_e parts (ISlice start stop None).
Proof.
  intros A parts n start stop step. split; [exact (phy_bound_start n start)|].
  split; [exact (phy_bound_stop n stop)|]. exact (slice_zero_is_none parts start stop step).
Qed.
Print Assumptions C01_slice_reading.

(* the error exits of the list branch: an increasing list with an entry >= n raises IndexError (from
   _get_subitems, before any read); one with a negative entry ValueError (chunk -1 cannot be unpacked);
   the empty list ValueError (np.vstack of nothing); two equal neighbours AssertionError *)
Theorem C01_list_exits : forall (A : Type) (parts : list (list (list A))),
  (forall l, increasing (-1) l -> Exists (fun x => zlen (concat parts) <= x) l ->
     getitem_rows_e parts (IList l) = Err EIndex) /\
  (forall lo l, increasing lo l -> Exists (fun x => x < 0) l ->
     getitem_rows_e parts (IList l) = Err EValue) /\
  getitem_rows_e parts (IList []) = Err EValue /\
  (forall a x b, getitem_rows_e parts (IList (a ++ x :: x :: b)) = Err EAssert).
Proof.
  intros A parts. split; [exact (getitem_list_high parts)|]. split; [exact (getitem_list_neg parts)|].
  split; [exact (getitem_list_empty parts)|exact (getitem_list_repeat parts)].
Qed.
Print Assumptions C01_list_exits.

(* on the statement's regime the multi-file reader IS the single-file reader of the concatenation, the
   class of the exception a bad column selector raises included *)
Theorem C01_exn_single_file : forall (A : Type) (parts : list (list (list A))) (it : item) (cols : option colsel),
  valid_item (zlen (concat parts)) it ->
  getitem_e parts it cols = getitem_e [concat parts] it cols.
Proof. exact (@getitem_e_single). Qed.
Print Assumptions C01_exn_single_file.

(* for ANY index expression: every row of whatever reader[item] returns is a row of one of the files *)
Theorem C01_rows_origin : forall (A : Type) (parts : list (list (list A))) (it : item) (rows : list (list A)),
  getitem_rows parts it = Some rows -> forall r, In r rows -> In r (concat parts).
Proof. exact (@getitem_rows_origin). Qed.
Print Assumptions C01_rows_origin.

(* shape of reader[item(, cols)] on a recording of c channels: (rows NumPy selects, c), resp. the number
   of selected columns *)
Theorem C01_shape : forall (A : Type) (parts : list (list (list A))) (c : Z) (it : item) (cols : option colsel)
    (out : list (list A)),
  valid_item (zlen (concat parts)) it -> Forall (fun r => zlen r = c) (concat parts) ->
  getitem parts it cols = Some (RRows out) ->
  exists w, ncols c cols = Some w /\ zlen out = sel_count (zlen (concat parts)) it /\
            Forall (fun r => zlen r = w) out.
Proof. exact (@getitem_shape). Qed.
Print Assumptions C01_shape.

(* dtype: files all of dtype d, ANY promotion rule with promote d d = d: every block the reader returns
   (per-part reads, np.vstack, 'cols' op) has dtype d, and its rows are those of the untagged model *)
Theorem C01_dtype : forall (D A : Type) (promote : D -> D -> D), (forall d, promote d d = d) ->
  forall (d : D) (parts : list (@tblock D A)) (it : item) (cols : option colsel),
  Forall (fun p => tb_dt p = d) parts ->
  getitem_t promote parts it cols = option_map (tag_result d) (getitem (map tb_rows parts) it cols).
Proof. exact (@getitem_t_same). Qed.
Print Assumptions C01_dtype.

(* duration = chunk_bounds[-1] / sample_rate, exactly: d * rate = total number of rows, and d is the sum
   of the durations of the files *)
Theorem C01_duration : forall (sizes : list Z) (cs : Z) (rate : Q),
  sizes <> [] -> (forall x, In x sizes -> 0 <= x) -> 1 <= cs -> (0 < rate)%Q ->
  exists d, duration sizes cs rate = Some d /\ (d * rate == inject_Z (zsum sizes))%Q /\
            (d == fold_right Qplus 0 (map (fun s => inject_Z s / rate) sizes))%Q.
Proof. exact duration_spec. Qed.
Print Assumptions C01_duration.

(* clause 26 of the comparator: the observed binary64 duration (exact value d) is within one rounding
   (relative 2^-53) of the rational n / rate *)
Theorem C01_duration_checker_sound : forall (n : Z) (rate dur : tok), duration_spec_b n rate dur = true ->
  exists r d, tokQ rate = Some r /\ tokQ dur = Some d /\ (0 < r)%Q /\
              (Qabs (d - inject_Z n / r) <= (inject_Z n / r) * half_ulp)%Q.
Proof. exact duration_spec_b_sound. Qed.
Print Assumptions C01_duration_checker_sound.

(* the checkers decide their specifications (completeness as well as soundness) *)
Theorem C01_checker_iff : forall sizes c it cols obs,
  getitem_spec_b sizes c it cols obs = true <-> np_getitem (concat (mk_parts c 0 sizes)) it cols = Some obs.
Proof. exact getitem_spec_b_iff. Qed.
Print Assumptions C01_checker_iff.

Theorem C01_attrs_checker_iff : forall sizes c s0 s1 ns nc,
  attrs_spec_b sizes c s0 s1 ns nc = true <-> s0 = zsum sizes /\ s1 = c /\ ns = zsum sizes /\ nc = c.
Proof. exact attrs_spec_b_iff. Qed.
Print Assumptions C01_attrs_checker_iff.

(* ---- non-vacuity (the same three files of 1, 3 and 2 samples, 2 channels) ---- *)
(* integers outside [-n, n): 6 raises IndexError, -7 is row 5; an empty recording *)
Example C01_ex_int_total : getitem_rows_e ex_parts (IInt 6) = Err EIndex /\
  getitem_rows_e ex_parts (IInt (-7)) = Ok [[10; 11]] /\ (-7) mod 6 = 5 /\
  getitem_rows_e (@nil (list (list Z))) (IInt (-1)) = Err EZeroDiv /\ getitem_rows_e [@nil (list Z)] (IInt 0) = Err EIndex.
Proof. vm_compute. repeat split; reflexivity. Qed.
(* slices: [2:2] and [3:2] inside the middle file are 0 rows; [1:1], [4:4] (file boundaries), [4:1], [6:],
   [:-6] raise ValueError; [-7:] is the last row (NumPy: all rows); a step of 2 trips the assert *)
Example C01_ex_slice_total :
  getitem_rows_e ex_parts (ISlice (Some 2) (Some 2) None) = Ok [] /\
  getitem_rows_e ex_parts (ISlice (Some 3) (Some 2) None) = Ok [] /\
  getitem_rows_e ex_parts (ISlice (Some 1) (Some 1) None) = Err EValue /\
  getitem_rows_e ex_parts (ISlice (Some 4) (Some 4) None) = Err EValue /\
  getitem_rows_e ex_parts (ISlice (Some 4) (Some 1) None) = Err EValue /\
  getitem_rows_e ex_parts (ISlice (Some 6) None None) = Err EValue /\
  getitem_rows_e ex_parts (ISlice None (Some (-6)) None) = Err EValue /\
  getitem_rows_e ex_parts (ISlice (Some (-7)) None None) = Ok [[10; 11]] /\
  getitem_rows_e ex_parts (ISlice None None (Some 2)) = Err EAssert /\
  phy_bound 6 0 (Some (-7)) = 5 /\ phy_bound 6 6 (Some 0) = 6 /\
  find_chunk (part_bounds [1; 3; 2]) 2 = 1 /\ find_chunk (part_bounds [1; 3; 2]) 1 = 1 /\ find_chunk (part_bounds [1; 3; 2]) 0 = 0.
Proof. vm_compute. repeat split; reflexivity. Qed.
(* lists: [0; 6] IndexError, [-1] ValueError, [1; 1] AssertionError; an unordered list is grouped by file *)
Example C01_ex_list_exits :
  getitem_rows_e ex_parts (IList [0; 6]) = Err EIndex /\ getitem_rows_e ex_parts (IList [-1]) = Err EValue /\
  getitem_rows_e ex_parts (IList [1; 1]) = Err EAssert /\ getitem_rows_e ex_parts (IList []) = Err EValue /\
  getitem_rows_e ex_parts (IList [4; 1]) = Ok [[2; 3]; [8; 9]].
Proof. vm_compute. repeat split; reflexivity. Qed.
(* a column index out of range raises IndexError, a column step 0 ValueError -- as on one file *)
Example C01_ex_exn_cols :
  getitem_e ex_parts (IInt 0) (Some (CList [5])) = Err EIndex /\
  getitem_e [concat ex_parts] (IInt 0) (Some (CList [5])) = Err EIndex /\
  getitem_e ex_parts (IInt 0) (Some (CSlice None None (Some 0))) = Err EValue.
Proof. vm_compute. repeat split; reflexivity. Qed.
Example C01_ex_shape :
  getitem ex_parts (ISlice (Some 1) (Some 5) None) (Some (CList [1; 0; 1])) =
    Some (RRows [[3; 2; 3]; [5; 4; 5]; [7; 6; 7]; [9; 8; 9]]) /\
  ncols 2 (Some (CList [1; 0; 1])) = Some 3 /\ sel_count 6 (ISlice (Some 1) (Some 5) None) = 4 /\
  Forall (fun r => zlen r = 2) (concat ex_parts).
Proof. split; [vm_compute; reflexivity|]. split; [vm_compute; reflexivity|]. split; [vm_compute; reflexivity|].
  repeat constructor. Qed.
(* dtype tags 1 = int16, 5 = float64 with promotion = max: files all int16 give int16; one float64 file
   makes a block read across it float64 (why the theorem asks for one dtype) *)
Example C01_ex_dtype :
  getitem_t Z.max [mktb 1 [[0; 1]]; mktb 1 [[2; 3]; [4; 5]]] (ISlice None None (Some 1)) (Some (CList [1])) =
    Some (TRows 1 [[1]; [3]; [5]]) /\
  getitem_t Z.max [mktb 1 [[0; 1]]; mktb 5 [[2; 3]; [4; 5]]] (ISlice None None (Some 1)) None =
    Some (TRows 5 [[0; 1]; [2; 3]; [4; 5]]) /\
  getitem_t Z.max [mktb 1 [[0; 1]]; mktb 5 [[2; 3]; [4; 5]]] (IInt 0) None = Some (TRows 1 [[0; 1]]).
Proof. vm_compute. repeat split; reflexivity. Qed.
(* 6 rows at 2.5 Hz: 12/5 s = 2/5 + 6/5 + 4/5; the float 2.4 = 5404319552844595 * 2^-51 passes clause 26 *)
Example C01_ex_duration : duration [1; 3; 2] 1500 (5 # 2) = Some (inject_Z 6 / (5 # 2))%Q /\
  (inject_Z 6 / (5 # 2) == 12 # 5)%Q /\
  duration_spec_b 6 (TNum 5 (-1)) (TNum 5404319552844595 (-51)) = true /\
  duration_spec_b 6 (TNum 5 (-1)) (TNum 5404319552844599 (-51)) = false.
Proof. split; [vm_compute; reflexivity|]. split; [reflexivity|]. split; vm_compute; reflexivity. Qed.

(* C01_slice without the upper limit on the bounds (start, stop in {None} u [-n, +oo)): NumPy clips a bound
   beyond the end to n and so does the reader -- the read C03's _extract_waveform makes for a spike near the
   end of the recording, traces[max(0, t0):t1] with t1 > n_samples *)
Theorem C01_slice_clipped : forall (A : Type) (parts : list (list (list A))) (start stop step : option Z),
  let n := zlen (concat parts) in
  0 < n -> unit_step step -> bound_lo n start -> bound_lo n stop ->
  np_bound n 0 start < np_bound n n stop ->
  getitem_rows parts (ISlice start stop step) =
  Some (slice (concat parts) (np_bound n 0 start) (np_bound n n stop)).
Proof. exact (@getitem_slice_clipped). Qed.
Print Assumptions C01_slice_clipped.

Example C01_ex_slice_clipped : getitem_rows ex_parts (ISlice (Some 4) (Some 9) None) = Some [[8; 9]; [10; 11]] /\
  np_bound 6 6 (Some 9) = 6 /\ bound_lo 6 (Some 9) /\ np_bound 6 0 (Some 4) < np_bound 6 6 (Some 9).
Proof. split; [vm_compute; reflexivity|]. split; [reflexivity|]. split; cbn; lia. Qed.
