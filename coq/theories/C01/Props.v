(* C01/Props.v -- the property theorems, and nothing else.  Each is closed by [exact] of a lemma of
   Proofs*.v and followed by Print Assumptions; non-vacuity Examples at the end.

   Vocabulary (Model.v / Spec.v): a recording is [parts : list (list (list A))] -- a list of files,
   each a list of rows, each row a list of samples of ANY type A; [concat parts] is the single array
   obtained by concatenating the files in order; [getitem parts it cols] is the model of
   BaseEphysReader.__getitem__ (bounds = [0] + cumsum(sizes), _get_subitems, one NumPy read per
   part, np.vstack, then the column selector); [getitem_rows parts it] is the same without columns.
   [valid_item n it] is the regime of the statement: integers in [-n, n); unit-step slices with
   bounds in {None} u [-n, n] that select >= 1 row; non-empty strictly increasing lists in [0, n).
   Parts may be empty (length 0): no theorem needs "every file has >= 1 sample". *)
From Coq Require Import ZArith List Lia Bool.
From PV Require Import Base.PySlice Base.NpSearch C01.Model C01.Spec C01.Proofs1 C01.Proofs2
  C01.Proofs3 C01.Proofs4 C01.Proofs.
From PV Require C16.Model.
Import ListNotations.
Open Scope Z_scope.

(* reader[start:stop] = rows s .. e-1 of the concatenation, s and e being NumPy's clipped bounds *)
Theorem C01_slice : forall (A : Type) (parts : list (list (list A))) (start stop step : option Z),
  let n := zlen (concat parts) in
  0 < n -> valid_item n (ISlice start stop step) ->
  getitem_rows parts (ISlice start stop step) =
  Some (slice (concat parts) (np_bound n 0 start) (np_bound n n stop)).
Proof. exact (@getitem_slice_correct). Qed.
Print Assumptions C01_slice.

(* reader[i] = the i-th row (negative i counted from the end), returned as a 1 x c block *)
Theorem C01_int : forall (A : Type) (parts : list (list (list A))) (i : Z),
  let n := zlen (concat parts) in
  - n <= i < n ->
  exists r, Row_at (concat parts) i r /\ getitem_rows parts (IInt i) = Some [r].
Proof. exact (@getitem_int_decl). Qed.
Print Assumptions C01_int.

(* reader[l] for a non-empty strictly increasing list/array l: the k-th returned row is row l[k] *)
Theorem C01_list : forall (A : Type) (parts : list (list (list A))) (l : list Z),
  valid_item (zlen (concat parts)) (IList l) ->
  exists rows, getitem_rows parts (IList l) = Some rows /\ Rows_at (concat parts) l rows.
Proof. exact (@getitem_list_decl). Qed.
Print Assumptions C01_list.

(* the three together, against the one-array NumPy primitive used as reference by the
   correspondence: np.atleast_2d(concatenation[item]) *)
Theorem C01_rows_numpy : forall (A : Type) (parts : list (list (list A))) (it : item),
  valid_item (zlen (concat parts)) it ->
  getitem_rows parts it = np_index (concat parts) it.
Proof. exact (@getitem_rows_np). Qed.
Print Assumptions C01_rows_numpy.

(* reader[item, cols] = (concatenation[item])[:, cols] for EVERY column selector (where NumPy
   raises on the columns so does the reader); reader[item] likewise; exactly reader[:, cols] is a
   derived reader (C02's business) *)
Theorem C01_cols : forall (A : Type) (parts : list (list (list A))) (it : item) (cols : option colsel),
  valid_item (zlen (concat parts)) it ->
  getitem parts it cols =
  match cols with
  | Some cs => if is_whole it then Some (RDerived cs)
               else option_map RRows (np_getitem (concat parts) it cols)
  | None => option_map RRows (np_getitem (concat parts) it cols)
  end.
Proof. exact (@getitem_np). Qed.
Print Assumptions C01_cols.

(* what arr[:, cols] is, declaratively: each row indexed by the same column positions *)
Theorem C01_cols_decl : forall (A : Type) (cs : colsel) (rows out : list (list A)),
  select_cols cs rows = Some out <-> Cols_of cs rows out.
Proof. exact (@select_cols_decl). Qed.
Print Assumptions C01_cols_decl.

(* the column selectors named in the statement, on one row: slice, reversed slice, index list *)
Theorem C01_cols_selectors : forall (A : Type) (r : list A),
  (forall start stop step, unit_step step ->
     sel_row (CSlice start stop step) r =
     Some (slice r (np_bound (zlen r) 0 start) (np_bound (zlen r) (zlen r) stop))) /\
  sel_row (CSlice None None (Some (-1))) r = Some (rev r) /\
  (forall l, Forall (fun x => 0 <= x < zlen r) l ->
     exists out, sel_row (CList l) r = Some out /\ Rows_at r l out).
Proof.
  intros A r. split; [exact (sel_row_slice r)|]. split; [exact (sel_row_rev r)|].
  intros l H. rewrite sel_row_list by exact H. destruct (gather_some r l H) as (out & E & _).
  exists out. split; [exact E|]. now apply gather_Rows_at.
Qed.
Print Assumptions C01_cols_selectors.

(* column selection commutes with stacking row blocks (so selecting columns after np.vstack, as
   __getitem__ does, equals selecting them in every part) *)
Theorem C01_cols_vstack : forall (A : Type) (cs : colsel) (blocks : list (list (list A))),
  select_cols cs (concat blocks) = option_map (@concat (list A)) (mapM (select_cols cs) blocks).
Proof. exact (@select_cols_concat). Qed.
Print Assumptions C01_cols_vstack.

(* part_bounds = [0, ..., sum sizes]: one more entry than files, strictly increasing for files of
   >= 1 sample; for a recording, the last bound is the length of the concatenation *)
Theorem C01_bounds : forall sizes : list Z,
  py_first (part_bounds sizes) = Some 0 /\ last (part_bounds sizes) 0 = zsum sizes /\
  zlen (part_bounds sizes) = zlen sizes + 1 /\
  ((forall x, In x sizes -> 1 <= x) -> increasing (-1) (part_bounds sizes)).
Proof. exact part_bounds_spec. Qed.
Print Assumptions C01_bounds.

Theorem C01_bounds_concat : forall (A : Type) (parts : list (list (list A))),
  last (part_bounds (map zlen parts)) 0 = zlen (concat parts).
Proof. intros A parts. exact (bounds_last parts). Qed.
Print Assumptions C01_bounds_concat.

(* n_samples = chunk_bounds[-1] (C16's _get_chunk_bounds) = sum of the part sizes, hence
   shape = (sum sizes, n_channels) *)
Theorem C01_n_samples : forall (sizes : list Z) (cs : Z),
  sizes <> [] -> (forall x, In x sizes -> 0 <= x) -> 1 <= cs ->
  exists b, C16.Model.get_chunk_bounds sizes cs = Some b /\ b <> [] /\ last b 0 = zsum sizes.
Proof. exact n_samples_spec. Qed.
Print Assumptions C01_n_samples.

(* _memmap_flat: the row count of a flat file with any header offset and item size *)
Theorem C01_memmap_rows : forall fsize offset isz nch n : Z,
  0 <= n -> 0 < nch -> 0 < isz -> fsize = offset + n * nch * isz ->
  memmap_rows fsize offset isz nch = Some n.
Proof. exact memmap_rows_exact. Qed.
Print Assumptions C01_memmap_rows.

(* ... also with trailing bytes short of one row; and file by file for a multi-file reader *)
Theorem C01_memmap_rows_trailing : forall fsize offset isz nch n junk : Z,
  0 <= n -> 0 < nch -> 0 < isz -> 0 <= junk < nch * isz -> fsize = offset + n * nch * isz + junk ->
  memmap_rows fsize offset isz nch = Some n.
Proof. exact memmap_rows_floor. Qed.
Print Assumptions C01_memmap_rows_trailing.

Theorem C01_flat_sizes : forall (offset isz nch : Z) (fsizes ns : list Z), 0 < nch -> 0 < isz ->
  Forall2 (fun f n => 0 <= n /\ exists junk, 0 <= junk < nch * isz /\ f = offset + n * nch * isz + junk) fsizes ns ->
  mapM (fun f => memmap_rows f offset isz nch) fsizes = Some ns.
Proof. exact flat_sizes. Qed.
Print Assumptions C01_flat_sizes.

(* the boolean checker run on the implementation's output implies the statement on that input *)
Theorem C01_checker_sound : forall sizes c it cols obs,
  getitem_spec_b sizes c it cols obs = true ->
  np_getitem (concat (mk_parts c 0 sizes)) it cols = Some obs.
Proof. exact getitem_spec_b_sound. Qed.
Print Assumptions C01_checker_sound.

Theorem C01_valid_item_b : forall n it, valid_item_b n it = true <-> valid_item n it.
Proof. exact valid_item_b_spec. Qed.
Print Assumptions C01_valid_item_b.

(* ---- non-vacuity: three files of 1, 3 and 2 samples, 2 channels; entry (r, j) = 2r + j ---- *)
Definition ex_parts : list (list (list Z)) := mk_parts 2 0 [1; 3; 2].

Example C01_ex_parts : ex_parts = [[[0; 1]]; [[2; 3]; [4; 5]; [6; 7]]; [[8; 9]; [10; 11]]].
Proof. vm_compute. reflexivity. Qed.
(* a slice across both file boundaries, negative stop *)
Example C01_ex_slice_valid : valid_item 6 (ISlice (Some 0) (Some (-1)) None) /\ 0 < zlen (concat ex_parts).
Proof. rewrite <- valid_item_b_spec. vm_compute. split; reflexivity. Qed.
Example C01_ex_slice : getitem_rows ex_parts (ISlice (Some 0) (Some (-1)) None) =
  Some [[0; 1]; [2; 3]; [4; 5]; [6; 7]; [8; 9]].
Proof. vm_compute. reflexivity. Qed.
Example C01_ex_subitems : get_subitems (part_bounds [1; 3; 2]) (ISlice (Some 1) (Some 5) None) =
  Some [mksub 1 (ISlice (Some 0) (Some 3) (Some 1)); mksub 2 (ISlice (Some 0) (Some 1) (Some 1))].
Proof. vm_compute. reflexivity. Qed.
Example C01_ex_int : getitem_rows ex_parts (IInt (-2)) = Some [[8; 9]] /\ - 6 <= -2 < 6.
Proof. split; [vm_compute; reflexivity|lia]. Qed.
Example C01_ex_list_valid : valid_item (zlen (concat ex_parts)) (IList [0; 3; 5]).
Proof. rewrite <- valid_item_b_spec. vm_compute. reflexivity. Qed.
Example C01_ex_list : getitem_rows ex_parts (IList [0; 3; 5]) = Some [[0; 1]; [6; 7]; [10; 11]].
Proof. vm_compute. reflexivity. Qed.
(* the formerly failing input of DESIGN §9: array row index + column selector *)
Example C01_ex_cols : getitem ex_parts (IList [0; 3; 5]) (Some (CList [1; 0])) =
  Some (RRows [[1; 0]; [7; 6]; [11; 10]]).
Proof. vm_compute. reflexivity. Qed.
Example C01_ex_cols_rev : getitem ex_parts (ISlice (Some 3) None (Some 1)) (Some (CSlice None None (Some (-1)))) =
  Some (RRows [[7; 6]; [9; 8]; [11; 10]]).
Proof. vm_compute. reflexivity. Qed.
Example C01_ex_derived : getitem ex_parts (ISlice None None None) (Some (CList [1])) = Some (RDerived (CList [1])).
Proof. vm_compute. reflexivity. Qed.
(* outside the regime the model fails like the code: stop = 0 is read as "to the end" by phylib but as
   "empty" by NumPy, an unordered list trips the per-part reads *)
Example C01_ex_stop0 : getitem_rows ex_parts (ISlice (Some 1) (Some 0) None) = Some (skipn 1 (concat ex_parts)) /\
  np_index (concat ex_parts) (ISlice (Some 1) (Some 0) None) = Some [].
Proof. vm_compute. split; reflexivity. Qed.
Example C01_ex_bounds : part_bounds [1; 3; 2] = [0; 1; 4; 6] /\
  C16.Model.get_chunk_bounds [1; 3; 2] 4 = Some [0; 1; 4; 6].
Proof. vm_compute. split; reflexivity. Qed.
Example C01_ex_memmap : memmap_rows (7 + 5 * 3 * 4 + 11) 7 4 3 = Some 5.
Proof. vm_compute. reflexivity. Qed.
