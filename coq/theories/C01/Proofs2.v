(* C01/Proofs2.v -- the part bounds as a function of the part index; look-ups in the bounds list;
   reading one row of the concatenation = reading it from the part that holds it. *)
From Coq Require Import ZArith List Lia Bool.
From PV Require Import Base.PySlice Base.NpSearch C01.Model C01.Spec C01.Proofs1.
Import ListNotations.
Open Scope Z_scope.

Lemma pick_nthZ (l : list Z) i : 0 <= i < zlen l -> pick l i = Some (nthZ l i).
Proof.
  intros H. unfold pick, nthZ, zlen in *. replace (i <? 0) with false by lia.
  apply nth_error_nth'. lia.
Qed.

Section Parts.
Context {X : Type}.
Implicit Types (parts : list (list X)) (p : list X).

Lemma pick_nth parts c : 0 <= c < zlen parts -> pick parts c = Some (nth (Z.to_nat c) parts []).
Proof.
  intros H. unfold pick, zlen in *. replace (c <? 0) with false by lia.
  apply nth_error_nth'. lia.
Qed.

(* bounds as a function of the part index, with a running offset *)
Definition bnd (off : Z) parts (c : Z) : Z := nthZ (off :: cumsum_from off (map zlen parts)) c.

Lemma bnd_bounds parts c : bnd 0 parts c = nthZ (part_bounds (map zlen parts)) c.
Proof. reflexivity. Qed.

Lemma bnd_0 off parts : bnd off parts 0 = off.
Proof. reflexivity. Qed.

Lemma bnd_S off p r c : 0 <= c -> bnd off (p :: r) (c + 1) = bnd (off + zlen p) r c.
Proof.
  intros Hc. unfold bnd, nthZ. cbn [map cumsum_from].
  replace (Z.to_nat (c + 1)) with (S (Z.to_nat c)) by lia. reflexivity.
Qed.

Lemma bnd_len off parts c : 0 <= c < zlen parts ->
  bnd off parts (c + 1) - bnd off parts c = zlen (nth (Z.to_nat c) parts []).
Proof.
  revert off c; induction parts as [|p r IH]; intros off c; unfold zlen at 1; cbn [length]; [lia|].
  intros Hc. destruct (Z.eq_dec c 0) as [->|Hn].
  - rewrite (bnd_S off p r 0) by lia. rewrite !bnd_0. cbn [Z.to_nat nth]. lia.
  - replace c with ((c - 1) + 1) at 1 2 by lia. rewrite !bnd_S by lia.
    replace (c - 1 + 1) with c by lia.
    replace (Z.to_nat c) with (S (Z.to_nat (c - 1))) by lia. cbn [nth].
    rewrite <- (IH (off + zlen p) (c - 1)) by (unfold zlen; lia).
    replace (c - 1 + 1) with c by lia. reflexivity.
Qed.

Lemma bnd_last off parts : bnd off parts (zlen parts) = off + zlen (concat parts).
Proof.
  revert off; induction parts as [|p r IH]; intros off.
  - unfold zlen; cbn. lia.
  - replace (zlen (p :: r)) with (zlen r + 1) by (unfold zlen; cbn [length]; lia).
    rewrite bnd_S by (unfold zlen; lia). rewrite IH. cbn [concat]. rewrite zlen_app. lia.
Qed.

Lemma bnd_ge off parts c : 0 <= c <= zlen parts -> off <= bnd off parts c.
Proof.
  revert off c; induction parts as [|p r IH]; intros off c Hc.
  - unfold zlen in Hc; cbn [length] in Hc. replace c with 0 by lia. rewrite bnd_0. lia.
  - destruct (Z.eq_dec c 0) as [->|Hn]; [rewrite bnd_0; lia|].
    replace c with ((c - 1) + 1) by lia. rewrite bnd_S by lia.
    rewrite zlen_cons in Hc. specialize (IH (off + zlen p) (c - 1) ltac:(lia)).
    pose proof (zlen_nonneg p). lia.
Qed.

Lemma bounds_sorted parts : sortedZ (part_bounds (map zlen parts)).
Proof.
  apply part_bounds_sorted. intros x Hx. apply in_map_iff in Hx as (p & <- & _). apply zlen_nonneg.
Qed.

Lemma bounds_length parts : zlen (part_bounds (map zlen parts)) = zlen parts + 1.
Proof. rewrite part_bounds_length. unfold zlen. rewrite map_length. reflexivity. Qed.

Lemma bounds_last parts : last (part_bounds (map zlen parts)) 0 = zlen (concat parts).
Proof. rewrite part_bounds_last. apply zsum_map_zlen. Qed.

Lemma py_first_bounds parts : py_first (part_bounds (map zlen parts)) = Some 0.
Proof. reflexivity. Qed.

Lemma py_last_bounds parts : py_last (part_bounds (map zlen parts)) = Some (zlen (concat parts)).
Proof. unfold py_last. rewrite bounds_last. reflexivity. Qed.

(* i0, i1 = bounds[c:c + 2] *)
Lemma py_pair_bnd parts c : 0 <= c < zlen parts ->
  py_pair (part_bounds (map zlen parts)) c = Some (mkbp (bnd 0 parts c) (bnd 0 parts (c + 1))).
Proof.
  intros Hc. unfold py_pair. rewrite bounds_length.
  replace ((0 <=? c) && (c + 1 <? zlen parts + 1)) with true by lia.
  rewrite !pick_nthZ by (rewrite bounds_length; lia). reflexivity.
Qed.

(* the part found by searchsorted(bounds, x, 'right') - 1 holds row x *)
Lemma find_chunk_spec parts x : 0 <= x < zlen (concat parts) ->
  let c := find_chunk (part_bounds (map zlen parts)) x in
  0 <= c < zlen parts /\ bnd 0 parts c <= x < bnd 0 parts (c + 1).
Proof.
  intros Hx c. set (B := part_bounds (map zlen parts)) in *.
  pose proof (bounds_sorted parts) as Hs. fold B in Hs.
  pose proof (bounds_length parts) as Hl. fold B in Hl.
  pose proof (ssr_range B x) as Hr.
  assert (H1 : 1 <= ssr B x).
  { unfold B, part_bounds. cbn [ssr]. replace (0 <=? x) with true by lia.
    pose proof (ssr_nonneg (cumsum_from 0 (map zlen parts)) x). lia. }
  assert (H2 : ssr B x <= zlen parts).
  { destruct (Z.eq_dec (ssr B x) (zlen B)) as [Heq|]; [|lia].
    pose proof (ssr_below B x (zlen parts) ltac:(lia)) as Hb.
    unfold B in Hb. rewrite <- bnd_bounds, bnd_last in Hb. lia. }
  unfold c, find_chunk. fold B. split; [lia|]. rewrite !bnd_bounds. fold B. split.
  - apply ssr_below. lia.
  - apply ssr_above; [assumption|]. lia.
Qed.

(* a row of the concatenation is a row of the part whose bounds enclose it *)
Lemma pick_concat off parts c j : 0 <= c < zlen parts ->
  bnd off parts c <= j < bnd off parts (c + 1) ->
  pick (concat parts) (j - off) = pick (nth (Z.to_nat c) parts []) (j - bnd off parts c).
Proof.
  revert off c; induction parts as [|p r IH]; intros off c Hc Hj.
  - unfold zlen in Hc; cbn [length] in Hc; lia.
  - rewrite zlen_cons in Hc. cbn [concat]. destruct (Z.eq_dec c 0) as [->|Hn].
    + rewrite (bnd_S off p r 0) in Hj by lia. rewrite !bnd_0 in *. cbn [Z.to_nat nth].
      apply pick_app_l. lia.
    + replace c with ((c - 1) + 1) in Hj |- * by lia. rewrite !bnd_S in * by lia.
      replace (c - 1 + 1) with c in * by lia.
      replace (Z.to_nat c) with (S (Z.to_nat (c - 1))) by lia. cbn [nth].
      pose proof (bnd_ge (off + zlen p) r (c - 1) ltac:(lia)) as Hge.
      rewrite pick_app_r by lia.
      replace (j - off - zlen p) with (j - (off + zlen p)) by lia.
      apply IH; [lia|]. replace (c - 1 + 1) with c by lia. exact Hj.
Qed.
End Parts.

(* self._mmaps[c][sub] *)
Lemma get_part_in {A} (parts : list (list (list A))) c it : 0 <= c < zlen parts ->
  get_part parts (mksub c it) = np_index (nth (Z.to_nat c) parts []) it.
Proof.
  intros Hc. unfold get_part. cbn [sub_part sub_item].
  rewrite py_norm_in by assumption. cbn [bind]. rewrite pick_nth by assumption. reflexivity.
Qed.
