(* C16/Rate.v -- the chunk length a reader derives from its sample rate (stage 5).
   phylib/io/traces.py, constructors of FlatEphysReader / ArrayEphysReader (NpyEphysReader) /
   RandomEphysReader:
       chunk_size = int(round(DEFAULT_CHUNK_DURATION * sample_rate))        DEFAULT_CHUNK_DURATION = 600.0
       self.chunk_bounds = _get_chunk_bounds([...], chunk_size=chunk_size)
   A sample rate is a Python float / int, i.e. exactly a dyadic rational num / 2^k.  The model
   computes the product exactly and rounds it the way Python's round() does (nearest integer, ties
   to the even one).  The float product 600.0 * sample_rate is the exact product rounded to 53 bits;
   [rate_exact_b] is the regime in which that rounding cannot change the result of round(): the
   product is below 2^30 (error of the float product <= 2^-23) and is either exactly a half-integer
   (then it is a float and the product is exact) or further than 2^-20 from every half-integer.
   Model, specification ("the nearest integer, the even one on a tie") and proofs in one file so
   that the files other properties import (Model, Spec, Proofs) stay as they are. *)
From Coq Require Import ZArith List Lia Bool.
From PV Require Import Base.PySlice Base.NpSearch C16.Model C16.Spec C16.Proofs.
Import ListNotations.
Open Scope Z_scope.

(* ---- model ---- *)
Definition CHUNK_DURATION : Z := 600.

(* round(num / den) for den > 0: nearest integer, ties to even *)
Definition round_half_even (num den : Z) : Z :=
  let q := num / den in
  let r := num mod den in
  if 2 * r <? den then q else if den <? 2 * r then q + 1 else if Z.even q then q else q + 1.

(* sample_rate = num / 2^k *)
Definition chunk_len_of_rate (num k : Z) : Z := round_half_even (CHUNK_DURATION * num) (2 ^ k).

(* the reader's chunk bounds from the file sizes and the sample rate *)
Definition reader_bounds_of_rate (sizes : list Z) (num k : Z) : option (list Z) :=
  get_chunk_bounds sizes (chunk_len_of_rate num k).

(* regime of the exact product (see the header) *)
Definition rate_exact_b (num k : Z) : bool :=
  let d := 2 ^ k in
  let p := CHUNK_DURATION * num in
  let r := p mod d in
  (0 <=? k) && (0 <? num) && (p <? 2 ^ 30 * d) &&
  ((2 * r =? d) || (d <=? 2 ^ 20 * Z.abs (2 * r - d))).

(* ---- specification: cs is the number of samples in num / den seconds-times-rate, to the nearest ---- *)
Definition Nearest (num den cs : Z) : Prop :=
  2 * Z.abs (den * cs - num) <= den /\ (2 * Z.abs (den * cs - num) = den -> Z.even cs = true).

(* ---- proofs ---- *)
Lemma round_half_even_nearest : forall num den, 0 < den -> Nearest num den (round_half_even num den).
Proof.
  intros num den Hd. unfold Nearest, round_half_even.
  pose proof (Z.div_mod num den ltac:(lia)) as E.
  pose proof (Z.mod_pos_bound num den Hd) as B.
  set (q := num / den) in *. set (r := num mod den) in *.
  assert (E1 : den * (q + 1) = den * q + den) by ring.
  destruct (2 * r <? den) eqn:H1; [apply Z.ltb_lt in H1 | apply Z.ltb_ge in H1].
  - split; [lia|]. intro; exfalso; lia.
  - destruct (den <? 2 * r) eqn:H2; [apply Z.ltb_lt in H2 | apply Z.ltb_ge in H2].
    + rewrite E1. split; [lia|]. intro; exfalso; lia.
    + destruct (Z.even q) eqn:H3.
      * split; [lia|]. intros _. exact H3.
      * rewrite E1. split; [lia|]. intros _.
        rewrite Z.add_1_r, Z.even_succ, <- Z.negb_even, H3. reflexivity.
Qed.

(* the nearest-even integer is unique: the model's value is THE chunk length *)
Lemma nearest_unique : forall num den a b, 0 < den -> Nearest num den a -> Nearest num den b -> a = b.
Proof.
  intros num den a b Hd [A1 A2] [B1 B2].
  assert (Hab : a = b \/ a = b + 1 \/ b = a + 1) by nia.
  destruct Hab as [H|[H|H]]; [exact H| |]; exfalso.
  - subst a. assert (T1 : 2 * Z.abs (den * (b + 1) - num) = den) by nia.
    assert (T2 : 2 * Z.abs (den * b - num) = den) by nia.
    specialize (A2 T1). specialize (B2 T2).
    rewrite Z.add_1_r, Z.even_succ, <- Z.negb_even, B2 in A2. discriminate.
  - subst b. assert (T1 : 2 * Z.abs (den * (a + 1) - num) = den) by nia.
    assert (T2 : 2 * Z.abs (den * a - num) = den) by nia.
    specialize (A2 T2). specialize (B2 T1).
    rewrite Z.add_1_r, Z.even_succ, <- Z.negb_even, A2 in B2. discriminate.
Qed.

Lemma pow2_pos : forall k, 0 <= k -> 0 < 2 ^ k.
Proof. intros. apply Z.pow_pos_nonneg; lia. Qed.

Lemma chunk_len_nearest : forall num k, 0 <= k ->
  Nearest (CHUNK_DURATION * num) (2 ^ k) (chunk_len_of_rate num k).
Proof. intros. apply round_half_even_nearest, pow2_pos; assumption. Qed.

(* very low sample rates: 600 s hold at most half a sample, the chunk length is 0 *)
Lemma chunk_len_zero : forall num k, 0 <= k -> 0 <= num -> 2 * CHUNK_DURATION * num <= 2 ^ k ->
  chunk_len_of_rate num k = 0.
Proof.
  intros num k Hk Hn H. pose proof (pow2_pos k Hk) as Hd.
  unfold chunk_len_of_rate, round_half_even. unfold CHUNK_DURATION in *.
  rewrite Z.div_small, Z.mod_small by lia.
  destruct (2 * (600 * num) <? 2 ^ k) eqn:H1; [reflexivity|].
  destruct (2 ^ k <? 2 * (600 * num)) eqn:H2; [apply Z.ltb_lt in H2; lia|]. reflexivity.
Qed.

Lemma reader_rate : forall (sizes : list Z) (num k : Z),
  sizes <> [] -> (forall x, In x sizes -> 0 <= x) -> 0 <= k -> 1 <= chunk_len_of_rate num k ->
  Nearest (CHUNK_DURATION * num) (2 ^ k) (chunk_len_of_rate num k) /\
  exists b, reader_bounds_of_rate sizes num k = Some b /\
            Bounds_Spec sizes (chunk_len_of_rate num k) b /\
            Tiles (zsum sizes) (iter_base b).
Proof.
  intros sizes num k H1 H2 Hk H3. split; [apply chunk_len_nearest; exact Hk|].
  destruct (reader_bounds sizes _ H1 H2 H3) as (b & Hb & r & -> & Hc & Hl & Hin).
  exists (0 :: r). split; [exact Hb|]. split.
  - exists r. repeat split; assumption.
  - apply iter_base_tiles; [exists r, (chunk_len_of_rate num k); split; [reflexivity|exact Hc]|exact Hl].
Qed.

Lemma reader_rate_zero : forall (sizes : list Z) (num k : Z),
  0 <= k -> 0 <= num -> 2 * CHUNK_DURATION * num <= 2 ^ k -> reader_bounds_of_rate sizes num k = None.
Proof.
  intros. unfold reader_bounds_of_rate. rewrite chunk_len_zero by assumption. reflexivity.
Qed.
