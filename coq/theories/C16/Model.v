(* C16/Model.v -- executable model of phylib's chunking code.  No proofs here.
   phylib/io/array.py: chunk_bounds, _excerpt_step, excerpts, data_chunk, get_excerpts
   phylib/io/traces.py: _get_chunk_bounds, BaseEphysReader.iter_chunks,
                        MtscompEphysReader.iter_chunks *)
From Coq Require Import ZArith List Lia Bool.
From PV Require Import Base.PySlice Base.NpSearch.
Import ListNotations.
Open Scope Z_scope.

(* (s_start, s_end, keep_start, keep_end) *)
Record chunk := mk { c_ss : Z; c_se : Z; c_ks : Z; c_ke : Z }.
(* (start, end) *)
Record iv := mkiv { lo : Z; hi : Z }.

(* ---- chunk_bounds: the while loop on explicit fuel; None = the loop did not stop ---- *)
Record cbres := mkcb { cb_list : list chunk; cb_se : Z; cb_ke : Z }.

Fixpoint cb_loop (fuel : nat) (n cs ov s_end keep_end : Z) : option cbres :=
  if s_end - ov + cs <? n then
    match fuel with
    | O => None
    | S f =>
      let s_start' := s_end - ov in
      let s_end' := s_start' + cs in
      let ke' := s_end' - ov / 2 in
      match cb_loop f n cs ov s_end' ke' with
      | None => None
      | Some r =>
          Some (mkcb ((if s_start' <? s_end' then [mk s_start' s_end' keep_end ke'] else [])
                        ++ cb_list r) (cb_se r) (cb_ke r))
      end
    end
  else Some (mkcb [] s_end keep_end).

Definition chunk_bounds (n cs ov : Z) : option (list chunk) :=
  match cb_loop (Z.to_nat n + 1) n cs ov cs (cs - ov / 2) with
  | None => None
  | Some r =>
      let se := cb_se r in
      Some (mk 0 cs 0 (cs - ov / 2) :: cb_list r ++
            (if se - ov <? n then [mk (se - ov) n (cb_ke r) n] else []))
  end.

(* data_chunk(data, chunk, with_overlap) = data[i:j] *)
(* Python's data[i:j] for arbitrary ints: negative bounds count from the end, then both are clipped *)
Definition norm_idx (n i : Z) : Z := if i <? 0 then Z.max (i + n) 0 else Z.min i n.

Inductive dc_result (A : Type) :=
| DcOk (rows : list A)
| DcValueError            (* "'chunk' should have 2 or 4 elements" *)
| DcAssertError.          (* assert isinstance(chunk, tuple) *)
Arguments DcOk {A} rows.
Arguments DcValueError {A}.
Arguments DcAssertError {A}.

Section Data.
Context {A : Type}.
Definition keep (data : list A) (c : chunk) : list A := slice data (c_ks c) (c_ke c).
Definition whole (data : list A) (c : chunk) : list A := slice data (c_ss c) (c_se c).
Definition iv_slice (data : list A) (i : iv) : list A := slice data (lo i) (hi i).

Definition pyslice (data : list A) (i j : Z) : list A :=
  let n := zlen data in slice data (norm_idx n i) (norm_idx n j).

(* data_chunk(data, chunk, with_overlap): [is_tuple] = isinstance(chunk, tuple), [t] = its elements *)
Definition data_chunk (data : list A) (is_tuple : bool) (t : list Z) (with_overlap : bool) : dc_result A :=
  if negb is_tuple then DcAssertError else
  match t with
  | [i; j] => DcOk (pyslice data i j)
  | [a; b; c; d] => if with_overlap then DcOk (pyslice data a b) else DcOk (pyslice data c d)
  | _ => DcValueError
  end.
End Data.

(* the 4-tuple yielded by chunk_bounds *)
Definition tup (c : chunk) : list Z := [c_ss c; c_se c; c_ks c; c_ke c].

(* what a consumer sees of one chunk: data_chunk(data, t, with_overlap=True) and (..., False) *)
Record part (A : Type) := mkpart { p_whole : list A; p_kept : list A }.
Arguments mkpart {A} p_whole p_kept.
Arguments p_whole {A} p.
Arguments p_kept {A} p.

Section Parts.
Context {A : Type}.
Fixpoint dc_parts (data : list A) (l : list chunk) : option (list (part A)) :=
  match l with
  | [] => Some []
  | c :: r =>
      match data_chunk data true (tup c) true, data_chunk data true (tup c) false, dc_parts data r with
      | DcOk w, DcOk k, Some ps => Some (mkpart w k :: ps)
      | _, _, _ => None
      end
  end.

(* for chunk in chunk_bounds(len(data), cs, ov): data_chunk(data, chunk, True), data_chunk(data, chunk) *)
Definition chunked_data (data : list A) (cs ov : Z) : option (list (part A)) :=
  match chunk_bounds (zlen data) cs ov with
  | None => None
  | Some l => dc_parts data l
  end.
End Parts.

(* ---- _get_chunk_bounds ---- *)
(* range(a, b, step) for step > 0 *)
Definition py_range (a b step : Z) : list Z :=
  map (fun k => a + k * step) (zrange 0 (Z.to_nat ((b - a + step - 1) / step))).

Fixpoint gcb_loop (sizes : list Z) (cs n : Z) (b : list Z) : option (list Z) :=
  match sizes with
  | [] => Some b
  | size :: rest =>
      let ch := py_range n (n + size + 1) cs in
      let ch' := match b, ch with
                 | _ :: _, c0 :: r => if c0 =? last b 0 then r else ch
                 | _, _ => ch
                 end in
      let b1 := b ++ ch' in
      match b1 with
      | [] => None                                 (* b[-1] on an empty list: IndexError *)
      | _ :: _ =>
          let b2 := if last b1 0 =? n + size then b1 else b1 ++ [n + size] in
          gcb_loop rest cs (n + size) b2
      end
  end.

Definition get_chunk_bounds (sizes : list Z) (cs : Z) : option (list Z) :=
  if 0 <? cs then gcb_loop sizes cs 0 [] else None.   (* assert chunk_size > 0 *)

(* ---- iterators ---- *)
(* BaseEphysReader.iter_chunks: zip(chunk_bounds[:-1], chunk_bounds[1:]) *)
Fixpoint iter_base (b : list Z) : list iv :=
  match b with
  | x :: ((y :: _) as r) => mkiv x y :: iter_base r
  | _ => []
  end.

(* MtscompEphysReader.iter_chunks at the level of chunk indices *)
Definition batch_iv (n bs j : Z) : iv :=
  let f := bs * j in
  let l := Z.min (bs * (j + 1)) n in
  let f' := Z.max (f - 1) 0 in
  mkiv f' (Z.max f' (l - 1)).

Fixpoint batches (n bs : Z) (j : Z) (k : nat) : list iv :=
  match k with O => [] | S k' => batch_iv n bs j :: batches n bs (j + 1) k' end.

(* n = n_chunks, bs = batch_size; n_batches = ceil(n / bs) *)
Definition iter_mtscomp_idx (n bs : Z) : option (list iv) :=
  let nb := (n + bs - 1) / bs in
  match batches n bs 0 (Z.to_nat nb) with
  | [] => None                                     (* last_chunk unbound: NameError *)
  | bl => let last' := hi (last bl (mkiv 0 0)) in Some (bl ++ [mkiv last' (last' + 1)])
  end.

Definition iter_mtscomp (cb : list Z) (bs : Z) : option (list iv) :=
  match iter_mtscomp_idx (zlen cb - 1) bs with
  | None => None
  | Some l => Some (map (fun i => mkiv (nthZ cb (lo i)) (nthZ cb (hi i))) l)
  end.

(* ---- excerpts ---- *)
Definition excerpt_step (n k size : Z) : Z := Z.max ((n - size) / (k - 1)) size.

Fixpoint exc_loop (fuel : nat) (i n step size : Z) : list iv :=
  match fuel with
  | O => []
  | S f => let start := i * step in
           if start >=? n then [] else mkiv start (Z.min (start + size) n) :: exc_loop f (i + 1) n step size
  end.

Definition excerpts (n k size : Z) : option (list iv) :=
  if 2 <=? k then Some (exc_loop (Z.to_nat k) 0 n (excerpt_step n k size) size) else None.

Section Exc.
Context {A : Type}.
(* [data_chunk(data, chunk) for chunk in excerpts(...)]: the excerpts are 2-tuples *)
Fixpoint dc_all (data : list A) (l : list iv) : option (list (list A)) :=
  match l with
  | [] => Some []
  | i :: r => match data_chunk data true [lo i; hi i] false, dc_all data r with
              | DcOk x, Some xs => Some (x :: xs)
              | _, _ => None
              end
  end.

Definition get_excerpts (data : list A) (k size : Z) : option (list A) :=
  let n := zlen data in
  if n <? k * size then Some data
  else if k =? 0 then Some []
  else if k =? 1 then Some (slice data 0 size)
  else match excerpts n k size with
       | None => None
       | Some [] => None                           (* np.concatenate([]) raises *)
       | Some l =>
           match dc_all data l with                (* data_chunk(data, chunk) for chunk in excerpts(...) *)
           | None => None
           | Some blocks =>
               let out := concat blocks in
               if zlen out <=? k * size then Some out else None   (* assert len(out) <= n_excerpts * excerpt_size *)
           end
       end.
End Exc.
