(* C16/Proofs2.v -- data_chunk on the yielded tuples, get_excerpts through data_chunk and its final
   assert, completeness of the checkers, closed forms of chunk_bounds and excerpts. *)
From Coq Require Import ZArith List Lia Bool ZifyBool.
From PV Require Import Base.PySlice Base.NpSearch C16.Model C16.Spec C16.Proofs.
Import ListNotations.
Open Scope Z_scope.

(* ================= Python slices ================= *)
Section Slices.
Context {A : Type}.

Lemma slice_to_end (l : list A) i j : zlen l <= j -> slice l i j = skipn (Z.to_nat i) l.
Proof.
  intros H. unfold slice. apply firstn_all2. rewrite skipn_length. unfold zlen in H. lia.
Qed.

Lemma slice_clip_both (l : list A) i j : 0 <= i ->
  slice l (Z.min i (zlen l)) (Z.min j (zlen l)) = slice l i j.
Proof.
  intros Hi. unfold zlen. destruct (Z_le_gt_dec (Z.of_nat (length l)) i) as [H|H].
  - rewrite (slice_beyond l i j) by lia. apply slice_beyond. lia.
  - replace (Z.min i (Z.of_nat (length l))) with i by lia.
    destruct (Z_le_gt_dec (Z.of_nat (length l)) j) as [H2|H2].
    + replace (Z.min j (Z.of_nat (length l))) with (Z.of_nat (length l)) by lia.
      rewrite !slice_to_end by (unfold zlen; lia). reflexivity.
    + f_equal. lia.
Qed.

(* for non-negative bounds Python's slice is the clipped [slice] of Base.PySlice *)
Lemma pyslice_nonneg (l : list A) i j : 0 <= i -> 0 <= j -> pyslice l i j = slice l i j.
Proof.
  intros Hi Hj. unfold pyslice, norm_idx. cbv zeta.
  replace (i <? 0) with false by lia. replace (j <? 0) with false by lia.
  apply slice_clip_both. exact Hi.
Qed.

Lemma slice_slice (l : list A) a b i j : 0 <= a -> 0 <= i ->
  slice (slice l a b) i j = slice l (a + i) (Z.min b (a + j)).
Proof.
  intros Ha Hi. unfold slice.
  rewrite skipn_firstn_comm, firstn_firstn, skipn_skipn'.
  f_equal; [|f_equal]; lia.
Qed.

Lemma infix_slice (w : list A) i j : Infix (slice w i j) w.
Proof.
  unfold Infix, slice.
  exists (firstn (Z.to_nat i) w), (skipn (Z.to_nat j - Z.to_nat i) (skipn (Z.to_nat i) w)).
  now rewrite firstn_skipn, firstn_skipn.
Qed.

Lemma infix_nil (w : list A) : Infix [] w.
Proof. exists [], w. reflexivity. Qed.

(* "each kept part lies inside its chunk's data", on the data: under [inside], the kept rows are a
   contiguous sub-block of the chunk's rows, found at offset keep_start - s_start *)
Lemma inside_keep_of_whole (data : list A) c : inside (zlen data) c ->
  keep data c = slice (whole data c) (c_ks c - c_ss c) (c_ke c - c_ss c).
Proof.
  unfold inside, keep, whole. cbv zeta. intros (H1 & H2 & H3 & H4 & [H|[H5 H6]]).
  - (* nothing is kept *)
    assert (E : slice data (c_ks c) (c_ke c) = []).
    { destruct (Z_le_gt_dec (c_ke c) (c_ks c)); [now apply slice_empty|].
      apply slice_beyond. unfold zlen in H. lia. }
    rewrite E. symmetry.
    destruct (Z_le_gt_dec (c_ke c) (c_ks c)); [apply slice_empty; lia|].
    assert (Hn : zlen data <= c_ks c) by lia.
    destruct (Z_le_gt_dec (c_ss c) (c_ks c)) as [Hs|Hs].
    + rewrite slice_slice by lia. apply slice_beyond. unfold zlen in Hn. lia.
    + rewrite (slice_beyond data (c_ss c)) by (unfold zlen in Hn; lia).
      unfold slice. now rewrite skipn_nil, firstn_nil.
  - rewrite slice_slice by lia. replace (c_ss c + (c_ks c - c_ss c)) with (c_ks c) by lia.
    replace (c_ss c + (c_ke c - c_ss c)) with (c_ke c) by lia.
    destruct (Z_le_gt_dec (c_ke c) (c_se c)); [f_equal; lia|].
    replace (Z.min (c_se c) (c_ke c)) with (c_se c) by lia.
    rewrite !(slice_to_end data (c_ks c)) by lia. reflexivity.
Qed.

Lemma inside_infix (data : list A) c : inside (zlen data) c -> Infix (keep data c) (whole data c).
Proof. intros H. rewrite (inside_keep_of_whole data c H). apply infix_slice. Qed.

(* ================= data_chunk ================= *)
Lemma data_chunk_tup (data : list A) c :
  0 <= c_ss c -> 0 <= c_se c -> 0 <= c_ks c -> 0 <= c_ke c ->
  data_chunk data true (tup c) true = DcOk (whole data c) /\
  data_chunk data true (tup c) false = DcOk (keep data c).
Proof.
  intros H1 H2 H3 H4. unfold data_chunk, tup, whole, keep. cbn [negb].
  now rewrite !pyslice_nonneg by assumption.
Qed.

Lemma data_chunk_iv (data : list A) i wo : 0 <= lo i -> 0 <= hi i ->
  data_chunk data true [lo i; hi i] wo = DcOk (iv_slice data i).
Proof.
  intros H1 H2. unfold data_chunk, iv_slice. cbn [negb]. now rewrite pyslice_nonneg by assumption.
Qed.

(* the error exits of data_chunk *)
Lemma data_chunk_errors (data : list A) (is_tuple : bool) t wo :
  (is_tuple = false -> data_chunk data is_tuple t wo = DcAssertError) /\
  (is_tuple = true -> zlen t <> 2 -> zlen t <> 4 -> data_chunk data is_tuple t wo = DcValueError) /\
  (is_tuple = true -> zlen t = 2 \/ zlen t = 4 -> exists rows, data_chunk data is_tuple t wo = DcOk rows).
Proof.
  unfold data_chunk, zlen. split; [|split].
  - now intros ->.
  - intros -> H2 H4. cbn [negb].
    destruct t as [|a [|b [|c [|d [|e t]]]]]; cbn [length] in *; try reflexivity; lia.
  - intros -> H. cbn [negb].
    destruct t as [|a [|b [|c [|d [|e t]]]]]; cbn [length] in *; try lia;
      [eexists; reflexivity|destruct wo; eexists; reflexivity].
Qed.

Lemma dc_parts_spec (data : list A) chunks : Forall (inside (zlen data)) chunks ->
  dc_parts data chunks = Some (map (fun c => mkpart (whole data c) (keep data c)) chunks).
Proof.
  induction 1 as [|c r Hc Hr IH]; [reflexivity|]. cbn [dc_parts map].
  destruct Hc as (H1 & H2 & H3 & H4 & _).
  destruct (data_chunk_tup data c H1 H3 H2 H4) as [-> ->]. now rewrite IH.
Qed.

(* chunk_bounds followed by data_chunk: what a consumer of the chunking receives *)
Theorem chunked_data_spec (data : list A) cs ov : 0 <= ov < cs ->
  exists chunks ps, chunk_bounds (zlen data) cs ov = Some chunks /\
    chunked_data data cs ov = Some ps /\
    ps = map (fun c => mkpart (whole data c) (keep data c)) chunks /\
    DC_Spec data cs ps.
Proof.
  intros Hov. destruct (chunk_bounds_tile data cs ov Hov) as (chunks & Hc & H1 & H2 & H3).
  exists chunks, (map (fun c => mkpart (whole data c) (keep data c)) chunks).
  split; [exact Hc|]. unfold chunked_data. rewrite Hc. split; [now apply dc_parts_spec|].
  split; [reflexivity|]. unfold DC_Spec. rewrite map_map. cbn [p_kept]. split; [exact H1|].
  apply Forall_forall. intros p Hp. apply in_map_iff in Hp. destruct Hp as (c & <- & Hc').
  cbn [p_kept p_whole]. rewrite Forall_forall in H2, H3.
  split; [apply inside_infix; now apply H2|now apply H3].
Qed.
End Slices.

(* ----- the data-level checker ----- *)
Lemma prefix_b_spec k w : prefix_b k w = true <-> exists b, w = k ++ b.
Proof.
  revert w; induction k as [|x k IH]; intros w; cbn [prefix_b].
  - split; [intros _; now exists w|reflexivity].
  - destruct w as [|y w].
    + split; [discriminate|intros (b & H); discriminate].
    + rewrite andb_true_iff, IH. split.
      * intros [E (b & ->)]. exists b. cbn [app]. f_equal. lia.
      * intros (b & H). cbn [app] in H. injection H as -> ->. split; [lia|now exists b].
Qed.

Lemma infix_b_spec k w : infix_b k w = true <-> Infix k w.
Proof.
  unfold Infix. induction w as [|y w IH]; cbn [infix_b]; rewrite orb_true_iff, prefix_b_spec.
  - split.
    + intros [(b & H)|H]; [|discriminate]. exists [], b. exact H.
    + intros (a & b & H). left. destruct a; [now exists b|discriminate].
  - rewrite IH. split.
    + intros [(b & H)|(a & b & H)]; [exists [], b; exact H|]. exists (y :: a), b. cbn [app]. now f_equal.
    + intros (a & b & H). destruct a as [|z a]; [left; now exists b|].
      right. cbn [app] in H. injection H as _ H. now exists a, b.
Qed.

Theorem dc_spec_b_spec n cs ps :
  dc_spec_b n cs ps = true <-> DC_Spec (zrange 0 (Z.to_nat n)) cs ps.
Proof.
  unfold dc_spec_b, DC_Spec. rewrite andb_true_iff, zlist_eqb_eq, forallb_forall, Forall_forall.
  split; intros [H1 H2]; (split; [exact H1|]); intros p Hp; specialize (H2 p Hp).
  - rewrite andb_true_iff, infix_b_spec in H2. split; [tauto|lia].
  - rewrite andb_true_iff, infix_b_spec. split; [tauto|lia].
Qed.

(* ================= completeness of the tiling checker ================= *)
Lemma zlen_zrange a k : zlen (zrange a k) = Z.of_nat k.
Proof. unfold zlen. now rewrite zrange_length. Qed.

Theorem cb_spec_b_complete n cs chunks : 0 <= n ->
  CB_Spec (zrange 0 (Z.to_nat n)) cs chunks -> cb_spec_b n cs chunks = true.
Proof.
  intros Hn (H1 & H2 & H3). unfold cb_spec_b. cbv zeta.
  rewrite zlen_zrange, Z2Nat.id in H2 by exact Hn.
  rewrite !andb_true_iff, zlist_eqb_eq, !forallb_forall. rewrite Forall_forall in H2, H3.
  split; [split; [exact H1|]|].
  - intros c Hc. apply inside_b_spec. now apply H2.
  - intros c Hc. specialize (H3 c Hc). lia.
Qed.

(* the checker accepts exactly the chunk lists that satisfy the statement for every data of that length *)
Theorem cb_spec_b_iff n cs chunks : 0 <= n ->
  (cb_spec_b n cs chunks = true <->
   forall (A : Type) (data : list A), zlen data = n -> CB_Spec data cs chunks).
Proof.
  intros Hn. split.
  - intros H A data <-. now apply cb_spec_b_sound.
  - intros H. apply cb_spec_b_complete; [exact Hn|]. apply H. rewrite zlen_zrange. lia.
Qed.

(* ================= get_excerpts (through data_chunk and the final assert) ================= *)
Section GetExc.
Context {A : Type}.

Lemma dc_all_spec (data : list A) n size l : forall p, 0 <= p -> excP n size p l ->
  dc_all data l = Some (map (iv_slice data) l).
Proof.
  induction l as [|i r IH]; intros p Hp H; [reflexivity|].
  cbn [excP] in H. destruct H as (H1 & H2 & H3 & H4 & H5).
  cbn [dc_all map]. rewrite data_chunk_iv by lia. now rewrite (IH (hi i)) by (try exact H5; lia).
Qed.

Lemma exc_blocks_len (data : list A) n size l : 0 <= size -> forall p, 0 <= p -> excP n size p l ->
  zlen (concat (map (iv_slice data) l)) <= zlen l * size.
Proof.
  intros Hs. induction l as [|i r IH]; intros p Hp H; [unfold zlen; cbn [map concat length]; lia|].
  cbn [excP] in H. destruct H as (H1 & H2 & H3 & H4 & H5).
  specialize (IH (hi i) ltac:(lia) H5). cbn [map concat]. unfold zlen in *.
  rewrite app_length. unfold iv_slice at 1. cbn [length].
  pose proof (slice_length data (lo i) (hi i) ltac:(lia)). lia.
Qed.

Theorem get_excerpts_spec (data : list A) k size : 0 <= k -> 1 <= size ->
  exists out, get_excerpts data k size = Some out /\ GetExc_Spec data k size out.
Proof.
  intros Hk Hs. unfold get_excerpts, GetExc_Spec.
  destruct (zlen data <? k * size) eqn:E; [exists data; split; reflexivity|].
  destruct (k =? 0) eqn:E0.
  { exists []. split; [reflexivity|]. exists []. split; [|reflexivity].
    split; [exact I|]. unfold zlen; cbn [length]. lia. }
  destruct (k =? 1) eqn:E1.
  { eexists. split; [reflexivity|]. exists [mkiv 0 size]. split.
    - split; [cbn [excP lo hi]; nia|]. unfold zlen; cbn [length]. lia.
    - cbn [map concat]. now rewrite app_nil_r. }
  destruct (excerpts_spec (zlen data) k size ltac:(lia) ltac:(lia)) as (l & Hl & Hspec).
  rewrite Hl. destruct l as [|i r].
  { exfalso. unfold excerpts in Hl. replace (2 <=? k) with true in Hl by lia. injection Hl as Hl.
    destruct (Z.to_nat k) as [|f] eqn:Ek; [lia|]. cbn [exc_loop] in Hl.
    replace (0 * excerpt_step (zlen data) k size >=? zlen data) with false in Hl by nia. discriminate. }
  destruct Hspec as [HP Hlen].
  rewrite (dc_all_spec data _ _ _ 0 (Z.le_refl 0) HP).
  pose proof (exc_blocks_len data (zlen data) size (i :: r) ltac:(lia) 0 ltac:(lia) HP) as Hb.
  assert (Hb2 : zlen (i :: r) * size <= k * size) by (apply Z.mul_le_mono_nonneg_r; lia).
  replace (zlen (concat (map (iv_slice data) (i :: r))) <=? k * size) with true by lia.
  eexists. split; [reflexivity|]. exists (i :: r). split; [split; assumption|reflexivity].
Qed.
End GetExc.

(* ================= excerpts: the closed form ================= *)
Lemma exc_loop_regular n step size c K :
  c <= K -> (forall i, 0 <= i < K -> (i * step < n <-> i < c)) ->
  forall fuel i, 0 <= i -> i + Z.of_nat fuel = K ->
    exc_loop fuel i n step size =
    map (fun i => mkiv (i * step) (Z.min (i * step + size) n)) (zrange i (Z.to_nat (c - i))).
Proof.
  intros HcK Hc. induction fuel as [|f IH]; intros i Hi HK; cbn [exc_loop].
  - replace (Z.to_nat (c - i)) with O by lia. reflexivity.
  - pose proof (Hc i ltac:(lia)) as Hci. destruct (i * step >=? n) eqn:E.
    + replace (Z.to_nat (c - i)) with O by lia. reflexivity.
    + replace (Z.to_nat (c - i)) with (S (Z.to_nat (c - (i + 1)))) by lia.
      cbn [zrange map]. f_equal. apply IH; lia.
Qed.

Lemma exc_count_spec n k step : 0 <= k -> 0 <= step ->
  exc_count n k step <= k /\ forall i, 0 <= i < k -> (i * step < n <-> i < exc_count n k step).
Proof.
  intros Hk Hs. unfold exc_count. destruct (step =? 0) eqn:E0.
  - replace step with 0 by lia. destruct (0 <? n) eqn:En; (split; [lia|intros i Hi; lia]).
  - split; [lia|]. intros i Hi. split; intros H.
    + apply Z.min_glb_lt; [lia|]. apply Z.lt_le_pred. unfold Z.pred.
      assert (i + 1 <= (n + step - 1) / step) by (apply Z.div_le_lower_bound; nia). lia.
    + assert (Hi' : i < (n + step - 1) / step) by lia.
      destruct (Z_lt_ge_dec (i * step) n) as [|Hge]; [assumption|exfalso].
      assert ((n + step - 1) / step < i + 1) by (apply Z.div_lt_upper_bound; nia). lia.
Qed.

Theorem excerpts_regular n k size : 2 <= k -> 0 <= size ->
  excerpts n k size = Some (exc_regular n k size).
Proof.
  intros Hk Hs. unfold excerpts, exc_regular, excerpt_step. replace (2 <=? k) with true by lia.
  cbv zeta. set (step := Z.max ((n - size) / (k - 1)) size).
  destruct (exc_count_spec n k step ltac:(lia) ltac:(lia)) as [H1 H2]. f_equal.
  rewrite (exc_loop_regular n step size (exc_count n k step) k H1 H2 (Z.to_nat k) 0) by lia.
  now rewrite Z.sub_0_r.
Qed.

(* in the regime where get_excerpts does not return the whole data (k * size <= n), all k excerpts
   are produced and each has exactly [size] samples *)
Lemma exc_count_full n k size : 2 <= k -> 1 <= size -> k * size <= n ->
  let step := Z.max ((n - size) / (k - 1)) size in
  exc_count n k step = k /\ (k - 1) * step + size <= n /\ size <= step.
Proof.
  intros Hk Hs Hn step.
  assert (Hst : (k - 1) * step + size <= n).
  { unfold step. destruct (Z.max_spec ((n - size) / (k - 1)) size) as [[_ ->]|[_ ->]]; [nia|].
    pose proof (Z.mul_div_le (n - size) (k - 1) ltac:(lia)). lia. }
  split; [|split; [exact Hst|unfold step; lia]].
  destruct (exc_count_spec n k step ltac:(lia) ltac:(unfold step; lia)) as [H1 H2].
  destruct (Z_lt_ge_dec (exc_count n k step) k) as [Hlt|]; [|lia].
  exfalso. assert (Hs1 : 1 <= step) by (unfold step; lia).
  pose proof (proj1 (H2 (k - 1) ltac:(lia)) ltac:(nia)).
  (* so k - 1 < count < k *) lia.
Qed.

Theorem get_excerpts_exact {A} (data : list A) k size : 2 <= k -> 1 <= size -> k * size <= zlen data ->
  exists out, get_excerpts data k size = Some out /\ zlen out = k * size /\
    out = concat (map (iv_slice data) (exc_regular (zlen data) k size)) /\
    zlen (exc_regular (zlen data) k size) = k /\
    Forall (fun i => hi i - lo i = size) (exc_regular (zlen data) k size).
Proof.
  intros Hk Hs Hn. set (n := zlen data) in *.
  destruct (exc_count_full n k size Hk Hs Hn) as (Hc & Hst & Hss). cbv zeta in *.
  set (step := Z.max ((n - size) / (k - 1)) size) in *.
  assert (Hreg : exc_regular n k size = map (fun i => mkiv (i * step) (i * step + size)) (zrange 0 (Z.to_nat k))).
  { unfold exc_regular. cbv zeta. fold step. rewrite Hc. apply map_ext_in. intros i Hi.
    apply zrange_ge in Hi. f_equal. nia. }
  assert (Hall : Forall (fun i => hi i - lo i = size) (exc_regular n k size)).
  { rewrite Hreg. apply Forall_forall. intros i Hi. apply in_map_iff in Hi. destruct Hi as (j & <- & _).
    cbn [lo hi]. lia. }
  assert (Hcnt : zlen (exc_regular n k size) = k).
  { rewrite Hreg. unfold zlen. rewrite map_length, zrange_length. lia. }
  destruct (get_excerpts_spec data k size ltac:(lia) Hs) as (out & Ho & _).
  exists out. split; [exact Ho|].
  unfold get_excerpts in Ho. fold n in Ho.
  replace (n <? k * size) with false in Ho by lia.
  replace (k =? 0) with false in Ho by lia. replace (k =? 1) with false in Ho by lia.
  rewrite (excerpts_regular n k size) in Ho by lia.
  destruct (excerpts_spec n k size ltac:(lia) ltac:(lia)) as (l & Hl & HP & _).
  rewrite excerpts_regular in Hl by lia. injection Hl as <-.
  destruct (exc_regular n k size) as [|i0 r0] eqn:El.
  { unfold zlen in Hcnt; cbn [length] in Hcnt; lia. }
  rewrite (dc_all_spec data _ _ _ 0 (Z.le_refl 0) HP) in Ho.
  destruct (zlen (concat (map (iv_slice data) (i0 :: r0))) <=? k * size) eqn:Ea; [|discriminate].
  injection Ho as <-.
  assert (Hlen : forall l p, 0 <= p -> excP n size p l -> Forall (fun i => hi i - lo i = size) l ->
            zlen (concat (map (iv_slice data) l)) = zlen l * size).
  { clear - Hs. induction l as [|i r IH]; intros p Hp H HF; [reflexivity|].
    cbn [excP] in H. destruct H as (H1 & H2 & H3 & H4 & H5). inversion HF as [|? ? Hi HF']; subst.
    specialize (IH (hi i) ltac:(lia) H5 HF'). cbn [map concat]. unfold zlen in *.
    rewrite app_length. unfold iv_slice at 1. cbn [length].
    pose proof (slice_length data (lo i) (hi i) ltac:(lia)). fold (zlen data) in *. nia. }
  split; [|split; [reflexivity|split; [exact Hcnt|exact Hall]]].
  change (zlen (concat (map (iv_slice data) (i0 :: r0))) = k * size).
  rewrite (Hlen _ 0 ltac:(lia) HP Hall). now rewrite Hcnt.
Qed.

(* ================= chunk_bounds: the closed form ================= *)
Lemma cb_loop_regular n cs ov m : 0 <= ov < cs -> 1 <= m ->
  (m = 1 \/ (m - 1) * (cs - ov) + cs < n) -> n <= m * (cs - ov) + cs ->
  forall k j fuel, 0 <= j -> j + 1 + Z.of_nat k = m -> (k <= fuel)%nat ->
    cb_loop fuel n cs ov (j * (cs - ov) + cs) (j * (cs - ov) + cs - ov / 2) =
    Some (mkcb (map (cb_full cs ov) (zrange (j + 1) k))
               ((m - 1) * (cs - ov) + cs) ((m - 1) * (cs - ov) + cs - ov / 2)).
Proof.
  intros Hov Hm Hlast Hstop. induction k as [|k IH]; intros j fuel Hj Hjm Hf.
  - assert (E : (j * (cs - ov) + cs - ov + cs <? n) = false) by nia.
    replace (m - 1) with j by lia.
    destruct fuel; cbn [cb_loop]; rewrite E; reflexivity.
  - destruct fuel as [|f]; [lia|]. cbn [cb_loop].
    assert (E : (j * (cs - ov) + cs - ov + cs <? n) = true) by nia. rewrite E.
    replace (j * (cs - ov) + cs - ov + cs) with ((j + 1) * (cs - ov) + cs) by ring.
    rewrite (IH (j + 1) f) by lia. cbn [cb_list cb_se cb_ke zrange map].
    replace (j * (cs - ov) + cs - ov <? (j + 1) * (cs - ov) + cs) with true by lia.
    f_equal. f_equal. cbn [app]. f_equal. unfold cb_full. cbv zeta.
    replace (j + 1 =? 0) with false by lia. f_equal; ring.
Qed.

Lemma cb_nfull_spec n cs ov : 0 <= ov < cs ->
  let m := cb_nfull n cs ov in
  1 <= m /\ (m = 1 \/ (m - 1) * (cs - ov) + cs < n) /\ n <= m * (cs - ov) + cs /\ m <= Z.max n 0 + 1.
Proof.
  intros Hov. unfold cb_nfull. cbv zeta. set (d := cs - ov). assert (Hd : 0 < d) by (unfold d; lia).
  set (q := (n - cs - 1) / d).
  pose proof (Z.mul_div_le (n - cs - 1) d Hd) as H1.
  pose proof (Z.mul_succ_div_gt (n - cs - 1) d Hd) as H2. fold q in H1, H2.
  destruct (Z.max_spec 0 q) as [[Hq ->]|[Hq ->]].
  - replace (1 + q - 1) with q by lia. repeat split; nia.
  - replace (1 + 0 - 1) with 0 by lia. repeat split; nia.
Qed.

Theorem chunk_bounds_regular n cs ov : 0 <= ov < cs ->
  chunk_bounds n cs ov = Some (cb_regular n cs ov).
Proof.
  intros Hov. destruct (cb_nfull_spec n cs ov Hov) as (H1 & H2 & H3 & H4). cbv zeta in *.
  unfold chunk_bounds, cb_regular. cbv zeta. set (m := cb_nfull n cs ov) in *.
  pose proof (cb_loop_regular n cs ov m Hov H1 H2 H3 (Z.to_nat (m - 1)) 0 (Z.to_nat n + 1)
                ltac:(lia) ltac:(lia) ltac:(lia)) as HL.
  replace (0 * (cs - ov) + cs) with cs in HL by ring. rewrite HL. cbn [cb_list cb_se cb_ke].
  replace ((m - 1) * (cs - ov) + cs - ov) with (m * (cs - ov)) by ring.
  replace (Z.to_nat m) with (S (Z.to_nat (m - 1))) by lia. cbn [zrange map app].
  replace ((m - 1) * (cs - ov) + cs - ov / 2) with (m * (cs - ov) + (ov - ov / 2)) by ring.
  reflexivity.
Qed.

(* ================= the get_excerpts checker implies the statement ================= *)
Lemma zrange_firstn a k m : (m <= k)%nat -> firstn m (zrange a k) = zrange a m.
Proof.
  intros H. replace k with (m + (k - m))%nat by lia. rewrite zrange_app, firstn_app, zrange_length.
  replace (m - m)%nat with O by lia. cbn [firstn]. rewrite app_nil_r.
  apply firstn_all2. rewrite zrange_length. lia.
Qed.

Lemma zrange_skipn a k m : (m <= k)%nat -> skipn m (zrange a k) = zrange (a + Z.of_nat m) (k - m).
Proof.
  intros H. replace k with (m + (k - m))%nat at 1 by lia. rewrite zrange_app, skipn_app, zrange_length.
  replace (m - m)%nat with O by lia. cbn [skipn].
  rewrite skipn_all2 by (rewrite zrange_length; lia). reflexivity.
Qed.

(* rows a .. b-1 of the data [0; 1; ...; N-1] are the numbers a .. b-1 *)
Lemma slice_zrange N a b : 0 <= a -> b <= Z.of_nat N ->
  slice (zrange 0 N) a b = zrange a (Z.to_nat (b - a)).
Proof.
  intros Ha Hb. destruct (Z_le_gt_dec b a) as [H|H].
  - rewrite slice_empty by lia. replace (Z.to_nat (b - a)) with O by lia. reflexivity.
  - unfold slice. rewrite zrange_skipn by lia. rewrite zrange_firstn by lia.
    f_equal; lia.
Qed.

Section GetExcChecker.
Variable n size : Z.
Hypothesis Hn : 0 <= n.
Hypothesis Hsize : 1 <= size.
Let iota := zrange 0 (Z.to_nat n).

Lemma iv_slice_iota a b : 0 <= a -> a <= b -> b <= n ->
  iv_slice iota (mkiv a b) = zrange a (Z.to_nat (b - a)).
Proof. intros. unfold iv_slice, iota. cbn [lo hi]. apply slice_zrange; lia. Qed.

Lemma ge_count_sound : forall l prev cur c s,
  ge_count size prev cur l = Some c -> 1 <= cur <= size -> s = prev - cur + 1 -> 0 <= s ->
  prev < n -> (forall x, In x l -> x < n) ->
  exists e l', prev <= e < n /\ e - s + 1 <= size /\ zlen l' = c /\ excP n size (e + 1) l' /\
    l = zrange (prev + 1) (Z.to_nat (e - prev)) ++ concat (map (iv_slice iota) l').
Proof.
  induction l as [|x r IH]; intros prev cur c s Hc Hcur Hs Hs0 Hp Hlt.
  - cbn [ge_count] in Hc. injection Hc as <-. exists prev, []. repeat split; try lia.
    replace (Z.to_nat (prev - prev)) with O by lia. reflexivity.
  - cbn [ge_count] in Hc.
    assert (Hx : x < n) by (apply Hlt; now left).
    assert (Hr : forall y, In y r -> y < n) by (intros y Hy; apply Hlt; now right).
    destruct ((x =? prev + 1) && (cur <? size)) eqn:E.
    + destruct (IH x (cur + 1) c s Hc ltac:(lia) ltac:(lia) Hs0 Hx Hr) as (e & l' & He & Hsz & Hl & HP & ->).
      exists e, l'. repeat split; try lia; try assumption.
      replace (Z.to_nat (e - prev)) with (S (Z.to_nat (e - x))) by lia. cbn [zrange app].
      f_equal; [lia|]. f_equal. f_equal. lia.
    + destruct (prev <? x) eqn:E2; [|discriminate].
      destruct (ge_count size x 1 r) as [c'|] eqn:Ec; [|discriminate]. unfold option_map in Hc.
      assert (Ecc : c = 1 + c') by congruence. clear Hc. subst c.
      destruct (IH x 1 c' x Ec ltac:(lia) ltac:(lia) ltac:(lia) Hx Hr) as (e & l' & He & Hsz & Hl & HP & ->).
      exists prev, (mkiv x (e + 1) :: l'). split; [lia|]. split; [lia|]. split; [|split].
      * unfold zlen in *. cbn [length]. lia.
      * cbn [excP lo hi]. repeat split; try lia. exact HP.
      * replace (Z.to_nat (prev - prev)) with O by lia. cbn [zrange app map concat].
        rewrite iv_slice_iota by lia.
        replace (Z.to_nat (e + 1 - x)) with (S (Z.to_nat (e - x))) by lia. reflexivity.
Qed.

Theorem getexc_b_sound k out : 0 <= k -> getexc_b n k size out = true -> GetExc_Spec iota k size out.
Proof.
  intros Hk. unfold getexc_b, GetExc_Spec.
  assert (Hz : zlen iota = n) by (unfold iota; rewrite zlen_zrange; lia). rewrite Hz.
  destruct (n <? k * size); [now rewrite zlist_eqb_eq|].
  rewrite andb_true_iff, forallb_forall. intros [Hin Hc].
  destruct out as [|x r].
  { exists []. split; [|reflexivity]. split; [exact I|]. unfold zlen; cbn [length].
    exact Hk. }
  destruct (ge_count size x 1 r) as [c|] eqn:Ec; [|discriminate].
  assert (Hx : 0 <= x < n) by (specialize (Hin x ltac:(now left)); lia).
  destruct (ge_count_sound r x 1 c x Ec ltac:(lia) ltac:(lia) ltac:(lia) ltac:(lia))
    as (e & l' & He & Hsz & Hl & HP & ->).
  { intros y Hy. specialize (Hin y ltac:(now right)). lia. }
  exists (mkiv x (e + 1) :: l'). split; [split|].
  - cbn [excP lo hi]. repeat split; try lia. exact HP.
  - unfold zlen in *. cbn [length]. lia.
  - cbn [map concat]. rewrite iv_slice_iota by lia.
    replace (Z.to_nat (e + 1 - x)) with (S (Z.to_nat (e - x))) by lia. reflexivity.
Qed.
End GetExcChecker.

(* ================= exactly when chunk_bounds terminates ================= *)
Lemma cb_loop_diverges_gen n cs ov : cs <= ov ->
  forall fuel s_end ke, s_end - ov + cs < n -> cb_loop fuel n cs ov s_end ke = None.
Proof.
  intros Hov. induction fuel as [|f IH]; intros s_end ke H; cbn [cb_loop];
    replace (s_end - ov + cs <? n) with true by lia; [reflexivity|].
  rewrite IH by lia. reflexivity.
Qed.

Lemma cb_loop_terminates n cs ov : ov < cs ->
  forall fuel s_end ke, n - s_end < Z.of_nat fuel -> exists r, cb_loop fuel n cs ov s_end ke = Some r.
Proof.
  intros Hov. induction fuel as [|f IH]; intros s_end ke H; cbn [cb_loop].
  - replace (s_end - ov + cs <? n) with false by lia. eexists; reflexivity.
  - destruct (s_end - ov + cs <? n) eqn:E; [|eexists; reflexivity].
    destruct (IH (s_end - ov + cs) (s_end - ov + cs - ov / 2) ltac:(lia)) as (r & ->).
    eexists; reflexivity.
Qed.

Theorem chunk_bounds_terminates_iff n cs ov : 0 <= n -> 0 <= cs ->
  ((exists l, chunk_bounds n cs ov = Some l) <-> (ov < cs \/ n <= 2 * cs - ov)).
Proof.
  intros Hn Hcs. unfold chunk_bounds. split.
  - intros (l & H). destruct (Z_lt_ge_dec ov cs) as [|Hge]; [now left|right].
    destruct (Z_le_gt_dec n (2 * cs - ov)) as [|Hgt]; [assumption|exfalso].
    rewrite (cb_loop_diverges_gen n cs ov ltac:(lia)) in H by lia. discriminate.
  - intros [H|H].
    + destruct (cb_loop_terminates n cs ov H (Z.to_nat n + 1) cs (cs - ov / 2) ltac:(lia)) as (r & ->).
      eexists; reflexivity.
    + destruct (Z.to_nat n + 1)%nat as [|f] eqn:Ef; [lia|]. cbn [cb_loop].
      replace (cs - ov + cs <? n) with false by lia. eexists; reflexivity.
Qed.

(* ================= the assert exits of the other helpers ================= *)
Lemma assert_exits :
  (forall sizes cs, cs <= 0 -> get_chunk_bounds sizes cs = None) /\
  (forall cs, 0 < cs -> get_chunk_bounds [] cs = Some []) /\
  (forall n k size, k < 2 -> excerpts n k size = None) /\
  (forall cb bs, 1 <= bs -> zlen cb <= 1 -> iter_mtscomp cb bs = None).
Proof.
  split; [|split; [|split]].
  - intros sizes cs H. unfold get_chunk_bounds. now replace (0 <? cs) with false by lia.
  - intros cs H. unfold get_chunk_bounds. now replace (0 <? cs) with true by lia.
  - intros n k size H. unfold excerpts. now replace (2 <=? k) with false by lia.
  - intros cb bs Hbs H. unfold iter_mtscomp, iter_mtscomp_idx.
    assert (E : (zlen cb - 1 + bs - 1) / bs <= 0).
    { apply Z.lt_succ_r. apply Z.div_lt_upper_bound; lia. }
    replace (Z.to_nat ((zlen cb - 1 + bs - 1) / bs)) with O by lia. reflexivity.
Qed.

(* ================= reading a reader chunk by chunk ================= *)
Lemma sorted_le_last : forall l z, sortedZ (z :: l) -> z <= last (z :: l) 0.
Proof.
  induction l as [|w l IHl]; intros z Hz; [cbn [last]; lia|].
  inversion Hz; subst. change (last (z :: w :: l) 0) with (last (w :: l) 0).
  specialize (IHl w ltac:(assumption)). lia.
Qed.

Lemma iter_base_chunks cs : forall r x, 0 <= x -> chainP cs x r ->
  Forall (fun i => 0 <= lo i /\ lo i < hi i /\ hi i - lo i <= cs /\ hi i <= last (x :: r) 0)
         (iter_base (x :: r)).
Proof.
  induction r as [|y r IH]; intros x Hx Hc; [constructor|].
  cbn [chainP] in Hc. destruct Hc as (Ha & Hb & Hc). cbn [iter_base].
  change (last (x :: y :: r) 0) with (last (y :: r) 0). constructor.
  - cbn [lo hi]. repeat split; try lia. apply sorted_le_last. eapply chainP_sorted; exact Hc.
  - apply IH; [lia|exact Hc].
Qed.

Theorem reader_chunks_data {A} (data : list A) sizes cs :
  sizes <> [] -> (forall x, In x sizes -> 0 <= x) -> 1 <= cs -> zlen data = zsum sizes ->
  exists b, get_chunk_bounds sizes cs = Some b /\
    concat (map (iv_slice data) (filter nonempty (iter_base b))) = data /\
    Forall (fun i => 0 <= lo i /\ lo i < hi i /\ hi i - lo i <= cs /\ hi i <= zlen data) (iter_base b).
Proof.
  intros H1 H2 H3 Hd. destruct (reader_bounds sizes cs H1 H2 H3) as (b & Hb & r & -> & Hc & Hl & _).
  exists (0 :: r). split; [exact Hb|]. split.
  - apply tiles_data. rewrite Hd. apply iter_base_tiles; [exists r, cs; split; [reflexivity|exact Hc]|exact Hl].
  - rewrite Hd, <- Hl. apply iter_base_chunks; [lia|exact Hc].
Qed.

(* ================= completeness of the get_excerpts checker ================= *)
(* The greedy run decomposition never needs more runs than any decomposition into excerpts: whatever
   the length of the run it is in, it needs at most one run more than from any other state, and
   not more when its current run is the shorter one. *)
Section GetExcComplete.
Variable n size : Z.
Hypothesis Hn : 0 <= n.
Hypothesis Hsize : 1 <= size.
Let iota := zrange 0 (Z.to_nat n).

Lemma ge_count_cmp : forall l prev a b cb, 1 <= a -> 1 <= b ->
  ge_count size prev b l = Some cb ->
  exists ca, ge_count size prev a l = Some ca /\ ca <= cb + 1 /\ (a <= b -> ca <= cb).
Proof.
  induction l as [|x r IH]; intros prev a b cb Ha Hb H; cbn [ge_count] in *.
  - injection H as <-. exists 0. repeat split; lia.
  - destruct (x =? prev + 1) eqn:Ex; cbn [andb] in *.
    + replace (prev <? x) with true in * by lia.
      destruct (b <? size) eqn:Eb.
      * destruct (a <? size) eqn:Ea.
        -- destruct (IH x (a + 1) (b + 1) cb ltac:(lia) ltac:(lia) H) as (ca & -> & H1 & H2).
           exists ca. repeat split; [lia|]. intros. apply H2. lia.
        -- destruct (IH x 1 (b + 1) cb ltac:(lia) ltac:(lia) H) as (c1 & -> & H1 & H2).
           exists (1 + c1). unfold option_map. repeat split; lia.
      * destruct (ge_count size x 1 r) as [c1|] eqn:E1; [|discriminate]. unfold option_map in H.
        assert (cb = 1 + c1) by congruence. subst cb. clear H.
        destruct (a <? size) eqn:Ea.
        -- destruct (IH x (a + 1) 1 c1 ltac:(lia) ltac:(lia) E1) as (ca & -> & H1 & H2).
           exists ca. repeat split; lia.
        -- exists (1 + c1). unfold option_map. repeat split; lia.
    + destruct (prev <? x); [|discriminate]. exists cb. repeat split; [exact H|lia|lia].
Qed.

Lemma ge_count_run : forall m prev cur R, cur + Z.of_nat m <= size ->
  ge_count size prev cur (zrange (prev + 1) m ++ R) = ge_count size (prev + Z.of_nat m) (cur + Z.of_nat m) R.
Proof.
  induction m as [|m IH]; intros prev cur R H; cbn [zrange app].
  - f_equal; lia.
  - cbn [ge_count]. rewrite Z.eqb_refl. replace (cur <? size) with true by lia. cbn [andb].
    rewrite IH by lia. f_equal; lia.
Qed.

Lemma ge_count_start prev cur a rest c1 : 1 <= cur -> prev < a ->
  ge_count size a 1 rest = Some c1 ->
  exists c0, ge_count size prev cur (a :: rest) = Some c0 /\ c0 <= 1 + c1.
Proof.
  intros Hc Hp H. cbn [ge_count]. destruct ((a =? prev + 1) && (cur <? size)).
  - destruct (ge_count_cmp rest a (cur + 1) 1 c1 ltac:(lia) ltac:(lia) H) as (ca & -> & H1 & _).
    exists ca. split; [reflexivity|lia].
  - replace (prev <? a) with true by lia. rewrite H. exists (1 + c1). split; [reflexivity|lia].
Qed.

Lemma ge_count_complete : forall l prev cur p, 1 <= cur -> prev < p -> 0 <= p -> excP n size p l ->
  exists c, ge_count size prev cur (concat (map (iv_slice iota) l)) = Some c /\ c <= zlen l.
Proof.
  induction l as [|i l IH]; intros prev cur p Hc Hp Hp0 H.
  - exists 0. split; [reflexivity|unfold zlen; cbn [length]; lia].
  - cbn [excP] in H. destruct H as (H1 & H2 & H3 & H4 & H5). cbn [map concat].
    replace (iv_slice iota i) with (zrange (lo i) (Z.to_nat (hi i - lo i))).
    2:{ symmetry. destruct i as [a b]. cbn [lo hi] in *. unfold iota. apply iv_slice_iota; lia. }
    destruct (Z.eq_dec (hi i) (lo i)) as [E|E].
    + replace (Z.to_nat (hi i - lo i)) with O by lia. cbn [zrange app].
      destruct (IH prev cur (hi i) Hc ltac:(lia) ltac:(lia) H5) as (c & -> & Hle).
      exists c. split; [reflexivity|]. unfold zlen in *. cbn [length]. lia.
    + replace (Z.to_nat (hi i - lo i)) with (S (Z.to_nat (hi i - lo i - 1))) by lia. cbn [zrange app].
      destruct (IH (hi i - 1) (hi i - lo i) (hi i) ltac:(lia) ltac:(lia) ltac:(lia) H5) as (c' & Hc' & Hle).
      assert (Hrun : ge_count size (lo i) 1 (zrange (lo i + 1) (Z.to_nat (hi i - lo i - 1)) ++
                                              concat (map (iv_slice iota) l)) = Some c').
      { rewrite ge_count_run by lia. rewrite <- Hc'. f_equal; lia. }
      destruct (ge_count_start prev cur (lo i) _ c' Hc ltac:(lia) Hrun) as (c0 & -> & Hc0).
      exists c0. split; [reflexivity|]. unfold zlen in *. cbn [length]. lia.
Qed.

Lemma in_slice_iota x a b : In x (slice iota a b) -> 0 <= x < n.
Proof.
  unfold slice. intros H.
  assert (H' : In x (skipn (Z.to_nat a) iota)).
  { rewrite <- (firstn_skipn (Z.to_nat b - Z.to_nat a) (skipn (Z.to_nat a) iota)). apply in_or_app. now left. }
  assert (H'' : In x iota).
  { rewrite <- (firstn_skipn (Z.to_nat a) iota). apply in_or_app. now right. }
  unfold iota in H''. apply zrange_ge in H''. lia.
Qed.

Theorem getexc_b_complete k out : 0 <= k -> GetExc_Spec iota k size out -> getexc_b n k size out = true.
Proof.
  intros Hk. unfold getexc_b, GetExc_Spec.
  assert (Hz : zlen iota = n) by (unfold iota; rewrite zlen_zrange; lia). rewrite Hz.
  destruct (n <? k * size); [now rewrite zlist_eqb_eq|].
  intros (l & [HP Hlen] & ->). rewrite andb_true_iff, forallb_forall. split.
  - intros x Hx. apply in_concat in Hx. destruct Hx as (blk & Hb & Hx).
    apply in_map_iff in Hb. destruct Hb as (i & <- & _). apply in_slice_iota in Hx. lia.
  - destruct (ge_count_complete l (-2) 1 0 ltac:(lia) ltac:(lia) ltac:(lia) HP) as (c & Hc & Hle).
    destruct (concat (map (iv_slice iota) l)) as [|x r] eqn:E; [reflexivity|].
    assert (Hx : 0 <= x).
    { assert (Hin : In x (concat (map (iv_slice iota) l))) by (rewrite E; now left).
      apply in_concat in Hin. destruct Hin as (blk & Hb & Hx).
      apply in_map_iff in Hb. destruct Hb as (i & <- & _). apply in_slice_iota in Hx. lia. }
    cbn [ge_count] in Hc. replace (x =? -2 + 1) with false in Hc by lia. cbn [andb] in Hc.
    replace (-2 <? x) with true in Hc by lia.
    destruct (ge_count size x 1 r) as [c1|]; [|discriminate]. unfold option_map in Hc.
    assert (c = 1 + c1) by congruence. lia.
Qed.

Theorem getexc_b_iff k out : 0 <= k -> (getexc_b n k size out = true <-> GetExc_Spec iota k size out).
Proof.
  intros Hk. split; [apply (getexc_b_sound n size Hn Hsize k out Hk)|now apply getexc_b_complete].
Qed.
End GetExcComplete.
